/-
Program-counter classes of the pool model and their evaluation on every constructor (`@[simp]`, by
`rfl`; the classes themselves are never unfolded by `simp`), plus projection lemmas for `setW`/`setC`.
The constructor-evaluation lemmas are mechanical (one per constructor and class).
-/
import Ekit.Model.Pool
namespace Ekit.Pool

/-- the worker holds `mutex` as writer -/
def wHeld : WPc → Bool
  | .intHeld | .idleHeld | .clHeld | .postLen1 | .postLen2 | .postDecide | .postGrp | .postUnlock => true
  | _ => false

@[simp] theorem wHeld_sel : wHeld .sel = false := rfl
@[simp] theorem wHeld_intWant : wHeld .intWant = false := rfl
@[simp] theorem wHeld_intHeld : wHeld .intHeld = true := rfl
@[simp] theorem wHeld_idleWant : wHeld .idleWant = false := rfl
@[simp] theorem wHeld_idleHeld : wHeld .idleHeld = true := rfl
@[simp] theorem wHeld_recvd : wHeld .recvd = false := rfl
@[simp] theorem wHeld_clWant : wHeld .clWant = false := rfl
@[simp] theorem wHeld_clHeld : wHeld .clHeld = true := rfl
@[simp] theorem wHeld_clNumWant : wHeld .clNumWant = false := rfl
@[simp] theorem wHeld_clNumHeld : wHeld .clNumHeld = false := rfl
@[simp] theorem wHeld_clCas : wHeld .clCas = false := rfl
@[simp] theorem wHeld_clCancel : wHeld .clCancel = false := rfl
@[simp] theorem wHeld_incRun : wHeld .incRun = false := rfl
@[simp] theorem wHeld_running : wHeld .running = false := rfl
@[simp] theorem wHeld_panicked : wHeld .panicked = false := rfl
@[simp] theorem wHeld_decRun : wHeld .decRun = false := rfl
@[simp] theorem wHeld_postWant : wHeld .postWant = false := rfl
@[simp] theorem wHeld_postLen1 : wHeld .postLen1 = true := rfl
@[simp] theorem wHeld_postLen2 : wHeld .postLen2 = true := rfl
@[simp] theorem wHeld_postDecide : wHeld .postDecide = true := rfl
@[simp] theorem wHeld_postGrp : wHeld .postGrp = true := rfl
@[simp] theorem wHeld_postUnlock : wHeld .postUnlock = true := rfl
@[simp] theorem wHeld_exited : wHeld .exited = false := rfl

/-- the worker is still counted in `totalGo` (has not executed its decrement) -/
def live : WPc → Bool
  | .sel | .intWant | .intHeld | .idleWant | .idleHeld | .recvd | .clWant | .clHeld | .incRun | .running | .panicked | .decRun | .postWant | .postLen1 | .postLen2 | .postDecide | .postGrp | .postUnlock => true
  | _ => false

@[simp] theorem live_sel : live .sel = true := rfl
@[simp] theorem live_intWant : live .intWant = true := rfl
@[simp] theorem live_intHeld : live .intHeld = true := rfl
@[simp] theorem live_idleWant : live .idleWant = true := rfl
@[simp] theorem live_idleHeld : live .idleHeld = true := rfl
@[simp] theorem live_recvd : live .recvd = true := rfl
@[simp] theorem live_clWant : live .clWant = true := rfl
@[simp] theorem live_clHeld : live .clHeld = true := rfl
@[simp] theorem live_clNumWant : live .clNumWant = false := rfl
@[simp] theorem live_clNumHeld : live .clNumHeld = false := rfl
@[simp] theorem live_clCas : live .clCas = false := rfl
@[simp] theorem live_clCancel : live .clCancel = false := rfl
@[simp] theorem live_incRun : live .incRun = true := rfl
@[simp] theorem live_running : live .running = true := rfl
@[simp] theorem live_panicked : live .panicked = true := rfl
@[simp] theorem live_decRun : live .decRun = true := rfl
@[simp] theorem live_postWant : live .postWant = true := rfl
@[simp] theorem live_postLen1 : live .postLen1 = true := rfl
@[simp] theorem live_postLen2 : live .postLen2 = true := rfl
@[simp] theorem live_postDecide : live .postDecide = true := rfl
@[simp] theorem live_postGrp : live .postGrp = true := rfl
@[simp] theorem live_postUnlock : live .postUnlock = true := rfl
@[simp] theorem live_exited : live .exited = false := rfl

/-- inside `task.Run` (incl. the wrapper's recover) -/
def execPc : WPc → Bool
  | .running | .panicked => true
  | _ => false

@[simp] theorem execPc_sel : execPc .sel = false := rfl
@[simp] theorem execPc_intWant : execPc .intWant = false := rfl
@[simp] theorem execPc_intHeld : execPc .intHeld = false := rfl
@[simp] theorem execPc_idleWant : execPc .idleWant = false := rfl
@[simp] theorem execPc_idleHeld : execPc .idleHeld = false := rfl
@[simp] theorem execPc_recvd : execPc .recvd = false := rfl
@[simp] theorem execPc_clWant : execPc .clWant = false := rfl
@[simp] theorem execPc_clHeld : execPc .clHeld = false := rfl
@[simp] theorem execPc_clNumWant : execPc .clNumWant = false := rfl
@[simp] theorem execPc_clNumHeld : execPc .clNumHeld = false := rfl
@[simp] theorem execPc_clCas : execPc .clCas = false := rfl
@[simp] theorem execPc_clCancel : execPc .clCancel = false := rfl
@[simp] theorem execPc_incRun : execPc .incRun = false := rfl
@[simp] theorem execPc_running : execPc .running = true := rfl
@[simp] theorem execPc_panicked : execPc .panicked = true := rfl
@[simp] theorem execPc_decRun : execPc .decRun = false := rfl
@[simp] theorem execPc_postWant : execPc .postWant = false := rfl
@[simp] theorem execPc_postLen1 : execPc .postLen1 = false := rfl
@[simp] theorem execPc_postLen2 : execPc .postLen2 = false := rfl
@[simp] theorem execPc_postDecide : execPc .postDecide = false := rfl
@[simp] theorem execPc_postGrp : execPc .postGrp = false := rfl
@[simp] theorem execPc_postUnlock : execPc .postUnlock = false := rfl
@[simp] theorem execPc_exited : execPc .exited = false := rfl

/-- on the `!ok` exit path after the receive -/
def clPath : WPc → Bool
  | .clWant | .clHeld | .clNumWant | .clNumHeld | .clCas | .clCancel => true
  | _ => false

@[simp] theorem clPath_sel : clPath .sel = false := rfl
@[simp] theorem clPath_intWant : clPath .intWant = false := rfl
@[simp] theorem clPath_intHeld : clPath .intHeld = false := rfl
@[simp] theorem clPath_idleWant : clPath .idleWant = false := rfl
@[simp] theorem clPath_idleHeld : clPath .idleHeld = false := rfl
@[simp] theorem clPath_recvd : clPath .recvd = false := rfl
@[simp] theorem clPath_clWant : clPath .clWant = true := rfl
@[simp] theorem clPath_clHeld : clPath .clHeld = true := rfl
@[simp] theorem clPath_clNumWant : clPath .clNumWant = true := rfl
@[simp] theorem clPath_clNumHeld : clPath .clNumHeld = true := rfl
@[simp] theorem clPath_clCas : clPath .clCas = true := rfl
@[simp] theorem clPath_clCancel : clPath .clCancel = true := rfl
@[simp] theorem clPath_incRun : clPath .incRun = false := rfl
@[simp] theorem clPath_running : clPath .running = false := rfl
@[simp] theorem clPath_panicked : clPath .panicked = false := rfl
@[simp] theorem clPath_decRun : clPath .decRun = false := rfl
@[simp] theorem clPath_postWant : clPath .postWant = false := rfl
@[simp] theorem clPath_postLen1 : clPath .postLen1 = false := rfl
@[simp] theorem clPath_postLen2 : clPath .postLen2 = false := rfl
@[simp] theorem clPath_postDecide : clPath .postDecide = false := rfl
@[simp] theorem clPath_postGrp : clPath .postGrp = false := rfl
@[simp] theorem clPath_postUnlock : clPath .postUnlock = false := rfl
@[simp] theorem clPath_exited : clPath .exited = false := rfl

/-- on the interrupt exit path -/
def intPath : WPc → Bool
  | .intWant | .intHeld => true
  | _ => false

@[simp] theorem intPath_sel : intPath .sel = false := rfl
@[simp] theorem intPath_intWant : intPath .intWant = true := rfl
@[simp] theorem intPath_intHeld : intPath .intHeld = true := rfl
@[simp] theorem intPath_idleWant : intPath .idleWant = false := rfl
@[simp] theorem intPath_idleHeld : intPath .idleHeld = false := rfl
@[simp] theorem intPath_recvd : intPath .recvd = false := rfl
@[simp] theorem intPath_clWant : intPath .clWant = false := rfl
@[simp] theorem intPath_clHeld : intPath .clHeld = false := rfl
@[simp] theorem intPath_clNumWant : intPath .clNumWant = false := rfl
@[simp] theorem intPath_clNumHeld : intPath .clNumHeld = false := rfl
@[simp] theorem intPath_clCas : intPath .clCas = false := rfl
@[simp] theorem intPath_clCancel : intPath .clCancel = false := rfl
@[simp] theorem intPath_incRun : intPath .incRun = false := rfl
@[simp] theorem intPath_running : intPath .running = false := rfl
@[simp] theorem intPath_panicked : intPath .panicked = false := rfl
@[simp] theorem intPath_decRun : intPath .decRun = false := rfl
@[simp] theorem intPath_postWant : intPath .postWant = false := rfl
@[simp] theorem intPath_postLen1 : intPath .postLen1 = false := rfl
@[simp] theorem intPath_postLen2 : intPath .postLen2 = false := rfl
@[simp] theorem intPath_postDecide : intPath .postDecide = false := rfl
@[simp] theorem intPath_postGrp : intPath .postGrp = false := rfl
@[simp] theorem intPath_postUnlock : intPath .postUnlock = false := rfl
@[simp] theorem intPath_exited : intPath .exited = false := rfl

/-- past its decrement on the `!ok` path: may still perform closing→stopped and cancel -/
def finisher : WPc → Bool
  | .clNumWant | .clNumHeld | .clCas | .clCancel => true
  | _ => false

@[simp] theorem finisher_sel : finisher .sel = false := rfl
@[simp] theorem finisher_intWant : finisher .intWant = false := rfl
@[simp] theorem finisher_intHeld : finisher .intHeld = false := rfl
@[simp] theorem finisher_idleWant : finisher .idleWant = false := rfl
@[simp] theorem finisher_idleHeld : finisher .idleHeld = false := rfl
@[simp] theorem finisher_recvd : finisher .recvd = false := rfl
@[simp] theorem finisher_clWant : finisher .clWant = false := rfl
@[simp] theorem finisher_clHeld : finisher .clHeld = false := rfl
@[simp] theorem finisher_clNumWant : finisher .clNumWant = true := rfl
@[simp] theorem finisher_clNumHeld : finisher .clNumHeld = true := rfl
@[simp] theorem finisher_clCas : finisher .clCas = true := rfl
@[simp] theorem finisher_clCancel : finisher .clCancel = true := rfl
@[simp] theorem finisher_incRun : finisher .incRun = false := rfl
@[simp] theorem finisher_running : finisher .running = false := rfl
@[simp] theorem finisher_panicked : finisher .panicked = false := rfl
@[simp] theorem finisher_decRun : finisher .decRun = false := rfl
@[simp] theorem finisher_postWant : finisher .postWant = false := rfl
@[simp] theorem finisher_postLen1 : finisher .postLen1 = false := rfl
@[simp] theorem finisher_postLen2 : finisher .postLen2 = false := rfl
@[simp] theorem finisher_postDecide : finisher .postDecide = false := rfl
@[simp] theorem finisher_postGrp : finisher .postGrp = false := rfl
@[simp] theorem finisher_postUnlock : finisher .postUnlock = false := rfl
@[simp] theorem finisher_exited : finisher .exited = false := rfl

/-- inside the critical section of the `state` spin lock -/
def crit : CPc → Bool
  | .subSel | .subAllowWant | .subAllowHeld | .subIncWant | .subIncHeld | .subSpawn | .subUnlock | .stNum | .stIncWant | .stIncHeld | .stSpawn => true
  | _ => false

@[simp] theorem crit_idle : crit .idle = false := rfl
@[simp] theorem crit_subLoad1 : crit .subLoad1 = false := rfl
@[simp] theorem crit_subLoad2 : crit .subLoad2 = false := rfl
@[simp] theorem crit_subCas1 : crit .subCas1 = false := rfl
@[simp] theorem crit_subCas2 : crit .subCas2 = false := rfl
@[simp] theorem crit_subSel : crit .subSel = true := rfl
@[simp] theorem crit_subAllowWant : crit .subAllowWant = true := rfl
@[simp] theorem crit_subAllowHeld : crit .subAllowHeld = true := rfl
@[simp] theorem crit_subIncWant : crit .subIncWant = true := rfl
@[simp] theorem crit_subIncHeld : crit .subIncHeld = true := rfl
@[simp] theorem crit_subSpawn : crit .subSpawn = true := rfl
@[simp] theorem crit_subUnlock : crit .subUnlock = true := rfl
@[simp] theorem crit_stLoad1 : crit .stLoad1 = false := rfl
@[simp] theorem crit_stLoad2 : crit .stLoad2 = false := rfl
@[simp] theorem crit_stLoad3 : crit .stLoad3 = false := rfl
@[simp] theorem crit_stCas : crit .stCas = false := rfl
@[simp] theorem crit_stNum : crit .stNum = true := rfl
@[simp] theorem crit_stIncWant : crit .stIncWant = true := rfl
@[simp] theorem crit_stIncHeld : crit .stIncHeld = true := rfl
@[simp] theorem crit_stSpawn : crit .stSpawn = true := rfl
@[simp] theorem crit_sdLoad1 : crit .sdLoad1 = false := rfl
@[simp] theorem crit_sdLoad2 : crit .sdLoad2 = false := rfl
@[simp] theorem crit_sdLoad3 : crit .sdLoad3 = false := rfl
@[simp] theorem crit_sdCas : crit .sdCas = false := rfl
@[simp] theorem crit_sdClose : crit .sdClose = false := rfl
@[simp] theorem crit_snLoad1 : crit .snLoad1 = false := rfl
@[simp] theorem crit_snLoad2 : crit .snLoad2 = false := rfl
@[simp] theorem crit_snLoad3 : crit .snLoad3 = false := rfl
@[simp] theorem crit_snCas : crit .snCas = false := rfl
@[simp] theorem crit_snClose : crit .snClose = false := rfl
@[simp] theorem crit_snCancel : crit .snCancel = false := rfl
@[simp] theorem crit_snDrain : crit .snDrain = false := rfl
@[simp] theorem crit_gsWant : crit .gsWant = false := rfl
@[simp] theorem crit_gsHeld : crit .gsHeld = false := rfl
@[simp] theorem crit_ret : crit .ret = false := rfl

/-- the caller holds `mutex` as writer -/
def cHeld : CPc → Bool
  | .subIncHeld | .stIncHeld => true
  | _ => false

@[simp] theorem cHeld_idle : cHeld .idle = false := rfl
@[simp] theorem cHeld_subLoad1 : cHeld .subLoad1 = false := rfl
@[simp] theorem cHeld_subLoad2 : cHeld .subLoad2 = false := rfl
@[simp] theorem cHeld_subCas1 : cHeld .subCas1 = false := rfl
@[simp] theorem cHeld_subCas2 : cHeld .subCas2 = false := rfl
@[simp] theorem cHeld_subSel : cHeld .subSel = false := rfl
@[simp] theorem cHeld_subAllowWant : cHeld .subAllowWant = false := rfl
@[simp] theorem cHeld_subAllowHeld : cHeld .subAllowHeld = false := rfl
@[simp] theorem cHeld_subIncWant : cHeld .subIncWant = false := rfl
@[simp] theorem cHeld_subIncHeld : cHeld .subIncHeld = true := rfl
@[simp] theorem cHeld_subSpawn : cHeld .subSpawn = false := rfl
@[simp] theorem cHeld_subUnlock : cHeld .subUnlock = false := rfl
@[simp] theorem cHeld_stLoad1 : cHeld .stLoad1 = false := rfl
@[simp] theorem cHeld_stLoad2 : cHeld .stLoad2 = false := rfl
@[simp] theorem cHeld_stLoad3 : cHeld .stLoad3 = false := rfl
@[simp] theorem cHeld_stCas : cHeld .stCas = false := rfl
@[simp] theorem cHeld_stNum : cHeld .stNum = false := rfl
@[simp] theorem cHeld_stIncWant : cHeld .stIncWant = false := rfl
@[simp] theorem cHeld_stIncHeld : cHeld .stIncHeld = true := rfl
@[simp] theorem cHeld_stSpawn : cHeld .stSpawn = false := rfl
@[simp] theorem cHeld_sdLoad1 : cHeld .sdLoad1 = false := rfl
@[simp] theorem cHeld_sdLoad2 : cHeld .sdLoad2 = false := rfl
@[simp] theorem cHeld_sdLoad3 : cHeld .sdLoad3 = false := rfl
@[simp] theorem cHeld_sdCas : cHeld .sdCas = false := rfl
@[simp] theorem cHeld_sdClose : cHeld .sdClose = false := rfl
@[simp] theorem cHeld_snLoad1 : cHeld .snLoad1 = false := rfl
@[simp] theorem cHeld_snLoad2 : cHeld .snLoad2 = false := rfl
@[simp] theorem cHeld_snLoad3 : cHeld .snLoad3 = false := rfl
@[simp] theorem cHeld_snCas : cHeld .snCas = false := rfl
@[simp] theorem cHeld_snClose : cHeld .snClose = false := rfl
@[simp] theorem cHeld_snCancel : cHeld .snCancel = false := rfl
@[simp] theorem cHeld_snDrain : cHeld .snDrain = false := rfl
@[simp] theorem cHeld_gsWant : cHeld .gsWant = false := rfl
@[simp] theorem cHeld_gsHeld : cHeld .gsHeld = false := rfl
@[simp] theorem cHeld_ret : cHeld .ret = false := rfl

/-- Submit before the select of trySubmit completed -/
def preSend : CPc → Bool
  | .subLoad1 | .subLoad2 | .subCas1 | .subCas2 | .subSel => true
  | _ => false

@[simp] theorem preSend_idle : preSend .idle = false := rfl
@[simp] theorem preSend_subLoad1 : preSend .subLoad1 = true := rfl
@[simp] theorem preSend_subLoad2 : preSend .subLoad2 = true := rfl
@[simp] theorem preSend_subCas1 : preSend .subCas1 = true := rfl
@[simp] theorem preSend_subCas2 : preSend .subCas2 = true := rfl
@[simp] theorem preSend_subSel : preSend .subSel = true := rfl
@[simp] theorem preSend_subAllowWant : preSend .subAllowWant = false := rfl
@[simp] theorem preSend_subAllowHeld : preSend .subAllowHeld = false := rfl
@[simp] theorem preSend_subIncWant : preSend .subIncWant = false := rfl
@[simp] theorem preSend_subIncHeld : preSend .subIncHeld = false := rfl
@[simp] theorem preSend_subSpawn : preSend .subSpawn = false := rfl
@[simp] theorem preSend_subUnlock : preSend .subUnlock = false := rfl
@[simp] theorem preSend_stLoad1 : preSend .stLoad1 = false := rfl
@[simp] theorem preSend_stLoad2 : preSend .stLoad2 = false := rfl
@[simp] theorem preSend_stLoad3 : preSend .stLoad3 = false := rfl
@[simp] theorem preSend_stCas : preSend .stCas = false := rfl
@[simp] theorem preSend_stNum : preSend .stNum = false := rfl
@[simp] theorem preSend_stIncWant : preSend .stIncWant = false := rfl
@[simp] theorem preSend_stIncHeld : preSend .stIncHeld = false := rfl
@[simp] theorem preSend_stSpawn : preSend .stSpawn = false := rfl
@[simp] theorem preSend_sdLoad1 : preSend .sdLoad1 = false := rfl
@[simp] theorem preSend_sdLoad2 : preSend .sdLoad2 = false := rfl
@[simp] theorem preSend_sdLoad3 : preSend .sdLoad3 = false := rfl
@[simp] theorem preSend_sdCas : preSend .sdCas = false := rfl
@[simp] theorem preSend_sdClose : preSend .sdClose = false := rfl
@[simp] theorem preSend_snLoad1 : preSend .snLoad1 = false := rfl
@[simp] theorem preSend_snLoad2 : preSend .snLoad2 = false := rfl
@[simp] theorem preSend_snLoad3 : preSend .snLoad3 = false := rfl
@[simp] theorem preSend_snCas : preSend .snCas = false := rfl
@[simp] theorem preSend_snClose : preSend .snClose = false := rfl
@[simp] theorem preSend_snCancel : preSend .snCancel = false := rfl
@[simp] theorem preSend_snDrain : preSend .snDrain = false := rfl
@[simp] theorem preSend_gsWant : preSend .gsWant = false := rfl
@[simp] theorem preSend_gsHeld : preSend .gsHeld = false := rfl
@[simp] theorem preSend_ret : preSend .ret = false := rfl

/-- trySubmit after the send -/
def postSend : CPc → Bool
  | .subAllowWant | .subAllowHeld | .subIncWant | .subIncHeld | .subSpawn => true
  | _ => false

@[simp] theorem postSend_idle : postSend .idle = false := rfl
@[simp] theorem postSend_subLoad1 : postSend .subLoad1 = false := rfl
@[simp] theorem postSend_subLoad2 : postSend .subLoad2 = false := rfl
@[simp] theorem postSend_subCas1 : postSend .subCas1 = false := rfl
@[simp] theorem postSend_subCas2 : postSend .subCas2 = false := rfl
@[simp] theorem postSend_subSel : postSend .subSel = false := rfl
@[simp] theorem postSend_subAllowWant : postSend .subAllowWant = true := rfl
@[simp] theorem postSend_subAllowHeld : postSend .subAllowHeld = true := rfl
@[simp] theorem postSend_subIncWant : postSend .subIncWant = true := rfl
@[simp] theorem postSend_subIncHeld : postSend .subIncHeld = true := rfl
@[simp] theorem postSend_subSpawn : postSend .subSpawn = true := rfl
@[simp] theorem postSend_subUnlock : postSend .subUnlock = false := rfl
@[simp] theorem postSend_stLoad1 : postSend .stLoad1 = false := rfl
@[simp] theorem postSend_stLoad2 : postSend .stLoad2 = false := rfl
@[simp] theorem postSend_stLoad3 : postSend .stLoad3 = false := rfl
@[simp] theorem postSend_stCas : postSend .stCas = false := rfl
@[simp] theorem postSend_stNum : postSend .stNum = false := rfl
@[simp] theorem postSend_stIncWant : postSend .stIncWant = false := rfl
@[simp] theorem postSend_stIncHeld : postSend .stIncHeld = false := rfl
@[simp] theorem postSend_stSpawn : postSend .stSpawn = false := rfl
@[simp] theorem postSend_sdLoad1 : postSend .sdLoad1 = false := rfl
@[simp] theorem postSend_sdLoad2 : postSend .sdLoad2 = false := rfl
@[simp] theorem postSend_sdLoad3 : postSend .sdLoad3 = false := rfl
@[simp] theorem postSend_sdCas : postSend .sdCas = false := rfl
@[simp] theorem postSend_sdClose : postSend .sdClose = false := rfl
@[simp] theorem postSend_snLoad1 : postSend .snLoad1 = false := rfl
@[simp] theorem postSend_snLoad2 : postSend .snLoad2 = false := rfl
@[simp] theorem postSend_snLoad3 : postSend .snLoad3 = false := rfl
@[simp] theorem postSend_snCas : postSend .snCas = false := rfl
@[simp] theorem postSend_snClose : postSend .snClose = false := rfl
@[simp] theorem postSend_snCancel : postSend .snCancel = false := rfl
@[simp] theorem postSend_snDrain : postSend .snDrain = false := rfl
@[simp] theorem postSend_gsWant : postSend .gsWant = false := rfl
@[simp] theorem postSend_gsHeld : postSend .gsHeld = false := rfl
@[simp] theorem postSend_ret : postSend .ret = false := rfl

/-- Submit between the positive allowToCreateGoroutine answer and the increment -/
def growPc : CPc → Bool
  | .subIncWant | .subIncHeld => true
  | _ => false

@[simp] theorem growPc_idle : growPc .idle = false := rfl
@[simp] theorem growPc_subLoad1 : growPc .subLoad1 = false := rfl
@[simp] theorem growPc_subLoad2 : growPc .subLoad2 = false := rfl
@[simp] theorem growPc_subCas1 : growPc .subCas1 = false := rfl
@[simp] theorem growPc_subCas2 : growPc .subCas2 = false := rfl
@[simp] theorem growPc_subSel : growPc .subSel = false := rfl
@[simp] theorem growPc_subAllowWant : growPc .subAllowWant = false := rfl
@[simp] theorem growPc_subAllowHeld : growPc .subAllowHeld = false := rfl
@[simp] theorem growPc_subIncWant : growPc .subIncWant = true := rfl
@[simp] theorem growPc_subIncHeld : growPc .subIncHeld = true := rfl
@[simp] theorem growPc_subSpawn : growPc .subSpawn = false := rfl
@[simp] theorem growPc_subUnlock : growPc .subUnlock = false := rfl
@[simp] theorem growPc_stLoad1 : growPc .stLoad1 = false := rfl
@[simp] theorem growPc_stLoad2 : growPc .stLoad2 = false := rfl
@[simp] theorem growPc_stLoad3 : growPc .stLoad3 = false := rfl
@[simp] theorem growPc_stCas : growPc .stCas = false := rfl
@[simp] theorem growPc_stNum : growPc .stNum = false := rfl
@[simp] theorem growPc_stIncWant : growPc .stIncWant = false := rfl
@[simp] theorem growPc_stIncHeld : growPc .stIncHeld = false := rfl
@[simp] theorem growPc_stSpawn : growPc .stSpawn = false := rfl
@[simp] theorem growPc_sdLoad1 : growPc .sdLoad1 = false := rfl
@[simp] theorem growPc_sdLoad2 : growPc .sdLoad2 = false := rfl
@[simp] theorem growPc_sdLoad3 : growPc .sdLoad3 = false := rfl
@[simp] theorem growPc_sdCas : growPc .sdCas = false := rfl
@[simp] theorem growPc_sdClose : growPc .sdClose = false := rfl
@[simp] theorem growPc_snLoad1 : growPc .snLoad1 = false := rfl
@[simp] theorem growPc_snLoad2 : growPc .snLoad2 = false := rfl
@[simp] theorem growPc_snLoad3 : growPc .snLoad3 = false := rfl
@[simp] theorem growPc_snCas : growPc .snCas = false := rfl
@[simp] theorem growPc_snClose : growPc .snClose = false := rfl
@[simp] theorem growPc_snCancel : growPc .snCancel = false := rfl
@[simp] theorem growPc_snDrain : growPc .snDrain = false := rfl
@[simp] theorem growPc_gsWant : growPc .gsWant = false := rfl
@[simp] theorem growPc_gsHeld : growPc .gsHeld = false := rfl
@[simp] theorem growPc_ret : growPc .ret = false := rfl

/-- Start before its increment of totalGo -/
def stPre : CPc → Bool
  | .stNum | .stIncWant | .stIncHeld => true
  | _ => false

@[simp] theorem stPre_idle : stPre .idle = false := rfl
@[simp] theorem stPre_subLoad1 : stPre .subLoad1 = false := rfl
@[simp] theorem stPre_subLoad2 : stPre .subLoad2 = false := rfl
@[simp] theorem stPre_subCas1 : stPre .subCas1 = false := rfl
@[simp] theorem stPre_subCas2 : stPre .subCas2 = false := rfl
@[simp] theorem stPre_subSel : stPre .subSel = false := rfl
@[simp] theorem stPre_subAllowWant : stPre .subAllowWant = false := rfl
@[simp] theorem stPre_subAllowHeld : stPre .subAllowHeld = false := rfl
@[simp] theorem stPre_subIncWant : stPre .subIncWant = false := rfl
@[simp] theorem stPre_subIncHeld : stPre .subIncHeld = false := rfl
@[simp] theorem stPre_subSpawn : stPre .subSpawn = false := rfl
@[simp] theorem stPre_subUnlock : stPre .subUnlock = false := rfl
@[simp] theorem stPre_stLoad1 : stPre .stLoad1 = false := rfl
@[simp] theorem stPre_stLoad2 : stPre .stLoad2 = false := rfl
@[simp] theorem stPre_stLoad3 : stPre .stLoad3 = false := rfl
@[simp] theorem stPre_stCas : stPre .stCas = false := rfl
@[simp] theorem stPre_stNum : stPre .stNum = true := rfl
@[simp] theorem stPre_stIncWant : stPre .stIncWant = true := rfl
@[simp] theorem stPre_stIncHeld : stPre .stIncHeld = true := rfl
@[simp] theorem stPre_stSpawn : stPre .stSpawn = false := rfl
@[simp] theorem stPre_sdLoad1 : stPre .sdLoad1 = false := rfl
@[simp] theorem stPre_sdLoad2 : stPre .sdLoad2 = false := rfl
@[simp] theorem stPre_sdLoad3 : stPre .sdLoad3 = false := rfl
@[simp] theorem stPre_sdCas : stPre .sdCas = false := rfl
@[simp] theorem stPre_sdClose : stPre .sdClose = false := rfl
@[simp] theorem stPre_snLoad1 : stPre .snLoad1 = false := rfl
@[simp] theorem stPre_snLoad2 : stPre .snLoad2 = false := rfl
@[simp] theorem stPre_snLoad3 : stPre .snLoad3 = false := rfl
@[simp] theorem stPre_snCas : stPre .snCas = false := rfl
@[simp] theorem stPre_snClose : stPre .snClose = false := rfl
@[simp] theorem stPre_snCancel : stPre .snCancel = false := rfl
@[simp] theorem stPre_snDrain : stPre .snDrain = false := rfl
@[simp] theorem stPre_gsWant : stPre .gsWant = false := rfl
@[simp] theorem stPre_gsHeld : stPre .gsHeld = false := rfl
@[simp] theorem stPre_ret : stPre .ret = false := rfl

/-- about to close the queue -/
def pcClose : CPc → Bool
  | .sdClose | .snClose => true
  | _ => false

@[simp] theorem pcClose_idle : pcClose .idle = false := rfl
@[simp] theorem pcClose_subLoad1 : pcClose .subLoad1 = false := rfl
@[simp] theorem pcClose_subLoad2 : pcClose .subLoad2 = false := rfl
@[simp] theorem pcClose_subCas1 : pcClose .subCas1 = false := rfl
@[simp] theorem pcClose_subCas2 : pcClose .subCas2 = false := rfl
@[simp] theorem pcClose_subSel : pcClose .subSel = false := rfl
@[simp] theorem pcClose_subAllowWant : pcClose .subAllowWant = false := rfl
@[simp] theorem pcClose_subAllowHeld : pcClose .subAllowHeld = false := rfl
@[simp] theorem pcClose_subIncWant : pcClose .subIncWant = false := rfl
@[simp] theorem pcClose_subIncHeld : pcClose .subIncHeld = false := rfl
@[simp] theorem pcClose_subSpawn : pcClose .subSpawn = false := rfl
@[simp] theorem pcClose_subUnlock : pcClose .subUnlock = false := rfl
@[simp] theorem pcClose_stLoad1 : pcClose .stLoad1 = false := rfl
@[simp] theorem pcClose_stLoad2 : pcClose .stLoad2 = false := rfl
@[simp] theorem pcClose_stLoad3 : pcClose .stLoad3 = false := rfl
@[simp] theorem pcClose_stCas : pcClose .stCas = false := rfl
@[simp] theorem pcClose_stNum : pcClose .stNum = false := rfl
@[simp] theorem pcClose_stIncWant : pcClose .stIncWant = false := rfl
@[simp] theorem pcClose_stIncHeld : pcClose .stIncHeld = false := rfl
@[simp] theorem pcClose_stSpawn : pcClose .stSpawn = false := rfl
@[simp] theorem pcClose_sdLoad1 : pcClose .sdLoad1 = false := rfl
@[simp] theorem pcClose_sdLoad2 : pcClose .sdLoad2 = false := rfl
@[simp] theorem pcClose_sdLoad3 : pcClose .sdLoad3 = false := rfl
@[simp] theorem pcClose_sdCas : pcClose .sdCas = false := rfl
@[simp] theorem pcClose_sdClose : pcClose .sdClose = true := rfl
@[simp] theorem pcClose_snLoad1 : pcClose .snLoad1 = false := rfl
@[simp] theorem pcClose_snLoad2 : pcClose .snLoad2 = false := rfl
@[simp] theorem pcClose_snLoad3 : pcClose .snLoad3 = false := rfl
@[simp] theorem pcClose_snCas : pcClose .snCas = false := rfl
@[simp] theorem pcClose_snClose : pcClose .snClose = true := rfl
@[simp] theorem pcClose_snCancel : pcClose .snCancel = false := rfl
@[simp] theorem pcClose_snDrain : pcClose .snDrain = false := rfl
@[simp] theorem pcClose_gsWant : pcClose .gsWant = false := rfl
@[simp] theorem pcClose_gsHeld : pcClose .gsHeld = false := rfl
@[simp] theorem pcClose_ret : pcClose .ret = false := rfl

/-- ShutdownNow after its CAS -/
def snAfter : CPc → Bool
  | .snClose | .snCancel | .snDrain => true
  | _ => false

@[simp] theorem snAfter_idle : snAfter .idle = false := rfl
@[simp] theorem snAfter_subLoad1 : snAfter .subLoad1 = false := rfl
@[simp] theorem snAfter_subLoad2 : snAfter .subLoad2 = false := rfl
@[simp] theorem snAfter_subCas1 : snAfter .subCas1 = false := rfl
@[simp] theorem snAfter_subCas2 : snAfter .subCas2 = false := rfl
@[simp] theorem snAfter_subSel : snAfter .subSel = false := rfl
@[simp] theorem snAfter_subAllowWant : snAfter .subAllowWant = false := rfl
@[simp] theorem snAfter_subAllowHeld : snAfter .subAllowHeld = false := rfl
@[simp] theorem snAfter_subIncWant : snAfter .subIncWant = false := rfl
@[simp] theorem snAfter_subIncHeld : snAfter .subIncHeld = false := rfl
@[simp] theorem snAfter_subSpawn : snAfter .subSpawn = false := rfl
@[simp] theorem snAfter_subUnlock : snAfter .subUnlock = false := rfl
@[simp] theorem snAfter_stLoad1 : snAfter .stLoad1 = false := rfl
@[simp] theorem snAfter_stLoad2 : snAfter .stLoad2 = false := rfl
@[simp] theorem snAfter_stLoad3 : snAfter .stLoad3 = false := rfl
@[simp] theorem snAfter_stCas : snAfter .stCas = false := rfl
@[simp] theorem snAfter_stNum : snAfter .stNum = false := rfl
@[simp] theorem snAfter_stIncWant : snAfter .stIncWant = false := rfl
@[simp] theorem snAfter_stIncHeld : snAfter .stIncHeld = false := rfl
@[simp] theorem snAfter_stSpawn : snAfter .stSpawn = false := rfl
@[simp] theorem snAfter_sdLoad1 : snAfter .sdLoad1 = false := rfl
@[simp] theorem snAfter_sdLoad2 : snAfter .sdLoad2 = false := rfl
@[simp] theorem snAfter_sdLoad3 : snAfter .sdLoad3 = false := rfl
@[simp] theorem snAfter_sdCas : snAfter .sdCas = false := rfl
@[simp] theorem snAfter_sdClose : snAfter .sdClose = false := rfl
@[simp] theorem snAfter_snLoad1 : snAfter .snLoad1 = false := rfl
@[simp] theorem snAfter_snLoad2 : snAfter .snLoad2 = false := rfl
@[simp] theorem snAfter_snLoad3 : snAfter .snLoad3 = false := rfl
@[simp] theorem snAfter_snCas : snAfter .snCas = false := rfl
@[simp] theorem snAfter_snClose : snAfter .snClose = true := rfl
@[simp] theorem snAfter_snCancel : snAfter .snCancel = true := rfl
@[simp] theorem snAfter_snDrain : snAfter .snDrain = true := rfl
@[simp] theorem snAfter_gsWant : snAfter .gsWant = false := rfl
@[simp] theorem snAfter_gsHeld : snAfter .gsHeld = false := rfl
@[simp] theorem snAfter_ret : snAfter .ret = false := rfl

/-- after a successful CAS of the call -/
def okPath : CPc → Bool
  | .subSel | .subAllowWant | .subAllowHeld | .subIncWant | .subIncHeld | .subSpawn | .subUnlock | .stNum | .stIncWant | .stIncHeld | .stSpawn | .sdClose | .snClose | .snCancel | .snDrain => true
  | _ => false

@[simp] theorem okPath_idle : okPath .idle = false := rfl
@[simp] theorem okPath_subLoad1 : okPath .subLoad1 = false := rfl
@[simp] theorem okPath_subLoad2 : okPath .subLoad2 = false := rfl
@[simp] theorem okPath_subCas1 : okPath .subCas1 = false := rfl
@[simp] theorem okPath_subCas2 : okPath .subCas2 = false := rfl
@[simp] theorem okPath_subSel : okPath .subSel = true := rfl
@[simp] theorem okPath_subAllowWant : okPath .subAllowWant = true := rfl
@[simp] theorem okPath_subAllowHeld : okPath .subAllowHeld = true := rfl
@[simp] theorem okPath_subIncWant : okPath .subIncWant = true := rfl
@[simp] theorem okPath_subIncHeld : okPath .subIncHeld = true := rfl
@[simp] theorem okPath_subSpawn : okPath .subSpawn = true := rfl
@[simp] theorem okPath_subUnlock : okPath .subUnlock = true := rfl
@[simp] theorem okPath_stLoad1 : okPath .stLoad1 = false := rfl
@[simp] theorem okPath_stLoad2 : okPath .stLoad2 = false := rfl
@[simp] theorem okPath_stLoad3 : okPath .stLoad3 = false := rfl
@[simp] theorem okPath_stCas : okPath .stCas = false := rfl
@[simp] theorem okPath_stNum : okPath .stNum = true := rfl
@[simp] theorem okPath_stIncWant : okPath .stIncWant = true := rfl
@[simp] theorem okPath_stIncHeld : okPath .stIncHeld = true := rfl
@[simp] theorem okPath_stSpawn : okPath .stSpawn = true := rfl
@[simp] theorem okPath_sdLoad1 : okPath .sdLoad1 = false := rfl
@[simp] theorem okPath_sdLoad2 : okPath .sdLoad2 = false := rfl
@[simp] theorem okPath_sdLoad3 : okPath .sdLoad3 = false := rfl
@[simp] theorem okPath_sdCas : okPath .sdCas = false := rfl
@[simp] theorem okPath_sdClose : okPath .sdClose = true := rfl
@[simp] theorem okPath_snLoad1 : okPath .snLoad1 = false := rfl
@[simp] theorem okPath_snLoad2 : okPath .snLoad2 = false := rfl
@[simp] theorem okPath_snLoad3 : okPath .snLoad3 = false := rfl
@[simp] theorem okPath_snCas : okPath .snCas = false := rfl
@[simp] theorem okPath_snClose : okPath .snClose = true := rfl
@[simp] theorem okPath_snCancel : okPath .snCancel = true := rfl
@[simp] theorem okPath_snDrain : okPath .snDrain = true := rfl
@[simp] theorem okPath_gsWant : okPath .gsWant = false := rfl
@[simp] theorem okPath_gsHeld : okPath .gsHeld = false := rfl
@[simp] theorem okPath_ret : okPath .ret = false := rfl

/-! ### inclusions between the classes -/

theorem growPc_crit (p : CPc) : growPc p = true → crit p = true := by cases p <;> simp
theorem stPre_crit (p : CPc) : stPre p = true → crit p = true := by cases p <;> simp
theorem postSend_crit (p : CPc) : postSend p = true → crit p = true := by cases p <;> simp
theorem cHeld_crit (p : CPc) : cHeld p = true → crit p = true := by cases p <;> simp
theorem crit_okPath (p : CPc) : crit p = true → okPath p = true := by cases p <;> simp
theorem execPc_live (p : WPc) : execPc p = true → live p = true := by cases p <;> simp
theorem wHeld_live (p : WPc) : wHeld p = true → live p = true := by cases p <;> simp
theorem finisher_not_live (p : WPc) : finisher p = true → live p = false := by cases p <;> simp
theorem not_crit_facts (p : CPc) (h : crit p = false) :
    growPc p = false ∧ stPre p = false ∧ postSend p = false ∧ cHeld p = false ∧ p ≠ .subSpawn ∧ p ≠ .stSpawn ∧
    p ≠ .stIncWant ∧ p ≠ .stIncHeld ∧ p ≠ .subUnlock ∧ p ≠ .subSel := by
  cases p <;> simp at h ⊢

/-! ### projections of the two state updaters -/

@[simp] theorem setW_idleExits (s : St) (i : Nat) (w : Worker) : (s.setW i w).idleExits = s.idleExits := rfl
@[simp] theorem setC_idleExits (s : St) (t : Nat) (c : Caller) : (s.setC t c).idleExits = s.idleExits := rfl
@[simp] theorem recSub_idleExits (s : St) (i : Nat) (r : Res) : (s.recSub i r).idleExits = s.idleExits := rfl
@[simp] theorem setW_hwmGo (s : St) (i : Nat) (w : Worker) : (s.setW i w).hwmGo = s.hwmGo := rfl
@[simp] theorem setC_hwmGo (s : St) (t : Nat) (c : Caller) : (s.setC t c).hwmGo = s.hwmGo := rfl
@[simp] theorem recSub_hwmGo (s : St) (i : Nat) (r : Res) : (s.recSub i r).hwmGo = s.hwmGo := rfl
@[simp] theorem setW_pending (s : St) (i : Nat) (w : Worker) : (s.setW i w).pending = s.pending := rfl
@[simp] theorem setC_pending (s : St) (t : Nat) (c : Caller) : (s.setC t c).pending = s.pending := rfl
@[simp] theorem recSub_pending (s : St) (i : Nat) (r : Res) : (s.recSub i r).pending = s.pending := rfl
@[simp] theorem setW_life (s : St) (i : Nat) (w : Worker) : (s.setW i w).life = s.life := rfl
@[simp] theorem setC_life (s : St) (t : Nat) (c : Caller) : (s.setC t c).life = s.life := rfl
@[simp] theorem recSub_life (s : St) (i : Nat) (r : Res) : (s.recSub i r).life = s.life := rfl
@[simp] theorem setW_queue (s : St) (i : Nat) (w : Worker) : (s.setW i w).queue = s.queue := rfl
@[simp] theorem setC_queue (s : St) (t : Nat) (c : Caller) : (s.setC t c).queue = s.queue := rfl
@[simp] theorem recSub_queue (s : St) (i : Nat) (r : Res) : (s.recSub i r).queue = s.queue := rfl
@[simp] theorem setW_closed (s : St) (i : Nat) (w : Worker) : (s.setW i w).closed = s.closed := rfl
@[simp] theorem setC_closed (s : St) (t : Nat) (c : Caller) : (s.setC t c).closed = s.closed := rfl
@[simp] theorem recSub_closed (s : St) (i : Nat) (r : Res) : (s.recSub i r).closed = s.closed := rfl
@[simp] theorem setW_totalGo (s : St) (i : Nat) (w : Worker) : (s.setW i w).totalGo = s.totalGo := rfl
@[simp] theorem setC_totalGo (s : St) (t : Nat) (c : Caller) : (s.setC t c).totalGo = s.totalGo := rfl
@[simp] theorem recSub_totalGo (s : St) (i : Nat) (r : Res) : (s.recSub i r).totalGo = s.totalGo := rfl
@[simp] theorem setW_mu (s : St) (i : Nat) (w : Worker) : (s.setW i w).mu = s.mu := rfl
@[simp] theorem setC_mu (s : St) (t : Nat) (c : Caller) : (s.setC t c).mu = s.mu := rfl
@[simp] theorem recSub_mu (s : St) (i : Nat) (r : Res) : (s.recSub i r).mu = s.mu := rfl
@[simp] theorem setW_grpN (s : St) (i : Nat) (w : Worker) : (s.setW i w).grpN = s.grpN := rfl
@[simp] theorem setC_grpN (s : St) (t : Nat) (c : Caller) : (s.setC t c).grpN = s.grpN := rfl
@[simp] theorem recSub_grpN (s : St) (i : Nat) (r : Res) : (s.recSub i r).grpN = s.grpN := rfl
@[simp] theorem setW_cancelled (s : St) (i : Nat) (w : Worker) : (s.setW i w).cancelled = s.cancelled := rfl
@[simp] theorem setC_cancelled (s : St) (t : Nat) (c : Caller) : (s.setC t c).cancelled = s.cancelled := rfl
@[simp] theorem recSub_cancelled (s : St) (i : Nat) (r : Res) : (s.recSub i r).cancelled = s.cancelled := rfl
@[simp] theorem setW_numRunning (s : St) (i : Nat) (w : Worker) : (s.setW i w).numRunning = s.numRunning := rfl
@[simp] theorem setC_numRunning (s : St) (t : Nat) (c : Caller) : (s.setC t c).numRunning = s.numRunning := rfl
@[simp] theorem recSub_numRunning (s : St) (i : Nat) (r : Res) : (s.recSub i r).numRunning = s.numRunning := rfl
@[simp] theorem setC_workers (s : St) (t : Nat) (c : Caller) : (s.setC t c).workers = s.workers := rfl
@[simp] theorem recSub_workers (s : St) (i : Nat) (r : Res) : (s.recSub i r).workers = s.workers := rfl
@[simp] theorem setW_callers (s : St) (i : Nat) (w : Worker) : (s.setW i w).callers = s.callers := rfl
@[simp] theorem recSub_callers (s : St) (i : Nat) (r : Res) : (s.recSub i r).callers = s.callers := rfl
@[simp] theorem setW_panic (s : St) (i : Nat) (w : Worker) : (s.setW i w).panic = s.panic := rfl
@[simp] theorem setC_panic (s : St) (t : Nat) (c : Caller) : (s.setC t c).panic = s.panic := rfl
@[simp] theorem recSub_panic (s : St) (i : Nat) (r : Res) : (s.recSub i r).panic = s.panic := rfl
@[simp] theorem setW_holder (s : St) (i : Nat) (w : Worker) : (s.setW i w).holder = s.holder := rfl
@[simp] theorem setC_holder (s : St) (t : Nat) (c : Caller) : (s.setC t c).holder = s.holder := rfl
@[simp] theorem recSub_holder (s : St) (i : Nat) (r : Res) : (s.recSub i r).holder = s.holder := rfl
@[simp] theorem setW_tasks (s : St) (i : Nat) (w : Worker) : (s.setW i w).tasks = s.tasks := rfl
@[simp] theorem setC_tasks (s : St) (t : Nat) (c : Caller) : (s.setC t c).tasks = s.tasks := rfl
@[simp] theorem setW_returned (s : St) (i : Nat) (w : Worker) : (s.setW i w).returned = s.returned := rfl
@[simp] theorem setC_returned (s : St) (t : Nat) (c : Caller) : (s.setC t c).returned = s.returned := rfl
@[simp] theorem recSub_returned (s : St) (i : Nat) (r : Res) : (s.recSub i r).returned = s.returned := rfl
@[simp] theorem setW_nStartOk (s : St) (i : Nat) (w : Worker) : (s.setW i w).nStartOk = s.nStartOk := rfl
@[simp] theorem setC_nStartOk (s : St) (t : Nat) (c : Caller) : (s.setC t c).nStartOk = s.nStartOk := rfl
@[simp] theorem recSub_nStartOk (s : St) (i : Nat) (r : Res) : (s.recSub i r).nStartOk = s.nStartOk := rfl
@[simp] theorem setW_nShutOk (s : St) (i : Nat) (w : Worker) : (s.setW i w).nShutOk = s.nShutOk := rfl
@[simp] theorem setC_nShutOk (s : St) (t : Nat) (c : Caller) : (s.setC t c).nShutOk = s.nShutOk := rfl
@[simp] theorem recSub_nShutOk (s : St) (i : Nat) (r : Res) : (s.recSub i r).nShutOk = s.nShutOk := rfl
@[simp] theorem setW_graceful (s : St) (i : Nat) (w : Worker) : (s.setW i w).graceful = s.graceful := rfl
@[simp] theorem setC_graceful (s : St) (t : Nat) (c : Caller) : (s.setC t c).graceful = s.graceful := rfl
@[simp] theorem recSub_graceful (s : St) (i : Nat) (r : Res) : (s.recSub i r).graceful = s.graceful := rfl
@[simp] theorem setW_badExits (s : St) (i : Nat) (w : Worker) : (s.setW i w).badExits = s.badExits := rfl
@[simp] theorem setC_badExits (s : St) (t : Nat) (c : Caller) : (s.setC t c).badExits = s.badExits := rfl
@[simp] theorem recSub_badExits (s : St) (i : Nat) (r : Res) : (s.recSub i r).badExits = s.badExits := rfl
@[simp] theorem setW_liveAtShut (s : St) (i : Nat) (w : Worker) : (s.setW i w).liveAtShut = s.liveAtShut := rfl
@[simp] theorem setC_liveAtShut (s : St) (t : Nat) (c : Caller) : (s.setC t c).liveAtShut = s.liveAtShut := rfl
@[simp] theorem recSub_liveAtShut (s : St) (i : Nat) (r : Res) : (s.recSub i r).liveAtShut = s.liveAtShut := rfl
@[simp] theorem setW_workers (s : St) (i : Nat) (w : Worker) : (s.setW i w).workers = s.workers.set i w := rfl
@[simp] theorem setC_callers (s : St) (t : Nat) (c : Caller) : (s.setC t c).callers = upd s.callers t c := rfl

end Ekit.Pool
