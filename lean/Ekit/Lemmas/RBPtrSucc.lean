/-
`findSuccessor` (case: the node has a right child) returns the in-order successor: the address that follows the
node's address in the in-order address list, which is the leftmost node of the right subtree; the state is untouched.
-/
import Ekit.MiniGo.RBOrder
import Ekit.Lemmas.RBHeapFrame
namespace Ekit.MiniGo.RBHeap.Succ
open Ekit.MiniGo Ekit.Gen.RBTreeGo Ekit.MiniGo.RBHeap

theorem cond_eval (cmpF : Int → Int → Int) (callH : CallH PName) (ρ : Env) (st : St) (p : Nat)
    (hp : ρ 1 = .ptr (some p)) :
    evalE cmpF callH ρ st (.ne (.field (.var 1) .left) .nil) = .ok (.bool (!((st.h p).left == none)), st) := by
  simp [evalE, hp, Node.get, valEq]

theorem body_eval (cmpF : Int → Int → Int) (callH : CallH PName) (lf : Nat) (ρ : Env) (st : St) (p : Nat)
    (hp : ρ 1 = .ptr (some p)) :
    exec cmpF callH lf ρ st (.assign 1 (.field (.var 1) .left)) =
      .ok (.normal, ρ.set 1 (.ptr (st.h p).left), st) := by
  simp [exec, evalE, hp, Node.get]

/-- the loop `for p.left != nil { p = p.left }` walks down the left spine of the subtree `u` rooted at `p` -/
theorem leftSpine_loop (cmpF : Int → Int → Int) (callH : CallH PName) (lf : Nat) (st : St) :
    ∀ (n : Nat) (ρ : Env) (p : Nat) (par : Option Nat) (u : PT) (fl : Flow) (ρ' : Env) (st' : St),
      ρ 1 = .ptr (some p) → Repr st.h (some p) par u →
      iterate (fun ρ st => evalE cmpF callH ρ st (.ne (.field (.var 1) .left) .nil))
        (fun ρ st => exec cmpF callH lf ρ st (.assign 1 (.field (.var 1) .left))) n ρ st = .ok (fl, ρ', st') →
      ∃ s rest, fl = .normal ∧ st' = st ∧ ρ' 1 = .ptr (some s) ∧ u.addrs = s :: rest ∧ (st.h s).left = none := by
  intro n
  induction n with
  | zero => intro ρ p par u fl ρ' st' _ _ h; simp [iterate] at h
  | succ n ih =>
    intro ρ p par u fl ρ' st' hp hR h
    cases u with
    | leaf => simp [Repr] at hR
    | node l b r =>
      simp only [Repr] at hR
      obtain ⟨h1, _, h3, _⟩ := hR
      have hb : p = b := Option.some.inj h1
      subst hb
      rw [iterate] at h
      simp only [cond_eval cmpF callH ρ st p hp] at h
      cases hl : (st.h p).left with
      | none =>
        rw [hl] at h3
        have : l = .leaf := by
          cases l with
          | leaf => rfl
          | node _ _ _ => simp [Repr] at h3
        subst this
        simp [hl] at h
        obtain ⟨e1, e2, e3⟩ := h
        subst e1; subst e2; subst e3
        exact ⟨p, r.addrs, rfl, rfl, hp, by simp [PT.addrs], hl⟩
      | some q =>
        rw [hl] at h3
        rw [hl] at h
        have hc : (!(some q == (none : Option Nat))) = true := by simp
        simp only [hc, body_eval cmpF callH lf ρ st p hp, hl] at h
        obtain ⟨s, rest, e1, e2, e3, e4, e5⟩ :=
          ih (ρ.set 1 (.ptr (some q))) q (some p) l fl ρ' st' (by simp [Env.set]) h3 h
        exact ⟨s, rest ++ p :: r.addrs, e1, e2, e3, by simp [PT.addrs, e4], e5⟩

theorem findSuccessor_spec (cmpF : Int → Int → Int) (callH : CallH PName) (lf : Nat) :
    ∀ a st v st' t, Holds st t → a ∈ t.addrs → (st.h a).right ≠ none →
      runBody cmpF callH lf (procs .findSuccessor) [.ptr (some a)] st = .ok (v, st') →
      st' = st ∧ ∃ s pre post, v = .ptr (some s) ∧ t.addrs = pre ++ a :: s :: post ∧ (st.h s).left = none := by
  intro a st v st' t hH ha hr h
  obtain ⟨hRep, hnd, _⟩ := hH
  obtain ⟨sa, hsa⟩ := sub_some_of_mem ha
  obtain ⟨⟨L, R, rfl⟩, _⟩ := sub_spec hsa
  have hRa := repr_sub hRep hsa
  simp only [Repr] at hRa
  obtain ⟨_, _, _, hRR⟩ := hRa
  obtain ⟨pre, post, eaddr, _⟩ := addrs_replace (s' := .leaf) hnd hsa
  cases hq : (st.h a).right with
  | none => exact absurd hq hr
  | some q =>
    rw [hq] at hRR
    simp only [runBody, procs, body_findSuccessor] at h
    generalize hlp : (Stmt.loop (.ne (.field (.var 1) .left) .nil) (.assign 1 (.field (.var 1) .left)) : Stmt PName)
      = lp at h
    simp only [exec, evalE, Env.ofArgs, List.getD, Node.get, valEq] at h
    simp [hq] at h
    subst hlp
    cases hit : exec cmpF callH lf ((Env.ofArgs [Val.ptr (some a)]).set 1 (Val.ptr (some q))) st
        (Stmt.loop (.ne (.field (.var 1) .left) .nil) (.assign 1 (.field (.var 1) .left))) with
    | error e => rw [hit] at h; simp at h
    | ok res =>
      obtain ⟨fl, ρ1, st1⟩ := res
      rw [hit] at h
      simp only [exec] at hit
      obtain ⟨s, rest, e1, e2, e3, e4, e5⟩ :=
        leftSpine_loop cmpF callH lf st lf _ q (some a) R fl ρ1 st1 (by simp [Env.set]) hRR hit
      subst e1; subst e2
      simp [e3] at h
      obtain ⟨rfl, rfl⟩ := h
      refine ⟨rfl, s, pre ++ L.addrs, rest ++ post, rfl, ?_, e5⟩
      simp [eaddr, PT.addrs, e4]

end Ekit.MiniGo.RBHeap.Succ
