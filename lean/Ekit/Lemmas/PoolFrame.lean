/-
Localised invariants of the pool model and the frame rules used by every invariant layer.

An invariant is given by a global clause `G`, a clause `W` per worker and a clause `C` per caller.
A step of worker `i` (resp. caller `t`) replaces one record and some global fields; the frame rules
reduce "the invariant holds after the step" to: the global clause, the clause of the record that
moved, and the survival of the clause of an arbitrary *other* record under the change of the global
fields — goals without quantifiers over threads.  Also: the additive form of `countP` under `set`.
-/
import Ekit.Lemmas.PoolPc
namespace Ekit.Pool

structure Loc where
  G : St → Prop
  W : St → Nat → Worker → Prop
  C : St → Nat → Caller → Prop

structure Loc.Inv (L : Loc) (s : St) : Prop where
  glob : L.G s
  wk : ∀ i w, s.workers[i]? = some w → L.W s i w
  cl : ∀ t, L.C s t (s.callers t)

/-- step of worker `i`: its record is replaced, callers untouched -/
theorem Loc.inv_worker {L : Loc} {s s' : St} {i : Nat} {w w' : Worker}
    (hw0 : s.workers[i]? = some w)
    (hw : s'.workers = s.workers.set i w') (hc : s'.callers = s.callers) (hi : L.Inv s)
    (hG : L.G s') (hW : L.W s i w → L.W s' i w')
    (hWo : ∀ j x, j ≠ i → s.workers[j]? = some x → L.W s j x → L.W s' j x)
    (hC : ∀ t, L.C s t (s.callers t) → L.C s' t (s.callers t)) : L.Inv s' := by
  refine ⟨hG, fun j x hx => ?_, fun t => hc ▸ hC t (hi.cl t)⟩
  rw [hw, List.getElem?_set] at hx
  by_cases hij : i = j
  · subst hij
    simp only [if_true] at hx
    split at hx
    · cases hx; exact hW (hi.wk i w hw0)
    · cases hx
  · simp only [hij, if_false] at hx
    exact hWo j x (fun h => hij h.symm) hx (hi.wk j x hx)

/-- step of caller `t`: its record is replaced, workers untouched -/
theorem Loc.inv_caller {L : Loc} {s s' : St} {t : Nat} {cl' : Caller}
    (hc : s'.callers = upd s.callers t cl') (hw : s'.workers = s.workers) (hi : L.Inv s)
    (hG : L.G s') (hC : L.C s t (s.callers t) → L.C s' t cl')
    (hCo : ∀ u, u ≠ t → L.C s u (s.callers u) → L.C s' u (s.callers u))
    (hW : ∀ j x, s.workers[j]? = some x → L.W s j x → L.W s' j x) : L.Inv s' := by
  refine ⟨hG, fun j x hx => ?_, fun u => ?_⟩
  · rw [hw] at hx; exact hW j x hx (hi.wk j x hx)
  · rw [hc]
    by_cases hut : u = t
    · subst hut; simpa using hC (hi.cl u)
    · simpa [hut] using hCo u hut (hi.cl u)

/-- step of caller `t` that also starts a worker (`go b.goroutine(id)`) -/
theorem Loc.inv_spawn {L : Loc} {s s' : St} {t : Nat} {cl' : Caller} {nw : Worker}
    (hc : s'.callers = upd s.callers t cl') (hw : s'.workers = s.workers ++ [nw]) (hi : L.Inv s)
    (hG : L.G s') (hC : L.C s t (s.callers t) → L.C s' t cl')
    (hCo : ∀ u, u ≠ t → L.C s u (s.callers u) → L.C s' u (s.callers u))
    (hW : ∀ j x, s.workers[j]? = some x → L.W s j x → L.W s' j x)
    (hN : L.W s' s.workers.length nw) : L.Inv s' := by
  refine ⟨hG, fun j x hx => ?_, fun u => ?_⟩
  · rw [hw, List.getElem?_append] at hx
    split at hx
    · exact hW j x hx (hi.wk j x hx)
    · rename_i hlt
      have hj : j - s.workers.length = 0 := by
        cases hjj : j - s.workers.length with
        | zero => rfl
        | succ n => rw [hjj] at hx; simp at hx
      rw [hj] at hx
      simp at hx
      have : j = s.workers.length := by omega
      subst this; subst hx; exact hN
  · rw [hc]
    by_cases hut : u = t
    · subst hut; simpa using hC (hi.cl u)
    · simpa [hut] using hCo u hut (hi.cl u)

/-- step of caller `t` that hands a task directly to worker `i` (send on the unbuffered queue) -/
theorem Loc.inv_rendezvous {L : Loc} {s s' : St} {t i : Nat} {cl' : Caller} {w' : Worker}
    (hc : s'.callers = upd s.callers t cl') (hw : s'.workers = s.workers.set i w') (hi : L.Inv s)
    (hG : L.G s') (hC : L.C s t (s.callers t) → L.C s' t cl')
    (hCo : ∀ u, u ≠ t → L.C s u (s.callers u) → L.C s' u (s.callers u))
    (hW : ∀ w, s.workers[i]? = some w → L.W s i w → L.W s' i w')
    (hWo : ∀ j x, j ≠ i → s.workers[j]? = some x → L.W s j x → L.W s' j x) : L.Inv s' := by
  refine ⟨hG, fun j x hx => ?_, fun u => ?_⟩
  · rw [hw, List.getElem?_set] at hx
    by_cases hij : i = j
    · subst hij
      simp only [if_true] at hx
      split at hx
      · rename_i hlt
        cases hx
        have hw0 : s.workers[i]? = some s.workers[i] := List.getElem?_eq_getElem hlt
        exact hW _ hw0 (hi.wk i _ hw0)
      · cases hx
    · simp only [hij, if_false] at hx
      exact hWo j x (fun h => hij h.symm) hx (hi.wk j x hx)
  · rw [hc]
    by_cases hut : u = t
    · subst hut; simpa using hC (hi.cl u)
    · simpa [hut] using hCo u hut (hi.cl u)

/-- step that changes global fields only -/
theorem Loc.inv_global {L : Loc} {s s' : St}
    (hc : s'.callers = s.callers) (hw : s'.workers = s.workers) (hi : L.Inv s)
    (hG : L.G s')
    (hC : ∀ u, L.C s u (s.callers u) → L.C s' u (s.callers u))
    (hW : ∀ j x, s.workers[j]? = some x → L.W s j x → L.W s' j x) : L.Inv s' :=
  ⟨hG, fun j x hx => by rw [hw] at hx; exact hW j x hx (hi.wk j x hx), fun u => hc ▸ hC u (hi.cl u)⟩

/-! ### counting -/

theorem countP_set_add {α : Type} (p : α → Bool) (l : List α) (i : Nat) (a b : α) (h : l[i]? = some a) :
    (l.set i b).countP p + (if p a then 1 else 0) = l.countP p + (if p b then 1 else 0) := by
  induction l generalizing i with
  | nil => simp at h
  | cons x xs ih =>
    cases i with
    | zero =>
      simp at h; subst h
      simp [List.countP_cons]; omega
    | succ n =>
      simp at h
      have := ih n h
      simp [List.countP_cons]; omega

theorem countP_pos_of_getElem? {α : Type} (p : α → Bool) (l : List α) (i : Nat) (a : α) (h : l[i]? = some a)
    (hp : p a = true) : 0 < l.countP p := by
  rw [List.countP_pos_iff]
  exact ⟨a, List.mem_of_getElem? h, hp⟩

theorem countP_set_eq {α : Type} (p : α → Bool) (l : List α) (i : Nat) (a b : α) (h : l[i]? = some a) :
    (l.set i b).countP p = l.countP p + (if p b then 1 else 0) - (if p a then 1 else 0) := by
  have h1 := countP_set_add p l i a b h
  have h2 : p a = true → 0 < l.countP p := countP_pos_of_getElem? p l i a h
  cases hp : p a <;> simp_all <;> omega

/-- finishing tactic for arithmetic side goals: split conjunctions, introduce, simplify, omega -/
macro "fin_arith" : tactic =>
  `(tactic| (repeat' (first | (apply And.intro) | (intro _))) <;> (try simp_all) <;> (try omega))

theorem countP_le_of_imp {α : Type} (p q : α → Bool) (l : List α) (h : ∀ a, p a = true → q a = true) :
    l.countP p ≤ l.countP q := by
  induction l with
  | nil => simp
  | cons x xs ih =>
    simp only [List.countP_cons]
    have := h x
    cases hp : p x <;> cases hq : q x <;> simp_all <;> omega

theorem countP_eq_zero_forall {α : Type} (p : α → Bool) (l : List α) (h : l.countP p = 0) (i : Nat) (a : α)
    (ha : l[i]? = some a) : p a = false := by
  rw [List.countP_eq_zero] at h
  have := h a (List.mem_of_getElem? ha)
  simpa using this

end Ekit.Pool
