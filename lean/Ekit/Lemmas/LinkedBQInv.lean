/-
Invariants of the linked blocking queue model (`Ekit/Model/LinkedBQ.lean`), first layer: thread
bookkeeping and reader/writer exclusion.  Any capacity (also ≤ 0 = unbounded), any number of threads.
-/
import Ekit.Model.LinkedBQ
import Ekit.Lemmas.BQCommon
namespace Ekit.LinkedBQ
open Ekit.Conc Ekit.BQ

/-- holds the read lock -/
def wR : Pc → Nat
  | .lRead | .aRead | .runlock _ => 1
  | _ => 0
/-- inside the critical section of the write lock -/
def inW : Pc → Bool
  | .eGuard _ | .eSigRead _ | .eSigUnlock _ _ | .eAppend _
  | .dGuard | .dSigRead | .dSigUnlock _ | .dDelete
  | .bcSwap _ _ | .bcUnlock _ _ _ => true
  | _ => false

/-! ### the C04 linked list, specialised to the calls the queue makes -/
@[simp] theorem ll_append (q : List Int) (v : Int) :
    Ekit.Lists.LinkedList.step q (.append [v]) = (q ++ [v], .ok .unit) := rfl
@[simp] theorem ll_delete0_cons (x : Int) (rest : List Int) :
    Ekit.Lists.LinkedList.step (x :: rest) (.delete 0) = (rest, .ok (.val x)) := by
  simp [Ekit.Lists.LinkedList.step, Ekit.Lists.LinkedList.checkIndex, Ekit.Lists.LinkedList.findPos,
    Ekit.Lists.LinkedList.walkFwd]
  have : (0 : Int) ≤ Int.tdiv (↑rest.length + 1) 2 := Int.tdiv_nonneg (by omega) (by omega)
  simp [this]
@[simp] theorem ll_delete0_nil :
    Ekit.Lists.LinkedList.step [] (.delete 0) = ([], .err (.idx 0 0)) := by
  simp [Ekit.Lists.LinkedList.step, Ekit.Lists.LinkedList.checkIndex]
@[simp] theorem ll_len (q : List Int) : Ekit.Lists.LinkedList.step q .len = (q, .ok (.int q.length)) := rfl
@[simp] theorem ll_asSlice (q : List Int) : Ekit.Lists.LinkedList.step q .asSlice = (q, .ok (.slice q)) := rfl

@[simp] theorem setCond_pc (s : State) (w : Which) (c : Cond) : (setCond s w c).pc = s.pc := by cases w <;> rfl
@[simp] theorem setCond_live (s : State) (w : Which) (c : Cond) : (setCond s w c).live = s.live := by cases w <;> rfl
@[simp] theorem setCond_writer (s : State) (w : Which) (c : Cond) : (setCond s w c).writer = s.writer := by cases w <;> rfl
@[simp] theorem setCond_readers (s : State) (w : Which) (c : Cond) : (setCond s w c).readers = s.readers := by cases w <;> rfl
@[simp] theorem setCond_maxSize (s : State) (w : Which) (c : Cond) : (setCond s w c).maxSize = s.maxSize := by cases w <;> rfl
@[simp] theorem setCond_q (s : State) (w : Which) (c : Cond) : (setCond s w c).q = s.q := by cases w <;> rfl
@[simp] theorem setCond_ctxDone (s : State) (w : Which) (c : Cond) : (setCond s w c).ctxDone = s.ctxDone := by cases w <;> rfl
@[simp] theorem setCond_panicked (s : State) (w : Which) (c : Cond) : (setCond s w c).panicked = s.panicked := by cases w <;> rfl
@[simp] theorem setCond_writes (s : State) (w : Which) (c : Cond) : (setCond s w c).writes = s.writes := by cases w <;> rfl
@[simp] theorem setCond_enqd (s : State) (w : Which) (c : Cond) : (setCond s w c).enqd = s.enqd := by cases w <;> rfl
@[simp] theorem setCond_deqd (s : State) (w : Which) (c : Cond) : (setCond s w c).deqd = s.deqd := by cases w <;> rfl
@[simp] theorem getCond_setCond_same (s : State) (w : Which) (c : Cond) : getCond (setCond s w c) w = c := by cases w <;> rfl
theorem getCond_setCond_other (s : State) (w w' : Which) (c : Cond) (h : w' ≠ w) :
    getCond (setCond s w c) w' = getCond s w' := by cases w <;> cases w' <;> first | rfl | exact absurd rfl h
@[simp] theorem getCond_setPc (s : State) (t : Nat) (p : Pc) (w : Which) : getCond (setPc s t p) w = getCond s w := by
  cases w <;> rfl

structure Inv (m : Int) (s : State) : Prop where
  nodup : s.live.Nodup
  live_iff : ∀ t, t ∈ s.live ↔ s.pc t ≠ .idle
  msz : s.maxSize = m
  rd : s.readers = wsum wR s.pc s.live
  mutexW : ∀ t, inW (s.pc t) = true → s.writer = some t
  wr_excl : s.writer.isSome = true → s.readers = 0

theorem live_iff_upd {pc : Nat → Pc} {live : List Nat} (h : ∀ u, u ∈ live ↔ pc u ≠ .idle) {t : Nat}
    (ht : pc t ≠ .idle) {p : Pc} (hp : p ≠ .idle) : ∀ u, u ∈ live ↔ upd pc t p u ≠ .idle := by
  intro u
  by_cases hu : u = t
  · subst hu; simp [upd, hp, (h u).mpr ht]
  · simp [upd, hu, h u]

theorem inv_local {m : Int} {s : State} (h : Inv m s) {t : Nat} (ht : s.pc t ≠ .idle)
    (s' : State)
    (hpc' : ∀ u, u ≠ t → s'.pc u = s.pc u) (hp' : s'.pc t ≠ .idle)
    (hlive : s'.live = s.live) (hmsz : s'.maxSize = s.maxSize)
    (hR : s'.readers + wR (s.pc t) = s.readers + wR (s'.pc t))
    (hW1 : inW (s'.pc t) = true → s'.writer = some t)
    (hW2 : ∀ u, u ≠ t → inW (s.pc u) = true → s'.writer = some u)
    (hX : s'.writer.isSome = true → s'.readers = 0) : Inv m s' := by
  have hpc : s'.pc = upd s.pc t (s'.pc t) := by
    funext u
    by_cases hu : u = t
    · subst hu; simp [upd]
    · simp [upd, hu, hpc' u hu]
  have hm := (h.live_iff t).mpr ht
  have hsR := wsum_upd_mem wR s.pc (s'.pc t) h.nodup hm
  have hR0 := h.rd
  refine ⟨by rw [hlive]; exact h.nodup, ?_, by rw [hmsz]; exact h.msz, ?_, ?_, hX⟩
  · rw [hlive, hpc]; exact live_iff_upd h.live_iff ht hp'
  · rw [hlive, hpc]; omega
  · intro u hu
    by_cases hut : u = t
    · subst hut; exact hW1 hu
    · rw [hpc' u hut] at hu; exact hW2 u hut hu

theorem inv_panic {m : Int} {s : State} (h : Inv m s) : Inv m (panic s) :=
  ⟨h.nodup, h.live_iff, h.msz, h.rd, h.mutexW, h.wr_excl⟩

syntax "lbq_side" ident ident : tactic
macro_rules
  | `(tactic| lbq_side $h $hp) => `(tactic| first
    | exact ($h).wr_excl
    | omega
    | (intro u hu; simp [upd, hu]; done)
    | exact ($h).mutexW _ (by simp [$hp:ident, inW])
    | (intro u _ hu; exact ($h).mutexW u hu))

syntax "lbq_local" ident ident ident : tactic
macro_rules
  | `(tactic| lbq_local $h $hp $hne) => `(tactic| (
    refine inv_local $h $hne _ ?_ ?_ ?_ ?_ ?_ ?_ ?_ ?_
    all_goals (simp [setPc, $hp:ident, wR, inW])
    all_goals (try lbq_side $h $hp)))

theorem inv_tau {m : Int} {s s' : State} {t : Nat} (h : Inv m s)
    (hs : tauStep s t = some s') : Inv m s' := by
  have hR0 := h.rd
  unfold tauStep at hs
  cases hp : s.pc t <;> simp only [hp] at hs
  all_goals (try simp only [unlockTo, ll_append, ll_len, ll_asSlice] at hs)
  all_goals (try split at hs)
  all_goals (try (simp at hs; done))
  all_goals (injection hs with hs; subst hs)
  all_goals (try (exact inv_panic h))
  all_goals (have hne : s.pc t ≠ .idle := by simp [hp])
  all_goals (have hmem : t ∈ s.live := (h.live_iff t).mpr hne)
  all_goals (have hwR := wsum_le_of_mem wR s.pc hmem)
  all_goals (simp only [hp, wR] at hwR)
  all_goals (try (lbq_local h hp hne))
  case eLock.isTrue.refine_7 =>
    have hg : s.writer = none ∧ s.readers = 0 := by assumption
    intro u _ hu; have := h.mutexW u hu; rw [hg.1] at this; exact absurd this (by simp)
  case dLock.isTrue.refine_7 =>
    have hg : s.writer = none ∧ s.readers = 0 := by assumption
    intro u _ hu; have := h.mutexW u hu; rw [hg.1] at this; exact absurd this (by simp)
  case runlock.isTrue.refine_8 => intro hw; have := h.wr_excl hw; omega
  all_goals (
    intro u hut
    show inW (s.pc u) = false
    cases hb : inW (s.pc u)
    · rfl
    · have h1 := h.mutexW u hb; have h2 := h.mutexW t (by simp [hp, inW])
      rw [h2] at h1; injection h1 with h1; exact absurd h1.symm hut)

theorem inv_init (m : Int) : Inv m (init m) := by
  refine ⟨List.nodup_nil, by simp [init], rfl, by simp [init], by simp [init, inW], by simp [init]⟩

theorem wR_start (op : Op) : wR (start op) = 0 := by cases op <;> rfl
theorem inW_start (op : Op) : inW (start op) = false := by cases op <;> rfl
theorem start_ne_idle (op : Op) : start op ≠ .idle := by cases op <;> simp [start]

theorem inv_step {m : Int} {s s' : State} {l : Label} (h : Inv m s)
    (hs : step s l = some s') : Inv m s' := by
  cases l with
  | tau t =>
    simp only [step] at hs
    split at hs
    · simp at hs
    · exact inv_tau h hs
  | ctxEnd t =>
    simp only [step] at hs
    split at hs
    · injection hs with hs; subst hs
      exact ⟨h.nodup, h.live_iff, h.msz, h.rd, h.mutexW, h.wr_excl⟩
    · simp at hs
  | ctxArm t =>
    simp only [step] at hs
    cases hp : s.pc t <;> simp only [hp] at hs <;> try (simp at hs; done)
    all_goals (split at hs <;> try (simp at hs; done))
    all_goals (injection hs with hs; subst hs)
    all_goals (have hne : s.pc t ≠ .idle := by simp [hp])
    all_goals (have hR0 := h.rd)
    all_goals (lbq_local h hp hne)
  | inv t op =>
    simp only [step] at hs
    split at hs
    · rename_i hidle
      injection hs with hs; subst hs
      have hnm : t ∉ s.live := fun hm => (h.live_iff t).mp hm hidle
      have hR0 := h.rd
      refine ⟨List.nodup_cons.mpr ⟨hnm, h.nodup⟩, ?_, h.msz, ?_, ?_, h.wr_excl⟩
      · intro u
        by_cases hu : u = t
        · subst hu; simp [upd, start_ne_idle]
        · simp [upd, hu, h.live_iff u]
      · simp only [wsum_cons, upd_same, wR_start, wsum_upd_not_mem wR s.pc _ hnm]; omega
      · intro u hu
        by_cases hut : u = t
        · subst hut; simp [upd, inW_start] at hu
        · simp only [upd, hut, if_false] at hu; exact h.mutexW u hu
    · simp at hs
  | res t r =>
    simp only [step] at hs
    split at hs
    · rename_i hret
      injection hs with hs; subst hs
      have hm : t ∈ s.live := (h.live_iff t).mpr (by simp [hret])
      have hnm : t ∉ s.live.erase t := fun hm' => by
        have := (List.Nodup.mem_erase_iff h.nodup).mp hm'; exact this.1 rfl
      have hR0 := h.rd
      have hR1 := wsum_erase wR s.pc h.nodup hm
      simp only [hret, wR] at hR1
      refine ⟨h.nodup.erase t, ?_, h.msz, ?_, ?_, h.wr_excl⟩
      · intro u
        rw [List.Nodup.mem_erase_iff h.nodup]
        by_cases hu : u = t
        · subst hu; simp [upd]
        · simp [upd, hu, h.live_iff u]
      · simp only [wsum_upd_not_mem wR s.pc _ hnm]; omega
      · intro u hu
        by_cases hut : u = t
        · subst hut; simp [upd, inW] at hu
        · simp only [upd, hut, if_false] at hu; exact h.mutexW u hu
    · simp at hs

theorem inv_reachable (m : Int) (s : State) (hr : (sys m).Reachable s) : Inv m s :=
  System.invariant_induction (sys m).toSystem (Inv m) (inv_init m) (fun _ _ _ h hs => inv_step h hs) s hr

end Ekit.LinkedBQ
