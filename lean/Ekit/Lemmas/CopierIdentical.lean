/-
Helper lemmas for C20, part 9: when corresponding field types are identical (`Spec.Identical`), the
constructor succeeds, every copy without converters succeeds, and so does the pure CopyTo.
-/
import Ekit.Lemmas.CopierAgreeLoop

namespace Ekit.Copier
open Ekit.Go

/-- the plan for a destination field whose matched source field has the same type -/
theorem planField_identical (atomics : List Ty) (sfs : List Field) (df sf : Field) (i : Nat)
    (he : fexp df = true) (hi : Spec.srcFieldIdx? sfs (fname df) = some i) (hsf : sfs[i]? = some sf)
    (hty : fty sf = fty df) (hm : (fty df).isMultiPtr = false) :
    planField atomics sfs (fieldMap sfs) df =
      if isLeafTy atomics (fty df).stripPtr then .leaf i
      else if (fty df).stripPtr.kind == .struct then .node i (fty df).stripPtr (fty df).stripPtr
      else .skip := by
  unfold planField
  rw [fieldMap_lookup, hi]
  simp only [he, Bool.not_true, Bool.false_eq_true, if_false, hsf, hty, hm]
  by_cases hl : isLeafTy atomics (fty df).stripPtr = true
  · rw [if_pos hl, if_pos hl]
  · rw [if_neg hl, if_neg hl]
    by_cases hk : ((fty df).stripPtr.kind == Kind.struct) = true
    · have : ((fty df).stripPtr.kind != Kind.struct) = false := by simpa using hk
      rw [if_pos hk, if_pos hk, this]
      simp
    · rw [if_neg hk, if_neg hk]

/-- the fields from `pre.length` on satisfy the clause of `Spec.Identical` -/
def IdentFrom (atomics : List Ty) (fuel : Nat) (sfs dfs : List Field) : Prop :=
  ∀ (j : Nat) (df : Field), dfs[j]? = some df → fexp df = true →
    ∀ i, Spec.srcFieldIdx? sfs (fname df) = some i →
      ∃ sf, sfs[i]? = some sf ∧ fty sf = fty df ∧ (fty df).isMultiPtr = false ∧
        ((fty df).stripPtr.kind = .struct → isLeafTy atomics (fty df).stripPtr = false →
          Spec.Identical atomics fuel (fty df).stripPtr (fty df).stripPtr)

theorem buildLoop_identical (atomics : List Ty) (recB : Ty → Ty → Outcome (List Node)) (fuel : Nat)
    (sfs dfs : List Field) (hid : IdentFrom atomics fuel sfs dfs)
    (hrec : ∀ t, Spec.Identical atomics fuel t t → ∃ kids, recB t t = .ok kids) :
    ∀ (dsuf pre : List Field), dfs = pre ++ dsuf →
      ∃ kids, buildLoop recB atomics sfs (fieldMap sfs) dsuf pre.length = .ok kids
  | [], _, _ => ⟨[], by simp [buildLoop]⟩
  | df :: rest, pre, hpre => by
      have hdf : dfs[pre.length]? = some df := by rw [hpre]; simp
      obtain ⟨more, hmore⟩ := buildLoop_identical atomics recB fuel sfs dfs hid hrec rest (pre ++ [df]) (by simp [hpre])
      simp only [List.length_append, List.length_cons, List.length_nil, Nat.zero_add] at hmore
      rw [buildLoop_cons]
      by_cases he : fexp df = true
      · cases hi : Spec.srcFieldIdx? sfs (fname df) with
        | none =>
          have : planField atomics sfs (fieldMap sfs) df = .skip := by
            unfold planField
            rw [fieldMap_lookup, hi]
            simp [he]
          rw [this]
          exact ⟨more, hmore⟩
        | some i =>
          obtain ⟨sf, hsf, hty, hm, hrecid⟩ := hid pre.length df hdf he i hi
          rw [planField_identical atomics sfs df sf i he hi hsf hty hm]
          by_cases hl : isLeafTy atomics (fty df).stripPtr = true
          · rw [if_pos hl]
            simp only [hmore]
            exact ⟨_, rfl⟩
          · rw [if_neg hl]
            by_cases hk : ((fty df).stripPtr.kind == Kind.struct) = true
            · rw [if_pos hk]
              obtain ⟨kids', hk'⟩ := hrec _ (hrecid (by simpa using hk) (by simpa using hl))
              simp only [hk', hmore]
              exact ⟨_, rfl⟩
            · rw [if_neg hk]
              exact ⟨more, hmore⟩
      · have : planField atomics sfs (fieldMap sfs) df = .skip := by
          unfold planField
          simp [he]
        rw [this]
        exact ⟨more, hmore⟩

/-- the constructor's recursion succeeds on identical field types -/
theorem build_identical (atomics : List Ty) : ∀ (fuel : Nat) (S D : Ty), Spec.Identical atomics fuel S D →
    ∃ kids, createFieldNodes atomics fuel S D = .ok kids
  | 0, _, _, h => by simp [Spec.Identical] at h
  | fuel + 1, S, D, h => by
      obtain ⟨sfs, dfs, hsfs, hdfs, hid⟩ := h
      simp only [createFieldNodes, hsfs, hdfs]
      have := buildLoop_identical atomics (createFieldNodes atomics fuel) fuel sfs dfs hid
        (fun t ht => build_identical atomics fuel t t ht) dfs [] rfl
      simpa using this

/-! ### every copy without converters succeeds -/

theorem copyNode_ok_of_inner (opts : Options) (n : Node) (sT : Ty) (sv : Val) (dT : Ty) (dv : Val) (fl : Flags)
    (hs : wt sT sv = true) (hd : wt dT dv = true) (hf : FlOK fl dT dv)
    (hin : ∀ x y ifl wasPtr, wt sT.stripPtr x = true → wt dT.stripPtr y = true → ifl.canSet = true →
      (treeInner opts n sT sv dT fl sT.stripPtr x dT.stripPtr y ifl wasPtr).res = .ok ()) :
    (copyNode opts n sT sv false dT dv fl).res = .ok () := by
  rw [copyNode_eq_inner]
  rcases derefSrc_wt sT sv hs with ⟨h1, _, _⟩ | ⟨x, h1, hx, _⟩
  · rw [h1]
  · rw [h1]
    simp only []
    rcases derefDst_wt dT dv fl hd hf with ⟨_, h2, hy, hcs⟩ | ⟨_, y, h2, hy, hcs, _⟩
    · rw [h2]; exact hin x dv fl false hx hy hcs
    · rw [h2]; exact hin x y fl.elem true hx hy hcs

/-- what the recursive call is assumed to give: its children always succeed -/
def SucceedRec (opts : Options) (atomics : List Ty) (fuel : Nat) (recB : Ty → Ty → Outcome (List Node)) : Prop :=
  ∀ t kids, Spec.Identical atomics fuel t t → recB t t = .ok kids →
    ∀ x y ifl, wt t x = true → wt t y = true → ifl.canSet = true →
      (copyChildren opts kids t x false t y ifl).res = .ok ()

theorem copyLoop_identical (opts : Options) (hnc : opts.conv = []) (atomics : List Ty)
    (recB : Ty → Ty → Outcome (List Node)) (fuel : Nat) (sT dT : Ty) (sfs dfs : List Field)
    (hsfs : sT.fields? = some sfs) (hdfs : dT.fields? = some dfs)
    (hid : IdentFrom atomics fuel sfs dfs) (hsucc : SucceedRec opts atomics fuel recB)
    (hrecOK : ∀ s d kids, s.kind = .struct → d.kind = .struct → recB s d = .ok kids →
      ∃ sfs' dfs', s.fields? = some sfs' ∧ d.fields? = some dfs' ∧ KidsOK kids sfs' dfs')
    (sv : Val) (hws : wt sT sv = true) (fl : Flags) (hcs : fl.canSet = true) :
    ∀ (dsuf pre : List Field) (kids : List Node), dfs = pre ++ dsuf →
      buildLoop recB atomics sfs (fieldMap sfs) dsuf pre.length = .ok kids →
      ∀ dv, wt dT dv = true → (copyChildren opts kids sT sv false dT dv fl).res = .ok ()
  | [], pre, kids, _, hb => by
      simp [buildLoop] at hb
      subst hb
      intro dv _
      simp [copyChildren]
  | df :: rest, pre, kids, hpre, hb => by
      have hconv : ConvOK opts := by
        intro name c h
        simp [Options.conv?, hnc] at h
      have hdf : dfs[pre.length]? = some df := by rw [hpre]; simp
      have ih := copyLoop_identical opts hnc atomics recB fuel sT dT sfs dfs hsfs hdfs hid hsucc hrecOK sv hws fl hcs
        rest (pre ++ [df])
      simp only [List.length_append, List.length_cons, List.length_nil, Nat.zero_add, List.append_assoc,
        List.cons_append, List.nil_append] at ih
      rw [buildLoop_cons] at hb
      have inv := planField_inv atomics sfs df
      intro dv hw
      have hflc : (fl.field true).canSet = true := by simpa [Flags.field, Flags.canSet] using hcs
      -- the common step: a child that succeeds, then the rest
      have step : ∀ (node : Node) (more : List Node) (i : Nat) (sf : Field), node.srcIndex = i → node.dstIndex = pre.length →
          fexp df = true → fexp sf = true → sfs[i]? = some sf → NodeOK node (fty sf) (fty df) →
          buildLoop recB atomics sfs (fieldMap sfs) rest (pre.length + 1) = .ok more →
          (∀ sfv dfv, wt (fty sf) sfv = true → wt (fty df) dfv = true →
            (copyNode opts node (fty sf) sfv false (fty df) dfv (fl.field true)).res = .ok ()) →
          (copyChildren opts (node :: more) sT sv false dT dv fl).res = .ok () := by
        intro node more i sf hsi hdi he hes hsf hnok hb' hchild
        by_cases hig : opts.inIgnore node.name = true
        · have e : copyChildren opts (node :: more) sT sv false dT dv fl = copyChildren opts more sT sv false dT dv fl := by
            simp only [copyChildren, hig, if_true]
          rw [e]
          exact ih more hpre hb' dv hw
        · obtain ⟨sfv, hsfv, hwsfv⟩ := wt_field sT sfs sv i sf hsfs hws hsf
          obtain ⟨dfv, hdfv, hwdfv⟩ := wt_field dT dfs dv pre.length df hdfs hw hdf
          rw [copyChildren_cons_eq opts node more sT sv dT dv fl sfs dfs sf df sfv dfv (by simpa using hig) hsfs hdfs
            (hsi ▸ hsf) (hdi ▸ hdf) (hsi ▸ hsfv) (hdi ▸ hdfv) hes he]
          have hr := hchild sfv dfv hwsfv hwdfv
          have htot := copyNode_total opts hconv node (fty sf) sfv (fty df) dfv (fl.field true) hnok hwsfv hwdfv
            (canSet_FlOK hflc _ _)
          rw [hr]
          simp only []
          apply ih more hpre hb'
          rw [hdi]
          exact wt_setField dT dfs dv pre.length df _ hdfs hw hdf htot.2
      cases hp : planField atomics sfs (fieldMap sfs) df with
      | skip => rw [hp] at hb; exact ih kids hpre hb dv hw
      | leaf i =>
        rw [hp] at hb inv
        simp only [] at hb
        obtain ⟨hed, sf, hi, hsf, hes, hm1, hm2, hleaf⟩ := inv
        obtain ⟨sf', hsf', hty, _, _⟩ := hid pre.length df hdf hed i hi
        rw [hsf] at hsf'
        cases hsf'
        cases hb' : buildLoop recB atomics sfs (fieldMap sfs) rest (pre.length + 1) with
        | ok more =>
          rw [hb'] at hb
          simp at hb
          subst hb
          refine step _ more i sf rfl rfl hed hes hsf (by simp [NodeOK]) hb' ?_
          intro sfv dfv hws' hwd'
          apply copyNode_ok_of_inner opts _ _ sfv _ dfv _ hws' hwd' (canSet_FlOK hflc _ _)
          intro x y ifl wasPtr _ _ hics
          simp only [treeInner, if_true, copyLeaf, hics, Bool.not_true, Bool.false_eq_true, if_false, Options.conv?,
            hnc, List.lookup, hty, ne_eq, not_true_eq_false]
          split <;> rfl
        | err e => rw [hb'] at hb; simp at hb
        | panic m => rw [hb'] at hb; simp at hb
      | node i fs fd =>
        rw [hp] at hb inv
        simp only [] at hb
        obtain ⟨hed, sf, hi, hsf, hes, hm1, hm2, hleaf, hfs', hfd', hks, hkd⟩ := inv
        obtain ⟨sf', hsf', hty, _, hrecid⟩ := hid pre.length df hdf hed i hi
        rw [hsf] at hsf'
        cases hsf'
        cases hr : recB fs fd with
        | ok kids' =>
          rw [hr] at hb
          simp only [] at hb
          cases hb' : buildLoop recB atomics sfs (fieldMap sfs) rest (pre.length + 1) with
          | ok more =>
            rw [hb'] at hb
            simp at hb
            subst hb
            subst hfs' hfd'
            obtain ⟨sfs', dfs', h1', h2', h3'⟩ := hrecOK _ _ kids' hks hkd hr
            have hnok : NodeOK (.mk (fname df) i pre.length false kids') (fty sf) (fty df) := by
              simp only [NodeOK]
              exact Or.inr ⟨sfs', dfs', h1', h2', h3'⟩
            refine step _ more i sf rfl rfl hed hes hsf hnok hb' ?_
            intro sfv dfv hws' hwd'
            apply copyNode_ok_of_inner opts _ _ sfv _ dfv _ hws' hwd' (canSet_FlOK hflc _ _)
            intro x y ifl wasPtr hx hy hics
            simp only [treeInner, Bool.false_eq_true, if_false]
            rw [hty] at hr hx hleaf ⊢
            exact hsucc _ kids' (hrecid hkd (by simpa using hleaf)) hr x y ifl hx hy hics
          | err e => rw [hb'] at hb; simp at hb
          | panic m => rw [hb'] at hb; simp at hb
        | err e => rw [hr] at hb; simp at hb
        | panic m => rw [hr] at hb; simp at hb
      | fail e => rw [hp] at hb; simp at hb
      | panic m => rw [hp] at hb; simp at hb

/-- whole structs: with identical field types and no converters every copy succeeds -/
theorem copy_identical (opts : Options) (hnc : opts.conv = []) (atomics : List Ty) :
    ∀ (fuel : Nat) (S D : Ty) (kids : List Node), Spec.Identical atomics fuel S D →
      createFieldNodes atomics fuel S D = .ok kids →
      ∀ sv dv fl, wt S sv = true → wt D dv = true → fl.canSet = true →
        (copyChildren opts kids S sv false D dv fl).res = .ok ()
  | 0, _, _, _, h, _ => by simp [Spec.Identical] at h
  | fuel + 1, S, D, kids, h, hb => by
      obtain ⟨sfs, dfs, hsfs, hdfs, hid⟩ := h
      simp only [createFieldNodes, hsfs, hdfs] at hb
      intro sv dv fl hws hwd hcs
      have := copyLoop_identical opts hnc atomics (createFieldNodes atomics fuel) fuel S D sfs dfs hsfs hdfs hid
        (fun t k ht hk x y ifl hx hy hi => copy_identical opts hnc atomics fuel t t k ht hk x y ifl hx hy hi)
        (fun s d k a b c => createFieldNodes_ok atomics fuel s d k a b c) sv hws fl hcs dfs [] kids rfl
        (by simpa using hb) dv hwd
      exact this

/-! ### the pure CopyTo succeeds -/

theorem isLeafTy_nil_struct (t : Ty) (h : t.kind = .struct) : isLeafTy [] t = false := by
  simp [isLeafTy, h, isShadowCopyType]

def PureSucceedRec (fuel : Nat) (recP : Ty → Val → Ty → Val → Flags → CopyRes) : Prop :=
  ∀ t x y fl, Spec.Identical [] fuel t t → wt t x = true → wt t y = true → fl.canSet = true →
    (recP t x t y fl).res = .ok () ∧ wt t (recP t x t y fl).dst = true

theorem pureData_identical (recP : Ty → Val → Ty → Val → Flags → CopyRes) (fuel : Nat)
    (hrec : PureSucceedRec fuel recP) (t : Ty) (x y : Val) (fl : Flags) (name : String)
    (hnp : t.kind ≠ .ptr) (hid : t.kind = .struct → Spec.Identical [] fuel t t)
    (hx : wt t x = true) (hy : wt t y = true) (hc : fl.canSet = true) :
    (pureData recP t x t y fl name).res = .ok () ∧ wt t (pureData recP t x t y fl name).dst = true := by
  have hnp' : (t.kind == Kind.ptr) = false := by simpa using hnp
  simp only [pureData, hnp', Bool.false_eq_true, if_false, bne_self_eq_false, ne_eq, not_true_eq_false, hc, if_true]
  by_cases hs : isShadowCopyType t.kind = true
  · rw [if_pos hs]; exact ⟨rfl, hx⟩
  · rw [if_neg hs]
    by_cases hk : (t.kind == Kind.struct) = true
    · rw [if_pos hk]
      exact hrec t x y fl (hid (by simpa using hk)) hx hy hc
    · rw [if_neg hk]; exact ⟨rfl, hy⟩

theorem pureField_identical (recP : Ty → Val → Ty → Val → Flags → CopyRes) (fuel : Nat)
    (hrec : PureSucceedRec fuel recP) (sf df : Field) (sfv dfv : Val) (fl : Flags)
    (hty : fty sf = fty df) (hm : (fty df).isMultiPtr = false)
    (hid : (fty df).stripPtr.kind = .struct → Spec.Identical [] fuel (fty df).stripPtr (fty df).stripPtr)
    (hs : wt (fty sf) sfv = true) (hd : wt (fty df) dfv = true) (hc : fl.canSet = true) :
    (pureField recP sf sfv df dfv fl).res = .ok () ∧ wt (fty df) (pureField recP sf sfv df dfv fl).dst = true := by
  unfold pureField
  rw [hty] at hs ⊢
  simp only [bne_self_eq_false, Bool.false_eq_true, if_false]
  have hel : fl.elem.canSet = true := by
    simp only [Flags.canSet, Bool.and_eq_true, Bool.not_eq_true'] at hc
    simp [Flags.elem, Flags.canSet, hc.2]
  by_cases hp : ((fty df).kind == Kind.ptr) = true
  · rw [if_pos hp]
    obtain ⟨e, he⟩ := elem_of_kind_ptr _ (by simpa using hp)
    have hnp := not_multiPtr_elem he hm
    rw [stripPtr_of_elem he] at hid
    rcases wt_ptr _ e sfv he hs with rfl | ⟨x, rfl, hx⟩
    · simp only [he]; exact ⟨trivial, hd⟩
    · rcases wt_ptr _ e dfv he hd with rfl | ⟨y, rfl, hy⟩
      · simp only [he, hc, Bool.not_true, Bool.false_eq_true, if_false]
        have := pureData_identical recP fuel hrec e x (zeroOf e) fl.elem (fname sf) hnp hid hx (wt_zeroOf e) hel
        exact ⟨this.1, wt_of_ptr _ e _ he this.2⟩
      · simp only [he]
        have := pureData_identical recP fuel hrec e x y fl.elem (fname sf) hnp hid hx hy hel
        exact ⟨this.1, wt_of_ptr _ e _ he this.2⟩
  · rw [if_neg hp]
    have hnp : (fty df).kind ≠ .ptr := by simpa using hp
    rw [stripPtr_of_not_ptr hnp] at hid
    exact pureData_identical recP fuel hrec _ sfv dfv fl _ hnp hid hs hd hc

theorem pureLoop_identical (recP : Ty → Val → Ty → Val → Flags → CopyRes) (fuel : Nat)
    (hrec : PureSucceedRec fuel recP) (sT dT : Ty) (sfs dfs : List Field)
    (hsfs : sT.fields? = some sfs) (hdfs : dT.fields? = some dfs) (hid : IdentFrom [] fuel sfs dfs)
    (sv : Val) (hws : wt sT sv = true) (fl : Flags) (hcs : fl.canSet = true) :
    ∀ (dsuf pre : List Field), dfs = pre ++ dsuf → ∀ dv, wt dT dv = true →
      (pureLoop recP sfs (fieldMap sfs) sv fl dsuf pre.length dv).res = .ok () ∧
        wt dT (pureLoop recP sfs (fieldMap sfs) sv fl dsuf pre.length dv).dst = true
  | [], _, _, _, hw => by simp only [pureLoop]; exact ⟨trivial, hw⟩
  | df :: rest, pre, hpre, dv, hw => by
      have ih := pureLoop_identical recP fuel hrec sT dT sfs dfs hsfs hdfs hid sv hws fl hcs rest (pre ++ [df])
        (by simp [hpre])
      simp only [List.length_append, List.length_cons, List.length_nil, Nat.zero_add] at ih
      have hdf : dfs[pre.length]? = some df := by rw [hpre]; simp
      simp only [pureLoop]
      by_cases he : (!fexp df) = true
      · rw [if_pos he]; exact ih dv hw
      · rw [if_neg he]
        have he' : fexp df = true := by simpa using he
        rw [fieldMap_lookup]
        cases hi : Spec.srcFieldIdx? sfs (fname df) with
        | none => exact ih dv hw
        | some i =>
          simp only []
          obtain ⟨sf, hsf, hty, hm, hrecid⟩ := hid pre.length df hdf he' i hi
          obtain ⟨sfv, hsfv, hwsfv⟩ := wt_field sT sfs sv i sf hsfs hws hsf
          obtain ⟨dfv, hdfv, hwdfv⟩ := wt_field dT dfs dv pre.length df hdfs hw hdf
          simp only [hsf, hsfv, hdfv, he']
          have hflc : (fl.field true).canSet = true := by simpa [Flags.field, Flags.canSet] using hcs
          have hr := pureField_identical recP fuel hrec sf df sfv dfv (fl.field true) hty hm
            (fun hk => hrecid hk (isLeafTy_nil_struct _ hk)) hwsfv hwdfv hflc
          rw [hr.1]
          simp only []
          exact ih _ (wt_setField dT dfs dv pre.length df _ hdfs hw hdf hr.2)

theorem pure_identical : ∀ (fuel : Nat) (S D : Ty), Spec.Identical [] fuel S D →
    ∀ sv dv fl, wt S sv = true → wt D dv = true → fl.canSet = true →
      (pureStruct fuel S sv D dv fl).res = .ok () ∧ wt D (pureStruct fuel S sv D dv fl).dst = true
  | 0, _, _, h => by simp [Spec.Identical] at h
  | fuel + 1, S, D, h => by
      obtain ⟨sfs, dfs, hsfs, hdfs, hid⟩ := h
      intro sv dv fl hws hwd hcs
      simp only [pureStruct, hsfs, hdfs]
      have hrec : PureSucceedRec fuel (pureStruct fuel) := fun t x y fl' ht hx hy hc =>
        pure_identical fuel t t ht x y fl' hx hy hc
      have := pureLoop_identical (pureStruct fuel) fuel hrec S D sfs dfs hsfs hdfs hid sv hws fl hcs dfs [] rfl dv hwd
      simpa using this

/-! ### the executable form of `Identical` -/

theorem identLoop_sound (atomics : List Ty) (rec : Ty → Bool) (P : Ty → Prop) (hrec : ∀ t, rec t = true → P t)
    (sfs : List Field) : ∀ (dfs : List Field), Spec.identLoop atomics rec sfs dfs = true →
    ∀ (j : Nat) (df : Field), dfs[j]? = some df → fexp df = true →
      ∀ i, Spec.srcFieldIdx? sfs (fname df) = some i →
        ∃ sf, sfs[i]? = some sf ∧ fty sf = fty df ∧ (fty df).isMultiPtr = false ∧
          ((fty df).stripPtr.kind = .struct → isLeafTy atomics (fty df).stripPtr = false → P (fty df).stripPtr)
  | [], _, _, _, h, _, _, _ => by simp at h
  | df' :: rest, hl, 0, df, h, he, i, hi => by
      simp at h
      subst h
      simp only [Spec.identLoop, Bool.and_eq_true, he, if_true, hi] at hl
      cases hsf : sfs[i]? with
      | none => rw [hsf] at hl; simp at hl
      | some sf =>
        rw [hsf] at hl
        simp only [Bool.and_eq_true, beq_iff_eq, Bool.not_eq_true'] at hl
        refine ⟨sf, rfl, hl.1.1.1, hl.1.1.2, ?_⟩
        intro hk hlf
        have := hl.1.2
        simp only [hk, beq_self_eq_true, hlf, Bool.not_false, Bool.and_self, if_true] at this
        exact hrec _ this
  | df' :: rest, hl, j + 1, df, h, he, i, hi => by
      simp at h
      simp only [Spec.identLoop, Bool.and_eq_true] at hl
      exact identLoop_sound atomics rec P hrec sfs rest hl.2 j df h he i hi

theorem identicalB_sound (atomics : List Ty) : ∀ (fuel : Nat) (S D : Ty),
    Spec.identicalB atomics fuel S D = true → Spec.Identical atomics fuel S D
  | 0, _, _, h => by simp [Spec.identicalB] at h
  | fuel + 1, S, D, h => by
      simp only [Spec.identicalB] at h
      cases hs : S.fields? with
      | none => rw [hs] at h; simp at h
      | some sfs =>
        cases hd : D.fields? with
        | none => rw [hs, hd] at h; simp at h
        | some dfs =>
          rw [hs, hd] at h
          exact ⟨sfs, dfs, hs, hd, identLoop_sound atomics _ (fun t => Spec.Identical atomics fuel t t)
            (fun t ht => identicalB_sound atomics fuel t t ht) sfs dfs h⟩

end Ekit.Copier
