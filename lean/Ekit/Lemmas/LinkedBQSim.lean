/-
Forward simulation from the linked blocking queue model to the canonical atomic automaton of the
bounded (or, for `maxSize ≤ 0`, unbounded) FIFO specification.  Linearization points: `eAppend`,
`dDelete`, the step on which a call commits to its context error (`eCtx`/`dCtx` with the context
ended, the `ctx.Done()` arm of the select), `lRead`, `aRead`.
-/
import Ekit.Lemmas.LinkedBQStep
namespace Ekit.LinkedBQ
open Ekit.Conc Ekit.BQ

def absSt : Pc → TStatus Op Ret
  | .idle => .idle
  | .eCtx v | .eLock v | .eGuard v | .eSigRead v | .eSigUnlock v _ | .eSelect v _ | .eAppend v => .pending (.enq v)
  | .dCtx | .dLock | .dGuard | .dSigRead | .dSigUnlock _ | .dSelect _ | .dDelete => .pending .deq
  | .bcSwap _ r | .bcUnlock _ _ r | .bcClose _ _ r => .done r
  | .lRLock | .lRead => .pending .len
  | .aRLock | .aRead => .pending .asSlice
  | .runlock r | .ret r => .done r

def R (s : State) (a : AState (List Int) Op Ret) : Prop :=
  a.s = s.q ∧ ∀ t, a.th t = absSt (s.pc t)

abbrev Spec (m : Int) := bqSpec (bound m)

theorem sim_silent {m : Int} {s s' : State} {a : AState (List Int) Op Ret} (t : Nat) (hR : R s a)
    (hpc : ∀ u, u ≠ t → s'.pc u = s.pc u) (hst : absSt (s'.pc t) = absSt (s.pc t))
    (hc : s'.q = s.q) :
    ∃ als a', ARun (Spec m) a als a' ∧ R s' a' ∧ als.filterMap ALabel.obs = [] := by
  refine ⟨[], a, ARun.nil, ⟨by rw [hc]; exact hR.1, ?_⟩, rfl⟩
  intro u
  by_cases hu : u = t
  · subst hu; rw [hst]; exact hR.2 u
  · rw [hpc u hu]; exact hR.2 u

theorem sim_lin {m : Int} {s s' : State} {a : AState (List Int) Op Ret} (t : Nat) (op : Op) (r : Ret)
    (hR : R s a) (hpc : ∀ u, u ≠ t → s'.pc u = s.pc u)
    (hpend : absSt (s.pc t) = .pending op) (hdone : absSt (s'.pc t) = .done r)
    (happ : apply (bound m) s.q op s'.q r) :
    ∃ als a', ARun (Spec m) a als a' ∧ R s' a' ∧ als.filterMap ALabel.obs = [] := by
  refine ⟨[.lin t s'.q r], ⟨s'.q, upd a.th t (.done r)⟩, ?_, ⟨rfl, ?_⟩, rfl⟩
  · refine ARun.cons (AStep.lin (op := op) ?_ ?_) ARun.nil
    · rw [hR.2 t, hpend]
    · rw [hR.1]; exact happ
  · intro u
    by_cases hu : u = t
    · subst hu; simp [upd, hdone]
    · simp [upd, hu, hpc u hu, hR.2 u]

theorem notFull_of_full_false {m : Int} {s : State} (h : Inv m s) (h2 : Inv2 s) (hf : full s = false) :
    notFull (bound m) s.q := by
  unfold bound
  split
  · rename_i hm
    have := full_false_lt hf h2.cap_le (by rw [h.msz]; exact hm)
    rw [h.msz] at this
    simp only [notFull]; omega
  · trivial

theorem sim_tau {m : Int} {s s' : State} {t : Nat} {a : AState (List Int) Op Ret}
    (h : Inv m s) (h2 : Inv2 s) (hR : R s a) (hs : tauStep s t = some s') :
    ∃ als a', ARun (Spec m) a als a' ∧ R s' a' ∧ als.filterMap ALabel.obs = [] := by
  have hnp := (inv2_tau h h2 hs).noPanic
  have hLt := h2.lockF t
  unfold tauStep at hs
  cases hp : s.pc t <;> simp only [hp] at hs
  all_goals (simp only [hp, lockFact] at hLt)
  case eAppend v =>
    simp only [ll_append] at hs
    injection hs with hs; subst hs
    refine sim_lin t (.enq v) .ok hR ?_ (by simp [hp, absSt]) (by simp [setPc, absSt]) ?_
    · intro u hu; simp [setPc, upd, hu]
    · exact Or.inl ⟨rfl, rfl, notFull_of_full_false h h2 hLt⟩
  case dDelete =>
    cases hq : s.q with
    | nil => exact absurd hq hLt
    | cons x rest =>
    simp only [hq, ll_delete0_cons] at hs
    injection hs with hs; subst hs
    refine sim_lin t .deq (.val x) hR ?_ (by simp [hp, absSt]) (by simp [setPc, absSt]) ?_
    · intro u hu; simp [setPc, upd, hu]
    · exact Or.inl ⟨x, rfl, by simp [setPc, hq]⟩
  all_goals (try simp only [unlockTo, ll_len, ll_asSlice] at hs)
  all_goals (try split at hs)
  all_goals (try (simp at hs; done))
  all_goals (injection hs with hs; subst hs)
  all_goals (try (simp [panic] at hnp; done))
  all_goals (try (
    refine sim_silent t hR ?_ ?_ (by simp [setPc])
    · intro u hu; simp [setPc, upd, hu]
    · simp [setPc, hp, absSt]
    done))
  case eCtx.isTrue v _ =>
    refine sim_lin t (.enq v) .ctxErr hR ?_ (by simp [hp, absSt]) (by simp [setPc, absSt]) (Or.inr ⟨rfl, rfl⟩)
    intro u hu; simp [setPc, upd, hu]
  case dCtx.isTrue =>
    refine sim_lin t .deq .ctxErr hR ?_ (by simp [hp, absSt]) (by simp [setPc, absSt]) (Or.inr ⟨rfl, rfl⟩)
    intro u hu; simp [setPc, upd, hu]
  case lRead =>
    refine sim_lin t .len (.n s.q.length) hR ?_ (by simp [hp, absSt]) (by simp [setPc, absSt]) ⟨rfl, rfl⟩
    intro u hu; simp [setPc, upd, hu]
  case aRead =>
    refine sim_lin t .asSlice (.slice s.q) hR ?_ (by simp [hp, absSt]) (by simp [setPc, absSt]) ⟨rfl, rfl⟩
    intro u hu; simp [setPc, upd, hu]

theorem absSt_start (op : Op) : absSt (start op) = .pending op := by cases op <;> rfl

theorem sim_step {m : Int} {s s' : State} {l : Label} {a : AState (List Int) Op Ret}
    (h : Inv m s) (h2 : Inv2 s) (hR : R s a) (hs : step s l = some s') :
    ∃ als a', ARun (Spec m) a als a' ∧ R s' a' ∧ als.filterMap ALabel.obs = (obs l).toList := by
  cases l with
  | tau t =>
    simp only [step] at hs
    split at hs
    · simp at hs
    · exact sim_tau h h2 hR hs
  | ctxEnd t =>
    simp only [step] at hs
    split at hs
    · injection hs with hs; subst hs
      exact ⟨[], a, ARun.nil, ⟨hR.1, hR.2⟩, rfl⟩
    · simp at hs
  | ctxArm t =>
    simp only [step] at hs
    cases hp : s.pc t <;> simp only [hp] at hs <;> try (simp at hs; done)
    all_goals (split at hs <;> try (simp at hs; done))
    all_goals (injection hs with hs; subst hs)
    · rename_i v g _
      refine sim_lin t (.enq v) .ctxErr hR ?_ (by simp [hp, absSt]) (by simp [setPc, absSt]) (Or.inr ⟨rfl, rfl⟩)
      intro u hu; simp [setPc, upd, hu]
    · refine sim_lin t .deq .ctxErr hR ?_ (by simp [hp, absSt]) (by simp [setPc, absSt]) (Or.inr ⟨rfl, rfl⟩)
      intro u hu; simp [setPc, upd, hu]
  | inv t op =>
    simp only [step] at hs
    split at hs
    · rename_i hidle
      injection hs with hs; subst hs
      refine ⟨[.inv t op], ⟨a.s, upd a.th t (.pending op)⟩, ARun.cons (AStep.inv ?_) ARun.nil, ⟨hR.1, ?_⟩, rfl⟩
      · rw [hR.2 t, hidle]; rfl
      · intro u
        by_cases hu : u = t
        · subst hu; simp [upd, absSt_start]
        · simp [upd, hu, hR.2 u]
    · simp at hs
  | res t r =>
    simp only [step] at hs
    split at hs
    · rename_i hret
      injection hs with hs; subst hs
      refine ⟨[.res t r], ⟨a.s, upd a.th t .idle⟩, ARun.cons (AStep.res ?_) ARun.nil, ⟨hR.1, ?_⟩, rfl⟩
      · rw [hR.2 t, hret]; rfl
      · intro u
        by_cases hu : u = t
        · subst hu; simp [upd, absSt]
        · simp [upd, hu, hR.2 u]
    · simp at hs

theorem R_init (m : Int) : R (init m) (AInit (Spec m)) := by
  refine ⟨by simp [AInit, Spec, bqSpec, init], ?_⟩
  intro t; simp [AInit, init, absSt]

end Ekit.LinkedBQ
