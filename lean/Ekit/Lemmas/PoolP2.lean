/- Layer P, caller steps (see PoolP.lean). -/
import Ekit.Lemmas.PoolP
namespace Ekit.Pool

theorem cancelW_newWorker : cancelW newWorker = false := by simp [cancelW, newWorker]
theorem finW_newWorker : finW newWorker = false := by simp [finW, newWorker]

set_option maxHeartbeats 2000000 in
theorem invP_cstep (c : Cfg) (s s' : St) (t : Nat) (a : CAct) (hA : InvA s) (hC : (LCn c).Inv s)
    (hi : LP.Inv s) (h : cAct c s t (s.callers t) a = some s') : LP.Inv s' := by
  have hg := hi.glob
  have hcg := hC.glob
  have hag := (GAI_iff _).1 hA.glob
  have hat := (LA_iff _ _ _).1 (hA.loc t)
  simp only [LP, HP] at hg
  simp only [LCn] at hcg
  simp only [St.ga] at hag hat
  cases a <;> simp only [cAct, toUnlock] at h <;> (repeat' (split at h)) <;> (try simp at h) <;> (try subst h) <;>
    first
    | (refine Loc.inv_global (s := s) rfl rfl hi ?_ (fun _ _ => trivial) (fun _ _ _ _ => trivial)
       first
       | exact hi.glob
       | (simp only [LP, HP]; simp_all))
    | (refine Loc.inv_spawn (s := s) (t := t) rfl rfl hi ?_ (fun _ => trivial) (fun _ _ _ => trivial)
         (fun _ _ _ _ => trivial) trivial
       simp only [LP, HP, St.setC, List.countP_append, List.countP_cons, List.countP_nil, cancelW_newWorker,
         finW_newWorker, liveW_newWorker]
       generalize List.countP liveW s.workers = nl at *
       generalize List.countP cancelW s.workers = nc at *
       generalize List.countP finW s.workers = nf at *
       simp_all <;> omega)
    | (refine Loc.inv_rendezvous (s := s) (t := t) rfl rfl hi ?_ (fun _ => trivial) (fun _ _ _ => trivial)
         (fun _ _ _ => trivial) (fun _ _ _ _ _ => trivial)
       simp only [LP, HP, St.setC]
       rw [countP_set_eq liveW _ _ _ _ (by assumption), countP_set_eq cancelW _ _ _ _ (by assumption),
           countP_set_eq finW _ _ _ _ (by assumption)]
       generalize List.countP liveW s.workers = nl at *
       generalize List.countP cancelW s.workers = nc at *
       generalize List.countP finW s.workers = nf at *
       simp_all [liveW, cancelW, finW])
    | (refine Loc.inv_caller (s := s) (t := t) rfl rfl hi ?_ (fun _ => trivial) (fun _ _ _ => trivial)
         (fun _ _ _ _ => trivial)
       first
       | exact hi.glob
       | (simp only [LP, HP, St.setC, St.recSub]
          generalize List.countP liveW s.workers = nl at *
          generalize List.countP cancelW s.workers = nc at *
          generalize List.countP finW s.workers = nf at *
          simp_all <;> omega))

end Ekit.Pool
