/-
Invariants of the DelayQueue transition system (Ekit/Model/DelayQ.lean), part 1:
the mutex discipline.
-/
import Ekit.Model.DelayQ

namespace Ekit.DelayQ
open Ekit.Conc

/-- program points at which the code is between `mutex.Lock()` and the matching `Unlock()` -/
def Pc.locked : Pc → Bool
  | .eCrit _ | .dPeek | .dPop _ | .dRepeek | .dReUnlock
  | .bSwap _ _ | .bUnlock _ _ _ | .sFetch _ | .sUnlock _ _ => true
  | _ => false

/-- I1: whoever is inside a critical section owns the mutex, and the owner is inside one -/
def LockInv (s : State) : Prop :=
  (∀ t, (s.pc t).locked = true → s.mutex = some t) ∧ (∀ t, s.mutex = some t → (s.pc t).locked = true)

theorem lockInv_init : LockInv init := by
  constructor <;> intro t h <;> simp [init, Pc.locked] at h

/-- splits `h : step P s l = some s'` into its (37) cases, substituting `s'` -/
macro "step_cases " h:ident : tactic =>
  `(tactic| (cases ‹Label› <;> simp only [step, State.setPc] at $h:ident <;> (repeat' split at $h:ident) <;>
      (first | (cases $h:ident; done) | skip) <;> cases $h:ident))

theorem lockInv_step (P : Params) (s : State) (l : Label) (s' : State)
    (hi : LockInv s) (h : step P s l = some s') : LockInv s' := by
  obtain ⟨h1, h2⟩ := hi
  step_cases h <;>
    (refine ⟨fun u hu => ?_, fun u hu => ?_⟩ <;> dsimp only at hu ⊢ <;> grind [upd, Pc.locked])

end Ekit.DelayQ
