/-
Unlimited strategies (`maxRetries ≤ 0`) called sequentially more than 2^31 times: the counter wraps
but the sticky flag has long been set, so the interval stays `max` — the sequential interval theorem
holds for EVERY call number when the budget is unlimited.
-/
import Ekit.Lemmas.RetrySeq

namespace Ekit.Retry

theorem iter_add (cfg : Cfg) (m n : Nat) : ∀ c : Core, iter cfg (m + n) c = iter cfg n (iter cfg m c) := by
  induction m with
  | zero => intro c; simp [iter]
  | succ k ih => intro c; simp only [Nat.succ_add, iter]; exact ih _

theorem budgetOk_unlimited {cfg : Cfg} (hb : cfg.maxRetries ≤ 0) (r : Int) : budgetOk cfg r = true := by
  simp [budgetOk, hb]

/-- once the flag is set an unlimited exponential strategy returns `max` and keeps the flag -/
theorem next_flagged (cfg : Cfg) (hk : cfg.kind = .exp) (hb : cfg.maxRetries ≤ 0) (c : Core) (hf : c.flag = true) :
    (next cfg c).2 = (cfg.max, true) ∧ (next cfg c).1.flag = true := by
  unfold next
  simp [budgetOk_unlimited hb, hk, hf]

theorem iter_flagged (cfg : Cfg) (hk : cfg.kind = .exp) (hb : cfg.maxRetries ≤ 0) (n : Nat) :
    ∀ c : Core, c.flag = true → (iter cfg n c).flag = true := by
  induction n with
  | zero => intro c h; exact h
  | succ m ih => intro c h; simp only [iter]; exact ih _ (next_flagged cfg hk hb c h).2

/-- from the first moment the flag is set, every later call returns `(max, true)` -/
theorem flagged_forever (cfg : Cfg) (hk : cfg.kind = .exp) (hb : cfg.maxRetries ≤ 0) (K : Nat)
    (hK : (iter cfg K Core.init).flag = true) (i : Nat) (hi : K < i) : callResult cfg i = (cfg.max, true) := by
  unfold callResult
  have : i - 1 = K + (i - 1 - K) := by omega
  rw [this, iter_add]
  exact (next_flagged cfg hk hb _ (iter_flagged cfg hk hb _ _ hK)).1

/-- beyond 64 doublings the mathematical interval is `max` -/
theorem spec_interval_late (cfg : Cfg) (hv : Valid cfg) (hk : cfg.kind = .exp) (i : Nat) (hi : 65 ≤ i) :
    Spec.interval cfg i = cfg.max := by
  have h1 := p2_ge_63 (n := i - 1) (by omega)
  have h2 := Int.mul_le_mul_of_nonneg_right (show (1 : Int) ≤ cfg.initial by have := hv.pos; omega)
    (Int.le_of_lt (p2_pos (i - 1)))
  have h3 := hv.max64
  unfold maxInt64 at h3
  simp only [Spec.interval, hk]
  omega

/-- not the special configuration: the flag is set after 64 calls -/
theorem flag_after_64 (cfg : Cfg) (hv : Valid cfg) (hk : cfg.kind = .exp) (hb : cfg.maxRetries ≤ 0)
    (hns : ¬ Special cfg) : (iter cfg 64 Core.init).flag = true := by
  have inv := seqInv_iter cfg hv 64 (by decide) 0 Core.init (by decide) (seqInv_init cfg)
  simp only [Nat.zero_add] at inv
  cases hf : (iter cfg 64 Core.init).flag with
  | true => rfl
  | false =>
    exfalso
    rcases inv.flagF hk (Or.inl hb) hf with h | h | h
    · omega
    · have h63 : (2 : Int) ^ (64 - 1) = 9223372036854775808 := by decide
      have h2 := Int.mul_le_mul_of_nonneg_right (show (1 : Int) ≤ cfg.initial by have := hv.pos; omega)
        (Int.le_of_lt (p2_pos (64 - 1)))
      have h3 := hv.max64
      unfold maxInt64 at h3
      rw [h63] at h h2
      omega
    · exact hns h

/-- the special configuration (`initial = 1ns`, `max = MaxInt64`, saturating conversion): calls
    2^31 and 2^31+1 still return `max`, and the flag is set after call 2^31+1 -/
theorem special_wrap (cfg : Cfg) (hv : Valid cfg) (hk : cfg.kind = .exp) (hb : cfg.maxRetries ≤ 0)
    (hs : Special cfg) :
    callResult cfg 2147483648 = (cfg.max, true) ∧ callResult cfg 2147483649 = (cfg.max, true) ∧
      (iter cfg 2147483649 Core.init).flag = true := by
  obtain ⟨harch, hone, hmx⟩ := hs
  have inv := seqInv_iter cfg hv 2147483647 (by decide) 0 Core.init (by decide) (seqInv_init cfg)
  simp only [Nat.zero_add] at inv
  have hr := inv.retries
  -- name the state after 2^31 - 1 calls
  generalize hS : iter cfg 2147483647 Core.init = S at hr
  have e1 : callResult cfg 2147483648 = (next cfg S).2 := by unfold callResult; rw [← hS]
  have hS1 : iter cfg 2147483648 Core.init = (next cfg S).1 := by
    rw [show 2147483648 = 2147483647 + 1 by decide, iter_add, hS]; rfl
  have e2 : callResult cfg 2147483649 = (next cfg (next cfg S).1).2 := by unfold callResult; rw [← hS1]
  have hS2 : iter cfg 2147483649 Core.init = (next cfg (next cfg S).1).1 := by
    rw [show 2147483649 = 2147483648 + 1 by decide, iter_add, hS1]; rfl
  rw [e1, e2, hS2]
  have hw1 : wrap32 (S.retries + 1) = -2147483648 := by rw [hr]; decide
  have hraw1 : rawInterval cfg (-2147483648) = 9223372036854775807 := by
    unfold rawInterval
    rw [show wrap32 ((-2147483648 : Int) - 1) = 2147483647 by decide, pow2_ovf _ (by decide), harch, hone]
    decide
  have hraw2 : rawInterval cfg (-2147483647) = 0 := by
    unfold rawInterval
    rw [show wrap32 ((-2147483647 : Int) - 1) = -2147483648 by decide, pow2_neg _ (by decide), Int.mul_zero]
    decide
  have hhit1 : capHit cfg 9223372036854775807 = false := by
    simp [capHit, hmx, maxInt64]
  have hhit2 : capHit cfg 0 = true := by simp [capHit]
  cases hf : S.flag with
  | true =>
    have n1 := next_flagged cfg hk hb S hf
    have n2 := next_flagged cfg hk hb _ n1.2
    exact ⟨n1.1, n2.1, n2.2⟩
  | false =>
    have n1 : next cfg S = (⟨-2147483648, false⟩, (cfg.max, true)) := by
      unfold next
      simp only [hw1, budgetOk_unlimited hb, hk, hf, hraw1, hhit1, if_true]
      simp [hmx, maxInt64]
    have hw2 : wrap32 ((-2147483648 : Int) + 1) = -2147483647 := by decide
    have n2 : next cfg ⟨-2147483648, false⟩ = (⟨-2147483647, true⟩, (cfg.max, true)) := by
      unfold next
      simp only [hw2, budgetOk_unlimited hb, hk, hraw2, hhit2, if_true]
      simp
    rw [n1]
    show (cfg.max, true) = (cfg.max, true) ∧ (next cfg ⟨-2147483648, false⟩).2 = (cfg.max, true) ∧
      (next cfg ⟨-2147483648, false⟩).1.flag = true
    rw [n2]
    exact ⟨rfl, rfl, rfl⟩

end Ekit.Retry
