import Ekit.Lemmas.Races
/-!
Non-vacuity of `FromTable`: a miniature access table (a writer holding lock 0 exclusively, a reader
holding it shared, a constructor write) and a concrete two-thread trace that is described by it.
-/
namespace Ekit.Races.Witness2
open Ekit.Conc.Lockset Ekit.Conc.AccessTable Ekit.Races

def miniTable : List Access := [
  .mk' "f.go" "L" "new:NewL" "L.vals" 0 true false true [] [],
  .mk' "f.go" "L" "Set" "L.vals" 0 true false false [0] [],
  .mk' "f.go" "L" "Get" "L.vals" 0 false false false [] [0]
]

def miniCert : List Cls := [.lockProtected 0]

theorem miniTable_disciplined : DisciplinedBy miniCert miniTable = true := by decide

abbrev E := Ev TLock TLoc Obj

/-- thread 0 constructs object 5 (init write), publishes it; thread 1 receives it; `Set` by thread 0 and
`Get` by thread 1, each under the object's lock 0 -/
def tr : TTrace :=
  [.write 0 (5, 0), .publish 0 5, .receive 1 5, .acq 0 (5, 0) .excl, .write 0 (5, 0), .rel 0 (5, 0) .excl,
   .acq 1 (5, 0) .shared, .read 1 (5, 0), .rel 1 (5, 0) .shared]

def W : World := { creator := fun _ => 0, root := fun o => o }

def ini (i : Nat) : Prop := i = 0

theorem tr_bound {x : Nat} {e : E} (h : tr[x]? = some e) : x < 9 := by
  rcases Nat.lt_or_ge x tr.length with h' | h'
  · exact h'
  · rw [List.getElem?_eq_none h'] at h; cases h

theorem tr_acc {i : Nat} {e : E} {acc : Acc TLoc} (h : tr[i]? = some e) (ha : e.acc? = some acc) :
    (i = 0 ∧ acc = ⟨0, (5, 0), true, false⟩) ∨ (i = 4 ∧ acc = ⟨0, (5, 0), true, false⟩) ∨
    (i = 7 ∧ acc = ⟨1, (5, 0), false, false⟩) := by
  have hx := tr_bound h
  match i, hx, h with
  | 0, _, h => simp [tr] at h; subst h; simp [Ev.acc?] at ha; exact .inl ⟨rfl, ha.symm⟩
  | 1, _, h => simp [tr] at h; subst h; simp [Ev.acc?] at ha
  | 2, _, h => simp [tr] at h; subst h; simp [Ev.acc?] at ha
  | 3, _, h => simp [tr] at h; subst h; simp [Ev.acc?] at ha
  | 4, _, h => simp [tr] at h; subst h; simp [Ev.acc?] at ha; exact .inr (.inl ⟨rfl, ha.symm⟩)
  | 5, _, h => simp [tr] at h; subst h; simp [Ev.acc?] at ha
  | 6, _, h => simp [tr] at h; subst h; simp [Ev.acc?] at ha
  | 7, _, h => simp [tr] at h; subst h; simp [Ev.acc?] at ha; exact .inr (.inr ⟨rfl, ha.symm⟩)
  | 8, _, h => simp [tr] at h; subst h; simp [Ev.acc?] at ha

theorem holds_set : HoldsAt tr 4 0 (5, 0) .excl :=
  ⟨3, by decide, rfl, fun k h1 h2 => by omega⟩

theorem holds_get : HoldsAt tr 7 1 (5, 0) .shared :=
  ⟨6, by decide, rfl, fun k h1 h2 => by omega⟩

theorem tr_fromTable : FromTable miniTable W ini tr where
  row := by
    intro i e acc hi ha
    rcases tr_acc hi ha with ⟨rfl, rfl⟩ | ⟨rfl, rfl⟩ | ⟨rfl, rfl⟩
    · exact ⟨miniTable[0], by decide, rfl, rfl, rfl, fun _ => rfl, (by intro l hl; cases hl), (by intro l hl; cases hl)⟩
    · refine ⟨miniTable[1], by decide, rfl, rfl, rfl, (by intro h; cases h), ?_, (by intro l hl; cases hl)⟩
      intro l hl
      have : l = 0 := by simpa [miniTable, Access.mk'] using hl
      subst this; exact holds_set
    · refine ⟨miniTable[2], by decide, rfl, rfl, rfl, (by intro h; cases h), (by intro l hl; cases hl), ?_⟩
      intro l hl
      have : l = 0 := by simpa [miniTable, Access.mk'] using hl
      subst this; exact holds_get
  init_by_creator := by
    intro i e acc hi ha hini
    have : i = 0 := hini
    subst this
    rcases tr_acc hi ha with ⟨_, rfl⟩ | ⟨h, _⟩ | ⟨h, _⟩
    · refine ⟨rfl, ?_⟩
      intro p hp hev
      have : p = 0 := by omega
      subst this
      simp [tr] at hev
    · omega
    · omega
  foreign_after_receive := by
    intro j e acc hj ha hne
    rcases tr_acc hj ha with ⟨rfl, rfl⟩ | ⟨rfl, rfl⟩ | ⟨rfl, rfl⟩
    · exact (hne rfl).elim
    · exact (hne rfl).elim
    · exact ⟨2, by decide, rfl⟩
  receive_after_publish := by
    intro q t k hq
    have hx := tr_bound hq
    match q, hx, hq with
    | 0, _, h => simp [tr] at h
    | 1, _, h => simp [tr] at h
    | 2, _, h =>
      simp only [tr, List.getElem?_cons_succ, List.getElem?_cons_zero, Option.some.injEq, Ev.receive.injEq] at h
      obtain ⟨rfl, rfl⟩ := h
      exact ⟨1, 0, by decide, rfl, .inl rfl⟩
    | 3, _, h => simp [tr] at h
    | 4, _, h => simp [tr] at h
    | 5, _, h => simp [tr] at h
    | 6, _, h => simp [tr] at h
    | 7, _, h => simp [tr] at h
    | 8, _, h => simp [tr] at h

end Ekit.Races.Witness2
