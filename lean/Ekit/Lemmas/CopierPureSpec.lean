/-
Helper lemmas for C20, part 11: a successful pure recursive CopyTo satisfies the abstract specification
with no atomic types, no options and `ZeroMode.copy` (a zero source leaf overwrites).
-/
import Ekit.Lemmas.CopierSpecLoop
import Ekit.Lemmas.CopierPure

namespace Ekit.Copier
open Ekit.Go

/-- the specification parameters of the pure CopyTo -/
def pureParams (m : Spec.ZeroMode := .copy) : Spec.Params := ⟨[], m, [], []⟩

/-- what the recursive call is assumed to satisfy (besides `PureRecOK`) -/
def PureSpecRec (recP : Ty → Val → Ty → Val → Flags → CopyRes) (recS : Ty → Val → Ty → Val → Val → Bool)
    (bound : Nat) : Prop :=
  ∀ s x d y fl, s.kind = .struct → d.kind = .struct → s.depth < bound → wt s x = true → wt d y = true →
    fl.canSet = true → (recP s x d y fl).res = .ok () → recS s x d y (recP s x d y fl).dst = true

/-- `Spec.throughPtrs` from a successful `copyStructField` -/
theorem pureField_through (recP : Ty → Val → Ty → Val → Flags → CopyRes) (rel : Val → Val → Val → Bool)
    (sf df : Field) (sfv dfv : Val) (fl : Flags)
    (hs : wt (fty sf) sfv = true) (hd : wt (fty df) dfv = true) (hc : fl.canSet = true)
    (hres : (pureField recP sf sfv df dfv fl).res = .ok ())
    (hrel : ∀ x y fl', wt (fty sf).stripPtr x = true → wt (fty df).stripPtr y = true → fl'.canSet = true →
      (pureData recP (fty sf).stripPtr x (fty df).stripPtr y fl' (fname sf)).res = .ok () →
      rel x y (pureData recP (fty sf).stripPtr x (fty df).stripPtr y fl' (fname sf)).dst = true) :
    Spec.throughPtrs ((fty sf).kind == .ptr) ((fty df).kind == .ptr) (fty df).stripPtr sfv dfv
      (pureField recP sf sfv df dfv fl).dst rel = true := by
  unfold pureField at hres ⊢
  by_cases hk : ((fty sf).kind != (fty df).kind) = true
  · rw [if_pos hk] at hres; simp at hres
  · rw [if_neg hk] at hres ⊢
    have hk' : (fty sf).kind = (fty df).kind := by simpa using hk
    have hel : fl.elem.canSet = true := by
      simp only [Flags.canSet, Bool.and_eq_true, Bool.not_eq_true'] at hc
      simp [Flags.elem, Flags.canSet, hc.2]
    by_cases hp : ((fty sf).kind == Kind.ptr) = true
    · rw [if_pos hp] at hres ⊢
      have hp' : (fty sf).kind = .ptr := by simpa using hp
      have hpd : (fty df).kind = .ptr := hk' ▸ hp'
      obtain ⟨se, hse⟩ := elem_of_kind_ptr _ hp'
      obtain ⟨de, hde⟩ := elem_of_kind_ptr _ hpd
      have hrel' := hrel
      rw [stripPtr_of_elem hse, stripPtr_of_elem hde] at hrel'
      simp only [Spec.throughPtrs, hp', hpd, beq_self_eq_true, if_true, stripPtr_of_elem hde]
      rcases wt_ptr _ se sfv hse hs with rfl | ⟨x, rfl, hx⟩
      · simp [hse, hde]
      · rcases wt_ptr _ de dfv hde hd with rfl | ⟨y, rfl, hy⟩
        · simp only [hse, hde, hc, Bool.not_true, Bool.false_eq_true, if_false] at hres ⊢
          simp only [Spec.throughDst, if_true]
          exact hrel' x (zeroOf de) fl.elem hx (wt_zeroOf de) hel hres
        · simp only [hse, hde] at hres ⊢
          simp only [Spec.throughDst, if_true]
          exact hrel' x y fl.elem hx hy hel hres
    · rw [if_neg hp] at hres ⊢
      have hp' : (fty sf).kind ≠ .ptr := by simpa using hp
      have hpd : (fty df).kind ≠ .ptr := hk' ▸ hp'
      have hp1 : ((fty sf).kind == Kind.ptr) = false := by simpa using hp'
      have hp2 : ((fty df).kind == Kind.ptr) = false := by simpa using hpd
      have hrel' := hrel
      rw [stripPtr_of_not_ptr hp', stripPtr_of_not_ptr hpd] at hrel'
      simp only [Spec.throughPtrs, Spec.throughDst, hp1, hp2, Bool.false_eq_true, if_false]
      exact hrel' sfv dfv fl hs hd hc hres

/-- one matched field -/
theorem pureField_fieldRel (m : Spec.ZeroMode) (hm : m ≠ .skip)
    (recP : Ty → Val → Ty → Val → Flags → CopyRes) (recS : Ty → Val → Ty → Val → Val → Bool) (bound : Nat)
    (IH : PureSpecRec recP recS bound) (sf df : Field) (sfv dfv : Val) (fl : Flags)
    (hdep : (fty sf).depth < bound)
    (hs : wt (fty sf) sfv = true) (hd : wt (fty df) dfv = true) (hc : fl.canSet = true)
    (hres : (pureField recP sf sfv df dfv fl).res = .ok ()) :
    Spec.fieldRel (pureParams m) recS (fname df) (fty sf) sfv (fty df) dfv (pureField recP sf sfv df dfv fl).dst = true := by
  unfold Spec.fieldRel
  by_cases hmu : ((fty sf).isMultiPtr || (fty df).isMultiPtr) = true
  · rw [if_pos hmu]
  · rw [if_neg hmu]
    simp only [Bool.or_eq_true, not_or, Bool.not_eq_true] at hmu
    have hnp : (fty sf).stripPtr.kind ≠ .ptr := by
      by_cases hk : (fty sf).kind = .ptr
      · obtain ⟨e, he⟩ := elem_of_kind_ptr _ hk
        rw [stripPtr_of_elem he]
        exact not_multiPtr_elem he hmu.1
      · rw [stripPtr_of_not_ptr hk]; exact hk
    have hnp' : ((fty sf).stripPtr.kind == Kind.ptr) = false := by simpa using hnp
    simp only [pureParams, isLeafTy, List.contains_nil, Bool.or_false, List.lookup]
    by_cases hsh : isShadowCopyType (fty sf).stripPtr.kind = true
    · rw [if_pos hsh]
      by_cases hty : (fty sf).stripPtr ≠ (fty df).stripPtr
      · rw [if_pos hty]
      · rw [if_neg hty]
        have hty' : (fty sf).stripPtr = (fty df).stripPtr := by simpa using hty
        apply pureField_through recP _ sf df sfv dfv fl hs hd hc hres
        intro x y fl' _ _ hc' hr
        simp only [pureData, hnp', Bool.false_eq_true, if_false, hsh, if_true, hty', bne_self_eq_false, ne_eq,
          not_true_eq_false, hc'] at hr ⊢
        cases m <;> simp_all [Spec.leafRel]
    · rw [if_neg hsh]
      by_cases hks : ((fty sf).stripPtr.kind == Kind.struct) = true
      · rw [if_pos hks]
        by_cases hkd : ((fty df).stripPtr.kind != Kind.struct) = true
        · rw [if_pos hkd]
        · rw [if_neg hkd]
          have hks' : (fty sf).stripPtr.kind = .struct := by simpa using hks
          have hkd' : (fty df).stripPtr.kind = .struct := by simpa using hkd
          apply pureField_through recP _ sf df sfv dfv fl hs hd hc hres
          intro x y fl' hx hy hc' hr
          simp only [pureData, hnp', Bool.false_eq_true, if_false, hsh, hks', hkd', bne_self_eq_false,
            beq_self_eq_true, if_true] at hr ⊢
          exact IH _ x _ y fl' hks' hkd' (by rw [depth_stripPtr]; exact hdep) hx hy hc' hr
      · rw [if_neg hks]

/-- the second loop of `copyStruct` establishes `Spec.loopRel` -/
theorem pureLoop_spec (m : Spec.ZeroMode) (hm : m ≠ .skip)
    (recP : Ty → Val → Ty → Val → Flags → CopyRes) (recS : Ty → Val → Ty → Val → Val → Bool)
    (sT dT : Ty) (sfs dfs : List Field) (hsfs : sT.fields? = some sfs) (hdfs : dT.fields? = some dfs)
    (hrecP : PureRecOK recP sT.depth) (IH : PureSpecRec recP recS sT.depth)
    (svs : List Val) (hws : wt sT (.struct svs) = true) (fl : Flags) (hcs : fl.canSet = true) :
    ∀ (dsuf pre : List Field), dfs = pre ++ dsuf → ∀ (d0s : List Val), wt dT (.struct d0s) = true →
      (pureLoop recP sfs (fieldMap sfs) (.struct svs) fl dsuf pre.length (.struct d0s)).res = .ok () →
      ∃ d1s, (pureLoop recP sfs (fieldMap sfs) (.struct svs) fl dsuf pre.length (.struct d0s)).dst = .struct d1s ∧
        d1s.length = d0s.length ∧ (∀ j, j < pre.length → d1s[j]? = d0s[j]?) ∧
        Spec.loopRel (pureParams m) recS sfs svs d0s d1s dsuf pre.length = true
  | [], _, _, d0s, _, _ => ⟨d0s, by simp [pureLoop], rfl, fun _ _ => rfl, by simp [Spec.loopRel]⟩
  | df :: rest, pre, hpre, d0s, hw, hres => by
      have ih := pureLoop_spec m hm recP recS sT dT sfs dfs hsfs hdfs hrecP IH svs hws fl hcs rest (pre ++ [df])
        (by simp [hpre])
      simp only [List.length_append, List.length_cons, List.length_nil, Nat.zero_add] at ih
      have hdf : dfs[pre.length]? = some df := by rw [hpre]; simp
      have hlen : pre.length < d0s.length := by
        rw [dst_length hdfs hw]
        rcases Nat.lt_or_ge pre.length dfs.length with h | h
        · exact h
        · simp [List.getElem?_eq_none h] at hdf
      -- the field is skipped by the loop
      have skip : pureLoop recP sfs (fieldMap sfs) (.struct svs) fl (df :: rest) pre.length (.struct d0s) =
            pureLoop recP sfs (fieldMap sfs) (.struct svs) fl rest (pre.length + 1) (.struct d0s) →
          (fexp df = false ∨ Spec.srcFieldIdx? sfs (fname df) = none) →
          ∃ d1s, (pureLoop recP sfs (fieldMap sfs) (.struct svs) fl (df :: rest) pre.length (.struct d0s)).dst = .struct d1s ∧
            d1s.length = d0s.length ∧ (∀ j, j < pre.length → d1s[j]? = d0s[j]?) ∧
            Spec.loopRel (pureParams m) recS sfs svs d0s d1s (df :: rest) pre.length = true := by
        intro e hun
        rw [e] at hres ⊢
        obtain ⟨d1s, h1, h2, hA, hB⟩ := ih d0s hw hres
        have hcl : ∀ a, Spec.fieldClause (pureParams m) recS sfs svs df a a = true := by
          intro a
          apply fieldClause_untouched
          rcases hun with h | h
          · exact Or.inl h
          · exact Or.inr (Or.inr (Or.inl h))
        obtain ⟨hA', hB'⟩ := untouched_core _ recS sfs svs d0s d1s df rest pre.length hlen hA hB hcl
        exact ⟨d1s, h1, h2, hA', hB'⟩
      by_cases he : fexp df = true
      · cases hi : Spec.srcFieldIdx? sfs (fname df) with
        | none =>
          apply skip _ (Or.inr hi)
          simp only [pureLoop, he, Bool.not_true, Bool.false_eq_true, if_false, fieldMap_lookup, hi]
        | some i =>
          obtain ⟨sf, hsf, _, _⟩ := srcFieldIdx_some sfs (fname df) i hi
          obtain ⟨sfv, hsfv, hwsfv⟩ := wt_field sT sfs (.struct svs) i sf hsfs hws hsf
          obtain ⟨dfv, hdfv, hwdfv⟩ := wt_field dT dfs (.struct d0s) pre.length df hdfs hw hdf
          have hflc : (fl.field true).canSet = true := by simpa [Flags.field, Flags.canSet] using hcs
          have hdep := depth_field_lt sT sfs sf hsfs (mem_of_getElem? hsf)
          have e : pureLoop recP sfs (fieldMap sfs) (.struct svs) fl (df :: rest) pre.length (.struct d0s) =
              (match (pureField recP sf sfv df dfv (fl.field true)).res with
                | .ok _ => pureLoop recP sfs (fieldMap sfs) (.struct svs) fl rest (pre.length + 1)
                    ((Val.struct d0s).setField pre.length (pureField recP sf sfv df dfv (fl.field true)).dst)
                | e => ⟨(Val.struct d0s).setField pre.length (pureField recP sf sfv df dfv (fl.field true)).dst, e⟩) := by
            simp only [pureLoop, he, Bool.not_true, Bool.false_eq_true, if_false, fieldMap_lookup, hi, hsf, hsfv, hdfv]
            generalize (pureField recP sf sfv df dfv (fl.field true)).res = R
            cases R <;> rfl
          rw [e] at hres ⊢
          have htot := pureField_total recP sT.depth hrecP sf sfv df dfv (fl.field true) hdep hwsfv hwdfv hflc
          cases hr1 : (pureField recP sf sfv df dfv (fl.field true)).res with
          | err e' => rw [hr1] at hres; simp at hres
          | panic m' => rw [hr1] at hres; simp at hres
          | ok u =>
            rw [hr1] at hres
            simp only [] at hres ⊢
            have hrel := pureField_fieldRel m hm recP recS sT.depth IH sf df sfv dfv (fl.field true) hdep hwsfv hwdfv hflc hr1
            generalize (pureField recP sf sfv df dfv (fl.field true)).dst = x at hres hrel htot ⊢
            have hw' : wt dT ((Val.struct d0s).setField pre.length x) = true :=
              wt_setField dT dfs _ pre.length df x hdfs hw hdf htot.2
            simp only [Val.setField] at hres hw' ⊢
            obtain ⟨d1s, h1, h2, hA, hB⟩ := ih (d0s.set pre.length x) hw' hres
            refine ⟨d1s, h1, by simpa using h2, ?_, ?_⟩
            · intro j hj
              rw [hA j (by omega), List.getElem?_set_ne (by omega)]
            · have hd1 : d1s[pre.length]? = some x := by
                rw [hA pre.length (by omega)]
                simp [hlen]
              have hd0 : d0s[pre.length]? = some dfv := by simpa [Val.field?] using hdfv
              have hsv' : svs[i]? = some sfv := by simpa [Val.field?] using hsfv
              simp only [Spec.loopRel, hd0, hd1]
              rw [← loopRel_congr _ recS sfs svs (d0s.set pre.length x) d0s d1s rest (pre.length + 1)
                (fun j hj => List.getElem?_set_ne (by omega)), hB, Bool.and_true]
              exact fieldClause_touched _ recS sfs svs df dfv x i sf sfv he (by simp [pureParams]) hi hsf hsv' hrel
      · apply skip _ (Or.inl (by simpa using he))
        simp [pureLoop, he]

/-- **refinement** of the pure copier -/
theorem pureStruct_spec (m : Spec.ZeroMode) (hm : m ≠ .skip) : ∀ (fuel : Nat) (sT : Ty) (sv : Val) (dT : Ty)
    (dv : Val) (fl : Flags), sT.kind = .struct → dT.kind = .struct → sT.depth ≤ fuel → wt sT sv = true →
    wt dT dv = true → fl.canSet = true → (pureStruct fuel sT sv dT dv fl).res = .ok () →
    Spec.structRel (pureParams m) fuel sT sv dT dv (pureStruct fuel sT sv dT dv fl).dst = true
  | 0, sT, _, _, _, _, hks, _, hdep, _, _, _, _ => by
      have := depth_pos_of_struct sT hks
      omega
  | fuel + 1, sT, sv, dT, dv, fl, hks, hkd, hdep, hws, hwd, hcs, hres => by
      obtain ⟨sfs, hsfs⟩ := fields_of_kind_struct sT hks
      obtain ⟨dfs, hdfs⟩ := fields_of_kind_struct dT hkd
      obtain ⟨svs, rfl, _⟩ := wt_struct sT sfs sv hsfs hws
      obtain ⟨d0s, rfl, _⟩ := wt_struct dT dfs dv hdfs hwd
      simp only [pureStruct, hsfs, hdfs] at hres ⊢
      have hrecP : PureRecOK (pureStruct fuel) sT.depth := by
        intro s x d y fl' a b c e f g
        exact pureStruct_total fuel s x d y fl' a b (by omega) e f g
      have IH : PureSpecRec (pureStruct fuel) (Spec.structRel (pureParams m) fuel) sT.depth := by
        intro s x d y fl' a b c e f g h
        exact pureStruct_spec m hm fuel s x d y fl' a b (by omega) e f g h
      obtain ⟨d1s, h1, h2, _, h4⟩ := pureLoop_spec m hm (pureStruct fuel) _ sT dT sfs dfs hsfs hdfs hrecP IH svs hws fl hcs
        dfs [] rfl d0s hwd (by simpa using hres)
      simp only [List.length_nil] at h1 h4
      simp only [Spec.structRel, hsfs, hdfs, h1]
      simp [h2, h4]

end Ekit.Copier
