/-
Functional refinement of `Delete` (property C01 at the pointer level): `deleteNode` removes exactly the entry at the
given address from the in-order entries, and `Delete` computes what the abstract sorted map `Ekit.RB.SMap` computes.
-/
import Ekit.Lemmas.RBPtrRBTop
import Ekit.Lemmas.RBPtrNoValue
import Ekit.MiniGo.RBFun
import Ekit.Lemmas.RBSorted
namespace Ekit.MiniGo.RBHeap.FunDel
open Ekit.MiniGo Ekit.Gen.RBTreeGo Ekit.MiniGo.RBHeap

/-! ### list-level facts -/

/-- a sublist of `P ++ n :: Q` that misses `n` and is only one element shorter is `P ++ Q` -/
theorem sublist_mid {L' P Q : List Nat} {n : Nat} (hs : L'.Sublist (P ++ n :: Q)) (hn : n ∉ L')
    (hl : L'.length + 1 = (P ++ n :: Q).length) : L' = P ++ Q := by
  obtain ⟨l1, l2, rfl, h1, h2⟩ := List.sublist_append_iff.1 hs
  have h2' : l2.Sublist Q := by
    cases h2 with
    | cons _ h => exact h
    | cons_cons _ h => exact absurd (by simp) hn
  apply List.Sublist.eq_of_length (List.Sublist.append h1 h2')
  simp only [List.length_append, List.length_cons] at hl ⊢
  omega

/-! ### the successor step, exactly -/

section
variable (cmpF : Int → Int → Int) (callH : CallH PName) (lf : Nat)

/-- the successor step: either nothing happens (`n` has at most one child), or the node right after `n` in the in-order
    list is the new victim and `n` has received its key and value -/
theorem exec_succ_fun
    (hSucc : ∀ a st v st' t, Holds st t → a ∈ t.addrs → (st.h a).right ≠ none →
       callH .findSuccessor [.ptr (some a)] st = .ok (v, st') →
       st' = st ∧ ∃ s pre post, v = .ptr (some s) ∧ t.addrs = pre ++ a :: s :: post ∧ (st.h s).left = none) :
    ∀ ρ st fl ρ' st' t n, Holds st t → ρ 1 = .ptr (some n) → n ∈ t.addrs →
      exec cmpF callH lf ρ st Del.dnSucc = .ok (fl, ρ', st') →
      fl = .normal ∧ ∃ n', Holds st' t ∧ ρ' 1 = .ptr (some n') ∧ n' ∈ t.addrs ∧
        ((st'.h n').left = none ∨ (st'.h n').right = none) ∧
        ((n' = n ∧ st' = st) ∨
         (∃ pre post, t.addrs = pre ++ n :: n' :: post ∧ (∀ x, x ≠ n → st'.h x = st.h x) ∧
            (st'.h n).key = (st.h n').key ∧ (st'.h n).value = (st.h n').value)) := by
  intro ρ st fl ρ' st' t n hH hρ hn hx
  simp only [Del.dnSucc, exec, evalE, hρ, Del.valEq_ptr, Node.get] at hx
  cases hl : (st.h n).left with
  | none =>
    simp [hl] at hx
    obtain ⟨rfl, rfl, rfl⟩ := hx
    exact ⟨rfl, n, hH, hρ, hn, .inl hl, .inl ⟨rfl, rfl⟩⟩
  | some l =>
    cases hr : (st.h n).right with
    | none =>
      simp [hl, hr] at hx
      obtain ⟨rfl, rfl, rfl⟩ := hx
      exact ⟨rfl, n, hH, hρ, hn, .inr hr, .inl ⟨rfl, rfl⟩⟩
    | some r =>
      cases hc : callH .findSuccessor [.ptr (some n)] st with
      | error e => simp [hl, hr, hc] at hx
      | ok res =>
        obtain ⟨v, st1⟩ := res
        obtain ⟨rfl, s, pre, post, rfl, hL, hsl⟩ := hSucc _ _ _ _ t hH hn (by simp [hr]) hc
        have hs : s ∈ t.addrs := by rw [hL]; simp
        have hsn : s ≠ n := by
          have := hH.2.1
          rw [hL, List.nodup_append] at this
          have h2 := this.2.1
          rw [List.nodup_cons] at h2
          intro e; exact h2.1 (by simp [e])
        simp [hl, hr, hc, Env.set, hρ, Node.set] at hx
        obtain ⟨rfl, rfl, rfl⟩ := hx
        refine ⟨rfl, s, Del.holds_congr hH (fun a => ?_), by simp [Env.set], hs, .inl ?_,
          .inr ⟨pre, post, hL, ?_, ?_, ?_⟩⟩
        · by_cases han : a = n <;> simp [upd, SamePtrs, han, hl, hr]
        · simp [upd, hsn, hsl]
        · intro x hxn; simp [upd, hxn]
        · simp [upd]
        · simp [upd, hsn]

end

/-! ### deleteNode -/

/-- what deleteNode does to the entries: exactly the entry at address `a` disappears -/
theorem deleteNode_entries (cmpF : Int → Int → Int) :
    ∀ fuel a st v st' t, Holds st t → a ∈ t.addrs →
      call cmpF procs fuel .deleteNode [.ptr (some a)] st = .ok (v, st') →
      ∃ t' pre post, Holds st' t' ∧ t.addrs = pre ++ a :: post ∧
        entries st' t' = (pre.map fun x => ((st.h x).key, (st.h x).value)) ++ (post.map fun x => ((st.h x).key, (st.h x).value)) := by
  intro fuel a st v st' t hH ha hx
  cases fuel with
  | zero => simp [call] at hx
  | succ f =>
    change runBody cmpF (call cmpF procs f) f (procs .deleteNode) [.ptr (some a)] st = .ok (v, st') at hx
    simp only [runBody, procs, Del.body_deleteNode_eq'] at hx
    simp only [exec, evalE] at hx
    have hρ0 : ((Env.ofArgs [Val.ptr (some a)]).set 1 (Env.ofArgs [Val.ptr (some a)] 0)) 1 = .ptr (some a) := by
      simp [Env.set, Env.ofArgs]
    generalize ((Env.ofArgs [Val.ptr (some a)]).set 1 (Env.ofArgs [Val.ptr (some a)] 0)) = ρ0 at hx hρ0
    cases h1 : exec cmpF (call cmpF procs f) f ρ0 st Del.dnSucc with
    | error e => simp [h1] at hx
    | ok res =>
      obtain ⟨fl1, ρ1, st1⟩ := res
      obtain ⟨rfl, n, hH1, hρ1, hn, hlf, hcase⟩ :=
        exec_succ_fun cmpF (call cmpF procs f) f (call_findSuccessor cmpF f) _ _ _ _ _ t a hH hρ0 ha h1
      simp only [h1] at hx
      cases h2 : exec cmpF (call cmpF procs f) f ρ1 st1 Del.dnRest with
      | error e => simp [h2] at hx
      | ok res =>
        obtain ⟨fl2, ρ2, st2⟩ := res
        obtain ⟨rfl, hcase2⟩ := Del.exec_rest cmpF (call cmpF procs f) f (call_specK cmpF f)
          (call_getColor_pure cmpF f) _ _ _ _ _ t n hH1 hn hρ1 h2
        have hval : ValSame st1 st2 :=
          exec_nv cmpF (call cmpF procs f) (call_noval cmpF f) f Del.dnRest (by decide) _ _ _ _ _ h2
        simp [h2] at hx
        obtain ⟨rfl, rfl⟩ := hx
        rcases hcase2 with ⟨t2, hS, hlen⟩ | ⟨hl, hr, hp, v, stm, t2, hv, _, hp', _⟩
        · have hlen' := hlen hlf (fun hl hr hp v stm hv => leafSpec_holds cmpF f n st1 v stm t hH1 hn hl hr hp hv)
          have hsub := hS.sub
          have hnd := hH.2.1
          rcases hcase with ⟨rfl, rfl⟩ | ⟨pre, post, hL, hfr, hk, hvv⟩
          · obtain ⟨pre, post, hL⟩ := List.append_of_mem ha
            rw [hL] at hsub hlen'
            have e := sublist_mid hsub hS.nmem hlen'
            refine ⟨t2, pre, post, hS.holds, hL, ?_⟩
            simp only [entries, e, List.map_append]
            congr 1
            · exact List.map_congr_left (fun x _ => by rw [hS.keys x, hval x])
            · exact List.map_congr_left (fun x _ => by rw [hS.keys x, hval x])
          · have hL' : t.addrs = (pre ++ [a]) ++ n :: post := by simp [hL]
            rw [hL'] at hsub hlen'
            have e := sublist_mid hsub hS.nmem hlen'
            rw [hL, List.nodup_append] at hnd
            obtain ⟨_, nd2, nd3⟩ := hnd
            rw [List.nodup_cons, List.nodup_cons] at nd2
            have hapre : ∀ x ∈ pre, x ≠ a := fun x hx e => nd3 x hx a (by simp) e
            have hapost : ∀ x ∈ post, x ≠ a := fun x hx e => nd2.1 (by simp [← e, hx])
            refine ⟨t2, pre, n :: post, hS.holds, hL, ?_⟩
            simp only [entries, e, List.map_append, List.map_cons, List.append_assoc,
              List.cons_append, List.nil_append]
            congr 1
            · exact List.map_congr_left (fun x hx => by rw [hS.keys x, hval x, hfr x (hapre x hx)])
            · congr 1
              · rw [hS.keys a, hval a, hk, hvv]
              · exact List.map_congr_left (fun x hx => by rw [hS.keys x, hval x, hfr x (hapost x hx)])
        · exact absurd hp' (fixSpec_holds cmpF f n st1 v stm t hH1 hn hl hr hp hv)

/-! ### Delete -/

theorem delete_refines (cmpF : Int → Int → Int) (hLaw : Ekit.RB.LawfulCmp cmpF)
    (hFind : ∀ fuel k st v st' t, Holds st t → Ordered cmpF st t →
      call cmpF procs fuel .findNode [.int k] st = .ok (v, st') →
      st' = st ∧ ((∃ a, v = .ptr (some a) ∧ a ∈ t.addrs ∧ cmpF k (st.h a).key = 0) ∨
                  (v = .ptr none ∧ ∀ a ∈ t.addrs, cmpF k (st.h a).key ≠ 0))) :
    ∀ fuel k st r st' t, Holds st t → Ordered cmpF st t →
      call cmpF procs fuel .Delete [.int k] st = .ok (r, st') →
      ∃ t', Holds st' t' ∧ entries st' t' = (Ekit.RB.SMap.step cmpF (entries st t) (.delete k)).1 ∧
        RetIs (Ekit.RB.SMap.step cmpF (entries st t) (.delete k)).2 r := by
  intro fuel k st r st' t hH hO h
  cases fuel with
  | zero => simp [call] at h
  | succ f =>
    simp only [call, runBody, procs, body_Delete, exec, evalE, Env.ofArgs, List.getD, Env.set] at h
    cases h1 : call cmpF procs f .findNode [Val.int k] st with
    | error e => simp [h1] at h
    | ok r1 =>
      obtain ⟨x, st1⟩ := r1
      obtain ⟨rfl, hcase⟩ := hFind f k st x st1 t hH hO h1
      rcases hcase with ⟨a, rfl, ha, hka⟩ | ⟨rfl, hne⟩
      · simp [h1, valEq, Env.set] at h
        cases h2 : call cmpF procs f .deleteNode [Val.ptr (some a)] st1 with
        | error e => simp [h2] at h
        | ok r2 =>
          obtain ⟨y, st2⟩ := r2
          simp [h2] at h
          obtain ⟨rfl, rfl⟩ := h
          obtain ⟨t', pre, post, hH', hL, hE⟩ := deleteNode_entries cmpF f a st1 y st2 t hH ha h2
          have hent : entries st1 t = (pre.map fun x => ((st1.h x).key, (st1.h x).value)) ++
              ((st1.h a).key, (st1.h a).value) :: (post.map fun x => ((st1.h x).key, (st1.h x).value)) := by
            simp [entries, hL]
          have hS := (ordered_iff_sorted cmpF st1 t).1 hO
          rw [hent] at hS
          have hlook := Ekit.RB.SMap.lookup_mid_eq hLaw hS hka
          have her := Ekit.RB.SMap.erase_mid_eq hLaw hS hka
          refine ⟨t', hH', ?_, ?_⟩
          · rw [hent]; simp only [Ekit.RB.SMap.step, hlook, her]; exact hE
          · rw [hent]; simp only [Ekit.RB.SMap.step, hlook, RetIs]; exact .inr rfl
      · simp [h1, valEq, Env.set] at h
        obtain ⟨rfl, rfl⟩ := h
        have hlook : Ekit.RB.SMap.lookup cmpF k (entries st1 t) = none := by
          apply Ekit.RB.SMap.lookup_none_of_ne
          intro p hp
          simp only [entries, List.mem_map] at hp
          obtain ⟨a, ha, rfl⟩ := hp
          exact hne a ha
        refine ⟨t, hH, ?_, ?_⟩
        · simp only [Ekit.RB.SMap.step, hlook]
        · simp only [Ekit.RB.SMap.step, hlook, RetIs]


end Ekit.MiniGo.RBHeap.FunDel
