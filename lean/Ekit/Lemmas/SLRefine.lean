/-
The translated internal/slice/{add,delete,shrink}.go (Ekit/Generated/SliceGo.lean, run by the MiniGo interpreter with
aliasing slices of Ekit/MiniGo/LangSL.lean) computes the hand-written value-level models `sliceAdd`, `sliceDelete`,
`sliceShrink` of Ekit/Model/Lists.lean: same results, and the heap effect (in place / freshly allocated) is stated.
-/
import Ekit.Generated.SliceGo
import Ekit.Lemmas.Lists

namespace Ekit.MiniGo.SL.Refine
open Ekit.MiniGo.SL Ekit.Gen.SliceGo Ekit.Lists
open Ekit.Go (Outcome Err)

/-- the slice value `(some a, l, c)` is well-formed in the heap: its backing array has exactly `c` slots and `l ≤ c`,
    and the array has been allocated -/
def WFS (st : St) (a l c : Nat) : Prop := (st.arrs a).length = c ∧ l ≤ c ∧ a < st.alloc
/-- the value-level view of a slice -/
def view (st : St) (a l c : Nat) : GoSlice := ⟨(st.arrs a).take l, c⟩

/-! ### one-statement unfolding rules -/

section rules
variable (fuel : Nat) (ρ : Env) (st : St)

theorem exec_seq (a b : Stmt) : exec fuel ρ st (.seq a b) =
    (match exec fuel ρ st a with
     | .ok (.normal, ρ1, st1) => exec fuel ρ1 st1 b
     | .ok r => .ok r
     | .error e => .error e) := rfl
theorem exec_skip : exec fuel ρ st .skip = .ok (.normal, ρ, st) := rfl
theorem exec_assign (x : Nat) (e : Expr) : exec fuel ρ st (.assign x e) =
    (match evalE ρ st e with
     | .ok (v, st1) => .ok (.normal, ρ.set x v, st1)
     | .error e => .error e) := rfl
theorem exec_ite (c : Expr) (t e : Stmt) : exec fuel ρ st (.ite c t e) =
    (match evalE ρ st c with
     | .ok (.bool true, st1) => exec fuel ρ st1 t
     | .ok (.bool false, st1) => exec fuel ρ st1 e
     | .ok _ => .error .stuck
     | .error x => .error x) := rfl
theorem exec_loop (c : Expr) (body : Stmt) : exec fuel ρ st (.loop c body) =
    iterate (fun ρ st => evalE ρ st c) (fun ρ st => exec fuel ρ st body) fuel ρ st := rfl
theorem exec_ret (e : Expr) : exec fuel ρ st (.ret e) =
    (match evalE ρ st e with
     | .ok (v, st1) => .ok (.ret v, ρ, st1)
     | .error e => .error e) := rfl
theorem exec_ret2 (a b : Expr) : exec fuel ρ st (.ret2 a b) =
    (match evalE ρ st a with
     | .ok (x, st1) =>
       match evalE ρ st1 b with
       | .ok (y, st2) => .ok (.ret (.pair x y), ρ, st2)
       | .error e => .error e
     | .error e => .error e) := rfl
theorem exec_ret3 (a b c : Expr) : exec fuel ρ st (.ret3 a b c) =
    (match evalE ρ st a with
     | .ok (x, st1) =>
       match evalE ρ st1 b with
       | .ok (y, st2) =>
         match evalE ρ st2 c with
         | .ok (z, st3) => .ok (.ret (.pair x (.pair y z)), ρ, st3)
         | .error e => .error e
       | .error e => .error e
     | .error e => .error e) := rfl
theorem exec_setIndex (s i v : Expr) : exec fuel ρ st (.setIndex s i v) =
    (match evalE ρ st s with
     | .ok (.slice arr l _, s1) =>
       match evalE ρ s1 i with
       | .ok (.int k, s2) =>
         match evalE ρ s2 v with
         | .ok (.int x, s3) =>
           if k < 0 ∨ k ≥ l then .error .panic
           else match arr with
             | some a => .ok (.normal, ρ, { s3 with arrs := updA s3.arrs a ((s3.arrs a).set k.toNat x) })
             | none => .error .panic
         | .ok _ => .error .stuck
         | .error e => .error e
       | .ok _ => .error .stuck
       | .error e => .error e
     | .ok _ => .error .stuck
     | .error e => .error e) := rfl

theorem seq_normal {a b : Stmt} {ρ1 : Env} {st1 : St} (h : exec fuel ρ st a = .ok (.normal, ρ1, st1)) :
    exec fuel ρ st (.seq a b) = exec fuel ρ1 st1 b := by rw [exec_seq, h]
theorem seq_ret {a b : Stmt} {v : Val} {ρ1 : Env} {st1 : St} (h : exec fuel ρ st a = .ok (.ret v, ρ1, st1)) :
    exec fuel ρ st (.seq a b) = .ok (.ret v, ρ1, st1) := by rw [exec_seq, h]

theorem set_apply (x : Nat) (v : Val) (y : Nat) : (ρ.set x v) y = if y = x then v else ρ y := rfl
theorem ofArgs_apply (args : List Val) (x : Nat) : Env.ofArgs args x = args.getD x .unit := rfl

end rules

/-- run the first statement of a sequence to a stated normal outcome -/
macro "step " ρ:term " , " s:term : tactic =>
  `(tactic| refine (seq_normal (ρ1 := $ρ) (st1 := $s) _ _ _ ?_).trans ?_)

theorem updA_same (h : Nat → List Int) (a : Nat) (l : List Int) : updA h a l a = l := by simp [updA]
theorem updA_ne (h : Nat → List Int) (a : Nat) (l : List Int) (x : Nat) (hx : x ≠ a) : updA h a l x = h x := by
  simp [updA, hx]

/-! ### the model's shifting loops on the full backing array -/

theorem shiftLeft_done (A : List Int) (l i f : Nat) (h : ¬ i + 1 < l) : shiftLeft A l i f = A := by
  cases f with
  | zero => rfl
  | succ f => unfold shiftLeft; rw [if_neg h]

theorem shiftLeft_take (l : Nat) : ∀ (f : Nat) (A : List Int) (i : Nat),
    (shiftLeft A l i f).take l = shiftLeft (A.take l) l i f := by
  intro f
  induction f with
  | zero => intro A i; rfl
  | succ f ih =>
    intro A i
    unfold shiftLeft
    by_cases h : i + 1 < l
    · rw [if_pos h, if_pos h, ih]
      congr 1
      rw [List.take_set]
      congr 1
      simp [List.getD_eq_getElem?_getD, h]
    · rw [if_neg h, if_neg h]

theorem shiftLeft_drop (l : Nat) : ∀ (f : Nat) (A : List Int) (i : Nat),
    (shiftLeft A l i f).drop l = A.drop l := by
  intro f
  induction f with
  | zero => intro A i; rfl
  | succ f ih =>
    intro A i
    unfold shiftLeft
    by_cases h : i + 1 < l
    · rw [if_pos h, ih, List.drop_set_of_lt (by omega)]
    · rw [if_neg h]

theorem shiftRight_take (m index : Nat) : ∀ (i : Nat) (A : List Int), i < m →
    (shiftRight A index i).take m = shiftRight (A.take m) index i := by
  intro i
  induction i with
  | zero => intro A _; rfl
  | succ i ih =>
    intro A hi
    unfold shiftRight
    by_cases h : i + 1 > index
    · rw [if_pos h, if_pos h, ih _ (by omega)]
      congr 1
      rw [List.take_set]
      congr 1
      have : i < m := by omega
      simp [List.getD_eq_getElem?_getD, this]
    · rw [if_neg h, if_neg h]

theorem shiftRight_drop (m index : Nat) : ∀ (i : Nat) (A : List Int), i < m →
    (shiftRight A index i).drop m = A.drop m := by
  intro i
  induction i with
  | zero => intro A _; rfl
  | succ i ih =>
    intro A hi
    unfold shiftRight
    by_cases h : i + 1 > index
    · rw [if_pos h, ih _ (by omega), List.drop_set_of_lt (by omega)]
    · rw [if_neg h]

/-! ### expression rules with their side conditions discharged -/

theorem evalE_index_ok (ρ : Env) (st : St) (e i : Expr) (a l c k : Nat)
    (he : evalE ρ st e = .ok (.slice (some a) l c, st)) (hi : evalE ρ st i = .ok (.int (k : Nat), st)) (hk : k < l) :
    evalE ρ st (.index e i) = .ok (.int ((st.arrs a).getD k 0), st) := by
  have c1 : ¬ ((k : Int) < 0 ∨ (k : Int) ≥ l) := by omega
  simp only [evalE, he, hi, if_neg c1, Int.toNat_natCast]

theorem exec_setIndex_ok (fuel : Nat) (ρ : Env) (st : St) (s i v : Expr) (a l c k : Nat) (x : Int)
    (hs : evalE ρ st s = .ok (.slice (some a) l c, st)) (hi : evalE ρ st i = .ok (.int (k : Nat), st))
    (hv : evalE ρ st v = .ok (.int x, st)) (hk : k < l) :
    exec fuel ρ st (.setIndex s i v) = .ok (.normal, ρ, { st with arrs := updA st.arrs a ((st.arrs a).set k x) }) := by
  have c1 : ¬ ((k : Int) < 0 ∨ (k : Int) ≥ l) := by omega
  simp only [exec_setIndex, hs, hi, hv, if_neg c1, Int.toNat_natCast]

theorem evalE_sliceTo_ok (ρ : Env) (st : St) (e n : Expr) (arr : Option Nat) (l c k : Nat)
    (he : evalE ρ st e = .ok (.slice arr l c, st)) (hn : evalE ρ st n = .ok (.int (k : Nat), st)) (hk : k ≤ c) :
    evalE ρ st (.sliceTo e n) = .ok (.slice arr k c, st) := by
  have c1 : ¬ ((k : Int) < 0 ∨ (k : Int) > c) := by omega
  simp only [evalE, he, hn, if_neg c1, Int.toNat_natCast]

/-- `append` that fits: in place -/
theorem appendVals_fit (st : St) (b len cap : Nat) (xs : List Int) (h : len + xs.length ≤ cap) :
    ∃ st', appendVals st (some b) len cap xs = .ok (.slice (some b) (len + xs.length) cap, st') ∧
      st'.arrs b = (st.arrs b).take len ++ xs ++ (st.arrs b).drop (len + xs.length) ∧
      (∀ x, x ≠ b → st'.arrs x = st.arrs x) ∧ st'.alloc = st.alloc ∧ st'.grow = st.grow := by
  unfold appendVals
  cases xs with
  | nil => exact ⟨st, by simp, by simp, fun _ _ => rfl, rfl, rfl⟩
  | cons y ys =>
    refine ⟨{ st with arrs := (updA st.arrs b ((st.arrs b).take len ++ (y :: ys) ++ (st.arrs b).drop (len + (y :: ys).length))) },
      by simp only [List.isEmpty_cons, Bool.false_eq_true, if_false, if_pos h], ?_, ?_, rfl, rfl⟩
    · simp [updA]
    · intro x hx; simp [updA, hx]

/-- `append` that does not fit: a fresh array whose capacity the oracle chooses -/
theorem appendVals_grow (st : St) (b len cap : Nat) (y : Int) (ys : List Int) (h : ¬ len + (y :: ys).length ≤ cap)
    (g : Nat) (rest : List Nat) (hg : st.grow = g :: rest) (hroom : len + (y :: ys).length ≤ g) :
    appendVals st (some b) len cap (y :: ys) = .ok (.slice (some st.alloc) (len + (y :: ys).length) g,
      { arrs := updA st.arrs st.alloc ((st.arrs b).take len ++ (y :: ys) ++ List.replicate (g - (len + (y :: ys).length)) 0),
        alloc := st.alloc + 1, grow := rest }) := by
  have c1 : ¬ g < len + (y :: ys).length := by omega
  simp only [appendVals, List.isEmpty_cons, Bool.false_eq_true, if_false, if_neg h, hg, if_neg c1]

/-! ### Shrink -/

theorem shrink_sim (st : St) (a l c : Nat) (h : WFS st a l c) (g' : Nat) (fuel : Nat) :
    match sliceShrink (view st a l c) g' with
    | .err _ => False
    | .panic _ => run fuel proc_Shrink [.slice (some a) l c] st = .error .panic
    | .ok r => ∃ a' st', run fuel proc_Shrink [.slice (some a) l c] st = .ok (.slice (some a') r.vals.length r.cap, st') ∧
        WFS st' a' r.vals.length r.cap ∧ view st' a' r.vals.length r.cap = r ∧ r.vals = (view st a l c).vals ∧
        (match Ekit.Gen.calCapacity c l with
         | some (n, true) =>      -- a fresh array of capacity `n`; the argument's array and the oracle are untouched
           a' = st.alloc ∧ r.cap = n.toNat ∧ st'.alloc = st.alloc + 1 ∧ st'.grow = st.grow ∧
             ∀ x, x ≠ st.alloc → st'.arrs x = st.arrs x
         | _ => a' = a ∧ r = view st a l c ∧ st'.arrs = st.arrs ∧ st'.alloc = st.alloc ∧ st'.grow = st.grow) := by
  obtain ⟨hlen, hlc, hal⟩ := h
  have hvl : ((st.arrs a).take l).length = l := by rw [List.length_take]; omega
  simp only [sliceShrink, view, hvl]
  cases hc : Ekit.Gen.calCapacity (c : Int) (l : Int) with
  | none =>
    simp [run, proc_Shrink, body_Shrink, exec, evalE, hc, ofArgs_apply, set_apply]
  | some p =>
    obtain ⟨n, ch⟩ := p
    cases ch with
    | false =>
      simp only [Bool.not_false, if_true]
      refine ⟨a, st, ?_, ⟨hlen, by rw [hvl]; exact hlc, hal⟩, ?_⟩
      · simp [run, proc_Shrink, body_Shrink, exec, evalE, hc, ofArgs_apply, set_apply, hvl]
      · simp [hvl]
    | true =>
      have hge := calCapacity_changed_ge (c : Int) (l : Int) n (by omega) (by omega) hc
      have hn : ¬ n < 0 := by omega
      have hfit : l ≤ n.toNat := by omega
      simp only [Bool.not_true, Bool.false_eq_true, if_false, hn, GoSlice.append, List.length_nil, Nat.zero_add, hvl,
        hfit, if_true, List.nil_append]
      obtain ⟨st2, hA, hB, hC, hD, hE⟩ := appendVals_fit
        { st with arrs := updA st.arrs st.alloc (List.replicate n.toNat 0), alloc := st.alloc + 1 } st.alloc 0 n.toNat
        ((st.arrs a).take l) (by rw [hvl]; omega)
      have hne : a ≠ st.alloc := by omega
      simp only [hvl, Nat.zero_add, updA_same, List.take_zero, List.nil_append] at hA hB hC hD hE
      refine ⟨st.alloc, st2, ?_, ⟨?_, hfit, by omega⟩, ?_⟩
      · simp [run, proc_Shrink, body_Shrink, exec, evalE, hc, ofArgs_apply, set_apply, hn, updA_ne _ _ _ _ hne, hA]
      · rw [hB, List.length_append, hvl, List.length_drop, List.length_replicate]; omega
      · refine ⟨by rw [hB, List.take_left' hvl], trivial, rfl, trivial, hD, hE, ?_⟩
        intro x hx; rw [hC x hx, updA_ne _ _ _ _ hx]

/-! ### Delete -/

abbrev delCond : Expr := .bin .lt (.bin .add (.var 5) (.int 1)) (.var 2)
abbrev delBody : Stmt :=
  .seq (.setIndex (.var 0) (.var 5) (.index (.var 0) (.bin .add (.var 5) (.int 1))))
    (.assign 5 (.bin .add (.var 5) (.int 1)))

theorem del_cond (ρ : Env) (st : St) (l i : Nat) (h2 : ρ 2 = .int l) (h5 : ρ 5 = .int i) :
    evalE ρ st delCond = .ok (.bool (decide (i + 1 < l)), st) := by
  have : decide ((i : Int) + 1 < l) = decide (i + 1 < l) := by
    by_cases h : i + 1 < l
    · rw [decide_eq_true h]; exact decide_eq_true (by omega)
    · rw [decide_eq_false h]; exact decide_eq_false (by omega)
  simp only [evalE, BinOp.apply, h2, h5, this]

theorem del_body (fuel : Nat) (ρ : Env) (st : St) (a l c i : Nat) (h0 : ρ 0 = .slice (some a) l c)
    (h5 : ρ 5 = .int i) (hi : i + 1 < l) :
    exec fuel ρ st delBody = .ok (.normal, ρ.set 5 (.int ((i + 1 : Nat) : Int)),
      { st with arrs := updA st.arrs a ((st.arrs a).set i ((st.arrs a).getD (i + 1) 0)) }) := by
  have hv0 : evalE ρ st (.var 0) = .ok (.slice (some a) l c, st) := by simp only [evalE, h0]
  have hv5 : evalE ρ st (.var 5) = .ok (.int (i : Nat), st) := by simp only [evalE, h5]
  have hadd : ∀ st', evalE ρ st' (.bin .add (.var 5) (.int 1)) = .ok (.int ((i + 1 : Nat) : Int), st') := by
    intro st'; simp only [evalE, BinOp.apply, h5, Int.natCast_add, Int.cast_ofNat_Int]
  have hidx := evalE_index_ok ρ st (.var 0) (.bin .add (.var 5) (.int 1)) a l c (i + 1) hv0 (hadd st) hi
  have hset := exec_setIndex_ok fuel ρ st (.var 0) (.var 5) _ a l c i _ hv0 hv5 hidx (by omega)
  rw [seq_normal _ _ _ hset, exec_assign, hadd]

theorem del_loop (fuel a l c : Nat) : ∀ (k f n i : Nat) (ρ : Env) (st : St),
    ρ 0 = .slice (some a) l c → ρ 2 = .int l → ρ 5 = .int i → l - (i + 1) = k → k ≤ f → k < n →
    ∃ ρ' st', iterate (fun ρ st => evalE ρ st delCond) (fun ρ st => exec fuel ρ st delBody) n ρ st = .ok (.normal, ρ', st') ∧
      st'.arrs a = shiftLeft (st.arrs a) l i f ∧ (∀ x, x ≠ a → st'.arrs x = st.arrs x) ∧
      st'.alloc = st.alloc ∧ st'.grow = st.grow ∧ (∀ x, x ≠ 5 → ρ' x = ρ x) := by
  intro k
  induction k with
  | zero =>
    intro f n i ρ st h0 h2 h5 hk hf hn
    obtain ⟨n, rfl⟩ : ∃ m, n = m + 1 := ⟨n - 1, by omega⟩
    have hc : ¬ i + 1 < l := by omega
    refine ⟨ρ, st, ?_, (shiftLeft_done _ _ _ _ hc).symm, fun _ _ => rfl, rfl, rfl, fun _ _ => rfl⟩
    simp only [iterate, del_cond ρ st l i h2 h5, decide_eq_false hc]
  | succ k ih =>
    intro f n i ρ st h0 h2 h5 hk hf hn
    obtain ⟨n, rfl⟩ : ∃ m, n = m + 1 := ⟨n - 1, by omega⟩
    obtain ⟨f, rfl⟩ : ∃ m, f = m + 1 := ⟨f - 1, by omega⟩
    have hc : i + 1 < l := by omega
    obtain ⟨ρ', st', e, hA, hB, hC, hD, hE⟩ := ih f n (i + 1) (ρ.set 5 (.int ((i + 1 : Nat) : Int)))
      { st with arrs := updA st.arrs a ((st.arrs a).set i ((st.arrs a).getD (i + 1) 0)) }
      (by simp [set_apply, h0]) (by simp [set_apply, h2]) (by simp [set_apply]) (by omega) (by omega) (by omega)
    refine ⟨ρ', st', ?_, ?_, ?_, hC, hD, ?_⟩
    · simp only [iterate, del_cond ρ st l i h2 h5, decide_eq_true hc, del_body fuel ρ st a l c i h0 h5 hc]
      exact e
    · rw [hA]; simp only [updA_same]; conv => rhs; unfold shiftLeft; rw [if_pos hc]
    · intro x hx; rw [hB x hx]; exact updA_ne _ _ _ _ hx
    · intro x hx; rw [hE x hx, set_apply, if_neg hx]

theorem delete_sim (st : St) (a l c : Nat) (h : WFS st a l c) (idx : Int) (fuel : Nat) (hf : l ≤ fuel) :
    match sliceDelete (view st a l c) idx with
    | .err er => er = .idx l idx ∧
        run fuel proc_Delete [.slice (some a) l c, .int idx] st =
          .ok (.pair (.slice none 0 0) (.pair (.int 0) (.errIdx l idx)), st)
    | .ok (r, res) => ∃ st', run fuel proc_Delete [.slice (some a) l c, .int idx] st =
          .ok (.pair (.slice (some a) (l - 1) c) (.pair (.int res) .nilErr), st') ∧
        r.vals.length = l - 1 ∧ r.cap = c ∧ WFS st' a (l - 1) c ∧ view st' a (l - 1) c = r ∧
        -- always in place: the first `l` slots of the argument's array are shifted, the spare slots untouched
        (st'.arrs a).take l = shiftLeft ((st.arrs a).take l) l idx.toNat l ∧ (st'.arrs a).drop l = (st.arrs a).drop l ∧
        (∀ x, x ≠ a → st'.arrs x = st.arrs x) ∧ st'.alloc = st.alloc ∧ st'.grow = st.grow
    | .panic _ => False := by
  obtain ⟨hlen, hlc, hal⟩ := h
  have hvl : ((st.arrs a).take l).length = l := by rw [List.length_take]; omega
  simp only [sliceDelete, view, hvl]
  by_cases hbad : idx < 0 ∨ idx ≥ (l : Int)
  · rw [if_pos hbad]
    refine ⟨rfl, ?_⟩
    by_cases h0 : idx < 0
    · simp [run, proc_Delete, body_Delete, exec_seq, exec_assign, exec_ite, exec_ret3, evalE, BinOp.apply, ofArgs_apply,
        set_apply, h0]
    · have h1 : idx ≥ (l : Int) := by omega
      simp [run, proc_Delete, body_Delete, exec_seq, exec_assign, exec_ite, exec_ret3, evalE, BinOp.apply, ofArgs_apply,
        set_apply, h0, h1]
  · rw [if_neg hbad]
    obtain ⟨i, rfl⟩ : ∃ i : Nat, idx = i := ⟨idx.toNat, by omega⟩
    have hil : i < l := by omega
    simp only [Int.toNat_natCast]
    have hres : ((st.arrs a).take l).getD i 0 = (st.arrs a).getD i 0 := by
      simp [List.getD_eq_getElem?_getD, hil]
    rw [hres]
    generalize hρ0 : Env.ofArgs [Val.slice (some a) l c, Val.int (i : Int)] = ρ0
    have a0 : ρ0 0 = .slice (some a) l c := by rw [← hρ0]; rfl
    have a1 : ρ0 1 = .int i := by rw [← hρ0]; rfl
    obtain ⟨ρ', st', e, hA, hB, hC, hD, hE⟩ := del_loop fuel a l c (l - (i + 1)) l fuel i
      (((ρ0.set 2 (.int l)).set 4 (.int ((st.arrs a).getD i 0))).set 5 (.int i)) st
      (by simp [set_apply, a0]) (by simp [set_apply]) (by simp [set_apply]) rfl (by omega) (by omega)
    have b0 : ρ' 0 = .slice (some a) l c := by rw [hE 0 (by omega)]; simp [set_apply, a0]
    have b2 : ρ' 2 = .int l := by rw [hE 2 (by omega)]; simp [set_apply]
    have b4 : ρ' 4 = .int ((st.arrs a).getD i 0) := by rw [hE 4 (by omega)]; simp [set_apply]
    have hexec : exec fuel ρ0 st body_Delete =
        .ok (.ret (.pair (.slice (some a) (l - 1) c) (.pair (.int ((st.arrs a).getD i 0)) .nilErr)),
          ρ'.set 0 (.slice (some a) (l - 1) c), st') := by
      unfold body_Delete
      step ρ0.set 2 (.int l), st
      · simp only [exec_assign, evalE, a0]
      step ρ0.set 2 (.int l), st
      · have c0 : ¬ (i : Int) < 0 := by omega
        have c1 : ¬ l ≤ i := by omega
        simp [exec_ite, evalE, BinOp.apply, set_apply, a1, c0, c1, exec_skip]
      step (ρ0.set 2 (.int l)).set 4 (.int ((st.arrs a).getD i 0)), st
      · rw [exec_assign, evalE_index_ok _ st (.var 0) (.var 1) a l c i (by simp [evalE, set_apply, a0])
          (by simp [evalE, set_apply, a1]) hil]
      step ρ', st'
      · step ((ρ0.set 2 (.int l)).set 4 (.int ((st.arrs a).getD i 0))).set 5 (.int i), st
        · simp [exec_assign, evalE, set_apply, a1]
        rw [exec_loop]; exact e
      step ρ'.set 0 (.slice (some a) (l - 1) c), st'
      · have hsub : evalE ρ' st' (.bin .sub (.var 2) (.int 1)) = .ok (.int ((l - 1 : Nat) : Int), st') := by
          have : ((l - 1 : Nat) : Int) = (l : Int) - 1 := by omega
          simp only [evalE, BinOp.apply, b2, this]
        rw [exec_assign, evalE_sliceTo_ok ρ' st' (.var 0) _ (some a) l c (l - 1) (by simp only [evalE, b0]) hsub (by omega)]
      simp [exec_ret3, evalE, set_apply, b4]
    have hlen' : (st'.arrs a).length = c := by rw [hA, length_shiftLeft]; exact hlen
    refine ⟨st', ?_, ?_, trivial, ⟨hlen', by omega, by omega⟩, ?_, ?_, ?_, hB, hC, hD⟩
    · simp only [run, proc_Delete, hρ0, hexec]
    · rw [List.length_take, length_shiftLeft, hvl]; omega
    · rw [← shiftLeft_take, ← hA, List.take_take, Nat.min_eq_left (by omega)]
    · rw [hA, shiftLeft_take]
    · rw [hA, shiftLeft_drop]

/-! ### Add -/

abbrev addCond : Expr := .bin .gt (.var 5) (.var 2)
abbrev addBody : Stmt :=
  .seq (.ite (.bin .ge (.bin .sub (.var 5) (.int 1)) (.int 0))
      (.setIndex (.var 0) (.var 5) (.index (.var 0) (.bin .sub (.var 5) (.int 1))))
      .skip)
    (.assign 5 (.bin .sub (.var 5) (.int 1)))

theorem add_cond (ρ : Env) (st : St) (j i : Nat) (h2 : ρ 2 = .int j) (h5 : ρ 5 = .int i) :
    evalE ρ st addCond = .ok (.bool (decide (i > j)), st) := by
  have : decide ((i : Int) > j) = decide (i > j) := by
    by_cases h : i > j
    · rw [decide_eq_true h]; exact decide_eq_true (by omega)
    · rw [decide_eq_false h]; exact decide_eq_false (by omega)
  simp only [evalE, BinOp.apply, h2, h5, this]

theorem add_body (fuel : Nat) (ρ : Env) (st : St) (a L c i : Nat) (h0 : ρ 0 = .slice (some a) L c)
    (h5 : ρ 5 = .int ((i + 1 : Nat) : Int)) (hi : i + 1 < L) :
    exec fuel ρ st addBody = .ok (.normal, ρ.set 5 (.int (i : Nat)),
      { st with arrs := updA st.arrs a ((st.arrs a).set (i + 1) ((st.arrs a).getD i 0)) }) := by
  have hv0 : evalE ρ st (.var 0) = .ok (.slice (some a) L c, st) := by simp only [evalE, h0]
  have hv5 : evalE ρ st (.var 5) = .ok (.int ((i + 1 : Nat) : Int), st) := by simp only [evalE, h5]
  have harith : ((i + 1 : Nat) : Int) - 1 = (i : Int) := by omega
  have hsub : ∀ st', evalE ρ st' (.bin .sub (.var 5) (.int 1)) = .ok (.int (i : Nat), st') := by
    intro st'; simp only [evalE, BinOp.apply, h5, harith]
  have hge : evalE ρ st (.bin .ge (.bin .sub (.var 5) (.int 1)) (.int 0)) = .ok (.bool true, st) := by
    have : decide ((i : Int) ≥ 0) = true := decide_eq_true (by omega)
    simp only [evalE, BinOp.apply, h5, harith, this]
  have hidx := evalE_index_ok ρ st (.var 0) (.bin .sub (.var 5) (.int 1)) a L c i hv0 (hsub st) (by omega)
  have hset := exec_setIndex_ok fuel ρ st (.var 0) (.var 5) _ a L c (i + 1) _ hv0 hv5 hidx hi
  have hite : exec fuel ρ st (.ite (.bin .ge (.bin .sub (.var 5) (.int 1)) (.int 0))
      (.setIndex (.var 0) (.var 5) (.index (.var 0) (.bin .sub (.var 5) (.int 1)))) .skip) =
      .ok (.normal, ρ, { st with arrs := updA st.arrs a ((st.arrs a).set (i + 1) ((st.arrs a).getD i 0)) }) := by
    rw [exec_ite, hge]; exact hset
  rw [seq_normal _ _ _ hite, exec_assign, hsub]

theorem add_loop (fuel a L c j : Nat) : ∀ (i n : Nat) (ρ : Env) (st : St),
    ρ 0 = .slice (some a) L c → ρ 2 = .int j → ρ 5 = .int i → i < L → i < n →
    ∃ ρ' st', iterate (fun ρ st => evalE ρ st addCond) (fun ρ st => exec fuel ρ st addBody) n ρ st = .ok (.normal, ρ', st') ∧
      st'.arrs a = shiftRight (st.arrs a) j i ∧ (∀ x, x ≠ a → st'.arrs x = st.arrs x) ∧
      st'.alloc = st.alloc ∧ st'.grow = st.grow ∧ (∀ x, x ≠ 5 → ρ' x = ρ x) := by
  intro i
  induction i with
  | zero =>
    intro n ρ st h0 h2 h5 hL hn
    obtain ⟨n, rfl⟩ : ∃ m, n = m + 1 := ⟨n - 1, by omega⟩
    have hc : ¬ 0 > j := by omega
    refine ⟨ρ, st, ?_, rfl, fun _ _ => rfl, rfl, rfl, fun _ _ => rfl⟩
    simp only [iterate, add_cond ρ st j 0 h2 h5, decide_eq_false hc]
  | succ i ih =>
    intro n ρ st h0 h2 h5 hL hn
    obtain ⟨n, rfl⟩ : ∃ m, n = m + 1 := ⟨n - 1, by omega⟩
    by_cases hc : i + 1 > j
    · obtain ⟨ρ', st', e, hA, hB, hC, hD, hE⟩ := ih n (ρ.set 5 (.int (i : Nat)))
        { st with arrs := updA st.arrs a ((st.arrs a).set (i + 1) ((st.arrs a).getD i 0)) }
        (by simp [set_apply, h0]) (by simp [set_apply, h2]) (by simp [set_apply]) (by omega) (by omega)
      refine ⟨ρ', st', ?_, ?_, ?_, hC, hD, ?_⟩
      · simp only [iterate, add_cond ρ st j (i + 1) h2 h5, decide_eq_true hc, add_body fuel ρ st a L c i h0 h5 hL]
        exact e
      · rw [hA]; simp only [updA_same]; conv => rhs; unfold shiftRight; rw [if_pos hc]
      · intro x hx; rw [hB x hx]; exact updA_ne _ _ _ _ hx
      · intro x hx; rw [hE x hx, set_apply, if_neg hx]
    · refine ⟨ρ, st, ?_, ?_, fun _ _ => rfl, rfl, rfl, fun _ _ => rfl⟩
      · simp only [iterate, add_cond ρ st j (i + 1) h2 h5, decide_eq_false hc]
      · unfold shiftRight; rw [if_neg hc]

/-- the `append(src, zeroValue)` of `Add`, in both regimes -/
theorem append_zero (st : St) (a l c : Nat) (h : WFS st a l c) (g : Nat) (rest : List Nat)
    (hg : st.grow = g :: rest) (hroom : l + 1 ≤ g) :
    ∃ a1 c1 st1, appendVals st (some a) l c [0] = .ok (.slice (some a1) (l + 1) c1, st1) ∧
      WFS st1 a1 (l + 1) c1 ∧ (st1.arrs a1).take (l + 1) = (st.arrs a).take l ++ [0] ∧
      (view st a l c).append [0] g = ⟨(st.arrs a).take l ++ [0], c1⟩ ∧
      (if l < c then a1 = a ∧ st1.grow = st.grow ∧ st1.alloc = st.alloc
       else a1 = st.alloc ∧ st1.arrs a = st.arrs a ∧ st1.grow = rest ∧ st1.alloc = st.alloc + 1) ∧
      (∀ x, x ≠ a1 → st1.arrs x = st.arrs x) := by
  obtain ⟨hlen, hlc, hal⟩ := h
  have hvl : ((st.arrs a).take l).length = l := by rw [List.length_take]; omega
  have hvl1 : ((st.arrs a).take l ++ [0]).length = l + 1 := by rw [List.length_append, hvl]; rfl
  by_cases hlt : l < c
  · obtain ⟨st1, hA, hB, hC, hD, hE⟩ := appendVals_fit st a l c [0] (by show l + 1 ≤ c; omega)
    refine ⟨a, c, st1, hA, ⟨?_, by omega, by omega⟩, ?_, ?_, ?_, hC⟩
    · rw [hB]; simp only [List.length_append, hvl, List.length_drop, List.length_cons, List.length_nil, hlen]; omega
    · rw [hB, List.take_left' hvl1]
    · have : l + 1 ≤ c := by omega
      simp only [GoSlice.append, view, hvl, List.length_cons, List.length_nil, Nat.zero_add, if_pos this]
    · rw [if_pos hlt]; exact ⟨rfl, hE, hD⟩
  · have hA := appendVals_grow st a l c 0 [] (by show ¬ l + 1 ≤ c; omega) g rest hg hroom
    have hne : a ≠ st.alloc := by omega
    refine ⟨st.alloc, g, _, hA, ⟨?_, hroom, ?_⟩, ?_, ?_, ?_, ?_⟩
    · simp only [updA_same, List.length_append, hvl, List.length_replicate, List.length_cons, List.length_nil]; omega
    · show st.alloc < st.alloc + 1; omega
    · simp only [updA_same]; rw [List.take_left' hvl1]
    · have : ¬ l + 1 ≤ c := by omega
      simp only [GoSlice.append, view, hvl, List.length_cons, List.length_nil, Nat.zero_add, if_neg this]
    · rw [if_neg hlt]; exact ⟨rfl, updA_ne _ _ _ _ hne, rfl, rfl⟩
    · intro x hx; exact updA_ne _ _ _ _ hx

theorem add_sim (st : St) (a l c : Nat) (h : WFS st a l c) (e idx : Int) (g : Nat) (rest : List Nat)
    (hg : st.grow = g :: rest) (hroom : l + 1 ≤ g) (fuel : Nat) (hf : l + 2 ≤ fuel) :
    match sliceAdd (view st a l c) e idx g with
    | .err er => er = .idx l idx ∧
        run fuel proc_Add [.slice (some a) l c, .int e, .int idx] st = .ok (.pair (.slice none 0 0) (.errIdx l idx), st)
    | .ok r => ∃ a' st', run fuel proc_Add [.slice (some a) l c, .int e, .int idx] st =
          .ok (.pair (.slice (some a') r.vals.length r.cap) .nilErr, st') ∧
        WFS st' a' r.vals.length r.cap ∧ view st' a' r.vals.length r.cap = r ∧
        (if l < c then a' = a ∧ st'.grow = st.grow ∧ st'.alloc = st.alloc     -- in place: the result lives in the argument's array
         else a' = st.alloc ∧ st'.arrs a = st.arrs a ∧ st'.grow = rest ∧ st'.alloc = st.alloc + 1) ∧  -- reallocated
        (∀ x, x ≠ a' → st'.arrs x = st.arrs x)
    | .panic _ => False := by
  have hvl : ((st.arrs a).take l).length = l := by rw [List.length_take]; have := h.1; have := h.2.1; omega
  by_cases hbad : idx < 0 ∨ idx > (l : Int)
  · simp only [sliceAdd, view, hvl, if_pos hbad]
    refine ⟨trivial, ?_⟩
    by_cases h0 : idx < 0
    · simp [run, proc_Add, body_Add, exec_seq, exec_assign, exec_ite, exec_ret2, evalE, BinOp.apply, ofArgs_apply,
        set_apply, h0]
    · have h1 : (l : Int) < idx := by omega
      simp [run, proc_Add, body_Add, exec_seq, exec_assign, exec_ite, exec_ret2, evalE, BinOp.apply, ofArgs_apply,
        set_apply, h0, h1]
  · obtain ⟨j, rfl⟩ : ∃ j : Nat, idx = j := ⟨idx.toNat, by omega⟩
    have hjl : j ≤ l := by omega
    obtain ⟨a1, c1, st1, hA, hW, hT, hM, hI, hF⟩ := append_zero st a l c h g rest hg hroom
    have hvl1 : ((st.arrs a).take l ++ [0]).length = l + 1 := by rw [List.length_append, hvl]; rfl
    have hr : sliceAdd (view st a l c) e j g =
        .ok ⟨(shiftRight ((st.arrs a).take l ++ [0]) j l).set j e, c1⟩ := by
      have hvv : (view st a l c).vals.length = l := hvl
      simp only [sliceAdd, hvv, if_neg hbad, hM, hvl1, Nat.add_sub_cancel, Int.toNat_natCast]
    rw [hr]
    have hrl : ((shiftRight ((st.arrs a).take l ++ [0]) j l).set j e).length = l + 1 := by
      rw [List.length_set, length_shiftRight, hvl1]
    simp only [hrl]
    generalize hρ0 : Env.ofArgs [Val.slice (some a) l c, Val.int e, Val.int (j : Int)] = ρ0
    have a0 : ρ0 0 = .slice (some a) l c := by rw [← hρ0]; rfl
    have a1' : ρ0 1 = .int e := by rw [← hρ0]; rfl
    have a2 : ρ0 2 = .int j := by rw [← hρ0]; rfl
    obtain ⟨ρ', st2, el, hA2, hB2, hC2, hD2, hE2⟩ := add_loop fuel a1 (l + 1) c1 j l fuel
      ((((ρ0.set 3 (.int l)).set 4 (.int 0)).set 0 (.slice (some a1) (l + 1) c1)).set 5 (.int l)) st1
      (by simp [set_apply]) (by simp [set_apply, a2]) (by simp [set_apply]) (by omega) (by omega)
    have b0 : ρ' 0 = .slice (some a1) (l + 1) c1 := by rw [hE2 0 (by omega)]; simp [set_apply]
    have b1 : ρ' 1 = .int e := by rw [hE2 1 (by omega)]; simp [set_apply, a1']
    have b2 : ρ' 2 = .int j := by rw [hE2 2 (by omega)]; simp [set_apply, a2]
    have hexec : exec fuel ρ0 st body_Add =
        .ok (.ret (.pair (.slice (some a1) (l + 1) c1) .nilErr), ρ',
          { st2 with arrs := updA st2.arrs a1 ((st2.arrs a1).set j e) }) := by
      unfold body_Add
      step ρ0.set 3 (.int l), st
      · simp only [exec_assign, evalE, a0]
      step ρ0.set 3 (.int l), st
      · have c0 : ¬ (j : Int) < 0 := by omega
        have c1 : ¬ l < j := by omega
        simp [exec_ite, evalE, BinOp.apply, set_apply, a2, c0, c1, exec_skip]
      step (ρ0.set 3 (.int l)).set 4 (.int 0), st
      · simp only [exec_assign, evalE]
      step ((ρ0.set 3 (.int l)).set 4 (.int 0)).set 0 (.slice (some a1) (l + 1) c1), st1
      · have : evalE ((ρ0.set 3 (.int l)).set 4 (.int 0)) st (.append1 (.var 0) (.var 4)) =
            appendVals st (some a) l c [0] := by
          simp [evalE, set_apply, a0]
        rw [exec_assign, this, hA]
      step ρ', st2
      · step (((ρ0.set 3 (.int l)).set 4 (.int 0)).set 0 (.slice (some a1) (l + 1) c1)).set 5 (.int l), st1
        · have : ((l + 1 : Nat) : Int) - 1 = (l : Int) := by omega
          simp only [exec_assign, evalE, BinOp.apply, set_apply, if_true, this]
        rw [exec_loop]; exact el
      step ρ', { st2 with arrs := updA st2.arrs a1 ((st2.arrs a1).set j e) }
      · exact exec_setIndex_ok fuel ρ' st2 (.var 0) (.var 2) (.var 1) a1 (l + 1) c1 j e (by simp only [evalE, b0])
          (by simp only [evalE, b2]) (by simp only [evalE, b1]) (by omega)
      simp only [exec_ret2, evalE, b0]
    refine ⟨a1, { st2 with arrs := updA st2.arrs a1 ((st2.arrs a1).set j e) }, by simp only [run, proc_Add, hρ0, hexec], ⟨?_, hW.2.1, ?_⟩, ?_, ?_, ?_⟩
    · show (updA st2.arrs a1 ((st2.arrs a1).set j e) a1).length = c1
      rw [updA_same, List.length_set, hA2, length_shiftRight]; exact hW.1
    · show a1 < st2.alloc
      rw [hC2]; exact hW.2.2
    · show (⟨(updA st2.arrs a1 ((st2.arrs a1).set j e) a1).take (l + 1), c1⟩ : GoSlice) = _
      rw [updA_same, List.take_set, hA2, shiftRight_take _ _ _ _ (by omega), hT]
    · by_cases hlt : l < c
      · rw [if_pos hlt] at hI ⊢
        exact ⟨hI.1, hD2.trans hI.2.1, hC2.trans hI.2.2⟩
      · rw [if_neg hlt] at hI ⊢
        have hne : a ≠ a1 := by have := h.2.2; omega
        refine ⟨hI.1, ?_, hD2.trans hI.2.2.1, hC2.trans hI.2.2.2⟩
        show updA st2.arrs a1 _ a = _
        rw [updA_ne _ _ _ _ hne, hB2 a hne, hI.2.1]
    · intro x hx
      show updA st2.arrs a1 _ x = _
      rw [updA_ne _ _ _ _ hx, hB2 x hx, hF x hx]


end Ekit.MiniGo.SL.Refine
