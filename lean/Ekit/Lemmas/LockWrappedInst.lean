/-
C06 — hypotheses of the generic lock-wrapped theorem discharged for ConcurrentList,
CopyOnWriteArrayList (through the C04 refinement theorems) and for the reference priority queue.
-/
import Ekit.Model.LockWrappedInst
import Ekit.Props.C04

namespace Ekit.Linz.LockWrapped
open Ekit.Conc Ekit.Linz Ekit.Lists

theorem seqStep_of_refines {x x' : List Int} {op : SOp} {r : SRet}
    (h : (x', r) = Ekit.Lists.Spec.step x op) : seqStep x op r = some x' := by
  simp only [seqStep, ← h]; simp

/-- `Get/Len/Range/AsSlice` of every list model leave the list as it is -/
theorem list_readOnly (x : AnyList) (g : Nat) (op : SOp) (h : (listStyle op).readOnly = true) :
    (x.step g op).1 = x := by
  cases op <;> simp [listStyle, Style.readOnly] at h <;> cases x <;>
    simp only [AnyList.step, ArrayList.step, CowList.step, LinkedList.step] <;> (try split) <;> rfl

theorem cow_readOnly (a : CowList) (op : SOp) (h : (cowStyle op).readOnly = true) : (a.step op).1 = a := by
  cases op <;> simp [cowStyle, Style.readOnly] at h <;> simp only [CowList.step] <;> (try split) <;> rfl

theorem isMin_iff (l : List El) (e : El) : isMin l e = true ↔ e ∈ l ∧ ∀ x ∈ l, e.1 ≤ x.1 := by
  simp [isMin, List.all_eq_true]

theorem minEl_none {l : List El} (h : minEl l = none) : l = [] := by
  cases l with
  | nil => rfl
  | cons x xs =>
    simp only [minEl] at h
    cases hm : minEl xs <;> simp [hm] at h
    split at h <;> simp at h

theorem minEl_some {l : List El} {m : El} (h : minEl l = some m) : m ∈ l ∧ ∀ x ∈ l, m.1 ≤ x.1 := by
  induction l generalizing m with
  | nil => simp [minEl] at h
  | cons x xs ih =>
    simp only [minEl] at h
    cases hm : minEl xs with
    | none =>
      simp [hm] at h; subst h
      have := minEl_none hm; subst this; simp
    | some m' =>
      simp only [hm] at h
      obtain ⟨hin, hall⟩ := ih hm
      by_cases hc : x.1 ≤ m'.1
      · simp [hc] at h; subst h
        refine ⟨by simp, ?_⟩
        intro y hy
        rcases List.mem_cons.1 hy with rfl | hy
        · exact Int.le_refl _
        · exact Int.le_trans hc (hall y hy)
      · simp [hc] at h; subst h
        refine ⟨by simp [hin], ?_⟩
        intro y hy
        rcases List.mem_cons.1 hy with rfl | hy
        · omega
        · exact hall y hy

/-- the reference priority queue refines the priority-queue specification -/
theorem refPQ_refines (s : PQS) (op : POp) : pqStep s op (refPQ s op).2 = some (refPQ s op).1 := by
  cases op with
  | enq e => simp only [refPQ]; by_cases hf : pqFull s = true <;> simp [hf, pqStep]
  | deq =>
    simp only [refPQ]
    cases hm : minEl s.els with
    | none => simp [pqStep, minEl_none hm]
    | some m => simp [pqStep, (isMin_iff s.els m).2 (minEl_some hm)]
  | peek =>
    simp only [refPQ]
    cases hm : minEl s.els with
    | none => simp [pqStep, minEl_none hm]
    | some m => simp [pqStep, (isMin_iff s.els m).2 (minEl_some hm)]
  | len => simp [refPQ, pqStep]
  | cap => simp [refPQ, pqStep]

theorem refPQ_readOnly (s : PQS) (op : POp) (h : (pqStyle op).readOnly = true) : (refPQ s op).1 = s := by
  cases op <;> simp [pqStyle, Style.readOnly] at h <;> simp only [refPQ] <;> (try split) <;> rfl

end Ekit.Linz.LockWrapped
