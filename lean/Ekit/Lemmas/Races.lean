import Ekit.Conc.Lockset
import Ekit.Conc.AccessTable
/-!
From a disciplined access table to race freedom of every trace the table describes.

`FromTable tbl W ini tr` is the precise statement of what the extractor is trusted for ("every access
the real code performs is an instance of a row, with at least the row's locks held") together with
the publication assumptions of the trace model (objects are handed to other goroutines with a
happens-before edge; constructor accesses precede the first publication).  Under it, a table that
passes `DisciplinedBy` yields `Conforms`, hence `RaceFree` by `disciplined_raceFree`.
-/
namespace Ekit.Races
open Ekit.Conc.Lockset Ekit.Conc.AccessTable

/-- object instances -/
abbrev Obj := Nat
/-- a location of the trace: (object instance it lives in, location id of the table) -/
abbrev TLoc := Obj × Nat
/-- a lock of the trace: (instance of the thread-safe type, lock id of the table) -/
abbrev TLock := Obj × Nat
abbrev TTrace := Trace TLock TLoc Obj

structure World where
  /-- the thread that allocated the object -/
  creator : Obj → Tid
  /-- the instance of the thread-safe type that owns the object (itself for the instance; the list for
  a list node): the table's locks are fields of that instance -/
  root : Obj → Obj

def World.setup (W : World) : Setup TLoc Obj := { owner := fun x => x.1, creator := W.creator }

structure FromTable (tbl : List Access) (W : World) (ini : Nat → Prop) (tr : TTrace) : Prop where
  /-- every access is an instance of a row of the table, holding at least the row's locks -/
  row : ∀ (i : Nat) (e : Ev TLock TLoc Obj) (acc : Acc TLoc), tr[i]? = some e → e.acc? = some acc →
    ∃ r, r ∈ tbl ∧ r.loc = acc.x.2 ∧ r.write = acc.w ∧ r.atomic = acc.a ∧ (r.init = true → ini i) ∧
      (∀ l, l ∈ r.excl → HoldsAt tr i acc.t (W.root acc.x.1, l) .excl) ∧
      (∀ l, l ∈ r.shared → HoldsAt tr i acc.t (W.root acc.x.1, l) .shared)
  init_by_creator : ∀ (i : Nat) (e : Ev TLock TLoc Obj) (acc : Acc TLoc), tr[i]? = some e → e.acc? = some acc → ini i →
    acc.t = W.creator acc.x.1 ∧ ∀ p, p ≤ i → tr[p]? ≠ some (Ev.publish acc.t acc.x.1)
  foreign_after_receive : ∀ (j : Nat) (e : Ev TLock TLoc Obj) (acc : Acc TLoc), tr[j]? = some e → e.acc? = some acc →
    acc.t ≠ W.creator acc.x.1 → ∃ q, q < j ∧ tr[q]? = some (Ev.receive acc.t acc.x.1)
  receive_after_publish : ∀ (q : Nat) (t : Tid) (k : Obj), tr[q]? = some (Ev.receive t k) →
    ∃ p t', p < q ∧ tr[p]? = some (Ev.publish t' k) ∧
      (t' = W.creator k ∨ ∃ q', q' < p ∧ tr[q']? = some (Ev.receive t' k))

/-- the discipline of the trace model that a certificate stands for -/
def discOf (cert : List Cls) (W : World) (x : TLoc) : Discipline TLock :=
  match cert[x.2]? with
  | some .atomicOnly => .atomicOnly
  | some .readOnly => .readOnly
  | some (.lockProtected l) => .lockProtected (W.root x.1, l)
  | none => .readOnly

theorem certOk_of_mem {cert : List Cls} {tbl : List Access} (h : DisciplinedBy cert tbl = true)
    {a : Access} (ha : a ∈ tbl) (hi : a.init = false) : ∃ c, cert[a.loc]? = some c ∧ a.obeys c = true := by
  have h1 : certOk cert a = true := (List.all_eq_true.mp h) a ha
  unfold certOk at h1
  rw [hi] at h1
  cases hc : cert[a.loc]? with
  | none => simp [hc] at h1
  | some c => exact ⟨c, rfl, by simpa [hc] using h1⟩

theorem contains_mem {l : Nat} {xs : List Nat} (h : xs.contains l = true) : l ∈ xs := by
  simpa using h

theorem fromTable_conforms {cert : List Cls} {tbl : List Access} {W : World} {ini : Nat → Prop} {tr : TTrace}
    (h : DisciplinedBy cert tbl = true) (ft : FromTable tbl W ini tr) :
    Conforms W.setup (discOf cert W) ini tr where
  init_by_creator := ft.init_by_creator
  foreign_after_receive := ft.foreign_after_receive
  receive_after_publish := ft.receive_after_publish
  disciplined := by
    intro i e acc hi hacc hnini
    obtain ⟨r, hr, hloc, hw, ha, hinit, hex, hsh⟩ := ft.row i e acc hi hacc
    have hri : r.init = false := by
      cases hb : r.init with
      | false => rfl
      | true => exact (hnini (hinit hb)).elim
    obtain ⟨c, hc, hob⟩ := certOk_of_mem h hr hri
    rw [hloc] at hc
    unfold discOf
    rw [hc]
    cases c with
    | atomicOnly =>
      simp only [Obeys]
      simp only [Access.obeys] at hob
      rw [← ha]; exact hob
    | readOnly =>
      simp only [Obeys]
      simp only [Access.obeys] at hob
      rw [← hw]; simpa using hob
    | lockProtected l =>
      simp only [Obeys]
      simp only [Access.obeys] at hob
      rw [← hw]
      cases hrw : r.write with
      | true =>
        simp only [hrw, if_true] at hob ⊢
        exact hex l (contains_mem hob)
      | false =>
        simp only [hrw, Bool.false_eq_true, if_false, Bool.or_eq_true] at hob ⊢
        rcases hob with h1 | h1
        · exact .inr (hex l (contains_mem h1))
        · exact .inl (hsh l (contains_mem h1))

/-- a disciplined table describes only race-free traces -/
theorem table_raceFree {cert : List Cls} {tbl : List Access} {W : World} {ini : Nat → Prop} {tr : TTrace}
    (h : DisciplinedBy cert tbl = true) (wf : WellFormed tr) (ft : FromTable tbl W ini tr) : RaceFree tr :=
  disciplined_raceFree wf (fromTable_conforms h ft)

/-- under a certificate any two rows are pairwise compatible (what the driver checks per method pair) -/
theorem disciplinedBy_compatible {cert : List Cls} {tbl : List Access} (h : DisciplinedBy cert tbl = true)
    {a b : Access} (ha : a ∈ tbl) (hb : b ∈ tbl) : compatible a b = true := by
  unfold compatible
  by_cases hloc : a.loc = b.loc
  · cases hai : a.init with
    | true => simp
    | false =>
      cases hbi : b.init with
      | true => simp
      | false =>
        obtain ⟨c, hc, hoa⟩ := certOk_of_mem h ha hai
        obtain ⟨c', hc', hob⟩ := certOk_of_mem h hb hbi
        rw [hloc, hc'] at hc
        injection hc with hc
        subst hc
        cases c' with
        | atomicOnly =>
          simp only [Access.obeys] at hoa hob
          simp [hoa, hob]
        | readOnly =>
          simp only [Access.obeys] at hoa hob
          simp [hoa, hob]
        | lockProtected l =>
          simp only [Access.obeys] at hoa hob
          cases haw : a.write with
          | true =>
            simp only [haw, if_true] at hoa
            have hbl : (b.excl.contains l || b.shared.contains l) = true := by
              cases hbw : b.write with
              | true => simp only [hbw, if_true] at hob; rw [hob]; rfl
              | false => simpa [hbw] using hob
            have : commonLock a b = true := by
              unfold commonLock
              apply Bool.or_eq_true_iff.mpr
              exact .inl (List.any_eq_true.mpr ⟨l, contains_mem hoa, hbl⟩)
            simp [this]
          | false =>
            cases hbw : b.write with
            | false => simp
            | true =>
              simp only [hbw, if_true] at hob
              have hal : (a.excl.contains l || a.shared.contains l) = true := by simpa [haw] using hoa
              have : commonLock a b = true := by
                unfold commonLock
                apply Bool.or_eq_true_iff.mpr
                exact .inr (List.any_eq_true.mpr ⟨l, contains_mem hob, hal⟩)
              simp [this]
  · have : (a.loc != b.loc) = true := by simpa using hloc
    simp [this]

theorem disciplinedBy_pairOk {cert : List Cls} {tbl : List Access} (h : DisciplinedBy cert tbl = true)
    (typ m₁ m₂ : String) : pairOk tbl typ m₁ m₂ = true := by
  unfold pairOk rowsOfCall
  apply List.all_eq_true.mpr
  intro a ha
  apply List.all_eq_true.mpr
  intro b hb
  exact disciplinedBy_compatible h (List.mem_filter.mp ha).1 (List.mem_filter.mp hb).1

end Ekit.Races
