/-
Review addition (C07/C09): **no spurious context error**.

The bounded-FIFO specification `bqSpec` lets `enq`/`deq` answer `ctxErr` in *every* state (with no
effect), and the specification does not know about contexts — so linearizability alone would also be
satisfied by a queue that answers `context.Canceled` although the caller's context is alive.
Here it is proved, for both models and every reachable state, that a call which is on its way to
return the context error (has committed to it, before or after giving the permit back / unlocking)
has a context that really ended.  Together with `errPath_closed` (an ended context before the last
check forces the context error) this pins the answer `ctxErr` to the context from both sides.
-/
import Ekit.Model.ArrayBQ
import Ekit.Model.LinkedBQ
open Ekit.Conc Ekit.BQ
set_option linter.unusedSimpArgs false

namespace Ekit.ArrayBQ

/-- the program counters of a call that has committed to `return ctx.Err()` -/
def ctxErrPc : Pc → Bool
  | .eRelBack | .dRelBack | .unlock .ctxErr | .runlock .ctxErr | .ret .ctxErr => true
  | _ => false

def CtxSound (s : State) : Prop := ∀ t, ctxErrPc (s.pc t) = true → s.ctxDone t = true

theorem ctxErrPc_start (op : Op) : ctxErrPc (start op) = false := by cases op <;> rfl

/-- what one action of `t` does to the program counters and the context flags -/
theorem tau_frame {s s' : State} {t : Nat} (hs : tauStep s t = some s') :
    (∀ u, u ≠ t → s'.pc u = s.pc u) ∧ s'.ctxDone = s.ctxDone ∧
    (ctxErrPc (s'.pc t) = true → ctxErrPc (s.pc t) = true ∨ s.ctxDone t = true) := by
  unfold tauStep at hs
  cases hp : s.pc t <;> simp only [hp] at hs
  all_goals (try split at hs)
  all_goals (try split at hs)
  all_goals (try (simp at hs; done))
  all_goals (injection hs with hs; subst hs)
  all_goals (refine ⟨fun u hu => by simp [fpAdd, setPc, panic, upd, hu], by simp [fpAdd, setPc, panic], ?_⟩)
  all_goals (first
    | (simp [fpAdd, setPc, panic, upd, hp, ctxErrPc]; done)
    | (intro _; right; assumption)
    | (rename_i r; cases r <;> simp [setPc, upd, ctxErrPc]; done)
    | (rename_i r _; cases r <;> simp [setPc, panic, upd, hp, ctxErrPc]; done))

theorem ctxSound_init (cap : Nat) : CtxSound (init cap) := by intro t h; simp [init, ctxErrPc] at h

theorem ctxSound_step {s s' : State} {l : Label} (h : CtxSound s) (hs : step s l = some s') : CtxSound s' := by
  cases l with
  | tau t =>
    simp only [step] at hs
    split at hs
    · simp at hs
    · obtain ⟨h1, h2, h3⟩ := tau_frame hs
      intro u hu
      rw [h2]
      by_cases hut : u = t
      · subst hut
        rcases h3 hu with h' | h'
        · exact h u h'
        · exact h'
      · rw [h1 u hut] at hu; exact h u hu
  | ctxEnd t =>
    simp only [step] at hs
    split at hs
    · injection hs with hs; subst hs
      intro u hu
      by_cases hut : u = t
      · subst hut; simp [upd]
      · simp only [upd, hut, if_false]; exact h u hu
    · simp at hs
  | ctxArm t =>
    simp only [step] at hs
    cases hp : s.pc t <;> simp only [hp] at hs <;> try (simp at hs; done)
    all_goals (split at hs <;> try (simp at hs; done))
    all_goals (rename_i hc; injection hs with hs; subst hs)
    all_goals (
      intro u hu
      by_cases hut : u = t
      · subst hut; simpa [setPc] using hc
      · simp only [setPc, upd, hut, if_false] at hu ⊢; exact h u hu)
  | inv t op =>
    simp only [step] at hs
    split at hs
    · injection hs with hs; subst hs
      intro u hu
      by_cases hut : u = t
      · subst hut; simp [upd, ctxErrPc_start] at hu
      · simp only [upd, hut, if_false] at hu ⊢; exact h u hu
    · simp at hs
  | res t r =>
    simp only [step] at hs
    split at hs
    · injection hs with hs; subst hs
      intro u hu
      by_cases hut : u = t
      · subst hut; simp [upd, ctxErrPc] at hu
      · simp only [upd, hut, if_false] at hu ⊢; exact h u hu
    · simp at hs

theorem ctxSound_reachable (cap : Nat) (s : State) (hr : (sys cap).Reachable s) : CtxSound s :=
  System.invariant_induction (sys cap).toSystem CtxSound (ctxSound_init cap)
    (fun _ _ _ h hs => ctxSound_step h hs) s hr

end Ekit.ArrayBQ

namespace Ekit.LinkedBQ

/-- the program counters of a call that has committed to `return ctx.Err()` (the constructors that
    carry a result are included for every result, so that the class is closed backwards) -/
def ctxErrPc : Pc → Bool
  | .bcSwap _ .ctxErr | .bcUnlock _ _ .ctxErr | .bcClose _ _ .ctxErr | .runlock .ctxErr | .ret .ctxErr => true
  | _ => false

def CtxSound (s : State) : Prop := ∀ t, ctxErrPc (s.pc t) = true → s.ctxDone t = true

theorem ctxErrPc_start (op : Op) : ctxErrPc (start op) = false := by cases op <;> rfl

@[simp] theorem setCond_pc' (s : State) (w : Which) (c : Cond) : (setCond s w c).pc = s.pc := by cases w <;> rfl
@[simp] theorem setCond_ctxDone' (s : State) (w : Which) (c : Cond) : (setCond s w c).ctxDone = s.ctxDone := by
  cases w <;> rfl

theorem tau_frame {s s' : State} {t : Nat} (hs : tauStep s t = some s') :
    (∀ u, u ≠ t → s'.pc u = s.pc u) ∧ s'.ctxDone = s.ctxDone ∧
    (ctxErrPc (s'.pc t) = true → ctxErrPc (s.pc t) = true ∨ s.ctxDone t = true) := by
  unfold tauStep at hs
  cases hp : s.pc t <;> simp only [hp] at hs
  all_goals (try simp only [unlockTo] at hs)
  all_goals (try split at hs)
  all_goals (try split at hs)
  all_goals (try (simp at hs; done))
  all_goals (injection hs with hs; subst hs)
  all_goals (refine ⟨fun u hu => by simp [setPc, panic, upd, hu], by simp [setPc, panic], ?_⟩)
  all_goals (first
    | (simp [setPc, panic, upd, hp, ctxErrPc]; done)
    | (intro _; right; assumption)
    | (rename_i r; cases r <;> simp [setPc, panic, upd, hp, ctxErrPc]; done)
    | (rename_i r _; cases r <;> simp [setPc, panic, upd, hp, ctxErrPc]; done)
    | (rename_i r _ _; cases r <;> simp [setPc, panic, upd, hp, ctxErrPc]; done))

theorem ctxSound_init (m : Int) : CtxSound (init m) := by intro t h; simp [init, ctxErrPc] at h

theorem ctxSound_step {s s' : State} {l : Label} (h : CtxSound s) (hs : step s l = some s') : CtxSound s' := by
  cases l with
  | tau t =>
    simp only [step] at hs
    split at hs
    · simp at hs
    · obtain ⟨h1, h2, h3⟩ := tau_frame hs
      intro u hu
      rw [h2]
      by_cases hut : u = t
      · subst hut
        rcases h3 hu with h' | h'
        · exact h u h'
        · exact h'
      · rw [h1 u hut] at hu; exact h u hu
  | ctxEnd t =>
    simp only [step] at hs
    split at hs
    · injection hs with hs; subst hs
      intro u hu
      by_cases hut : u = t
      · subst hut; simp [upd]
      · simp only [upd, hut, if_false]; exact h u hu
    · simp at hs
  | ctxArm t =>
    simp only [step] at hs
    cases hp : s.pc t <;> simp only [hp] at hs <;> try (simp at hs; done)
    all_goals (split at hs <;> try (simp at hs; done))
    all_goals (rename_i hc; injection hs with hs; subst hs)
    all_goals (
      intro u hu
      by_cases hut : u = t
      · subst hut; simpa [setPc] using hc
      · simp only [setPc, upd, hut, if_false] at hu ⊢; exact h u hu)
  | inv t op =>
    simp only [step] at hs
    split at hs
    · injection hs with hs; subst hs
      intro u hu
      by_cases hut : u = t
      · subst hut; simp [upd, ctxErrPc_start] at hu
      · simp only [upd, hut, if_false] at hu ⊢; exact h u hu
    · simp at hs
  | res t r =>
    simp only [step] at hs
    split at hs
    · injection hs with hs; subst hs
      intro u hu
      by_cases hut : u = t
      · subst hut; simp [upd, ctxErrPc] at hu
      · simp only [upd, hut, if_false] at hu ⊢; exact h u hu
    · simp at hs

theorem ctxSound_reachable (m : Int) (s : State) (hr : (sys m).Reachable s) : CtxSound s :=
  System.invariant_induction (sys m).toSystem CtxSound (ctxSound_init m)
    (fun _ _ _ h hs => ctxSound_step h hs) s hr

end Ekit.LinkedBQ
