/-
Review addition (C09, array queue): "after any pattern of cancellations the queue still accepts and
delivers **exactly `capacity`** elements without blocking".

`c09a_abq_accepts_at_quiescence` gives *one* further Enqueue on a non-full quiescent queue; the step
from there to "exactly capacity" was an informal remark.  Here it is a theorem about runs of the model:

* `fill`  — from every reachable quiescent state (whatever cancellations happened before) with
  `count + k ≤ cap`, `k` consecutive Enqueues each run to `return nil` by their own, always enabled,
  actions; the run's history is exactly `k` completed `Enqueue → nil` calls, and it ends in a reachable
  quiescent state with `count + k` elements;
* `drain` — symmetrically `k ≤ count` consecutive Dequeues each return an element;
* `full_blocks` / `empty_blocks` — at quiescence with `count = cap` the next Enqueue's `Acquire` is
  *not* enabled (the `cap+1`-st element is not accepted), and with `count = 0` the next Dequeue's is not.
-/
import Ekit.Lemmas.ArrayBQSolo
namespace Ekit.ArrayBQ
open Ekit.Conc Ekit.BQ
set_option linter.unusedSimpArgs false

/-- 1 while a successful Enqueue has not yet incremented `count` -/
def pendE : Pc → Int
  | .eAcq _ | .eLock _ | .eChk _ | .eStore _ | .eAdv _ => 1
  | _ => 0
/-- 1 while a successful Dequeue has not yet decremented `count` -/
def pendD : Pc → Int
  | .dAcq | .dLock | .dChk | .dRead | .dAdv _ => 1
  | _ => 0

theorem solo_count {s s' : State} {t : Nat} (hc : s.ctxDone t = false) (hnp : s'.panicked = false)
    (hs : tauStep s t = some s') :
    (okE (s.pc t) = true → s'.count + pendE (s'.pc t) = s.count + pendE (s.pc t)) ∧
    (okD (s.pc t) = true → s'.count - pendD (s'.pc t) = s.count - pendD (s.pc t)) := by
  unfold tauStep at hs
  cases hp : s.pc t <;> simp only [hp] at hs
  all_goals (try split at hs)
  all_goals (try split at hs)
  all_goals (try (simp at hs; done))
  all_goals (injection hs with hs; subst hs)
  all_goals (try (simp [panic] at hnp; done))
  all_goals (
    refine ⟨?_, ?_⟩
    all_goals (first
      | (simp_all [okE, okD, pendE, pendD, fpAdd, setPc]; done)
      | (simp [okE, okD, pendE, pendD, fpAdd, setPc, hc]; done)
      | (simp [okE, okD, pendE, pendD, fpAdd, setPc, hc]; omega)
      | (rename_i r _; cases r <;> simp_all [okE, okD, pendE, pendD, setPc])))

theorem tauStep_of_step {s s' : State} {t : Nat} (hs : step s (.tau t) = some s') : tauStep s t = some s' := by
  simp only [step] at hs
  split at hs
  · simp at hs
  · exact hs

/-- along a solo run of own actions the count bookkeeping is conserved -/
theorem solo_run_count {cap : Nat} (hcap : 1 ≤ cap) (t : Nat) :
    ∀ (n : Nat) (s s' : State), (sys cap).Reachable s → Solo s t →
      (sys cap).run s (List.replicate n (.tau t)) = some s' →
      (okE (s.pc t) = true → s'.count + pendE (s'.pc t) = s.count + pendE (s.pc t)) ∧
      (okD (s.pc t) = true → s'.count - pendD (s'.pc t) = s.count - pendD (s.pc t)) := by
  intro n
  induction n with
  | zero =>
    intro s s' _ _ hrun
    simp [System.run] at hrun; subst hrun; exact ⟨fun _ => rfl, fun _ => rfl⟩
  | succ n ih =>
    intro s s' hr hsolo hrun
    simp only [List.replicate_succ, System.run] at hrun
    cases hs1 : (sys cap).step s (.tau t) with
    | none => simp [hs1] at hrun
    | some s1 =>
      simp only [hs1] at hrun
      have hr1 : (sys cap).Reachable s1 := @System.Reachable.step _ _ (sys cap).toSystem s s1 (.tau t) hr hs1
      have hnp1 := (inv_reachable hcap s1 hr1).noPanic
      have hts := tauStep_of_step (show step s (.tau t) = some s1 from hs1)
      obtain ⟨hsolo1, hE1, hD1⟩ := solo_step hsolo hnp1 hts
      obtain ⟨hcE, hcD⟩ := solo_count hsolo.2 hnp1 hts
      obtain ⟨iE, iD⟩ := ih s1 s' hr1 hsolo1 hrun
      exact ⟨fun h => by rw [iE (hE1 h), hcE h], fun h => by rw [iD (hD1 h), hcD h]⟩

theorem history_replicate_tau (cap : Nat) (t n : Nat) :
    (sys cap).history (List.replicate n (.tau t)) = [] := by
  induction n with
  | zero => rfl
  | succ n ih =>
    simp only [ObjSystem.history] at ih ⊢
    simp [List.replicate_succ, List.filterMap_cons, sys, obs, ih]

/-- `inv` at quiescence -/
theorem inv_at_quiescence (s : State) (hq : ∀ u, s.pc u = .idle) (t : Nat) (op : Op) :
    ∃ s0, step s (.inv t op) = some s0 ∧ s0.pc t = start op ∧ contents s0 = contents s ∧
      s0.size = s.size ∧ s0.count = s.count ∧ s0.enqFree = s.enqFree ∧ s0.deqFree = s.deqFree ∧ Solo s0 t :=
  ⟨{ s with pc := upd s.pc t (start op), ctxDone := upd s.ctxDone t false, fp := upd s.fp t ⟨0, 0, 0⟩, live := t :: s.live },
    by simp [step, hq t], by simp, rfl, rfl, rfl, rfl, rfl, fun u hu => by simp [upd, hu, hq u], by simp⟩

/-- `res` of a solo call leads back to quiescence -/
theorem res_to_quiescence {s : State} {t : Nat} {r : Ret} (hsolo : Solo s t) (hp : s.pc t = .ret r) :
    ∃ s2, step s (.res t r) = some s2 ∧ (∀ u, s2.pc u = .idle) ∧ s2.count = s.count := by
  refine ⟨{ s with pc := upd s.pc t .idle, live := s.live.erase t }, by simp [step, hp], fun u => ?_, rfl⟩
  by_cases hu : u = t
  · subst hu; simp [upd]
  · simp [upd, hu, hsolo.1 u hu]

/-- the observable events of `k` consecutive completed Enqueues by thread `t` -/
def fillHist (t : Nat) (vs : List Int) : List (Ev Op Ret) :=
  vs.flatMap fun v => [.inv t (.enq v), .res t .ok]

/-- **fill**: `|vs|` further elements are accepted, one call after the other, each by its own always
    enabled actions, as long as `count + |vs| ≤ cap` -/
theorem fill {cap : Nat} (hcap : 1 ≤ cap) (t : Nat) :
    ∀ (vs : List Int) (s : State), (sys cap).Reachable s → (∀ u, s.pc u = .idle) →
      s.count + vs.length ≤ cap →
      ∃ ls s', (sys cap).run s ls = some s' ∧ (sys cap).Reachable s' ∧ (∀ u, s'.pc u = .idle) ∧
        s'.count = s.count + vs.length ∧ (sys cap).history ls = fillHist t vs := by
  intro vs
  induction vs with
  | nil => intro s hr hq _; exact ⟨[], s, rfl, hr, hq, by simp, rfl⟩
  | cons v vs ih =>
    intro s hr hq hle
    have h := inv_reachable hcap s hr
    have hc0 := h.count_nonneg
    obtain ⟨s0, hs0, hp0, hc, hsz, hcnt0, _, _, hsolo⟩ := inv_at_quiescence s hq t (.enq v)
    have hr0 : (sys cap).Reachable s0 := @System.Reachable.step _ _ (sys cap).toSystem s s0 (.inv t (.enq v)) hr hs0
    have hspec : specEnables s0 t := by
      simp only [specEnables, hp0, start, hc, hsz, h.size_eq, contents_length]
      simp only [List.length_cons] at hle; omega
    have hokE : okE (s0.pc t) = true := by simp [hp0, start, okE]
    obtain ⟨n, s1, hrun1, hr1, hsolo1, hres⟩ :=
      solo_completes hcap t 8 s0 hr0 hsolo (by simp [rank, hp0, start]) (Or.inl hokE) hspec
    have hp1 := hres.1 hokE
    have hcnt1 : s1.count = s.count + 1 := by
      have := (solo_run_count hcap t n s0 s1 hr0 hsolo hrun1).1 hokE
      simp [hp1, hp0, start, pendE, hcnt0] at this; exact this
    obtain ⟨s2, hs2, hq2, hcnt2⟩ := res_to_quiescence hsolo1 hp1
    have hr2 : (sys cap).Reachable s2 := @System.Reachable.step _ _ (sys cap).toSystem s1 s2 (.res t .ok) hr1 hs2
    have hle2 : s2.count + vs.length ≤ cap := by
      simp only [List.length_cons] at hle; rw [hcnt2, hcnt1]; omega
    obtain ⟨ls2, s', hrun2, hr', hq', hcnt', hhist2⟩ := ih s2 hr2 hq2 hle2
    refine ⟨.inv t (.enq v) :: (List.replicate n (.tau t) ++ .res t .ok :: ls2), s', ?_, hr', hq', ?_, ?_⟩
    · have e0 : (sys cap).step s (.inv t (.enq v)) = some s0 := hs0
      have e2 : (sys cap).step s1 (.res t .ok) = some s2 := hs2
      simp only [System.run, e0]
      rw [System.run_append, hrun1]
      simp only [Option.bind, System.run, e2]
      exact hrun2
    · rw [hcnt', hcnt2, hcnt1]; simp only [List.length_cons]; omega
    · have hh := history_replicate_tau cap t n
      simp only [ObjSystem.history] at hh hhist2 ⊢
      simp only [List.filterMap_cons, List.filterMap_append, hh, hhist2, fillHist, List.flatMap_cons]
      simp [sys, obs]

/-- **drain**: `k ≤ count` elements are delivered, one Dequeue after the other, each by its own always
    enabled actions -/
theorem drain {cap : Nat} (hcap : 1 ≤ cap) (t : Nat) :
    ∀ (k : Nat) (s : State), (sys cap).Reachable s → (∀ u, s.pc u = .idle) → (k : Int) ≤ s.count →
      ∃ (ls : List Label) (s' : State) (xs : List Int), (sys cap).run s ls = some s' ∧ (sys cap).Reachable s' ∧ (∀ u, s'.pc u = .idle) ∧
        s'.count = s.count - k ∧ xs.length = k ∧
        (sys cap).history ls = xs.flatMap fun x => [.inv t .deq, .res t (.val x)] := by
  intro k
  induction k with
  | zero => intro s hr hq _; exact ⟨[], s, [], rfl, hr, hq, by simp, rfl, rfl⟩
  | succ k ih =>
    intro s hr hq hle
    have h := inv_reachable hcap s hr
    obtain ⟨s0, hs0, hp0, hc, hsz, hcnt0, _, _, hsolo⟩ := inv_at_quiescence s hq t .deq
    have hr0 : (sys cap).Reachable s0 := @System.Reachable.step _ _ (sys cap).toSystem s s0 (.inv t .deq) hr hs0
    have hspec : specEnables s0 t := by
      simp only [specEnables, hp0, start, hc, contents_length]; omega
    have hokD : okD (s0.pc t) = true := by simp [hp0, start, okD]
    obtain ⟨n, s1, hrun1, hr1, hsolo1, hres⟩ :=
      solo_completes hcap t 8 s0 hr0 hsolo (by simp [rank, hp0, start]) (Or.inr hokD) hspec
    obtain ⟨x, hp1⟩ := hres.2 hokD
    have hcnt1 : s1.count = s.count - 1 := by
      have := (solo_run_count hcap t n s0 s1 hr0 hsolo hrun1).2 hokD
      simp [hp1, hp0, start, pendD, hcnt0] at this; exact this
    obtain ⟨s2, hs2, hq2, hcnt2⟩ := res_to_quiescence hsolo1 hp1
    have hr2 : (sys cap).Reachable s2 := @System.Reachable.step _ _ (sys cap).toSystem s1 s2 (.res t (.val x)) hr1 hs2
    obtain ⟨ls2, s', xs, hrun2, hr', hq', hcnt', hlen, hhist2⟩ := ih s2 hr2 hq2 (by rw [hcnt2, hcnt1]; omega)
    refine ⟨.inv t .deq :: (List.replicate n (.tau t) ++ .res t (.val x) :: ls2), s', x :: xs, ?_, hr', hq', ?_, by simp [hlen], ?_⟩
    · have e0 : (sys cap).step s (.inv t .deq) = some s0 := hs0
      have e2 : (sys cap).step s1 (.res t (.val x)) = some s2 := hs2
      simp only [System.run, e0]
      rw [System.run_append, hrun1]
      simp only [Option.bind, System.run, e2]
      exact hrun2
    · rw [hcnt', hcnt2, hcnt1]; omega
    · have hh := history_replicate_tau cap t n
      simp only [ObjSystem.history] at hh hhist2 ⊢
      simp only [List.filterMap_cons, List.filterMap_append, hh, hhist2, List.flatMap_cons]
      simp [sys, obs]

/-- **exactly**: on a quiescent full queue the next Enqueue is parked in `Acquire` (its own action
    is not enabled; it leaves only through `ctx.Done()` or after a Dequeue released a permit) -/
theorem full_blocks {cap : Nat} (hcap : 1 ≤ cap) (s : State) (hr : (sys cap).Reachable s)
    (hq : ∀ u, s.pc u = .idle) (hfull : s.count = cap) (t : Nat) (v : Int) :
    ∃ s0, step s (.inv t (.enq v)) = some s0 ∧ s0.pc t = .eAcq v ∧ step s0 (.tau t) = none := by
  have h := inv_reachable hcap s hr
  obtain ⟨s0, hs0, hp0, _, _, _, hef, _, _⟩ := inv_at_quiescence s hq t (.enq v)
  refine ⟨s0, hs0, hp0, ?_⟩
  have hE := h.permE
  rw [wsum_eq_zero wE s.pc (fun u _ => by rw [hq u]; rfl)] at hE
  have : s0.enqFree = 0 := by rw [hef]; omega
  simp only [step]
  split
  · rfl
  · simp [tauStep, hp0, start, this]

/-- on a quiescent empty queue the next Dequeue is parked in `Acquire` -/
theorem empty_blocks {cap : Nat} (hcap : 1 ≤ cap) (s : State) (hr : (sys cap).Reachable s)
    (hq : ∀ u, s.pc u = .idle) (hempty : s.count = 0) (t : Nat) :
    ∃ s0, step s (.inv t .deq) = some s0 ∧ s0.pc t = .dAcq ∧ step s0 (.tau t) = none := by
  have h := inv_reachable hcap s hr
  obtain ⟨s0, hs0, hp0, _, _, _, _, hdf, _⟩ := inv_at_quiescence s hq t .deq
  refine ⟨s0, hs0, hp0, ?_⟩
  have hD := h.permD
  rw [wsum_eq_zero wD s.pc (fun u _ => by rw [hq u]; rfl)] at hD
  have : s0.deqFree = 0 := by rw [hdf]; omega
  simp only [step]
  split
  · rfl
  · simp [tauStep, hp0, start, this]

end Ekit.ArrayBQ
