/-
C06 — the lock invariants of the generic lock-wrapped container model hold in every reachable state.
-/
import Ekit.Model.LockWrapped

namespace Ekit.Linz.LockWrapped
open Ekit.Conc Ekit.Linz

variable {S Op Ret : Type}

theorem style_dirties_excl {st : Style} (h : st.dirties = true) : st.shared = false := by
  cases st <;> simp_all [Style.dirties, Style.shared]
theorem style_late_excl {st : Style} (h : st.late = true) : st.shared = false := by
  cases st <;> simp_all [Style.late, Style.shared]
theorem style_late_ro {st : Style} (h : st.late = true) : st.readOnly = true := by
  cases st <;> simp_all [Style.late, Style.readOnly]
theorem style_dirties_not_late {st : Style} (h : st.dirties = true) : st.late = false := by
  cases st <;> simp_all [Style.late, Style.dirties]
theorem style_dirties_not_ro {st : Style} (h : st.dirties = true) : st.readOnly = false := by
  cases st <;> simp_all [Style.readOnly, Style.dirties]
theorem style_writer_excl {st : Style} (h : st.readOnly = false) : st.shared = false := by
  cases st <;> simp_all [Style.readOnly, Style.shared]

variable (P : Params S Op Ret)

/-- a holder of the exclusive lock is the only thread inside a critical section -/
theorem Inv.alone {s : St S Op Ret} (h : Inv P s) {t u : Nat} {b : Bool}
    (ht : lockOf P (s.pc t) = some false) (hu : lockOf P (s.pc u) = some b) : u = t := by
  cases b with
  | false => exact h.exU u t hu ht
  | true =>
    obtain ⟨rs, _, hlen, hmem⟩ := h.rd
    have hin : u ∈ rs := (hmem u).2 hu
    have h0 := h.wr (h.exW t ht)
    have : rs.length > 0 := List.length_pos_of_mem hin
    omega

theorem Inv.init : Inv P (⟨P.init, false, false, 0, fun _ => .idle⟩ : St S Op Ret) where
  wr := by simp
  exW := by simp [lockOf]
  exU := by simp [lockOf]
  rd := ⟨[], List.nodup_nil, rfl, by simp [lockOf]⟩
  snap := by simp
  dirt := by simp
  nocrash := by simp

/-- a step that only moves thread `t` between program counters with the same lock status and
    neither of which is `mid`/`crash` -/
theorem Inv.move {s : St S Op Ret} (h : Inv P s) {t : Nat} {p' : Pc S Op Ret}
    (hl : lockOf P p' = lockOf P (s.pc t))
    (hm : ∀ op sn, p' ≠ .mid op sn) (hm0 : ∀ op sn, s.pc t ≠ .mid op sn) (hc : p' ≠ .crash) :
    Inv P (s.set t p') where
  wr := h.wr
  exW := by
    intro u hu
    by_cases hut : u = t
    · subst hut; simp only [St.set, upd_same] at hu; exact h.exW u (hl ▸ hu)
    · simp only [St.set, upd_other _ _ _ _ hut] at hu; exact h.exW u hu
  exU := by
    intro u v hu hv
    have hu' : lockOf P (s.pc u) = some false := by
      by_cases hut : u = t
      · subst hut; simp only [St.set, upd_same] at hu; exact hl ▸ hu
      · simpa only [St.set, upd_other _ _ _ _ hut] using hu
    have hv' : lockOf P (s.pc v) = some false := by
      by_cases hvt : v = t
      · subst hvt; simp only [St.set, upd_same] at hv; exact hl ▸ hv
      · simpa only [St.set, upd_other _ _ _ _ hvt] using hv
    exact h.exU u v hu' hv'
  rd := by
    obtain ⟨rs, hnd, hlen, hmem⟩ := h.rd
    refine ⟨rs, hnd, hlen, ?_⟩
    intro u
    by_cases hut : u = t
    · subst hut; simp only [St.set, upd_same]; rw [hl]; exact hmem u
    · simp only [St.set, upd_other _ _ _ _ hut]; exact hmem u
  snap := by
    intro u op sn hu
    by_cases hut : u = t
    · subst hut; simp only [St.set, upd_same] at hu; exact absurd hu (hm op sn)
    · simp only [St.set, upd_other _ _ _ _ hut] at hu; exact h.snap u op sn hu
  dirt := by
    intro hd
    obtain ⟨t0, op0, sn0, h0, hdt⟩ := h.dirt hd
    have : t0 ≠ t := fun e => hm0 op0 sn0 (e ▸ h0)
    exact ⟨t0, op0, sn0, by simp only [St.set, upd_other _ _ _ _ this]; exact h0, hdt⟩
  nocrash := by
    intro u
    by_cases hut : u = t
    · subst hut; simp only [St.set, upd_same]; exact hc
    · simp only [St.set, upd_other _ _ _ _ hut]; exact h.nocrash u


/-- generic transport for the part of the invariant that only looks at `mid`/`crash` pcs, when
    thread `t` moves from a non-`mid` pc to a non-`mid`, non-`crash` pc and data/dirty are unchanged -/
theorem lockOf_ne_of_want {s : St S Op Ret} {t : Nat} {op : Op} (hpc : s.pc t = .want op) (b : Bool) :
    lockOf P (s.pc t) ≠ some b := by simp [hpc, lockOf]

/-- RLock -/
theorem Inv.rlock {s : St S Op Ret} (h : Inv P s) {t : Nat} {op : Op} (hpc : s.pc t = .want op)
    (hsh : (P.style op).shared = true) (hw : s.w = false) :
    Inv P { s with rc := s.rc + 1, pc := upd s.pc t (.held op) } where
  wr := by intro hw'; simp [hw] at hw'
  exW := by
    intro u hu
    by_cases hut : u = t
    · subst hut; simp [lockOf, hsh] at hu
    · simp only [upd_other _ _ _ _ hut] at hu; exact h.exW u hu
  exU := by
    intro u v hu hv
    by_cases hut : u = t
    · subst hut; simp [lockOf, hsh] at hu
    · by_cases hvt : v = t
      · subst hvt; simp [lockOf, hsh] at hv
      · simp only [upd_other _ _ _ _ hut] at hu; simp only [upd_other _ _ _ _ hvt] at hv
        exact h.exU u v hu hv
  rd := by
    obtain ⟨rs, hnd, hlen, hmem⟩ := h.rd
    have hnot : t ∉ rs := fun hin => lockOf_ne_of_want P hpc true ((hmem t).1 hin)
    refine ⟨t :: rs, List.nodup_cons.2 ⟨hnot, hnd⟩, by simp [hlen], ?_⟩
    intro u
    by_cases hut : u = t
    · subst hut; simp [lockOf, hsh]
    · simp only [upd_other _ _ _ _ hut, List.mem_cons, hut, false_or]; exact hmem u
  snap := by
    intro u op' sn hu
    by_cases hut : u = t
    · subst hut; simp at hu
    · simp only [upd_other _ _ _ _ hut] at hu; exact h.snap u op' sn hu
  dirt := by
    intro hd
    obtain ⟨t0, op0, sn0, h0, hdt⟩ := h.dirt hd
    have : t0 ≠ t := fun e => by subst e; simp [hpc] at h0
    exact ⟨t0, op0, sn0, by simp only [upd_other _ _ _ _ this]; exact h0, hdt⟩
  nocrash := by
    intro u
    by_cases hut : u = t
    · subst hut; simp
    · simp only [upd_other _ _ _ _ hut]; exact h.nocrash u

/-- Lock -/
theorem Inv.lock {s : St S Op Ret} (h : Inv P s) {t : Nat} {op : Op} (hpc : s.pc t = .want op)
    (hsh : (P.style op).shared = false) (hw : s.w = false) (hrc : s.rc = 0) :
    Inv P { s with w := true, pc := upd s.pc t (.held op) } where
  wr := fun _ => hrc
  exW := fun _ _ => rfl
  exU := by
    intro u v hu hv
    have key : ∀ x, lockOf P (upd s.pc t (.held op) x) = some false → x = t := by
      intro x hx
      by_cases hxt : x = t
      · exact hxt
      · simp only [upd_other _ _ _ _ hxt] at hx
        have := h.exW x hx; simp [hw] at this
    rw [key u hu, key v hv]
  rd := by
    obtain ⟨rs, hnd, hlen, hmem⟩ := h.rd
    refine ⟨rs, hnd, hlen, ?_⟩
    intro u
    by_cases hut : u = t
    · subst hut
      simp only [upd_same, lockOf, hsh]
      constructor
      · intro hin; exact absurd ((hmem u).1 hin) (lockOf_ne_of_want P hpc true)
      · intro hx; simp at hx
    · simp only [upd_other _ _ _ _ hut]; exact hmem u
  snap := by
    intro u op' sn hu
    by_cases hut : u = t
    · subst hut; simp at hu
    · simp only [upd_other _ _ _ _ hut] at hu; exact h.snap u op' sn hu
  dirt := by
    intro hd
    obtain ⟨t0, op0, sn0, h0, hdt⟩ := h.dirt hd
    have : t0 ≠ t := fun e => by subst e; simp [hpc] at h0
    exact ⟨t0, op0, sn0, by simp only [upd_other _ _ _ _ this]; exact h0, hdt⟩
  nocrash := by
    intro u
    by_cases hut : u = t
    · subst hut; simp
    · simp only [upd_other _ _ _ _ hut]; exact h.nocrash u

/-- a thread that holds a lock never finds the data dirty: no torn read -/
theorem Inv.held_clean {s : St S Op Ret} (h : Inv P s) {t : Nat} {op : Op} (hpc : s.pc t = .held op) :
    s.dirty = false := by
  cases hd : s.dirty with
  | false => rfl
  | true =>
    obtain ⟨t0, op0, sn0, h0, hdt⟩ := h.dirt hd
    have h0l : lockOf P (s.pc t0) = some false := by simp [h0, lockOf, style_dirties_excl hdt]
    have htl : lockOf P (s.pc t) = some (P.style op).shared := by simp [hpc, lockOf]
    have := h.alone P h0l htl
    subst this; simp [hpc] at h0


theorem lockOf_upd_same {s : St S Op Ret} {t : Nat} {p' : Pc S Op Ret}
    (hl : lockOf P p' = lockOf P (s.pc t)) : ∀ u, lockOf P (upd s.pc t p' u) = lockOf P (s.pc u) := by
  intro u
  by_cases hut : u = t
  · subst hut; simp [hl]
  · simp [upd_other _ _ _ _ hut]

/-- lock-related part of the invariant is untouched by a step inside a critical section -/
theorem Inv.sameLocks {s s' : St S Op Ret} (h : Inv P s) (hw : s'.w = s.w) (hrc : s'.rc = s.rc)
    (hl : ∀ u, lockOf P (s'.pc u) = lockOf P (s.pc u))
    (hsnap : ∀ t op sn, s'.pc t = .mid op sn → sn = s'.data)
    (hdirt : s'.dirty = true → ∃ t op sn, s'.pc t = .mid op sn ∧ (P.style op).dirties = true)
    (hnc : ∀ t, s'.pc t ≠ .crash) : Inv P s' where
  wr := by rw [hw, hrc]; exact h.wr
  exW := by intro u hu; rw [hw]; exact h.exW u (hl u ▸ hu)
  exU := by intro u v hu hv; exact h.exU u v (hl u ▸ hu) (hl v ▸ hv)
  rd := by
    obtain ⟨rs, hnd, hlen, hmem⟩ := h.rd
    exact ⟨rs, hnd, by rw [hrc]; exact hlen, fun u => by rw [hl u]; exact hmem u⟩
  snap := hsnap
  dirt := hdirt
  nocrash := hnc

/-- begin: the body reads the protected data -/
theorem Inv.begin {s : St S Op Ret} (h : Inv P s) {t : Nat} {op : Op} (hpc : s.pc t = .held op) :
    Inv P { s with dirty := (P.style op).dirties, pc := upd s.pc t (.mid op s.data) } := by
  have hclean := h.held_clean P hpc
  refine h.sameLocks P rfl rfl (lockOf_upd_same P (by simp [hpc, lockOf])) ?_ ?_ ?_
  · intro u op' sn hu
    by_cases hut : u = t
    · subst hut; simp only [upd_same, Pc.mid.injEq] at hu; exact hu.2.symm
    · simp only [upd_other _ _ _ _ hut] at hu; exact h.snap u op' sn hu
  · intro hd
    exact ⟨t, op, s.data, by simp, hd⟩
  · intro u
    by_cases hut : u = t
    · subst hut; simp
    · simp only [upd_other _ _ _ _ hut]; exact h.nocrash u

/-- a read-only body finishes (nothing shared changes) -/
theorem Inv.finishR {s : St S Op Ret} (h : Inv P s) {t : Nat} {op : Op} {sn : S} {r : Ret}
    (hpc : s.pc t = .mid op sn) (hro : (P.style op).readOnly = true) :
    Inv P (s.set t (.fin op r)) := by
  refine h.sameLocks P rfl rfl (lockOf_upd_same P (by simp [hpc, lockOf])) ?_ ?_ ?_
  · intro u op' sn' hu
    by_cases hut : u = t
    · subst hut; simp [St.set] at hu
    · simp only [St.set, upd_other _ _ _ _ hut] at hu; exact h.snap u op' sn' hu
  · intro hd
    obtain ⟨t0, op0, sn0, h0, hdt⟩ := h.dirt hd
    have : t0 ≠ t := by
      intro e; subst e; rw [hpc] at h0
      simp only [Pc.mid.injEq] at h0
      have := style_dirties_not_ro (h0.1 ▸ hdt); simp [hro] at this
    exact ⟨t0, op0, sn0, by simp only [St.set, upd_other _ _ _ _ this]; exact h0, hdt⟩
  · intro u
    by_cases hut : u = t
    · subst hut; simp [St.set]
    · simp only [St.set, upd_other _ _ _ _ hut]; exact h.nocrash u

/-- a writer finishes: it writes the result computed from what it read -/
theorem Inv.finishW {s : St S Op Ret} (h : Inv P s) {t : Nat} {op : Op} {sn : S} {d' : S} {r : Ret}
    (hpc : s.pc t = .mid op sn) (hro : (P.style op).readOnly = false) :
    Inv P { s with data := d', dirty := if (P.style op).dirties then false else s.dirty,
                   pc := upd s.pc t (.fin op r) } := by
  have htl : lockOf P (s.pc t) = some false := by simp [hpc, lockOf, style_writer_excl hro]
  have others : ∀ u op' sn', u ≠ t → s.pc u ≠ .mid op' sn' := by
    intro u op' sn' hut hu
    exact hut (h.alone P htl (b := (P.style op').shared) (by simp [hu, lockOf]))
  refine h.sameLocks P rfl rfl (lockOf_upd_same P (by simp [hpc, lockOf])) ?_ ?_ ?_
  · intro u op' sn' hu
    by_cases hut : u = t
    · subst hut; simp at hu
    · simp only [upd_other _ _ _ _ hut] at hu; exact absurd hu (others u op' sn' hut)
  · intro hd
    simp only at hd
    by_cases hdd : (P.style op).dirties = true
    · simp [hdd] at hd
    · simp only [hdd] at hd
      obtain ⟨t0, op0, sn0, h0, hdt⟩ := h.dirt (by simpa using hd)
      by_cases e : t0 = t
      · subst e; rw [hpc] at h0; simp only [Pc.mid.injEq] at h0; exact absurd (h0.1 ▸ hdt) hdd
      · exact absurd h0 (others t0 op0 sn0 e)
  · intro u
    by_cases hut : u = t
    · subst hut; simp
    · simp only [upd_other _ _ _ _ hut]; exact h.nocrash u

/-- Unlock by a holder of the exclusive lock (`fin → ret`, or the early unlock of a snapshot reader `mid → out`) -/
theorem Inv.unlock {s : St S Op Ret} (h : Inv P s) {t : Nat} {p' : Pc S Op Ret}
    (hex : lockOf P (s.pc t) = some false) (hl' : lockOf P p' = none)
    (hm : ∀ op sn, p' ≠ .mid op sn) (hc : p' ≠ .crash)
    (hnd : ∀ op sn, s.pc t = .mid op sn → (P.style op).dirties = false) :
    Inv P { s with w := false, pc := upd s.pc t p' } where
  wr := by intro hw'; simp at hw'
  exW := by
    intro u hu
    by_cases hut : u = t
    · subst hut; simp [hl'] at hu
    · simp only [upd_other _ _ _ _ hut] at hu; exact absurd (h.exU u t hu hex) hut
  exU := by
    intro u v hu _
    by_cases hut : u = t
    · subst hut; simp [hl'] at hu
    · simp only [upd_other _ _ _ _ hut] at hu; exact absurd (h.exU u t hu hex) hut
  rd := by
    obtain ⟨rs, hnd', hlen, hmem⟩ := h.rd
    refine ⟨rs, hnd', hlen, ?_⟩
    intro u
    by_cases hut : u = t
    · subst hut
      simp only [upd_same, hl']
      constructor
      · intro hin; have := (hmem u).1 hin; rw [hex] at this; simp at this
      · intro hx; simp at hx
    · simp only [upd_other _ _ _ _ hut]; exact hmem u
  snap := by
    intro u op sn hu
    by_cases hut : u = t
    · subst hut; simp only [upd_same] at hu; exact absurd hu (hm op sn)
    · simp only [upd_other _ _ _ _ hut] at hu; exact h.snap u op sn hu
  dirt := by
    intro hd
    obtain ⟨t0, op0, sn0, h0, hdt⟩ := h.dirt hd
    have : t0 ≠ t := by
      intro e; subst e
      have := hnd op0 sn0 h0; simp [hdt] at this
    exact ⟨t0, op0, sn0, by simp only [upd_other _ _ _ _ this]; exact h0, hdt⟩
  nocrash := by
    intro u
    by_cases hut : u = t
    · subst hut; simp only [upd_same]; exact hc
    · simp only [upd_other _ _ _ _ hut]; exact h.nocrash u

/-- RUnlock -/
theorem Inv.runlock {s : St S Op Ret} (h : Inv P s) {t : Nat} {op : Op} {r : Ret}
    (hpc : s.pc t = .fin op r) (hsh : (P.style op).shared = true) :
    Inv P { s with rc := s.rc - 1, pc := upd s.pc t (.ret r) } where
  wr := by intro hw'; have := h.wr hw'; simp [this]
  exW := by
    intro u hu
    by_cases hut : u = t
    · subst hut; simp [lockOf] at hu
    · simp only [upd_other _ _ _ _ hut] at hu; exact h.exW u hu
  exU := by
    intro u v hu hv
    by_cases hut : u = t
    · subst hut; simp [lockOf] at hu
    · by_cases hvt : v = t
      · subst hvt; simp [lockOf] at hv
      · simp only [upd_other _ _ _ _ hut] at hu; simp only [upd_other _ _ _ _ hvt] at hv
        exact h.exU u v hu hv
  rd := by
    obtain ⟨rs, hnd, hlen, hmem⟩ := h.rd
    have hin : t ∈ rs := (hmem t).2 (by simp [hpc, lockOf, hsh])
    refine ⟨rs.erase t, hnd.erase t, by simp [List.length_erase_of_mem hin, hlen], ?_⟩
    intro u
    rw [hnd.mem_erase_iff]
    by_cases hut : u = t
    · subst hut; simp [lockOf]
    · simp only [upd_other _ _ _ _ hut, ne_eq, hut, not_false_eq_true, true_and]; exact hmem u
  snap := by
    intro u op' sn hu
    by_cases hut : u = t
    · subst hut; simp at hu
    · simp only [upd_other _ _ _ _ hut] at hu; exact h.snap u op' sn hu
  dirt := by
    intro hd
    obtain ⟨t0, op0, sn0, h0, hdt⟩ := h.dirt hd
    have : t0 ≠ t := fun e => by subst e; simp [hpc] at h0
    exact ⟨t0, op0, sn0, by simp only [upd_other _ _ _ _ this]; exact h0, hdt⟩
  nocrash := by
    intro u
    by_cases hut : u = t
    · subst hut; simp
    · simp only [upd_other _ _ _ _ hut]; exact h.nocrash u

end Ekit.Linz.LockWrapped
