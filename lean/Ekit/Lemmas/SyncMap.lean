/-
C06 — forward simulation from the `syncx.Map` model to the canonical automaton of the map specification.
-/
import Ekit.Model.SyncMap

namespace Ekit.Linz.SyncMap
open Ekit.Conc Ekit.Linz

theorem apply_mapFn (m : MapS) (op : MOp) : mapSpec.apply m op (mapFn m op).1 (mapFn m op).2 :=
  mapStep_mapFn m op

/-- an internal step without linearization point -/
theorem sim_silent {s : St} {a : AState MapS MOp MRet} {t : Nat} {p : Pc} (h : Rel s a)
    (hp : a.th t = expect p) :
    ∃ als a', ARun mapSpec a als a' ∧ Rel (s.set t p) a' ∧ als.filterMap ALabel.obs = [] :=
  ⟨[], a, ARun.nil, ⟨h.1, upd_pointwise_left h.2 hp⟩, rfl⟩

/-- an internal step that is the linearization point of the pending call `op` of `t` -/
theorem sim_lin {s : St} {a : AState MapS MOp MRet} {t : Nat} {op : MOp} {m' : MapS} {r : MRet}
    (h : Rel s a) (hp : a.th t = .pending op) (hap : mapStep s.m op r = some m') :
    ∃ als a', ARun mapSpec a als a' ∧ Rel ⟨m', upd s.pc t (.ret r)⟩ a' ∧ als.filterMap ALabel.obs = [] := by
  refine ⟨[.lin t m' r], ⟨m', upd a.th t (.done r)⟩, arun_one (AStep.lin hp ?_), ⟨rfl, ?_⟩, rfl⟩
  · show mapStep a.s op r = some m'
    rw [h.1]; exact hap
  · exact upd_pointwise (e := expect) (a := Pc.ret r) h.2

theorem sim_step (s : St) (a : AState MapS MOp MRet) (l : Lbl MOp MRet) (s' : St)
    (h : Rel s a) (hs : sys.step s l = some s') :
    ∃ als a', ARun mapSpec a als a' ∧ Rel s' a' ∧ als.filterMap ALabel.obs = (sys.obs l).toList := by
  cases l with
  | call t op =>
    have hcall : ∀ p, s.pc t = .idle → expect p = .pending op →
        ∃ als a', ARun mapSpec a als a' ∧ Rel (s.set t p) a' ∧
          als.filterMap ALabel.obs = (sys.obs (.call t op)).toList := by
      intro p hidle hp
      have hth : a.th t = .idle := by rw [h.2 t, hidle]; rfl
      refine ⟨[.inv t op], ⟨a.s, upd a.th t (.pending op)⟩, arun_one (AStep.inv hth), ⟨h.1, ?_⟩, rfl⟩
      rw [← hp]; exact upd_pointwise (e := expect) h.2
    simp only [sys, step] at hs
    cases hpc : s.pc t <;> simp only [hpc] at hs <;> try contradiction
    cases op <;> simp only [Option.some.injEq] at hs <;> try contradiction
    all_goals (subst hs; exact hcall _ hpc rfl)
  | tau t =>
    simp only [sys, step] at hs
    have hth := h.2 t
    cases hpc : s.pc t <;> simp only [hpc] at hs hth <;> try contradiction
    · -- op1: the atomic sync.Map operation is the linearization point
      rename_i op
      simp only [Option.some.injEq] at hs; subst hs
      exact sim_lin h hth (mapStep_mapFn s.m op)
    · -- f1: Load
      rename_i k fv
      cases hg : mget s.m k with
      | some x =>
        simp only [hg, Option.some.injEq] at hs; subst hs
        exact sim_lin h hth (by simp [mapStep, hg])
      | none =>
        simp only [hg, Option.some.injEq] at hs; subst hs
        cases fv with
        | none =>
          -- fn will fail: the call takes effect here (the key is absent now)
          refine ⟨[.lin t s.m .err], ⟨s.m, upd a.th t (.done .err)⟩, arun_one (AStep.lin hth ?_), ⟨rfl, ?_⟩, rfl⟩
          · show mapStep a.s (.losf k none) .err = some s.m
            rw [h.1]; simp [mapStep, hg]
          · exact upd_pointwise (e := expect) (a := Pc.f2 k none) h.2
        | some v => exact sim_silent h hth
    · -- f2: fn()
      rename_i k fv
      cases fv with
      | none => simp only [Option.some.injEq] at hs; subst hs; exact sim_silent h hth
      | some v => simp only [Option.some.injEq] at hs; subst hs; exact sim_silent h hth
    · -- f3: LoadOrStore
      rename_i k v
      simp only [Option.some.injEq] at hs; subst hs
      refine sim_lin h hth ?_
      simp only [mapFn]
      cases hg : mget s.m k <;> simp [mapStep, hg]
  | ret t r =>
    simp only [sys, step] at hs
    cases hpc : s.pc t <;> simp only [hpc] at hs <;> try contradiction
    rename_i r'
    by_cases hr : r = r'
    · simp only [hr, if_true, Option.some.injEq] at hs; subst hs
      have hth : a.th t = .done r := by rw [h.2 t, hpc, hr]; rfl
      refine ⟨[.res t r], ⟨a.s, upd a.th t .idle⟩, arun_one (AStep.res hth), ⟨h.1, ?_⟩, rfl⟩
      exact upd_pointwise (e := expect) (a := Pc.idle) h.2
    · simp [hr] at hs

theorem linearizable (ls : List (Lbl MOp MRet)) (s : St) (hrun : sys.run sys.init ls = some s) :
    Linearizable mapSpec (sys.history ls) :=
  forward_simulation sys mapSpec Rel ⟨rfl, fun _ => rfl⟩
    (fun s a l s' _ hR hs => sim_step s a l s' hR hs) ls s hrun

end Ekit.Linz.SyncMap
