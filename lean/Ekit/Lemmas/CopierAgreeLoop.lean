/-
Helper lemmas for C20, part 8: agreement of the two copy loops over a struct level, and by induction
on the fuel for whole structs.
-/
import Ekit.Lemmas.CopierAgree

namespace Ekit.Copier
open Ekit.Go

/-- one iteration of the tree copier's loop when the child is not ignored and all lookups succeed -/
theorem copyChildren_cons_eq (opts : Options) (node : Node) (more : List Node) (sT : Ty) (sv : Val) (dT : Ty)
    (dv : Val) (fl : Flags) (sfs dfs : List Field) (sf df : Field) (sfv dfv : Val)
    (hig : opts.inIgnore node.name = false) (hsfs : sT.fields? = some sfs) (hdfs : dT.fields? = some dfs)
    (hsf : sfs[node.srcIndex]? = some sf) (hdf : dfs[node.dstIndex]? = some df)
    (hsfv : sv.field? node.srcIndex = some sfv) (hdfv : dv.field? node.dstIndex = some dfv)
    (hes : fexp sf = true) (hed : fexp df = true) :
    copyChildren opts (node :: more) sT sv false dT dv fl =
      (match (copyNode opts node (fty sf) sfv false (fty df) dfv (fl.field true)).res with
        | .ok _ => copyChildren opts more sT sv false dT
            (dv.setField node.dstIndex (copyNode opts node (fty sf) sfv false (fty df) dfv (fl.field true)).dst) fl
        | e => ⟨dv.setField node.dstIndex (copyNode opts node (fty sf) sfv false (fty df) dfv (fl.field true)).dst, e⟩) := by
  simp only [copyChildren, hig, Bool.false_eq_true, if_false, hsfs, hdfs, hsf, hdf, hsfv, hdfv, hes, hed,
    Bool.not_true, Bool.or_false]
  generalize (copyNode opts node (fty sf) sfv false (fty df) dfv (fl.field true)).res = R
  cases R <;> rfl

/-- the destination still holds zero values from field `j0` on -/
def ZeroFrom (dfs : List Field) (dv : Val) (j0 : Nat) : Prop :=
  ∀ (j : Nat) (df : Field), j0 ≤ j → dfs[j]? = some df → dv.field? j = some (zeroOf (fty df))

structure AgreeCtx (atomics : List Ty) (recB : Ty → Ty → Outcome (List Node))
    (recP : Ty → Val → Ty → Val → Flags → CopyRes) (sT dT : Ty) (sfs dfs : List Field) (sv : Val)
    (fl1 fl2 : Flags) : Prop where
  hsfs : sT.fields? = some sfs
  hdfs : dT.fields? = some dfs
  hfamS : Spec.familyFields atomics sfs = true
  hfamD : Spec.familyFields atomics dfs = true
  hws : wt sT sv = true
  hc1 : fl1.canSet = true
  hc2 : fl2.canSet = true
  hrecOK : ∀ s d kids, s.kind = .struct → d.kind = .struct → recB s d = .ok kids →
    ∃ sfs' dfs', s.fields? = some sfs' ∧ d.fields? = some dfs' ∧ KidsOK kids sfs' dfs'
  agree : AgreeRec atomics recB recP

theorem convOK_opts0 : ConvOK opts0 := by
  intro name c h
  simp [opts0_conv] at h

/-- both loops take the same step at a destination field that has a child -/
theorem agree_step {atomics : List Ty} {recB : Ty → Ty → Outcome (List Node)}
    {recP : Ty → Val → Ty → Val → Flags → CopyRes} {sT dT : Ty} {sfs dfs : List Field} {sv : Val}
    {fl1 fl2 : Flags} (ctx : AgreeCtx atomics recB recP sT dT sfs dfs sv fl1 fl2)
    (df : Field) (rest : List Field) (j0 : Nat) (node : Node) (more : List Node) (i : Nat) (sf : Field)
    (hdf : dfs[j0]? = some df) (hsi : node.srcIndex = i) (hdi : node.dstIndex = j0)
    (he : fexp df = true) (hes : fexp sf = true)
    (hi : Spec.srcFieldIdx? sfs (fname df) = some i) (hsf : sfs[i]? = some sf)
    (hnok : NodeOK node (fty sf) (fty df))
    (hfield : ∀ sfv fl1' fl2', wt (fty sf) sfv = true → fl1'.canSet = true → fl2'.canSet = true →
      (copyNode opts0 node (fty sf) sfv false (fty df) (zeroOf (fty df)) fl1').res = .ok () →
      (pureField recP sf sfv df (zeroOf (fty df)) fl2').res = .ok () →
      (copyNode opts0 node (fty sf) sfv false (fty df) (zeroOf (fty df)) fl1').dst =
        (pureField recP sf sfv df (zeroOf (fty df)) fl2').dst)
    (hrest : ∀ dv, wt dT dv = true → ZeroFrom dfs dv (j0 + 1) →
      (copyChildren opts0 more sT sv false dT dv fl1).res = .ok () →
      (pureLoop recP sfs (fieldMap sfs) sv fl2 rest (j0 + 1) dv).res = .ok () →
      (copyChildren opts0 more sT sv false dT dv fl1).dst =
        (pureLoop recP sfs (fieldMap sfs) sv fl2 rest (j0 + 1) dv).dst)
    (dv : Val) (hw : wt dT dv = true) (hz : ZeroFrom dfs dv j0)
    (h1 : (copyChildren opts0 (node :: more) sT sv false dT dv fl1).res = .ok ())
    (h2 : (pureLoop recP sfs (fieldMap sfs) sv fl2 (df :: rest) j0 dv).res = .ok ()) :
    (copyChildren opts0 (node :: more) sT sv false dT dv fl1).dst =
      (pureLoop recP sfs (fieldMap sfs) sv fl2 (df :: rest) j0 dv).dst := by
  obtain ⟨sfv, hsfv, hwsfv⟩ := wt_field sT sfs sv i sf ctx.hsfs ctx.hws hsf
  have hdfv : dv.field? j0 = some (zeroOf (fty df)) := hz j0 df (Nat.le_refl _) hdf
  have hfl1 : (fl1.field true).canSet = true := by simpa [Flags.field, Flags.canSet] using ctx.hc1
  have hfl2 : (fl2.field true).canSet = true := by simpa [Flags.field, Flags.canSet] using ctx.hc2
  have e1 := copyChildren_cons_eq opts0 node more sT sv dT dv fl1 sfs dfs sf df sfv (zeroOf (fty df))
    (opts0_ignore _) ctx.hsfs ctx.hdfs (hsi ▸ hsf) (hdi ▸ hdf) (hsi ▸ hsfv) (hdi ▸ hdfv) hes he
  rw [hdi] at e1
  have e2 : pureLoop recP sfs (fieldMap sfs) sv fl2 (df :: rest) j0 dv =
      (match (pureField recP sf sfv df (zeroOf (fty df)) (fl2.field true)).res with
        | .ok _ => pureLoop recP sfs (fieldMap sfs) sv fl2 rest (j0 + 1)
            (dv.setField j0 (pureField recP sf sfv df (zeroOf (fty df)) (fl2.field true)).dst)
        | e => ⟨dv.setField j0 (pureField recP sf sfv df (zeroOf (fty df)) (fl2.field true)).dst, e⟩) := by
    simp only [pureLoop, he, Bool.not_true, Bool.false_eq_true, if_false, fieldMap_lookup, hi, hsf, hsfv, hdfv]
    generalize (pureField recP sf sfv df (zeroOf (fty df)) (fl2.field true)).res = R
    cases R <;> rfl
  rw [e1] at h1 ⊢
  rw [e2] at h2 ⊢
  have htot1 := copyNode_total opts0 convOK_opts0 node (fty sf) sfv (fty df) (zeroOf (fty df)) (fl1.field true) hnok
    hwsfv (wt_zeroOf _) (canSet_FlOK hfl1 _ _)
  cases hr1 : (copyNode opts0 node (fty sf) sfv false (fty df) (zeroOf (fty df)) (fl1.field true)).res with
  | err e => rw [hr1] at h1; simp at h1
  | panic m => rw [hr1] at h1; simp at h1
  | ok u1 =>
    cases hr2 : (pureField recP sf sfv df (zeroOf (fty df)) (fl2.field true)).res with
    | err e => rw [hr2] at h2; simp at h2
    | panic m => rw [hr2] at h2; simp at h2
    | ok u2 =>
      rw [hr1] at h1
      rw [hr2] at h2
      simp only [] at h1 h2 ⊢
      have heq := hfield sfv (fl1.field true) (fl2.field true) hwsfv hfl1 hfl2 hr1 hr2
      rw [← heq] at h2 ⊢
      apply hrest _ _ _ h1 h2
      · exact wt_setField dT dfs dv j0 df _ ctx.hdfs hw hdf htot1.2
      · intro j df' hj hdf'
        rw [field_setField_ne _ _ _ _ (by omega)]
        exact hz j df' (by omega) hdf'

/-- the stripped bodies agree for a leaf child -/
theorem leaf_inner_agree (atomics : List Ty) (recP : Ty → Val → Ty → Val → Flags → CopyRes)
    (name : String) (si di : Nat) (sf df : Field) (sfv : Val)
    (hfs : Spec.family atomics (fty sf) = true) (hleaf : isLeafTy atomics (fty sf).stripPtr = true) :
    ∀ x ifl1 ifl2 wasPtr oFl, wt (fty sf).stripPtr x = true → ifl1.canSet = true → ifl2.canSet = true →
      (treeInner opts0 (.mk name si di true []) (fty sf) sfv (fty df) oFl (fty sf).stripPtr x (fty df).stripPtr (zeroOf (fty df).stripPtr) ifl1 wasPtr).res = .ok () →
      (pureData recP (fty sf).stripPtr x (fty df).stripPtr (zeroOf (fty df).stripPtr) ifl2 (fname sf)).res = .ok () →
      (treeInner opts0 (.mk name si di true []) (fty sf) sfv (fty df) oFl (fty sf).stripPtr x (fty df).stripPtr (zeroOf (fty df).stripPtr) ifl1 wasPtr).dst =
        rewrap wasPtr (pureData recP (fty sf).stripPtr x (fty df).stripPtr (zeroOf (fty df).stripPtr) ifl2 (fname sf)).dst := by
  intro x ifl1 ifl2 wasPtr oFl hx hc1 hc2 h1 h2
  obtain ⟨hfam', hnp⟩ := family_stripPtr atomics (fty sf) hfs
  simp only [treeInner, if_true] at h1 ⊢
  rcases family_nonptr atomics _ hfam' hnp with ⟨hsh, hns⟩ | ⟨_, hl⟩
  · exact leafData_agree atomics recP name (fname sf) (fty sf) sfv (fty df) oFl _ x _ _ ifl1 ifl2 wasPtr hfam' hnp
      hsh hns hx rfl hc1 hc2 h1 h2
  · rw [hl] at hleaf; simp at hleaf

/-- the stripped bodies agree for a struct child, given agreement one level down -/
theorem node_inner_agree (atomics : List Ty) (recB : Ty → Ty → Outcome (List Node))
    (recP : Ty → Val → Ty → Val → Flags → CopyRes) (hag : AgreeRec atomics recB recP)
    (name : String) (si di : Nat) (kids : List Node) (sf df : Field) (sfv : Val)
    (hfs : Spec.family atomics (fty sf) = true) (hfd : Spec.family atomics (fty df) = true)
    (hks : (fty sf).stripPtr.kind = .struct) (hkd : (fty df).stripPtr.kind = .struct)
    (hb : recB (fty sf).stripPtr (fty df).stripPtr = .ok kids) :
    ∀ x ifl1 ifl2 wasPtr oFl, wt (fty sf).stripPtr x = true → ifl1.canSet = true → ifl2.canSet = true →
      (treeInner opts0 (.mk name si di false kids) (fty sf) sfv (fty df) oFl (fty sf).stripPtr x (fty df).stripPtr (zeroOf (fty df).stripPtr) ifl1 wasPtr).res = .ok () →
      (pureData recP (fty sf).stripPtr x (fty df).stripPtr (zeroOf (fty df).stripPtr) ifl2 (fname sf)).res = .ok () →
      (treeInner opts0 (.mk name si di false kids) (fty sf) sfv (fty df) oFl (fty sf).stripPtr x (fty df).stripPtr (zeroOf (fty df).stripPtr) ifl1 wasPtr).dst =
        rewrap wasPtr (pureData recP (fty sf).stripPtr x (fty df).stripPtr (zeroOf (fty df).stripPtr) ifl2 (fname sf)).dst := by
  intro x ifl1 ifl2 wasPtr oFl hx hc1 hc2 h1 h2
  simp only [treeInner, Bool.false_eq_true, if_false] at h1 ⊢
  simp only [pureData, hks, hkd, beq_self_eq_true, bne_self_eq_false, Bool.false_eq_true, if_false, if_true,
    isShadowCopyType, show (Kind.struct == Kind.ptr) = false from rfl] at h2 ⊢
  rw [hag _ _ kids hks hkd (family_stripPtr atomics _ hfs).1 (family_stripPtr atomics _ hfd).1 hb x ifl1 ifl2 hx hc1 hc2 h1 h2]

/-- the two loops over a struct level agree from a destination whose remaining fields are zero -/
theorem loop_agree {atomics : List Ty} {recB : Ty → Ty → Outcome (List Node)}
    {recP : Ty → Val → Ty → Val → Flags → CopyRes} {sT dT : Ty} {sfs dfs : List Field} {sv : Val}
    {fl1 fl2 : Flags} (ctx : AgreeCtx atomics recB recP sT dT sfs dfs sv fl1 fl2) :
    ∀ (dsuf pre : List Field) (kids : List Node), dfs = pre ++ dsuf →
      buildLoop recB atomics sfs (fieldMap sfs) dsuf pre.length = .ok kids →
      ∀ dv, wt dT dv = true → ZeroFrom dfs dv pre.length →
        (copyChildren opts0 kids sT sv false dT dv fl1).res = .ok () →
        (pureLoop recP sfs (fieldMap sfs) sv fl2 dsuf pre.length dv).res = .ok () →
        (copyChildren opts0 kids sT sv false dT dv fl1).dst =
          (pureLoop recP sfs (fieldMap sfs) sv fl2 dsuf pre.length dv).dst
  | [], pre, kids, _, hb => by
      simp [buildLoop] at hb
      subst hb
      intro dv _ _ _ _
      simp [copyChildren, pureLoop]
  | df :: rest, pre, kids, hdfs, hb => by
      rw [buildLoop_cons] at hb
      have inv := planField_inv atomics sfs df
      have hdf : dfs[pre.length]? = some df := by rw [hdfs]; simp
      have ih := loop_agree ctx rest (pre ++ [df])
      simp only [List.length_append, List.length_cons, List.length_nil, Nat.zero_add, List.append_assoc,
        List.cons_append, List.nil_append] at ih
      intro dv hw hz h1 h2
      have hz' : ZeroFrom dfs dv (pre.length + 1) := fun j df' hj h => hz j df' (by omega) h
      cases hp : planField atomics sfs (fieldMap sfs) df with
      | skip =>
        rw [hp] at hb inv
        simp only [] at hb
        have e2 : pureLoop recP sfs (fieldMap sfs) sv fl2 (df :: rest) pre.length dv =
            pureLoop recP sfs (fieldMap sfs) sv fl2 rest (pre.length + 1) dv := by
          rcases inv with h | h | ⟨he, i, sf, hi, hsf, _, _, hl, hk⟩
          · simp [pureLoop, h]
          · simp only [pureLoop, fieldMap_lookup, h]
            split <;> rfl
          · exfalso
            obtain ⟨sf', hsf', hes, _⟩ := srcFieldIdx_some sfs (fname df) i hi
            rw [hsf] at hsf'
            cases hsf'
            have hfam := familyFields_get atomics sfs i sf ctx.hfamS hsf hes
            obtain ⟨hfam', hnp⟩ := family_stripPtr atomics (fty sf) hfam
            rcases family_nonptr atomics _ hfam' hnp with ⟨hsh, _⟩ | ⟨hks, _⟩
            · simp [isLeafTy, hsh] at hl
            · exact hk hks
        rw [e2] at h2 ⊢
        exact ih kids hdfs hb dv hw hz' h1 h2
      | leaf i =>
        rw [hp] at hb inv
        simp only [] at hb
        obtain ⟨hed, sf, hi, hsf, hes, hm1, hm2, hleaf⟩ := inv
        cases hb' : buildLoop recB atomics sfs (fieldMap sfs) rest (pre.length + 1) with
        | ok more =>
          rw [hb'] at hb
          simp at hb
          subst hb
          have hfs := familyFields_get atomics sfs i sf ctx.hfamS hsf hes
          refine agree_step ctx df rest pre.length _ more i sf hdf rfl rfl hed hes hi hsf (by simp [NodeOK]) ?_
            (ih more hdfs hb') dv hw hz h1 h2
          intro sfv fl1' fl2' hws hc1 hc2 hr1 hr2
          exact field_agree atomics recP _ sf df sfv fl1' fl2' hfs hws hc1 hc2
            (leaf_inner_agree atomics recP (fname df) i pre.length sf df sfv hfs hleaf) hr1 hr2
        | err e => rw [hb'] at hb; simp at hb
        | panic m => rw [hb'] at hb; simp at hb
      | node i fs fd =>
        rw [hp] at hb inv
        simp only [] at hb
        obtain ⟨hed, sf, hi, hsf, hes, hm1, hm2, hleaf, hfs', hfd', hks, hkd⟩ := inv
        cases hr : recB fs fd with
        | ok kids' =>
          rw [hr] at hb
          simp only [] at hb
          cases hb' : buildLoop recB atomics sfs (fieldMap sfs) rest (pre.length + 1) with
          | ok more =>
            rw [hb'] at hb
            simp at hb
            subst hb
            subst hfs' hfd'
            have hfs := familyFields_get atomics sfs i sf ctx.hfamS hsf hes
            have hfd := familyFields_get atomics dfs pre.length df ctx.hfamD hdf hed
            obtain ⟨sfs', dfs', h1', h2', h3'⟩ := ctx.hrecOK _ _ kids' hks hkd hr
            have hnok : NodeOK (.mk (fname df) i pre.length false kids') (fty sf) (fty df) := by
              simp only [NodeOK]
              exact Or.inr ⟨sfs', dfs', h1', h2', h3'⟩
            refine agree_step ctx df rest pre.length _ more i sf hdf rfl rfl hed hes hi hsf hnok ?_
              (ih more hdfs hb') dv hw hz h1 h2
            intro sfv fl1' fl2' hws hc1 hc2 hr1 hr2
            exact field_agree atomics recP _ sf df sfv fl1' fl2' hfs hws hc1 hc2
              (node_inner_agree atomics recB recP ctx.agree (fname df) i pre.length kids' sf df sfv hfs hfd hks hkd hr)
              hr1 hr2
          | err e => rw [hb'] at hb; simp at hb
          | panic m => rw [hb'] at hb; simp at hb
        | err e => rw [hr] at hb; simp at hb
        | panic m => rw [hr] at hb; simp at hb
      | fail e => rw [hp] at hb; simp at hb
      | panic m => rw [hp] at hb; simp at hb

/-- **agreement**: whole structs of the family, from a fresh destination -/
theorem agree_struct (atomics : List Ty) : ∀ fuel : Nat,
    AgreeRec atomics (createFieldNodes atomics fuel) (pureStruct fuel)
  | 0 => by
      intro s d kids _ _ _ _ hb
      simp [createFieldNodes] at hb
  | fuel + 1 => by
      intro s d kids hks hkd hfs hfd hb x fl fl' hx hc1 hc2 h1 h2
      obtain ⟨sfs, hsfs⟩ := fields_of_kind_struct s hks
      obtain ⟨dfs, hdfs⟩ := fields_of_kind_struct d hkd
      simp only [createFieldNodes, hsfs, hdfs] at hb
      simp only [pureStruct, hsfs, hdfs] at h2 ⊢
      have ctx : AgreeCtx atomics (createFieldNodes atomics fuel) (pureStruct fuel) s d sfs dfs x fl fl' :=
        { hsfs := hsfs, hdfs := hdfs, hfamS := family_fields atomics s sfs hfs hsfs
          hfamD := family_fields atomics d dfs hfd hdfs, hws := hx, hc1 := hc1, hc2 := hc2
          hrecOK := fun s' d' k a b c => createFieldNodes_ok atomics fuel s' d' k a b c
          agree := agree_struct atomics fuel }
      have := loop_agree ctx dfs [] kids rfl (by simpa using hb) (zeroOf d) (wt_zeroOf d)
        (fun j df _ h => zeroOf_field d dfs j df hdfs h)
      simpa using this h1 h2

end Ekit.Copier
