/-
`fixAfterDelete` never makes its (leaf, non-root) argument the root: the argument stays a leaf, because the only
pointer surgery in `fixAfterDelete`/`fixAfterDeleteLeft`/`fixAfterDeleteRight` are rotations at the cursor's parent
and at the cursor's sibling, none of which touches the sub-tree below the cursor.
-/
import Ekit.Lemmas.RBPtrSafe
import Ekit.Lemmas.RBPtrRotate
import Ekit.Lemmas.RBPtrPure
namespace Ekit.MiniGo.RBHeap.Fix
open Ekit.MiniGo Ekit.Gen.RBTreeGo Ekit.MiniGo.RBHeap

/-! ### (1) exact specifications of the getters under the real handler -/

/-- the pointer field `g` of the node `a` points to (nil for nil) -/
def fldOf (st : St) (a : Option Nat) (g : Fld) : Option Nat :=
  match a with
  | none => none
  | some n => Rot.getP (st.h n) g

section getters
variable (cmpF : Int → Int → Int)

theorem call_getParent {f : Nat} {a : Option Nat} {st st' : St} {v : Val}
    (h : call cmpF procs f .getParent [.ptr a] st = .ok (v, st')) :
    st' = st ∧ v = .ptr (fldOf st a .parent) := by
  cases f with
  | zero => simp [call] at h
  | succ f =>
    cases a with
    | none =>
      simp [call, runBody, procs, body_getParent, exec, evalE, Env.ofArgs, valEq] at h
      simp [fldOf, h]
    | some n =>
      simp [call, runBody, procs, body_getParent, exec, evalE, Env.ofArgs, valEq, Node.get] at h
      obtain ⟨rfl, rfl⟩ := h
      simp [fldOf, Rot.getP]

theorem call_getLeft {f : Nat} {a : Option Nat} {st st' : St} {v : Val}
    (h : call cmpF procs f .getLeft [.ptr a] st = .ok (v, st')) :
    st' = st ∧ v = .ptr (fldOf st a .left) := by
  cases f with
  | zero => simp [call] at h
  | succ f =>
    cases a with
    | none =>
      simp [call, runBody, procs, body_getLeft, exec, evalE, Env.ofArgs, valEq] at h
      simp [fldOf, h]
    | some n =>
      simp [call, runBody, procs, body_getLeft, exec, evalE, Env.ofArgs, valEq, Node.get] at h
      obtain ⟨rfl, rfl⟩ := h
      simp [fldOf, Rot.getP]

theorem call_getRight {f : Nat} {a : Option Nat} {st st' : St} {v : Val}
    (h : call cmpF procs f .getRight [.ptr a] st = .ok (v, st')) :
    st' = st ∧ v = .ptr (fldOf st a .right) := by
  cases f with
  | zero => simp [call] at h
  | succ f =>
    cases a with
    | none =>
      simp [call, runBody, procs, body_getRight, exec, evalE, Env.ofArgs, valEq] at h
      simp [fldOf, h]
    | some n =>
      simp [call, runBody, procs, body_getRight, exec, evalE, Env.ofArgs, valEq, Node.get] at h
      obtain ⟨rfl, rfl⟩ := h
      simp [fldOf, Rot.getP]

end getters

/-! ### a small Hoare logic over `exec` -/

section hoare
variable (cmpF : Int → Int → Int) (callH : CallH PName) (lf : Nat)

def HT (P : Env → St → Prop) (s : Stmt PName) (Q : Flow → Env → St → Prop) : Prop :=
  ∀ ρ st fl ρ' st', P ρ st → exec cmpF callH lf ρ st s = .ok (fl, ρ', st') → Q fl ρ' st'

/-- postcondition of a statement that completes normally -/
def Nrm (Q : Env → St → Prop) : Flow → Env → St → Prop := fun fl ρ st => fl = .normal ∧ Q ρ st

variable {cmpF callH lf}

theorem HT.mono {P P' : Env → St → Prop} {Q Q' : Flow → Env → St → Prop} {s : Stmt PName}
    (h : HT cmpF callH lf P' s Q') (hp : ∀ ρ st, P ρ st → P' ρ st) (hq : ∀ fl ρ st, Q' fl ρ st → Q fl ρ st) :
    HT cmpF callH lf P s Q :=
  fun ρ st fl ρ' st' hP he => hq _ _ _ (h ρ st fl ρ' st' (hp _ _ hP) he)

theorem HT.pre {P P' : Env → St → Prop} {Q : Flow → Env → St → Prop} {s : Stmt PName}
    (h : HT cmpF callH lf P' s Q) (hp : ∀ ρ st, P ρ st → P' ρ st) : HT cmpF callH lf P s Q :=
  h.mono hp (fun _ _ _ x => x)

theorem HT.seq {P M : Env → St → Prop} {Q : Flow → Env → St → Prop} {a b : Stmt PName}
    (ha : HT cmpF callH lf P a (Nrm M)) (hb : HT cmpF callH lf M b Q) : HT cmpF callH lf P (.seq a b) Q := by
  intro ρ st fl ρ' st' hP h
  simp only [exec] at h
  cases h1 : exec cmpF callH lf ρ st a with
  | error e => simp [h1] at h
  | ok r =>
    obtain ⟨fl1, ρ1, st1⟩ := r
    obtain ⟨rfl, hM⟩ := ha _ _ _ _ _ hP h1
    rw [h1] at h
    exact hb _ _ _ _ _ hM h

/-- sequencing when the first statement may also leave the block (early `return`) -/
theorem HT.seqG {P M : Env → St → Prop} {Q : Flow → Env → St → Prop} {a b : Stmt PName}
    (ha : HT cmpF callH lf P a (fun fl ρ st => (fl = .normal ∧ M ρ st) ∨ (fl ≠ .normal ∧ Q fl ρ st)))
    (hb : HT cmpF callH lf M b Q) : HT cmpF callH lf P (.seq a b) Q := by
  intro ρ st fl ρ' st' hP h
  simp only [exec] at h
  cases h1 : exec cmpF callH lf ρ st a with
  | error e => simp [h1] at h
  | ok r =>
    obtain ⟨fl1, ρ1, st1⟩ := r
    rw [h1] at h
    rcases ha _ _ _ _ _ hP h1 with ⟨rfl, hM⟩ | ⟨hne, hQ⟩
    · exact hb _ _ _ _ _ hM h
    · cases fl1 with
      | normal => exact absurd rfl hne
      | cont => simp at h; obtain ⟨rfl, rfl, rfl⟩ := h; exact hQ
      | brk => simp at h; obtain ⟨rfl, rfl, rfl⟩ := h; exact hQ
      | ret w => simp at h; obtain ⟨rfl, rfl, rfl⟩ := h; exact hQ

theorem HT.ite' {P Pt Pe : Env → St → Prop} {Q : Flow → Env → St → Prop} {c : Expr PName} {t e : Stmt PName}
    (hc : ∀ ρ st v st', P ρ st → evalE cmpF callH ρ st c = .ok (v, st') →
      (v = .bool true → Pt ρ st') ∧ (v = .bool false → Pe ρ st'))
    (ht : HT cmpF callH lf Pt t Q) (he : HT cmpF callH lf Pe e Q) : HT cmpF callH lf P (.ite c t e) Q := by
  intro ρ st fl ρ' st' hP h
  simp only [exec] at h
  cases h1 : evalE cmpF callH ρ st c with
  | error e => simp [h1] at h
  | ok r =>
    obtain ⟨v, st1⟩ := r
    have hP' := hc _ _ _ _ hP h1
    rw [h1] at h
    cases v with
    | bool b =>
      cases b with
      | true => exact ht _ _ _ _ _ (hP'.1 rfl) h
      | false => exact he _ _ _ _ _ (hP'.2 rfl) h
    | _ => simp at h

theorem HT.ite {P P' : Env → St → Prop} {Q : Flow → Env → St → Prop} {c : Expr PName} {t e : Stmt PName}
    (hc : ∀ ρ st v st', P ρ st → evalE cmpF callH ρ st c = .ok (v, st') → P' ρ st')
    (ht : HT cmpF callH lf P' t Q) (he : HT cmpF callH lf P' e Q) : HT cmpF callH lf P (.ite c t e) Q :=
  HT.ite' (fun ρ st v st' hP h => ⟨fun _ => hc ρ st v st' hP h, fun _ => hc ρ st v st' hP h⟩) ht he

theorem HT.ret {P : Env → St → Prop} {Q : Flow → Env → St → Prop} {e : Expr PName}
    (hc : ∀ ρ st v st', P ρ st → evalE cmpF callH ρ st e = .ok (v, st') → Q (.ret v) ρ st') :
    HT cmpF callH lf P (.ret e) Q := by
  intro ρ st fl ρ' st' hP h
  simp only [exec] at h
  cases h1 : evalE cmpF callH ρ st e with
  | error e => simp [h1] at h
  | ok r =>
    obtain ⟨v, st1⟩ := r
    rw [h1] at h
    simp at h
    obtain ⟨rfl, rfl, rfl⟩ := h
    exact hc _ _ _ _ hP h1

theorem HT.expr {P Q : Env → St → Prop} {e : Expr PName}
    (hc : ∀ ρ st v st', P ρ st → evalE cmpF callH ρ st e = .ok (v, st') → Q ρ st') :
    HT cmpF callH lf P (.expr e) (Nrm Q) := by
  intro ρ st fl ρ' st' hP h
  simp only [exec] at h
  cases h1 : evalE cmpF callH ρ st e with
  | error e => simp [h1] at h
  | ok r =>
    obtain ⟨v, st1⟩ := r
    rw [h1] at h
    simp at h
    obtain ⟨rfl, rfl, rfl⟩ := h
    exact ⟨rfl, hc _ _ _ _ hP h1⟩

theorem HT.assign {P Q : Env → St → Prop} {x : Nat} {e : Expr PName}
    (hc : ∀ ρ st v st', P ρ st → evalE cmpF callH ρ st e = .ok (v, st') → Q (ρ.set x v) st') :
    HT cmpF callH lf P (.assign x e) (Nrm Q) := by
  intro ρ st fl ρ' st' hP h
  simp only [exec] at h
  cases h1 : evalE cmpF callH ρ st e with
  | error e => simp [h1] at h
  | ok r =>
    obtain ⟨v, st1⟩ := r
    rw [h1] at h
    simp at h
    obtain ⟨rfl, rfl, rfl⟩ := h
    exact ⟨rfl, hc _ _ _ _ hP h1⟩

theorem HT.skip {P : Env → St → Prop} : HT cmpF callH lf P .skip (Nrm P) := by
  intro ρ st fl ρ' st' hP h
  simp [exec] at h
  obtain ⟨rfl, rfl, rfl⟩ := h
  exact ⟨rfl, hP⟩

theorem HT.retVar {P : Env → St → Prop} {k : Nat} :
    HT cmpF callH lf P (.ret (.var k)) (fun fl ρ st => fl = .ret (ρ k) ∧ P ρ st) := by
  intro ρ st fl ρ' st' hP h
  simp [exec, evalE] at h
  obtain ⟨rfl, rfl, rfl⟩ := h
  exact ⟨rfl, hP⟩

/-- inversion of a unary call -/
theorem eval_call1 {ρ : Env} {st : St} {fn : PName} {a : Expr PName} {r : Val × St}
    (h : evalE cmpF callH ρ st (.call1 fn a) = .ok r) :
    ∃ x st1, evalE cmpF callH ρ st a = .ok (x, st1) ∧ callH fn [x] st1 = .ok r := by
  simp only [evalE] at h
  cases h1 : evalE cmpF callH ρ st a with
  | error e => simp [h1] at h
  | ok r1 =>
    obtain ⟨x, st1⟩ := r1
    rw [h1] at h
    exact ⟨x, st1, rfl, h⟩

/-- inversion of `==` -/
theorem eval_eq {ρ : Env} {st st' : St} {a b : Expr PName} {v : Val}
    (h : evalE cmpF callH ρ st (.eq a b) = .ok (v, st')) :
    ∃ x st1 y r, evalE cmpF callH ρ st a = .ok (x, st1) ∧ evalE cmpF callH ρ st1 b = .ok (y, st') ∧
      valEq x y = some r ∧ v = .bool r := by
  simp only [evalE] at h
  cases h1 : evalE cmpF callH ρ st a with
  | error e => simp [h1] at h
  | ok r1 =>
    obtain ⟨x, st1⟩ := r1
    rw [h1] at h
    simp only at h
    cases h2 : evalE cmpF callH ρ st1 b with
    | error e => simp [h2] at h
    | ok r2 =>
      obtain ⟨y, st2⟩ := r2
      rw [h2] at h
      simp only at h
      cases hv : valEq x y with
      | none => simp [hv] at h
      | some r =>
        simp [hv] at h
        obtain ⟨rfl, rfl⟩ := h
        exact ⟨x, st1, y, r, rfl, h2, hv, rfl⟩

end hoare

/-! ### (2) heap level: the sub-tree below the cursor is untouched by the rotations of the fix-up -/

/-- the shape read off a heap from a pointer is unique -/
theorem repr_det {h : Nat → Node} : ∀ {s s' : PT} {q par par' : Option Nat},
    Repr h q par s → Repr h q par' s' → s = s' := by
  intro s
  induction s with
  | leaf =>
    intro s' q par par' h1 h2
    cases s' with
    | leaf => rfl
    | node l a r => simp only [Repr] at h1 h2; rw [h1] at h2; cases h2.1
  | node l a r ihl ihr =>
    intro s' q par par' h1 h2
    cases s' with
    | leaf => simp only [Repr] at h1 h2; rw [h2] at h1; cases h1.1
    | node l' a' r' =>
      simp only [Repr] at h1 h2
      obtain ⟨e1, _, hl, hr⟩ := h1
      obtain ⟨e2, _, hl', hr'⟩ := h2
      rw [e1] at e2; cases e2
      rw [ihl hl hl', ihr hr hr']

theorem repr_root_mem {h : Nat → Node} {r : Nat} {par : Option Nat} {O : PT} (hO : Repr h (some r) par O) :
    r ∈ O.addrs :=
  ptr_mem_addrs (repr_ptr hO).symm

theorem repr_root_parent {h : Nat → Node} {r : Nat} {par : Option Nat} {O : PT} (hO : Repr h (some r) par O) :
    (h r).parent = par := by
  cases O with
  | leaf => simp [Repr] at hO
  | node l a r' => simp only [Repr] at hO; obtain ⟨e, hp, _⟩ := hO; cases e; exact hp

theorem holds_ptrSame {st st' : St} {t : PT} (hS : PtrSame st st') (h : Holds st t) : Holds st' t :=
  ⟨by rw [hS.2.1]; exact repr_congr (fun a _ => hS.1 a) h.1, h.2.1, fun a ha => by rw [hS.2.2]; exact h.2.2 a ha⟩

def Leaf (st : St) (x : Nat) : Prop := (st.h x).left = none ∧ (st.h x).right = none

/-- the configuration inside `fixAfterDeleteLeft` (`sd = left`) / `fixAfterDeleteRight` (`sd = right`): the cursor `c`
    is the `sd`-child of `p`, the sub-tree at `c` is `S`, and `x` is a leaf in it -/
structure J (sd : Fld) (x c p : Nat) (S : PT) (st : St) : Prop where
  holds : ∃ t, Holds st t ∧ p ∈ t.addrs
  side : Rot.getP (st.h p) sd = some c
  repr : Repr st.h (some c) (some p) S
  mem : x ∈ S.addrs
  leaf : Leaf st x

/-- `x` is a leaf at or below the cursor `c` -/
def Inv (x : Nat) (st : St) (c : Nat) : Prop :=
  ∃ t s par, Holds st t ∧ c ∈ t.addrs ∧ Repr st.h (some c) par s ∧ x ∈ s.addrs ∧ Leaf st x

section heap
variable {sd : Fld} {x c p : Nat} {S : PT} {st st' : St}

theorem J.frame (hJ : J sd x c p S st) (hH : ∃ t, Holds st' t ∧ p ∈ t.addrs)
    (hs : ∀ y ∈ S.addrs, SamePtrs (st'.h y) (st.h y))
    (hp : Rot.getP (st'.h p) sd = Rot.getP (st.h p) sd) : J sd x c p S st' :=
  ⟨hH, hp.trans hJ.side, repr_congr hs hJ.repr, hJ.mem,
    ⟨(hs x hJ.mem).1.trans hJ.leaf.1, (hs x hJ.mem).2.1.trans hJ.leaf.2⟩⟩

theorem J.ptrSame (hJ : J sd x c p S st) (hS : PtrSame st st') : J sd x c p S st' := by
  obtain ⟨t, hH, hp⟩ := hJ.holds
  refine hJ.frame ⟨t, holds_ptrSame hS hH, hp⟩ (fun y _ => hS.1 y) ?_
  obtain ⟨h1, h2, h3⟩ := hS.1 p
  cases sd <;> simp [Rot.getP, h1, h2, h3]

theorem J.structL (hJ : J .left x c p S st) : ∃ O, Repr st.h (st.h p).right (some p) O ∧
    ∀ y ∈ S.addrs, y ∉ O.addrs ∧ y ≠ p ∧ (st.h p).parent ≠ some y := by
  obtain ⟨t, hH, hp⟩ := hJ.holds
  obtain ⟨A, R, hs, hnds, hsub, hA, hRr, hpar, hdich⟩ := Rot.rot_setup hH.1 hH.2.1 hp
  have hside : (st.h p).left = some c := hJ.side
  rw [hside] at hA
  have := repr_det hA hJ.repr; subst this
  refine ⟨R, hRr, fun y hy => ?_⟩
  simp only [PT.addrs] at hnds hdich
  rw [List.nodup_append] at hnds
  obtain ⟨_, _, hdisj⟩ := hnds
  refine ⟨fun hyR => hdisj y hy y (by simp [hyR]) rfl, fun e => hdisj y hy p (by simp) e, ?_⟩
  rcases hdich with ⟨_, e⟩ | ⟨_, pp, e, _, e3, _⟩
  · rw [e]; simp
  · rw [e]; intro e'; cases e'; exact e3 (by simp [hy])

theorem J.structR (hJ : J .right x c p S st) : ∃ O, Repr st.h (st.h p).left (some p) O ∧
    ∀ y ∈ S.addrs, y ∉ O.addrs ∧ y ≠ p ∧ (st.h p).parent ≠ some y := by
  obtain ⟨t, hH, hp⟩ := hJ.holds
  obtain ⟨A, R, hs, hnds, hsub, hA, hRr, hpar, hdich⟩ := Rot.rot_setup hH.1 hH.2.1 hp
  have hside : (st.h p).right = some c := hJ.side
  rw [hside] at hRr
  have := repr_det hRr hJ.repr; subst this
  refine ⟨A, hA, fun y hy => ?_⟩
  simp only [PT.addrs] at hnds hdich
  rw [List.nodup_append] at hnds
  obtain ⟨_, h2, hdisj⟩ := hnds
  rw [List.nodup_cons] at h2
  refine ⟨fun hyA => hdisj y hyA y (by simp [hy]) rfl, fun e => h2.1 (e ▸ hy), ?_⟩
  rcases hdich with ⟨_, e⟩ | ⟨_, pp, e, _, e3, _⟩
  · rw [e]; simp
  · rw [e]; intro e'; cases e'; exact e3 (by simp [hy])

/-- `rotateLeft(p)` inside `fixAfterDeleteLeft` -/
theorem frameL_rotL {h' : Nat → Node} {r : Nat} (hJ : J .left x c p S st) (hr : (st.h p).right = some r)
    (H : Rot.RotL st.h h' p r) : (∀ y ∈ S.addrs, h' y = st.h y) ∧ (h' p).left = (st.h p).left := by
  obtain ⟨O, hO, hd⟩ := hJ.structL
  rw [hr] at hO
  have hrO := repr_root_mem hO
  have hf := repr_fields hO r hrO
  refine ⟨fun y hy => H.other y (hd y hy).2.1 ?_ ?_ (hd y hy).2.2, H.n_left⟩
  · rintro rfl; exact (hd _ hy).1 hrO
  · intro e; exact (hd y hy).1 (hf.1 y e)

/-- `rotateRight(sib)` inside `fixAfterDeleteLeft` -/
theorem frameL_rotR {h' : Nat → Node} {sib l : Nat} (hJ : J .left x c p S st) (hs : (st.h p).right = some sib)
    (hl : (st.h sib).left = some l) (H : Rot.RotR st.h h' sib l) :
    (∀ y ∈ S.addrs, h' y = st.h y) ∧ (h' p).left = (st.h p).left := by
  obtain ⟨O, hO, hd⟩ := hJ.structL
  rw [hs] at hO
  have hsO := repr_root_mem hO
  have hlO := (repr_fields hO sib hsO).1 l hl
  have hpar : (st.h sib).parent = some p := repr_root_parent hO
  refine ⟨fun y hy => H.other y ?_ ?_ ?_ ?_, ?_⟩
  · rintro rfl; exact (hd _ hy).1 hsO
  · rintro rfl; exact (hd _ hy).1 hlO
  · intro e; exact (hd y hy).1 ((repr_fields hO l hlO).2.1 y e)
  · rw [hpar]; intro e; cases e; exact (hd _ hy).2.1 rfl
  · have h1 := (H.p p hpar).2.1
    have hside : (st.h p).left = some c := hJ.side
    have hc : c ∈ S.addrs := repr_root_mem hJ.repr
    rw [h1, if_neg]
    rw [hside]; intro e; cases e; exact (hd _ hc).1 hsO

/-- `rotateRight(p)` inside `fixAfterDeleteRight` -/
theorem frameR_rotR {h' : Nat → Node} {l : Nat} (hJ : J .right x c p S st) (hl : (st.h p).left = some l)
    (H : Rot.RotR st.h h' p l) : (∀ y ∈ S.addrs, h' y = st.h y) ∧ (h' p).right = (st.h p).right := by
  obtain ⟨O, hO, hd⟩ := hJ.structR
  rw [hl] at hO
  have hlO := repr_root_mem hO
  have hf := repr_fields hO l hlO
  refine ⟨fun y hy => H.other y (hd y hy).2.1 ?_ ?_ (hd y hy).2.2, H.n_right⟩
  · rintro rfl; exact (hd _ hy).1 hlO
  · intro e; exact (hd y hy).1 (hf.2.1 y e)

/-- `rotateLeft(sib)` inside `fixAfterDeleteRight` -/
theorem frameR_rotL {h' : Nat → Node} {sib r : Nat} (hJ : J .right x c p S st) (hs : (st.h p).left = some sib)
    (hr : (st.h sib).right = some r) (H : Rot.RotL st.h h' sib r) :
    (∀ y ∈ S.addrs, h' y = st.h y) ∧ (h' p).right = (st.h p).right := by
  obtain ⟨O, hO, hd⟩ := hJ.structR
  rw [hs] at hO
  have hsO := repr_root_mem hO
  have hrO := (repr_fields hO sib hsO).2.1 r hr
  have hpar : (st.h sib).parent = some p := repr_root_parent hO
  refine ⟨fun y hy => H.other y ?_ ?_ ?_ ?_, ?_⟩
  · rintro rfl; exact (hd _ hy).1 hsO
  · rintro rfl; exact (hd _ hy).1 hrO
  · intro e; exact (hd y hy).1 ((repr_fields hO r hrO).1 y e)
  · rw [hpar]; intro e; cases e; exact (hd _ hy).2.1 rfl
  · have h1 := (H.p p hpar).2.2
    have hside : (st.h p).right = some c := hJ.side
    have hc : c ∈ S.addrs := repr_root_mem hJ.repr
    rw [h1, if_neg]
    rw [hside]; intro e; cases e; exact (hd _ hc).1 hsO

/-- `x` is below the cursor's parent too -/
theorem J.up (hsd : sd = .left ∨ sd = .right) (hJ : J sd x c p S st) :
    ∃ t s par, Holds st t ∧ p ∈ t.addrs ∧ Repr st.h (some p) par s ∧ x ∈ s.addrs ∧ x ∈ t.addrs := by
  obtain ⟨t, hH, hp⟩ := hJ.holds
  obtain ⟨A, R, hs, hnds, hsub, hA, hRr, hpar, hdich⟩ := Rot.rot_setup hH.1 hH.2.1 hp
  have hx : x ∈ (PT.node A p R).addrs := by
    rcases hsd with rfl | rfl
    · have hside : (st.h p).left = some c := hJ.side
      rw [hside] at hA
      have := repr_det hA hJ.repr; subst this
      simp [PT.addrs, hJ.mem]
    · have hside : (st.h p).right = some c := hJ.side
      rw [hside] at hRr
      have := repr_det hRr hJ.repr; subst this
      simp [PT.addrs, hJ.mem]
  exact ⟨t, _, _, hH, hp, repr_sub hH.1 hs, hx, hsub x hx⟩

theorem J.inv_parent (hsd : sd = .left ∨ sd = .right) (hJ : J sd x c p S st) : Inv x st p := by
  obtain ⟨t, s, par, hH, hp, hR, hx, _⟩ := hJ.up hsd
  exact ⟨t, s, par, hH, hp, hR, hx, hJ.leaf⟩

theorem J.inv_root (hsd : sd = .left ∨ sd = .right) (hJ : J sd x c p S st) :
    ∃ c', st.root = some c' ∧ Inv x st c' := by
  obtain ⟨t, s, par, hH, hp, hR, _, hx⟩ := hJ.up hsd
  cases t with
  | leaf => simp [PT.addrs] at hp
  | node l a r =>
    have h1 := hH.1
    have e : st.root = some a := by simp only [Repr] at h1; exact h1.1
    rw [e] at h1
    exact ⟨a, e, _, _, _, hH, by simp [PT.addrs], h1, hx, hJ.leaf⟩

end heap

/-! ### the rotations under the real handler -/

section calls
variable (cmpF : Int → Int → Int) (hK : ∀ fuel fn, isK fn = true → SpecK (call cmpF procs fuel) fn)
include hK

theorem rotL_call {f : Nat} {a : Option Nat} {st st' : St} {v : Val} {t : PT} (hH : Holds st t)
    (ha : ∀ n, a = some n → n ∈ t.addrs)
    (h : call cmpF procs f .rotateLeft [.ptr a] st = .ok (v, st')) :
    (∃ t', Holds st' t' ∧ t'.addrs = t.addrs) ∧
    (PtrSame st st' ∨ ∃ n r st1, a = some n ∧ PtrSame st st1 ∧ (st1.h n).right = some r ∧
      Rot.RotL st1.h st'.h n r) := by
  constructor
  · obtain ⟨t', hH', hP, _⟩ := hK f .rotateLeft rfl _ _ _ _ t hH (by
      intro y hy; simp at hy; subst hy
      cases a with
      | none => trivial
      | some n => exact ha n rfl) h
    exact ⟨t', hH', hP.addrs⟩
  · cases f with
    | zero => simp [call] at h
    | succ f =>
      have h' : runBody cmpF (call cmpF procs f) f ⟨1, Rot.rotBody .right .left .getRight⟩ [.ptr a] st
          = .ok (v, st') := h
      obtain ⟨_, hc⟩ := Rot.run_rotBody cmpF _ f (.inl ⟨rfl, rfl⟩) _ h'
      rcases hc with rfl | ⟨v1, st1, hcall, hc⟩
      · left; exact .refl _
      · have hS1 : PtrSame st st1 := call_pure cmpF f .getRight rfl _ _ _ _ hcall
        rcases hc with rfl | ⟨n, r, hv, hr, rfl⟩
        · left; exact hS1
        · right
          have e : a = some n := by simpa [Env.ofArgs] using hv
          have hH1 := holds_ptrSame hS1 hH
          have hr' : (st1.h n).right = some r := by simpa [Rot.getP] using hr
          obtain ⟨H, _⟩ := Rot.rotL_explicit st1 hH1.1 hH1.2.1 (ha n e) hr'
          exact ⟨n, r, st1, e, hS1, hr', H⟩

theorem rotR_call {f : Nat} {a : Option Nat} {st st' : St} {v : Val} {t : PT} (hH : Holds st t)
    (ha : ∀ n, a = some n → n ∈ t.addrs)
    (h : call cmpF procs f .rotateRight [.ptr a] st = .ok (v, st')) :
    (∃ t', Holds st' t' ∧ t'.addrs = t.addrs) ∧
    (PtrSame st st' ∨ ∃ n l st1, a = some n ∧ PtrSame st st1 ∧ (st1.h n).left = some l ∧
      Rot.RotR st1.h st'.h n l) := by
  constructor
  · obtain ⟨t', hH', hP, _⟩ := hK f .rotateRight rfl _ _ _ _ t hH (by
      intro y hy; simp at hy; subst hy
      cases a with
      | none => trivial
      | some n => exact ha n rfl) h
    exact ⟨t', hH', hP.addrs⟩
  · cases f with
    | zero => simp [call] at h
    | succ f =>
      have h' : runBody cmpF (call cmpF procs f) f ⟨1, Rot.rotBody .left .right .getLeft⟩ [.ptr a] st
          = .ok (v, st') := h
      obtain ⟨_, hc⟩ := Rot.run_rotBody cmpF _ f (.inr ⟨rfl, rfl⟩) _ h'
      rcases hc with rfl | ⟨v1, st1, hcall, hc⟩
      · left; exact .refl _
      · have hS1 : PtrSame st st1 := call_pure cmpF f .getLeft rfl _ _ _ _ hcall
        rcases hc with rfl | ⟨n, r, hv, hr, rfl⟩
        · left; exact hS1
        · right
          have e : a = some n := by simpa [Env.ofArgs] using hv
          have hH1 := holds_ptrSame hS1 hH
          have hr' : (st1.h n).left = some r := by simpa [Rot.getP] using hr
          obtain ⟨H, _⟩ := Rot.rotR_explicit st1 hH1.1 hH1.2.1 (ha n e) hr'
          exact ⟨n, r, st1, e, hS1, hr', H⟩

variable {x c p : Nat} {S : PT} {st st' : St} {f : Nat} {v : Val}

theorem J.rotL_p (hJ : J .left x c p S st)
    (h : call cmpF procs f .rotateLeft [.ptr (some p)] st = .ok (v, st')) : J .left x c p S st' := by
  obtain ⟨t, hH, hp⟩ := hJ.holds
  obtain ⟨⟨t', hH', ha⟩, hc⟩ := rotL_call cmpF hK hH (by intro n e; cases e; exact hp) h
  have hH'' : ∃ t, Holds st' t ∧ p ∈ t.addrs := ⟨t', hH', ha ▸ hp⟩
  rcases hc with hS | ⟨n, r, st1, e, hS, hr, H⟩
  · exact hJ.ptrSame hS
  · cases e
    have hJ1 := hJ.ptrSame hS
    obtain ⟨h1, h2⟩ := frameL_rotL hJ1 hr H
    exact hJ1.frame hH'' (fun y hy => by rw [h1 y hy]; exact ⟨rfl, rfl, rfl⟩) (by simpa [Rot.getP] using h2)

theorem J.rotR_sibL (hJ : J .left x c p S st)
    (h : call cmpF procs f .rotateRight [.ptr (st.h p).right] st = .ok (v, st')) : J .left x c p S st' := by
  obtain ⟨t, hH, hp⟩ := hJ.holds
  obtain ⟨⟨t', hH', ha⟩, hc⟩ := rotR_call cmpF hK hH (fun n e => (repr_fields hH.1 p hp).2.1 n e) h
  have hH'' : ∃ t, Holds st' t ∧ p ∈ t.addrs := ⟨t', hH', ha ▸ hp⟩
  rcases hc with hS | ⟨n, l, st1, e, hS, hl, H⟩
  · exact hJ.ptrSame hS
  · have hJ1 := hJ.ptrSame hS
    have hs : (st1.h p).right = some n := by rw [(hS.1 p).2.1]; exact e
    obtain ⟨h1, h2⟩ := frameL_rotR hJ1 hs hl H
    exact hJ1.frame hH'' (fun y hy => by rw [h1 y hy]; exact ⟨rfl, rfl, rfl⟩) (by simpa [Rot.getP] using h2)

theorem J.rotR_p (hJ : J .right x c p S st)
    (h : call cmpF procs f .rotateRight [.ptr (some p)] st = .ok (v, st')) : J .right x c p S st' := by
  obtain ⟨t, hH, hp⟩ := hJ.holds
  obtain ⟨⟨t', hH', ha⟩, hc⟩ := rotR_call cmpF hK hH (by intro n e; cases e; exact hp) h
  have hH'' : ∃ t, Holds st' t ∧ p ∈ t.addrs := ⟨t', hH', ha ▸ hp⟩
  rcases hc with hS | ⟨n, r, st1, e, hS, hr, H⟩
  · exact hJ.ptrSame hS
  · cases e
    have hJ1 := hJ.ptrSame hS
    obtain ⟨h1, h2⟩ := frameR_rotR hJ1 hr H
    exact hJ1.frame hH'' (fun y hy => by rw [h1 y hy]; exact ⟨rfl, rfl, rfl⟩) (by simpa [Rot.getP] using h2)

theorem J.rotL_sibR (hJ : J .right x c p S st)
    (h : call cmpF procs f .rotateLeft [.ptr (st.h p).left] st = .ok (v, st')) : J .right x c p S st' := by
  obtain ⟨t, hH, hp⟩ := hJ.holds
  obtain ⟨⟨t', hH', ha⟩, hc⟩ := rotL_call cmpF hK hH (fun n e => (repr_fields hH.1 p hp).1 n e) h
  have hH'' : ∃ t, Holds st' t ∧ p ∈ t.addrs := ⟨t', hH', ha ▸ hp⟩
  rcases hc with hS | ⟨n, l, st1, e, hS, hl, H⟩
  · exact hJ.ptrSame hS
  · have hJ1 := hJ.ptrSame hS
    have hs : (st1.h p).left = some n := by rw [(hS.1 p).1]; exact e
    obtain ⟨h1, h2⟩ := frameR_rotL hJ1 hs hl H
    exact hJ1.frame hH'' (fun y hy => by rw [h1 y hy]; exact ⟨rfl, rfl, rfl⟩) (by simpa [Rot.getP] using h2)

end calls

/-! ### (3) symbolic execution of `fixAfterDeleteLeft` / `fixAfterDeleteRight` -/

section real
variable (cmpF : Int → Int → Int) (f lf : Nat)

/-- the expression evaluates (if at all) to the pointer `a`, without changing the state -/
def EvalsTo (ρ : Env) (st : St) (e : Expr PName) (a : Option Nat) : Prop :=
  ∀ v st1, evalE cmpF (call cmpF procs f) ρ st e = .ok (v, st1) → st1 = st ∧ v = .ptr a

variable {cmpF f lf}

theorem evalsTo_var {ρ : Env} {st : St} {k : Nat} {a : Option Nat} (h : ρ k = .ptr a) :
    EvalsTo cmpF f ρ st (.var k) a := by
  intro v st1 he
  simp [evalE] at he
  obtain ⟨rfl, rfl⟩ := he
  exact ⟨rfl, h⟩

theorem evalsTo_getParent {ρ : Env} {st : St} {e : Expr PName} {a : Option Nat}
    (h : EvalsTo cmpF f ρ st e a) : EvalsTo cmpF f ρ st (.call1 .getParent e) (fldOf st a .parent) := by
  intro v st1 he
  obtain ⟨x, st2, h1, h2⟩ := eval_call1 he
  obtain ⟨rfl, rfl⟩ := h _ _ h1
  exact call_getParent cmpF h2

theorem evalsTo_getLeft {ρ : Env} {st : St} {e : Expr PName} {a : Option Nat}
    (h : EvalsTo cmpF f ρ st e a) : EvalsTo cmpF f ρ st (.call1 .getLeft e) (fldOf st a .left) := by
  intro v st1 he
  obtain ⟨x, st2, h1, h2⟩ := eval_call1 he
  obtain ⟨rfl, rfl⟩ := h _ _ h1
  exact call_getLeft cmpF h2

theorem evalsTo_getRight {ρ : Env} {st : St} {e : Expr PName} {a : Option Nat}
    (h : EvalsTo cmpF f ρ st e a) : EvalsTo cmpF f ρ st (.call1 .getRight e) (fldOf st a .right) := by
  intro v st1 he
  obtain ⟨x, st2, h1, h2⟩ := eval_call1 he
  obtain ⟨rfl, rfl⟩ := h _ _ h1
  exact call_getRight cmpF h2

def Stable (P : Env → St → Prop) : Prop := ∀ ρ st st', P ρ st → PtrSame st st' → P ρ st'

theorem HT.pureExpr {P : Env → St → Prop} (hs : Stable P) {e : Expr PName} (he : pureE e = true) :
    HT cmpF (call cmpF procs f) lf P (.expr e) (Nrm P) :=
  HT.expr (fun ρ st v st' hP h => hs _ _ _ hP (evalE_pure cmpF _ (call_pure cmpF f) e he ρ st v st' h))

theorem HT.pureIte {P : Env → St → Prop} {Q : Flow → Env → St → Prop} {c : Expr PName} {t e : Stmt PName}
    (hs : Stable P) (hc : pureE c = true) (ht : HT cmpF (call cmpF procs f) lf P t Q)
    (he : HT cmpF (call cmpF procs f) lf P e Q) : HT cmpF (call cmpF procs f) lf P (.ite c t e) Q :=
  HT.ite (fun ρ st v st' hP h => hs _ _ _ hP (evalE_pure cmpF _ (call_pure cmpF f) c hc ρ st v st' h)) ht he

/-- `getBrother` of a node with a parent -/
theorem body_getBrother_spec {c p : Nat} {st : St} (hp : (st.h c).parent = some p) :
    HT cmpF (call cmpF procs f) lf (fun ρ s => ρ 0 = .ptr (some c) ∧ st = s) body_getBrother
      (fun fl _ s => st = s ∧
        fl = .ret (.ptr (if (st.h p).left = some c then (st.h p).right else (st.h p).left))) := by
  have hpp : ∀ {ρ : Env}, ρ 0 = .ptr (some c) →
      EvalsTo cmpF f ρ st (.call1 .getParent (.var 0)) (some p) := by
    intro ρ h0
    have := evalsTo_getParent (cmpF := cmpF) (f := f) (evalsTo_var (st := st) h0)
    simpa [fldOf, Rot.getP, hp] using this
  unfold body_getBrother
  refine HT.seq (M := fun ρ s => ρ 0 = .ptr (some c) ∧ st = s)
    (HT.ite' (Pt := fun _ _ => False) (Pe := fun ρ s => ρ 0 = .ptr (some c) ∧ st = s) ?_
      (fun _ _ _ _ _ hF _ => hF.elim) HT.skip) ?_
  · intro ρ s v s' hP he
    simp [evalE, hP.1, valEq] at he
    obtain ⟨e1, e2⟩ := he
    rw [← e2, ← e1]
    exact ⟨by simp, fun _ => hP⟩
  · refine HT.seqG (M := fun ρ s => (ρ 0 = .ptr (some c) ∧ st = s) ∧ (st.h p).left ≠ some c)
      (HT.ite' (Pt := fun ρ s => (ρ 0 = .ptr (some c) ∧ st = s) ∧ (st.h p).left = some c)
        (Pe := fun ρ s => (ρ 0 = .ptr (some c) ∧ st = s) ∧ (st.h p).left ≠ some c) ?_ (HT.ret ?_)
        (HT.skip.mono (fun _ _ h => h) (fun _ _ _ h => .inl h)))
      (HT.ret ?_)
    · intro ρ s v s' hP he
      obtain ⟨h0, hs⟩ := hP
      subst hs
      obtain ⟨x, s1, y, r, h1, h2, hv, hvr⟩ := eval_eq he
      simp [evalE] at h1
      obtain ⟨hx, hs1⟩ := h1
      subst hx hs1
      obtain ⟨e1, e2⟩ := evalsTo_getLeft (hpp h0) _ _ h2
      rw [e1, hvr]
      rw [e2, h0] at hv
      simp [valEq, fldOf, Rot.getP] at hv
      constructor
      · intro e
        injection e with e
        rw [e] at hv
        exact ⟨⟨h0, rfl⟩, (by simpa using hv : some c = (st.h p).left).symm⟩
      · intro e
        injection e with e
        rw [e] at hv
        exact ⟨⟨h0, rfl⟩, fun e' => (by simpa using hv : ¬ some c = (st.h p).left) e'.symm⟩
    · intro ρ s v s' hP he
      obtain ⟨⟨h0, hs⟩, hl⟩ := hP
      subst hs
      obtain ⟨e1, e2⟩ := evalsTo_getRight (hpp h0) _ _ he
      exact .inr ⟨by simp, e1.symm, by rw [e2]; simp [fldOf, Rot.getP, hl]⟩
    · intro ρ s v s' hP he
      obtain ⟨⟨h0, hs⟩, hl⟩ := hP
      subst hs
      obtain ⟨e1, e2⟩ := evalsTo_getLeft (hpp h0) _ _ he
      exact ⟨e1.symm, by rw [e2]; simp [fldOf, Rot.getP, hl]⟩

theorem call_getBrother {c p : Nat} {st st' : St} {v : Val} (hp : (st.h c).parent = some p)
    (h : call cmpF procs f .getBrother [.ptr (some c)] st = .ok (v, st')) :
    st' = st ∧ v = .ptr (if (st.h p).left = some c then (st.h p).right else (st.h p).left) := by
  cases f with
  | zero => simp [call] at h
  | succ f =>
    have h' : runBody cmpF (call cmpF procs f) f ⟨1, body_getBrother⟩ [.ptr (some c)] st = .ok (v, st') := h
    simp only [runBody] at h'
    cases he : exec cmpF (call cmpF procs f) f (Env.ofArgs [.ptr (some c)]) st body_getBrother with
    | error e => simp [he] at h'
    | ok r =>
      obtain ⟨fl, ρ', st1⟩ := r
      obtain ⟨e1, e2⟩ := body_getBrother_spec hp _ _ _ _ _ ⟨by simp [Env.ofArgs], rfl⟩ he
      rw [he, e2] at h'
      simp at h'
      obtain ⟨e3, e4⟩ := h'
      exact ⟨by rw [← e4, ← e1], e3.symm⟩

end real

section bodies
variable (cmpF : Int → Int → Int) (hK : ∀ fuel fn, isK fn = true → SpecK (call cmpF procs fuel) fn)
variable {f lf : Nat} {sd : Fld} {x c p : Nat} {S : PT}

/-- inside the fix-up step: variable 0 is the cursor -/
def P0 (sd : Fld) (x c p : Nat) (S : PT) : Env → St → Prop :=
  fun ρ st => ρ 0 = .ptr (some c) ∧ J sd x c p S st

/-- … and variable 1 is the cursor's sibling, the `g`-child of the parent -/
def P1 (sd g : Fld) (x c p : Nat) (S : PT) : Env → St → Prop :=
  fun ρ st => P0 sd x c p S ρ st ∧ ρ 1 = .ptr (Rot.getP (st.h p) g)

/-- after the step: variable 0 is the new cursor, `x` is a leaf at or below it -/
def Q3 (x : Nat) : Env → St → Prop := fun ρ st => ∃ c', ρ 0 = .ptr (some c') ∧ Inv x st c'

omit hK in
theorem stable_P0 : Stable (P0 sd x c p S) := fun _ _ _ hP hS => ⟨hP.1, hP.2.ptrSame hS⟩

omit hK in
theorem stable_P1 {g : Fld} : Stable (P1 sd g x c p S) := by
  intro ρ st st' hP hS
  refine ⟨stable_P0 _ _ _ hP.1 hS, ?_⟩
  obtain ⟨h1, h2, h3⟩ := hS.1 p
  rw [hP.2]
  cases g <;> simp [Rot.getP, h1, h2, h3]

omit hK in
theorem P1_P0 {g : Fld} : ∀ ρ st, P1 sd g x c p S ρ st → P0 sd x c p S ρ st := fun _ _ h => h.1

omit hK in
theorem evalsTo_parent0 {ρ : Env} {st : St} (hP : P0 sd x c p S ρ st) :
    EvalsTo cmpF f ρ st (.call1 .getParent (.var 0)) (some p) := by
  have := evalsTo_getParent (cmpF := cmpF) (f := f) (evalsTo_var (st := st) hP.1)
  simpa [fldOf, Rot.getP, repr_root_parent hP.2.repr] using this

omit hK in
theorem ht_assign_sibL : HT cmpF (call cmpF procs f) lf (P0 sd x c p S)
    (.assign 1 (.call1 .getRight (.call1 .getParent (.var 0)))) (Nrm (P1 sd .right x c p S)) := by
  refine HT.assign (fun ρ st v st' hP h => ?_)
  obtain ⟨e1, e2⟩ := evalsTo_getRight (evalsTo_parent0 cmpF hP) _ _ h
  rw [e1, e2]
  exact ⟨⟨by simpa [Env.set] using hP.1, hP.2⟩, by simp [Env.set, fldOf]⟩

omit hK in
theorem ht_assign_sibR : HT cmpF (call cmpF procs f) lf (P0 sd x c p S)
    (.assign 1 (.call1 .getLeft (.call1 .getParent (.var 0)))) (Nrm (P1 sd .left x c p S)) := by
  refine HT.assign (fun ρ st v st' hP h => ?_)
  obtain ⟨e1, e2⟩ := evalsTo_getLeft (evalsTo_parent0 cmpF hP) _ _ h
  rw [e1, e2]
  exact ⟨⟨by simpa [Env.set] using hP.1, hP.2⟩, by simp [Env.set, fldOf]⟩

omit hK in
theorem ht_assign_parent (hsd : sd = .left ∨ sd = .right) : HT cmpF (call cmpF procs f) lf (P0 sd x c p S)
    (.assign 0 (.call1 .getParent (.var 0))) (Nrm (Q3 x)) := by
  refine HT.assign (fun ρ st v st' hP h => ?_)
  obtain ⟨e1, e2⟩ := evalsTo_parent0 cmpF hP _ _ h
  rw [e1, e2]
  exact ⟨p, by simp [Env.set], hP.2.inv_parent hsd⟩

omit hK in
theorem ht_assign_root (hsd : sd = .left ∨ sd = .right) : HT cmpF (call cmpF procs f) lf (P0 sd x c p S)
    (.assign 0 .root) (Nrm (Q3 x)) := by
  refine HT.assign (fun ρ st v st' hP h => ?_)
  simp [evalE] at h
  obtain ⟨e1, e2⟩ := h
  rw [← e1, ← e2]
  obtain ⟨c', e, hI⟩ := hP.2.inv_root hsd
  exact ⟨c', by simp [Env.set, e], hI⟩

include hK

theorem ht_rotL_p : HT cmpF (call cmpF procs f) lf (P0 .left x c p S)
    (.expr (.call1 .rotateLeft (.call1 .getParent (.var 0)))) (Nrm (P0 .left x c p S)) := by
  refine HT.expr (fun ρ st v st' hP h => ?_)
  obtain ⟨a, st1, h1, h2⟩ := eval_call1 h
  obtain ⟨e1, e2⟩ := evalsTo_parent0 cmpF hP _ _ h1
  rw [e1, e2] at h2
  exact ⟨hP.1, hP.2.rotL_p cmpF hK h2⟩

theorem ht_rotR_p : HT cmpF (call cmpF procs f) lf (P0 .right x c p S)
    (.expr (.call1 .rotateRight (.call1 .getParent (.var 0)))) (Nrm (P0 .right x c p S)) := by
  refine HT.expr (fun ρ st v st' hP h => ?_)
  obtain ⟨a, st1, h1, h2⟩ := eval_call1 h
  obtain ⟨e1, e2⟩ := evalsTo_parent0 cmpF hP _ _ h1
  rw [e1, e2] at h2
  exact ⟨hP.1, hP.2.rotR_p cmpF hK h2⟩

theorem ht_rotR_sibL : HT cmpF (call cmpF procs f) lf (P1 .left .right x c p S)
    (.expr (.call1 .rotateRight (.var 1))) (Nrm (P0 .left x c p S)) := by
  refine HT.expr (fun ρ st v st' hP h => ?_)
  obtain ⟨a, st1, h1, h2⟩ := eval_call1 h
  simp [evalE] at h1
  obtain ⟨e1, e2⟩ := h1
  rw [← e1, ← e2, hP.2] at h2
  exact ⟨hP.1.1, hP.1.2.rotR_sibL cmpF hK h2⟩

theorem ht_rotL_sibR : HT cmpF (call cmpF procs f) lf (P1 .right .left x c p S)
    (.expr (.call1 .rotateLeft (.var 1))) (Nrm (P0 .right x c p S)) := by
  refine HT.expr (fun ρ st v st' hP h => ?_)
  obtain ⟨a, st1, h1, h2⟩ := eval_call1 h
  simp [evalE] at h1
  obtain ⟨e1, e2⟩ := h1
  rw [← e1, ← e2, hP.2] at h2
  exact ⟨hP.1.1, hP.1.2.rotL_sibR cmpF hK h2⟩

theorem left_body : HT cmpF (call cmpF procs f) lf (P0 .left x c p S) body_fixAfterDeleteLeft
    (fun fl _ st => ∃ c', fl = .ret (.ptr (some c')) ∧ Inv x st c') := by
  unfold body_fixAfterDeleteLeft
  refine HT.seq (ht_assign_sibL cmpF) (HT.seq (M := P1 .left .right x c p S) ?_ (HT.seq (M := Q3 x) ?_ ?_))
  · refine HT.pureIte stable_P1 rfl ?_ HT.skip
    exact HT.seq (HT.pureExpr stable_P1 rfl) (HT.seq (HT.pureExpr stable_P1 rfl)
      (HT.seq ((ht_rotL_p cmpF hK).pre P1_P0) (ht_assign_sibL cmpF)))
  · refine HT.pureIte stable_P1 rfl ?_ ?_
    · exact HT.seq (HT.pureExpr stable_P1 rfl) ((ht_assign_parent cmpF (.inl rfl)).pre P1_P0)
    · refine HT.seq (M := P1 .left .right x c p S) (HT.pureIte stable_P1 rfl ?_ HT.skip) ?_
      · exact HT.seq (HT.pureExpr stable_P1 rfl) (HT.seq (HT.pureExpr stable_P1 rfl)
          (HT.seq (ht_rotR_sibL cmpF hK) (ht_assign_sibL cmpF)))
      · exact HT.seq (HT.pureExpr stable_P1 rfl) (HT.seq (HT.pureExpr stable_P1 rfl)
          (HT.seq (HT.pureExpr stable_P1 rfl) (HT.seq ((ht_rotL_p cmpF hK).pre P1_P0)
            (ht_assign_root cmpF (.inl rfl)))))
  · refine HT.retVar.mono (fun _ _ h => h) ?_
    rintro fl ρ st ⟨rfl, c', h0, hI⟩
    exact ⟨c', by rw [h0], hI⟩

omit hK in
theorem ht_assign_brother : HT cmpF (call cmpF procs f) lf (P0 .right x c p S)
    (.assign 1 (.call1 .getBrother (.var 0))) (Nrm (P1 .right .left x c p S)) := by
  refine HT.assign (fun ρ st v st' hP h => ?_)
  obtain ⟨a, st1, h1, h2⟩ := eval_call1 h
  simp [evalE] at h1
  obtain ⟨e1, e2⟩ := h1
  rw [← e1, ← e2, hP.1] at h2
  obtain ⟨e3, e4⟩ := call_getBrother (repr_root_parent hP.2.repr) h2
  obtain ⟨O, hO, hd⟩ := hP.2.structR
  have hne : (st.h p).left ≠ some c := Rot.repr_ne_of_not_mem hO (hd c (repr_root_mem hP.2.repr)).1
  rw [if_neg hne] at e4
  rw [e3, e4]
  exact ⟨⟨by simpa [Env.set] using hP.1, hP.2⟩, by simp [Env.set, Rot.getP]⟩

theorem right_body : HT cmpF (call cmpF procs f) lf (P0 .right x c p S) body_fixAfterDeleteRight
    (fun fl _ st => ∃ c', fl = .ret (.ptr (some c')) ∧ Inv x st c') := by
  unfold body_fixAfterDeleteRight
  refine HT.seq (ht_assign_sibR cmpF) (HT.seq (M := P1 .right .left x c p S) ?_ (HT.seq (M := Q3 x) ?_ ?_))
  · refine HT.pureIte stable_P1 rfl ?_ HT.skip
    exact HT.seq (HT.pureExpr stable_P1 rfl) (HT.seq (HT.pureExpr stable_P1 rfl)
      (HT.seq ((ht_rotR_p cmpF hK).pre P1_P0) (ht_assign_brother cmpF)))
  · refine HT.pureIte stable_P1 rfl ?_ ?_
    · exact HT.seq (HT.pureExpr stable_P1 rfl) ((ht_assign_parent cmpF (.inr rfl)).pre P1_P0)
    · refine HT.seq (M := P1 .right .left x c p S) (HT.pureIte stable_P1 rfl ?_ HT.skip) ?_
      · exact HT.seq (HT.pureExpr stable_P1 rfl) (HT.seq (HT.pureExpr stable_P1 rfl)
          (HT.seq (ht_rotL_sibR cmpF hK) (ht_assign_sibR cmpF)))
      · exact HT.seq (HT.pureExpr stable_P1 rfl) (HT.seq (HT.pureExpr stable_P1 rfl)
          (HT.seq (HT.pureExpr stable_P1 rfl) (HT.seq ((ht_rotR_p cmpF hK).pre P1_P0)
            (ht_assign_root cmpF (.inr rfl)))))
  · refine HT.retVar.mono (fun _ _ h => h) ?_
    rintro fl ρ st ⟨rfl, c', h0, hI⟩
    exact ⟨c', by rw [h0], hI⟩

/-- one step of the loop of `fixAfterDelete`, cursor a left child -/
theorem left_call {st st' : St} {v : Val} (hJ : J .left x c p S st)
    (h : call cmpF procs f .fixAfterDeleteLeft [.ptr (some c)] st = .ok (v, st')) :
    ∃ c', v = .ptr (some c') ∧ Inv x st' c' := by
  cases f with
  | zero => simp [call] at h
  | succ f =>
    have h' : runBody cmpF (call cmpF procs f) f ⟨1, body_fixAfterDeleteLeft⟩ [.ptr (some c)] st
        = .ok (v, st') := h
    simp only [runBody] at h'
    cases he : exec cmpF (call cmpF procs f) f (Env.ofArgs [.ptr (some c)]) st body_fixAfterDeleteLeft with
    | error e => simp [he] at h'
    | ok r =>
      obtain ⟨fl, ρ', st1⟩ := r
      obtain ⟨c', e1, hI⟩ := left_body cmpF hK _ _ _ _ _ ⟨by simp [Env.ofArgs], hJ⟩ he
      rw [he, e1] at h'
      simp at h'
      obtain ⟨e3, e4⟩ := h'
      exact ⟨c', e3.symm, e4 ▸ hI⟩

/-- one step of the loop of `fixAfterDelete`, cursor a right child -/
theorem right_call {st st' : St} {v : Val} (hJ : J .right x c p S st)
    (h : call cmpF procs f .fixAfterDeleteRight [.ptr (some c)] st = .ok (v, st')) :
    ∃ c', v = .ptr (some c') ∧ Inv x st' c' := by
  cases f with
  | zero => simp [call] at h
  | succ f =>
    have h' : runBody cmpF (call cmpF procs f) f ⟨1, body_fixAfterDeleteRight⟩ [.ptr (some c)] st
        = .ok (v, st') := h
    simp only [runBody] at h'
    cases he : exec cmpF (call cmpF procs f) f (Env.ofArgs [.ptr (some c)]) st body_fixAfterDeleteRight with
    | error e => simp [he] at h'
    | ok r =>
      obtain ⟨fl, ρ', st1⟩ := r
      obtain ⟨c', e1, hI⟩ := right_body cmpF hK _ _ _ _ _ ⟨by simp [Env.ofArgs], hJ⟩ he
      rw [he, e1] at h'
      simp at h'
      obtain ⟨e3, e4⟩ := h'
      exact ⟨c', e3.symm, e4 ▸ hI⟩

end bodies

/-! ### (4) the loop of `fixAfterDelete` -/

theorem Inv.ptrSame {x c : Nat} {st st' : St} (hI : Inv x st c) (hS : PtrSame st st') : Inv x st' c := by
  obtain ⟨t, s, par, hH, hc, hR, hx, hl⟩ := hI
  exact ⟨t, s, par, holds_ptrSame hS hH, hc, repr_congr (fun a _ => hS.1 a) hR, hx,
    ⟨(hS.1 x).1.trans hl.1, (hS.1 x).2.1.trans hl.2⟩⟩

/-- a cursor that is not the root is the left or the right child of its parent -/
theorem Inv.toJ {x c : Nat} {st : St} (hI : Inv x st c) (hroot : st.root ≠ some c) :
    ∃ p S, (st.h c).parent = some p ∧ ((st.h p).left = some c → J .left x c p S st) ∧
      ((st.h p).left ≠ some c → J .right x c p S st) := by
  obtain ⟨t, s, par, hH, hc, hR, hx, hl⟩ := hI
  obtain ⟨A, R, hs, hnds, hsub, hA, hRr, hpar, hdich⟩ := Rot.rot_setup hH.1 hH.2.1 hc
  rcases hdich with ⟨e, _⟩ | ⟨_, p, e, hp, _, hside⟩
  · exact absurd e hroot
  · have hpe : par = some p := by rw [← repr_root_parent hR, e]
    subst hpe
    refine ⟨p, s, e, fun hl' => ⟨⟨t, hH, hp⟩, hl', hR, hx, hl⟩, fun hn => ⟨⟨t, hH, hp⟩, ?_, hR, hx, hl⟩⟩
    rcases hside with ⟨a, _⟩ | ⟨_, b⟩
    · exact absurd a hn
    · exact b

def condE : Expr PName :=
  .and (.ne (.var 0) .root) (.eq (.call1 .getColor (.var 0)) (.bool true))

def stepS : Stmt PName :=
  .ite (.eq (.var 0) (.call1 .getLeft (.field (.var 0) .parent)))
    (.assign 0 (.call1 .fixAfterDeleteLeft (.var 0)))
    (.assign 0 (.call1 .fixAfterDeleteRight (.var 0)))

theorem body_fixAfterDelete_eq :
    body_fixAfterDelete = .seq (.loop condE stepS) (.expr (.call2 .setColor (.var 0) (.bool true))) := rfl

section loop
variable (cmpF : Int → Int → Int) (hK : ∀ fuel fn, isK fn = true → SpecK (call cmpF procs fuel) fn)
variable {f lf : Nat} {x : Nat}

omit hK in
theorem stable_Q3 : Stable (Q3 x) := by
  rintro ρ st st' ⟨c, h0, hI⟩ hS
  exact ⟨c, h0, hI.ptrSame hS⟩

omit hK in
theorem cond_true {ρ : Env} {st st1 : St} {c : Nat} (h0 : ρ 0 = .ptr (some c))
    (h : evalE cmpF (call cmpF procs f) ρ st condE = .ok (.bool true, st1)) : st.root ≠ some c := by
  intro hr
  simp [condE, evalE, h0, valEq, hr] at h

include hK

theorem step_spec : HT cmpF (call cmpF procs f) lf
    (fun ρ st => ∃ c, ρ 0 = .ptr (some c) ∧ Inv x st c ∧ st.root ≠ some c) stepS (Nrm (Q3 x)) := by
  unfold stepS
  refine HT.ite' (Pt := fun ρ st => ∃ c p S, ρ 0 = .ptr (some c) ∧ J .left x c p S st)
    (Pe := fun ρ st => ∃ c p S, ρ 0 = .ptr (some c) ∧ J .right x c p S st) ?_ ?_ ?_
  · rintro ρ st v st' ⟨c, h0, hI, hroot⟩ he
    obtain ⟨p, S, hpar, hL, hR⟩ := hI.toJ hroot
    obtain ⟨a, s1, y, r, h1, h2, hv, hvr⟩ := eval_eq he
    simp [evalE] at h1
    obtain ⟨ha, hs1⟩ := h1
    subst ha hs1
    obtain ⟨b, s2, h3, h4⟩ := eval_call1 h2
    simp [evalE, h0, Node.get, hpar] at h3
    obtain ⟨hb, hs2⟩ := h3
    subst hb hs2
    obtain ⟨e1, e2⟩ := call_getLeft cmpF h4
    rw [e1, hvr]
    rw [e2, h0] at hv
    simp [valEq, fldOf, Rot.getP] at hv
    constructor
    · intro e
      injection e with e
      rw [e] at hv
      exact ⟨c, p, S, h0, hL (by simpa using hv : some c = (st.h p).left).symm⟩
    · intro e
      injection e with e
      rw [e] at hv
      exact ⟨c, p, S, h0, hR (fun e' => (by simpa using hv : ¬ some c = (st.h p).left) e'.symm)⟩
  · refine HT.assign ?_
    rintro ρ st v st' ⟨c, p, S, h0, hJ⟩ he
    obtain ⟨a, s1, h1, h2⟩ := eval_call1 he
    simp [evalE] at h1
    obtain ⟨ha, hs1⟩ := h1
    rw [← ha, ← hs1, h0] at h2
    obtain ⟨c', e, hI⟩ := left_call cmpF hK hJ h2
    exact ⟨c', by simp [Env.set, e], hI⟩
  · refine HT.assign ?_
    rintro ρ st v st' ⟨c, p, S, h0, hJ⟩ he
    obtain ⟨a, s1, h1, h2⟩ := eval_call1 he
    simp [evalE] at h1
    obtain ⟨ha, hs1⟩ := h1
    rw [← ha, ← hs1, h0] at h2
    obtain ⟨c', e, hI⟩ := right_call cmpF hK hJ h2
    exact ⟨c', by simp [Env.set, e], hI⟩

theorem loop_spec : ∀ n ρ st fl ρ' st', Q3 x ρ st →
    iterate (fun ρ st => evalE cmpF (call cmpF procs f) ρ st condE)
      (fun ρ st => exec cmpF (call cmpF procs f) lf ρ st stepS) n ρ st = .ok (fl, ρ', st') →
    fl = .normal ∧ Q3 x ρ' st' := by
  intro n
  induction n with
  | zero => intro ρ st fl ρ' st' _ h; simp [iterate] at h
  | succ n ih =>
    intro ρ st fl ρ' st' hQ h
    simp only [iterate] at h
    cases h1 : evalE cmpF (call cmpF procs f) ρ st condE with
    | error e => simp [h1] at h
    | ok r1 =>
      obtain ⟨v, st1⟩ := r1
      rw [h1] at h
      have hS : PtrSame st st1 := evalE_pure cmpF _ (call_pure cmpF f) condE rfl ρ st v st1 h1
      cases v with
      | bool b =>
        cases b with
        | false =>
          simp at h
          obtain ⟨e1, e2, e3⟩ := h
          rw [← e1, ← e2, ← e3]
          exact ⟨rfl, stable_Q3 _ _ _ hQ hS⟩
        | true =>
          simp only at h
          obtain ⟨c, h0, hI⟩ := hQ
          have hroot : st1.root ≠ some c := by rw [hS.2.1]; exact cond_true cmpF h0 h1
          cases h2 : exec cmpF (call cmpF procs f) lf ρ st1 stepS with
          | error e => simp [h2] at h
          | ok r2 =>
            obtain ⟨fl2, ρ2, st2⟩ := r2
            rw [h2] at h
            obtain ⟨e, hQ2⟩ := step_spec cmpF hK _ _ _ _ _ ⟨c, h0, hI.ptrSame hS, hroot⟩ h2
            subst e
            exact ih _ _ _ _ _ hQ2 h
      | _ => simp at h

theorem body_spec : HT cmpF (call cmpF procs f) f (Q3 x) body_fixAfterDelete (fun _ _ st => Leaf st x) := by
  rw [body_fixAfterDelete_eq]
  refine HT.seq (M := Q3 x) ?_ ?_
  · intro ρ st fl ρ' st' hQ h
    simp only [exec] at h
    exact loop_spec cmpF hK _ _ _ _ _ _ hQ h
  · refine (HT.pureExpr stable_Q3 rfl).mono (fun _ _ h => h) ?_
    rintro fl ρ st ⟨_, c, _, hI⟩
    obtain ⟨_, _, _, _, _, _, _, hl⟩ := hI
    exact hl

end loop

/-! ### (5) the theorem -/

/-- a leaf of a held tree that is the root is the only node -/
theorem leaf_parent {st : St} {t : PT} {x : Nat} (hH : Holds st t) (hx : x ∈ t.addrs) (hl : Leaf st x) :
    (st.h x).parent ≠ none ∨ t.addrs = [x] := by
  obtain ⟨A, R, hs, _, _, hA, hRr, _, hdich⟩ := Rot.rot_setup hH.1 hH.2.1 hx
  rcases hdich with ⟨e, _⟩ | ⟨_, p, e, _⟩
  · right
    have h1 := repr_sub hH.1 hs
    rw [hl.1] at hA
    rw [hl.2] at hRr
    have hA' : A = .leaf := by cases A with
      | leaf => rfl
      | node _ _ _ => simp [Repr] at hA
    have hR' : R = .leaf := by cases R with
      | leaf => rfl
      | node _ _ _ => simp [Repr] at hRr
    subst hA' hR'
    have h2 := hH.1
    rw [e] at h2
    rw [repr_det h2 h1]
    simp [PT.addrs]
  · left; rw [e]; simp

theorem fixAfterDelete_keeps_leaf (cmpF : Int → Int → Int)
    (hK : ∀ fuel fn, isK fn = true → SpecK (call cmpF procs fuel) fn) :
    ∀ fuel x st v st' t, Holds st t → x ∈ t.addrs → (st.h x).left = none → (st.h x).right = none →
      (st.h x).parent ≠ none →
      call cmpF procs fuel .fixAfterDelete [.ptr (some x)] st = .ok (v, st') →
      (st'.h x).left = none ∧ (st'.h x).right = none := by
  intro fuel x st v st' t hH hx hl hr _ h
  obtain ⟨s, hs⟩ := sub_some_of_mem hx
  obtain ⟨⟨A, R, rfl⟩, _⟩ := sub_spec hs
  cases fuel with
  | zero => simp [call] at h
  | succ f =>
    have h' : runBody cmpF (call cmpF procs f) f ⟨1, body_fixAfterDelete⟩ [.ptr (some x)] st
        = .ok (v, st') := h
    simp only [runBody] at h'
    have hQ : Q3 x (Env.ofArgs [.ptr (some x)]) st :=
      ⟨x, by simp [Env.ofArgs], t, _, _, hH, hx, repr_sub hH.1 hs, by simp [PT.addrs], hl, hr⟩
    cases he : exec cmpF (call cmpF procs f) f (Env.ofArgs [.ptr (some x)]) st body_fixAfterDelete with
    | error e => simp [he] at h'
    | ok r =>
      obtain ⟨fl, ρ', st1⟩ := r
      have hL : Leaf st1 x := body_spec cmpF hK _ _ _ _ _ hQ he
      rw [he] at h'
      cases fl with
      | normal => simp at h'; rw [← h'.2]; exact hL
      | ret w => simp at h'; rw [← h'.2]; exact hL
      | cont => simp at h'
      | brk => simp at h'

theorem fixAfterDelete_keeps_parent (cmpF : Int → Int → Int)
    (hK : ∀ fuel fn, isK fn = true → SpecK (call cmpF procs fuel) fn) :
    ∀ fuel x st v st' t, Holds st t → x ∈ t.addrs → (st.h x).left = none → (st.h x).right = none →
      (st.h x).parent ≠ none →
      call cmpF procs fuel .fixAfterDelete [.ptr (some x)] st = .ok (v, st') → (st'.h x).parent ≠ none := by
  intro fuel x st v st' t hH hx hl hr hp h
  -- the tree has a second node: the parent of `x`
  obtain ⟨A, R, hs, _, _, _, _, _, hdich⟩ := Rot.rot_setup hH.1 hH.2.1 hx
  have hsecond : ∃ p, p ∈ t.addrs ∧ p ≠ x := by
    rcases hdich with ⟨_, e⟩ | ⟨_, p, _, hp1, hp2, _⟩
    · exact absurd e hp
    · exact ⟨p, hp1, fun e => hp2 (by simp [PT.addrs, e])⟩
  -- contract K: the final heap holds a tree over the same addresses
  obtain ⟨t', hH', hP, _⟩ := hK fuel .fixAfterDelete rfl _ _ _ _ t hH (by
    intro y hy; simp at hy; subst hy; exact hx) h
  -- `x` is still a leaf
  have hleaf : Leaf st' x := fixAfterDelete_keeps_leaf cmpF hK fuel x st v st' t hH hx hl hr hp h
  have hx' : x ∈ t'.addrs := by rw [hP.addrs]; exact hx
  rcases leaf_parent hH' hx' hleaf with h1 | h1
  · exact h1
  · obtain ⟨p, hp1, hp2⟩ := hsecond
    rw [← hP.addrs, h1] at hp1
    simp at hp1
    exact absurd hp1 hp2

end Ekit.MiniGo.RBHeap.Fix

