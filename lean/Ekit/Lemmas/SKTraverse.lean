/-
Towards the simulation of `traverse` (continuation of Lemmas/SKRefine.lean): the INNER loop
`for curr.Forward[i] != nil && sl.compare(curr.Forward[i].Val, Val) < 0 { curr = curr.Forward[i] }`
of the translated program, which jumps along the level-`i` forward pointers, computes the model's `scanLevel`, which scans
the level-0 chain and passes over the towers of height `≤ i`.
-/
import Ekit.Lemmas.SKRefine

namespace Ekit.MiniGo.SK.Refine
open Ekit.MiniGo.SK Ekit.Gen.SkipListGo
open Ekit.SkipList (SL MaxLevel forwardPos scanLevel)
abbrev MNode := Ekit.SkipList.Node

/-! ### the model's scan in terms of "next tower higher than `i`" -/

theorem scanLevel_none (cmp : Ekit.Cmp.Cmp) (v : Int) (i : Nat) : ∀ (l : List MNode) (curr here : Nat),
    l.findIdx? (fun n : MNode => n.h > i) = none → scanLevel cmp v i l curr here = curr := by
  intro l
  induction l with
  | nil => intro curr here _; rfl
  | cons n rest ih =>
    intro curr here h
    rw [List.findIdx?_cons] at h
    by_cases hn : n.h > i
    · simp [hn] at h
    · have hdn : ¬ (decide (n.h > i) = true) := by simpa using hn
      rw [if_neg hdn, Option.map_eq_none_iff] at h
      simp only [scanLevel, hn, if_false]
      exact ih curr (here + 1) h

theorem scanLevel_some (cmp : Ekit.Cmp.Cmp) (v : Int) (i : Nat) : ∀ (l : List MNode) (curr here k : Nat) (hk : k < l.length),
    l.findIdx? (fun n : MNode => n.h > i) = some k →
    scanLevel cmp v i l curr here =
      if cmp l[k].val v < 0 then scanLevel cmp v i (l.drop (k + 1)) (here + k + 1) (here + k + 1) else curr := by
  intro l
  induction l with
  | nil => intro curr here k hk; simp at hk
  | cons n rest ih =>
    intro curr here k hk h
    rw [List.findIdx?_cons] at h
    by_cases hn : n.h > i
    · simp [hn] at h
      subst h
      simp only [scanLevel, hn, if_true]
      rfl
    · simp [hn] at h
      obtain ⟨k', hk', rfl⟩ := h
      have hk2 : k' < rest.length := by simpa using hk
      simp only [scanLevel, hn, if_false]
      rw [ih curr (here + 1) k' hk2 hk']
      have e : here + 1 + k' + 1 = here + (k' + 1) + 1 := by omega
      simp only [List.getElem_cons_succ, List.drop_succ_cons, e]

/-! ### reading a forward pointer -/

/-- tower height at position `j` (0 = header) -/
def htAt (s : SL) (j : Nat) : Nat := if j = 0 then MaxLevel else (s.nodes.getD (j - 1) default).h

theorem readAt_lt (l : List (Option Nat)) (i : Nat) (hl : i < l.length) : readAt l i = .ok (.ptr (l.getD i none)) := by
  have : ¬ ((i : Int) < 0 ∨ (i : Int) ≥ (l.length : Int)) := by omega
  unfold readAt
  rw [if_neg this]
  rfl

/-- `curr.Forward[i]` at position `j` whose tower is higher than `i`: the address of the next tower higher than `i` -/
theorem read_fwd {st : St} {as : List Nat} {s : SL} (hR : Rep st as s) (hd : Nat) (hhd : st.header = some hd)
    (j i : Nat) (hj : j ≤ s.nodes.length) (hi : i < htAt s j) (a : Nat) (ha : nodeAt hd as j = some a) :
    readAt (st.h a).fwd i = .ok (.ptr (addrAt as (forwardPos s.nodes j i))) := by
  by_cases hj0 : j = 0
  · subst hj0
    obtain ⟨hd', hhd', _, _, hl, hfw⟩ := hR.hdr
    have : hd' = hd := by rw [hhd] at hhd'; exact (Option.some.inj hhd').symm
    subst this
    have : a = hd' := by simpa [nodeAt] using ha.symm
    subst this
    have hi' : i < MaxLevel := by simpa [htAt] using hi
    rw [readAt_lt _ i (by rw [hl]; exact hi'), hfw i hi']
  · obtain ⟨k, rfl⟩ : ∃ k, j = k + 1 := ⟨j - 1, by omega⟩
    have hk' : k < s.nodes.length := by omega
    have hk : k < as.length := by rw [hR.len]; omega
    have hak : a = as[k] := by
      have : as[k]? = some a := by simpa [nodeAt] using ha
      rw [List.getElem?_eq_getElem hk] at this
      exact (Option.some.inj this).symm
    subst hak
    obtain ⟨_, hl, hfw⟩ := hR.node k hk hk'
    have hi' : i < s.nodes[k].h := by
      simp [htAt, List.getElem?_eq_getElem hk'] at hi
      exact hi
    rw [readAt_lt _ i (by rw [hl]; exact hi'), hfw i hi']

/-! ### the inner loop -/

section
variable (cmp : Int → Int → Int) (callH : CallH PName)

def scanCond : Env → St → Res (Val × St) := fun ρ st => evalE cmp callH ρ st
  (.and (.bin .ne (.fwd (.var 3) (.var 4)) .nil) (.bin .lt (.cmp (.val (.fwd (.var 3) (.var 4))) (.var 0)) (.int 0)) : Expr PName)
def scanBody (lf : Nat) : Env → St → Res (Flow × Env × St) :=
  fun ρ st => exec cmp callH lf ρ st (.assign 3 (.fwd (.var 3) (.var 4)))

theorem scanCond_nil (ρ : Env) (st : St) (a : Nat) (i : Nat) (h3 : ρ 3 = .ptr (some a)) (h4 : ρ 4 = .int i)
    (hr : readAt (st.h a).fwd i = .ok (.ptr none)) :
    scanCond cmp callH ρ st = .ok (.bool false, st) := by
  simp [scanCond, evalE, h3, h4, hr, BinOp.apply, valEq]

theorem scanCond_some (ρ : Env) (st : St) (a b : Nat) (i : Nat) (v : Int) (h3 : ρ 3 = .ptr (some a)) (h4 : ρ 4 = .int i)
    (h0 : ρ 0 = .int v) (hr : readAt (st.h a).fwd i = .ok (.ptr (some b))) :
    scanCond cmp callH ρ st = .ok (.bool (decide (cmp (st.h b).val v < 0)), st) := by
  simp [scanCond, evalE, h3, h4, h0, hr, BinOp.apply, valEq]

theorem scanBody_run (lf : Nat) (ρ : Env) (st : St) (a : Nat) (x : Option Nat) (i : Nat) (h3 : ρ 3 = .ptr (some a))
    (h4 : ρ 4 = .int i) (hr : readAt (st.h a).fwd i = .ok (.ptr x)) :
    scanBody cmp callH lf ρ st = .ok (.normal, ρ.set 3 (.ptr x), st) := by
  simp only [scanBody, exec, evalE, h3, h4, hr]

end


theorem findIdx_some_spec (p : MNode → Bool) : ∀ (l : List MNode) (k : Nat), l.findIdx? p = some k →
    ∃ hk : k < l.length, p l[k] = true := by
  intro l
  induction l with
  | nil => intro k h; simp at h
  | cons n rest ih =>
    intro k h
    rw [List.findIdx?_cons] at h
    by_cases hn : p n = true
    · rw [if_pos hn] at h
      have : k = 0 := (Option.some.inj h).symm
      subst this
      exact ⟨by simp, by simpa using hn⟩
    · rw [if_neg hn] at h
      cases hr : rest.findIdx? p with
      | none => rw [hr] at h; simp at h
      | some k' =>
        rw [hr] at h
        have : k = k' + 1 := by simpa using h.symm
        subst this
        obtain ⟨hk', hp⟩ := ih k' hr
        exact ⟨by simpa using hk', by simpa using hp⟩

theorem nodeAt_some (hd : Nat) (as : List Nat) (j : Nat) (hj : j ≤ as.length) : ∃ a, nodeAt hd as j = some a := by
  by_cases hj0 : j = 0
  · exact ⟨hd, by simp [nodeAt, hj0]⟩
  · have : j - 1 < as.length := by omega
    exact ⟨as[j - 1], by simp [nodeAt, hj0, List.getElem?_eq_getElem this]⟩

/-- the inner loop of `traverse` on level `i`, started at position `c` (a tower higher than `i`): it terminates within
    `length - c + 1` iterations without a panic, leaves the heap alone and stops at the model's `scanLevel` position -/
theorem scan_loop (cmp : Int → Int → Int) (callH : CallH PName) (lf : Nat) {st : St} {as : List Nat} {s : SL}
    (hR : Rep st as s) (hd : Nat) (hhd : st.header = some hd) (v : Int) (i : Nat) :
    ∀ (n c : Nat) (ρ : Env) (fuel : Nat), s.nodes.length - c < n → n ≤ fuel → c ≤ s.nodes.length → i < htAt s c →
      ρ 3 = .ptr (nodeAt hd as c) → ρ 4 = .int i → ρ 0 = .int v →
      ∃ ρ', iterate (scanCond cmp callH) (scanBody cmp callH lf) fuel ρ st = .ok (.normal, ρ', st) ∧
        ρ' 3 = .ptr (nodeAt hd as (scanLevel cmp v i (s.nodes.drop c) c c)) ∧ (∀ x, x ≠ 3 → ρ' x = ρ x) ∧
        scanLevel cmp v i (s.nodes.drop c) c c ≤ s.nodes.length ∧ i < htAt s (scanLevel cmp v i (s.nodes.drop c) c c) := by
  intro n
  induction n with
  | zero => intro c ρ fuel h; omega
  | succ n ih =>
    intro c ρ fuel hm hf hc hi h3 h4 h0
    obtain ⟨f, rfl⟩ : ∃ f, fuel = f + 1 := ⟨fuel - 1, by omega⟩
    obtain ⟨a, ha⟩ := nodeAt_some hd as c (by rw [hR.len]; exact hc)
    have hr := read_fwd hR hd hhd c i hc hi a ha
    have h3a : ρ 3 = .ptr (some a) := by rw [h3, ha]
    cases hfi : (s.nodes.drop c).findIdx? (fun n : MNode => n.h > i) with
    | none =>
      have hfp : forwardPos s.nodes c i = 0 := by unfold forwardPos; rw [hfi]
      rw [hfp] at hr
      have hsc := scanLevel_none cmp v i (s.nodes.drop c) c c hfi
      rw [hsc]
      refine ⟨ρ, ?_, h3, fun _ _ => rfl, hc, hi⟩
      rw [iterate, scanCond_nil cmp callH ρ st a i h3a h4 (by simpa [addrAt] using hr)]
    | some k =>
      obtain ⟨hk, hpk⟩ := findIdx_some_spec _ _ k hfi
      have hkl : c + k < s.nodes.length := by
        have h := hk
        rw [List.length_drop] at h
        omega
      have hka : c + k < as.length := by rw [hR.len]; exact hkl
      have hfp : forwardPos s.nodes c i = c + k + 1 := by unfold forwardPos; rw [hfi]
      rw [hfp] at hr
      have hadr : addrAt as (c + k + 1) = some as[c + k] := by
        simp [addrAt, List.getElem?_eq_getElem hka]
      rw [hadr] at hr
      have hge : (s.nodes.drop c)[k] = s.nodes[c + k] := by simp
      obtain ⟨hval, _⟩ := hR.node (c + k) hka hkl
      have hsc := scanLevel_some cmp v i (s.nodes.drop c) c c k hk hfi
      rw [hge] at hsc
      have hcond := scanCond_some cmp callH ρ st a as[c + k] i v h3a h4 h0 hr
      rw [hval] at hcond
      by_cases hlt : cmp s.nodes[c + k].val v < 0
      · rw [if_pos hlt] at hsc
        have hdd : List.drop (k + 1) (s.nodes.drop c) = s.nodes.drop (c + k + 1) := by
          rw [List.drop_drop, Nat.add_assoc]
        rw [hdd] at hsc
        have hht : i < htAt s (c + k + 1) := by
          have : i < s.nodes[c + k].h := by
            rw [hge] at hpk; simpa using hpk
          simp [htAt, List.getElem?_eq_getElem hkl]
          exact this
        obtain ⟨ρ', e, r3, rx, rle, rht⟩ := ih (c + k + 1) (ρ.set 3 (.ptr (some as[c + k]))) f (by omega) (by omega)
          (by omega) hht (by simp [Env.set, nodeAt, List.getElem?_eq_getElem hka]) (by simp [Env.set, h4])
          (by simp [Env.set, h0])
        rw [hsc]
        refine ⟨ρ', ?_, r3, fun x hx => by rw [rx x hx]; simp [Env.set, hx], rle, rht⟩
        rw [iterate, hcond]
        simp only [hlt, decide_true]
        simp only [scanBody_run cmp callH lf ρ st a _ i h3a h4 hr]
        exact e
      · rw [if_neg hlt] at hsc
        rw [hsc]
        refine ⟨ρ, ?_, h3, fun _ _ => rfl, hc, hi⟩
        rw [iterate, hcond]
        simp only [hlt, decide_false]


/-! ### the outer loop of `traverse` -/

def trInner : Stmt PName :=
  .loop (.and (.bin .ne (.fwd (.var 3) (.var 4)) .nil) (.bin .lt (.cmp (.val (.fwd (.var 3) (.var 4))) (.var 0)) (.int 0)))
    (.assign 3 (.fwd (.var 3) (.var 4)))
def trBody : Stmt PName := .seq (.seq trInner (.setIdx 2 (.var 4) (.var 3))) (.assign 4 (.bin .sub (.var 4) (.int 1)))

theorem writeAt_lt (l : List (Option Nat)) (m : Nat) (x : Option Nat) (hm : m < l.length) :
    writeAt l (m : Int) x = .ok (l.set m x) := by
  have : ¬ ((m : Int) < 0 ∨ (m : Int) ≥ (l.length : Int)) := by omega
  unfold writeAt
  rw [if_neg this]
  simp

section
variable (cmp : Int → Int → Int) (callH : CallH PName)

def trCondF : Env → St → Res (Val × St) := fun ρ st => evalE cmp callH ρ st (.bin .ge (.var 4) (.int 0) : Expr PName)
def trBodyF (lf : Nat) : Env → St → Res (Flow × Env × St) := fun ρ st => exec cmp callH lf ρ st trBody

theorem trCondF_run (ρ : Env) (st : St) (k : Int) (h4 : ρ 4 = .int k) :
    trCondF cmp callH ρ st = .ok (.bool (decide (k ≥ 0)), st) := by
  simp only [trCondF, evalE, h4, BinOp.apply]

theorem trBodyF_run (lf : Nat) (ρ ρ1 : Env) (st : St) (U : List (Option Nat)) (m : Nat) (x : Option Nat)
    (hI : iterate (scanCond cmp callH) (scanBody cmp callH lf) lf ρ st = .ok (.normal, ρ1, st))
    (h2 : ρ1 2 = .ptrs U) (h4 : ρ1 4 = .int m) (h3 : ρ1 3 = .ptr x) (hm : m < U.length) :
    trBodyF cmp callH lf ρ st = .ok (.normal, (ρ1.set 2 (.ptrs (U.set m x))).set 4 (.int ((m : Int) - 1)), st) := by
  have e1 : exec cmp callH lf ρ st trInner = .ok (.normal, ρ1, st) := hI
  have e2 : exec cmp callH lf ρ1 st (.setIdx 2 (.var 4) (.var 3)) = .ok (.normal, ρ1.set 2 (.ptrs (U.set m x)), st) := by
    simp only [exec, evalE, h2, h4, h3, writeAt_lt U m x hm]
  have e12 := (exec_seq_normal cmp callH lf ρ ρ1 st st _ _ e1).trans e2
  have h4' : (ρ1.set 2 (.ptrs (U.set m x))) 4 = .int m := by simp [Env.set, h4]
  have e3 : exec cmp callH lf (ρ1.set 2 (.ptrs (U.set m x))) st (.assign 4 (.bin .sub (.var 4) (.int 1))) =
      .ok (.normal, (ρ1.set 2 (.ptrs (U.set m x))).set 4 (.int ((m : Int) - 1)), st) := by
    simp only [exec, evalE, h4', BinOp.apply]
  exact (exec_seq_normal cmp callH lf ρ _ st st _ _ e12).trans e3

end

open Ekit.SkipList (traverseFrom) in
/-- the loop nest of `traverse` from level `m - 1` down to 0, started at position `c`: no panic, heap unchanged, the
    final `curr` is the model's (`traverseFrom … m c`).1; `update` stays a 32-slot array -/
theorem tr_outer (cmp : Int → Int → Int) (callH : CallH PName) (lf : Nat) {st : St} {as : List Nat} {s : SL}
    (hR : Rep st as s) (hd : Nat) (hhd : st.header = some hd) (v : Int) (hlf : s.nodes.length + 1 ≤ lf) :
    ∀ (m c : Nat) (ρ : Env) (U : List (Option Nat)) (fuel : Nat), m + 1 ≤ fuel → m ≤ 32 → c ≤ s.nodes.length →
      m ≤ htAt s c → 0 < htAt s c → ρ 4 = .int ((m : Int) - 1) → ρ 3 = .ptr (nodeAt hd as c) → ρ 2 = .ptrs U →
      U.length = 32 → ρ 0 = .int v →
      ∃ ρ' U', iterate (trCondF cmp callH) (trBodyF cmp callH lf) fuel ρ st = .ok (.normal, ρ', st) ∧
        ρ' 3 = .ptr (nodeAt hd as (traverseFrom cmp v s.nodes m c).1) ∧ ρ' 2 = .ptrs U' ∧ U'.length = 32 ∧
        ρ' 0 = .int v ∧ (traverseFrom cmp v s.nodes m c).1 ≤ s.nodes.length ∧
        0 < htAt s (traverseFrom cmp v s.nodes m c).1 := by
  intro m
  induction m with
  | zero =>
    intro c ρ U fuel hf _ hc _ h0t h4 h3 h2 hU h0
    obtain ⟨f, rfl⟩ : ∃ f, fuel = f + 1 := ⟨fuel - 1, by omega⟩
    refine ⟨ρ, U, ?_, h3, h2, hU, h0, hc, h0t⟩
    rw [iterate, trCondF_run cmp callH ρ st _ h4]
    have : decide (((0 : Nat) : Int) - 1 ≥ 0) = false := by decide
    rw [this]
  | succ m ih =>
    intro c ρ U fuel hf hm32 hc hmt h0t h4 h3 h2 hU h0
    obtain ⟨f, rfl⟩ : ∃ f, fuel = f + 1 := ⟨fuel - 1, by omega⟩
    have h4m : ρ 4 = .int (m : Int) := by rw [h4]; congr 1; omega
    obtain ⟨ρ1, eI, r3, rx, rle, rht⟩ := scan_loop cmp callH lf hR hd hhd v m (s.nodes.length + 1) c ρ lf (by omega) hlf hc
      (by omega) h3 h4m h0
    have h2' : ρ1 2 = .ptrs U := by rw [rx 2 (by decide), h2]
    have h4' : ρ1 4 = .int (m : Int) := by rw [rx 4 (by decide), h4m]
    have h0' : ρ1 0 = .int v := by rw [rx 0 (by decide), h0]
    have eB := trBodyF_run cmp callH lf ρ ρ1 st U m _ eI h2' h4' r3 (by omega)
    obtain ⟨ρ', U', e, q3, q2, qU, q0, qle, qht⟩ := ih (scanLevel cmp v m (s.nodes.drop c) c c)
      ((ρ1.set 2 (.ptrs (U.set m (nodeAt hd as (scanLevel cmp v m (s.nodes.drop c) c c))))).set 4 (.int ((m : Int) - 1)))
      (U.set m (nodeAt hd as (scanLevel cmp v m (s.nodes.drop c) c c))) f (by omega) (by omega) rle (by omega) (by omega)
      (by simp [Env.set]) (by simp [Env.set, r3]) (by simp [Env.set]) (by simp [hU]) (by simp [Env.set, h0'])
    refine ⟨ρ', U', ?_, by simpa [traverseFrom] using q3, q2, qU, q0, by simpa [traverseFrom] using qle,
      by simpa [traverseFrom] using qht⟩
    rw [iterate, trCondF_run cmp callH ρ st _ h4m]
    have : decide ((m : Int) ≥ 0) = true := by simp
    rw [this]
    simp only [eB]
    exact e


open Ekit.SkipList (traverseFrom) in
/-- `sl.traverse(v, lvl)` of the translated program on a state representing `s`: no panic, state unchanged, the returned
    `curr` is the node at the model's position `(traverseFrom cmp v s.nodes lvl 0).1` -/
theorem traverse_run (cmp : Int → Int → Int) (fuel : Nat) {st : St} {as : List Nat} {s : SL} (hR : Rep st as s)
    (hd : Nat) (hhd : st.header = some hd) (v : Int) (lvl : Nat) (hl32 : lvl ≤ 32) (hf : s.nodes.length + 1 ≤ fuel)
    (hf2 : lvl + 1 ≤ fuel) :
    ∃ U', call cmp procs (fuel + 1) .traverse [.int v, .int lvl] st =
        .ok (.pair (.ptr (nodeAt hd as (traverseFrom cmp v s.nodes lvl 0).1)) (.ptrs U'), st) ∧ U'.length = 32 ∧
      (traverseFrom cmp v s.nodes lvl 0).1 ≤ s.nodes.length ∧ 0 < htAt s (traverseFrom cmp v s.nodes lvl 0).1 := by
  have hA : exec cmp (call cmp procs fuel) fuel (Env.ofArgs [.int v, .int lvl]) st (.assign 2 (.mkPtrs (.int 32))) =
      .ok (.normal, (Env.ofArgs [.int v, .int lvl]).set 2 (.ptrs (List.replicate 32 none)), st) := rfl
  have hB : exec cmp (call cmp procs fuel) fuel ((Env.ofArgs [.int v, .int lvl]).set 2 (.ptrs (List.replicate 32 none))) st
      (.assign 3 .header) =
      .ok (.normal, ((Env.ofArgs [.int v, .int lvl]).set 2 (.ptrs (List.replicate 32 none))).set 3 (.ptr (some hd)), st) := by
    simp only [exec, evalE, hhd]
  have hC : exec cmp (call cmp procs fuel) fuel
      (((Env.ofArgs [.int v, .int lvl]).set 2 (.ptrs (List.replicate 32 none))).set 3 (.ptr (some hd))) st
      (.assign 4 (.bin .sub (.var 1) (.int 1))) =
      .ok (.normal, ((((Env.ofArgs [.int v, .int lvl]).set 2 (.ptrs (List.replicate 32 none))).set 3 (.ptr (some hd))).set 4
        (.int ((lvl : Int) - 1))), st) := rfl
  obtain ⟨ρ', U', eL, q3, q2, qU, _, qle, qht⟩ := tr_outer cmp (call cmp procs fuel) fuel hR hd hhd v hf lvl 0
    ((((Env.ofArgs [.int v, .int lvl]).set 2 (.ptrs (List.replicate 32 none))).set 3 (.ptr (some hd))).set 4
        (.int ((lvl : Int) - 1))) (List.replicate 32 none) fuel hf2 hl32 (by omega) (by simpa [htAt, MaxLevel] using hl32)
    (by simp [htAt, MaxLevel]) rfl rfl rfl (by simp) rfl
  have hL : exec cmp (call cmp procs fuel) fuel
      ((((Env.ofArgs [.int v, .int lvl]).set 2 (.ptrs (List.replicate 32 none))).set 3 (.ptr (some hd))).set 4
        (.int ((lvl : Int) - 1))) st (.loop (.bin .ge (.var 4) (.int 0)) trBody) = .ok (.normal, ρ', st) := eL
  have hCL := (exec_seq_normal cmp (call cmp procs fuel) fuel _ _ st st _ _ hC).trans hL
  have hRet : exec cmp (call cmp procs fuel) fuel ρ' st (.ret2 (.var 3) (.var 2)) =
      .ok (.ret (.pair (.ptr (nodeAt hd as (traverseFrom cmp v s.nodes lvl 0).1)) (.ptrs U')), ρ', st) := by
    simp only [exec, evalE, q3, q2]
  have hAll : exec cmp (call cmp procs fuel) fuel (Env.ofArgs [.int v, .int lvl]) st body_traverse =
      .ok (.ret (.pair (.ptr (nodeAt hd as (traverseFrom cmp v s.nodes lvl 0).1)) (.ptrs U')), ρ', st) :=
    (exec_seq_normal cmp (call cmp procs fuel) fuel _ _ st st _ _ hA).trans <|
    (exec_seq_normal cmp (call cmp procs fuel) fuel _ _ st st _ _ hB).trans <|
    (exec_seq_normal cmp (call cmp procs fuel) fuel _ _ st st _ _ hCL).trans hRet
  refine ⟨U', ?_, qU, qle, qht⟩
  show runBody cmp (call cmp procs fuel) fuel (procs .traverse) [.int v, .int lvl] st = _
  simp only [runBody, procs, hAll]


/-! ### Search -/

theorem forwardPos_end (nodes : List MNode) (i : Nat) : forwardPos nodes nodes.length i = 0 := by
  simp [forwardPos]

theorem search_tail_nil (cmp : Int → Int → Int) (callH : CallH PName) (lf : Nat) (ρ : Env) (st : St)
    (h1 : ρ 1 = .ptr none) :
    exec cmp callH lf ρ st (.ret (.and (.bin .ne (.var 1) .nil) (.bin .eq (.cmp (.val (.var 1)) (.var 0)) (.int 0)))) =
      .ok (.ret (.bool false), ρ, st) := by
  simp [exec, evalE, h1, BinOp.apply, valEq]

theorem search_tail_some (cmp : Int → Int → Int) (callH : CallH PName) (lf : Nat) (ρ : Env) (st : St) (b : Nat) (v : Int)
    (h1 : ρ 1 = .ptr (some b)) (h0 : ρ 0 = .int v) :
    exec cmp callH lf ρ st (.ret (.and (.bin .ne (.var 1) .nil) (.bin .eq (.cmp (.val (.var 1)) (.var 0)) (.int 0)))) =
      .ok (.ret (.bool (decide (cmp (st.h b).val v = 0))), ρ, st) := by
  simp [exec, evalE, h1, h0, BinOp.apply, valEq]
  by_cases hx : cmp (st.h b).val v = 0 <;> simp [hx]

open Ekit.SkipList (traverseFrom) in
/-- the translated `Search` returns what the model's `step … (.search v)` returns and leaves the state alone
    (fuel: two nested calls + `max (length, level) + 1` loop iterations) -/
theorem search_sim (cmp : Int → Int → Int) (fuel : Nat) (st : St) (as : List Nat) (s : SL) (hR : Rep st as s)
    (hh : ∀ n ∈ s.nodes, 1 ≤ n.h) (hl32 : s.level ≤ 32) (h : Nat) (v : Int)
    (hf : s.nodes.length + 1 ≤ fuel) (hf2 : s.level + 1 ≤ fuel) :
    ∃ b, call cmp procs (fuel + 2) .Search [.int v] st = .ok (.bool b, st) ∧
      Ekit.SkipList.step cmp s h (.search v) = (s, .ok (.bool b)) := by
  obtain ⟨hd, hhd, _, _, _, _⟩ := hR.hdr
  obtain ⟨U', hT, _, hle, hht⟩ := traverse_run cmp fuel hR hd hhd v s.level hl32 hf hf2
  generalize hc : (traverseFrom cmp v s.nodes s.level 0).1 = c' at hT hle hht
  obtain ⟨a, ha⟩ := nodeAt_some hd as c' (by rw [hR.len]; exact hle)
  have hr := read_fwd hR hd hhd c' 0 hle hht a ha
  have hS1 : exec cmp (call cmp procs (fuel + 1)) (fuel + 1) (Env.ofArgs [.int v]) st
      (.assign2 (some 1) none (.call2 .traverse (.var 0) .level)) =
      .ok (.normal, (Env.ofArgs [.int v]).set 1 (.ptr (some a)), st) := by
    have h0 : (Env.ofArgs [.int v]) 0 = .int v := rfl
    simp only [exec, evalE, h0, hR.level, hT, ha, setOpt]
  have hS2 : ∀ y, readAt (st.h a).fwd 0 = .ok (.ptr y) →
      exec cmp (call cmp procs (fuel + 1)) (fuel + 1) ((Env.ofArgs [.int v]).set 1 (.ptr (some a))) st
      (.assign 1 (.fwd (.var 1) (.int 0))) =
      .ok (.normal, ((Env.ofArgs [.int v]).set 1 (.ptr (some a))).set 1 (.ptr y), st) := by
    intro y hy
    have h1 : ((Env.ofArgs [.int v]).set 1 (.ptr (some a))) 1 = .ptr (some a) := by simp [Env.set]
    simp only [exec, evalE, h1, hy]
  have hmodel : Ekit.SkipList.step cmp s h (.search v) =
      (match s.nodes[c']? with
       | none => (s, .ok (.bool false))
       | some node => (s, .ok (.bool (decide (cmp node.val v = 0))))) := by
    simp only [Ekit.SkipList.step, Ekit.SkipList.traverse, Ekit.SkipList.next0, hc]
    rfl
  by_cases hlt : c' < s.nodes.length
  · have hka : c' < as.length := by rw [hR.len]; exact hlt
    have hfp := forwardPos_zero s.nodes hh c' hlt
    rw [hfp] at hr
    have hadr : addrAt as (c' + 1) = some as[c'] := by simp [addrAt, List.getElem?_eq_getElem hka]
    rw [hadr] at hr
    have hval := (hR.node c' hka hlt).1
    refine ⟨decide (cmp s.nodes[c'].val v = 0), ?_, by rw [hmodel, List.getElem?_eq_getElem hlt]⟩
    have hS3 := search_tail_some cmp (call cmp procs (fuel + 1)) (fuel + 1)
      (((Env.ofArgs [.int v]).set 1 (.ptr (some a))).set 1 (.ptr (some as[c']))) st as[c'] v (by simp [Env.set])
      (by simp [Env.set]; rfl)
    rw [hval] at hS3
    have hAll := (exec_seq_normal cmp _ (fuel + 1) _ _ st st _ _ hS1).trans <|
      (exec_seq_normal cmp _ (fuel + 1) _ _ st st _ _ (hS2 _ hr)).trans hS3
    show runBody cmp (call cmp procs (fuel + 1)) (fuel + 1) (procs .Search) [.int v] st = _
    have hAll' : exec cmp (call cmp procs (fuel + 1)) (fuel + 1) (Env.ofArgs [.int v]) st body_Search = _ := hAll
    simp only [runBody, procs, hAll']
  · have hce : c' = s.nodes.length := by omega
    have hfp : forwardPos s.nodes c' 0 = 0 := by rw [hce]; exact forwardPos_end _ _
    rw [hfp] at hr
    have hadr : addrAt as 0 = none := by simp [addrAt]
    rw [hadr] at hr
    have hnone : s.nodes[c']? = none := by rw [hce]; simp
    refine ⟨false, ?_, by rw [hmodel, hnone]⟩
    have hS3 := search_tail_nil cmp (call cmp procs (fuel + 1)) (fuel + 1)
      (((Env.ofArgs [.int v]).set 1 (.ptr (some a))).set 1 (.ptr none)) st (by simp [Env.set])
    have hAll := (exec_seq_normal cmp _ (fuel + 1) _ _ st st _ _ hS1).trans <|
      (exec_seq_normal cmp _ (fuel + 1) _ _ st st _ _ (hS2 _ hr)).trans hS3
    show runBody cmp (call cmp procs (fuel + 1)) (fuel + 1) (procs .Search) [.int v] st = _
    have hAll' : exec cmp (call cmp procs (fuel + 1)) (fuel + 1) (Env.ofArgs [.int v]) st body_Search = _ := hAll
    simp only [runBody, procs, hAll']

end Ekit.MiniGo.SK.Refine
