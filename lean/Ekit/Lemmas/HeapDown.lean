/- The `heapify` (sift-down) loop of Dequeue restores the heap (C05). Core Lean only. -/
import Ekit.Lemmas.HeapBasic

namespace Ekit.Heap
open Ekit.Cmp

/-- what the guarded comparison `if cand <= n && cmp(data[cand], data[minPos]) < 0` decides -/
theorem pick_spec (cmp : Cmp) (d : List Int) (n cand cur : Nat) (hn : n < d.length)
    (hcur : cand ≤ n → cur < d.length) :
    ∃ m, pick cmp d n cand cur = some m ∧
      ((m = cur ∧ ∀ a b, cand ≤ n → d[cand]? = some a → d[cur]? = some b → ¬ cmp a b < 0) ∨
       (m = cand ∧ cand ≤ n ∧ ∃ a b, d[cand]? = some a ∧ d[cur]? = some b ∧ cmp a b < 0)) := by
  unfold pick
  by_cases hle : cand ≤ n
  · have h1 : cand < d.length := by omega
    have h2 : cur < d.length := hcur hle
    rw [if_pos hle, List.getElem?_eq_getElem h1, List.getElem?_eq_getElem h2]
    simp only []
    by_cases hlt : cmp d[cand] d[cur] < 0
    · exact ⟨cand, by rw [if_pos hlt], Or.inr ⟨rfl, hle, d[cand], d[cur], rfl, rfl, hlt⟩⟩
    · refine ⟨cur, by rw [if_neg hlt], Or.inl ⟨rfl, ?_⟩⟩
      intro a b _ ha hb
      rw [← Option.some.inj ha, ← Option.some.inj hb]
      exact hlt
  · rw [if_neg hle]
    exact ⟨cur, rfl, Or.inl ⟨rfl, fun a b h => absurd h hle⟩⟩

/-- one iteration of the sift-down loop keeps its invariant, one level lower -/
theorem downInv_swap {cmp : Cmp} {d : List Int} {i m : Nat} {a b : Int}
    (hi1 : 1 ≤ i) (hm : m / 2 = i) (ha : d[i]? = some a) (hb : d[m]? = some b) (hlt : cmp b a < 0)
    (hmin : ∀ c x, c / 2 = i → d[c]? = some x → cmp b x ≤ 0)
    (h : DownInv cmp d i) : DownInv cmp ((d.set i b).set m a) m := by
  have hil := lt_length_of_getElem? ha
  have hml := lt_length_of_getElem? hb
  have him : i ≠ m := by omega
  obtain ⟨h1, h2⟩ := h
  have rd : ∀ j, ((d.set i b).set m a)[j]? = if j = m then some a else if j = i then some b else d[j]? :=
    fun j => getElem?_swap a b hil hml j
  constructor
  · intro j x y hj2 hjm hx hy
    rw [rd] at hx hy
    rw [if_neg hjm] at hy
    by_cases e1 : j = m
    · rw [if_pos e1] at hx
      have e2 : j / 2 = i := by rw [e1]; exact hm
      rw [if_pos e2] at hy
      rw [← Option.some.inj hx, ← Option.some.inj hy]; omega
    · rw [if_neg e1] at hx
      by_cases e2 : j = i
      · rw [if_pos e2] at hx
        have e3 : ¬ j / 2 = i := by omega
        rw [if_neg e3] at hy
        rw [← Option.some.inj hx]
        exact h2 m b y (by omega) hm hb (by rw [← e2]; exact hy)
      · rw [if_neg e2] at hx
        by_cases e3 : j / 2 = i
        · rw [if_pos e3] at hy
          rw [← Option.some.inj hy]
          exact hmin j x e3 hx
        · rw [if_neg e3] at hy
          exact h1 j x y hj2 e3 hx hy
  · intro c x y hm2 hcm hx hy
    rw [rd] at hx hy
    have e1 : ¬ m / 2 = m := by omega
    rw [if_neg e1, if_pos hm] at hy
    have e2 : ¬ c = m := by omega
    have e3 : ¬ c = i := by omega
    rw [if_neg e2, if_neg e3] at hx
    rw [← Option.some.inj hy]
    exact h1 c x b (by omega) (by omega) hx (by rw [hcm]; exact hb)

/-- **the sift-down loop**: no panic, heap restored, array permuted, slot 0 and length kept -/
theorem heapify_spec {cmp : Cmp} (hc : Lawful cmp) (fuel : Nat) (d : List Int) (n i : Nat)
    (hn : n + 1 = d.length) (hi1 : 1 ≤ i) (hf1 : 1 ≤ fuel) (hf : n < fuel + i) (h : DownInv cmp d i) :
    ∃ d', heapify cmp fuel d n i = some d' ∧ HeapInv cmp d' ∧ d'.Perm d ∧ d'[0]? = d[0]? ∧
      d'.length = d.length := by
  induction fuel generalizing d i with
  | zero => omega
  | succ fuel ih =>
    unfold heapify
    obtain ⟨m1, hp1, hm1⟩ := pick_spec cmp d n (i * 2) i (by omega) (by omega)
    have hm1l : i * 2 + 1 ≤ n → m1 < d.length := by
      intro hle
      rcases hm1 with ⟨e, _⟩ | ⟨e, _, _⟩ <;> omega
    obtain ⟨m2, hp2, hm2⟩ := pick_spec cmp d n (i * 2 + 1) m1 (by omega) hm1l
    rw [hp1]; simp only []
    rw [hp2]; simp only []
    -- children of i are exactly 2i and 2i+1
    have kids : ∀ c, c / 2 = i → c = i * 2 ∨ c = i * 2 + 1 := by intro c hc'; omega
    by_cases hmi : m2 = i
    · -- nothing smaller below: done
      rw [if_pos hmi]
      refine ⟨d, rfl, ?_, List.Perm.refl _, rfl, rfl⟩
      have hm1i : m1 = i := by
        rcases hm2 with ⟨e, _⟩ | ⟨e, _, _⟩
        · omega
        · omega
      intro j x y hj2 hx hy
      by_cases e : j / 2 = i
      · have hjl := lt_length_of_getElem? hx
        rw [e] at hy
        rcases kids j e with ej | ej
        · rcases hm1 with ⟨_, hno⟩ | ⟨e', _, _⟩
          · exact hc.le_of_not_lt (hno x y (by omega) (by rw [← ej]; exact hx) hy)
          · omega
        · rcases hm2 with ⟨_, hno⟩ | ⟨e', _, _⟩
          · exact hc.le_of_not_lt (hno x y (by omega) (by rw [← ej]; exact hx) (by rw [hm1i]; exact hy))
          · omega
      · exact h.1 j x y hj2 e hx hy
    · rw [if_neg hmi]
      -- m2 is a child of i holding a minimum of {d[i], d[2i], d[2i+1]}
      have key : m2 / 2 = i ∧ m2 ≤ n ∧ ∃ a b, d[i]? = some a ∧ d[m2]? = some b ∧ cmp b a < 0 ∧
          ∀ c x, c / 2 = i → d[c]? = some x → cmp b x ≤ 0 := by
        rcases hm1 with ⟨e1, hno1⟩ | ⟨e1, hle1, a1, b1, ha1, hb1, hlt1⟩
        · -- left child not smaller
          rcases hm2 with ⟨e2, _⟩ | ⟨e2, hle2, a2, b2, ha2, hb2, hlt2⟩
          · omega
          · rw [e1] at hb2
            refine ⟨by omega, by omega, b2, a2, hb2, by rw [e2]; exact ha2, hlt2, ?_⟩
            intro c x hci hx
            rcases kids c hci with ec | ec
            · have hcl := lt_length_of_getElem? hx
              have := hno1 x b2 (by omega) (by rw [← ec]; exact hx) hb2
              have := hc.le_of_not_lt this
              exact hc.trans _ _ _ (by omega) this
            · rw [ec, ha2] at hx
              rw [← Option.some.inj hx]
              have := hc.refl a2; omega
        · -- left child smaller than d[i]
          rcases hm2 with ⟨e2, hno2⟩ | ⟨e2, hle2, a2, b2, ha2, hb2, hlt2⟩
          · refine ⟨by omega, by omega, b1, a1, hb1, by rw [e2, e1]; exact ha1, hlt1, ?_⟩
            intro c x hci hx
            rcases kids c hci with ec | ec
            · rw [ec, ha1] at hx
              rw [← Option.some.inj hx]
              have := hc.refl a1; omega
            · have hcl := lt_length_of_getElem? hx
              have := hno2 x a1 (by omega) (by rw [← ec]; exact hx) (by rw [e1]; exact ha1)
              exact hc.le_of_not_lt this
          · rw [e1, ha1] at hb2
            have hba : b2 = a1 := (Option.some.inj hb2).symm
            rw [hba] at hlt2
            refine ⟨by omega, by omega, b1, a2, hb1, by rw [e2]; exact ha2, ?_, ?_⟩
            · exact hc.lt_of_lt_of_le hlt2 (by omega)
            · intro c x hci hx
              rcases kids c hci with ec | ec
              · rw [ec, ha1] at hx
                rw [← Option.some.inj hx]; omega
              · rw [ec, ha2] at hx
                rw [← Option.some.inj hx]
                have := hc.refl a2; omega
      obtain ⟨hm2i, hm2n, a, b, ha, hb, hlt, hmin⟩ := key
      rw [ha, hb]; simp only []
      have hinv := downInv_swap hi1 hm2i ha hb hlt hmin h
      have hil := lt_length_of_getElem? ha
      have hml := lt_length_of_getElem? hb
      have hlen : ((d.set i b).set m2 a).length = d.length := by simp
      obtain ⟨d', e1, e2, e3, e4, e5⟩ := ih ((d.set i b).set m2 a) m2 (by rw [hlen]; exact hn)
        (by omega) (by omega) (by omega) hinv
      refine ⟨d', e1, e2, e3.trans (swap_perm ha hb), ?_, by rw [e5, hlen]⟩
      rw [e4, getElem?_swap _ _ hil hml]
      have : ¬ (0 = m2) := by omega
      have : ¬ (0 = i) := by omega
      simp [*]

end Ekit.Heap
