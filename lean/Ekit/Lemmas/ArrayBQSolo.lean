/-
"The queue accepts … without blocking" (C09, array queue): from any reachable state in which no
other call is in flight, an Enqueue on a non-full queue whose context does not end runs to
`return nil` by its own actions alone (every one of them is enabled), and symmetrically a Dequeue on
a non-empty queue runs to `return (v, nil)`.
-/
import Ekit.Lemmas.ArrayBQLive
namespace Ekit.ArrayBQ
open Ekit.Conc Ekit.BQ

/-- nobody else is in a call, and `t`'s context has not ended -/
def Solo (s : State) (t : Nat) : Prop := (∀ u, u ≠ t → s.pc u = .idle) ∧ s.ctxDone t = false

/-- the program counters of a successful Enqueue / Dequeue -/
def okE : Pc → Bool
  | .eAcq _ | .eLock _ | .eChk _ | .eStore _ | .eAdv _ | .eRel | .unlock .ok | .ret .ok => true
  | _ => false
def okD : Pc → Bool
  | .dAcq | .dLock | .dChk | .dRead | .dAdv _ | .dRel _ | .unlock (.val _) | .ret (.val _) => true
  | _ => false

theorem solo_step {s s' : State} {t : Nat} (hsolo : Solo s t) (hnp : s'.panicked = false)
    (hs : tauStep s t = some s') :
    Solo s' t ∧ (okE (s.pc t) = true → okE (s'.pc t) = true) ∧ (okD (s.pc t) = true → okD (s'.pc t) = true) := by
  have hc := hsolo.2
  unfold tauStep at hs
  cases hp : s.pc t <;> simp only [hp] at hs
  all_goals (try split at hs)
  all_goals (try split at hs)
  all_goals (try (simp at hs; done))
  all_goals (injection hs with hs; subst hs)
  all_goals (try (simp [panic] at hnp; done))
  all_goals (
    refine ⟨⟨fun u hu => ?_, ?_⟩, ?_, ?_⟩
    · simp only [fpAdd, setPc, upd, hu, if_false]; exact hsolo.1 u hu
    · simpa [fpAdd, setPc] using hc
    all_goals (first
      | (simp_all [okE, okD, fpAdd, setPc]; done)
      | (rename_i r _; cases r <;> simp_all [okE, okD, setPc])))

/-- when only `t` is in a call, `t` never waits for anybody -/
theorem solo_enabled {cap : Nat} (hcap : 1 ≤ cap) (s : State) (hr : (sys cap).Reachable s) (t : Nat)
    (hsolo : Solo s t) (hidle : s.pc t ≠ .idle) (hret : ∀ r, s.pc t ≠ .ret r) (hspec : specEnables s t) :
    tauEn s t := by
  obtain ⟨h, _, h3⟩ := inv123_reachable hcap s hr
  have hidle_w : ∀ u, u ≠ t → wE (s.pc u) = 0 ∧ wD (s.pc u) = 0 ∧ wR (s.pc u) = 0 ∧ inW (s.pc u) = false := by
    intro u hu; rw [hsolo.1 u hu]; simp [wE, wD, wR, inW]
  have nowriter : ∀ u, s.writer = some u → inW (s.pc t) = true := by
    intro u hw
    have := h3 u hw
    by_cases hu : u = t
    · subst hu; exact this
    · rw [(hidle_w u hu).2.2.2] at this; exact absurd this (by simp)
  rcases enabled_when_possible hcap s hr t hidle hret hspec with he | ⟨u, hw, _⟩
  · exact he
  · exfalso
    unfold waitsFor at hw
    by_cases hu : u = t
    · subst hu
      cases hp : s.pc u <;> simp [hp, wE, wD, wR] at hw
      all_goals (have := nowriter u hw; simp [hp, inW] at this)
    · obtain ⟨h1, h2, h3', _⟩ := hidle_w u hu
      cases hp : s.pc t <;> simp [hp, h1, h2, h3'] at hw
      all_goals (have := nowriter u hw; simp [hp, inW] at this)

theorem run_replicate_succ {σ ι : Type} (S : System σ ι) (s s1 s' : σ) (l : ι) (n : Nat)
    (h1 : S.step s l = some s1) (h2 : S.run s1 (List.replicate n l) = some s') :
    S.run s (List.replicate (n + 1) l) = some s' := by
  simp [List.replicate_succ, System.run, h1, h2]

/-- **solo completion**: with nobody else in a call and the context alive, a call on the successful
    path that the specification enables reaches its `return` by `≤ rank` own actions, all enabled. -/
theorem solo_completes {cap : Nat} (hcap : 1 ≤ cap) (t : Nat) :
    ∀ k (s : State), (sys cap).Reachable s → Solo s t → rank s t ≤ k →
      (okE (s.pc t) = true ∨ okD (s.pc t) = true) → specEnables s t →
      ∃ n s', (sys cap).run s (List.replicate n (.tau t)) = some s' ∧ (sys cap).Reachable s' ∧ Solo s' t ∧
        ((okE (s.pc t) = true → s'.pc t = .ret .ok) ∧ (okD (s.pc t) = true → ∃ v, s'.pc t = .ret (.val v))) := by
  intro k
  induction k with
  | zero =>
    intro s _ _ hk hok _
    exfalso
    cases hp : s.pc t <;> simp [hp, okE, okD] at hok <;> simp [rank, hp] at hk
  | succ k ih =>
    intro s hr hsolo hk hok hspec
    by_cases hret : ∃ r, s.pc t = .ret r
    · obtain ⟨r, hp⟩ := hret
      refine ⟨0, s, rfl, hr, hsolo, ?_, ?_⟩
      · intro he; cases r <;> simp [hp, okE] at he; exact hp
      · intro hd; cases r <;> simp [hp, okD] at hd; exact ⟨_, hp⟩
    · have hidle : s.pc t ≠ .idle := by
        intro e; rcases hok with h | h <;> simp [e, okE, okD] at h
      have hen := solo_enabled hcap s hr t hsolo hidle (fun r e => hret ⟨r, e⟩) hspec
      unfold tauEn at hen
      obtain ⟨s1, hs1⟩ := Option.isSome_iff_exists.mp hen
      have hr1 : (sys cap).Reachable s1 := @System.Reachable.step _ _ (sys cap).toSystem s s1 (.tau t) hr hs1
      have hnp1 := (inv_reachable hcap s1 hr1).noPanic
      have hrank := rank_decreases hnp1 (Or.inl hs1)
      have hts : tauStep s t = some s1 := by
        simp only [step] at hs1
        split at hs1
        · simp at hs1
        · exact hs1
      obtain ⟨hsolo1, hE1, hD1⟩ := solo_step hsolo hnp1 hts
      have hok1 : okE (s1.pc t) = true ∨ okD (s1.pc t) = true := by
        rcases hok with h | h
        · exact Or.inl (hE1 h)
        · exact Or.inr (hD1 h)
      have hspec1 : specEnables s1 t := by
        have hle : rank s t ≤ 8 := by
          cases hp : s.pc t <;> simp [hp, okE, okD] at hok <;> simp [rank, hp]
        unfold specEnables
        cases hp1 : s1.pc t <;> simp
        all_goals (exfalso; have h8 : rank s1 t = 8 := by simp [rank, hp1])
        all_goals omega
      obtain ⟨n, s', hrun, hr', hsolo', hres⟩ := ih s1 hr1 hsolo1 (by omega) hok1 hspec1
      refine ⟨n + 1, s', run_replicate_succ _ s s1 s' _ n hs1 hrun, hr', hsolo', ?_, ?_⟩
      · intro he; exact hres.1 (hE1 he)
      · intro hd; exact hres.2 (hD1 hd)

end Ekit.ArrayBQ
