/- Preservation of the structural invariant of the Cond model, part 1: locks, ownership, pool. -/
import Ekit.Lemmas.CondBasic
namespace Ekit.Cond
open Ekit.Conc
variable {s s' : State} {l : Label}

theorem mutex_step (h : Inv s) (hs : step s l = some s') :
    ∀ t, (s'.pc t).inMu = true → s'.mu = some t := by
  have h1 := h.mutex
  step_cases hs <;> intro u <;> simp only [upd_apply] <;> (try split) <;> grind [Pc.inMu, bodyStart_inMu]

theorem muHeld_step (h : Inv s) (hs : step s l = some s') :
    ∀ t, s'.mu = some t → (s'.pc t).inMu = true := by
  have h1 := h.mutex; have h2 := h.muHeld; have h3 := h.popOK; have h4 := h.initOK
  have h5 := h.lHeld; have h6 := h.chkOK; have h7 := h.must; have h8 := h.inFull
  have h9 : ∀ t, s.mu = some t → s.tgt = (s.pc t).target := by intro t ht; simp [State.tgt, ht]
  step_cases hs <;> intro u <;> simp only [upd_apply] <;> (try split) <;>
    grind [Pc.inMu, bodyStart_inMu, Pc.popPc, Pc.pastInit, Pc.needsL, Pc.node, Pc.listPc, Pc.fullPc, Pc.target]

theorem own_step (h : Inv s) (hs : step s l = some s') :
    ∀ t u n, (s'.pc t).node = some n → (s'.pc u).node = some n → t = u := by
  have h3 := h.own; have h4 := h.fresh; have h5 := h.poolFree
  step_cases hs <;> intro u v n <;> simp only [upd_apply] <;> (repeat' split) <;>
    grind [Pc.node, bodyStart_node]

theorem fresh_step (h : Inv s) (hs : step s l = some s') :
    ∀ t n, (s'.pc t).node = some n → n < s'.nextNode := by
  have h4 := h.fresh; have h5 := h.poolFresh
  step_cases hs <;> intro u n <;> simp only [upd_apply] <;> (repeat' split) <;>
    grind [Pc.node, bodyStart_node]

theorem poolFresh_step (h : Inv s) (hs : step s l = some s') :
    ∀ n, n ∈ s'.pool → n < s'.nextNode := by
  have h4 := h.fresh; have h5 := h.poolFresh
  step_cases hs <;> intro n <;> grind [Pc.node, List.mem_of_mem_erase]

theorem listFresh_step (h : Inv s) (hs : step s l = some s') :
    ∀ n, n ∈ s'.list → n < s'.nextNode := by
  have h4 := h.fresh; have h5 := h.listFresh
  step_cases hs <;> intro n <;> grind [Pc.node, List.mem_of_mem_erase]

theorem fullFresh_step (h : Inv s) (hs : step s l = some s') :
    ∀ n, n ∈ s'.full → n < s'.nextNode := by
  have h4 := h.fresh; have h5 := h.fullFresh; have h6 := h.tgtOK; have h1 := h.mutex
  have h9 : ∀ t, s.mu = some t → s.tgt = (s.pc t).target := by intro t ht; simp [State.tgt, ht]
  step_cases hs <;> intro n <;> grind [Pc.node, List.mem_of_mem_erase, Pc.inMu, Pc.target]

theorem poolNodup_step (h : Inv s) (hs : step s l = some s') : s'.pool.Nodup := by
  have h4 := h.poolNodup; have h5 := h.poolFree
  step_cases hs <;> grind [Pc.node, List.Nodup.erase, List.nodup_cons]

theorem poolFree_step (h : Inv s) (hs : step s l = some s') :
    ∀ n, n ∈ s'.pool → ∀ t, (s'.pc t).node ≠ some n := by
  have h3 := h.own; have h4 := h.fresh; have h5 := h.poolFree; have h6 := h.poolFresh
  have h7 := h.poolNodup
  step_cases hs <;> intro n hn u <;> simp only [upd_apply] <;> (repeat' split) <;>
    grind [Pc.node, bodyStart_node, List.mem_of_mem_erase, List.Nodup.mem_erase_iff]

end Ekit.Cond
