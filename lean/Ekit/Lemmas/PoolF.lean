/-
Fixed-size pools (`initGo = coreGo = maxGo`, e.g. no growth option): no worker ever joins the timeout
group or arms its idle timer, none leaves through the idle-timeout or the above-core exit — so the
excluding hypothesis of `c12_shutdown_completes_partial` holds in every reachable state.
-/
import Ekit.Lemmas.PoolInv
namespace Ekit.Pool

def LF : Loc where
  G s := s.badExits = 0
  W _ _ w := w.timer = .off ∧ w.inGroup = false ∧ w.pc ≠ .idleWant ∧ w.pc ≠ .idleHeld
  C _ _ _ := True

theorem invF_init : LF.Inv init := by
  refine ⟨?_, ?_, ?_⟩ <;> simp [LF, init]

theorem invF_wstep (c : Cfg) (hfix : c.initGo = c.maxGo) (hcore : c.initGo ≤ c.coreGo) (s s' : St) (i : Nat) (a : WAct)
    (hB : LB.Inv s) (hC : (LCn c).Inv s) (hi : LF.Inv s) (h : wStep c s i a = some s') : LF.Inv s' := by
  unfold wStep at h
  split at h
  next w hw =>
    have hg := hi.glob
    have hwi := hi.wk i w hw
    have hbi := hB.wk i w hw
    have hcg := hC.glob.2.1
    simp only [LF] at hg hwi
    simp only [LB] at hbi
    cases a <;> simp only [wAct] at h <;> (repeat' (split at h)) <;> (try simp at h) <;> (try subst h) <;>
      (refine Loc.inv_worker hw rfl rfl hi ?_ ?_ (fun _ _ _ _ h => h) (fun _ _ => trivial)
       · simp only [LF]; simp_all [exitAboveCore, closingNow] <;> omega
       · intro _; simp only [LF]; simp_all [joinGroup] <;> omega)
  next => simp at h

theorem invF_cstep (c : Cfg) (s s' : St) (t : Nat) (a : CAct) (hi : LF.Inv s)
    (h : cAct c s t (s.callers t) a = some s') : LF.Inv s' := by
  cases a <;> simp only [cAct, toUnlock] at h <;> (repeat' (split at h)) <;> (try simp at h) <;> (try subst h) <;>
    first
    | exact Loc.inv_global (s := s) rfl rfl hi hi.glob (fun _ _ => trivial) (fun _ _ _ h => h)
    | exact Loc.inv_spawn (s := s) (t := t) rfl rfl hi hi.glob (fun _ => trivial) (fun _ _ _ => trivial)
        (fun _ _ _ h => h) (by simp [LF, newWorker])
    | (refine Loc.inv_rendezvous (s := s) (t := t) rfl rfl hi hi.glob (fun _ => trivial) (fun _ _ _ => trivial)
         ?_ (fun _ _ _ _ h => h)
       intro w0 hw0 hm; simp only [LF] at hm ⊢; simp_all)
    | exact Loc.inv_caller (s := s) (t := t) rfl rfl hi hi.glob (fun _ => trivial) (fun _ _ _ => trivial)
        (fun _ _ _ h => h)

end Ekit.Pool
