/-
Assembly for the colour invariant: `Add`, `Delete`, `Find`, `Set` of the translated red-black tree preserve `RBWF`
(the heap holds a tree that is red-black coloured), from `addNode_rb` / `deleteNode_rb` and the generic theorems.
-/
import Ekit.Lemmas.RBPtrInsRB
import Ekit.Lemmas.RBPtrDelRB
import Ekit.Lemmas.RBPtrNoColor
import Ekit.Lemmas.RBPtrHeight

namespace Ekit.MiniGo.RBHeap
open Ekit.MiniGo Ekit.Gen.RBTreeGo

variable (cmpF : Int → Int → Int)

theorem blackAt_congr {h h' : Nat → Node} {t : PT} (hc : ∀ a ∈ t.addrs, (h' a).color = (h a).color) :
    blackAt h t → blackAt h' t := by
  cases t with
  | leaf => intro _; trivial
  | node l a r => intro hb; simp only [blackAt] at hb ⊢; rw [hc a (by simp [PT.addrs])]; exact hb

theorem noRedRed_congr {h h' : Nat → Node} {t : PT} (hc : ∀ a ∈ t.addrs, (h' a).color = (h a).color) :
    NoRedRed h t → NoRedRed h' t := by
  induction t with
  | leaf => intro _; trivial
  | node l a r ihl ihr =>
    intro hn
    simp only [NoRedRed] at hn ⊢
    have hl : ∀ b ∈ l.addrs, (h' b).color = (h b).color := fun b hb => hc b (by simp [PT.addrs, hb])
    have hr : ∀ b ∈ r.addrs, (h' b).color = (h b).color := fun b hb => hc b (by simp [PT.addrs, hb])
    refine ⟨fun hred => ?_, ihl hl hn.2.1, ihr hr hn.2.2⟩
    rw [hc a (by simp [PT.addrs])] at hred
    exact ⟨blackAt_congr hl (hn.1 hred).1, blackAt_congr hr (hn.1 hred).2⟩

theorem bh_congr {h h' : Nat → Node} {t : PT} (hc : ∀ a ∈ t.addrs, (h' a).color = (h a).color) :
    ∀ {n}, BH h t n → BH h' t n := by
  induction t with
  | leaf => intro n hb; exact hb
  | node l a r ihl ihr =>
    intro n hb
    simp only [BH] at hb ⊢
    obtain ⟨m, h1, h2, h3⟩ := hb
    refine ⟨m, ihl (fun b hb => hc b (by simp [PT.addrs, hb])) h1, ihr (fun b hb => hc b (by simp [PT.addrs, hb])) h2, ?_⟩
    rw [hc a (by simp [PT.addrs])]; exact h3

theorem rb_congr {st st' : St} {t : PT} (hc : ∀ a ∈ t.addrs, (st'.h a).color = (st.h a).color) (h : RB st t) :
    RB st' t :=
  ⟨blackAt_congr hc h.1, noRedRed_congr hc h.2.1, h.2.2.elim fun n hn => ⟨n, bh_congr hc hn⟩⟩

/-- a call that touches neither pointers nor colours keeps the invariant with the same tree -/
theorem rbwf_of_same {st st' : St} {t : PT} (hH : Holds st t) (hR : RB st t) (hp : PtrSame st st') (hc : ColSame st st') :
    Holds st' t ∧ RB st' t := by
  refine ⟨⟨?_, hH.2.1, ?_⟩, rb_congr (fun a _ => hc a) hR⟩
  · rw [hp.2.1]; exact repr_congr (fun a _ => hp.1 a) hH.1
  · intro a ha; rw [hp.2.2]; exact hH.2.2 a ha

theorem rbwf_find (fuel : Nat) (k : Int) (st : St) (r : Val) (st' : St) (hW : RBWF st)
    (h : call cmpF procs fuel .Find [.int k] st = .ok (r, st')) : RBWF st' := by
  obtain ⟨t, hH, hR⟩ := hW
  exact ⟨t, rbwf_of_same hH hR (call_pure cmpF fuel .Find rfl _ st r st' h) (call_nocol cmpF fuel .Find rfl _ st r st' h)⟩

theorem rbwf_set (fuel : Nat) (k v : Int) (st : St) (r : Val) (st' : St) (hW : RBWF st)
    (h : call cmpF procs fuel .Set [.int k, .int v] st = .ok (r, st')) : RBWF st' := by
  obtain ⟨t, hH, hR⟩ := hW
  exact ⟨t, rbwf_of_same hH hR (call_pure cmpF fuel .Set rfl _ st r st' h) (call_nocol cmpF fuel .Set rfl _ st r st' h)⟩

/-- `newRBNode` changes no existing node -/
theorem call_newRBNode_frame : ∀ fuel args st v st', call cmpF procs fuel .newRBNode args st = .ok (v, st') →
    ∀ a, a ≠ st.alloc → st'.h a = st.h a := by
  intro fuel args st v st' h a ha
  cases fuel with
  | zero => simp [call] at h
  | succ f =>
    simp only [call, runBody, procs, body_newRBNode, exec, evalE] at h
    cases hx : Env.ofArgs args 0 <;> simp [hx] at h
    cases hy : Env.ofArgs args 1 <;> simp [hy] at h
    obtain ⟨_, rfl⟩ := h
    simp [upd, ha]

theorem rbwf_add (fuel : Nat) (k v : Int) (st : St) (r : Val) (st' : St)
    (hW : RBWF st) (h : call cmpF procs fuel .Add [.int k, .int v] st = .ok (r, st')) : RBWF st' := by
  obtain ⟨t, hH, hR⟩ := hW
  cases fuel with
  | zero => simp [call] at h
  | succ f =>
    simp only [call, runBody, procs, body_Add, exec, evalE, Env.ofArgs, List.getD] at h
    cases h1 : call cmpF procs f .newRBNode [Val.int k, Val.int v] st with
    | error e => simp [h1] at h
    | ok r1 =>
      obtain ⟨x, st1⟩ := r1
      simp [h1] at h
      obtain ⟨n, rfl, _, _, H1, _⟩ := call_newRBNode cmpF f _ st x st1 t hH h1
      have hfr := call_newRBNode_frame cmpF f _ st _ st1 h1
      have R1 : RB st1 t := rb_congr (fun a ha => by
        rw [hfr a (fun e => Nat.lt_irrefl _ (e ▸ hH.2.2 a ha))]) hR
      cases h2 : call cmpF procs f .addNode [Val.ptr (some n)] st1 with
      | error e => simp [h2] at h
      | ok r2 =>
        obtain ⟨y, st2⟩ := r2
        simp [h2] at h
        obtain ⟨_, rfl⟩ := h
        exact InsRB.addNode_rb cmpF f n st1 y st2 t H1 R1 h2

theorem rbwf_delete (fuel : Nat) (k : Int) (st : St) (r : Val) (st' : St)
    (hW : RBWF st) (h : call cmpF procs fuel .Delete [.int k] st = .ok (r, st')) : RBWF st' := by
  obtain ⟨t, hH, hR⟩ := hW
  cases fuel with
  | zero => simp [call] at h
  | succ f =>
    simp only [call, runBody, procs, body_Delete, exec, evalE, Env.ofArgs, List.getD, Env.set] at h
    cases h1 : call cmpF procs f .findNode [Val.int k] st with
    | error e => simp [h1] at h
    | ok r1 =>
      obtain ⟨x, st1⟩ := r1
      obtain ⟨_, _, _, P1⟩ := call_specK cmpF f .findNode rfl [Val.int k] st x st1 t hH (by simp [PtrIn]) h1
      obtain ⟨H1, R1⟩ := rbwf_of_same hH hR (call_pure cmpF f .findNode rfl _ st x st1 h1)
        (call_nocol cmpF f .findNode rfl _ st x st1 h1)
      -- the pointer returned is an address of t (the tree is the same one)
      have P1' : PtrIn t.addrs x := by
        obtain ⟨t1, H1', S1, P⟩ := call_specK cmpF f .findNode rfl [Val.int k] st x st1 t hH (by simp [PtrIn]) h1
        exact PtrIn.mono (fun a ha => (S1.same a).1 ha) P
      cases x with
      | ptr p =>
        cases p with
        | none =>
          simp [h1, valEq, Env.set] at h
          obtain ⟨_, rfl⟩ := h
          exact ⟨t, H1, R1⟩
        | some a =>
          simp [h1, valEq, Env.set] at h
          cases h2 : call cmpF procs f .deleteNode [Val.ptr (some a)] st1 with
          | error e => simp [h2] at h
          | ok r2 =>
            obtain ⟨y, st2⟩ := r2
            simp [h2] at h
            obtain ⟨_, rfl⟩ := h
            exact DelRB.deleteNode_rb cmpF f a st1 y st2 t H1 R1 P1' h2
      | _ => simp [h1, valEq, Env.set] at h

end Ekit.MiniGo.RBHeap
