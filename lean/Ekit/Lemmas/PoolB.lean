/-
Layer B of the pool invariants: `b.mutex` (sync.RWMutex).  The writer recorded in the model is exactly
a thread whose program counter is inside a write-locked section is the recorded writer (so there is at most one), a writer excludes readers, and
the local copy `v` that a thread took when it acquired the lock is still the value of `totalGo`
(nobody else can write it).  Without the lock guards in the model this invariant fails.
-/
import Ekit.Lemmas.PoolFrame
namespace Ekit.Pool

def LB : Loc where
  G s := s.mu.writer ≠ none → s.mu.readers = 0
  W s i w := (wHeld w.pc = true → s.mu.writer = some (.w i)) ∧ (wHeld w.pc = true → w.v = s.totalGo)
  C s t cl := (cHeld cl.pc = true → s.mu.writer = some (.c t)) ∧ (cHeld cl.pc = true → cl.v = s.totalGo)

theorem invB_init : LB.Inv init := by
  refine ⟨?_, ?_, ?_⟩ <;> simp [LB, init]

theorem invB_wstep (c : Cfg) (s s' : St) (i : Nat) (a : WAct) (hi : LB.Inv s) (h : wStep c s i a = some s') :
    LB.Inv s' := by
  unfold wStep at h
  split at h
  next w hw =>
    have hwi := hi.wk i w hw
    have hg := hi.glob
    have hlt : i < s.workers.length := (List.getElem?_eq_some_iff.1 hw).1
    simp only [LB] at hwi hg
    cases a <;> simp only [wAct] at h <;> (repeat' (split at h)) <;> (try simp at h) <;> (try subst h) <;>
      (refine Loc.inv_worker hw rfl rfl hi ?_ ?_ ?_ ?_
       · first
         | exact hi.glob
         | (simp_all [LB, Mu.free, Mu.noWriter])
       · intro hm; simp_all [LB, Mu.free, Mu.noWriter]
       · first
         | exact fun _ _ _ _ h => h
         | (intro j x hne hx hm
            have hne' : i ≠ j := fun h => hne h.symm
            simp_all [LB, Mu.free, Mu.noWriter])
       · first
         | exact fun _ h => h
         | (intro u hm; simp_all [LB, Mu.free, Mu.noWriter]))
  next => simp at h

set_option maxHeartbeats 1000000 in
theorem invB_cstep (c : Cfg) (s s' : St) (t : Nat) (a : CAct) (hi : LB.Inv s)
    (h : cAct c s t (s.callers t) a = some s') : LB.Inv s' := by
  have hct := hi.cl t
  have hg := hi.glob
  simp only [LB] at hct hg
  cases a <;> simp only [cAct, toUnlock] at h <;> (repeat' (split at h)) <;> (try simp at h) <;> (try subst h) <;>
    first
    | (refine Loc.inv_global (s := s) rfl rfl hi ?_ ?_ ?_
       · first | exact hi.glob | (simp_all [LB, Mu.free, Mu.noWriter])
       · first | exact fun _ h => h | (intro u hm; simp_all [LB, Mu.free, Mu.noWriter])
       · first | exact fun _ _ _ h => h | (intro j x hx hm; simp_all [LB, Mu.free, Mu.noWriter]))
    | (refine Loc.inv_spawn (s := s) (t := t) rfl rfl hi ?_ ?_ ?_ ?_ ?_
       · first | exact hi.glob | (simp_all [LB, Mu.free, Mu.noWriter])
       · intro hm; simp_all [LB, Mu.free, Mu.noWriter]
       · first | exact fun _ _ h => h | (intro u hne hm; have hne' : t ≠ u := fun h => hne h.symm; simp_all [LB, Mu.free, Mu.noWriter])
       · first | exact fun _ _ _ h => h | (intro j x hx hm; simp_all [LB, Mu.free, Mu.noWriter])
       · simp_all [LB, newWorker, Mu.free, Mu.noWriter])
    | (refine Loc.inv_rendezvous (s := s) (t := t) rfl rfl hi ?_ ?_ ?_ ?_ ?_
       · first | exact hi.glob | (simp_all [LB, Mu.free, Mu.noWriter])
       · intro hm; simp_all [LB, Mu.free, Mu.noWriter]
       · first | exact fun _ _ h => h | (intro u hne hm; have hne' : t ≠ u := fun h => hne h.symm; simp_all [LB, Mu.free, Mu.noWriter])
       · intro w0 hw0 hm; simp_all [LB, Mu.free, Mu.noWriter]
       · first | exact fun _ _ _ _ h => h | (intro j x hne hx hm; simp_all [LB, Mu.free, Mu.noWriter]))
    | (refine Loc.inv_caller (s := s) (t := t) rfl rfl hi ?_ ?_ ?_ ?_
       · first | exact hi.glob | (simp_all [LB, Mu.free, Mu.noWriter])
       · intro hm; simp_all [LB, Mu.free, Mu.noWriter]
       · first | exact fun _ _ h => h | (intro u hne hm; have hne' : t ≠ u := fun h => hne h.symm; simp_all [LB, Mu.free, Mu.noWriter])
       · first | exact fun _ _ _ h => h | (intro j x hx hm; simp_all [LB, Mu.free, Mu.noWriter]))

end Ekit.Pool
