/-
A *dead* pool: closing, `interruptCtx` not cancelled, every worker goroutine gone.  Such a state is
stable under every step of every thread (no worker can be created while closing, only a worker on the
`!ok` path or ShutdownNow could cancel), so the channel returned by Shutdown stays open for ever: a
permanent hang.  Used by the negative-witness theorems of C12.
-/
import Ekit.Lemmas.PoolInv
namespace Ekit.Pool
open Ekit.Conc

structure Dead (s : St) : Prop where
  closing : s.life = .closing
  notDone : s.cancelled = false
  gone : ∀ (i : Nat) (w : Worker), s.workers[i]? = some w → w.pc = WPc.exited

theorem dead_wstep (c : Cfg) (s s' : St) (i : Nat) (a : WAct) (hd : Dead s) (h : wStep c s i a = some s') : Dead s' := by
  unfold wStep at h
  split at h
  next w hw =>
    have hp := hd.gone i w hw
    have h1 := hd.closing
    have h2 := hd.notDone
    cases a <;> simp [wAct, hp] at h
    all_goals (try (split at h <;> simp at h))
    -- only `fire` survives
    obtain ⟨_, rfl⟩ := h
    refine ⟨h1, h2, fun j x hx => ?_⟩
    simp only [setW_workers, List.getElem?_set] at hx
    by_cases hij : i = j
    · subst hij
      simp only [if_true] at hx
      split at hx
      · cases hx; rfl
      · cases hx
    · simp only [hij, if_false] at hx
      exact hd.gone j x hx
  next => simp at h

set_option maxHeartbeats 1000000 in
theorem dead_cstep (c : Cfg) (s s' : St) (t : Nat) (a : CAct) (hA : InvA s) (hd : Dead s)
    (h : cAct c s t (s.callers t) a = some s') : Dead s' := by
  have h1 := hd.closing
  have h2 := hd.notDone
  have h3 := hd.gone
  have hcr : crit (s.callers t).pc = false := by
    cases hc : crit (s.callers t).pc
    · rfl
    · have := ((hA.loc t).crit_locked hc).1
      rw [show s.ga.life = s.life from rfl, h1] at this; cases this
  have hsn : snAfter (s.callers t).pc = false := by
    cases hc : snAfter (s.callers t).pc
    · rfl
    · have := (hA.loc t).snAfter_stopped hc
      rw [show s.ga.life = s.life from rfl, h1] at this; cases this
  cases a <;> simp only [cAct, toUnlock] at h <;> (repeat' (split at h)) <;> (try simp at h) <;> (try subst h) <;>
    first
    | exact ⟨h1, h2, h3⟩
    | (exfalso; simp_all; done)
    | (rename_i hw _; have := h3 _ _ hw; exfalso; simp_all; done)

/-- in a dead pool the queue and every run count are frozen -/
theorem dead_wstep_frozen (c : Cfg) (s s' : St) (i : Nat) (a : WAct) (hd : Dead s) (h : wStep c s i a = some s') :
    s'.queue = s.queue ∧ ∀ id, runsN s'.tasks id = runsN s.tasks id := by
  unfold wStep at h
  split at h
  next w hw =>
    have hp := hd.gone i w hw
    cases a <;> simp [wAct, hp] at h
    all_goals (try (split at h <;> simp at h))
    obtain ⟨_, rfl⟩ := h
    exact ⟨rfl, fun _ => rfl⟩
  next => simp at h

set_option maxHeartbeats 1000000 in
theorem dead_cstep_frozen (c : Cfg) (s s' : St) (t : Nat) (a : CAct) (hA : InvA s) (hd : Dead s)
    (h : cAct c s t (s.callers t) a = some s') :
    s'.queue = s.queue ∧ ∀ id, runsN s'.tasks id = runsN s.tasks id := by
  have h1 := hd.closing
  have hcr : crit (s.callers t).pc = false := by
    cases hc : crit (s.callers t).pc
    · rfl
    · have := ((hA.loc t).crit_locked hc).1
      rw [show s.ga.life = s.life from rfl, h1] at this; cases this
  have hsn : snAfter (s.callers t).pc = false := by
    cases hc : snAfter (s.callers t).pc
    · rfl
    · have := (hA.loc t).snAfter_stopped hc
      rw [show s.ga.life = s.life from rfl, h1] at this; cases this
  cases a <;> simp only [cAct, toUnlock] at h <;> (repeat' (split at h)) <;> (try simp at h) <;> (try subst h) <;>
    first
    | exact ⟨rfl, fun _ => rfl⟩
    | (exfalso; simp_all; done)
    | (refine ⟨rfl, fun id => ?_⟩
       first
       | exact runsN_append _ _ _ rfl
       | simp only [St.setC, St.recSub, runsN_modify_subRes, runsN_modify_released])

theorem dead_step (c : Cfg) (hv : c.initGo ≤ c.maxGo) (s s' : St) (l : Label) (hr : (sys c).Reachable s) (hd : Dead s)
    (h : step c s l = some s') : Dead s' := by
  cases l with
  | w i a => exact dead_wstep c s s' i a hd h
  | c t a => exact dead_cstep c s s' t a (reach_invAll c hv s hr).a hd h

/-- once dead, dead for ever: whatever any thread does, the done channel is never closed -/
theorem dead_forever (c : Cfg) (hv : c.initGo ≤ c.maxGo) (s : St) (hr : (sys c).Reachable s) (hd : Dead s) :
    ∀ (ls : List Label) (s' : St), (sys c).run s ls = some s' → Dead s' := by
  intro ls
  induction ls generalizing s with
  | nil => intro s' h; simp [System.run] at h; exact h ▸ hd
  | cons l rest ih =>
    intro s' h
    simp only [System.run] at h
    cases hs : (sys c).step s l with
    | none => rw [hs] at h; cases h
    | some s1 =>
      rw [hs] at h
      exact ih s1 (System.Reachable.step hr hs) (dead_step c hv s s1 l hr hd hs) s' h

theorem dead_forever_frozen (c : Cfg) (hv : c.initGo ≤ c.maxGo) (s : St) (hr : (sys c).Reachable s) (hd : Dead s) :
    ∀ (ls : List Label) (s' : St), (sys c).run s ls = some s' →
      s'.queue = s.queue ∧ ∀ id, runsN s'.tasks id = runsN s.tasks id := by
  intro ls
  induction ls generalizing s with
  | nil => intro s' h; simp [System.run] at h; subst h; exact ⟨rfl, fun _ => rfl⟩
  | cons l rest ih =>
    intro s' h
    simp only [System.run] at h
    cases hs : (sys c).step s l with
    | none => rw [hs] at h; cases h
    | some s1 =>
      rw [hs] at h
      have hf : s1.queue = s.queue ∧ ∀ id, runsN s1.tasks id = runsN s.tasks id := by
        cases l with
        | w i a => exact dead_wstep_frozen c s s1 i a hd hs
        | c t a => exact dead_cstep_frozen c s s1 t a (reach_invAll c hv s hr).a hd hs
      have := ih s1 (System.Reachable.step hr hs) (dead_step c hv s s1 l hr hd hs) s' h
      exact ⟨this.1.trans hf.1, fun id => (this.2 id).trans (hf.2 id)⟩

end Ekit.Pool
