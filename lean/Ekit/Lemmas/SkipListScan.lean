/- The per-level predecessor search of the skip list (C05): `traverse` finds, on every level, the
   last tower of that level in front of the insertion point — whatever the tower heights are.
   Core Lean only. -/
import Ekit.Model.SkipList
import Ekit.Lemmas.Comparator

namespace Ekit.SkipList
open Ekit.Cmp

/-! ### `lastAbove` -/

theorem lastAbove_append (i : Nat) (X Y : List Node) (acc here : Nat) :
    lastAbove i (X ++ Y) acc here = lastAbove i Y (lastAbove i X acc here) (here + X.length) := by
  induction X generalizing acc here with
  | nil => simp [lastAbove]
  | cons n X ih =>
    simp only [List.cons_append, lastAbove, List.length_cons]
    split
    · rw [ih]; congr 1; omega
    · rw [ih]; congr 1; omega

theorem lastAbove_bounds (i : Nat) (A : List Node) (acc here : Nat) (h : acc ≤ here) :
    acc ≤ lastAbove i A acc here ∧ lastAbove i A acc here ≤ here + A.length := by
  induction A generalizing acc here with
  | nil => simp [lastAbove]; omega
  | cons n A ih =>
    simp only [lastAbove, List.length_cons]
    split
    · have := ih (here + 1) (here + 1) (Nat.le_refl _); omega
    · have := ih acc (here + 1) (by omega); omega

theorem lastAbove_none (i : Nat) (A : List Node) (acc here : Nat) (hA : ∀ n ∈ A, n.h ≤ i) :
    lastAbove i A acc here = acc := by
  induction A generalizing here with
  | nil => rfl
  | cons n A ih =>
    have hn : ¬ n.h > i := by have := hA n List.mem_cons_self; omega
    simp only [lastAbove, hn, if_false]
    exact ih _ (fun m hm => hA m (List.mem_cons_of_mem _ hm))

theorem lastAbove_snoc (i : Nat) (X : List Node) (n : Node) (acc here : Nat) (hn : n.h > i) :
    lastAbove i (X ++ [n]) acc here = here + X.length + 1 := by
  rw [lastAbove_append]
  simp [lastAbove, hn]

/-- either no tower is higher than `k`, or the result points at the last one that is -/
theorem lastAbove_cases (k : Nat) (A : List Node) (acc here : Nat) :
    (lastAbove k A acc here = acc ∧ ∀ n ∈ A, n.h ≤ k) ∨
    (∃ X n Y, A = X ++ n :: Y ∧ n.h > k ∧ (∀ y ∈ Y, y.h ≤ k) ∧ lastAbove k A acc here = here + X.length + 1) := by
  induction A generalizing acc here with
  | nil => left; simp [lastAbove]
  | cons n A ih =>
    simp only [lastAbove]
    by_cases hn : n.h > k
    · simp only [hn, if_true]
      rcases ih (here + 1) (here + 1) with ⟨e, hall⟩ | ⟨X, m, Y, e1, e2, e3, e4⟩
      · right; exact ⟨[], n, A, rfl, hn, hall, by simp [e]⟩
      · right; exact ⟨n :: X, m, Y, by simp [e1], e2, e3, by simp [e4]; omega⟩
    · simp only [hn, if_false]
      rcases ih acc (here + 1) with ⟨e, hall⟩ | ⟨X, m, Y, e1, e2, e3, e4⟩
      · left
        refine ⟨e, ?_⟩
        intro m hm
        rcases List.mem_cons.mp hm with rfl | hm'
        · omega
        · exact hall m hm'
      · right; exact ⟨n :: X, m, Y, by simp [e1], e2, e3, by simp [e4]; omega⟩

/-- on level 0 every node counts: the last one is the last node -/
theorem lastAbove_zero (A : List Node) (hA : ∀ n ∈ A, 1 ≤ n.h) : lastAbove 0 A 0 0 = A.length := by
  rcases lastAbove_cases 0 A 0 0 with ⟨e, hall⟩ | ⟨X, n, Y, e1, _, e3, e4⟩
  · cases A with
    | nil => simp [lastAbove]
    | cons n A =>
      have := hA n List.mem_cons_self
      have := hall n List.mem_cons_self
      omega
  · cases Y with
    | nil => rw [e4, e1]; simp
    | cons y Y =>
      have h1 := hA y (by rw [e1]; simp)
      have h2 := e3 y List.mem_cons_self
      omega

/-- descending one level: the level-`i` predecessor is found by continuing from the
    level-`i+1` predecessor -/
theorem lastAbove_descend (i : Nat) (A : List Node) :
    lastAbove i (A.drop (lastAbove (i + 1) A 0 0)) (lastAbove (i + 1) A 0 0) (lastAbove (i + 1) A 0 0)
      = lastAbove i A 0 0 := by
  rcases lastAbove_cases (i + 1) A 0 0 with ⟨e, _⟩ | ⟨X, n, Y, e1, e2, _, e4⟩
  · rw [e]; simp
  · rw [e4]
    have hd : A.drop (0 + X.length + 1) = Y := by
      rw [e1]
      have : X ++ n :: Y = (X ++ [n]) ++ Y := by simp
      rw [this, List.drop_left' (by simp)]
    rw [hd]
    have : A = (X ++ [n]) ++ Y := by rw [e1]; simp
    rw [this, lastAbove_append, lastAbove_snoc i X n 0 0 (by omega)]
    simp

/-- behind the level-`i` predecessor (inside the prefix) no tower reaches level `i` -/
theorem lastAbove_none_after (i : Nat) (A : List Node) : ∀ x ∈ A.drop (lastAbove i A 0 0), x.h ≤ i := by
  rcases lastAbove_cases i A 0 0 with ⟨e, hall⟩ | ⟨X, n, Y, e1, _, e3, e4⟩
  · rw [e]; simpa using hall
  · rw [e4]
    have hd : A.drop (0 + X.length + 1) = Y := by
      rw [e1]
      have : X ++ n :: Y = (X ++ [n]) ++ Y := by simp
      rw [this, List.drop_left' (by simp)]
    rw [hd]; exact e3

/-! ### one level of `traverse` -/

theorem scan_stop (cmp : Cmp) (v : Int) (i : Nat) (B : List Node) (curr here : Nat)
    (hB : ∀ n ∈ B, ¬ cmp n.val v < 0) : scanLevel cmp v i B curr here = curr := by
  induction B generalizing here with
  | nil => rfl
  | cons n B ih =>
    have hn := hB n List.mem_cons_self
    simp only [scanLevel, hn, if_false]
    split
    · rfl
    · exact ih _ (fun m hm => hB m (List.mem_cons_of_mem _ hm))

/-- walking right over the nodes smaller than `v` ends on the last tower of this level among them -/
theorem scan_eq_lastAbove (cmp : Cmp) (v : Int) (i : Nat) (A B : List Node) (curr here : Nat)
    (hA : ∀ n ∈ A, cmp n.val v < 0) (hB : ∀ n ∈ B, ¬ cmp n.val v < 0) :
    scanLevel cmp v i (A ++ B) curr here = lastAbove i A curr here := by
  induction A generalizing curr here with
  | nil => simpa [lastAbove] using scan_stop cmp v i B curr here hB
  | cons n A ih =>
    have hn := hA n List.mem_cons_self
    have hA' : ∀ m ∈ A, cmp m.val v < 0 := fun m hm => hA m (List.mem_cons_of_mem _ hm)
    simp only [List.cons_append, scanLevel, lastAbove, hn, if_true]
    split
    · exact ih _ _ hA'
    · exact ih _ _ hA'

/-! ### the whole `traverse` -/

/-- **`traverse` is the per-level predecessor search**: with the chain split into the nodes smaller
    than `v` (`A`) and the rest (`B`), started at the level-`lvl` predecessor, it returns the
    level-`j` predecessor of the split point in `update[j]` for every `j < lvl`, and ends at the
    level-0 predecessor.  No assumption on the tower heights. -/
theorem traverseFrom_spec (cmp : Cmp) (v : Int) (A B : List Node)
    (hA : ∀ n ∈ A, cmp n.val v < 0) (hB : ∀ n ∈ B, ¬ cmp n.val v < 0) (lvl : Nat) :
    (traverseFrom cmp v (A ++ B) lvl (lastAbove lvl A 0 0)).2.length = lvl ∧
    (∀ j, j < lvl → (traverseFrom cmp v (A ++ B) lvl (lastAbove lvl A 0 0)).2[j]? = some (lastAbove j A 0 0)) ∧
    (0 < lvl → (traverseFrom cmp v (A ++ B) lvl (lastAbove lvl A 0 0)).1 = lastAbove 0 A 0 0) := by
  induction lvl with
  | zero => simp [traverseFrom]
  | succ i ih =>
    have hb := lastAbove_bounds (i + 1) A 0 0 (Nat.le_refl _)
    have hdrop : (A ++ B).drop (lastAbove (i + 1) A 0 0) = A.drop (lastAbove (i + 1) A 0 0) ++ B := by
      rw [List.drop_append_of_le_length (by omega)]
    have hc : scanLevel cmp v i ((A ++ B).drop (lastAbove (i + 1) A 0 0)) (lastAbove (i + 1) A 0 0)
        (lastAbove (i + 1) A 0 0) = lastAbove i A 0 0 := by
      rw [hdrop, scan_eq_lastAbove cmp v i _ B _ _ (fun n hn => hA n (List.mem_of_mem_drop hn)) hB]
      exact lastAbove_descend i A
    simp only [traverseFrom, hc]
    obtain ⟨h1, h2, h4⟩ := ih
    refine ⟨by simp [h1], ?_, ?_⟩
    · intro j hj
      by_cases e : j < i
      · rw [List.getElem?_append_left (by omega)]
        exact h2 j e
      · have : j = i := by omega
        subst this
        rw [List.getElem?_append_right (by omega)]
        simp [h1]
    · intro _
      by_cases e : 0 < i
      · exact h4 e
      · have : i = 0 := by omega
        subst this
        simp [traverseFrom]

end Ekit.SkipList
