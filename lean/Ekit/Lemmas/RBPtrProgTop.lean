/-
Totality at the pointer level: from `NewRBTree`, every history of Add/Delete/Find/Set of the translated red-black tree
runs to completion once the fuel is large enough — no nil dereference, no ill-typed step, every loop terminates — for
every comparator FUNCTION.  Together with `c02_ptr_history_*` the invariants then hold unconditionally.
-/
import Ekit.Lemmas.MiniGoMono
import Ekit.Lemmas.RBPtrProgIns
import Ekit.Lemmas.RBPtrProgDel
import Ekit.Props.C02Ptr

namespace Ekit.MiniGo.RBHeap
open Ekit.MiniGo Ekit.Gen.RBTreeGo

variable (cmpF : Int → Int → Int)

theorem hmono_real : ∀ f f', f ≤ f' → ∀ fn args st r, call cmpF procs f fn args st = .ok r →
    call cmpF procs f' fn args st = .ok r :=
  fun f f' h fn args st r hr => call_mono cmpF procs f f' h fn args st r hr

/-- one operation returns, with enough fuel, from every red-black state -/
theorem op_returns (st : St) (hW : RBWF st) (op : POp) :
    ∃ F, ∀ fuel, F ≤ fuel → ∃ r st', op.run cmpF fuel st = .ok (r, st') := by
  obtain ⟨t, hH, hR⟩ := hW
  cases op with
  | add k v => exact ProgIns.add_returns cmpF (hmono_real cmpF) st t hH hR k v
  | delete k => exact ProgDel.delete_returns cmpF (hmono_real cmpF) st t hH hR k
  | find k => exact ProgIns.find_returns cmpF (hmono_real cmpF) st t hH k
  | set k v => exact ProgIns.set_returns cmpF (hmono_real cmpF) st t hH k v

theorem run_mono (op : POp) (st : St) (f f' : Nat) (h : f ≤ f') (r : Val × St)
    (hr : op.run cmpF f st = .ok r) : op.run cmpF f' st = .ok r := by
  cases op <;> exact hmono_real cmpF f f' h _ _ _ _ hr

theorem runOps_mono (ops : List POp) : ∀ (st : St) (f f' : Nat), f ≤ f' → ∀ st', runOps cmpF f st ops = some st' →
    runOps cmpF f' st ops = some st' := by
  induction ops with
  | nil => intro st f f' _ st' h; simpa [runOps] using h
  | cons op ops ih =>
    intro st f f' hle st' h
    simp only [runOps] at h ⊢
    cases h1 : op.run cmpF f st with
    | error e => simp [h1] at h
    | ok r1 =>
      obtain ⟨r, st1⟩ := r1
      rw [h1] at h
      rw [run_mono cmpF op st f f' hle _ h1]
      exact ih st1 f f' hle st' h

/-- C02, totality: every history runs to completion once the fuel is large enough -/
theorem runOps_total (ops : List POp) : ∀ st, RBWF st → ∃ F st', ∀ fuel, F ≤ fuel → runOps cmpF fuel st ops = some st' := by
  induction ops with
  | nil => intro st _; exact ⟨0, st, fun _ _ => rfl⟩
  | cons op ops ih =>
    intro st hW
    obtain ⟨F1, h1⟩ := op_returns cmpF st hW op
    obtain ⟨r, st1, hr⟩ := h1 F1 (Nat.le_refl _)
    have hW1 : RBWF st1 := c02_ptr_step_rb cmpF F1 st op r st1 hW hr
    obtain ⟨F2, st2, h2⟩ := ih st1 hW1
    refine ⟨max F1 F2, st2, fun fuel hf => ?_⟩
    have hf1 : F1 ≤ fuel := Nat.le_trans (Nat.le_max_left _ _) hf
    have hf2 : F2 ≤ fuel := Nat.le_trans (Nat.le_max_right _ _) hf
    simp only [runOps, run_mono cmpF op st F1 fuel hf1 _ hr]
    exact h2 fuel hf2

end Ekit.MiniGo.RBHeap
