/-
Splice and unlink on the pointer-level linked list keep the ring invariant and act on the list of
values as insertion / deletion at the position of the node.
-/
import Ekit.Lemmas.LinkedRing

namespace Ekit.Lists.Ring
open Ekit.Go

/-- decomposition of the thread `head :: L ++ R ++ [tail]` around the gap between `L` and `R` -/
theorem thread_split (hd tl : Nat) (L R : List Nat) :
    ∃ A p y B, hd :: L = A ++ [p] ∧ R ++ [tl] = y :: B ∧ y = (R ++ [tl]).head (by simp) ∧
      hd :: (L ++ R) ++ [tl] = A ++ p :: y :: B := by
  obtain ⟨A, p, hP⟩ : ∃ A p, hd :: L = A ++ [p] := by
    rcases List.eq_nil_or_concat (hd :: L) with h | ⟨A, p, h⟩
    · cases h
    · exact ⟨A, p, by simpa using h⟩
  obtain ⟨y, B, hB⟩ : ∃ y B, R ++ [tl] = y :: B := by
    cases R with
    | nil => exact ⟨tl, [], rfl⟩
    | cons r R' => exact ⟨r, R' ++ [tl], rfl⟩
  refine ⟨A, p, y, B, hP, hB, by simp [hB], ?_⟩
  have : hd :: (L ++ R) ++ [tl] = (hd :: L) ++ (R ++ [tl]) := by simp
  rw [this, hP, hB]; simp

/-- what `Nodup` of `A ++ p :: y :: B` gives -/
theorem nodup_facts {A : List Nat} {p y : Nat} {B : List Nat} (hnd : (A ++ p :: y :: B).Nodup) :
    p ∉ A ∧ y ∉ A ∧ p ∉ y :: B ∧ y ∉ B ∧ p ≠ y := by
  rw [List.nodup_append] at hnd
  obtain ⟨_, hnd2, hnd3⟩ := hnd
  have hpyB : p ∉ y :: B := (List.nodup_cons.1 hnd2).1
  exact ⟨fun hh => hnd3 p hh p (by simp) rfl, fun hh => hnd3 y hh y (by simp) rfl, hpyB,
    (List.nodup_cons.1 (List.nodup_cons.1 hnd2).2).1, fun e => hpyB (by simp [e])⟩

/-- `spliceBefore` the node that follows the first `L.length` elements (the `tail` sentinel when
    `R = []`): does not panic, keeps the invariant with the fresh address inserted there, and the
    values are the old ones with `t` inserted at that position. -/
theorem spliceBefore_spec (l : LL) (L R : List Nat) (t : Int) (hi : Inv l (L ++ R)) :
    ∃ l', spliceBefore l ((R ++ [l.tail]).head (by simp)) t = some l' ∧ Inv l' (L ++ l.alloc :: R) ∧
      vals l' (L ++ l.alloc :: R) = vals l L ++ t :: vals l R ∧ l'.head = l.head ∧ l'.tail = l.tail := by
  obtain ⟨A, p, y, B, hP, hB, hy, hseq⟩ := thread_split l.head l.tail L R
  rw [← hy]
  have hfwd := hi.fwd
  have hbwd := hi.bwd
  have hnd := hi.nodup
  have hfr := hi.fresh
  rw [hseq] at hfwd hbwd hnd hfr
  have hrev : (A ++ p :: y :: B).reverse = B.reverse ++ y :: p :: A.reverse := by simp
  rw [hrev] at hbwd
  have hyp : (l.h y).prev = some p := ((chain_append_cons _ B.reverse y p A.reverse).1 hbwd).2.1
  obtain ⟨hpA, hyA, hpyB, hyB, hpy⟩ := nodup_facts hnd
  have hz : ∀ a ∈ A ++ p :: y :: B, a ≠ l.alloc := fun a ha e => by have := hfr a ha; omega
  have hzA : l.alloc ∉ A := fun hh => hz _ (by simp [hh]) rfl
  have hzp : l.alloc ≠ p := fun e => hz p (by simp) e.symm
  have hzy : l.alloc ≠ y := fun e => hz y (by simp) e.symm
  have hzB : l.alloc ∉ B := fun hh => hz _ (by simp [hh]) rfl
  rw [spliceBefore_eq l y p t hyp]
  have hseq' : l.head :: (L ++ l.alloc :: R) ++ [l.tail] = A ++ p :: l.alloc :: y :: B := by
    have : l.head :: (L ++ l.alloc :: R) ++ [l.tail] = (l.head :: L) ++ l.alloc :: (R ++ [l.tail]) := by simp
    rw [this, hP, hB]; simp
  refine ⟨_, rfl, ⟨?_, ?_, ?_, ?_, ?_⟩, ?_, rfl, rfl⟩
  · show Chain _ (l.head :: (L ++ l.alloc :: R) ++ [l.tail])
    rw [hseq']
    refine chain_insert _ _ A p y l.alloc B hfwd ?_ ?_ ?_ hpA hpyB hzA ?_
    · show (spliceHeap l.h l.alloc p y t p).next = _
      rw [spliceHeap_next _ _ _ _ _ hpy hzp hzy]; simp
    · show (spliceHeap l.h l.alloc p y t l.alloc).next = _
      rw [spliceHeap_next _ _ _ _ _ hpy hzp hzy]; simp [hzp]
    · intro u hup huz
      show (spliceHeap l.h l.alloc p y t u).next = _
      rw [spliceHeap_next _ _ _ _ _ hpy hzp hzy]; simp [hup, huz]
    · simp [hzy, hzB]
  · show Chain _ (l.head :: (L ++ l.alloc :: R) ++ [l.tail]).reverse
    rw [hseq']
    have : (A ++ p :: l.alloc :: y :: B).reverse = B.reverse ++ y :: l.alloc :: p :: A.reverse := by simp
    rw [this]
    refine chain_insert _ _ B.reverse y p l.alloc A.reverse hbwd ?_ ?_ ?_ ?_ ?_ ?_ ?_
    · show (spliceHeap l.h l.alloc p y t y).prev = _
      rw [spliceHeap_prev _ _ _ _ _ hpy hzp hzy]; simp
    · show (spliceHeap l.h l.alloc p y t l.alloc).prev = _
      rw [spliceHeap_prev _ _ _ _ _ hpy hzp hzy]; simp [hzy]
    · intro u huy huz
      show (spliceHeap l.h l.alloc p y t u).prev = _
      rw [spliceHeap_prev _ _ _ _ _ hpy hzp hzy]; simp [huy, huz]
    · simpa using hyB
    · simp [Ne.symm hpy, hyA]
    · simpa using hzB
    · simp [hzp, hzA]
  · show (l.head :: (L ++ l.alloc :: R) ++ [l.tail]).Nodup
    rw [hseq']
    have h1 : (A ++ p :: y :: B).Nodup := hnd
    rw [List.nodup_append] at h1 ⊢
    obtain ⟨a1, a2, a3⟩ := h1
    refine ⟨a1, ?_, ?_⟩
    · rw [List.nodup_cons] at a2 ⊢
      refine ⟨?_, ?_⟩
      · simp only [List.mem_cons, not_or]
        exact ⟨Ne.symm hzp, fun e => hpyB (by simp [e]), fun hh => hpyB (by simp [hh])⟩
      · rw [List.nodup_cons]
        exact ⟨by simp [hzy, hzB], a2.2⟩
    · intro a ha b hb
      simp only [List.mem_cons] at hb
      rcases hb with rfl | rfl | hb
      · exact a3 a ha _ (by simp)
      · intro e; exact hzA (e ▸ ha)
      · exact a3 a ha b (by simp only [List.mem_cons]; exact Or.inr hb)
  · intro a ha
    show a < l.alloc + 1
    rw [hseq'] at ha
    simp only [List.mem_append, List.mem_cons] at ha
    rcases ha with ha | rfl | rfl | ha
    · have := hfr a (by simp [ha]); omega
    · have := hfr a (by simp); omega
    · omega
    · have := hfr a (by simp only [List.mem_append, List.mem_cons]; exact Or.inr (Or.inr ha)); omega
  · show l.length + 1 = ((L ++ l.alloc :: R).length : Int)
    rw [hi.len]; simp; omega
  · -- values
    have hLR : ∀ a ∈ L ++ R, a ≠ l.alloc := by
      intro a ha
      apply hz a
      rw [← hseq]
      simp only [List.mem_append, List.cons_append, List.mem_cons] at ha ⊢
      rcases ha with ha | ha
      · exact Or.inr (Or.inl (Or.inl ha))
      · exact Or.inr (Or.inl (Or.inr ha))
    simp only [vals, List.map_append, List.map_cons]
    show List.map (fun a => (spliceHeap l.h l.alloc p y t a).val) L ++
        (spliceHeap l.h l.alloc p y t l.alloc).val :: List.map (fun a => (spliceHeap l.h l.alloc p y t a).val) R = _
    rw [spliceHeap_val _ _ _ _ _ hpy hzp hzy]
    simp only [if_true]
    congr 1
    · apply List.map_congr_left
      intro a ha
      rw [spliceHeap_val _ _ _ _ _ hpy hzp hzy]
      simp [hLR a (by simp [ha])]
    · congr 1
      apply List.map_congr_left
      intro a ha
      rw [spliceHeap_val _ _ _ _ _ hpy hzp hzy]
      simp [hLR a (by simp [ha])]

/-- `unlink` of element number `L.length`: does not panic, returns its value, keeps the invariant with
    that address removed. -/
theorem unlink_spec (l : LL) (L R : List Nat) (x : Nat) (hi : Inv l (L ++ x :: R)) :
    ∃ l', unlink l x = some (l', (l.h x).val) ∧ Inv l' (L ++ R) ∧
      vals l' (L ++ R) = vals l (L ++ R) ∧ l'.head = l.head ∧ l'.tail = l.tail := by
  obtain ⟨A, p, x', B', hP, hB, hy, hseq⟩ := thread_split l.head l.tail L (x :: R)
  have hx : x' = x := by rw [hy]; rfl
  subst hx
  -- `B' = R ++ [tail]` is non-empty: `y :: B`
  obtain ⟨y, B, hB2⟩ : ∃ y B, B' = y :: B := by
    have : B' = R ++ [l.tail] := by simpa using hB.symm
    rw [this]
    cases R with
    | nil => exact ⟨l.tail, [], rfl⟩
    | cons r R' => exact ⟨r, R' ++ [l.tail], rfl⟩
  subst hB2
  have hRB : R ++ [l.tail] = y :: B := by simpa using hB
  have hfwd := hi.fwd
  have hbwd := hi.bwd
  have hnd := hi.nodup
  have hfr := hi.fresh
  rw [hseq] at hfwd hbwd hnd hfr
  have hrev : (A ++ p :: x' :: y :: B).reverse = B.reverse ++ y :: x' :: p :: A.reverse := by simp
  rw [hrev] at hbwd
  have hxp : (l.h x').prev = some p := by
    have := (chain_append_cons _ (B.reverse ++ [y]) x' p A.reverse).1 (by simpa using hbwd)
    exact this.2.1
  have hxn : (l.h x').next = some y := by
    have := (chain_append_cons _ (A ++ [p]) x' y B).1 (by simpa using hfwd)
    exact this.2.1
  -- distinctness
  obtain ⟨hpA, hxA, hpxB, hxyB, hpx⟩ := nodup_facts hnd
  have hnd2 : (A ++ [p] ++ x' :: y :: B).Nodup := by simpa using hnd
  obtain ⟨hxAp, hyAp, hxyB', hyB, hxy⟩ := nodup_facts hnd2
  have hpy : p ≠ y := fun e => hpxB (by simp [e])
  have hpB : p ∉ y :: B := fun hh => hpxB (List.mem_cons_of_mem _ hh)
  have hyA : y ∉ A := fun hh => hyAp (by simp [hh])
  rw [unlink_eq l p x' y (Ne.symm hpx) hxp hxn]
  have hseq' : l.head :: (L ++ R) ++ [l.tail] = A ++ p :: y :: B := by
    have : l.head :: (L ++ R) ++ [l.tail] = (l.head :: L) ++ (R ++ [l.tail]) := by simp
    rw [this, hP, hRB]; simp
  refine ⟨_, rfl, ⟨?_, ?_, ?_, ?_, ?_⟩, ?_, rfl, rfl⟩
  · show Chain _ (l.head :: (L ++ R) ++ [l.tail])
    rw [hseq']
    refine chain_delete _ _ A p x' y B hfwd ?_ ?_ hpA hxA hpB hxyB
    · show (unlinkHeap l.h p x' y p).next = _
      rw [unlinkHeap_next _ _ _ _ hpy (Ne.symm hpx) hxy]; simp [hpx]
    · intro u hup hux
      show (unlinkHeap l.h p x' y u).next = _
      rw [unlinkHeap_next _ _ _ _ hpy (Ne.symm hpx) hxy]; simp [hup, hux]
  · show Chain _ (l.head :: (L ++ R) ++ [l.tail]).reverse
    rw [hseq']
    have : (A ++ p :: y :: B).reverse = B.reverse ++ y :: p :: A.reverse := by simp
    rw [this]
    refine chain_delete _ _ B.reverse y x' p A.reverse hbwd ?_ ?_ ?_ ?_ ?_ ?_
    · show (unlinkHeap l.h p x' y y).prev = _
      rw [unlinkHeap_prev _ _ _ _ hpy (Ne.symm hpx) hxy]; simp [Ne.symm hxy]
    · intro u huy hux
      show (unlinkHeap l.h p x' y u).prev = _
      rw [unlinkHeap_prev _ _ _ _ hpy (Ne.symm hpx) hxy]; simp [huy, hux]
    · simpa using hyB
    · simp only [List.mem_reverse]; exact fun hh => hxyB (List.mem_cons_of_mem _ hh)
    · simp [Ne.symm hpy, hyA]
    · simp [Ne.symm hpx, hxA]
  · show (l.head :: (L ++ R) ++ [l.tail]).Nodup
    rw [hseq']
    have h1 : (A ++ p :: x' :: y :: B).Nodup := hnd
    rw [List.nodup_append] at h1 ⊢
    obtain ⟨a1, a2, a3⟩ := h1
    refine ⟨a1, ?_, ?_⟩
    · rw [List.nodup_cons] at a2 ⊢
      exact ⟨hpB, (List.nodup_cons.1 a2.2).2⟩
    · intro a ha b hb
      apply a3 a ha b
      simp only [List.mem_cons] at hb ⊢
      rcases hb with rfl | rfl | hb
      · exact Or.inl rfl
      · exact Or.inr (Or.inr (Or.inl rfl))
      · exact Or.inr (Or.inr (Or.inr hb))
  · intro a ha
    apply hfr a
    rw [hseq'] at ha
    simp only [List.mem_append, List.mem_cons] at ha ⊢
    rcases ha with ha | rfl | rfl | ha
    · exact Or.inl ha
    · exact Or.inr (Or.inl rfl)
    · exact Or.inr (Or.inr (Or.inr (Or.inl rfl)))
    · exact Or.inr (Or.inr (Or.inr (Or.inr ha)))
  · show l.length - 1 = ((L ++ R).length : Int)
    rw [hi.len]; simp; omega
  · simp only [vals]
    apply List.map_congr_left
    intro a _
    exact unlinkHeap_val l.h p x' y a

end Ekit.Lists.Ring
