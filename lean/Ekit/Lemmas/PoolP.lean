/-
Layer P of the pool invariants (C12, the part of "Shutdown completes" that does hold): after a successful
graceful Shutdown that found at least one worker, and as long as no worker has left through the
idle-timeout / above-core exits while closing (`badExits = 0`), the pool is never dead — there is a live
worker, or a worker about to cancel `interruptCtx`, or (closing) a worker between its decrement on the
`!ok` path and the closing→stopped CAS, which it will win.
-/
import Ekit.Lemmas.PoolInv
namespace Ekit.Pool

def cancelW (w : Worker) : Bool := decide (w.pc = .clCancel)
def finW (w : Worker) : Bool := decide (w.pc = .clNumWant ∨ w.pc = .clNumHeld ∨ w.pc = .clCas)

/-- the hypothesis of the partial theorem -/
def HP (s : St) : Prop := s.graceful = true ∧ s.cancelled = false ∧ s.badExits = 0 ∧ 0 < s.liveAtShut

def LP : Loc where
  G s := (HP s → 0 < s.workers.countP liveW ∨ 0 < s.workers.countP cancelW ∨
                 (s.life = .closing ∧ 0 < s.workers.countP finW)) ∧
         (s.graceful = true → s.life = .stopped → s.cancelled = false → 0 < s.workers.countP cancelW)
  W _ _ _ := True
  C _ _ _ := True

theorem invP_init : LP.Inv init := by
  refine ⟨?_, ?_, ?_⟩ <;> simp [LP, init, HP]

theorem invP_wstep (c : Cfg) (s s' : St) (i : Nat) (a : WAct) (hA : InvA s) (hC : (LCn c).Inv s) (hG : LG.Inv s)
    (hi : LP.Inv s) (h : wStep c s i a = some s') : LP.Inv s' := by
  unfold wStep at h
  split at h
  next w hw =>
    have hg := hi.glob
    have hcg := hC.glob
    have hgw := hG.wk i w hw
    have hag := hA.glob.graceful_begun
    simp only [LP, HP] at hg
    simp only [LCn] at hcg
    simp only [LG] at hgw
    simp only [St.ga] at hag
    cases a <;> simp only [wAct] at h <;> (repeat' (split at h)) <;> (try simp at h) <;> (try subst h) <;>
      (refine Loc.inv_worker hw rfl rfl hi ?_ (fun _ => trivial) (fun _ _ _ _ _ => trivial) (fun _ _ => trivial)
       simp only [LP, HP, setW_workers, setW_life, setW_graceful, setW_cancelled, setW_badExits, setW_liveAtShut]
       rw [countP_set_eq liveW _ _ _ _ hw, countP_set_eq cancelW _ _ _ _ hw, countP_set_eq finW _ _ _ _ hw]
       try simp only [Nat.add_sub_cancel]
       generalize List.countP liveW s.workers = nl at *
       generalize List.countP cancelW s.workers = nc at *
       generalize List.countP finW s.workers = nf at *
       cases hlife : s.life <;> simp_all [liveW, cancelW, finW, closingNow, Nat.add_sub_cancel] <;>
         (try simp only [Nat.add_sub_cancel] at *) <;>
         first | done | omega | assumption | (by_cases hl : live w.pc = true <;> simp_all))
  next => simp at h

end Ekit.Pool
