/-
The pointer-level linked list (Model/LinkedRing.lean) refines the value-level model
`LinkedList.step` that the trace acceptor executes: ring invariant, pointer walks, splice, unlink.
-/
import Ekit.Model.LinkedRing
import Ekit.Lemmas.Lists

namespace Ekit.Lists.Ring
open Ekit.Go

/-! ### small list facts -/

theorem insertIdx_length_append {α} (L R : List α) (t : α) : (L ++ R).insertIdx L.length t = L ++ t :: R := by
  induction L with
  | nil => simp
  | cons a L ih => simpa [List.insertIdx_succ_cons] using ih

theorem eraseIdx_length_append {α} (L R : List α) (x : α) : (L ++ x :: R).eraseIdx L.length = L ++ R := by
  induction L with
  | nil => simp
  | cons a L ih => simp [ih]

theorem getD_length_append (L R : List Int) (x : Int) : (L ++ x :: R).getD L.length 0 = x := by
  simp [List.getD]

theorem set_length_append {α} (L R : List α) (x t : α) : (L ++ x :: R).set L.length t = L ++ t :: R := by
  induction L with
  | nil => simp
  | cons a L ih => simp [ih]

/-! ### one-directional pointer chains -/

/-- consecutive elements of the list are linked by the pointer field `f` -/
def Chain (f : Nat → Option Nat) : List Nat → Prop
  | u :: w :: rest => f u = some w ∧ Chain f (w :: rest)
  | _ => True

theorem chain_append_cons (f : Nat → Option Nat) (A : List Nat) (p y : Nat) (B : List Nat) :
    Chain f (A ++ p :: y :: B) ↔ Chain f (A ++ [p]) ∧ f p = some y ∧ Chain f (y :: B) := by
  induction A with
  | nil => simp [Chain]
  | cons a A ih =>
    cases A with
    | nil => simp [Chain, and_assoc]
    | cons a' A' =>
      simp only [List.cons_append, Chain] at ih ⊢
      rw [ih]
      simp [and_assoc]

/-- pointers of the nodes that are sources of the chain (all but the last) unchanged ⇒ still a chain -/
theorem chain_congr (f f' : Nat → Option Nat) (seq : List Nat) (h : Chain f seq)
    (hs : ∀ u ∈ seq, f' u = f u) : Chain f' seq := by
  induction seq with
  | nil => trivial
  | cons a rest ih =>
    cases rest with
    | nil => trivial
    | cons b rest' =>
      simp only [Chain] at h ⊢
      refine ⟨by rw [hs a (by simp)]; exact h.1, ih h.2 (fun u hu => hs u (List.mem_cons_of_mem _ hu))⟩

/-- the pointer of the LAST node of the prefix is irrelevant -/
theorem chain_prefix_congr (f f' : Nat → Option Nat) (A : List Nat) (p : Nat) (h : Chain f (A ++ [p]))
    (hs : ∀ u ∈ A, f' u = f u) : Chain f' (A ++ [p]) := by
  induction A with
  | nil => trivial
  | cons a A ih =>
    cases A with
    | nil =>
      simp only [List.cons_append, List.nil_append, Chain, and_true] at h ⊢
      rw [hs a (by simp)]; exact h
    | cons a' A' =>
      simp only [List.cons_append, Chain] at h ih ⊢
      refine ⟨by rw [hs a (by simp)]; exact h.1, ih h.2 (fun u hu => hs u (List.mem_cons_of_mem _ hu))⟩

/-- splice `z` between `p` and `y` -/
theorem chain_insert (f f' : Nat → Option Nat) (A : List Nat) (p y z : Nat) (B : List Nat)
    (h : Chain f (A ++ p :: y :: B))
    (hp : f' p = some z) (hz : f' z = some y)
    (hother : ∀ u, u ≠ p → u ≠ z → f' u = f u)
    (hpA : p ∉ A) (hpB : p ∉ y :: B) (hzA : z ∉ A) (hzB : z ∉ y :: B) :
    Chain f' (A ++ p :: z :: y :: B) := by
  obtain ⟨h1, _, h3⟩ := (chain_append_cons f A p y B).1 h
  rw [chain_append_cons f' A p z (y :: B)]
  refine ⟨?_, hp, ?_⟩
  · exact chain_prefix_congr f f' A p h1 (fun u hu => hother u (fun e => hpA (e ▸ hu)) (fun e => hzA (e ▸ hu)))
  · show Chain f' (z :: y :: B)
    refine ⟨hz, chain_congr f f' (y :: B) h3 (fun u hu => hother u ?_ ?_)⟩
    · intro e; exact hpB (e ▸ hu)
    · intro e; exact hzB (e ▸ hu)

/-- unlink `x` from between `p` and `y` -/
theorem chain_delete (f f' : Nat → Option Nat) (A : List Nat) (p x y : Nat) (B : List Nat)
    (h : Chain f (A ++ p :: x :: y :: B))
    (hp : f' p = some y)
    (hother : ∀ u, u ≠ p → u ≠ x → f' u = f u)
    (hpA : p ∉ A) (hxA : x ∉ A) (hpB : p ∉ y :: B) (hxB : x ∉ y :: B) :
    Chain f' (A ++ p :: y :: B) := by
  obtain ⟨h1, _, h3⟩ := (chain_append_cons f A p x (y :: B)).1 h
  have h4 : Chain f (y :: B) := h3.2
  rw [chain_append_cons f' A p y B]
  refine ⟨?_, hp, ?_⟩
  · exact chain_prefix_congr f f' A p h1 (fun u hu => hother u (fun e => hpA (e ▸ hu)) (fun e => hxA (e ▸ hu)))
  · refine chain_congr f f' (y :: B) h4 (fun u hu => hother u ?_ ?_)
    · intro e; exact hpB (e ▸ hu)
    · intro e; exact hxB (e ▸ hu)

/-- walking `n` pointers along a chain from its first element reaches its `n`-th element -/
theorem walk_chain (h : Nat → Node) (f : Node → Option Nat) (a : Nat) (rest : List Nat) (n : Nat)
    (hc : Chain (fun u => f (h u)) (a :: rest)) (hn : n < (a :: rest).length) :
    walk h f a n = some ((a :: rest)[n]) := by
  induction n generalizing a rest with
  | zero => rfl
  | succ n ih =>
    cases rest with
    | nil => simp at hn
    | cons b rest' =>
      simp only [Chain] at hc
      simp only [walk, hc.1]
      rw [ih b rest' hc.2 (by simpa using hn)]
      simp

/-! ### the ring invariant -/

/-- `as` are the addresses of the element nodes in order: forward and backward pointers thread
    `head, as…, tail`; all distinct; all allocated; `length` counts them. -/
structure Inv (l : LL) (as : List Nat) : Prop where
  fwd : Chain (fun u => (l.h u).next) (l.head :: as ++ [l.tail])
  bwd : Chain (fun u => (l.h u).prev) (l.head :: as ++ [l.tail]).reverse
  nodup : (l.head :: as ++ [l.tail]).Nodup
  fresh : ∀ a ∈ l.head :: as ++ [l.tail], a < l.alloc
  len : l.length = as.length

/-- the values held, in list order -/
def vals (l : LL) (as : List Nat) : List Int := as.map fun a => (l.h a).val

theorem inv_new : Inv new [] := by
  refine ⟨?_, ?_, ?_, ?_, rfl⟩ <;> simp [new, upd, Chain]

/-- `findNode(k)` for `0 ≤ k < len` returns the address of element `k` — from whichever end -/
theorem findNode_spec (l : LL) (L R : List Nat) (x : Nat) (hi : Inv l (L ++ x :: R)) :
    findNode l L.length = some x := by
  have hlen : l.length = (L.length + (R.length + 1) : Nat) := by rw [hi.len]; simp
  unfold findNode
  split
  · have hn : ((L.length : Int) + 1).toNat = L.length + 1 := by omega
    rw [hn, walk_chain l.h (·.next) l.head ((L ++ x :: R) ++ [l.tail]) (L.length + 1) hi.fwd (by simp <;> omega)]
    simp
  · have hn : (l.length - (L.length : Int)).toNat = R.length + 1 := by omega
    have hr : (l.head :: (L ++ x :: R) ++ [l.tail]).reverse = l.tail :: (R.reverse ++ x :: (L.reverse ++ [l.head])) := by
      simp
    have hb := hi.bwd
    rw [hr] at hb
    rw [hn, walk_chain l.h (·.prev) l.tail _ (R.length + 1) hb (by simp <;> omega)]
    have : (l.tail :: (R.reverse ++ x :: (L.reverse ++ [l.head])))[R.length + 1]'(by simp <;> omega) = x := by
      simp only [List.getElem_cons_succ]
      rw [List.getElem_append_right (by simp)]
      simp
    rw [this]


/-! ### the heaps produced by splice / unlink, field by field -/

@[simp] theorem upd_same (h : Nat → Node) (a : Nat) (n : Node) : upd h a n a = n := by simp [upd]
theorem upd_ne (h : Nat → Node) (a u : Nat) (n : Node) (hne : u ≠ a) : upd h a n u = h u := by simp [upd, hne]

/-- the heap after `node := &node{prev: p, next: y, val: t}` at address `z`; `p.next = node`; `y.prev = node` -/
def spliceHeap (h : Nat → Node) (z p y : Nat) (t : Int) : Nat → Node :=
  let h1 := upd h z ⟨some p, some y, t⟩
  let h2 := upd h1 p { h1 p with next := some z }
  upd h2 y { h2 y with prev := some z }

theorem spliceHeap_next (h : Nat → Node) (z p y : Nat) (t : Int) (hpy : p ≠ y) (hzp : z ≠ p) (hzy : z ≠ y) (u : Nat) :
    (spliceHeap h z p y t u).next = if u = p then some z else if u = z then some y else (h u).next := by
  simp only [spliceHeap, upd]
  by_cases h1 : u = y <;> by_cases h2 : u = p <;> by_cases h3 : u = z <;> simp [h1, h2, h3] <;> simp_all

theorem spliceHeap_prev (h : Nat → Node) (z p y : Nat) (t : Int) (hpy : p ≠ y) (hzp : z ≠ p) (hzy : z ≠ y) (u : Nat) :
    (spliceHeap h z p y t u).prev = if u = y then some z else if u = z then some p else (h u).prev := by
  simp only [spliceHeap, upd]
  by_cases h1 : u = y <;> by_cases h2 : u = p <;> by_cases h3 : u = z <;> simp [h1, h2, h3] <;> simp_all

theorem spliceHeap_val (h : Nat → Node) (z p y : Nat) (t : Int) (hpy : p ≠ y) (hzp : z ≠ p) (hzy : z ≠ y) (u : Nat) :
    (spliceHeap h z p y t u).val = if u = z then t else (h u).val := by
  simp only [spliceHeap, upd]
  by_cases h1 : u = y <;> by_cases h2 : u = p <;> by_cases h3 : u = z <;> simp [h1, h2, h3] <;> simp_all

theorem spliceBefore_eq (l : LL) (y p : Nat) (t : Int) (hyp : (l.h y).prev = some p) :
    spliceBefore l y t = some { l with h := spliceHeap l.h l.alloc p y t, alloc := l.alloc + 1, length := l.length + 1 } := by
  simp only [spliceBefore, upd_same, hyp, spliceHeap]

/-- the heap after `p.next = y; y.prev = p; x.prev, x.next = nil, nil` -/
def unlinkHeap (h : Nat → Node) (p x y : Nat) : Nat → Node :=
  let h1 := upd h p { h p with next := some y }
  let h2 := upd h1 y { h1 y with prev := some p }
  upd h2 x { h2 x with prev := none, next := none }

theorem unlinkHeap_next (h : Nat → Node) (p x y : Nat) (hpy : p ≠ y) (hxp : x ≠ p) (hxy : x ≠ y) (u : Nat) :
    (unlinkHeap h p x y u).next = if u = x then none else if u = p then some y else (h u).next := by
  simp only [unlinkHeap, upd]
  by_cases h1 : u = y <;> by_cases h2 : u = p <;> by_cases h3 : u = x <;> simp [h1, h2, h3] <;> simp_all

theorem unlinkHeap_prev (h : Nat → Node) (p x y : Nat) (hpy : p ≠ y) (hxp : x ≠ p) (hxy : x ≠ y) (u : Nat) :
    (unlinkHeap h p x y u).prev = if u = x then none else if u = y then some p else (h u).prev := by
  simp only [unlinkHeap, upd]
  by_cases h1 : u = y <;> by_cases h2 : u = p <;> by_cases h3 : u = x <;> simp [h1, h2, h3] <;> simp_all

theorem unlinkHeap_val (h : Nat → Node) (p x y : Nat) (u : Nat) : (unlinkHeap h p x y u).val = (h u).val := by
  simp only [unlinkHeap, upd]
  by_cases h1 : u = y <;> by_cases h2 : u = p <;> by_cases h3 : u = x <;> simp [h1, h2, h3] <;> simp_all

theorem unlink_eq (l : LL) (p x y : Nat) (hxp : x ≠ p) (hp : (l.h x).prev = some p) (hn : (l.h x).next = some y) :
    unlink l x = some ({ l with h := unlinkHeap l.h p x y, length := l.length - 1 }, (l.h x).val) := by
  simp only [unlink, hp, upd_ne _ _ _ _ hxp, hn]
  have : (unlinkHeap l.h p x y x).val = (l.h x).val := unlinkHeap_val l.h p x y x
  simp only [unlinkHeap] at this ⊢
  rw [this]

end Ekit.Lists.Ring
