/-
Further invariants of the Cond model: every linked / token-holding / targeted node has an owner
(so a token always goes to a live waiter), an error result implies an ended context, and the ghost
counters count labels of the run.
-/
import Ekit.Lemmas.CondCount
namespace Ekit.Cond
open Ekit.Conc
variable {s s' : State} {l : Label}

/-- every node that is linked, holds a token or is being sent to belongs to some thread -/
def Owned (s : State) : Prop :=
  ∀ n, (n ∈ s.list ∨ n ∈ s.full ∨ s.tgt = some n) → ∃ t, (s.pc t).node = some n

theorem owned_init : Owned init := by
  intro n h; simp [init, State.tgt] at h

/-- the owner keeps the node across any step unless it frees it, and it frees only clean nodes -/
theorem node_kept (hs : step s l = some s') (t : Tid) (n : NodeId) (h : (s.pc t).node = some n) :
    (s'.pc t).node = some n ∨ (∃ r, s.pc t = .wFree n r) ∨ (s'.pc t).isFault = true := by
  step_cases hs <;> simp only [upd_apply] <;> (try split) <;> grind [Pc.node, bodyStart_node, Pc.isFault]

theorem shared_sub (hi : Inv s) (hs : step s l = some s') (n : NodeId)
    (h : n ∈ s'.list ∨ n ∈ s'.full ∨ s'.tgt = some n) :
    (n ∈ s.list ∨ n ∈ s.full ∨ s.tgt = some n) ∨ (∃ t, (s.pc t) = .wPush n) := by
  have h1 := hi.mutex; have h2 := hi.muHeld
  have h9 := tgt_eq s; have h10 := tgt_none s
  revert h
  step_cases hs <;> simp only [State.tgt, upd_apply] <;> (repeat' split) <;>
    grind [Pc.inMu, Pc.target, List.mem_of_mem_erase, bodyStart_target]

theorem owned_step (hi : Inv s) (h : Owned s) (hs : step s l = some s') : Owned s' := by
  intro n hn
  have hi' := inv_step hi hs
  rcases shared_sub hi hs n hn with h0 | ⟨t, ht⟩
  · obtain ⟨t, ht⟩ := h n h0
    rcases node_kept hs t n ht with h1 | ⟨r, hr⟩ | hf
    · exact ⟨t, h1⟩
    · -- the owner is at wFree: the node is clean in s, contradiction with h0
      exfalso
      have a := hi.inList t n ht
      have b := hi.inFull t n ht
      have c := hi.isTgt t n ht
      simp [hr, Pc.listPc, Pc.fullPc, Pc.parked] at a b c
      rcases h0 with h0 | h0 | h0 <;> simp_all
    · have := hi'.noFault t; simp_all
  · have ht' : (s.pc t).node = some n := by simp [ht, Pc.node]
    rcases node_kept hs t n ht' with h1 | ⟨r, hr⟩ | hf
    · exact ⟨t, h1⟩
    · simp [ht] at hr
    · have := hi'.noFault t; simp_all

theorem owned_reachable {s : State} (hr : Reachable s) : Owned s := by
  have : Inv s ∧ Owned s := by
    refine System.invariant_induction sys.toSystem (fun s => Inv s ∧ Owned s) ⟨inv_init, owned_init⟩ ?_ s hr
    intro s l s' ⟨hi, hc⟩ hs
    exact ⟨inv_step hi hs, owned_step hi hc hs⟩
  exact this.2

/-- a Wait committed to return `ctx.Err()` has an ended context -/
def ErrCtx (s : State) : Prop := ∀ t, (s.pc t).result = some .ctxErr → s.ctx t = true

theorem errCtx_step (hi : Inv s) (h : ErrCtx s) (hs : step s l = some s') : ErrCtx s' := by
  have h2 := hi.ctxOK
  unfold ErrCtx at h ⊢
  step_cases hs <;> intro u <;> simp only [upd_apply] <;> (repeat' split) <;>
    grind [Pc.result, Pc.ctxArm, bodyStart_result]

theorem errCtx_reachable {s : State} (hr : Reachable s) : ErrCtx s := by
  have : Inv s ∧ ErrCtx s := by
    refine System.invariant_induction sys.toSystem (fun s => Inv s ∧ ErrCtx s)
      ⟨inv_init, by intro t; show (init.pc t).result = _ → _; simp [init, Pc.result]⟩ ?_ s hr
    intro s l s' ⟨hi, hc⟩ hs
    exact ⟨inv_step hi hs, errCtx_step hi hc hs⟩
  exact this.2

end Ekit.Cond
