/-
The table interpreter refines the specification: for a table that passes `Table.sound`, every call on
every well-formed held value has an outcome the specification `Spec.judge` accepts; no call panics; a
stored Err is returned unchanged.
-/
import Ekit.Lemmas.ValueTable

namespace Ekit.Value
open Ekit.Go Spec

theorem typeAssert_string_none {h : Held} (ht : typeAssert .string h = none) : ∀ s, h ≠ .str false s := by
  intro s hs; subst hs; simp [typeAssert] at ht

theorem runRow_plain_string (o : Oracle) {r : Row} (h : r.sound = true) {sc : StrCase} (hs : r.str = some sc)
    (s : Str) (ht : typeAssert r.ret (.str false s) = none) :
    runRow o r ⟨.str false s, none⟩ = runStr o sc s := by
  obtain ⟨hg, _, hx, _⟩ := Row.sound_elim h
  unfold runRow
  simp only [hg, if_true, hx, ht, hs]
  simp [typeAssert]

theorem runRow_not_string (o : Oracle) {r : Row} (h : r.sound = true) (hv : Held)
    (ht : typeAssert r.ret hv = none) (hstr : typeAssert .string hv = none) :
    runRow o r ⟨hv, none⟩ = .err errType := by
  obtain ⟨hg, hc, hx, _⟩ := Row.sound_elim h
  unfold runRow
  simp only [hg, if_true, hx, ht, hstr, hc]
  split <;> simp_all

/-- every strict / `As` accessor of a sound table satisfies the specification -/
theorem runRow_accepts (o : Oracle) {r : Row} (h : r.sound = true) (av : AnyValue) :
    ∃ vd, judge o av (.acc r.name) = some vd ∧ vd.accepts (runRow o r av) = true := by
  obtain ⟨hg, hc, hx, hcase⟩ := Row.sound_elim h
  rcases av with ⟨hv, err⟩
  cases err with
  | some e =>
    rw [runRow_stored o h]
    refine ⟨{ allowed := [.err e] }, ?_, by simp [Verdict.accepts]⟩
    unfold judge
    rcases hcase with ⟨_, hst⟩ | ⟨sc, _, _, has, _⟩
    · simp [hst]
    · simp [has]
  | none =>
    rcases hcase with ⟨hs, hst⟩ | ⟨sc, hs, hst, has, hne, hnstr, hsf⟩
    · refine ⟨judgeStrict r.ret hv, by simp [judge, hst], ?_⟩
      unfold judgeStrict
      cases ht : typeAssert r.ret hv with
      | some v => rw [runRow_exact o h hv v ht]; exact accepts_exactly v
      | none => rw [runRow_strict_err o h hs hv ht]; exact accepts_anyErr rfl _
    · refine ⟨judgeAs o r.ret hv, by simp [judge, hst, has], ?_⟩
      cases ht : typeAssert r.ret hv with
      | some v =>
        rw [runRow_exact o h hv v ht]
        unfold judgeAs; simp only [ht]; exact accepts_exactly v
      | none =>
        cases hstr : typeAssert .string hv with
        | none =>
          rw [runRow_not_string o h hv ht hstr]
          exact accepts_anyErr (judgeAs_anyErr o _ _ ht (typeAssert_string_none hstr) hnstr) _
        | some v' =>
          obtain ⟨s, rfl, rfl⟩ := typeAssert_string hstr
          rw [runRow_plain_string o h hs s ht]
          unfold judgeAs
          rw [ht]
          simp only
          generalize r.ret = ret at *
          cases ret with
          | i t => exact judgeIntOfStr_accepts o hsf s
          | float32 =>
            unfold StrCase.soundFor at hsf
            cases hconv : sc.conv <;> simp [hconv] at hsf
            obtain ⟨hb, hcast⟩ := hsf
            subst hb
            unfold runStr
            simp only [hconv]
            rcases o.parseFloat 32 s with ⟨f, e⟩
            cases e with
            | none => simp only [hcast, castFloat]; exact accepts_exactlyUnless _ _
            | some e => exact accepts_anyErr rfl _
          | float64 =>
            unfold StrCase.soundFor at hsf
            cases hconv : sc.conv <;> simp [hconv] at hsf
            obtain ⟨hb, hcast⟩ := hsf
            subst hb
            unfold runStr
            simp only [hconv]
            rcases o.parseFloat 64 s with ⟨f, e⟩
            cases e with
            | none =>
              have : castFloat o sc.cast f = f := by rcases hcast with hc' | hc' <;> simp [hc', castFloat]
              simp only [this]; exact accepts_exactlyUnless _ _
            | some e => exact accepts_anyErr rfl _
          | bytes =>
            unfold StrCase.soundFor at hsf
            cases hconv : sc.conv <;> simp [hconv] at hsf
            unfold runStr
            simp only [hconv]
            exact accepts_exactlyUnless _ _
          | string => exact absurd rfl hnstr
          | bool => simp [StrCase.soundFor] at hsf
          | unknown src => simp [StrCase.soundFor] at hsf


/-! ### AsString -/

theorem IntT.mem_all (t : IntT) : t ∈ IntT.all := by cases t <;> simp [IntT.all]

theorem AsStringInfo.sound_elim {i : AsStringInfo} (h : i.sound = true) :
    i.errGuard = true ∧ i.tag = .valueKind ∧
    (∀ t : IntT, i.armFor (.int t) = if t.signed then Arm.fmtInt 10 else Arm.fmtUint 10) ∧
    i.armFor .string = .str ∧ (i.armFor .slice = .bytesIfU8 ∨ i.armFor .slice = .err) ∧
    floatArmOK (i.armFor .float32) = true ∧ floatArmOK (i.armFor .float64) = true ∧
    i.armFor .invalid = .err ∧ i.armFor .bool = .err ∧ i.armFor .other = .err := by
  unfold AsStringInfo.sound at h
  simp only [Bool.and_eq_true, beq_iff_eq, Bool.or_eq_true, List.all_eq_true] at h
  obtain ⟨⟨⟨⟨⟨⟨⟨⟨⟨⟨⟨h1, h2⟩, _⟩, h4⟩, h5⟩, h6⟩, h7⟩, h8⟩, h9⟩, h10⟩, _⟩, h12⟩ := h
  exact ⟨h1, h2, fun t => h4 t (IntT.mem_all t), h5, h6, h7, h8, h9, h10, h12⟩

theorem runAsString_stored (o : Oracle) {i : AsStringInfo} (h : i.sound = true) (hv : Held) (e : Err) :
    runAsString o i ⟨hv, some e⟩ = .err e := by
  obtain ⟨hg, _⟩ := AsStringInfo.sound_elim h
  simp [runAsString, hg]

theorem runAsString_eq (o : Oracle) {i : AsStringInfo} (h : i.sound = true) (hv : Held) :
    runAsString o i ⟨hv, none⟩ = runArm o (i.armFor hv.kind) hv := by
  obtain ⟨hg, htag, _⟩ := AsStringInfo.sound_elim h
  unfold runAsString
  simp only [hg, if_true, htag]
  rfl

theorem formatInt_nonneg {v : Int} (h : 0 ≤ v) : formatInt 10 v = formatNat 10 v.toNat := by
  unfold formatInt
  have : ¬ v < 0 := by omega
  simp [this]

theorem floatArm_cases {a : Arm} (h : floatArmOK a = true) : (∃ f p b, a = .fmtFloat f p b) ∨ a = .err := by
  cases a <;> simp [floatArmOK] at h
  · exact Or.inl ⟨_, _, _, rfl⟩
  · exact Or.inr rfl

/-- **the exact decimal text of an integer** (and the dispatch for the other kinds) -/
theorem runAsString_int (o : Oracle) {i : AsStringInfo} (h : i.sound = true) (t : IntT) (named : Bool) (v : Int)
    (hwf : t.fits v) : runAsString o i ⟨.int t named v, none⟩ = .ok (.str (formatInt 10 v)) := by
  obtain ⟨_, _, hint, _⟩ := AsStringInfo.sound_elim h
  rw [runAsString_eq o h, Held.kind, hint t]
  cases hs : t.signed with
  | true => simp [runArm, hs]
  | false =>
    have : 0 ≤ v := by
      simp [IntT.fits, hs, fitsU] at hwf; exact hwf.1
    simp [runArm, hs, formatInt_nonneg this]

theorem runAsString_accepts (o : Oracle) {i : AsStringInfo} (h : i.sound = true) (av : AnyValue)
    (hwf : av.val.wf) :
    ∃ vd, judge o av (.acc "AsString") = some vd ∧ vd.accepts (runAsString o i av) = true := by
  obtain ⟨hg, htag, hint, hstr, hslice, hf32, hf64, hinv, hbool, hother⟩ := AsStringInfo.sound_elim h
  have hst : strictTarget "AsString" = none := by decide
  have has : asTarget "AsString" = some .string := by decide
  rcases av with ⟨hv, err⟩
  cases err with
  | some e =>
    rw [runAsString_stored o h]
    exact ⟨{ allowed := [.err e] }, by simp [judge, has], by simp [Verdict.accepts]⟩
  | none =>
    refine ⟨judgeAs o .string hv, by simp [judge, hst, has], ?_⟩
    cases hv with
    | nil =>
      rw [runAsString_eq o h, Held.kind, hinv]
      exact accepts_anyErr rfl _
    | int t named v =>
      rw [runAsString_int o h t named v hwf]
      simp only [judgeAs, typeAssert]
      cases named <;> simp <;> exact accepts_exactlyUnless _ _
    | float is64 named b =>
      rw [runAsString_eq o h]
      have : (judgeAs o .string (.float is64 named b)) = noPanic := by
        cases is64 <;> cases named <;> simp [judgeAs, typeAssert]
      rw [this]
      have harm : floatArmOK (i.armFor (Held.float is64 named b).kind) = true := by
        cases is64 <;> simp [Held.kind, hf32, hf64]
      rcases floatArm_cases harm with ⟨f, p, bb, ha⟩ | ha <;> rw [ha] <;> simp [runArm, noPanic, Verdict.accepts, Outcome.isErr, Outcome.isOk]
    | str named s =>
      rw [runAsString_eq o h, Held.kind, hstr]
      cases named
      · simp only [judgeAs, typeAssert, runArm]; simp; exact accepts_exactly _
      · simp only [judgeAs, typeAssert, runArm]; exact accepts_either _
    | bytes named b =>
      rw [runAsString_eq o h, Held.kind]
      have : judgeAs o .string (.bytes named b) = either (.str b) := by
        cases named <;> simp [judgeAs, typeAssert]
      rw [this]
      rcases hslice with ha | ha <;> rw [ha]
      · exact accepts_either _
      · exact accepts_anyErr rfl _
    | bool named b =>
      rw [runAsString_eq o h, Held.kind, hbool]
      have : judgeAs o .string (.bool named b) = noPanic := by
        cases named <;> simp [judgeAs, typeAssert]
      rw [this]; exact accepts_anyErr rfl _
    | slice =>
      rw [runAsString_eq o h, Held.kind]
      rcases hslice with ha | ha <;> rw [ha] <;> exact accepts_anyErr rfl _
    | other =>
      rw [runAsString_eq o h, Held.kind, hother]
      exact accepts_anyErr rfl _

theorem runAsString_nopanic (o : Oracle) {i : AsStringInfo} (h : i.sound = true) (av : AnyValue) :
    (runAsString o i av).isPanic = false := by
  obtain ⟨hg, htag, hint, hstr, hslice, hf32, hf64, hinv, hbool, hother⟩ := AsStringInfo.sound_elim h
  rcases av with ⟨hv, err⟩
  cases err with
  | some e => rw [runAsString_stored o h]; rfl
  | none =>
    rw [runAsString_eq o h]
    cases hv with
    | nil => rw [Held.kind, hinv]; rfl
    | int t named v => rw [Held.kind, hint t]; cases hs : t.signed <;> simp [runArm, hs, Outcome.isPanic]
    | float is64 named b =>
      have harm : floatArmOK (i.armFor (Held.float is64 named b).kind) = true := by
        cases is64 <;> simp [Held.kind, hf32, hf64]
      rcases floatArm_cases harm with ⟨f, p, bb, ha⟩ | ha <;> rw [ha] <;> simp [runArm, Outcome.isPanic]
    | str named s => rw [Held.kind, hstr]; rfl
    | bytes named b => rw [Held.kind]; rcases hslice with ha | ha <;> rw [ha] <;> rfl
    | bool named b => rw [Held.kind, hbool]; rfl
    | slice => rw [Held.kind]; rcases hslice with ha | ha <;> rw [ha] <;> rfl
    | other => rw [Held.kind, hother]; rfl

end Ekit.Value
