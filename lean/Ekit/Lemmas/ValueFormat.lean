/-
FormatUint / FormatInt (base 10) produce the canonical decimal numeral of their argument, and parsing
that text gives the number back.
-/
import Ekit.Lemmas.ValueInt

namespace Ekit.Value
open Ekit.Go Spec

theorem formatNat_lt {n : Nat} (h : n < 10) : formatNat 10 n = [48 + n] := by
  rw [formatNat]; simp [h, digitChar]

theorem formatNat_ge {n : Nat} (h : 10 ≤ n) : formatNat 10 n = formatNat 10 (n / 10) ++ [48 + n % 10] := by
  rw [formatNat]
  have h1 : ¬ n < 10 := by omega
  have h2 : n % 10 < 10 := Nat.mod_lt _ (by decide)
  simp [h1, digitChar, h2]

/-- digits only, non-empty, value `n`; a leading `0` only for `n = 0` (then it is the whole text) -/
theorem formatNat_spec (n : Nat) :
    (formatNat 10 n).all isDigit = true ∧ natOf (formatNat 10 n) = n ∧
    ∃ c r, formatNat 10 n = c :: r ∧ (c = 48 → n = 0 ∧ r = []) ∧ 48 ≤ c ∧ c ≤ 57 := by
  induction n using Nat.strongRecOn with
  | ind n ih =>
    by_cases h : n < 10
    · rw [formatNat_lt h]
      refine ⟨by simp [isDigit]; omega, by simp [natOf], 48 + n, [], rfl, ?_, by omega, by omega⟩
      intro h0; exact ⟨by omega, rfl⟩
    · have hlt : n / 10 < n := Nat.div_lt_self (by omega) (by decide)
      obtain ⟨ha, hv, c, r, hcr, hz, hc1, hc2⟩ := ih (n / 10) hlt
      rw [formatNat_ge (by omega)]
      refine ⟨?_, ?_, c, r ++ [48 + n % 10], by rw [hcr]; rfl, ?_, hc1, hc2⟩
      · have : n % 10 < 10 := Nat.mod_lt _ (by decide)
        simp [List.all_append, ha, isDigit]; omega
      · rw [natOf_eq, natFrom_append, ← natOf_eq, hv]
        simp [natFrom]; omega
      · intro h0
        have := (hz h0).1
        omega

theorem denoteU_formatNat (n : Nat) : denoteU (formatNat 10 n) = some n := by
  obtain ⟨ha, hv, c, r, hcr, _⟩ := formatNat_spec n
  unfold denoteU
  have : formatNat 10 n ≠ [] := by rw [hcr]; simp
  simp [this, ha, hv]

theorem denoteS_formatInt (v : Int) : denoteS (formatInt 10 v) = some v := by
  unfold formatInt
  by_cases h : v < 0
  · simp only [h, if_true]
    rw [denoteS_cons]
    simp [denoteU_formatNat]; omega
  · simp only [h, if_false]
    obtain ⟨_, _, c, r, hcr, _, hc1, hc2⟩ := formatNat_spec v.toNat
    have hd := denoteU_formatNat v.toNat
    rw [hcr] at hd ⊢
    rw [denoteS_cons]
    have h1 : ¬ (c = 43 ∨ c = 45) := by omega
    have h2 : ¬ c = 45 := by omega
    rw [if_neg h1, hd]
    simp [h2]; omega

/-- **the exact decimal text**: FormatInt's output is the canonical numeral of its argument -/
theorem formatInt_canonical (v : Int) : canonical (formatInt 10 v) v := by
  refine ⟨denoteS_formatInt v, ?_, ?_, ?_⟩
  · unfold formatInt
    by_cases h : v < 0
    · simp [h]
    · obtain ⟨_, _, c, r, hcr, _, hc1, hc2⟩ := formatNat_spec v.toNat
      simp [h, hcr]; omega
  · intro r hr
    unfold formatInt at hr
    by_cases h : v < 0
    · simp [h] at hr
      obtain ⟨_, _, c, r', hcr, hz, hc1, hc2⟩ := formatNat_spec (-v).toNat
      rw [← hr, hcr]
      simp
      intro h0
      have := (hz h0).1
      omega
    · obtain ⟨_, _, c, r', hcr, _, hc1, hc2⟩ := formatNat_spec v.toNat
      simp [h, hcr] at hr; omega
  · intro r hr
    unfold formatInt at hr
    by_cases h : v < 0
    · simp [h] at hr
    · obtain ⟨_, _, c, r', hcr, hz, hc1, hc2⟩ := formatNat_spec v.toNat
      simp [h, hcr] at hr
      obtain ⟨h0, hr'⟩ := hr
      rw [← hr']; exact (hz h0).2

/-- **format_parse_roundtrip** (signed): the text of a value that fits parses back to the value -/
theorem parseInt_formatInt (v : Int) (bits : Nat) (h2 : 2 ≤ bits) (h64 : bits ≤ 64) (hf : fitsS bits v) :
    parseInt (formatInt 10 v) 10 bits = (v, none) :=
  (parseInt_exact _ bits v h2 h64).mpr ⟨denoteS_formatInt v, hf⟩

/-- **format_parse_roundtrip** (unsigned) -/
theorem parseUint_formatNat (n bits : Nat) (h1 : 1 ≤ bits) (h64 : bits ≤ 64) (hf : n < 2 ^ bits) :
    parseUint (formatNat 10 n) 10 bits = (n, none) :=
  (parseUint_exact _ bits n h1 h64).mpr ⟨denoteU_formatNat n, hf⟩

/-! ### uniqueness of the canonical text -/

theorem natOf_concat (init : Str) (c : Nat) : natOf (init ++ [c]) = 10 * natOf init + (c - 48) := by
  rw [natOf_eq, natFrom_append, ← natOf_eq]; simp [natFrom]

theorem natOf_pos_of_head {d : Nat} {r : Str} (hd : 49 ≤ d) : 1 ≤ natOf (d :: r) := by
  rw [natOf_eq, natFrom_cons]
  exact Nat.le_trans (by omega) (natFrom_ge r _)

/-- a digit string without a superfluous leading zero is the FormatUint text of its value -/
theorem formatNat_natOf : ∀ (n : Nat) (s : Str), s.length = n → s ≠ [] → s.all isDigit = true →
    (∀ r, s = 48 :: r → r = []) → s = formatNat 10 (natOf s) := by
  intro n
  induction n with
  | zero => intro s hl hne; simp at hl; exact absurd hl hne
  | succ n ih =>
    intro s hl hne hall hz
    have hs := (List.dropLast_concat_getLast hne).symm
    generalize hinit : s.dropLast = init at hs
    generalize hc : s.getLast hne = c at hs
    have hcd : 48 ≤ c ∧ c ≤ 57 := by
      have : c ∈ s := by rw [hs]; simp
      exact isDigit_true (List.all_eq_true.mp hall c this)
    by_cases hi : init = []
    · subst hi
      simp at hs
      rw [hs]
      have : natOf [c] = c - 48 := by simp [natOf]
      rw [this, formatNat_lt (by omega)]
      congr 1; omega
    · have hlen : init.length = n := by
        have := congrArg List.length hs
        simp at this; omega
      have halli : init.all isDigit = true := by
        rw [hs] at hall; simp [List.all_append] at hall; simpa using hall.1
      have hzi : ∀ r, init = 48 :: r → r = [] := by
        intro r hr
        have := hz (r ++ [c]) (by rw [hs, hr]; rfl)
        simp at this
      have ih' := ih init hlen hi halli hzi
      -- the value of init is positive: its head is not '0'
      have hpos : 1 ≤ natOf init := by
        cases init with
        | nil => exact absurd rfl hi
        | cons d r =>
          have hd := isDigit_true (List.all_eq_true.mp halli d (by simp))
          have : d ≠ 48 := by
            intro h48; subst h48
            have := hz (r ++ [c]) (by rw [hs]; rfl)
            simp at this
          exact natOf_pos_of_head (by omega)
      have hv : natOf s = 10 * natOf init + (c - 48) := by rw [hs]; exact natOf_concat init c
      rw [hv, formatNat_ge (by omega)]
      have h1 : (10 * natOf init + (c - 48)) / 10 = natOf init := by omega
      have h2 : 48 + (10 * natOf init + (c - 48)) % 10 = c := by omega
      rw [h1, h2, ← ih']
      exact hs

/-- **the exact decimal text is unique**: the only canonical numeral of `v` is FormatInt's -/
theorem canonical_unique (s : Str) (v : Int) (h : canonical s v) : s = formatInt 10 v := by
  obtain ⟨hd, hplus, hminus, hzero⟩ := h
  cases s with
  | nil => simp [denoteS] at hd
  | cons c r =>
    rw [denoteS_cons] at hd
    have h43 : c ≠ 43 := by intro h; subst h; simp at hplus
    by_cases h45 : c = 45
    · subst h45
      simp at hd
      obtain ⟨n, hn, hv⟩ := hd
      unfold denoteU at hn
      split at hn
      · rename_i hr
        simp at hn
        have hr0 : r.head? ≠ some 48 := hminus r rfl
        have hpos : 1 ≤ natOf r := by
          cases r with
          | nil => exact absurd rfl hr.1
          | cons d r' =>
            have hdd := isDigit_true (List.all_eq_true.mp hr.2 d (by simp))
            have : d ≠ 48 := by intro h; subst h; simp at hr0
            exact natOf_pos_of_head (by omega)
        have hfm := formatNat_natOf r.length r rfl hr.1 hr.2 (by
          intro r' hr'; subst hr'; simp at hr0)
        have hneg : v < 0 := by omega
        unfold formatInt
        simp only [hneg, if_true]
        have : (-v).toNat = natOf r := by omega
        rw [this, ← hfm]
      · simp at hn
    · have hne : ¬ (c = 43 ∨ c = 45) := by omega
      rw [if_neg hne] at hd
      cases hu : denoteU (c :: r) with
      | none => simp [hu] at hd
      | some n =>
        simp [hu, h45] at hd
        unfold denoteU at hu
        split at hu
        · rename_i hr
          simp at hu
          have hfm := formatNat_natOf (c :: r).length (c :: r) rfl hr.1 hr.2 (by
            intro r' hr'
            have : c = 48 := by simpa using (List.cons.inj hr').1
            subst this
            have := hzero r rfl
            rw [this] at hr'; simpa using (List.cons.inj hr').2.symm)
          have hnn : ¬ v < 0 := by omega
          unfold formatInt
          simp only [hnn, if_false]
          have : v.toNat = natOf (c :: r) := by omega
          rw [this, ← hfm]
        · simp at hu
end Ekit.Value
