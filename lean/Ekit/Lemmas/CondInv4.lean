/- Preservation of the structural invariant of the Cond model, part 4: what a node's owner knows. -/
import Ekit.Lemmas.CondInv2
namespace Ekit.Cond
open Ekit.Conc
variable {s s' : State} {l : Label}

theorem inList_step (h : Inv s) (hs : step s l = some s') :
    ∀ t n, (s'.pc t).node = some n → n ∈ s'.list → (s'.pc t).listPc = true := by
  have h1 := h.mutex; have h3 := h.own; have h4 := h.inList; have h5 := h.listFresh
  have h6 := h.poolClean; have h7 := h.listFull; have h8 := h.listNodup
  step_cases hs <;> intro u n <;> simp only [upd_apply] <;> (repeat' split) <;>
    grind [Pc.inMu, Pc.node, Pc.listPc, List.mem_of_mem_erase, List.Nodup.mem_erase_iff, bodyStart_node]

theorem inFull_step (h : Inv s) (hs : step s l = some s') :
    ∀ t n, (s'.pc t).node = some n → n ∈ s'.full → (s'.pc t).fullPc = true := by
  have h1 := h.mutex; have h3 := h.own; have h4 := h.inFull; have h5 := h.fullFresh
  have h6 := h.poolClean; have h7 := h.listFull; have h8 := h.fullNodup; have h11 := h.isTgt
  have h12 := h.inList
  have h9 := tgt_eq s
  have h13 := @parked_fullPc
  step_cases hs <;> intro u n <;> simp only [upd_apply] <;> (repeat' split) <;>
    grind [Pc.inMu, Pc.node, Pc.fullPc, Pc.listPc, Pc.parked, Pc.target, List.mem_of_mem_erase,
      List.Nodup.mem_erase_iff, bodyStart_node]
end Ekit.Cond
