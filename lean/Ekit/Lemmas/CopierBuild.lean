/-
Helper lemmas for C20, part 2: what `createFieldNodes` decides for one destination field
(`planField`), the well-formedness of the trie it builds (`KidsOK`), and that it never panics.
-/
import Ekit.Lemmas.CopierBasic

namespace Ekit.Copier
open Ekit.Go

/-- what one iteration of the second loop of `createFieldNodes` decides for a destination field -/
inductive FieldPlan where
  | skip
  | leaf (srcIndex : Nat)
  | node (srcIndex : Nat) (fs fd : Ty)
  | fail (e : Err)
  | panic (m : String)

def planField (atomics : List Ty) (sfs : List Field) (fm : List (String × Nat)) (df : Field) : FieldPlan :=
  if !fexp df then .skip
  else match fm.lookup (fname df) with
    | none => .skip
    | some srcIndex =>
      match sfs[srcIndex]? with
      | none => .panic "reflect: Field index out of bounds"
      | some sf =>
        if (fty sf).isMultiPtr then .fail (errMultiPtr (fname sf))
        else if (fty df).isMultiPtr then .fail (errMultiPtr (fname df))
        else if isLeafTy atomics (fty sf).stripPtr then .leaf srcIndex
        else if (fty sf).stripPtr.kind == .struct then
          if (fty df).stripPtr.kind != .struct then
            .fail (errKind (fty sf).stripPtr.kind (fty df).stripPtr.kind (fname df))
          else .node srcIndex (fty sf).stripPtr (fty df).stripPtr
        else .skip

/-- one iteration of `buildLoop`, by plan -/
theorem buildLoop_cons (rec : Ty → Ty → Outcome (List Node)) (atomics : List Ty) (sfs : List Field)
    (fm : List (String × Nat)) (df : Field) (rest : List Field) (j : Nat) :
    buildLoop rec atomics sfs fm (df :: rest) j =
      match planField atomics sfs fm df with
      | .skip => buildLoop rec atomics sfs fm rest (j + 1)
      | .leaf i =>
        (match buildLoop rec atomics sfs fm rest (j + 1) with
          | .ok more => .ok (.mk (fname df) i j true [] :: more)
          | o => o)
      | .node i fs fd =>
        (match rec fs fd with
          | .ok kids =>
            (match buildLoop rec atomics sfs fm rest (j + 1) with
              | .ok more => .ok (.mk (fname df) i j false kids :: more)
              | o => o)
          | o => o)
      | .fail e => .err e
      | .panic m => .panic m := by
  simp only [buildLoop, planField]
  by_cases he : fexp df = true
  · simp only [he, Bool.not_true, Bool.false_eq_true, if_false]
    cases hl : fm.lookup (fname df) with
    | none => rfl
    | some i =>
      simp only []
      cases hs : sfs[i]? with
      | none => rfl
      | some sf =>
        simp only []
        by_cases h1 : (fty sf).isMultiPtr = true
        · simp [h1]
        · by_cases h2 : (fty df).isMultiPtr = true
          · simp [h1, h2]
          · simp only [h1, h2, Bool.false_eq_true, if_false]
            by_cases h3 : isLeafTy atomics (fty sf).stripPtr = true
            · rw [if_pos h3, if_pos h3]
              cases buildLoop rec atomics sfs fm rest (j + 1) <;> rfl
            · rw [if_neg h3, if_neg h3]
              by_cases h4 : ((fty sf).stripPtr.kind == Kind.struct) = true
              · rw [if_pos h4, if_pos h4]
                by_cases h5 : ((fty df).stripPtr.kind != Kind.struct) = true
                · rw [if_pos h5, if_pos h5]
                · rw [if_neg h5, if_neg h5]
                  simp only []
                  generalize rec (fty sf).stripPtr (fty df).stripPtr = R
                  generalize buildLoop rec atomics sfs fm rest (j + 1) = B
                  cases R <;> cases B <;> rfl
              · rw [if_neg h4, if_neg h4]
  · simp [he]

/-- everything the plan for a destination field tells, when the map is the one the first loop built -/
theorem planField_inv (atomics : List Ty) (sfs : List Field) (df : Field) :
    match planField atomics sfs (fieldMap sfs) df with
    | .skip =>
        fexp df = false ∨ Spec.srcFieldIdx? sfs (fname df) = none ∨
        (fexp df = true ∧ ∃ i sf, Spec.srcFieldIdx? sfs (fname df) = some i ∧ sfs[i]? = some sf ∧
          (fty sf).isMultiPtr = false ∧ (fty df).isMultiPtr = false ∧
          isLeafTy atomics (fty sf).stripPtr = false ∧ (fty sf).stripPtr.kind ≠ .struct)
    | .leaf i =>
        fexp df = true ∧ ∃ sf, Spec.srcFieldIdx? sfs (fname df) = some i ∧ sfs[i]? = some sf ∧
          fexp sf = true ∧ (fty sf).isMultiPtr = false ∧ (fty df).isMultiPtr = false ∧
          isLeafTy atomics (fty sf).stripPtr = true
    | .node i fs fd =>
        fexp df = true ∧ ∃ sf, Spec.srcFieldIdx? sfs (fname df) = some i ∧ sfs[i]? = some sf ∧
          fexp sf = true ∧ (fty sf).isMultiPtr = false ∧ (fty df).isMultiPtr = false ∧
          isLeafTy atomics (fty sf).stripPtr = false ∧
          fs = (fty sf).stripPtr ∧ fd = (fty df).stripPtr ∧ fs.kind = .struct ∧ fd.kind = .struct
    | .fail _ => True
    | .panic _ => False := by
  unfold planField
  rw [fieldMap_lookup]
  by_cases he : fexp df = true
  · have he' : ¬ ((!fexp df) = true) := by simp [he]
    rw [if_neg he']
    cases hi : Spec.srcFieldIdx? sfs (fname df) with
    | none => simp
    | some i =>
      obtain ⟨sf, hsf, hexp, _⟩ := srcFieldIdx_some sfs (fname df) i hi
      simp only [hsf]
      by_cases h1 : (fty sf).isMultiPtr = true
      · rw [if_pos h1]; trivial
      · rw [if_neg h1]
        by_cases h2 : (fty df).isMultiPtr = true
        · rw [if_pos h2]; trivial
        · rw [if_neg h2]
          have h1' : (fty sf).isMultiPtr = false := by simpa using h1
          have h2' : (fty df).isMultiPtr = false := by simpa using h2
          by_cases h3 : isLeafTy atomics (fty sf).stripPtr = true
          · rw [if_pos h3]
            exact ⟨he, sf, rfl, hsf, hexp, h1', h2', h3⟩
          · rw [if_neg h3]
            have h3' : isLeafTy atomics (fty sf).stripPtr = false := by simpa using h3
            by_cases h4 : ((fty sf).stripPtr.kind == Kind.struct) = true
            · rw [if_pos h4]
              by_cases h5 : ((fty df).stripPtr.kind != Kind.struct) = true
              · rw [if_pos h5]; trivial
              · rw [if_neg h5]
                exact ⟨he, sf, rfl, hsf, hexp, h1', h2', h3', rfl, rfl, by simpa using h4, by simpa using h5⟩
            · rw [if_neg h4]
              exact Or.inr (Or.inr ⟨he, i, sf, rfl, hsf, h1', h2', h3', by simpa using h4⟩)
  · have he' : ((!fexp df) = true) := by simp [he]
    rw [if_pos he']
    exact Or.inl (by simpa using he)

/-! ### well-formed tries -/

mutual
/-- the node can be run on a source field of type `sT` and a destination field of type `dT`:
    the indices of its children exist in the (pointer-stripped) struct types and name exported fields -/
def NodeOK : Node → Ty → Ty → Prop
  | .mk _ _ _ leaf kids, sT, dT =>
      leaf = true ∨ ∃ sfs dfs, sT.stripPtr.fields? = some sfs ∧ dT.stripPtr.fields? = some dfs ∧
        KidsOK kids sfs dfs
def KidsOK : List Node → List Field → List Field → Prop
  | [], _, _ => True
  | k :: ks, sfs, dfs =>
      (∃ sf df, sfs[k.srcIndex]? = some sf ∧ dfs[k.dstIndex]? = some df ∧ fexp sf = true ∧
        fexp df = true ∧ NodeOK k (fty sf) (fty df))
      ∧ KidsOK ks sfs dfs
end

theorem stripPtr_stripPtr_of_not_multi (t : Ty) (h : t.isMultiPtr = false) : t.stripPtr.stripPtr = t.stripPtr := by
  cases he : t.ptrElem? with
  | none => simp [Ty.stripPtr, he]
  | some e =>
    have := not_multiPtr_elem he h
    rw [stripPtr_of_elem he, stripPtr_of_not_ptr this]

/-- the loop builds well-formed children, given that the recursive call does -/
theorem buildLoop_ok (rec : Ty → Ty → Outcome (List Node)) (atomics : List Ty) (sfs : List Field)
    (hrec : ∀ s d kids, s.kind = .struct → d.kind = .struct → rec s d = .ok kids →
      ∃ sfs' dfs', s.fields? = some sfs' ∧ d.fields? = some dfs' ∧ KidsOK kids sfs' dfs') :
    ∀ (dsuf pre : List Field) (kids : List Node),
      buildLoop rec atomics sfs (fieldMap sfs) dsuf pre.length = .ok kids → KidsOK kids sfs (pre ++ dsuf)
  | [], pre, kids, h => by
      simp [buildLoop] at h
      subst h
      simp [KidsOK]
  | df :: rest, pre, kids, h => by
      rw [buildLoop_cons] at h
      have inv := planField_inv atomics sfs df
      have ih := buildLoop_ok rec atomics sfs hrec rest (pre ++ [df])
      simp only [List.length_append, List.length_cons, List.length_nil, Nat.zero_add, List.append_assoc,
        List.cons_append, List.nil_append] at ih
      have hget : (pre ++ df :: rest)[pre.length]? = some df := by simp
      cases hp : planField atomics sfs (fieldMap sfs) df with
      | skip => rw [hp] at h; exact ih kids h
      | leaf i =>
        rw [hp] at h inv
        cases hb : buildLoop rec atomics sfs (fieldMap sfs) rest (pre.length + 1) with
        | ok more =>
          rw [hb] at h
          simp at h
          subst h
          obtain ⟨hed, sf, _, hsf, hes, _⟩ := inv
          refine ⟨⟨sf, df, by simpa [Node.srcIndex] using hsf, by simpa [Node.dstIndex] using hget, hes, hed, ?_⟩, ih more hb⟩
          simp [NodeOK]
        | err e => rw [hb] at h; simp at h
        | panic m => rw [hb] at h; simp at h
      | node i fs fd =>
        rw [hp] at h inv
        simp only [] at h
        obtain ⟨hed, sf, _, hsf, hes, hm1, hm2, _, hfs, hfd, hks, hkd⟩ := inv
        cases hr : rec fs fd with
        | ok kids' =>
          rw [hr] at h
          cases hb : buildLoop rec atomics sfs (fieldMap sfs) rest (pre.length + 1) with
          | ok more =>
            rw [hb] at h
            simp at h
            subst h
            obtain ⟨sfs', dfs', h1, h2, h3⟩ := hrec fs fd kids' hks hkd hr
            refine ⟨⟨sf, df, by simpa [Node.srcIndex] using hsf, by simpa [Node.dstIndex] using hget, hes, hed, ?_⟩, ih more hb⟩
            simp only [NodeOK]
            refine Or.inr ⟨sfs', dfs', ?_, ?_, h3⟩
            · rw [← hfs]; exact h1
            · rw [← hfd]; exact h2
          | err e => rw [hb] at h; simp at h
          | panic m => rw [hb] at h; simp at h
        | err e => rw [hr] at h; simp at h
        | panic m => rw [hr] at h; simp at h
      | fail e => rw [hp] at h; simp at h
      | panic m => rw [hp] at h; simp at h

/-- `createFieldNodes` builds a well-formed trie -/
theorem createFieldNodes_ok (atomics : List Ty) : ∀ (fuel : Nat) (s d : Ty) (kids : List Node),
    s.kind = .struct → d.kind = .struct → createFieldNodes atomics fuel s d = .ok kids →
    ∃ sfs dfs, s.fields? = some sfs ∧ d.fields? = some dfs ∧ KidsOK kids sfs dfs
  | 0, _, _, _, _, _, h => by simp [createFieldNodes] at h
  | fuel + 1, s, d, kids, hs, hd, h => by
      obtain ⟨sfs, hsfs⟩ := fields_of_kind_struct s hs
      obtain ⟨dfs, hdfs⟩ := fields_of_kind_struct d hd
      simp only [createFieldNodes, hsfs, hdfs] at h
      refine ⟨sfs, dfs, hsfs, hdfs, ?_⟩
      have := buildLoop_ok (createFieldNodes atomics fuel) atomics sfs
        (fun s' d' k' a b c => createFieldNodes_ok atomics fuel s' d' k' a b c) dfs [] kids
      simpa using this h

/-! ### the constructor never panics -/

theorem buildLoop_no_panic (rec : Ty → Ty → Outcome (List Node)) (atomics : List Ty) (sfs : List Field)
    (hrec : ∀ sf, sf ∈ sfs → (fty sf).stripPtr.kind = .struct → ∀ d, d.kind = .struct →
      (rec (fty sf).stripPtr d).isPanic = false) :
    ∀ (dfs : List Field) (j : Nat), (buildLoop rec atomics sfs (fieldMap sfs) dfs j).isPanic = false
  | [], _ => by simp [buildLoop, Outcome.isPanic]
  | df :: rest, j => by
      rw [buildLoop_cons]
      have inv := planField_inv atomics sfs df
      have ih := buildLoop_no_panic rec atomics sfs hrec rest (j + 1)
      cases hp : planField atomics sfs (fieldMap sfs) df with
      | skip => simpa using ih
      | leaf i =>
        simp only
        cases hb : buildLoop rec atomics sfs (fieldMap sfs) rest (j + 1) with
        | ok more => simp [Outcome.isPanic]
        | err e => simp [Outcome.isPanic]
        | panic m => rw [hb] at ih; simp [Outcome.isPanic] at ih
      | node i fs fd =>
        rw [hp] at inv
        obtain ⟨_, sf, _, hsf, _, _, _, _, hfs, _, hks, hkd⟩ := inv
        have hr := hrec sf (mem_of_getElem? hsf) (hfs ▸ hks) fd hkd
        rw [← hfs] at hr
        simp only
        cases hrr : rec fs fd with
        | ok kids =>
          simp only
          cases hb : buildLoop rec atomics sfs (fieldMap sfs) rest (j + 1) with
          | ok more => simp [Outcome.isPanic]
          | err e => simp [Outcome.isPanic]
          | panic m => rw [hb] at ih; simp [Outcome.isPanic] at ih
        | err e => simp [Outcome.isPanic]
        | panic m => rw [hrr] at hr; simp [Outcome.isPanic] at hr
      | fail e => simp [Outcome.isPanic]
      | panic m => rw [hp] at inv; exact inv.elim

theorem createFieldNodes_no_panic (atomics : List Ty) : ∀ (fuel : Nat) (s d : Ty),
    s.kind = .struct → d.kind = .struct → s.depth ≤ fuel →
    (createFieldNodes atomics fuel s d).isPanic = false
  | 0, s, _, hs, _, hd => by
      have := depth_pos_of_struct s hs
      omega
  | fuel + 1, s, d, hs, hd, hdep => by
      obtain ⟨sfs, hsfs⟩ := fields_of_kind_struct s hs
      obtain ⟨dfs, hdfs⟩ := fields_of_kind_struct d hd
      simp only [createFieldNodes, hsfs, hdfs]
      apply buildLoop_no_panic
      intro sf hmem hk d' hd'
      apply createFieldNodes_no_panic atomics fuel _ _ hk hd'
      have := depth_field_lt s sfs sf hsfs hmem
      rw [depth_stripPtr]
      omega

end Ekit.Copier
