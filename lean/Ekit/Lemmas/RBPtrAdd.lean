import Ekit.MiniGo.RBOrder
import Ekit.Lemmas.RBSorted
import Ekit.Lemmas.RBPtrSize
namespace Ekit.MiniGo.RBHeap.AddN
open Ekit.MiniGo Ekit.Gen.RBTreeGo

set_option linter.unusedSimpArgs false
set_option linter.unusedVariables false

/-! ### heap level -/

theorem holds_root_none {st : St} {t : PT} (hH : Holds st t) (hr : st.root = none) : t = .leaf := by
  have := repr_ptr hH.1
  rw [hr] at this
  cases t with
  | leaf => rfl
  | node _ _ _ => simp [PT.ptr] at this

theorem nodup_sub {t : PT} {a : Nat} {s : PT} (hnd : t.addrs.Nodup) (hs : t.sub a = some s) :
    s.addrs.Nodup := by
  induction t with
  | leaf => simp [PT.sub] at hs
  | node l b r ihl ihr =>
    have hndc := hnd
    simp only [PT.addrs] at hndc
    rw [List.nodup_append] at hndc
    obtain ⟨ndl, ndr', _⟩ := hndc
    rw [List.nodup_cons] at ndr'
    by_cases hab : a = b
    · simp [PT.sub, hab] at hs; subst hs; exact hnd
    · simp only [PT.sub, hab, if_false] at hs
      cases hl : l.sub a with
      | some s0 => simp [hl] at hs; subst hs; exact ihl ndl hl
      | none => simp [hl] at hs; exact ihr ndr'.2 hs

/-- allocation of a fresh cell preserves the invariant -/
theorem holds_alloc {st : St} {t : PT} (hH : Holds st t) (nd : Node) (sz : Int) :
    Holds ⟨upd st.h st.alloc nd, st.alloc + 1, st.root, sz⟩ t := by
  obtain ⟨h1, h2, h3⟩ := hH
  refine ⟨repr_congr (fun a ha => ?_) h1, h2, fun a ha => Nat.lt_succ_of_lt (h3 a ha)⟩
  have hne : a ≠ st.alloc := Nat.ne_of_lt (h3 a ha)
  simp [upd, hne, SamePtrs]

theorem link_left {h : Nat → Node} {root : Option Nat} {A : Nat} {t : PT} {p : Nat}
    (hR : Repr h root none t) (hnd : t.addrs.Nodup) (hb : ∀ a ∈ t.addrs, a < A)
    (hp : p ∈ t.addrs) (hl : (h p).left = none) (h' : Nat → Node)
    (hf' : (h' A).left = none ∧ (h' A).right = none ∧ (h' A).parent = some p)
    (hp' : (h' p).left = some A ∧ (h' p).right = (h p).right ∧ (h' p).parent = (h p).parent)
    (hoth : ∀ b, b ≠ p → b ≠ A → h' b = h b) :
    ∃ t', (Repr h' root none t' ∧ t'.addrs.Nodup ∧ ∀ a ∈ t'.addrs, a < A + 1) ∧ A ∈ t'.addrs ∧
      ∃ pre post, t.addrs = pre ++ p :: post ∧ t'.addrs = pre ++ A :: p :: post := by
  have hfA : A ∉ t.addrs := fun hm => Nat.lt_irrefl _ (hb A hm)
  obtain ⟨s, hs⟩ := sub_some_of_mem hp
  obtain ⟨⟨L, R, rfl⟩, hsub⟩ := sub_spec hs
  have hRs := repr_sub hR hs
  simp only [Repr] at hRs
  obtain ⟨_, hpar, hL, hRr⟩ := hRs
  rw [hl] at hL
  have hLl : L = .leaf := by
    cases L with
    | leaf => rfl
    | node _ _ _ => simp [Repr] at hL
  subst hLl
  have hsnd := nodup_sub hnd hs
  simp only [PT.addrs, List.nil_append, List.nodup_cons] at hsnd hsub
  have hAR : A ∉ R.addrs := fun hm => hfA (hsub A (List.mem_cons_of_mem _ hm))
  have hpA : p ≠ A := fun e => hfA (e ▸ hp)
  have hs'R : Repr h' (some p) (t.parOf none p) (.node (.node .leaf A .leaf) p R) := by
    simp only [Repr]
    refine ⟨trivial, by rw [hp'.2.2]; exact hpar, ⟨hp'.1, hf'.2.2, hf'.1, hf'.2.1⟩, ?_⟩
    rw [hp'.2.1]
    refine repr_congr (fun a ha => ?_) hRr
    have h1 : a ≠ p := fun e => hsnd.1 (e ▸ ha)
    have h2 : a ≠ A := fun e => hAR (e ▸ ha)
    rw [hoth a h1 h2]; exact ⟨rfl, rfl, rfl⟩
  have hrep := repr_replace (s' := .node (.node .leaf A .leaf) p R) hR hnd hs hs'R (by
    intro b hbt hbs
    simp only [PT.addrs, List.nil_append, List.mem_cons, not_or] at hbs
    have h2 : b ≠ A := fun e => hfA (e ▸ hbt)
    rw [Redirected, hoth b hbs.1 h2]
    refine ⟨rfl, ?_, ?_⟩ <;> split <;> simp_all [PT.ptr])
  have hmem : ∀ x, x ∈ (t.replace p (.node (.node .leaf A .leaf) p R)).addrs ↔ x ∈ t.addrs ∨ x = A := by
    intro x
    rw [mem_replace hnd hs]
    simp only [PT.addrs, List.nil_append, List.mem_cons, List.mem_append, List.not_mem_nil, false_or, or_false]
    constructor
    · rintro (⟨h1, _⟩ | h1 | h1 | h1)
      · exact .inl h1
      · exact .inr h1
      · exact .inl (h1 ▸ hp)
      · exact .inl (hsub x (List.mem_cons_of_mem _ h1))
    · rintro (h1 | h1)
      · by_cases hx : x = p ∨ x ∈ R.addrs
        · exact .inr (.inr hx)
        · exact .inl ⟨h1, hx⟩
      · exact .inr (.inl h1)
  refine ⟨t.replace p (.node (.node .leaf A .leaf) p R), ⟨?_, ?_, ?_⟩, (hmem A).2 (.inr rfl), ?_⟩
  · simp only [PT.ptr] at hrep
    split at hrep
    · rename_i e; rw [e]; exact hrep
    · exact hrep
  · refine nodup_replace hnd hs ?_ ?_
    · simp only [PT.addrs, List.nil_append, List.nodup_cons, List.mem_cons, not_or, List.append_nil,
        List.nodup_nil, and_true, List.singleton_append]
      exact ⟨⟨fun e => hpA e.symm, hAR⟩, hsnd⟩
    · intro x hx
      simp only [PT.addrs, List.nil_append, List.mem_cons, List.mem_append, List.not_mem_nil, false_or,
        or_false] at hx ⊢
      rcases hx with hx | hx
      · exact .inr (hx ▸ hfA)
      · exact .inl hx
  · intro a ha
    rcases (hmem a).1 ha with h1 | h1
    · exact Nat.lt_succ_of_lt (hb a h1)
    · omega
  · obtain ⟨pre, post, e1, e2⟩ := addrs_replace (s' := .node (.node .leaf A .leaf) p R) hnd hs
    exact ⟨pre, R.addrs ++ post, by simp [e1, PT.addrs], by simp [e2, PT.addrs]⟩

theorem link_right {h : Nat → Node} {root : Option Nat} {A : Nat} {t : PT} {p : Nat}
    (hR : Repr h root none t) (hnd : t.addrs.Nodup) (hb : ∀ a ∈ t.addrs, a < A)
    (hp : p ∈ t.addrs) (hl : (h p).right = none) (h' : Nat → Node)
    (hf' : (h' A).left = none ∧ (h' A).right = none ∧ (h' A).parent = some p)
    (hp' : (h' p).right = some A ∧ (h' p).left = (h p).left ∧ (h' p).parent = (h p).parent)
    (hoth : ∀ b, b ≠ p → b ≠ A → h' b = h b) :
    ∃ t', (Repr h' root none t' ∧ t'.addrs.Nodup ∧ ∀ a ∈ t'.addrs, a < A + 1) ∧ A ∈ t'.addrs ∧
      ∃ pre post, t.addrs = pre ++ p :: post ∧ t'.addrs = pre ++ p :: A :: post := by
  have hfA : A ∉ t.addrs := fun hm => Nat.lt_irrefl _ (hb A hm)
  obtain ⟨s, hs⟩ := sub_some_of_mem hp
  obtain ⟨⟨L, R, rfl⟩, hsub⟩ := sub_spec hs
  have hRs := repr_sub hR hs
  simp only [Repr] at hRs
  obtain ⟨_, hpar, hL, hRr⟩ := hRs
  rw [hl] at hRr
  have hRl : R = .leaf := by
    cases R with
    | leaf => rfl
    | node _ _ _ => simp [Repr] at hRr
  subst hRl
  have hsnd := nodup_sub hnd hs
  simp only [PT.addrs] at hsnd hsub
  rw [List.nodup_append] at hsnd
  have hpL : p ∉ L.addrs := fun hm => hsnd.2.2 p hm p (by simp) rfl
  have hAL : A ∉ L.addrs := fun hm => hfA (hsub A (by simp [hm]))
  have hpA : p ≠ A := fun e => hfA (e ▸ hp)
  have hs'R : Repr h' (some p) (t.parOf none p) (.node L p (.node .leaf A .leaf)) := by
    simp only [Repr]
    refine ⟨trivial, by rw [hp'.2.2]; exact hpar, ?_, ⟨hp'.1, hf'.2.2, hf'.1, hf'.2.1⟩⟩
    rw [hp'.2.1]
    refine repr_congr (fun a ha => ?_) hL
    have h1 : a ≠ p := fun e => hpL (e ▸ ha)
    have h2 : a ≠ A := fun e => hAL (e ▸ ha)
    rw [hoth a h1 h2]; exact ⟨rfl, rfl, rfl⟩
  have hrep := repr_replace (s' := .node L p (.node .leaf A .leaf)) hR hnd hs hs'R (by
    intro b hbt hbs
    simp only [PT.addrs, List.mem_append, List.mem_cons, List.not_mem_nil, or_false, not_or] at hbs
    have h2 : b ≠ A := fun e => hfA (e ▸ hbt)
    rw [Redirected, hoth b hbs.2 h2]
    refine ⟨rfl, ?_, ?_⟩ <;> split <;> simp_all [PT.ptr])
  have hmem : ∀ x, x ∈ (t.replace p (.node L p (.node .leaf A .leaf))).addrs ↔ x ∈ t.addrs ∨ x = A := by
    intro x
    rw [mem_replace hnd hs]
    simp only [PT.addrs, List.nil_append, List.mem_cons, List.mem_append, List.not_mem_nil, false_or, or_false]
    constructor
    · rintro (⟨h1, _⟩ | h1 | h1 | h1)
      · exact .inl h1
      · exact .inl (hsub x (by simp [h1]))
      · exact .inl (h1 ▸ hp)
      · exact .inr h1
    · rintro (h1 | h1)
      · by_cases hx : x ∈ L.addrs ∨ x = p
        · rcases hx with hx | hx
          · exact .inr (.inl hx)
          · exact .inr (.inr (.inl hx))
        · exact .inl ⟨h1, hx⟩
      · exact .inr (.inr (.inr h1))
  refine ⟨t.replace p (.node L p (.node .leaf A .leaf)), ⟨?_, ?_, ?_⟩, (hmem A).2 (.inr rfl), ?_⟩
  · simp only [PT.ptr] at hrep
    split at hrep
    · rename_i e; rw [e]; exact hrep
    · exact hrep
  · refine nodup_replace hnd hs ?_ ?_
    · simp only [PT.addrs, List.nil_append]
      rw [List.nodup_append]
      refine ⟨hsnd.1, ?_, ?_⟩
      · simp [hpA]
      · intro x hx y hy hxy
        subst hxy
        simp only [List.mem_cons, List.not_mem_nil, or_false] at hy
        rcases hy with hy | hy
        · exact hpL (hy ▸ hx)
        · exact hAL (hy ▸ hx)
    · intro x hx
      simp only [PT.addrs, List.nil_append, List.mem_cons, List.mem_append, List.not_mem_nil, false_or,
        or_false] at hx ⊢
      rcases hx with hx | hx | hx
      · exact .inl (.inl hx)
      · exact .inl (.inr hx)
      · exact .inr (hx ▸ hfA)
  · intro a ha
    rcases (hmem a).1 ha with h1 | h1
    · exact Nat.lt_succ_of_lt (hb a h1)
    · omega
  · obtain ⟨pre, post, e1, e2⟩ := addrs_replace (s' := .node L p (.node .leaf A .leaf)) hnd hs
    exact ⟨pre ++ L.addrs, post, by simp [e1, PT.addrs], by simp [e2, PT.addrs]⟩

theorem link_left' {st : St} {t : PT} {p : Nat} (hH : Holds st t)
    (hp : p ∈ t.addrs) (hl : (st.h p).left = none) (h' : Nat → Node) (sz : Int)
    (hf' : (h' st.alloc).left = none ∧ (h' st.alloc).right = none ∧ (h' st.alloc).parent = some p)
    (hp' : (h' p).left = some st.alloc ∧ (h' p).right = (st.h p).right ∧ (h' p).parent = (st.h p).parent)
    (hoth : ∀ b, b ≠ p → b ≠ st.alloc → h' b = st.h b) :
    ∃ t', Holds ⟨h', st.alloc + 1, st.root, sz⟩ t' ∧ st.alloc ∈ t'.addrs ∧
      ∃ pre post, t.addrs = pre ++ p :: post ∧ t'.addrs = pre ++ st.alloc :: p :: post :=
  link_left hH.1 hH.2.1 hH.2.2 hp hl h' hf' hp' hoth

theorem link_right' {st : St} {t : PT} {p : Nat} (hH : Holds st t)
    (hp : p ∈ t.addrs) (hl : (st.h p).right = none) (h' : Nat → Node) (sz : Int)
    (hf' : (h' st.alloc).left = none ∧ (h' st.alloc).right = none ∧ (h' st.alloc).parent = some p)
    (hp' : (h' p).right = some st.alloc ∧ (h' p).left = (st.h p).left ∧ (h' p).parent = (st.h p).parent)
    (hoth : ∀ b, b ≠ p → b ≠ st.alloc → h' b = st.h b) :
    ∃ t', Holds ⟨h', st.alloc + 1, st.root, sz⟩ t' ∧ st.alloc ∈ t'.addrs ∧
      ∃ pre post, t.addrs = pre ++ p :: post ∧ t'.addrs = pre ++ p :: st.alloc :: post :=
  link_right hH.1 hH.2.1 hH.2.2 hp hl h' hf' hp' hoth

theorem link_left0 {st : St} {t : PT} {p : Nat} (hH : Holds st t)
    (hp : p ∈ t.addrs) (hl : (st.h p).left = none) (h' : Nat → Node) (sz : Int)
    (hf' : (h' st.alloc).left = none ∧ (h' st.alloc).right = none ∧ (h' st.alloc).parent = some p)
    (hp' : (h' p).left = some st.alloc ∧ (h' p).right = (st.h p).right ∧ (h' p).parent = (st.h p).parent)
    (hoth : ∀ b, b ≠ p → b ≠ st.alloc → h' b = st.h b) :
    ∃ t', Holds ⟨h', st.alloc + 1, st.root, sz⟩ t' ∧ st.alloc ∈ t'.addrs := by
  obtain ⟨t', a, b, _⟩ := link_left' hH hp hl h' sz hf' hp' hoth
  exact ⟨t', a, b⟩

theorem link_right0 {st : St} {t : PT} {p : Nat} (hH : Holds st t)
    (hp : p ∈ t.addrs) (hl : (st.h p).right = none) (h' : Nat → Node) (sz : Int)
    (hf' : (h' st.alloc).left = none ∧ (h' st.alloc).right = none ∧ (h' st.alloc).parent = some p)
    (hp' : (h' p).right = some st.alloc ∧ (h' p).left = (st.h p).left ∧ (h' p).parent = (st.h p).parent)
    (hoth : ∀ b, b ≠ p → b ≠ st.alloc → h' b = st.h b) :
    ∃ t', Holds ⟨h', st.alloc + 1, st.root, sz⟩ t' ∧ st.alloc ∈ t'.addrs := by
  obtain ⟨t', a, b, _⟩ := link_right' hH hp hl h' sz hf' hp' hoth
  exact ⟨t', a, b⟩

/-! ### the pieces of `body_addNode` -/

def loopC : Expr PName := (.ne (.var 2) .nil)
def loopB : Stmt PName :=
    (.seq (.assign 4 (.var 2))
    (.seq (.assign 3 (.cmp (.field (.var 0) .key) (.field (.var 2) .key)))
    (.ite (.lt (.var 3) (.int 0))
    (.assign 2 (.field (.var 2) .left))
    (.ite (.gt (.var 3) (.int 0))
    (.assign 2 (.field (.var 2) .right))
    (.ite (.eq (.var 3) (.int 0))
    (.ret (.err 1))
    .skip)))))
def afterL : Stmt PName :=
    (.seq (.assign 1 (.alloc (.bool false) (.field (.var 0) .key) (.field (.var 0) .value) .nil .nil (.var 4)))
    (.ite (.lt (.var 3) (.int 0))
    (.setField (.var 4) .left (.var 1))
    (.setField (.var 4) .right (.var 1))))
def thenB : Stmt PName :=
    (.seq (.setRoot (.call2 .newRBNode (.field (.var 0) .key) (.field (.var 0) .value)))
    (.assign 1 .root))
def elseB : Stmt PName :=
    (.seq (.assign 2 .root)
    (.seq (.assign 3 (.int 0))
    (.seq (.assign 4 (.alloc (.bool false) (.int 0) (.int 0) .nil .nil .nil))
    (.seq (.loop loopC loopB) afterL))))
def tailS : Stmt PName :=
    (.seq (.setSize (.add .size (.int 1)))
    (.seq (.expr (.call1 .fixAfterAdd (.var 1)))
    (.ret .nil)))

def midS : Stmt PName := .ite (.eq .root .nil) thenB elseB

theorem body_addNode_eq : body_addNode = .seq (.assign 1 .nil) (.seq midS tailS) := rfl

section
variable (cmpF : Int → Int → Int) (callH : CallH PName) (lf : Nat)

theorem set_apply (ρ : Env) (x : Nat) (v : Val) (y : Nat) : (ρ.set x v) y = if y = x then v else ρ y := rfl

theorem cond_eval (ρ : Env) (st : St) (q : Option Nat) (h2 : ρ 2 = .ptr q) :
    evalE cmpF callH ρ st loopC = .ok (.bool (!(q == none)), st) := by
  simp [loopC, evalE, h2, valEq]

theorem body_eval0 (ρ : Env) (st : St) (m a : Nat) (h0 : ρ 0 = .ptr (some m)) (h2 : ρ 2 = .ptr (some a)) :
    exec cmpF callH lf ρ st loopB =
      (if cmpF (st.h m).key (st.h a).key < 0 then
        .ok (.normal, (((ρ.set 4 (.ptr (some a))).set 3 (.int (cmpF (st.h m).key (st.h a).key))).set 2 (.ptr (st.h a).left)), st)
      else if cmpF (st.h m).key (st.h a).key > 0 then
        .ok (.normal, (((ρ.set 4 (.ptr (some a))).set 3 (.int (cmpF (st.h m).key (st.h a).key))).set 2 (.ptr (st.h a).right)), st)
      else if cmpF (st.h m).key (st.h a).key = 0 then
        .ok (.ret (.err 1), ((ρ.set 4 (.ptr (some a))).set 3 (.int (cmpF (st.h m).key (st.h a).key))), st)
      else .ok (.normal, ((ρ.set 4 (.ptr (some a))).set 3 (.int (cmpF (st.h m).key (st.h a).key))), st)) := by
  generalize hc : cmpF (st.h m).key (st.h a).key = c
  simp only [loopB, exec, evalE, set_apply, h0, h2, Node.get, hc, valEq]
  simp [hc, set_apply, h0, h2]
  by_cases h1 : c < 0
  · simp [h1]
  · by_cases h3 : 0 < c
    · simp [h1, h3]
    · by_cases h4 : c = 0
      · simp [h4]
      · omega
def Good (t : PT) (ρ : Env) (st : St) : Prop :=
  ∃ p c, ρ 4 = .ptr (some p) ∧ ρ 3 = .int c ∧ p ∈ t.addrs ∧
    (c < 0 → (st.h p).left = none) ∧ (¬ c < 0 → (st.h p).right = none)

theorem loop_inv (st : St) (t : PT) (hH : Holds st t) (m : Nat) :
    ∀ n (ρ : Env) q, ρ 0 = .ptr (some m) → ρ 2 = .ptr q → (∀ a, q = some a → a ∈ t.addrs) →
      (q = none → Good t ρ st) → ∀ fl ρ' st',
      iterate (fun ρ st => evalE cmpF callH ρ st loopC) (fun ρ st => exec cmpF callH lf ρ st loopB) n ρ st
        = .ok (fl, ρ', st') →
      st' = st ∧ (fl = .normal → Good t ρ' st ∧ ρ' 0 = .ptr (some m)) := by
  intro n
  induction n with
  | zero => intro ρ q h0 h2 hq hg fl ρ' st' h; simp [iterate] at h
  | succ n ih =>
    intro ρ q h0 h2 hq hg fl ρ' st' h
    simp only [iterate, cond_eval cmpF callH ρ st q h2] at h
    cases q with
    | none =>
      simp at h
      obtain ⟨rfl, rfl, rfl⟩ := h
      exact ⟨rfl, fun _ => ⟨hg rfl, h0⟩⟩
    | some a =>
      have ha := hq a rfl
      obtain ⟨fl1, fl2, _⟩ := repr_fields hH.1 a ha
      have hb : (!(some a == (none : Option Nat))) = true := rfl
      simp only [hb, body_eval0 cmpF callH lf ρ st m a h0 h2] at h
      generalize hc : cmpF (st.h m).key (st.h a).key = c at h
      by_cases h1 : c < 0
      · simp only [if_pos h1] at h
        refine ih _ (st.h a).left (by simp [set_apply, h0]) (by simp [set_apply]) (fun b hb => fl1 b hb)
          (fun hn => ⟨a, c, by simp [set_apply], by simp [set_apply], ha, fun _ => hn, fun h' => absurd h1 h'⟩)
          fl ρ' st' h
      · simp only [if_neg h1] at h
        by_cases h3 : c > 0
        · simp only [if_pos h3] at h
          refine ih _ (st.h a).right (by simp [set_apply, h0]) (by simp [set_apply]) (fun b hb => fl2 b hb)
            (fun hn => ⟨a, c, by simp [set_apply], by simp [set_apply], ha, fun h' => absurd h' h1, fun _ => hn⟩)
            fl ρ' st' h
        · simp only [if_neg h3] at h
          have h4 : c = 0 := by omega
          simp only [if_pos h4] at h
          simp at h
          obtain ⟨rfl, rfl, rfl⟩ := h
          exact ⟨rfl, fun hf => by cases hf⟩
theorem after_spec (ρ : Env) (st : St) (t : PT) (m : Nat) (hH : Holds st t) (h0 : ρ 0 = .ptr (some m))
    (hg : Good t ρ st) (fl : Flow) (ρ' : Env) (st' : St)
    (h : exec cmpF callH lf ρ st afterL = .ok (fl, ρ', st')) :
    ∃ t', Holds st' t' ∧ PtrIn t'.addrs (ρ' 1) := by
  obtain ⟨p, c, h4, h3, hp, hl, hr⟩ := hg
  simp only [afterL, exec, evalE, set_apply, h0, h4, h3, Node.get] at h
  simp [h0, h4, h3] at h
  by_cases h1 : c < 0
  · simp [h1, Node.set] at h
    obtain ⟨_, rfl, rfl⟩ := h
    have hpA : p ≠ st.alloc := Nat.ne_of_lt (hH.2.2 p hp)
    simp only [set_apply, PtrIn, if_true]
    exact link_left0 hH hp (hl h1) _ _ (by simp [upd, hpA.symm])
      (by simp [upd, hpA]) (fun b hb1 hb2 => by simp [upd, hb1, hb2])
  · simp [h1, Node.set] at h
    obtain ⟨_, rfl, rfl⟩ := h
    have hpA : p ≠ st.alloc := Nat.ne_of_lt (hH.2.2 p hp)
    simp only [set_apply, PtrIn, if_true]
    exact link_right0 hH hp (hr h1) _ _ (by simp [upd, hpA.symm])
      (by simp [upd, hpA]) (fun b hb1 hb2 => by simp [upd, hb1, hb2])
theorem else_spec (ρ : Env) (st : St) (t : PT) (m : Nat) (hH : Holds st t) (hroot : st.root ≠ none)
    (h0 : ρ 0 = .ptr (some m)) (fl : Flow) (ρ' : Env) (st' : St)
    (h : exec cmpF callH lf ρ st elseB = .ok (fl, ρ', st')) :
    ∃ t', Holds st' t' ∧ (fl = .normal → PtrIn t'.addrs (ρ' 1)) := by
  simp only [elseB, exec, evalE] at h
  have hH1 : Holds ⟨upd st.h st.alloc {}, st.alloc + 1, st.root, st.size⟩ t := holds_alloc hH {} st.size
  have hq : ∀ a, st.root = some a → a ∈ t.addrs := by
    intro a ha
    have := repr_ptr hH.1
    rw [ha] at this
    cases t with
    | leaf => simp [PT.ptr] at this
    | node l b r => simp [PT.ptr] at this; subst this; simp [PT.addrs]
  have hinv := loop_inv cmpF callH lf _ t hH1 m lf
    (((ρ.set 2 (.ptr st.root)).set 3 (.int 0)).set 4 (.ptr (some st.alloc))) st.root (by simp [set_apply, h0]) (by simp [set_apply]) hq
    (fun hn => absurd hn hroot)
  split at h
  · rename_i ρ1 st1 heq
    obtain ⟨rfl, hg⟩ := hinv _ _ _ heq
    obtain ⟨hgood, h0'⟩ := hg rfl
    obtain ⟨t', ht', hp⟩ := after_spec cmpF callH lf _ _ t m hH1 h0' hgood _ _ _ h
    exact ⟨t', ht', fun _ => hp⟩
  · rename_i r hne heq
    cases h
    obtain ⟨rfl, _⟩ := hinv _ _ _ heq
    exact ⟨t, hH1, fun hf => absurd rfl (hf ▸ hne _ _)⟩
  · cases h
theorem then_spec
    (hNew : ∀ args st v st' t, Holds st t → callH .newRBNode args st = .ok (v, st') →
       ∃ n, v = .ptr (some n) ∧ n ∉ t.addrs ∧ n < st'.alloc ∧ Holds st' t ∧
            (st'.h n).left = none ∧ (st'.h n).right = none ∧ (st'.h n).parent = none)
    (ρ : Env) (st : St) (t : PT) (m : Nat) (hH : Holds st t) (hroot : st.root = none)
    (h0 : ρ 0 = .ptr (some m)) (fl : Flow) (ρ' : Env) (st' : St)
    (h : exec cmpF callH lf ρ st thenB = .ok (fl, ρ', st')) :
    ∃ t', Holds st' t' ∧ (fl = .normal → PtrIn t'.addrs (ρ' 1)) := by
  simp only [thenB, exec, evalE, h0, Node.get] at h
  cases hc : callH PName.newRBNode [Val.int (st.h m).key, Val.int (st.h m).value] st with
  | error e => rw [hc] at h; simp at h
  | ok r =>
    obtain ⟨v, s1⟩ := r
    rw [hc] at h
    obtain ⟨n, rfl, hn, hlt, hH', f1, f2, f3⟩ := hNew _ _ _ _ _ hH hc
    simp at h
    obtain ⟨rfl, rfl, rfl⟩ := h
    have ht : t = .leaf := holds_root_none hH hroot
    subst ht
    refine ⟨.node .leaf n .leaf, ⟨?_, ?_, ?_⟩, fun _ => ?_⟩
    · simp [Repr, f1, f2, f3]
    · simp [PT.addrs]
    · simp [PT.addrs, hlt]
    · simp [set_apply, PtrIn, PT.addrs]
theorem tail_spec (hK : ∀ fn, isK fn = true → SpecK callH fn)
    (ρ : Env) (st : St) (t : PT) (hH : Holds st t) (hp : PtrIn t.addrs (ρ 1))
    (fl : Flow) (ρ' : Env) (st' : St)
    (h : exec cmpF callH lf ρ st tailS = .ok (fl, ρ', st')) :
    ∃ t', Holds st' t' := by
  simp only [tailS, exec, evalE] at h
  cases hc : callH PName.fixAfterAdd [ρ 1] { st with size := st.size + 1 } with
  | error e => rw [hc] at h; simp at h
  | ok r =>
    obtain ⟨v, s1⟩ := r
    rw [hc] at h
    simp at h
    obtain ⟨_, _, rfl⟩ := h
    have hH' : Holds { st with size := st.size + 1 } t := hH
    obtain ⟨t', ht', _, _⟩ := hK .fixAfterAdd rfl _ _ _ _ t hH' (by simpa using hp) hc
    exact ⟨t', ht'⟩
end

theorem addNode_spec (cmpF : Int → Int → Int) (callH : CallH PName) (lf : Nat)
    (hK : ∀ fn, isK fn = true → SpecK callH fn)
    (hNew : ∀ args st v st' t, Holds st t → callH .newRBNode args st = .ok (v, st') →
       ∃ n, v = .ptr (some n) ∧ n ∉ t.addrs ∧ n < st'.alloc ∧ Holds st' t ∧
            (st'.h n).left = none ∧ (st'.h n).right = none ∧ (st'.h n).parent = none) :
    ∀ n st v st' t, Holds st t →
      runBody cmpF callH lf (procs .addNode) [.ptr (some n)] st = .ok (v, st') →
      ∃ t', Holds st' t' := by
  intro n st v st' t hH h
  simp only [runBody, procs, body_addNode_eq, exec, evalE] at h
  have h0 : ((Env.ofArgs [Val.ptr (some n)]).set 1 (Val.ptr none)) 0 = .ptr (some n) := by
    simp [set_apply, Env.ofArgs]
  have hmid : ∀ fl ρ' s', exec cmpF callH lf ((Env.ofArgs [Val.ptr (some n)]).set 1 (Val.ptr none)) st midS
        = .ok (fl, ρ', s') →
      ∃ t', Holds s' t' ∧ (fl = .normal → PtrIn t'.addrs (ρ' 1)) := by
    intro fl ρ' s' hEq
    simp only [midS, exec, evalE] at hEq
    cases hr : st.root with
    | none =>
      simp [valEq, hr] at hEq
      exact then_spec cmpF callH lf hNew _ st t n hH hr h0 _ _ _ hEq
    | some a =>
      simp [valEq, hr] at hEq
      exact else_spec cmpF callH lf _ st t n hH (by simp [hr]) h0 _ _ _ hEq
  generalize exec cmpF callH lf ((Env.ofArgs [Val.ptr (some n)]).set 1 (Val.ptr none)) st midS = E at h hmid
  match E, hmid with
  | .error e, _ => simp at h
  | .ok (fl, ρ1, s1), hmid =>
    obtain ⟨t1, hH1, hp1⟩ := hmid _ _ _ rfl
    cases fl with
    | normal =>
      simp only at h
      cases hx : exec cmpF callH lf ρ1 s1 tailS with
      | error e => rw [hx] at h; simp at h
      | ok r =>
        obtain ⟨fl2, ρ2, s2⟩ := r
        obtain ⟨t2, hH2⟩ := tail_spec cmpF callH lf hK ρ1 s1 t1 hH1 (hp1 rfl) _ _ _ hx
        rw [hx] at h
        cases fl2 <;> simp at h
        · obtain ⟨_, rfl⟩ := h; exact ⟨t2, hH2⟩
        · obtain ⟨_, rfl⟩ := h; exact ⟨t2, hH2⟩
    | cont => simp at h
    | brk => simp at h
    | ret w =>
      simp at h
      obtain ⟨_, rfl⟩ := h
      exact ⟨t1, hH1⟩

/-! ### order -/

theorem split_unique : ∀ {a a' b b' : List Nat} {x : Nat}, (a ++ x :: b).Nodup →
    a ++ x :: b = a' ++ x :: b' → a = a' ∧ b = b' := by
  intro a
  induction a with
  | nil =>
    intro a' b b' x hnd h
    cases a' with
    | nil => simp at h; exact ⟨rfl, h⟩
    | cons y a'' =>
      simp at h
      obtain ⟨rfl, hb⟩ := h
      simp [hb] at hnd
  | cons y a ih =>
    intro a' b b' x hnd h
    cases a' with
    | nil =>
      simp at h
      obtain ⟨rfl, _⟩ := h
      simp at hnd
    | cons y' a'' =>
      simp only [List.cons_append, List.cons.injEq] at h
      obtain ⟨rfl, h⟩ := h
      have := ih (List.nodup_cons.1 hnd).2 h
      exact ⟨by rw [this.1], this.2⟩

theorem pw_insert_left {R : Nat → Nat → Prop} {P Q : List Nat} {p A : Nat}
    (h : (P ++ p :: Q).Pairwise R) (hP : ∀ x ∈ P, R x A) (hp : R A p) (hQ : ∀ x ∈ Q, R A x) :
    (P ++ A :: p :: Q).Pairwise R := by
  rw [List.pairwise_append] at h ⊢
  obtain ⟨h1, h2, h3⟩ := h
  refine ⟨h1, List.pairwise_cons.2 ⟨fun x hx => ?_, h2⟩, fun a ha b hb => ?_⟩
  · rcases List.mem_cons.1 hx with hx | hx
    · rw [hx]; exact hp
    · exact hQ x hx
  · rcases List.mem_cons.1 hb with hb | hb
    · rw [hb]; exact hP a ha
    · exact h3 a ha b hb

theorem pw_insert_right {R : Nat → Nat → Prop} {P Q : List Nat} {p A : Nat}
    (h : (P ++ p :: Q).Pairwise R) (hP : ∀ x ∈ P, R x A) (hp : R p A) (hQ : ∀ x ∈ Q, R A x) :
    (P ++ p :: A :: Q).Pairwise R := by
  rw [List.pairwise_append] at h ⊢
  obtain ⟨h1, h2, h3⟩ := h
  rw [List.pairwise_cons] at h2
  refine ⟨h1, List.pairwise_cons.2 ⟨fun x hx => ?_, List.pairwise_cons.2 ⟨hQ, h2.2⟩⟩, fun a ha b hb => ?_⟩
  · rcases List.mem_cons.1 hx with hx | hx
    · rw [hx]; exact hp
    · exact h2.1 x hx
  · rcases List.mem_cons.1 hb with hb | hb
    · exact h3 a ha b (by simp [hb])
    · rcases List.mem_cons.1 hb with hb | hb
      · rw [hb]; exact hP a ha
      · exact h3 a ha b (List.mem_cons_of_mem _ hb)

theorem pw_mid {R : Nat → Nat → Prop} {l1 l2 l3 l4 : List Nat} {a : Nat}
    (h : (l1 ++ (l2 ++ a :: l3) ++ l4).Pairwise R) : (∀ x ∈ l2, R x a) ∧ (∀ x ∈ l3, R a x) := by
  have h' := (List.pairwise_append.1 h).1
  have h'' := (List.pairwise_append.1 h').2.1
  obtain ⟨_, h2, h3⟩ := List.pairwise_append.1 h''
  exact ⟨fun x hx => h3 x hx a (by simp), (List.pairwise_cons.1 h2).1⟩

theorem ordered_iff {cmpF : Int → Int → Int} {st : St} {t : PT} :
    Ordered cmpF st t ↔ t.addrs.Pairwise (fun a b => cmpF (st.h a).key (st.h b).key < 0) := by
  simp [Ordered, keysOf, List.pairwise_map]

theorem ordered_congr {cmpF : Int → Int → Int} {st st' : St} {t : PT}
    (hk : ∀ a ∈ t.addrs, (st'.h a).key = (st.h a).key) (hO : Ordered cmpF st t) : Ordered cmpF st' t := by
  have : keysOf st' t = keysOf st t := List.map_congr_left hk
  simp only [Ordered, this]; exact hO

theorem ordered_link_left {cmpF : Int → Int → Int} {st st' : St} {t t' : PT} {p A : Nat} {k : Int}
    {P Q : List Nat}
    (hO : Ordered cmpF st t) (hk : ∀ x ∈ t.addrs, (st'.h x).key = (st.h x).key) (hA : (st'.h A).key = k)
    (e1 : t.addrs = P ++ p :: Q) (e2 : t'.addrs = P ++ A :: p :: Q)
    (hP : ∀ x ∈ P, cmpF (st.h x).key k < 0) (hp : cmpF k (st.h p).key < 0)
    (hQ : ∀ x ∈ Q, cmpF k (st.h x).key < 0) :
    Ordered cmpF st' t' := by
  have hO' := ordered_iff.1 (ordered_congr hk hO)
  rw [ordered_iff, e2]
  rw [e1] at hO' hk
  refine pw_insert_left hO' (fun x hx => ?_) ?_ (fun x hx => ?_)
  · rw [hA, hk x (by simp [hx])]; exact hP x hx
  · rw [hA, hk p (by simp)]; exact hp
  · rw [hA, hk x (by simp [hx])]; exact hQ x hx

theorem ordered_link_right {cmpF : Int → Int → Int} {st st' : St} {t t' : PT} {p A : Nat} {k : Int}
    {P Q : List Nat}
    (hO : Ordered cmpF st t) (hk : ∀ x ∈ t.addrs, (st'.h x).key = (st.h x).key) (hA : (st'.h A).key = k)
    (e1 : t.addrs = P ++ p :: Q) (e2 : t'.addrs = P ++ p :: A :: Q)
    (hP : ∀ x ∈ P, cmpF (st.h x).key k < 0) (hp : cmpF (st.h p).key k < 0)
    (hQ : ∀ x ∈ Q, cmpF k (st.h x).key < 0) :
    Ordered cmpF st' t' := by
  have hO' := ordered_iff.1 (ordered_congr hk hO)
  rw [ordered_iff, e2]
  rw [e1] at hO' hk
  refine pw_insert_right hO' (fun x hx => ?_) ?_ (fun x hx => ?_)
  · rw [hA, hk x (by simp [hx])]; exact hP x hx
  · rw [hA, hk p (by simp)]; exact hp
  · rw [hA, hk x (by simp [hx])]; exact hQ x hx

theorem link_left_ord {cmpF : Int → Int → Int} {st : St} {t : PT} {p : Nat} {k : Int} {P Q : List Nat}
    (hH : Holds st t) (hO : Ordered cmpF st t)
    (e1 : t.addrs = P ++ p :: Q) (hl : (st.h p).left = none) (h' : Nat → Node) (sz : Int)
    (hf' : (h' st.alloc).left = none ∧ (h' st.alloc).right = none ∧ (h' st.alloc).parent = some p)
    (hp' : (h' p).left = some st.alloc ∧ (h' p).right = (st.h p).right ∧ (h' p).parent = (st.h p).parent)
    (hoth : ∀ b, b ≠ p → b ≠ st.alloc → h' b = st.h b)
    (hk : ∀ x ∈ t.addrs, (h' x).key = (st.h x).key) (hA : (h' st.alloc).key = k)
    (hP : ∀ x ∈ P, cmpF (st.h x).key k < 0) (hp : cmpF k (st.h p).key < 0)
    (hQ : ∀ x ∈ Q, cmpF k (st.h x).key < 0) :
    ∃ t', Holds ⟨h', st.alloc + 1, st.root, sz⟩ t' ∧ Ordered cmpF ⟨h', st.alloc + 1, st.root, sz⟩ t' ∧
      st.alloc ∈ t'.addrs := by
  have hpm : p ∈ t.addrs := by rw [e1]; simp
  obtain ⟨t', ht', hA', pre, post, f1, f2⟩ := link_left' hH hpm hl h' sz hf' hp' hoth
  have hnd := hH.2.1
  rw [e1] at hnd
  obtain ⟨rfl, rfl⟩ := split_unique hnd (e1.symm.trans f1)
  exact ⟨t', ht', ordered_link_left (st' := ⟨h', st.alloc + 1, st.root, sz⟩) hO hk hA e1 f2 hP hp hQ, hA'⟩

theorem link_right_ord {cmpF : Int → Int → Int} {st : St} {t : PT} {p : Nat} {k : Int} {P Q : List Nat}
    (hH : Holds st t) (hO : Ordered cmpF st t)
    (e1 : t.addrs = P ++ p :: Q) (hl : (st.h p).right = none) (h' : Nat → Node) (sz : Int)
    (hf' : (h' st.alloc).left = none ∧ (h' st.alloc).right = none ∧ (h' st.alloc).parent = some p)
    (hp' : (h' p).right = some st.alloc ∧ (h' p).left = (st.h p).left ∧ (h' p).parent = (st.h p).parent)
    (hoth : ∀ b, b ≠ p → b ≠ st.alloc → h' b = st.h b)
    (hk : ∀ x ∈ t.addrs, (h' x).key = (st.h x).key) (hA : (h' st.alloc).key = k)
    (hP : ∀ x ∈ P, cmpF (st.h x).key k < 0) (hp : cmpF (st.h p).key k < 0)
    (hQ : ∀ x ∈ Q, cmpF k (st.h x).key < 0) :
    ∃ t', Holds ⟨h', st.alloc + 1, st.root, sz⟩ t' ∧ Ordered cmpF ⟨h', st.alloc + 1, st.root, sz⟩ t' ∧
      st.alloc ∈ t'.addrs := by
  have hpm : p ∈ t.addrs := by rw [e1]; simp
  obtain ⟨t', ht', hA', pre, post, f1, f2⟩ := link_right' hH hpm hl h' sz hf' hp' hoth
  have hnd := hH.2.1
  rw [e1] at hnd
  obtain ⟨rfl, rfl⟩ := split_unique hnd (e1.symm.trans f1)
  exact ⟨t', ht', ordered_link_right (st' := ⟨h', st.alloc + 1, st.root, sz⟩) hO hk hA e1 f2 hP hp hQ, hA'⟩

section
variable (cmpF : Int → Int → Int) (callH : CallH PName) (lf : Nat)

def Inv (st : St) (t : PT) (k : Int) (q : Option Nat) : Prop :=
  ∃ s par pre post, Repr st.h q par s ∧ t.addrs = pre ++ s.addrs ++ post ∧
    (∀ x ∈ pre, cmpF (st.h x).key k < 0) ∧ (∀ x ∈ post, cmpF k (st.h x).key < 0)

def Good2 (t : PT) (k : Int) (ρ : Env) (st : St) : Prop :=
  ∃ p c P Q, ρ 4 = .ptr (some p) ∧ ρ 3 = .int c ∧ t.addrs = P ++ p :: Q ∧
    (∀ x ∈ P, cmpF (st.h x).key k < 0) ∧ (∀ x ∈ Q, cmpF k (st.h x).key < 0) ∧
    (c < 0 → (st.h p).left = none ∧ cmpF k (st.h p).key < 0) ∧
    (¬ c < 0 → (st.h p).right = none ∧ cmpF (st.h p).key k < 0)

theorem loop_inv2 (hLaw : Ekit.RB.LawfulCmp cmpF) (st : St) (t : PT) (hO : Ordered cmpF st t) (m : Nat) :
    ∀ n (ρ : Env) q, ρ 0 = .ptr (some m) → ρ 2 = .ptr q → Inv cmpF st t (st.h m).key q →
      (q = none → Good2 cmpF t (st.h m).key ρ st) → ∀ fl ρ' st',
      iterate (fun ρ st => evalE cmpF callH ρ st loopC) (fun ρ st => exec cmpF callH lf ρ st loopB) n ρ st
        = .ok (fl, ρ', st') →
      st' = st ∧ (fl = .normal → Good2 cmpF t (st.h m).key ρ' st ∧ ρ' 0 = .ptr (some m)) := by
  intro n
  induction n with
  | zero => intro ρ q h0 h2 hinv hg fl ρ' st' h; simp [iterate] at h
  | succ n ih =>
    intro ρ q h0 h2 hinv hg fl ρ' st' h
    simp only [iterate, cond_eval cmpF callH ρ st q h2] at h
    cases q with
    | none =>
      simp at h
      obtain ⟨rfl, rfl, rfl⟩ := h
      exact ⟨rfl, fun _ => ⟨hg rfl, h0⟩⟩
    | some a =>
      obtain ⟨s, par, pre, post, hR, he, hpre, hpost⟩ := hinv
      cases s with
      | leaf => simp [Repr] at hR
      | node L a' R =>
        simp only [Repr] at hR
        obtain ⟨ha', _, hL, hRr⟩ := hR
        have ha'' : a' = a := (Option.some.inj ha').symm
        subst ha''
        simp only [PT.addrs] at he
        have hO' := ordered_iff.1 hO
        rw [he] at hO'
        obtain ⟨hLa, haR⟩ := pw_mid hO'
        have hb : (!(some a' == (none : Option Nat))) = true := rfl
        simp only [hb, body_eval0 cmpF callH lf ρ st m a' h0 h2] at h
        generalize hc : cmpF (st.h m).key (st.h a').key = c at h
        by_cases h1 : c < 0
        · simp only [if_pos h1] at h
          have hka : cmpF (st.h m).key (st.h a').key < 0 := by rw [hc]; exact h1
          have hkR : ∀ x ∈ R.addrs ++ post, cmpF (st.h m).key (st.h x).key < 0 := by
            intro x hx
            rcases List.mem_append.1 hx with hx | hx
            · exact hLaw.lt_trans hka (haR x hx)
            · exact hpost x hx
          refine ih _ (st.h a').left (by simp [set_apply, h0]) (by simp [set_apply])
            ⟨L, some a', pre, a' :: R.addrs ++ post, hL, by rw [he]; simp [List.append_assoc], hpre, ?_⟩
            (fun hn => ?_) fl ρ' st' h
          · intro x hx
            rcases List.mem_cons.1 hx with hx | hx
            · rw [hx]; exact hka
            · exact hkR x hx
          · rw [hn] at hL
            have hLl : L = .leaf := by
              cases L with
              | leaf => rfl
              | node _ _ _ => simp [Repr] at hL
            subst hLl
            exact ⟨a', c, pre, R.addrs ++ post, by simp [set_apply], by simp [set_apply],
              by rw [he]; simp [PT.addrs, List.append_assoc], hpre, hkR, fun _ => ⟨hn, hka⟩,
              fun h' => absurd h1 h'⟩
        · simp only [if_neg h1] at h
          by_cases h3 : c > 0
          · simp only [if_pos h3] at h
            have hak : cmpF (st.h a').key (st.h m).key < 0 := hLaw.lt_of_gt (by rw [hc]; exact h3)
            have hPk : ∀ x ∈ pre ++ L.addrs, cmpF (st.h x).key (st.h m).key < 0 := by
              intro x hx
              rcases List.mem_append.1 hx with hx | hx
              · exact hpre x hx
              · exact hLaw.lt_trans (hLa x hx) hak
            refine ih _ (st.h a').right (by simp [set_apply, h0]) (by simp [set_apply])
              ⟨R, some a', pre ++ L.addrs ++ [a'], post, hRr, by rw [he]; simp [List.append_assoc], ?_, hpost⟩
              (fun hn => ?_) fl ρ' st' h
            · intro x hx
              rcases List.mem_append.1 hx with hx | hx
              · exact hPk x hx
              · simp at hx; rw [hx]; exact hak
            · rw [hn] at hRr
              have hRl : R = .leaf := by
                cases R with
                | leaf => rfl
                | node _ _ _ => simp [Repr] at hRr
              subst hRl
              exact ⟨a', c, pre ++ L.addrs, post, by simp [set_apply], by simp [set_apply],
                by rw [he]; simp [PT.addrs, List.append_assoc], hPk, hpost, fun h' => absurd h' h1,
                fun _ => ⟨hn, hak⟩⟩
          · simp only [if_neg h3] at h
            have h4 : c = 0 := by omega
            simp only [if_pos h4] at h
            simp at h
            obtain ⟨rfl, rfl, rfl⟩ := h
            exact ⟨rfl, fun hf => by cases hf⟩

theorem after_spec2 (ρ : Env) (st : St) (t : PT) (m : Nat) (hH : Holds st t)
    (hO : Ordered cmpF st t) (h0 : ρ 0 = .ptr (some m))
    (hg : Good2 cmpF t (st.h m).key ρ st) (fl : Flow) (ρ' : Env) (st' : St)
    (h : exec cmpF callH lf ρ st afterL = .ok (fl, ρ', st')) :
    ∃ t', Holds st' t' ∧ Ordered cmpF st' t' ∧ PtrIn t'.addrs (ρ' 1) := by
  obtain ⟨p, c, P, Q, h4, h3, he, hP, hQ, hl, hr⟩ := hg
  have hp : p ∈ t.addrs := by rw [he]; simp
  have hpA : p ≠ st.alloc := Nat.ne_of_lt (hH.2.2 p hp)
  simp only [afterL, exec, evalE, set_apply, h0, h4, h3, Node.get] at h
  simp [h0, h4, h3] at h
  by_cases h1 : c < 0
  · simp [h1, Node.set] at h
    obtain ⟨_, rfl, rfl⟩ := h
    simp only [set_apply, PtrIn, if_true]
    refine link_left_ord hH hO he (hl h1).1 _ _ (by simp [upd, hpA.symm])
      (by simp [upd, hpA]) (fun b hb1 hb2 => by simp [upd, hb1, hb2]) (fun x hx => ?_) (by simp [upd, hpA.symm])
      hP (hl h1).2 hQ
    have hxA : x ≠ st.alloc := Nat.ne_of_lt (hH.2.2 x hx)
    by_cases hxp : x = p
    · subst hxp; simp [upd, hxA]
    · simp [upd, hxA, hxp]
  · simp [h1, Node.set] at h
    obtain ⟨_, rfl, rfl⟩ := h
    simp only [set_apply, PtrIn, if_true]
    refine link_right_ord hH hO he (hr h1).1 _ _ (by simp [upd, hpA.symm])
      (by simp [upd, hpA]) (fun b hb1 hb2 => by simp [upd, hb1, hb2]) (fun x hx => ?_) (by simp [upd, hpA.symm])
      hP (hr h1).2 hQ
    have hxA : x ≠ st.alloc := Nat.ne_of_lt (hH.2.2 x hx)
    by_cases hxp : x = p
    · subst hxp; simp [upd, hxA]
    · simp [upd, hxA, hxp]

theorem else_spec2 (hLaw : Ekit.RB.LawfulCmp cmpF) (ρ : Env) (st : St) (t : PT) (m : Nat) (hH : Holds st t)
    (hO : Ordered cmpF st t) (hroot : st.root ≠ none)
    (h0 : ρ 0 = .ptr (some m)) (fl : Flow) (ρ' : Env) (st' : St)
    (h : exec cmpF callH lf ρ st elseB = .ok (fl, ρ', st')) :
    ∃ t', Holds st' t' ∧ Ordered cmpF st' t' ∧ (fl = .normal → PtrIn t'.addrs (ρ' 1)) := by
  simp only [elseB, exec, evalE] at h
  have hH1 : Holds ⟨upd st.h st.alloc {}, st.alloc + 1, st.root, st.size⟩ t := holds_alloc hH {} st.size
  have hO1 : Ordered cmpF ⟨upd st.h st.alloc {}, st.alloc + 1, st.root, st.size⟩ t := by
    refine ordered_congr (fun a ha => ?_) hO
    have hne : a ≠ st.alloc := Nat.ne_of_lt (hH.2.2 a ha)
    simp [upd, hne]
  have hinv := loop_inv2 cmpF callH lf hLaw _ t hO1 m lf
    (((ρ.set 2 (.ptr st.root)).set 3 (.int 0)).set 4 (.ptr (some st.alloc))) st.root
    (by simp [set_apply, h0]) (by simp [set_apply])
    ⟨t, none, [], [], hH1.1, by simp, fun _ hx => by simp at hx, fun _ hx => by simp at hx⟩
    (fun hn => absurd hn hroot)
  split at h
  · rename_i ρ1 st1 heq
    obtain ⟨rfl, hg⟩ := hinv _ _ _ heq
    obtain ⟨hgood, h0'⟩ := hg rfl
    obtain ⟨t', ht', hO', hp⟩ := after_spec2 cmpF callH lf _ _ t m hH1 hO1 h0' hgood _ _ _ h
    exact ⟨t', ht', hO', fun _ => hp⟩
  · rename_i r hne heq
    cases h
    obtain ⟨rfl, _⟩ := hinv _ _ _ heq
    exact ⟨t, hH1, hO1, fun hf => absurd rfl (hf ▸ hne _ _)⟩
  · cases h

theorem then_spec2
    (hNew : ∀ args st v st' t, Holds st t → callH .newRBNode args st = .ok (v, st') →
       ∃ n, v = .ptr (some n) ∧ n ∉ t.addrs ∧ n < st'.alloc ∧ Holds st' t ∧
            (st'.h n).left = none ∧ (st'.h n).right = none ∧ (st'.h n).parent = none ∧
            (∀ a, a ≠ n → (st'.h a).key = (st.h a).key))
    (ρ : Env) (st : St) (t : PT) (m : Nat) (hH : Holds st t) (hroot : st.root = none)
    (h0 : ρ 0 = .ptr (some m)) (fl : Flow) (ρ' : Env) (st' : St)
    (h : exec cmpF callH lf ρ st thenB = .ok (fl, ρ', st')) :
    ∃ t', Holds st' t' ∧ Ordered cmpF st' t' ∧ (fl = .normal → PtrIn t'.addrs (ρ' 1)) := by
  simp only [thenB, exec, evalE, h0, Node.get] at h
  cases hc : callH PName.newRBNode [Val.int (st.h m).key, Val.int (st.h m).value] st with
  | error e => rw [hc] at h; simp at h
  | ok r =>
    obtain ⟨v, s1⟩ := r
    rw [hc] at h
    obtain ⟨n, rfl, hn, hlt, hH', f1, f2, f3, _⟩ := hNew _ _ _ _ _ hH hc
    simp at h
    obtain ⟨rfl, rfl, rfl⟩ := h
    have ht : t = .leaf := holds_root_none hH hroot
    subst ht
    refine ⟨.node .leaf n .leaf, ⟨?_, ?_, ?_⟩, ?_, fun _ => ?_⟩
    · simp [Repr, f1, f2, f3]
    · simp [PT.addrs]
    · simp [PT.addrs, hlt]
    · simp [Ordered, keysOf, PT.addrs]
    · simp [set_apply, PtrIn, PT.addrs]

theorem tail_spec2 (hK : ∀ fn, isK fn = true → SpecK callH fn)
    (ρ : Env) (st : St) (t : PT) (hH : Holds st t) (hO : Ordered cmpF st t) (hp : PtrIn t.addrs (ρ 1))
    (fl : Flow) (ρ' : Env) (st' : St)
    (h : exec cmpF callH lf ρ st tailS = .ok (fl, ρ', st')) :
    ∃ t', Holds st' t' ∧ Ordered cmpF st' t' := by
  simp only [tailS, exec, evalE] at h
  cases hc : callH PName.fixAfterAdd [ρ 1] { st with size := st.size + 1 } with
  | error e => rw [hc] at h; simp at h
  | ok r =>
    obtain ⟨v, s1⟩ := r
    rw [hc] at h
    simp at h
    obtain ⟨_, _, rfl⟩ := h
    have hH' : Holds { st with size := st.size + 1 } t := hH
    have hO' : Ordered cmpF { st with size := st.size + 1 } t := hO
    obtain ⟨t', ht', hpres, _⟩ := hK .fixAfterAdd rfl _ _ _ _ t hH' (by simpa using hp) hc
    exact ⟨t', ht', hpres.ordered hO'⟩
end

theorem addNode_ord (cmpF : Int → Int → Int) (hLaw : Ekit.RB.LawfulCmp cmpF) (callH : CallH PName) (lf : Nat)
    (hK : ∀ fn, isK fn = true → SpecK callH fn)
    (hNew : ∀ args st v st' t, Holds st t → callH .newRBNode args st = .ok (v, st') →
       ∃ n, v = .ptr (some n) ∧ n ∉ t.addrs ∧ n < st'.alloc ∧ Holds st' t ∧
            (st'.h n).left = none ∧ (st'.h n).right = none ∧ (st'.h n).parent = none ∧
            (∀ a, a ≠ n → (st'.h a).key = (st.h a).key)) :
    ∀ n st v st' t, Holds st t → Ordered cmpF st t →
      runBody cmpF callH lf (procs .addNode) [.ptr (some n)] st = .ok (v, st') →
      ∃ t', Holds st' t' ∧ Ordered cmpF st' t' := by
  intro n st v st' t hH hO h
  simp only [runBody, procs, body_addNode_eq, exec, evalE] at h
  have h0 : ((Env.ofArgs [Val.ptr (some n)]).set 1 (Val.ptr none)) 0 = .ptr (some n) := by
    simp [set_apply, Env.ofArgs]
  have hmid : ∀ fl ρ' s', exec cmpF callH lf ((Env.ofArgs [Val.ptr (some n)]).set 1 (Val.ptr none)) st midS
        = .ok (fl, ρ', s') →
      ∃ t', Holds s' t' ∧ Ordered cmpF s' t' ∧ (fl = .normal → PtrIn t'.addrs (ρ' 1)) := by
    intro fl ρ' s' hEq
    simp only [midS, exec, evalE] at hEq
    cases hr : st.root with
    | none =>
      simp [valEq, hr] at hEq
      exact then_spec2 cmpF callH lf hNew _ st t n hH hr h0 _ _ _ hEq
    | some a =>
      simp [valEq, hr] at hEq
      exact else_spec2 cmpF callH lf hLaw _ st t n hH hO (by simp [hr]) h0 _ _ _ hEq
  generalize exec cmpF callH lf ((Env.ofArgs [Val.ptr (some n)]).set 1 (Val.ptr none)) st midS = E at h hmid
  match E, hmid with
  | .error e, _ => simp at h
  | .ok (fl, ρ1, s1), hmid =>
    obtain ⟨t1, hH1, hO1, hp1⟩ := hmid _ _ _ rfl
    cases fl with
    | normal =>
      simp only at h
      cases hx : exec cmpF callH lf ρ1 s1 tailS with
      | error e => rw [hx] at h; simp at h
      | ok r =>
        obtain ⟨fl2, ρ2, s2⟩ := r
        obtain ⟨t2, hH2⟩ := tail_spec2 cmpF callH lf hK ρ1 s1 t1 hH1 hO1 (hp1 rfl) _ _ _ hx
        rw [hx] at h
        cases fl2 <;> simp at h
        · obtain ⟨_, rfl⟩ := h; exact ⟨t2, hH2⟩
        · obtain ⟨_, rfl⟩ := h; exact ⟨t2, hH2⟩
    | cont => simp at h
    | brk => simp at h
    | ret w =>
      simp at h
      obtain ⟨_, rfl⟩ := h
      exact ⟨t1, hH1, hO1⟩

/-! ### size -/

theorem link_left_len {st : St} {t : PT} {p : Nat} (hH : Holds st t)
    (hp : p ∈ t.addrs) (hl : (st.h p).left = none) (h' : Nat → Node) (sz : Int)
    (hf' : (h' st.alloc).left = none ∧ (h' st.alloc).right = none ∧ (h' st.alloc).parent = some p)
    (hp' : (h' p).left = some st.alloc ∧ (h' p).right = (st.h p).right ∧ (h' p).parent = (st.h p).parent)
    (hoth : ∀ b, b ≠ p → b ≠ st.alloc → h' b = st.h b) :
    ∃ t', Holds ⟨h', st.alloc + 1, st.root, sz⟩ t' ∧ st.alloc ∈ t'.addrs ∧
      t'.addrs.length = t.addrs.length + 1 := by
  obtain ⟨t', a, b, pre, post, e1, e2⟩ := link_left' hH hp hl h' sz hf' hp' hoth
  exact ⟨t', a, b, by rw [e1, e2]; simp; omega⟩

theorem link_right_len {st : St} {t : PT} {p : Nat} (hH : Holds st t)
    (hp : p ∈ t.addrs) (hl : (st.h p).right = none) (h' : Nat → Node) (sz : Int)
    (hf' : (h' st.alloc).left = none ∧ (h' st.alloc).right = none ∧ (h' st.alloc).parent = some p)
    (hp' : (h' p).right = some st.alloc ∧ (h' p).left = (st.h p).left ∧ (h' p).parent = (st.h p).parent)
    (hoth : ∀ b, b ≠ p → b ≠ st.alloc → h' b = st.h b) :
    ∃ t', Holds ⟨h', st.alloc + 1, st.root, sz⟩ t' ∧ st.alloc ∈ t'.addrs ∧
      t'.addrs.length = t.addrs.length + 1 := by
  obtain ⟨t', a, b, pre, post, e1, e2⟩ := link_right' hH hp hl h' sz hf' hp' hoth
  exact ⟨t', a, b, by rw [e1, e2]; simp; omega⟩

section
variable (cmpF : Int → Int → Int) (callH : CallH PName) (lf : Nat)

theorem after_spec3 (ρ : Env) (st : St) (t : PT) (m : Nat) (hH : Holds st t) (h0 : ρ 0 = .ptr (some m))
    (hg : Good t ρ st) (fl : Flow) (ρ' : Env) (st' : St)
    (h : exec cmpF callH lf ρ st afterL = .ok (fl, ρ', st')) :
    fl = .normal ∧ st'.size = st.size ∧
      ∃ t', Holds st' t' ∧ PtrIn t'.addrs (ρ' 1) ∧ t'.addrs.length = t.addrs.length + 1 := by
  obtain ⟨p, c, h4, h3, hp, hl, hr⟩ := hg
  simp only [afterL, exec, evalE, set_apply, h0, h4, h3, Node.get] at h
  simp [h0, h4, h3] at h
  have hpA : p ≠ st.alloc := Nat.ne_of_lt (hH.2.2 p hp)
  by_cases h1 : c < 0
  · simp [h1, Node.set] at h
    obtain ⟨rfl, rfl, rfl⟩ := h
    refine ⟨rfl, rfl, ?_⟩
    simp only [set_apply, PtrIn, if_true]
    exact link_left_len hH hp (hl h1) _ _ (by simp [upd, hpA.symm])
      (by simp [upd, hpA]) (fun b hb1 hb2 => by simp [upd, hb1, hb2])
  · simp [h1, Node.set] at h
    obtain ⟨rfl, rfl, rfl⟩ := h
    refine ⟨rfl, rfl, ?_⟩
    simp only [set_apply, PtrIn, if_true]
    exact link_right_len hH hp (hr h1) _ _ (by simp [upd, hpA.symm])
      (by simp [upd, hpA]) (fun b hb1 hb2 => by simp [upd, hb1, hb2])

theorem else_spec3 (ρ : Env) (st : St) (t : PT) (m : Nat) (hH : Holds st t)
    (hS : st.size = (t.addrs.length : Int)) (hroot : st.root ≠ none)
    (h0 : ρ 0 = .ptr (some m)) (fl : Flow) (ρ' : Env) (st' : St)
    (h : exec cmpF callH lf ρ st elseB = .ok (fl, ρ', st')) :
    ∃ t', Holds st' t' ∧
      (fl = .normal → PtrIn t'.addrs (ρ' 1) ∧ st'.size + 1 = (t'.addrs.length : Int)) ∧
      (fl ≠ .normal → st'.size = (t'.addrs.length : Int)) := by
  simp only [elseB, exec, evalE] at h
  have hH1 : Holds ⟨upd st.h st.alloc {}, st.alloc + 1, st.root, st.size⟩ t := holds_alloc hH {} st.size
  have hq : ∀ a, st.root = some a → a ∈ t.addrs := by
    intro a ha
    have := repr_ptr hH.1
    rw [ha] at this
    cases t with
    | leaf => simp [PT.ptr] at this
    | node l b r => simp [PT.ptr] at this; subst this; simp [PT.addrs]
  have hinv := loop_inv cmpF callH lf _ t hH1 m lf
    (((ρ.set 2 (.ptr st.root)).set 3 (.int 0)).set 4 (.ptr (some st.alloc))) st.root
    (by simp [set_apply, h0]) (by simp [set_apply]) hq (fun hn => absurd hn hroot)
  split at h
  · rename_i ρ1 st1 heq
    obtain ⟨rfl, hg⟩ := hinv _ _ _ heq
    obtain ⟨hgood, h0'⟩ := hg rfl
    obtain ⟨hfl, hsz, t', ht', hp, hlen⟩ := after_spec3 cmpF callH lf _ _ t m hH1 h0' hgood _ _ _ h
    refine ⟨t', ht', fun _ => ⟨hp, ?_⟩, fun hf => absurd hfl hf⟩
    rw [hsz, hlen]; simp only []; omega
  · rename_i r hne heq
    cases h
    obtain ⟨rfl, _⟩ := hinv _ _ _ heq
    exact ⟨t, hH1, fun hf => absurd rfl (hf ▸ hne _ _), fun _ => hS⟩
  · cases h
end

section
variable (cmpF : Int → Int → Int) (callH : CallH PName) (lf : Nat)

theorem then_spec3
    (hNew : ∀ args st v st' t, Holds st t → callH .newRBNode args st = .ok (v, st') →
       ∃ n, v = .ptr (some n) ∧ n ∉ t.addrs ∧ n < st'.alloc ∧ Holds st' t ∧
            (st'.h n).left = none ∧ (st'.h n).right = none ∧ (st'.h n).parent = none ∧
            (∀ a, a ≠ n → (st'.h a).key = (st.h a).key))
    (hSz : ∀ fn, isNoSize fn = true → SpecNoSize callH fn)
    (ρ : Env) (st : St) (t : PT) (m : Nat) (hH : Holds st t)
    (hS : st.size = (t.addrs.length : Int)) (hroot : st.root = none)
    (h0 : ρ 0 = .ptr (some m)) (fl : Flow) (ρ' : Env) (st' : St)
    (h : exec cmpF callH lf ρ st thenB = .ok (fl, ρ', st')) :
    ∃ t', Holds st' t' ∧
      (fl = .normal → PtrIn t'.addrs (ρ' 1) ∧ st'.size + 1 = (t'.addrs.length : Int)) ∧
      (fl ≠ .normal → st'.size = (t'.addrs.length : Int)) := by
  simp only [thenB, exec, evalE, h0, Node.get] at h
  cases hc : callH PName.newRBNode [Val.int (st.h m).key, Val.int (st.h m).value] st with
  | error e => rw [hc] at h; simp at h
  | ok r =>
    obtain ⟨v, s1⟩ := r
    rw [hc] at h
    obtain ⟨n, rfl, hn, hlt, hH', f1, f2, f3, _⟩ := hNew _ _ _ _ _ hH hc
    have hsz : s1.size = st.size := hSz .newRBNode rfl _ _ _ _ hc
    simp at h
    obtain ⟨rfl, rfl, rfl⟩ := h
    have ht : t = .leaf := holds_root_none hH hroot
    subst ht
    refine ⟨.node .leaf n .leaf, ⟨?_, ?_, ?_⟩, fun _ => ⟨?_, ?_⟩, fun hf => absurd rfl hf⟩
    · simp [Repr, f1, f2, f3]
    · simp [PT.addrs]
    · simp [PT.addrs, hlt]
    · simp [set_apply, PtrIn, PT.addrs]
    · simp only [hsz, hS]; simp [PT.addrs]

theorem tail_spec3 (hK : ∀ fn, isK fn = true → SpecK callH fn)
    (hSz : ∀ fn, isNoSize fn = true → SpecNoSize callH fn)
    (ρ : Env) (st : St) (t : PT) (hH : Holds st t) (hS : st.size + 1 = (t.addrs.length : Int))
    (hp : PtrIn t.addrs (ρ 1))
    (fl : Flow) (ρ' : Env) (st' : St)
    (h : exec cmpF callH lf ρ st tailS = .ok (fl, ρ', st')) :
    ∃ t', Holds st' t' ∧ st'.size = (t'.addrs.length : Int) := by
  simp only [tailS, exec, evalE] at h
  cases hc : callH PName.fixAfterAdd [ρ 1] { st with size := st.size + 1 } with
  | error e => rw [hc] at h; simp at h
  | ok r =>
    obtain ⟨v, s1⟩ := r
    rw [hc] at h
    simp at h
    obtain ⟨_, _, rfl⟩ := h
    have hH' : Holds { st with size := st.size + 1 } t := hH
    have hsz : s1.size = st.size + 1 := hSz .fixAfterAdd rfl _ _ _ _ hc
    obtain ⟨t', ht', hpres, _⟩ := hK .fixAfterAdd rfl _ _ _ _ t hH' (by simpa using hp) hc
    exact ⟨t', ht', by rw [hsz, hpres.addrs]; exact hS⟩
end

theorem addNode_size (cmpF : Int → Int → Int) (callH : CallH PName) (lf : Nat)
    (hK : ∀ fn, isK fn = true → SpecK callH fn)
    (hNew : ∀ args st v st' t, Holds st t → callH .newRBNode args st = .ok (v, st') →
       ∃ n, v = .ptr (some n) ∧ n ∉ t.addrs ∧ n < st'.alloc ∧ Holds st' t ∧
            (st'.h n).left = none ∧ (st'.h n).right = none ∧ (st'.h n).parent = none ∧
            (∀ a, a ≠ n → (st'.h a).key = (st.h a).key))
    (hSz : ∀ fn, isNoSize fn = true → SpecNoSize callH fn) :
    ∀ n st v st' t, Holds st t → st.size = (t.addrs.length : Int) →
      runBody cmpF callH lf (procs .addNode) [.ptr (some n)] st = .ok (v, st') →
      ∃ t', Holds st' t' ∧ st'.size = (t'.addrs.length : Int) := by
  intro n st v st' t hH hS h
  simp only [runBody, procs, body_addNode_eq, exec, evalE] at h
  have h0 : ((Env.ofArgs [Val.ptr (some n)]).set 1 (Val.ptr none)) 0 = .ptr (some n) := by
    simp [set_apply, Env.ofArgs]
  have hmid : ∀ fl ρ' s', exec cmpF callH lf ((Env.ofArgs [Val.ptr (some n)]).set 1 (Val.ptr none)) st midS
        = .ok (fl, ρ', s') →
      ∃ t', Holds s' t' ∧
        (fl = .normal → PtrIn t'.addrs (ρ' 1) ∧ s'.size + 1 = (t'.addrs.length : Int)) ∧
        (fl ≠ .normal → s'.size = (t'.addrs.length : Int)) := by
    intro fl ρ' s' hEq
    simp only [midS, exec, evalE] at hEq
    cases hr : st.root with
    | none =>
      simp [valEq, hr] at hEq
      exact then_spec3 cmpF callH lf hNew hSz _ st t n hH hS hr h0 _ _ _ hEq
    | some a =>
      simp [valEq, hr] at hEq
      exact else_spec3 cmpF callH lf _ st t n hH hS (by simp [hr]) h0 _ _ _ hEq
  generalize exec cmpF callH lf ((Env.ofArgs [Val.ptr (some n)]).set 1 (Val.ptr none)) st midS = E at h hmid
  match E, hmid with
  | .error e, _ => simp at h
  | .ok (fl, ρ1, s1), hmid =>
    obtain ⟨t1, hH1, hn1, hr1⟩ := hmid _ _ _ rfl
    cases fl with
    | normal =>
      simp only at h
      obtain ⟨hp1, hs1⟩ := hn1 rfl
      cases hx : exec cmpF callH lf ρ1 s1 tailS with
      | error e => rw [hx] at h; simp at h
      | ok r =>
        obtain ⟨fl2, ρ2, s2⟩ := r
        obtain ⟨t2, hH2⟩ := tail_spec3 cmpF callH lf hK hSz ρ1 s1 t1 hH1 hs1 hp1 _ _ _ hx
        rw [hx] at h
        cases fl2 <;> simp at h
        · obtain ⟨_, rfl⟩ := h; exact ⟨t2, hH2⟩
        · obtain ⟨_, rfl⟩ := h; exact ⟨t2, hH2⟩
    | cont => simp at h
    | brk => simp at h
    | ret w =>
      simp at h
      obtain ⟨_, rfl⟩ := h
      exact ⟨t1, hH1, hr1 (by simp)⟩

end Ekit.MiniGo.RBHeap.AddN
