/-
Functional refinement (C01 at the pointer level), part `findNode` / `Find` / `Set`: on a heap that holds an ordered
address tree the translated binary search finds THE address whose key equals the argument under the comparator, and
`Find` / `Set` compute what the abstract sorted map `Ekit.RB.SMap` computes on the entries.
-/
import Ekit.Lemmas.RBPtrRBTop
import Ekit.Lemmas.RBPtrNoValue
import Ekit.MiniGo.RBFun
namespace Ekit.MiniGo.RBHeap.FunFind
open Ekit.MiniGo Ekit.Gen.RBTreeGo Ekit.MiniGo.RBHeap

/-! ### the search loop -/

def loopCond : Expr PName := .ne (.var 1) .nil

def loopBody : Stmt PName :=
  (.seq (.assign 2 (.cmp (.var 0) (.field (.var 1) .key)))
    (.ite (.lt (.var 2) (.int 0))
    (.assign 1 (.field (.var 1) .left))
    (.ite (.gt (.var 2) (.int 0))
    (.assign 1 (.field (.var 1) .right))
    (.ret (.var 1)))))

theorem body_findNode_eq :
    body_findNode = .seq (.assign 1 .root) (.seq (.loop loopCond loopBody) (.ret .nil)) := rfl

theorem cond_eval (cmpF : Int → Int → Int) (callH : CallH PName) (ρ : Env) (st : St) (c : Option Nat)
    (hc : ρ 1 = .ptr c) :
    evalE cmpF callH ρ st loopCond = .ok (.bool (!(c == none)), st) := by
  simp [loopCond, evalE, hc, valEq]

theorem body_eval (cmpF : Int → Int → Int) (callH : CallH PName) (lf : Nat) (ρ : Env) (st : St) (k : Int) (p : Nat)
    (hk : ρ 0 = .int k) (hp : ρ 1 = .ptr (some p)) :
    exec cmpF callH lf ρ st loopBody =
      if cmpF k (st.h p).key < 0 then
        .ok (.normal, (ρ.set 2 (.int (cmpF k (st.h p).key))).set 1 (.ptr (st.h p).left), st)
      else if cmpF k (st.h p).key > 0 then
        .ok (.normal, (ρ.set 2 (.int (cmpF k (st.h p).key))).set 1 (.ptr (st.h p).right), st)
      else .ok (.ret (.ptr (some p)), ρ.set 2 (.int (cmpF k (st.h p).key)), st) := by
  by_cases h1 : cmpF k (st.h p).key < 0
  · simp [loopBody, exec, evalE, hk, hp, Env.set, Node.get, h1]
  · by_cases h2 : cmpF k (st.h p).key > 0
    · simp [loopBody, exec, evalE, hk, hp, Env.set, Node.get, h1, h2]
    · simp [loopBody, exec, evalE, hk, hp, Env.set, Node.get, h1, h2]

/-- the keys of a list of addresses are strictly ascending -/
def Asc (cmpF : Int → Int → Int) (h : Nat → Node) (l : List Nat) : Prop :=
  l.Pairwise fun a b => cmpF (h a).key (h b).key < 0

theorem ordered_asc {cmpF : Int → Int → Int} {st : St} {t : PT} (h : Ordered cmpF st t) : Asc cmpF st.h t.addrs := by
  simpa [Ordered, keysOf, Asc, List.pairwise_map] using h

theorem search_loop (cmpF : Int → Int → Int) (hLaw : Ekit.RB.LawfulCmp cmpF) (callH : CallH PName) (lf : Nat)
    (st : St) (k : Int) :
    ∀ (n : Nat) (ρ : Env) (c par : Option Nat) (u : PT) (fl : Flow) (ρ' : Env) (st' : St),
      ρ 0 = .int k → ρ 1 = .ptr c → Repr st.h c par u → Asc cmpF st.h u.addrs →
      iterate (fun ρ st => evalE cmpF callH ρ st loopCond) (fun ρ st => exec cmpF callH lf ρ st loopBody) n ρ st
        = .ok (fl, ρ', st') →
      st' = st ∧
      ((∃ a, fl = .ret (.ptr (some a)) ∧ a ∈ u.addrs ∧ cmpF k (st.h a).key = 0) ∨
       (fl = .normal ∧ ∀ a ∈ u.addrs, cmpF k (st.h a).key ≠ 0)) := by
  intro n
  induction n with
  | zero => intro ρ c par u fl ρ' st' _ _ _ _ h; simp [iterate] at h
  | succ n ih =>
    intro ρ c par u fl ρ' st' hk hc hR hA h
    rw [iterate] at h
    simp only [cond_eval cmpF callH ρ st c hc] at h
    cases u with
    | leaf =>
      simp only [Repr] at hR
      subst hR
      simp at h
      obtain ⟨e1, _, e3⟩ := h
      exact ⟨e3.symm, Or.inr ⟨e1.symm, by simp [PT.addrs]⟩⟩
    | node l b r =>
      simp only [Repr] at hR
      obtain ⟨h1, _, hRl, hRr⟩ := hR
      subst h1
      have hcb : (!((some b : Option Nat) == none)) = true := by simp
      simp only [hcb, body_eval cmpF callH lf ρ st k b hk hc] at h
      simp only [Asc, PT.addrs, List.pairwise_append, List.pairwise_cons, List.mem_cons] at hA
      obtain ⟨hAl, ⟨hbr, hAr⟩, hlr⟩ := hA
      by_cases c1 : cmpF k (st.h b).key < 0
      · simp only [c1, if_true] at h
        obtain ⟨e, hres⟩ := ih _ (st.h b).left (some b) l fl ρ' st' (by simp [Env.set, hk]) (by simp [Env.set])
          hRl hAl h
        refine ⟨e, ?_⟩
        rcases hres with ⟨a, e1, e2, e3⟩ | ⟨e1, e2⟩
        · exact Or.inl ⟨a, e1, by simp [PT.addrs, e2], e3⟩
        · refine Or.inr ⟨e1, fun a ha => ?_⟩
          simp only [PT.addrs, List.mem_append, List.mem_cons] at ha
          rcases ha with ha | ha | ha
          · exact e2 a ha
          · subst ha; omega
          · have := hLaw.lt_trans c1 (hbr a ha); omega
      · by_cases c2 : cmpF k (st.h b).key > 0
        · simp only [c1, c2, if_true, if_false] at h
          obtain ⟨e, hres⟩ := ih _ (st.h b).right (some b) r fl ρ' st' (by simp [Env.set, hk]) (by simp [Env.set])
            hRr hAr h
          refine ⟨e, ?_⟩
          rcases hres with ⟨a, e1, e2, e3⟩ | ⟨e1, e2⟩
          · exact Or.inl ⟨a, e1, by simp [PT.addrs, e2], e3⟩
          · refine Or.inr ⟨e1, fun a ha => ?_⟩
            simp only [PT.addrs, List.mem_append, List.mem_cons] at ha
            rcases ha with ha | ha | ha
            · have h3 := hlr a ha b (Or.inl rfl)
              have h4 := hLaw.lt_of_gt c2
              have h5 := hLaw.lt_trans h3 h4
              have h6 := hLaw.antisym a b
              intro h0
              have h7 := hLaw.antisym (st.h a).key k
              have h8 := hLaw.antisym k (st.h a).key
              omega
            · subst ha; omega
            · exact e2 a ha
        · simp only [c1, c2, if_false] at h
          simp at h
          obtain ⟨e1, _, e3⟩ := h
          exact ⟨e3.symm, Or.inl ⟨b, e1.symm, by simp [PT.addrs], by omega⟩⟩

/-- binary search is correct on an ordered tree -/
theorem findNode_spec (cmpF : Int → Int → Int) (hLaw : Ekit.RB.LawfulCmp cmpF) :
    ∀ fuel k st v st' t, Holds st t → Ordered cmpF st t →
      call cmpF procs fuel .findNode [.int k] st = .ok (v, st') →
      st' = st ∧
      ((∃ a, v = .ptr (some a) ∧ a ∈ t.addrs ∧ cmpF k (st.h a).key = 0) ∨
       (v = .ptr none ∧ ∀ a ∈ t.addrs, cmpF k (st.h a).key ≠ 0)) := by
  intro fuel k st v st' t hH hO h
  cases fuel with
  | zero => simp [call] at h
  | succ f =>
    simp only [call, runBody, procs, body_findNode_eq] at h
    generalize hlp : (Stmt.loop loopCond loopBody : Stmt PName) = lp at h
    simp only [exec, evalE] at h
    subst hlp
    cases hit : exec cmpF (call cmpF procs f) f ((Env.ofArgs [Val.int k]).set 1 (Val.ptr st.root)) st
        (Stmt.loop loopCond loopBody) with
    | error e => rw [hit] at h; simp at h
    | ok res =>
      obtain ⟨fl, ρ1, st1⟩ := res
      rw [hit] at h
      simp only [exec] at hit
      obtain ⟨e, hres⟩ := search_loop cmpF hLaw (call cmpF procs f) f st k f _ st.root none t fl ρ1 st1
        (by simp [Env.set, Env.ofArgs]) (by simp [Env.set]) hH.1 (ordered_asc hO) hit
      subst e
      rcases hres with ⟨a, e1, e2, e3⟩ | ⟨e1, e2⟩
      · subst e1
        simp at h
        obtain ⟨rfl, rfl⟩ := h
        exact ⟨rfl, Or.inl ⟨a, rfl, e2, e3⟩⟩
      · subst e1
        simp at h
        obtain ⟨rfl, rfl⟩ := h
        exact ⟨rfl, Or.inr ⟨rfl, e2⟩⟩

/-! ### at most one address carries a key equal to `k` -/

theorem pairwise_cases {α : Type} {R : α → α → Prop} {l : List α} (hp : l.Pairwise R) {a b : α}
    (ha : a ∈ l) (hb : b ∈ l) : a = b ∨ R a b ∨ R b a := by
  induction l with
  | nil => simp at ha
  | cons x xs ih =>
    simp only [List.pairwise_cons] at hp
    simp only [List.mem_cons] at ha hb
    rcases ha with ha | ha <;> rcases hb with hb | hb
    · exact Or.inl (ha.trans hb.symm)
    · subst ha; exact Or.inr (Or.inl (hp.1 b hb))
    · subst hb; exact Or.inr (Or.inr (hp.1 a ha))
    · exact ih hp.2 ha hb

theorem eq_not_lt {cmpF : Int → Int → Int} (hLaw : Ekit.RB.LawfulCmp cmpF) {k x y : Int}
    (hx : cmpF k x = 0) (hy : cmpF k y = 0) : ¬ cmpF x y < 0 := by
  have h1 := hLaw.eq_symm hy
  have h2 := hLaw.le_trans y k x (by omega) (by omega)
  have h3 := hLaw.antisym x y
  omega

theorem key_unique {cmpF : Int → Int → Int} (hLaw : Ekit.RB.LawfulCmp cmpF) {h : Nat → Node} {l : List Nat}
    (hA : Asc cmpF h l) {k : Int} {a x : Nat} (ha : a ∈ l) (hx : x ∈ l)
    (ea : cmpF k (h a).key = 0) (ex : cmpF k (h x).key = 0) : x = a := by
  rcases pairwise_cases hA hx ha with e | e | e
  · exact e
  · exact absurd e (eq_not_lt hLaw ex ea)
  · exact absurd e (eq_not_lt hLaw ea ex)

theorem lookup_of_mem {cmpF : Int → Int → Int} (hLaw : Ekit.RB.LawfulCmp cmpF) {h : Nat → Node} {k : Int} {a : Nat}
    (ea : cmpF k (h a).key = 0) :
    ∀ {l : List Nat}, Asc cmpF h l → a ∈ l →
      Ekit.RB.SMap.lookup cmpF k (l.map fun x => ((h x).key, (h x).value)) = some ((h a).key, (h a).value) := by
  intro l
  induction l with
  | nil => intro _ ha; simp at ha
  | cons x xs ih =>
    intro hA ha
    simp only [List.map_cons, Ekit.RB.SMap.lookup_cons]
    by_cases ex : cmpF k (h x).key = 0
    · have := key_unique hLaw hA ha (List.mem_cons_self) ea ex
      subst this
      simp [ex]
    · simp only [ex, if_false]
      have hne : a ≠ x := fun e => ex (e ▸ ea)
      simp only [List.mem_cons, hne, false_or] at ha
      exact ih (List.Pairwise.of_cons hA) ha

theorem lookup_found {cmpF : Int → Int → Int} (hLaw : Ekit.RB.LawfulCmp cmpF) {st : St} {t : PT} {k : Int} {a : Nat}
    (hO : Ordered cmpF st t) (ha : a ∈ t.addrs) (ea : cmpF k (st.h a).key = 0) :
    Ekit.RB.SMap.lookup cmpF k (entries st t) = some ((st.h a).key, (st.h a).value) :=
  lookup_of_mem hLaw ea (ordered_asc hO) ha

theorem lookup_absent {cmpF : Int → Int → Int} {st : St} {t : PT} {k : Int}
    (hn : ∀ a ∈ t.addrs, cmpF k (st.h a).key ≠ 0) :
    Ekit.RB.SMap.lookup cmpF k (entries st t) = none := by
  apply Ekit.RB.SMap.lookup_none_of_ne
  intro p hp
  simp only [entries, List.mem_map] at hp
  obtain ⟨a, ha, rfl⟩ := hp
  exact hn a ha

/-! ### `Find` -/

theorem find_refines (cmpF : Int → Int → Int) (hLaw : Ekit.RB.LawfulCmp cmpF) :
    ∀ fuel k st r st' t, Holds st t → Ordered cmpF st t →
      call cmpF procs fuel .Find [.int k] st = .ok (r, st') →
      Holds st' t ∧ entries st' t = entries st t ∧ RetIs (Ekit.RB.SMap.step cmpF (entries st t) (.find k)).2 r := by
  intro fuel k st r st' t hH hO h
  cases fuel with
  | zero => simp [call] at h
  | succ f =>
    simp only [call, runBody, procs, body_Find, exec, evalE, Env.ofArgs, List.getD, Env.set] at h
    cases h1 : call cmpF procs f .findNode [Val.int k] st with
    | error e => simp [h1] at h
    | ok r1 =>
      obtain ⟨x, st1⟩ := r1
      obtain ⟨e, hres⟩ := findNode_spec cmpF hLaw f k st x st1 t hH hO h1
      subst st1
      rcases hres with ⟨a, rfl, ha, ea⟩ | ⟨rfl, hn⟩
      · simp [h1, valEq, Env.set, Node.get] at h
        obtain ⟨rfl, rfl⟩ := h
        refine ⟨hH, rfl, ?_⟩
        simp [Ekit.RB.SMap.step, lookup_found hLaw hO ha ea, RetIs]
      · simp [h1, valEq, Env.set] at h
        obtain ⟨rfl, rfl⟩ := h
        refine ⟨hH, rfl, ?_⟩
        simp [Ekit.RB.SMap.step, lookup_absent hn, RetIs, err_ErrRBTreeNotRBNode]

/-! ### `Set` -/

theorem call_setNode (cmpF : Int → Int → Int) : ∀ fuel a v st r st',
    call cmpF procs fuel .setNode [.ptr (some a), .int v] st = .ok (r, st') →
    st' = { st with h := upd st.h a { st.h a with value := v } } := by
  intro fuel a v st r st' h
  cases fuel with
  | zero => simp [call] at h
  | succ f =>
    simp [call, runBody, procs, body_setNode, exec, evalE, Env.ofArgs, valEq, Node.set] at h
    exact h.2.symm

theorem entries_setValue {cmpF : Int → Int → Int} (hLaw : Ekit.RB.LawfulCmp cmpF) {st : St} {t : PT} {k v : Int}
    {a : Nat} (hO : Ordered cmpF st t) (ha : a ∈ t.addrs) (ea : cmpF k (st.h a).key = 0) :
    entries { st with h := upd st.h a { st.h a with value := v } } t
      = Ekit.RB.SMap.update cmpF k v (entries st t) := by
  simp only [entries, Ekit.RB.SMap.update, List.map_map]
  apply List.map_congr_left
  intro x hx
  by_cases e : x = a
  · subst e; simp [upd, ea]
  · have hne : cmpF k (st.h x).key ≠ 0 := fun ex => e (key_unique hLaw (ordered_asc hO) ha hx ea ex)
    simp [upd, e, hne]

theorem holds_setValue {st : St} {t : PT} {a : Nat} {v : Int} (hH : Holds st t) :
    Holds { st with h := upd st.h a { st.h a with value := v } } t := by
  refine ⟨repr_congr (fun b _ => ?_) hH.1, hH.2.1, hH.2.2⟩
  by_cases e : b = a
  · subst e; simp [upd, SamePtrs]
  · simp [upd, e, SamePtrs]

theorem set_refines (cmpF : Int → Int → Int) (hLaw : Ekit.RB.LawfulCmp cmpF) :
    ∀ fuel k v st r st' t, Holds st t → Ordered cmpF st t →
      call cmpF procs fuel .Set [.int k, .int v] st = .ok (r, st') →
      Holds st' t ∧ entries st' t = (Ekit.RB.SMap.step cmpF (entries st t) (.set k v)).1 ∧
      RetIs (Ekit.RB.SMap.step cmpF (entries st t) (.set k v)).2 r := by
  intro fuel k v st r st' t hH hO h
  cases fuel with
  | zero => simp [call] at h
  | succ f =>
    simp only [call, runBody, procs, body_Set, exec, evalE, Env.ofArgs, List.getD] at h
    cases h1 : call cmpF procs f .findNode [Val.int k] st with
    | error e => simp [h1] at h
    | ok r1 =>
      obtain ⟨x, st1⟩ := r1
      obtain ⟨e, hres⟩ := findNode_spec cmpF hLaw f k st x st1 t hH hO h1
      subst st1
      rcases hres with ⟨a, rfl, ha, ea⟩ | ⟨rfl, hn⟩
      · simp [h1, valEq, Env.set] at h
        have hv : Env.ofArgs [Val.int k, Val.int v] 1 = Val.int v := rfl
        rw [hv] at h
        cases h2 : call cmpF procs f .setNode [Val.ptr (some a), Val.int v] st with
        | error e => simp [h2] at h
        | ok r2 =>
          obtain ⟨y, st2⟩ := r2
          simp [h2] at h
          obtain ⟨rfl, rfl⟩ := h
          have e2 := call_setNode cmpF f a v st y st2 h2
          subst e2
          refine ⟨holds_setValue hH, ?_, ?_⟩
          · simp [Ekit.RB.SMap.step, lookup_found hLaw hO ha ea, entries_setValue hLaw hO ha ea]
          · simp [Ekit.RB.SMap.step, lookup_found hLaw hO ha ea, RetIs]
      · simp [h1, valEq, Env.set] at h
        obtain ⟨rfl, rfl⟩ := h
        refine ⟨hH, ?_, ?_⟩
        · simp [Ekit.RB.SMap.step, lookup_absent hn]
        · simp [Ekit.RB.SMap.step, lookup_absent hn, RetIs, err_ErrRBTreeNotRBNode]

end Ekit.MiniGo.RBHeap.FunFind

