/-
Frame and replacement lemmas for the pointer-level invariant `Ekit.MiniGo.RBHeap.Repr`.
The one induction over the address tree that all pointer surgery (rotations, linking a new leaf, splicing a node
out) goes through is `repr_replace`: if the subtree rooted at address `a` is re-represented in the new heap under
the same parent link, and outside that subtree the new heap differs from the old one only in that child pointers to
`a` now point to the new subtree's root, then the whole tree with the subtree replaced is represented.
-/
import Ekit.MiniGo.RBHeap

namespace Ekit.MiniGo.RBHeap
open Ekit.MiniGo

/-- subtree rooted at address `a` -/
def PT.sub : PT → Nat → Option PT
  | .leaf, _ => none
  | .node l b r, a =>
    if a = b then some (.node l b r) else
    match l.sub a with
    | some s => some s
    | none => r.sub a

/-- replace the subtree rooted at address `a` by `u` -/
def PT.replace : PT → Nat → PT → PT
  | .leaf, _, _ => .leaf
  | .node l b r, a, u => if a = b then u else .node (l.replace a u) b (r.replace a u)

/-- the parent link of address `a` inside `t`, where `t` itself hangs under `par` -/
def PT.parOf : PT → Option Nat → Nat → Option Nat
  | .leaf, _, _ => none
  | .node l b r, par, a =>
    if a = b then par else
    match l.sub a with
    | some _ => l.parOf (some b) a
    | none => r.parOf (some b) a

/-- two heaps agree on the pointer fields of a node -/
def SamePtrs (n m : Node) : Prop := n.left = m.left ∧ n.right = m.right ∧ n.parent = m.parent

theorem repr_ptr {h p par t} (hR : Repr h p par t) : p = t.ptr := by
  cases t with
  | leaf => simpa [Repr, PT.ptr] using hR
  | node l a r => simp only [Repr] at hR; simp [PT.ptr, hR.1]

theorem repr_congr {h h' : Nat → Node} {t : PT} : ∀ {p par}, (∀ a ∈ t.addrs, SamePtrs (h' a) (h a)) →
    Repr h p par t → Repr h' p par t := by
  induction t with
  | leaf => intro p par _ hR; simpa [Repr] using hR
  | node l a r ihl ihr =>
    intro p par hs hR
    simp only [Repr] at hR ⊢
    obtain ⟨h1, h2, h3, h4⟩ := hR
    have ha := hs a (by simp [PT.addrs])
    refine ⟨h1, by rw [ha.2.2]; exact h2, ?_, ?_⟩
    · rw [ha.1]; exact ihl (fun b hb => hs b (by simp [PT.addrs, hb])) h3
    · rw [ha.2.1]; exact ihr (fun b hb => hs b (by simp [PT.addrs, hb])) h4

theorem sub_none_of_not_mem {t : PT} {a : Nat} (h : a ∉ t.addrs) : t.sub a = none := by
  induction t with
  | leaf => rfl
  | node l b r ihl ihr =>
    simp only [PT.addrs, List.mem_append, List.mem_cons, not_or] at h
    simp [PT.sub, h.2.1, ihl h.1, ihr h.2.2]

theorem sub_some_of_mem {t : PT} {a : Nat} (h : a ∈ t.addrs) : ∃ s, t.sub a = some s := by
  induction t with
  | leaf => simp [PT.addrs] at h
  | node l b r ihl ihr =>
    simp only [PT.addrs, List.mem_append, List.mem_cons] at h
    by_cases hab : a = b
    · exact ⟨.node l b r, by simp [PT.sub, hab]⟩
    · rcases h with h | h | h
      · obtain ⟨s, hs⟩ := ihl h; exact ⟨s, by simp [PT.sub, hab, hs]⟩
      · exact absurd h hab
      · obtain ⟨s, hs⟩ := ihr h
        cases hl : l.sub a with
        | some s' => exact ⟨s', by simp [PT.sub, hab, hl]⟩
        | none => exact ⟨s, by simp [PT.sub, hab, hl, hs]⟩

/-- the subtree found at `a` is rooted at `a` and its addresses are among the tree's -/
theorem sub_spec {t : PT} {a : Nat} {s : PT} (h : t.sub a = some s) :
    (∃ l r, s = .node l a r) ∧ ∀ x ∈ s.addrs, x ∈ t.addrs := by
  induction t with
  | leaf => simp [PT.sub] at h
  | node l b r ihl ihr =>
    by_cases hab : a = b
    · simp [PT.sub, hab] at h; subst h; subst hab; exact ⟨⟨l, r, rfl⟩, fun x hx => hx⟩
    · simp only [PT.sub, hab, if_false] at h
      cases hl : l.sub a with
      | some s' =>
        simp [hl] at h; subst h
        obtain ⟨h1, h2⟩ := ihl hl
        exact ⟨h1, fun x hx => by simp [PT.addrs, h2 x hx]⟩
      | none =>
        simp [hl] at h
        obtain ⟨h1, h2⟩ := ihr h
        exact ⟨h1, fun x hx => by simp [PT.addrs, h2 x hx]⟩

theorem mem_of_sub {t : PT} {a : Nat} {s : PT} (h : t.sub a = some s) : a ∈ t.addrs := by
  obtain ⟨⟨l, r, rfl⟩, h2⟩ := sub_spec h
  exact h2 a (by simp [PT.addrs])

theorem replace_of_not_mem {t : PT} {a : Nat} {u : PT} (h : a ∉ t.addrs) : t.replace a u = t := by
  induction t with
  | leaf => rfl
  | node l b r ihl ihr =>
    simp only [PT.addrs, List.mem_append, List.mem_cons, not_or] at h
    simp [PT.replace, h.2.1, ihl h.1, ihr h.2.2]

/-- F1: the subtree at `a` is represented, hanging under `parOf` -/
theorem repr_sub {h : Nat → Node} {t : PT} {a : Nat} {s : PT} : ∀ {p par}, Repr h p par t → t.sub a = some s →
    Repr h (some a) (t.parOf par a) s := by
  induction t with
  | leaf => intro p par _ hs; simp [PT.sub] at hs
  | node l b r ihl ihr =>
    intro p par hR hs
    simp only [Repr] at hR
    by_cases hab : a = b
    · simp [PT.sub, hab] at hs; subst hs; subst hab
      simp only [PT.parOf, if_true, Repr]; exact ⟨trivial, hR.2.1, hR.2.2.1, hR.2.2.2⟩
    · simp only [PT.sub, hab, if_false] at hs
      cases hl : l.sub a with
      | some s' =>
        simp [hl] at hs; subst hs
        simp only [PT.parOf, hab, if_false, hl]; exact ihl hR.2.2.1 hl
      | none =>
        simp [hl] at hs
        simp only [PT.parOf, hab, if_false, hl]; exact ihr hR.2.2.2 hs

/-- outside the replaced subtree the new heap is the old one, except that child pointers to `a` are redirected -/
def Redirected (h h' : Nat → Node) (a : Nat) (q : Option Nat) (b : Nat) : Prop :=
  (h' b).parent = (h b).parent ∧
  (h' b).left = (if (h b).left = some a then q else (h b).left) ∧
  (h' b).right = (if (h b).right = some a then q else (h b).right)

/-- a tree that does not contain `a` and is not pointed to … is untouched by the redirection -/
theorem repr_redirect_frame {h h' : Nat → Node} {a : Nat} {q : Option Nat} {t : PT} : ∀ {p par},
    a ∉ t.addrs → (∀ b ∈ t.addrs, Redirected h h' a q b) → Repr h p par t → Repr h' p par t := by
  induction t with
  | leaf => intro p par _ _ hR; simpa [Repr] using hR
  | node l b r ihl ihr =>
    intro p par ha hred hR
    simp only [PT.addrs, List.mem_append, List.mem_cons, not_or] at ha
    simp only [Repr] at hR ⊢
    obtain ⟨h1, h2, h3, h4⟩ := hR
    obtain ⟨r1, r2, r3⟩ := hred b (by simp [PT.addrs])
    have hl : (h b).left ≠ some a := by
      intro e; rw [e] at h3; have := repr_ptr h3
      cases l with
      | leaf => simp [PT.ptr] at this
      | node _ x _ => simp [PT.ptr] at this; subst this; exact ha.1 (by simp [PT.addrs])
    have hr : (h b).right ≠ some a := by
      intro e; rw [e] at h4; have := repr_ptr h4
      cases r with
      | leaf => simp [PT.ptr] at this
      | node _ x _ => simp [PT.ptr] at this; subst this; exact ha.2.2 (by simp [PT.addrs])
    refine ⟨h1, by rw [r1]; exact h2, ?_, ?_⟩
    · rw [r2, if_neg hl]; exact ihl ha.1 (fun c hc => hred c (by simp [PT.addrs, hc])) h3
    · rw [r3, if_neg hr]; exact ihr ha.2.2 (fun c hc => hred c (by simp [PT.addrs, hc])) h4

/-- F2: replacing the subtree at `a` -/
theorem repr_replace {h h' : Nat → Node} {a : Nat} {s s' : PT} {t : PT} : ∀ {p par},
    Repr h p par t → t.addrs.Nodup → t.sub a = some s →
    Repr h' s'.ptr (t.parOf par a) s' →
    (∀ b ∈ t.addrs, b ∉ s.addrs → Redirected h h' a s'.ptr b) →
    Repr h' (if p = some a then s'.ptr else p) par (t.replace a s') := by
  induction t with
  | leaf => intro p par _ _ hs; simp [PT.sub] at hs
  | node l b r ihl ihr =>
    intro p par hR hnd hs hs' hred
    simp only [Repr] at hR
    obtain ⟨h1, h2, h3, h4⟩ := hR
    have hnd' := hnd
    simp only [PT.addrs] at hnd'
    rw [List.nodup_append] at hnd'
    obtain ⟨ndl, ndr', hdisj⟩ := hnd'
    rw [List.nodup_cons] at ndr'
    obtain ⟨hbr, ndr⟩ := ndr'
    by_cases hab : a = b
    · subst hab
      simp [PT.sub] at hs; subst hs
      simp only [PT.parOf, if_true] at hs'
      simp only [PT.replace, if_true, h1, if_true]; exact hs'
    · have hpa : p ≠ some a := by rw [h1]; intro e; exact hab (Option.some.inj e).symm
      simp only [PT.sub, hab, if_false] at hs
      simp only [PT.replace, hab, if_false, if_neg hpa, Repr]
      have hbl : b ∉ l.addrs := fun hb => hdisj b hb b (by simp) rfl
      cases hl : l.sub a with
      | some s0 =>
        simp [hl] at hs; subst hs
        have hsl := (sub_spec hl).2
        have hal := mem_of_sub hl
        have har : a ∉ r.addrs := fun ha => hdisj a hal a (by simp [ha]) rfl
        have hbs : b ∉ s0.addrs := fun hb => hbl (hsl b hb)
        obtain ⟨r1, r2, r3⟩ := hred b (by simp [PT.addrs]) hbs
        simp only [PT.parOf, hab, if_false, hl] at hs'
        have hrr : (h b).right ≠ some a := by
          intro e; rw [e] at h4; have := repr_ptr h4
          cases r with
          | leaf => simp [PT.ptr] at this
          | node _ x _ => simp [PT.ptr] at this; subst this; exact har (by simp [PT.addrs])
        refine ⟨h1, by rw [r1]; exact h2, ?_, ?_⟩
        · rw [r2]
          exact ihl h3 ndl hl hs' (fun c hc hcs => hred c (by simp [PT.addrs, hc]) hcs)
        · rw [r3, if_neg hrr, replace_of_not_mem har]
          refine repr_redirect_frame har (fun c hc => hred c (by simp [PT.addrs, hc]) ?_) h4
          intro hcs; exact hdisj c (hsl c hcs) c (by simp [hc]) rfl
      | none =>
        simp [hl] at hs
        have hsr := (sub_spec hs).2
        have har := mem_of_sub hs
        have hal : a ∉ l.addrs := fun ha => hdisj a ha a (by simp [har]) rfl
        have hbs : b ∉ s.addrs := fun hb => hbr (hsr b hb)
        obtain ⟨r1, r2, r3⟩ := hred b (by simp [PT.addrs]) hbs
        simp only [PT.parOf, hab, if_false, hl] at hs'
        have hll : (h b).left ≠ some a := by
          intro e; rw [e] at h3; have := repr_ptr h3
          cases l with
          | leaf => simp [PT.ptr] at this
          | node _ x _ => simp [PT.ptr] at this; subst this; exact hal (by simp [PT.addrs])
        refine ⟨h1, by rw [r1]; exact h2, ?_, ?_⟩
        · rw [r2, if_neg hll, replace_of_not_mem hal]
          refine repr_redirect_frame hal (fun c hc => hred c (by simp [PT.addrs, hc]) ?_) h3
          intro hcs; exact hdisj c hc c (by simp [hsr c hcs]) rfl
        · rw [r3]
          exact ihr h4 ndr hs hs' (fun c hc hcs => hred c (by simp [PT.addrs, hc]) hcs)

/-- F3: addresses after a replacement -/
theorem mem_replace {t : PT} {a : Nat} {s s' : PT} (hnd : t.addrs.Nodup) (hs : t.sub a = some s) (x : Nat) :
    x ∈ (t.replace a s').addrs ↔ (x ∈ t.addrs ∧ x ∉ s.addrs) ∨ x ∈ s'.addrs := by
  induction t with
  | leaf => simp [PT.sub] at hs
  | node l b r ihl ihr =>
    have hnd' := hnd
    simp only [PT.addrs] at hnd'
    rw [List.nodup_append] at hnd'
    obtain ⟨ndl, ndr', hdisj⟩ := hnd'
    rw [List.nodup_cons] at ndr'
    obtain ⟨hbr, ndr⟩ := ndr'
    have hbl : b ∉ l.addrs := fun hb => hdisj b hb b (by simp) rfl
    by_cases hab : a = b
    · subst hab; simp [PT.sub] at hs; subst hs; simp [PT.replace]
    · simp only [PT.sub, hab, if_false] at hs
      simp only [PT.replace, hab, if_false, PT.addrs, List.mem_append, List.mem_cons]
      cases hl : l.sub a with
      | some s0 =>
        simp [hl] at hs; subst hs
        have hsl := (sub_spec hl).2
        have har : a ∉ r.addrs := fun ha => hdisj a (mem_of_sub hl) a (by simp [ha]) rfl
        rw [ihl ndl hl, replace_of_not_mem har]
        constructor
        · rintro ((⟨h1, h2⟩ | h1) | h1 | h1)
          · exact .inl ⟨.inl h1, h2⟩
          · exact .inr h1
          · subst h1; exact .inl ⟨.inr (.inl rfl), fun hb => hbl (hsl _ hb)⟩
          · exact .inl ⟨.inr (.inr h1), fun hx => hdisj x (hsl x hx) x (by simp [h1]) rfl⟩
        · rintro (⟨h1 | h1 | h1, h2⟩ | h1)
          · exact .inl (.inl ⟨h1, h2⟩)
          · exact .inr (.inl h1)
          · exact .inr (.inr h1)
          · exact .inl (.inr h1)
      | none =>
        simp [hl] at hs
        have hsr := (sub_spec hs).2
        have hal : a ∉ l.addrs := fun ha => hdisj a ha a (by simp [mem_of_sub hs]) rfl
        rw [ihr ndr hs, replace_of_not_mem hal]
        constructor
        · rintro (h1 | h1 | ⟨h1, h2⟩ | h1)
          · exact .inl ⟨.inl h1, fun hx => hdisj x h1 x (by simp [hsr x hx]) rfl⟩
          · subst h1; exact .inl ⟨.inr (.inl rfl), fun hb => hbr (hsr _ hb)⟩
          · exact .inl ⟨.inr (.inr h1), h2⟩
          · exact .inr h1
        · rintro (⟨h1 | h1 | h1, h2⟩ | h1)
          · exact .inl h1
          · exact .inr (.inl h1)
          · exact .inr (.inr (.inl ⟨h1, h2⟩))
          · exact .inr (.inr (.inr h1))

theorem nodup_replace {t : PT} {a : Nat} {s s' : PT} (hnd : t.addrs.Nodup) (hs : t.sub a = some s)
    (hnd' : s'.addrs.Nodup) (hfresh : ∀ x ∈ s'.addrs, x ∈ s.addrs ∨ x ∉ t.addrs) :
    (t.replace a s').addrs.Nodup := by
  induction t with
  | leaf => simp [PT.sub] at hs
  | node l b r ihl ihr =>
    have hndc := hnd
    simp only [PT.addrs] at hndc
    rw [List.nodup_append] at hndc
    obtain ⟨ndl, ndr', hdisj⟩ := hndc
    rw [List.nodup_cons] at ndr'
    obtain ⟨hbr, ndr⟩ := ndr'
    have hbl : b ∉ l.addrs := fun hb => hdisj b hb b (by simp) rfl
    by_cases hab : a = b
    · subst hab; simp [PT.sub] at hs; subst hs; simpa [PT.replace] using hnd'
    · simp only [PT.sub, hab, if_false] at hs
      simp only [PT.replace, hab, if_false, PT.addrs]
      cases hl : l.sub a with
      | some s0 =>
        simp [hl] at hs; subst hs
        have hsl := (sub_spec hl).2
        have har : a ∉ r.addrs := fun ha => hdisj a (mem_of_sub hl) a (by simp [ha]) rfl
        rw [replace_of_not_mem har, List.nodup_append]
        refine ⟨ihl ndl hl (fun x hx => ?_), List.nodup_cons.2 ⟨hbr, ndr⟩, ?_⟩
        · rcases hfresh x hx with h1 | h1
          · exact .inl h1
          · exact .inr (fun hxl => h1 (by simp [PT.addrs, hxl]))
        · intro x hx y hy hxy
          subst hxy
          rw [mem_replace ndl hl] at hx
          rcases hx with ⟨hx, _⟩ | hx
          · exact hdisj x hx x hy rfl
          · rcases hfresh x hx with h1 | h1
            · exact hdisj x (hsl x h1) x hy rfl
            · exact h1 (by simp only [PT.addrs, List.mem_append]; exact .inr hy)
      | none =>
        simp [hl] at hs
        have hsr := (sub_spec hs).2
        have hal : a ∉ l.addrs := fun ha => hdisj a ha a (by simp [mem_of_sub hs]) rfl
        rw [replace_of_not_mem hal, List.nodup_append]
        have ndr2 : (r.replace a s').addrs.Nodup := ihr ndr hs (fun x hx => by
          rcases hfresh x hx with h1 | h1
          · exact .inl h1
          · exact .inr (fun hxr => h1 (by simp [PT.addrs, hxr])))
        have hbr2 : b ∉ (r.replace a s').addrs := by
          rw [mem_replace ndr hs]
          rintro (⟨h1, _⟩ | h1)
          · exact hbr h1
          · rcases hfresh b h1 with h2 | h2
            · exact hbr (hsr b h2)
            · exact h2 (by simp [PT.addrs])
        refine ⟨ndl, List.nodup_cons.2 ⟨hbr2, ndr2⟩, ?_⟩
        intro x hx y hy hxy
        subst hxy
        rcases List.mem_cons.1 hy with hy | hy
        · subst hy; exact hbl hx
        · rw [mem_replace ndr hs] at hy
          rcases hy with ⟨hy, _⟩ | hy
          · exact hdisj x hx x (by simp [hy]) rfl
          · rcases hfresh x hy with h1 | h1
            · exact hdisj x hx x (by simp [hsr x h1]) rfl
            · exact h1 (by simp [PT.addrs, hx])

/-- F6: the pointer fields of a node of the tree point into the tree (or are nil, or are the tree's own parent link) -/
theorem repr_fields {h : Nat → Node} {t : PT} : ∀ {p par}, Repr h p par t → ∀ a ∈ t.addrs,
    (∀ b, (h a).left = some b → b ∈ t.addrs) ∧ (∀ b, (h a).right = some b → b ∈ t.addrs) ∧
    (∀ b, (h a).parent = some b → b ∈ t.addrs ∨ par = some b) := by
  induction t with
  | leaf => intro p par _ a ha; simp [PT.addrs] at ha
  | node l b r ihl ihr =>
    intro p par hR a ha
    simp only [Repr] at hR
    obtain ⟨_, h2, h3, h4⟩ := hR
    simp only [PT.addrs, List.mem_append, List.mem_cons] at ha
    rcases ha with ha | ha | ha
    · obtain ⟨i1, i2, i3⟩ := ihl h3 a ha
      refine ⟨fun c hc => ?_, fun c hc => ?_, fun c hc => ?_⟩
      · simp [PT.addrs, i1 c hc]
      · simp [PT.addrs, i2 c hc]
      · rcases i3 c hc with h | h
        · simp [PT.addrs, h]
        · simp only [Option.some.injEq] at h; subst h; simp [PT.addrs]
    · subst ha
      refine ⟨fun c hc => ?_, fun c hc => ?_, fun c hc => ?_⟩
      · rw [hc] at h3; have := repr_ptr h3
        cases l with
        | leaf => simp [PT.ptr] at this
        | node _ x _ => simp [PT.ptr] at this; subst this; simp [PT.addrs]
      · rw [hc] at h4; have := repr_ptr h4
        cases r with
        | leaf => simp [PT.ptr] at this
        | node _ x _ => simp [PT.ptr] at this; subst this; simp [PT.addrs]
      · right; rw [← h2, hc]
    · obtain ⟨i1, i2, i3⟩ := ihr h4 a ha
      refine ⟨fun c hc => ?_, fun c hc => ?_, fun c hc => ?_⟩
      · simp [PT.addrs, i1 c hc]
      · simp [PT.addrs, i2 c hc]
      · rcases i3 c hc with h | h
        · simp [PT.addrs, h]
        · simp only [Option.some.injEq] at h; subst h; simp [PT.addrs]

/-- F3': the in-order address list around a replaced subtree -/
theorem addrs_replace {t : PT} {a : Nat} {s s' : PT} (hnd : t.addrs.Nodup) (hs : t.sub a = some s) :
    ∃ pre post, t.addrs = pre ++ s.addrs ++ post ∧ (t.replace a s').addrs = pre ++ s'.addrs ++ post := by
  induction t with
  | leaf => simp [PT.sub] at hs
  | node l b r ihl ihr =>
    have hnd' := hnd
    simp only [PT.addrs] at hnd'
    rw [List.nodup_append] at hnd'
    obtain ⟨ndl, ndr', hdisj⟩ := hnd'
    rw [List.nodup_cons] at ndr'
    obtain ⟨_, ndr⟩ := ndr'
    by_cases hab : a = b
    · subst hab; simp [PT.sub] at hs; subst hs
      exact ⟨[], [], by simp, by simp [PT.replace]⟩
    · simp only [PT.sub, hab, if_false] at hs
      cases hl : l.sub a with
      | some s0 =>
        simp [hl] at hs; subst hs
        have har : a ∉ r.addrs := fun ha => hdisj a (mem_of_sub hl) a (by simp [ha]) rfl
        obtain ⟨p, q, e1, e2⟩ := ihl ndl hl
        refine ⟨p, q ++ b :: r.addrs, ?_, ?_⟩
        · simp [PT.addrs, e1, List.append_assoc]
        · simp [PT.replace, hab, PT.addrs, e2, replace_of_not_mem har, List.append_assoc]
      | none =>
        simp [hl] at hs
        have hal : a ∉ l.addrs := fun ha => hdisj a ha a (by simp [mem_of_sub hs]) rfl
        obtain ⟨p, q, e1, e2⟩ := ihr ndr hs
        refine ⟨l.addrs ++ b :: p, q, ?_, ?_⟩
        · simp [PT.addrs, e1, List.append_assoc]
        · simp [PT.replace, hab, PT.addrs, e2, replace_of_not_mem hal, List.append_assoc]

end Ekit.MiniGo.RBHeap
