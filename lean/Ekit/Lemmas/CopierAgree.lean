/-
Helper lemmas for C20, part 7: on the family "basic kinds, slices, maps, nested structs and pointers to
them", the reflection-tree copier and the pure recursive CopyTo produce the same destination from a
fresh (zero) destination whenever both succeed.
-/
import Ekit.Lemmas.CopierPure

namespace Ekit.Copier
open Ekit.Go

/-- no options in effect -/
def opts0 : Options := {}

/-! ### facts about the family -/

theorem family_fields (atomics : List Ty) : ∀ (t : Ty) (fs : List Field), Spec.family atomics t = true →
    t.fields? = some fs → Spec.familyFields atomics fs = true
  | .named _ u, fs, h, hf => by
      simp only [Spec.family, Bool.and_eq_true] at h
      simp only [Ty.fields?] at hf
      exact family_fields atomics u fs h.2 hf
  | .struct fs', fs, h, hf => by
      simp only [Spec.family, Bool.and_eq_true] at h
      simp [Ty.fields?] at hf
      subst hf
      exact h.2
  | .basic _, _, _, hf | .slice _, _, _, hf | .arr _ _, _, _, hf | .map _ _, _, _, hf | .chan _, _, _, hf
  | .func _, _, _, hf | .iface _, _, _, hf | .uptr, _, _, hf | .ptr _, _, _, hf => by simp [Ty.fields?] at hf

theorem familyFields_get (atomics : List Ty) : ∀ (fs : List Field) (i : Nat) (f : Field),
    Spec.familyFields atomics fs = true → fs[i]? = some f → fexp f = true → Spec.family atomics (fty f) = true
  | (n, e, t) :: r, 0, f, h, hf, he => by
      simp only [Spec.familyFields, Bool.and_eq_true, Bool.or_eq_true, Bool.not_eq_true'] at h
      simp at hf
      subst hf
      rcases h.1 with h' | h'
      · simp [h'] at he
      · exact h'
  | (_, _, _) :: r, i + 1, f, h, hf, he => by
      simp only [Spec.familyFields, Bool.and_eq_true] at h
      simp at hf
      exact familyFields_get atomics r i f h.2 hf he
  | [], _, _, _, hf, _ => by simp at hf

/-- a pointer-free family type is either a shadow-copied leaf that is not a struct, or a struct that
    is not copied as a leaf -/
theorem family_nonptr (atomics : List Ty) : ∀ t : Ty, Spec.family atomics t = true → t.kind ≠ .ptr →
    (isShadowCopyType t.kind = true ∧ t.kind ≠ .struct) ∨ (t.kind = .struct ∧ isLeafTy atomics t = false)
  | .basic _, _, _ => Or.inl ⟨rfl, by simp [Ty.kind]⟩
  | .slice _, _, _ => Or.inl ⟨rfl, by simp [Ty.kind]⟩
  | .map _ _, _, _ => Or.inl ⟨rfl, by simp [Ty.kind]⟩
  | .named i u, h, hk => by
      simp only [Spec.family, Bool.and_eq_true, Bool.not_eq_true'] at h
      simp only [Ty.kind] at hk ⊢
      rcases family_nonptr atomics u h.2 hk with h' | ⟨h1, h2⟩
      · exact Or.inl h'
      · refine Or.inr ⟨h1, ?_⟩
        simp only [isLeafTy, Ty.kind, h1, isShadowCopyType, Bool.false_or]
        exact h.1
  | .struct fs, h, _ => by
      simp only [Spec.family, Bool.and_eq_true, Bool.not_eq_true'] at h
      refine Or.inr ⟨rfl, ?_⟩
      simp only [isLeafTy, Ty.kind, isShadowCopyType, Bool.false_or]
      exact h.1
  | .ptr _, _, hk => absurd rfl hk
  | .arr _ _, h, _ | .chan _, h, _ | .func _, h, _ | .iface _, h, _ | .uptr, h, _ => by simp [Spec.family] at h

theorem family_elem (atomics : List Ty) : ∀ (t e : Ty), Spec.family atomics t = true → t.ptrElem? = some e →
    Spec.family atomics e = true ∧ e.kind ≠ .ptr
  | .named _ u, e, h, he => by
      simp only [Spec.family, Bool.and_eq_true] at h
      simp only [Ty.ptrElem?] at he
      exact family_elem atomics u e h.2 he
  | .ptr e', e, h, he => by
      simp only [Spec.family, Bool.and_eq_true, bne_iff_ne, ne_eq] at h
      simp [Ty.ptrElem?] at he
      subst he
      exact ⟨h.2, h.1⟩
  | .basic _, _, _, he | .slice _, _, _, he | .arr _ _, _, _, he | .map _ _, _, _, he | .chan _, _, _, he
  | .func _, _, _, he | .iface _, _, _, he | .uptr, _, _, he | .struct _, _, _, he => by simp [Ty.ptrElem?] at he

theorem family_stripPtr (atomics : List Ty) (t : Ty) (h : Spec.family atomics t = true) :
    Spec.family atomics t.stripPtr = true ∧ t.stripPtr.kind ≠ .ptr := by
  by_cases hk : t.kind = .ptr
  · obtain ⟨e, he⟩ := elem_of_kind_ptr t hk
    rw [stripPtr_of_elem he]
    exact family_elem atomics t e h he
  · rw [stripPtr_of_not_ptr hk]
    exact ⟨h, hk⟩

/-- a zero leaf of a shadow-copied family type is the type's zero value -/
theorem zero_of_isZero (atomics : List Ty) : ∀ (t : Ty) (v : Val), Spec.family atomics t = true →
    t.kind ≠ .ptr → t.kind ≠ .struct → wt t v = true → v.isZero = true → v = zeroOf t
  | .basic k, v, _, _, _, hw, hz => by
      cases k <;> cases v <;> simp_all [wt, wtBasic, Val.isZero, zeroOf]
  | .named _ u, v, h, h1, h2, hw, hz => by
      simp only [Spec.family, Bool.and_eq_true] at h
      simp only [Ty.kind] at h1 h2
      simp only [wt] at hw
      simp only [zeroOf]
      exact zero_of_isZero atomics u v h.2 h1 h2 hw hz
  | .slice _, v, _, _, _, hw, hz => by cases v <;> simp_all [wt, Val.isZero, zeroOf]
  | .map _ _, v, _, _, _, hw, hz => by cases v <;> simp_all [wt, Val.isZero, zeroOf]
  | .ptr _, _, _, h1, _, _, _ => absurd rfl h1
  | .struct _, _, _, _, h2, _, _ => absurd rfl h2
  | .arr _ _, _, h, _, _, _, _ | .chan _, _, h, _, _, _, _ | .func _, _, h, _, _, _, _
  | .iface _, _, h, _, _, _, _ | .uptr, _, h, _, _, _, _ => by simp [Spec.family] at h

theorem zeroOf_ptr : ∀ (t e : Ty), t.ptrElem? = some e → zeroOf t = .nil
  | .named _ u, e, h => by
      simp only [Ty.ptrElem?] at h
      simp only [zeroOf]
      exact zeroOf_ptr u e h
  | .ptr _, _, _ => by simp [zeroOf]
  | .basic _, _, h | .slice _, _, h | .arr _ _, _, h | .map _ _, _, h | .chan _, _, h | .func _, _, h
  | .iface _, _, h | .uptr, _, h | .struct _, _, h => by simp [Ty.ptrElem?] at h

theorem zeroFields_get : ∀ (fs : List Field) (i : Nat) (f : Field), fs[i]? = some f →
    (zeroFields fs)[i]? = some (zeroOf (fty f))
  | (n, e, t) :: r, 0, f, h => by
      simp at h
      subst h
      simp [zeroFields]
  | (_, _, _) :: r, i + 1, f, h => by
      simp at h
      simpa [zeroFields] using zeroFields_get r i f h
  | [], _, _, h => by simp at h

theorem zeroOf_field : ∀ (t : Ty) (fs : List Field) (i : Nat) (f : Field), t.fields? = some fs →
    fs[i]? = some f → (zeroOf t).field? i = some (zeroOf (fty f))
  | .named _ u, fs, i, f, h, hf => by
      simp only [Ty.fields?] at h
      simp only [zeroOf]
      exact zeroOf_field u fs i f h hf
  | .struct fs', fs, i, f, h, hf => by
      simp [Ty.fields?] at h
      subst h
      simpa [zeroOf, Val.field?] using zeroFields_get fs' i f hf
  | .basic _, _, _, _, h, _ | .slice _, _, _, _, h, _ | .arr _ _, _, _, _, h, _ | .map _ _, _, _, _, h, _
  | .chan _, _, _, _, h, _ | .func _, _, _, _, h, _ | .iface _, _, _, _, h, _ | .uptr, _, _, _, h, _
  | .ptr _, _, _, _, h, _ => by simp [Ty.fields?] at h

/-! ### one matched field -/

/-- what the recursive calls are assumed to agree on: fresh destinations one level down -/
def AgreeRec (atomics : List Ty) (recB : Ty → Ty → Outcome (List Node))
    (recP : Ty → Val → Ty → Val → Flags → CopyRes) : Prop :=
  ∀ s d kids, s.kind = .struct → d.kind = .struct → Spec.family atomics s = true →
    Spec.family atomics d = true → recB s d = .ok kids →
    ∀ x fl fl', wt s x = true → fl.canSet = true → fl'.canSet = true →
      (copyChildren opts0 kids s x false d (zeroOf d) fl).res = .ok () →
      (recP s x d (zeroOf d) fl').res = .ok () →
      (copyChildren opts0 kids s x false d (zeroOf d) fl).dst = (recP s x d (zeroOf d) fl').dst

theorem opts0_conv (name : String) : opts0.conv? name = none := rfl
theorem opts0_ignore (name : String) : opts0.inIgnore name = false := rfl

/-- the leaf block against `copyData` on a shadow-copied family type, both from the same `y` -/
theorem leafData_agree (atomics : List Ty) (recP : Ty → Val → Ty → Val → Flags → CopyRes) (name pname : String)
    (oST : Ty) (oS : Val) (oDT : Ty) (oFl : Flags) (se : Ty) (x : Val) (de : Ty) (y : Val) (fl1 fl2 : Flags)
    (wasPtr : Bool) (hfam : Spec.family atomics se = true) (hnp : se.kind ≠ .ptr)
    (hsh : isShadowCopyType se.kind = true) (hns : se.kind ≠ .struct)
    (hx : wt se x = true) (hy : y = zeroOf de) (hc1 : fl1.canSet = true) (hc2 : fl2.canSet = true)
    (h1 : (copyLeaf opts0 name oST oS false oDT oFl se x de y fl1 wasPtr).res = .ok ())
    (h2 : (pureData recP se x de y fl2 pname).res = .ok ()) :
    (copyLeaf opts0 name oST oS false oDT oFl se x de y fl1 wasPtr).dst =
      rewrap wasPtr (pureData recP se x de y fl2 pname).dst := by
  have hnp' : (se.kind == Kind.ptr) = false := by simpa using hnp
  simp only [pureData, hnp', Bool.false_eq_true, if_false, hsh, if_true] at h2 ⊢
  simp only [copyLeaf, hc1, Bool.not_true, Bool.false_eq_true, if_false, opts0_conv] at h1 ⊢
  by_cases hk : (se.kind != de.kind) = true
  · rw [if_pos hk] at h2; simp at h2
  · rw [if_neg hk] at h2 ⊢
    by_cases ht : se ≠ de
    · rw [if_pos ht] at h2; simp at h2
    · have ht' : se = de := by simpa using ht
      subst ht'
      by_cases hz : x.isZero = true
      · have := zero_of_isZero atomics se x hfam hnp hns hx hz
        simp [hz, hc2, hy, ← this]
      · simp [hz, hc2]

theorem family_not_multi (atomics : List Ty) (t : Ty) (h : Spec.family atomics t = true) : t.isMultiPtr = false := by
  unfold Ty.isMultiPtr
  cases he : t.ptrElem? with
  | none => rfl
  | some e => simpa using (family_elem atomics t e h he).2

/-- what `copyTreeNode` does once both pointers are stripped -/
def treeInner (opts : Options) : Node → Ty → Val → Ty → Flags → Ty → Val → Ty → Val → Flags → Bool → CopyRes
  | .mk name _ _ leaf kids, oST, oS, oDT, oFl, se, x, de, y, ifl, wasPtr =>
    if leaf then copyLeaf opts name oST oS false oDT oFl se x de y ifl wasPtr
    else ⟨rewrap wasPtr (copyChildren opts kids se x false de y ifl).dst, (copyChildren opts kids se x false de y ifl).res⟩

theorem copyNode_eq_inner (opts : Options) (n : Node) (sT : Ty) (sv : Val) (dT : Ty) (dv : Val) (fl : Flags) :
    copyNode opts n sT sv false dT dv fl =
      match derefSrc sT sv with
      | .panic m => ⟨dv, .panic m⟩
      | .nilPtr => ⟨dv, .ok ()⟩
      | .val se x =>
        match derefDst dT dv fl with
        | .panic m => ⟨dv, .panic m⟩
        | .val de y ifl wasPtr => treeInner opts n sT sv dT fl se x de y ifl wasPtr := by
  cases n with
  | mk name si di leaf kids =>
    simp only [copyNode, treeInner]
    cases derefSrc sT sv <;> try rfl

/-- one matched field of the family, from a zero destination field: tree node against
    `copyStructField`, given the agreement of the stripped bodies (`hin`) -/
theorem field_agree (atomics : List Ty) (recP : Ty → Val → Ty → Val → Flags → CopyRes) (n : Node)
    (sf df : Field) (sfv : Val) (fl1 fl2 : Flags)
    (hfs : Spec.family atomics (fty sf) = true)
    (hs : wt (fty sf) sfv = true) (hc1 : fl1.canSet = true) (hc2 : fl2.canSet = true)
    (hin : ∀ x ifl1 ifl2 wasPtr oFl, wt (fty sf).stripPtr x = true → ifl1.canSet = true → ifl2.canSet = true →
      (treeInner opts0 n (fty sf) sfv (fty df) oFl (fty sf).stripPtr x (fty df).stripPtr (zeroOf (fty df).stripPtr) ifl1 wasPtr).res = .ok () →
      (pureData recP (fty sf).stripPtr x (fty df).stripPtr (zeroOf (fty df).stripPtr) ifl2 (fname sf)).res = .ok () →
      (treeInner opts0 n (fty sf) sfv (fty df) oFl (fty sf).stripPtr x (fty df).stripPtr (zeroOf (fty df).stripPtr) ifl1 wasPtr).dst =
        rewrap wasPtr (pureData recP (fty sf).stripPtr x (fty df).stripPtr (zeroOf (fty df).stripPtr) ifl2 (fname sf)).dst)
    (h1 : (copyNode opts0 n (fty sf) sfv false (fty df) (zeroOf (fty df)) fl1).res = .ok ())
    (h2 : (pureField recP sf sfv df (zeroOf (fty df)) fl2).res = .ok ()) :
    (copyNode opts0 n (fty sf) sfv false (fty df) (zeroOf (fty df)) fl1).dst =
      (pureField recP sf sfv df (zeroOf (fty df)) fl2).dst := by
  rw [copyNode_eq_inner] at h1 ⊢
  unfold pureField at h2 ⊢
  by_cases hk : ((fty sf).kind != (fty df).kind) = true
  · rw [if_pos hk] at h2; simp at h2
  · rw [if_neg hk] at h2 ⊢
    have hk' : (fty sf).kind = (fty df).kind := by simpa using hk
    have hel1 : fl1.elem.canSet = true := by
      simp only [Flags.canSet, Bool.and_eq_true, Bool.not_eq_true'] at hc1
      simp [Flags.elem, Flags.canSet, hc1.2]
    have hel2 : fl2.elem.canSet = true := by
      simp only [Flags.canSet, Bool.and_eq_true, Bool.not_eq_true'] at hc2
      simp [Flags.elem, Flags.canSet, hc2.2]
    by_cases hp : ((fty sf).kind == Kind.ptr) = true
    · rw [if_pos hp] at h2 ⊢
      have hp' : (fty sf).kind = .ptr := by simpa using hp
      obtain ⟨se, hse⟩ := elem_of_kind_ptr _ hp'
      obtain ⟨de, hde⟩ := elem_of_kind_ptr _ (hk' ▸ hp')
      have hz : zeroOf (fty df) = .nil := zeroOf_ptr _ de hde
      rw [hz] at h1 h2 ⊢
      rcases wt_ptr _ se sfv hse hs with rfl | ⟨x, rfl, hx⟩
      · simp [derefSrc, hp', hse, hde]
      · have hd1 : derefSrc (fty sf) (.ptr x) = .val se x := by simp [derefSrc, hp', hse]
        have hd2 : derefDst (fty df) .nil fl1 = .val de (zeroOf de) fl1.elem true := by
          simp [derefDst, hk' ▸ hp', hde, hc1]
        rw [hd1, hd2] at h1 ⊢
        simp only [hse, hde, hc2, Bool.not_true, Bool.false_eq_true, if_false] at h1 h2 ⊢
        have := hin x fl1.elem fl2.elem true fl1 (by rw [stripPtr_of_elem hse]; exact hx) hel1 hel2
        rw [stripPtr_of_elem hse, stripPtr_of_elem hde] at this
        have := this h1 h2
        rw [this]
        simp [rewrap]
    · rw [if_neg hp] at h2 ⊢
      have hp' : (fty sf).kind ≠ .ptr := by simpa using hp
      have hpd : (fty df).kind ≠ .ptr := hk' ▸ hp'
      have hd1 : derefSrc (fty sf) sfv = .val (fty sf) sfv := by simp [derefSrc, hp']
      have hd2 : derefDst (fty df) (zeroOf (fty df)) fl1 = .val (fty df) (zeroOf (fty df)) fl1 false := by
        simp [derefDst, hpd]
      rw [hd1, hd2] at h1 ⊢
      simp only [] at h1 ⊢
      have := hin sfv fl1 fl2 false fl1 (by rw [stripPtr_of_not_ptr hp']; exact hs) hc1 hc2
      rw [stripPtr_of_not_ptr hp', stripPtr_of_not_ptr hpd] at this
      have := this h1 h2
      rw [this]
      simp [rewrap]

end Ekit.Copier
