/-
C09 (DelayQueue share): capacity is conserved — at quiescence, whatever calls were cancelled before,
the lock is free and the queue accepts exactly `cap - len` more elements.
-/
import Ekit.Lemmas.DelayQEnabled

namespace Ekit.DelayQ
open Ekit.Conc

/-- no call is in progress -/
def quiescent (s : State) : Prop := ∀ t, s.pc t = .idle

theorem quiescent_mutex (P : Params) (s : State) (hi : Inv9 P s) (hq : quiescent s) : s.mutex = none := by
  cases hm : s.mutex with
  | none => rfl
  | some u => have := hi.lock.2 u hm; rw [hq u] at this; cases this

theorem soloEnq_quiescent (P : Params) (s : State) (hi : Inv9 P s) (hq : quiescent s) (t : Nat) (x : Elem)
    (hx : x ∉ s.issued) (hfull : isFull P s.q = false) :
    ∃ s', (sys P).toSystem.run s (soloEnqOk t x) = some s' ∧ s'.q = x :: s.q ∧ quiescent s' ∧
      s'.issued = x :: s.issued := by
  have hm := quiescent_mutex P s hi hq
  have hc : s.cur .enqSig ∉ s.closed .enqSig := fun h => Nat.lt_irrefl _ (hi.gen.closed_lt _ _ h)
  simp [System.run, soloEnqOk, sys, step, hq t, hx, hm, hfull, hc, State.setPc]
  intro u; simp only [upd]; split
  · rfl
  · exact hq u

/-- a full queue sends the next Enqueue to wait on the current generation of the dequeue signal -/
theorem soloEnq_full_parks (P : Params) (s : State) (hi : Inv9 P s) (hq : quiescent s) (t : Nat) (x : Elem)
    (hx : x ∉ s.issued) (hfull : isFull P s.q = true) :
    ∃ s', (sys P).toSystem.run s [.invEnq t x, .ctxOk t, .lock t, .enq t, .fetch t, .unlock t] = some s' ∧
      s'.q = s.q ∧ s'.pc t = .eWait x (s.cur .deqSig) ∧ s'.mutex = none := by
  have hm := quiescent_mutex P s hi hq
  simp [System.run, sys, step, hq t, hx, hm, hfull, State.setPc, Cont.cond]

theorem soloDeq_quiescent (P : Params) (s : State) (hi : Inv9 P s) (hq : quiescent s) (t : Nat) (x : Elem)
    (hmin : isMin s.q x = true) (hexp : x.dl ≤ s.now) :
    ∃ s', (sys P).toSystem.run s (soloDeqOk t x) = some s' ∧ s'.q = s.q.erase x ∧ quiescent s' ∧
      s'.retd = x :: s.retd := by
  have hm := quiescent_mutex P s hi hq
  have hc : s.cur .deqSig ∉ s.closed .deqSig := fun h => Nat.lt_irrefl _ (hi.gen.closed_lt _ _ h)
  simp [System.run, soloDeqOk, sys, step, hq t, hm, hmin, hexp, hc, State.setPc]
  intro u; simp only [upd]; split
  · rfl
  · exact hq u

/-- all of `xs`, one solo Enqueue after the other -/
def fillRun (t : Nat) (xs : List Elem) : List Label := xs.flatMap (soloEnqOk t)

theorem fill_quiescent (P : Params) (t : Nat) : ∀ (xs : List Elem) (s : State), (sys P).Reachable s → quiescent s →
    xs.Nodup → (∀ x ∈ xs, x ∉ s.issued) → (P.cap = 0 ∨ s.q.length + xs.length ≤ P.cap) →
    ∃ s', (sys P).toSystem.run s (fillRun t xs) = some s' ∧ s'.q = xs.reverse ++ s.q ∧ quiescent s' ∧
      (sys P).Reachable s'
  | [], s, hr, hq, _, _, _ => ⟨s, rfl, by simp, hq, hr⟩
  | x :: xs, s, hr, hq, hnd, hfresh, hcap => by
    have hi := inv9_reachable P s hr
    have hfull : isFull P s.q = false := by
      simp only [isFull, List.length_cons] at hcap ⊢
      rcases hcap with h | h
      · simp [h]
      · have : s.q.length ≠ P.cap := by omega
        simp [this]
    obtain ⟨s1, hrun1, hq1, hqu1, hiss1⟩ := soloEnq_quiescent P s hi hq t x (hfresh x (by simp)) hfull
    have hr1 : (sys P).Reachable s1 := System.reachable_of_run _ _ hr hrun1
    have hnd' := List.nodup_cons.mp hnd
    obtain ⟨s2, hrun2, hq2, hqu2, hr2⟩ := fill_quiescent P t xs s1 hr1 hqu1 hnd'.2
      (by intro y hy; rw [hiss1]; intro h
          rcases List.mem_cons.mp h with rfl | h
          · exact hnd'.1 hy
          · exact hfresh y (List.mem_cons_of_mem _ hy) h)
      (by rcases hcap with h | h
          · exact Or.inl h
          · right; rw [hq1]; simp only [List.length_cons] at h ⊢; omega)
    refine ⟨s2, ?_, ?_, hqu2, hr2⟩
    · simp only [fillRun, List.flatMap_cons]
      rw [System.run_append, hrun1]
      exact hrun2
    · rw [hq2, hq1]; simp

end Ekit.DelayQ
