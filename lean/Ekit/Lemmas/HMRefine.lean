/-
The translated mapx/hashmap.go (Ekit/Generated/HashMapGo.lean, run by the MiniGo interpreter of Ekit/MiniGo/LangHM.lean)
against the hand-written model `Ekit.HashMap.HMap` (Model/HashMap.lean) that the C03 theorems are about.

The hand model keeps a collision chain as a LIST of (key, value); the interpreter keeps nodes on a heap.  The simulation
relation `Rel` says: the Go map of the interpreter has a key exactly where the model has a bucket, the head pointer stored
there starts a `next`-path through pairwise different nodes whose (key, value) fields are the model's chain, nodes of
different chains and of the pool are different, every node is allocated, and the pool list holds the addresses of the
model's pooled nodes with the same fields.
-/
import Ekit.Generated.HashMapGo
import Ekit.Model.HashMap

namespace Ekit.MiniGo.HM.Refine
open Ekit.MiniGo.HM Ekit.Gen.HashMapGo
open Ekit.HashMap

/-- the user's key type as the interpreter's parameter -/
def koOf (hk : Hashable) : KeyOps := ⟨hk.code, hk.equals⟩

theorem koOf_codeF (hk : Hashable) : (koOf hk).codeF = hk.code := rfl
theorem koOf_eqF (hk : Hashable) : (koOf hk).eqF = hk.equals := rfl

/-! ### the simulation relation -/

/-- `as` are the addresses on the `next`-path that starts at `p` and ends in nil -/
def IsPath (h : Nat → Node) : Option Nat → List Nat → Prop
  | p, [] => p = none
  | p, a :: as => p = some a ∧ IsPath h (h a).next as

/-- the (key, value) fields along a path -/
def contents (h : Nat → Node) (as : List Nat) : Chain Int := as.map fun a => ((h a).key, (h a).value)

/-- a pooled node of the model and the heap node at a pooled address -/
def PRel (n : Node) (pn : PNode Int) : Prop := n.key = pn.key ∧ n.value = pn.value ∧ (pn.tail = [] ∧ n.next = none)

/-- the pool list and the model's pool, position by position -/
def PoolRel (h : Nat → Node) : List Nat → List (PNode Int) → Prop
  | [], [] => True
  | a :: as, pn :: pns => PRel (h a) pn ∧ PoolRel h as pns
  | _, _ => False

structure Rel (st : St) (m : HMap Int) : Prop where
  /-- `addrs c` = the nodes of the chain of code `c` -/
  ex : ∃ addrs : Int → List Nat,
    (∀ c, match AL.lookup c m.buckets with
          | none => st.map c = none ∧ addrs c = []
          | some ch => ∃ p, st.map c = some p ∧ IsPath st.h p (addrs c) ∧ contents st.h (addrs c) = ch) ∧
    (∀ c, (addrs c).Nodup) ∧
    (∀ c d a, c ≠ d → a ∈ addrs c → a ∉ addrs d) ∧
    (∀ c a, a ∈ addrs c → a < st.alloc ∧ a ∉ st.pool) ∧
    st.pool.Nodup ∧ (∀ a, a ∈ st.pool → a < st.alloc) ∧
    PoolRel st.h st.pool m.pool

/-- the part of `Rel` that a read needs -/
theorem Rel.bucket {st : St} {m : HMap Int} (r : Rel st m) (c : Int) :
    match AL.lookup c m.buckets with
    | none => st.map c = none
    | some ch => ∃ p as, st.map c = some p ∧ IsPath st.h p as ∧ contents st.h as = ch := by
  obtain ⟨addrs, hb, -⟩ := r.ex
  have := hb c
  split
  · next e => rw [e] at this; exact this.1
  · next ch e =>
    rw [e] at this
    obtain ⟨p, h1, h2, h3⟩ := this
    exact ⟨p, addrs c, h1, h2, h3⟩

/-! ### calls: fuel bookkeeping -/

theorem call_succ (ko : KeyOps) (f : Nat) (fn : PName) (args : List Val) (st : St) :
    call ko procs (f + 1) fn args st = runBody ko (call ko procs f) f (procs fn) args st := rfl

theorem set_apply (ρ : Env) (x : Nat) (v : Val) (y : Nat) : (ρ.set x v) y = if y = x then v else ρ y := rfl

/-! ### one-statement unfolding rules (the loop form is unfolded only by `exec_loop`) -/

section rules
variable (ko : KeyOps) (callH : CallH PName) (lf : Nat) (ρ : Env) (st : St)

theorem exec_seq (a b : Stmt PName) : exec ko callH lf ρ st (.seq a b) =
    (match exec ko callH lf ρ st a with
     | .ok (.normal, ρ1, st1) => exec ko callH lf ρ1 st1 b
     | .ok r => .ok r
     | .error e => .error e) := rfl
theorem exec_skip : exec ko callH lf ρ st (.skip : Stmt PName) = .ok (.normal, ρ, st) := rfl
theorem exec_assign (x : Nat) (e : Expr PName) : exec ko callH lf ρ st (.assign x e) =
    (match evalE ko callH ρ st e with
     | .ok (v, st1) => .ok (.normal, ρ.set x v, st1)
     | .error e => .error e) := rfl
theorem exec_ite (c : Expr PName) (t e : Stmt PName) : exec ko callH lf ρ st (.ite c t e) =
    (match evalE ko callH ρ st c with
     | .ok (.bool true, st1) => exec ko callH lf ρ st1 t
     | .ok (.bool false, st1) => exec ko callH lf ρ st1 e
     | .ok _ => .error .stuck
     | .error x => .error x) := rfl
theorem exec_ret (e : Expr PName) : exec ko callH lf ρ st (.ret e) =
    (match evalE ko callH ρ st e with
     | .ok (v, st1) => .ok (.ret v, ρ, st1)
     | .error e => .error e) := rfl
theorem exec_ret2 (a b : Expr PName) : exec ko callH lf ρ st (.ret2 a b) =
    (match evalE ko callH ρ st a with
     | .ok (x, st1) =>
       match evalE ko callH ρ st1 b with
       | .ok (y, st2) => .ok (.ret (.pair x y), ρ, st2)
       | .error e => .error e
     | .error e => .error e) := rfl
theorem exec_mapRead (x ok : Nat) (c : Expr PName) : exec ko callH lf ρ st (.mapRead x ok c) =
    (match evalE ko callH ρ st c with
     | .ok (.int c', st1) =>
       match st1.map c' with
       | some p => .ok (.normal, (ρ.set x (.ptr p)).set ok (.bool true), st1)
       | none => .ok (.normal, (ρ.set x (.ptr none)).set ok (.bool false), st1)
     | .ok _ => .error .stuck
     | .error e => .error e) := rfl
theorem exec_setField (p : Expr PName) (f : Fld) (e : Expr PName) : exec ko callH lf ρ st (.setField p f e) =
    (match evalE ko callH ρ st p with
     | .ok (pv, st1) =>
       match evalE ko callH ρ st1 e with
       | .ok (v, st2) =>
         match writeField st2 pv f v with
         | .ok st3 => .ok (.normal, ρ, st3)
         | .error e => .error e
       | .error e => .error e
     | .error e => .error e) := rfl
theorem exec_loop (c : Expr PName) (body : Stmt PName) : exec ko callH lf ρ st (.loop c body) =
    iterate (fun ρ st => evalE ko callH ρ st c) (fun ρ st => exec ko callH lf ρ st body) lf ρ st := rfl

end rules

/-! ### `Get` -/

/-- the body of `Get`'s loop -/
def getLoopBody : Stmt PName :=
  (.seq (.ite (.equals (.field (.var 2) .key) (.var 0))
    (.ret2 (.field (.var 2) .value) (.bool true))
    .skip)
    (.assign 2 (.field (.var 2) .next)))

theorem body_Get_shape : body_Get =
  (.seq (.assign 1 (.code (.var 0)))
    (.seq (.mapRead 2 3 (.var 1))
    (.seq (.assign 4 (.int 0))
    (.seq (.ite (.not (.var 3))
    (.ret2 (.var 4) (.bool false))
    .skip)
    (.seq (.loop (.ne (.var 2) .nil) getLoopBody)
    (.ret2 (.var 4) (.bool false))))))) := rfl

section getrules
variable (hk : Hashable) (callH : CallH PName) (lf : Nat) (st : St) (ρ : Env)

theorem get_cond (p : Option Nat) (h2 : ρ 2 = .ptr p) :
    evalE (koOf hk) callH ρ st (.ne (.var 2) .nil) = .ok (.bool p.isSome, st) := by
  cases p <;> simp [evalE, seq2, h2, BinOp.apply, valEq]

theorem get_body_hit (a : Nat) (k : Int) (h2 : ρ 2 = .ptr (some a)) (h0 : ρ 0 = .int k) (he : hk.equals (st.h a).key k = true) :
    exec (koOf hk) callH lf ρ st getLoopBody = .ok (.ret (.pair (.int (st.h a).value) (.bool true)), ρ, st) := by
  simp [getLoopBody, exec, evalE, seq2, h2, h0, BinOp.apply, Node.get, koOf, he]

theorem get_body_miss (a : Nat) (k : Int) (h2 : ρ 2 = .ptr (some a)) (h0 : ρ 0 = .int k) (he : hk.equals (st.h a).key k = false) :
    exec (koOf hk) callH lf ρ st getLoopBody = .ok (.normal, ρ.set 2 (.ptr (st.h a).next), st) := by
  simp [getLoopBody, exec, evalE, seq2, h2, h0, BinOp.apply, Node.get, koOf, he]

end getrules

/-- `Get`'s loop is `chainGet` -/
theorem get_loop (hk : Hashable) (callH : CallH PName) (lf : Nat) (st : St) (k : Int) :
    ∀ (as : List Nat) (p : Option Nat) (ρ : Env) (n : Nat), IsPath st.h p as → ρ 2 = .ptr p → ρ 0 = .int k → as.length < n →
    ∃ ρ', ρ' 4 = ρ 4 ∧
      iterate (fun ρ st => evalE (koOf hk) callH ρ st (.ne (.var 2) .nil)) (fun ρ st => exec (koOf hk) callH lf ρ st getLoopBody) n ρ st =
      (match chainGet hk k (contents st.h as) with
       | some v => .ok (.ret (.pair (.int v) (.bool true)), ρ', st)
       | none => .ok (.normal, ρ', st)) := by
  intro as
  induction as with
  | nil =>
    intro p ρ n hp h2 _ hn
    obtain ⟨n, rfl⟩ : ∃ n', n = n' + 1 := ⟨n - 1, by simp at hn; omega⟩
    simp only [IsPath] at hp
    subst hp
    refine ⟨ρ, rfl, ?_⟩
    simp only [iterate, get_cond hk callH st ρ none h2, Option.isSome_none]
    simp [contents, chainGet]
  | cons a as ih =>
    intro p ρ n hp h2 h0 hn
    obtain ⟨n, rfl⟩ : ∃ n', n = n' + 1 := ⟨n - 1, by simp at hn; omega⟩
    obtain ⟨rfl, hp'⟩ := hp
    by_cases he : hk.equals (st.h a).key k = true
    · refine ⟨ρ, rfl, ?_⟩
      simp only [iterate, get_cond hk callH st ρ (some a) h2, Option.isSome_some]
      rw [get_body_hit hk callH lf st ρ a k h2 h0 he]
      simp [contents, chainGet, he]
    · have he' : hk.equals (st.h a).key k = false := by simpa using he
      obtain ⟨ρ', h4, hrec⟩ := ih (st.h a).next (ρ.set 2 (.ptr (st.h a).next)) n hp' (by simp [set_apply]) (by simp [set_apply, h0])
        (by simp at hn; omega)
      refine ⟨ρ', by rw [h4]; simp [set_apply], ?_⟩
      simp only [iterate, get_cond hk callH st ρ (some a) h2, Option.isSome_some]
      rw [get_body_miss hk callH lf st ρ a k h2 h0 he']
      dsimp only
      rw [hrec]
      simp [contents, chainGet, he']

/-- `Get` on related states: the translated `Get` returns what the model's `Get` returns and changes nothing -/
def retVal : Out Int → Val
  | .ok (.found v) => .pair (.int v) (.bool true)
  | .ok .missing => .pair (.int 0) (.bool false)
  | .ok .unit => .ptr none
  | _ => .unit

theorem Get_sim (hk : Hashable) (st : St) (m : HMap Int) (o : Oracle) (k : Int) (r : Rel st m) :
    ∃ f0, ∀ f, f0 ≤ f →
      call (koOf hk) procs (f + 1) .Get [.int k] st = .ok (retVal (m.step hk o (.get k)).2, st) := by
  have hb := r.bucket (hk.code k)
  cases e : AL.lookup (hk.code k) m.buckets with
  | none =>
    rw [e] at hb
    refine ⟨0, fun f _ => ?_⟩
    rw [call_succ]
    simp [runBody, procs, body_Get_shape, exec, evalE, Env.ofArgs, koOf, set_apply, hb, HMap.step, e, retVal]
  | some ch =>
    rw [e] at hb
    obtain ⟨p, as, hm, hp, hc⟩ := hb
    refine ⟨as.length + 1, fun f hf => ?_⟩
    rw [call_succ]
    let ρ3 : Env := ((((Env.ofArgs [.int k]).set 1 (.int (hk.code k))).set 2 (.ptr p)).set 3 (.bool true)).set 4 (.int 0)
    obtain ⟨ρ', h4, hl⟩ := get_loop hk (call (koOf hk) procs f) f st k as p ρ3 f hp (by simp [ρ3, set_apply])
      (by simp [ρ3, set_apply, Env.ofArgs]) (by omega)
    have h4' : ρ' 4 = .int 0 := by rw [h4]; simp [ρ3, set_apply]
    simp only [runBody, procs, body_Get_shape, exec_seq, exec_assign, exec_mapRead, exec_ite, exec_ret2, exec_skip]
    simp only [evalE, Env.ofArgs, List.getD_cons_zero, koOf_codeF, set_apply]
    simp only [if_true, reduceCtorEq, if_false, Nat.reduceEqDiff, hm, set_apply, Bool.not_true]
    rw [exec_loop, hl]
    simp only [HMap.step, e]
    subst hc
    cases chainGet hk k (contents st.h as) <;> simp [Spec.lookupRet, retVal, h4', evalE]

/-! ### the constructor, `formatting`, the pool's factory -/

theorem New_spec (ko : KeyOps) (f : Nat) (n : Int) (hn : 0 ≤ n) (st : St) :
    call ko procs (f + 1) .NewHashMap [.int n] st = .ok (.unit, { st with pool := [], map := fun _ => none }) := by
  have : ¬ n < 0 := by omega
  simp [call_succ, runBody, procs, body_NewHashMap, exec, evalE, Env.ofArgs, this]

/-- the state the translated constructor returns is related to the model's empty map -/
theorem New_sim (ko : KeyOps) (f : Nat) (n : Int) (hn : 0 ≤ n) (st : St) :
    ∃ st', call ko procs (f + 1) .NewHashMap [.int n] st = .ok (.unit, st') ∧ Rel st' (HMap.empty : HMap Int) := by
  refine ⟨_, New_spec ko f n hn st, ⟨fun _ => [], ?_⟩⟩
  simp [HMap.empty, AL.lookup, PoolRel]

/-- `n.formatting()` resets the three fields of `n` and touches nothing else: the node handed to the pool is clean -/
theorem formatting_spec (ko : KeyOps) (f : Nat) (a : Nat) (st : St) :
    ∃ st', call ko procs (f + 1) .formatting [.ptr (some a)] st = .ok (.unit, st') ∧
      st'.h a = ⟨0, 0, none⟩ ∧ (∀ b, b ≠ a → st'.h b = st.h b) ∧
      st'.map = st.map ∧ st'.pool = st.pool ∧ st'.alloc = st.alloc ∧ st'.choice = st.choice := by
  refine ⟨_, by simp [call_succ, runBody, procs, body_formatting, exec, evalE, Env.ofArgs, set_apply, writeField, Node.set]; rfl, ?_⟩
  refine ⟨by simp [upd], fun b hb => by simp [upd, hb], rfl, rfl, rfl, rfl⟩

/-- the pool's factory `func() *node { return &node{} }` allocates one clean node -/
theorem poolNew_spec (ko : KeyOps) (f : Nat) (st : St) :
    call ko procs (f + 1) .poolNew [] st =
      .ok (.ptr (some st.alloc), { st with h := upd st.h st.alloc ⟨0, 0, none⟩, alloc := st.alloc + 1 }) := by
  simp [call_succ, runBody, procs, body_poolNew, exec, evalE]

end Ekit.MiniGo.HM.Refine
