/- Preservation of the structural invariant of the Cond model, part 3: send targets and the pool. -/
import Ekit.Lemmas.CondInv2
namespace Ekit.Cond
open Ekit.Conc
variable {s s' : State} {l : Label}

theorem tgtOK_step (h : Inv s) (hs : step s l = some s') :
    ∀ m, s'.tgt = some m → m ∉ s'.list ∧ m ∉ s'.full ∧ m < s'.nextNode := by
  have h1 := h.mutex; have h2 := h.muHeld; have h4 := h.tgtOK; have h5 := h.listNodup
  have h6 := h.listFull; have h7 := h.listFresh
  have h9 := tgt_eq s; have h10 := tgt_none s
  step_cases hs <;> intro m <;> simp only [State.tgt, upd_apply] <;> (repeat' split) <;>
    grind [Pc.inMu, Pc.target, List.mem_of_mem_erase, List.nodup_cons, bodyStart_target]

theorem poolClean_step (h : Inv s) (hs : step s l = some s') :
    ∀ n, n ∈ s'.pool → n ∉ s'.list ∧ n ∉ s'.full ∧ s'.tgt ≠ some n := by
  have h1 := h.mutex; have h2 := h.muHeld; have h4 := h.poolClean; have h5 := h.poolFree
  have h6 := h.inList; have h7 := h.inFull; have h8 := h.isTgt
  have h9 := tgt_eq s; have h10 := tgt_none s
  step_cases hs <;> intro m <;> simp only [State.tgt, upd_apply] <;> (repeat' split) <;>
    grind [Pc.inMu, Pc.target, Pc.node, Pc.listPc, Pc.fullPc, Pc.parked, List.mem_of_mem_erase,
      bodyStart_target]
end Ekit.Cond
