/-
Third generic contract: procedures that never assign `rb.size` and call only procedures of the same kind leave the
size counter as it is — whatever else they do (pointer surgery, allocation, `rb.root`).  Everything except `Add`,
`addNode`, `Delete`, `deleteNode` is of this kind (`nosize_procs`, re-checked by `decide` on the current translation).
-/
import Ekit.MiniGo.RBContract

namespace Ekit.MiniGo.RBHeap
open Ekit.MiniGo Ekit.Gen.RBTreeGo

/-- the size counter is untouched -/
def SizeSame (st st' : St) : Prop := st'.size = st.size

theorem SizeSame.refl (st : St) : SizeSame st st := rfl
theorem SizeSame.trans {a b c : St} (h1 : SizeSame a b) (h2 : SizeSame b c) : SizeSame a c :=
  Eq.trans h2 h1

def isNoSize : PName → Bool
  | .Add | .addNode | .Delete | .deleteNode => false
  | _ => true

def nsE : Expr PName → Bool
  | .nil | .int _ | .bool _ | .err _ | .unit | .var _ | .root | .size => true
  | .field e _ => nsE e
  | .cmp a b | .eq a b | .ne a b | .lt a b | .gt a b | .and a b | .or a b | .add a b => nsE a && nsE b
  | .not a => nsE a
  | .call0 fn => isNoSize fn
  | .call1 fn a => isNoSize fn && nsE a
  | .call2 fn a b => isNoSize fn && nsE a && nsE b
  | .call3 fn a b c => isNoSize fn && nsE a && nsE b && nsE c
  | .alloc c k v l r p => nsE c && nsE k && nsE v && nsE l && nsE r && nsE p

def nsS : Stmt PName → Bool
  | .skip | .continue_ | .break_ => true
  | .seq a b => nsS a && nsS b
  | .assign _ e => nsE e
  | .setField p _ e => nsE p && nsE e
  | .setRoot e => nsE e
  | .setSize _ => false
  | .ite c t e => nsE c && nsS t && nsS e
  | .loop c b => nsE c && nsS b
  | .ret e => nsE e
  | .ret2 a b => nsE a && nsE b
  | .expr e => nsE e

theorem nosize_procs : ∀ fn, isNoSize fn = true → nsS (procs fn).body = true := by
  intro fn; cases fn <;> decide

def SpecNoSize (callH : CallH PName) (fn : PName) : Prop :=
  ∀ args st v st', callH fn args st = .ok (v, st') → SizeSame st st'

section
variable (cmpF : Int → Int → Int) (callH : CallH PName) (hN : ∀ fn, isNoSize fn = true → SpecNoSize callH fn)
include hN

def NGoodE (e : Expr PName) : Prop :=
  ∀ ρ st v st', evalE cmpF callH ρ st e = .ok (v, st') → SizeSame st st'

theorem evalE_ns : ∀ e : Expr PName, nsE e = true → NGoodE cmpF callH e := by
  intro e
  induction e with
  | nil => intro _ ρ st v st' h; simp [evalE] at h; obtain ⟨_, rfl⟩ := h; exact .refl _
  | int i => intro _ ρ st v st' h; simp [evalE] at h; obtain ⟨_, rfl⟩ := h; exact .refl _
  | bool b => intro _ ρ st v st' h; simp [evalE] at h; obtain ⟨_, rfl⟩ := h; exact .refl _
  | err c => intro _ ρ st v st' h; simp [evalE] at h; obtain ⟨_, rfl⟩ := h; exact .refl _
  | unit => intro _ ρ st v st' h; simp [evalE] at h; obtain ⟨_, rfl⟩ := h; exact .refl _
  | var x => intro _ ρ st v st' h; simp [evalE] at h; obtain ⟨_, rfl⟩ := h; exact .refl _
  | root => intro _ ρ st v st' h; simp [evalE] at h; obtain ⟨_, rfl⟩ := h; exact .refl _
  | size => intro _ ρ st v st' h; simp [evalE] at h; obtain ⟨_, rfl⟩ := h; exact .refl _
  | field e f ih =>
    intro hs ρ st v st' h
    simp only [nsE] at hs
    simp only [evalE] at h
    cases he : evalE cmpF callH ρ st e with
    | error x => simp [he] at h
    | ok r =>
      obtain ⟨x, st1⟩ := r
      have S1 := ih hs ρ st x st1 he
      rw [he] at h
      cases x with
      | ptr p =>
        cases p with
        | none => simp at h
        | some a => simp at h; obtain ⟨_, rfl⟩ := h; exact S1
      | _ => simp at h
  | cmp a b iha ihb =>
    intro hs ρ st v st' h
    simp only [nsE, Bool.and_eq_true] at hs
    simp only [evalE] at h
    cases h1 : evalE cmpF callH ρ st a with
    | error x => simp [h1] at h
    | ok r1 =>
      obtain ⟨x, st1⟩ := r1
      rw [h1] at h
      cases x with
      | int xi =>
        simp only at h
        cases h2 : evalE cmpF callH ρ st1 b with
        | error x => simp [h2] at h
        | ok r2 =>
          obtain ⟨y, st2⟩ := r2
          rw [h2] at h
          cases y <;> simp at h
          obtain ⟨_, rfl⟩ := h
          exact (iha hs.1 ρ st _ st1 h1).trans (ihb hs.2 ρ st1 _ st2 h2)
      | _ => simp at h
  | lt a b iha ihb =>
    intro hs ρ st v st' h
    simp only [nsE, Bool.and_eq_true] at hs
    simp only [evalE] at h
    cases h1 : evalE cmpF callH ρ st a with
    | error x => simp [h1] at h
    | ok r1 =>
      obtain ⟨x, st1⟩ := r1
      rw [h1] at h
      cases x with
      | int xi =>
        simp only at h
        cases h2 : evalE cmpF callH ρ st1 b with
        | error x => simp [h2] at h
        | ok r2 =>
          obtain ⟨y, st2⟩ := r2
          rw [h2] at h
          cases y <;> simp at h
          obtain ⟨_, rfl⟩ := h
          exact (iha hs.1 ρ st _ st1 h1).trans (ihb hs.2 ρ st1 _ st2 h2)
      | _ => simp at h
  | gt a b iha ihb =>
    intro hs ρ st v st' h
    simp only [nsE, Bool.and_eq_true] at hs
    simp only [evalE] at h
    cases h1 : evalE cmpF callH ρ st a with
    | error x => simp [h1] at h
    | ok r1 =>
      obtain ⟨x, st1⟩ := r1
      rw [h1] at h
      cases x with
      | int xi =>
        simp only at h
        cases h2 : evalE cmpF callH ρ st1 b with
        | error x => simp [h2] at h
        | ok r2 =>
          obtain ⟨y, st2⟩ := r2
          rw [h2] at h
          cases y <;> simp at h
          obtain ⟨_, rfl⟩ := h
          exact (iha hs.1 ρ st _ st1 h1).trans (ihb hs.2 ρ st1 _ st2 h2)
      | _ => simp at h
  | add a b iha ihb =>
    intro hs ρ st v st' h
    simp only [nsE, Bool.and_eq_true] at hs
    simp only [evalE] at h
    cases h1 : evalE cmpF callH ρ st a with
    | error x => simp [h1] at h
    | ok r1 =>
      obtain ⟨x, st1⟩ := r1
      rw [h1] at h
      cases x with
      | int xi =>
        simp only at h
        cases h2 : evalE cmpF callH ρ st1 b with
        | error x => simp [h2] at h
        | ok r2 =>
          obtain ⟨y, st2⟩ := r2
          rw [h2] at h
          cases y <;> simp at h
          obtain ⟨_, rfl⟩ := h
          exact (iha hs.1 ρ st _ st1 h1).trans (ihb hs.2 ρ st1 _ st2 h2)
      | _ => simp at h
  | eq a b iha ihb =>
    intro hs ρ st v st' h
    simp only [nsE, Bool.and_eq_true] at hs
    simp only [evalE] at h
    cases h1 : evalE cmpF callH ρ st a with
    | error x => simp [h1] at h
    | ok r1 =>
      obtain ⟨x, st1⟩ := r1
      rw [h1] at h
      simp only at h
      cases h2 : evalE cmpF callH ρ st1 b with
      | error x => simp [h2] at h
      | ok r2 =>
        obtain ⟨y, st2⟩ := r2
        rw [h2] at h
        simp only at h
        cases hv : valEq x y with
        | none => simp [hv] at h
        | some r =>
          simp [hv] at h; obtain ⟨_, rfl⟩ := h
          exact (iha hs.1 ρ st x st1 h1).trans (ihb hs.2 ρ st1 y st2 h2)
  | ne a b iha ihb =>
    intro hs ρ st v st' h
    simp only [nsE, Bool.and_eq_true] at hs
    simp only [evalE] at h
    cases h1 : evalE cmpF callH ρ st a with
    | error x => simp [h1] at h
    | ok r1 =>
      obtain ⟨x, st1⟩ := r1
      rw [h1] at h
      simp only at h
      cases h2 : evalE cmpF callH ρ st1 b with
      | error x => simp [h2] at h
      | ok r2 =>
        obtain ⟨y, st2⟩ := r2
        rw [h2] at h
        simp only at h
        cases hv : valEq x y with
        | none => simp [hv] at h
        | some r =>
          simp [hv] at h; obtain ⟨_, rfl⟩ := h
          exact (iha hs.1 ρ st x st1 h1).trans (ihb hs.2 ρ st1 y st2 h2)
  | and a b iha ihb =>
    intro hs ρ st v st' h
    simp only [nsE, Bool.and_eq_true] at hs
    simp only [evalE] at h
    cases h1 : evalE cmpF callH ρ st a with
    | error x => simp [h1] at h
    | ok r1 =>
      obtain ⟨x, st1⟩ := r1
      rw [h1] at h
      have S1 := iha hs.1 ρ st x st1 h1
      cases x with
      | bool xb =>
        cases xb with
        | false => simp at h; obtain ⟨_, rfl⟩ := h; exact S1
        | true =>
          simp only at h
          cases h2 : evalE cmpF callH ρ st1 b with
          | error x => simp [h2] at h
          | ok r2 =>
            obtain ⟨y, st2⟩ := r2
            rw [h2] at h
            have S2 := ihb hs.2 ρ st1 y st2 h2
            cases y <;> simp at h
            obtain ⟨_, rfl⟩ := h
            exact S1.trans S2
      | _ => simp at h
  | or a b iha ihb =>
    intro hs ρ st v st' h
    simp only [nsE, Bool.and_eq_true] at hs
    simp only [evalE] at h
    cases h1 : evalE cmpF callH ρ st a with
    | error x => simp [h1] at h
    | ok r1 =>
      obtain ⟨x, st1⟩ := r1
      rw [h1] at h
      have S1 := iha hs.1 ρ st x st1 h1
      cases x with
      | bool xb =>
        cases xb with
        | true => simp at h; obtain ⟨_, rfl⟩ := h; exact S1
        | false =>
          simp only at h
          cases h2 : evalE cmpF callH ρ st1 b with
          | error x => simp [h2] at h
          | ok r2 =>
            obtain ⟨y, st2⟩ := r2
            rw [h2] at h
            have S2 := ihb hs.2 ρ st1 y st2 h2
            cases y <;> simp at h
            obtain ⟨_, rfl⟩ := h
            exact S1.trans S2
      | _ => simp at h
  | not a iha =>
    intro hs ρ st v st' h
    simp only [nsE] at hs
    simp only [evalE] at h
    cases h1 : evalE cmpF callH ρ st a with
    | error x => simp [h1] at h
    | ok r1 =>
      obtain ⟨x, st1⟩ := r1
      rw [h1] at h
      have S1 := iha hs ρ st x st1 h1
      cases x <;> simp at h
      obtain ⟨_, rfl⟩ := h
      exact S1
  | call0 fn =>
    intro hs ρ st v st' h
    simp only [nsE] at hs
    simp only [evalE] at h
    exact hN fn hs [] st v st' h
  | call1 fn a iha =>
    intro hs ρ st v st' h
    simp only [nsE, Bool.and_eq_true] at hs
    simp only [evalE] at h
    cases h1 : evalE cmpF callH ρ st a with
    | error x => simp [h1] at h
    | ok r1 =>
      obtain ⟨x, st1⟩ := r1
      rw [h1] at h
      exact (iha hs.2 ρ st x st1 h1).trans (hN fn hs.1 [x] st1 v st' h)
  | call2 fn a b iha ihb =>
    intro hs ρ st v st' h
    simp only [nsE, Bool.and_eq_true] at hs
    simp only [evalE] at h
    cases h1 : evalE cmpF callH ρ st a with
    | error x => simp [h1] at h
    | ok r1 =>
      obtain ⟨x, st1⟩ := r1
      rw [h1] at h
      simp only at h
      cases h2 : evalE cmpF callH ρ st1 b with
      | error x => simp [h2] at h
      | ok r2 =>
        obtain ⟨y, st2⟩ := r2
        rw [h2] at h
        exact ((iha hs.1.2 ρ st x st1 h1).trans (ihb hs.2 ρ st1 y st2 h2)).trans (hN fn hs.1.1 [x, y] st2 v st' h)
  | call3 fn a b c iha ihb ihc =>
    intro hs ρ st v st' h
    simp only [nsE, Bool.and_eq_true] at hs
    simp only [evalE] at h
    cases h1 : evalE cmpF callH ρ st a with
    | error x => simp [h1] at h
    | ok r1 =>
      obtain ⟨x, st1⟩ := r1
      rw [h1] at h
      simp only at h
      cases h2 : evalE cmpF callH ρ st1 b with
      | error x => simp [h2] at h
      | ok r2 =>
        obtain ⟨y, st2⟩ := r2
        rw [h2] at h
        simp only at h
        cases h3 : evalE cmpF callH ρ st2 c with
        | error x => simp [h3] at h
        | ok r3 =>
          obtain ⟨z, st3⟩ := r3
          rw [h3] at h
          exact (((iha hs.1.1.2 ρ st x st1 h1).trans (ihb hs.1.2 ρ st1 y st2 h2)).trans
            (ihc hs.2 ρ st2 z st3 h3)).trans (hN fn hs.1.1.1 [x, y, z] st3 v st' h)
  | alloc c k v l r p ihc ihk ihv ihl ihr ihp =>
    intro hs ρ st w st' h
    simp only [nsE, Bool.and_eq_true] at hs
    simp only [evalE] at h
    cases h1 : evalE cmpF callH ρ st c with
    | error x => simp [h1] at h
    | ok r1 =>
      obtain ⟨x1, s1⟩ := r1
      rw [h1] at h
      have S1 := ihc hs.1.1.1.1.1 ρ st x1 s1 h1
      cases x1 with
      | bool c' =>
        simp only at h
        cases h2 : evalE cmpF callH ρ s1 k with
        | error x => simp [h2] at h
        | ok r2 =>
          obtain ⟨x2, s2⟩ := r2
          rw [h2] at h
          have S2 := ihk hs.1.1.1.1.2 ρ s1 x2 s2 h2
          cases x2 with
          | int k' =>
            simp only at h
            cases h3 : evalE cmpF callH ρ s2 v with
            | error x => simp [h3] at h
            | ok r3 =>
              obtain ⟨x3, s3⟩ := r3
              rw [h3] at h
              have S3 := ihv hs.1.1.1.2 ρ s2 x3 s3 h3
              cases x3 with
              | int v' =>
                simp only at h
                cases h4 : evalE cmpF callH ρ s3 l with
                | error x => simp [h4] at h
                | ok r4 =>
                  obtain ⟨x4, s4⟩ := r4
                  rw [h4] at h
                  have S4 := ihl hs.1.1.2 ρ s3 x4 s4 h4
                  cases x4 with
                  | ptr l' =>
                    simp only at h
                    cases h5 : evalE cmpF callH ρ s4 r with
                    | error x => simp [h5] at h
                    | ok r5 =>
                      obtain ⟨x5, s5⟩ := r5
                      rw [h5] at h
                      have S5 := ihr hs.1.2 ρ s4 x5 s5 h5
                      cases x5 with
                      | ptr r' =>
                        simp only at h
                        cases h6 : evalE cmpF callH ρ s5 p with
                        | error x => simp [h6] at h
                        | ok r6 =>
                          obtain ⟨x6, s6⟩ := r6
                          rw [h6] at h
                          have S6 := ihp hs.2 ρ s5 x6 s6 h6
                          cases x6 with
                          | ptr p' =>
                            simp at h; obtain ⟨_, rfl⟩ := h
                            exact ((((S1.trans S2).trans S3).trans S4).trans S5).trans S6
                          | _ => simp at h
                      | _ => simp at h
                  | _ => simp at h
              | _ => simp at h
          | _ => simp at h
      | _ => simp at h

def NGoodS (lf : Nat) (s : Stmt PName) : Prop :=
  ∀ ρ st fl ρ' st', exec cmpF callH lf ρ st s = .ok (fl, ρ', st') → SizeSame st st'

omit hN in
theorem iterate_ns {cond : Env → St → Res (Val × St)} {body : Env → St → Res (Flow × Env × St)}
    (hc : ∀ ρ st v st', cond ρ st = .ok (v, st') → SizeSame st st')
    (hb : ∀ ρ st fl ρ' st', body ρ st = .ok (fl, ρ', st') → SizeSame st st') :
    ∀ n ρ st fl ρ' st', iterate cond body n ρ st = .ok (fl, ρ', st') → SizeSame st st' := by
  intro n
  induction n with
  | zero => intro ρ st fl ρ' st' h; simp [iterate] at h
  | succ n ih =>
    intro ρ st fl ρ' st' h
    simp only [iterate] at h
    cases h1 : cond ρ st with
    | error x => simp [h1] at h
    | ok r1 =>
      obtain ⟨x, st1⟩ := r1
      rw [h1] at h
      have S1 := hc ρ st x st1 h1
      cases x with
      | bool xb =>
        cases xb with
        | false => simp at h; obtain ⟨_, _, rfl⟩ := h; exact S1
        | true =>
          simp only at h
          cases h2 : body ρ st1 with
          | error x => simp [h2] at h
          | ok r2 =>
            obtain ⟨fl2, ρ2, st2⟩ := r2
            rw [h2] at h
            have S2 := hb ρ st1 fl2 ρ2 st2 h2
            cases fl2 with
            | normal => simp only at h; exact (S1.trans S2).trans (ih ρ2 st2 fl ρ' st' h)
            | cont => simp only at h; exact (S1.trans S2).trans (ih ρ2 st2 fl ρ' st' h)
            | brk => simp at h; obtain ⟨_, _, rfl⟩ := h; exact S1.trans S2
            | ret w => simp at h; obtain ⟨_, _, rfl⟩ := h; exact S1.trans S2
      | _ => simp at h

theorem exec_ns (lf : Nat) : ∀ s : Stmt PName, nsS s = true → NGoodS cmpF callH lf s := by
  intro s
  induction s with
  | skip => intro _ ρ st fl ρ' st' h; simp [exec] at h; obtain ⟨_, _, rfl⟩ := h; exact .refl _
  | continue_ => intro _ ρ st fl ρ' st' h; simp [exec] at h; obtain ⟨_, _, rfl⟩ := h; exact .refl _
  | break_ => intro _ ρ st fl ρ' st' h; simp [exec] at h; obtain ⟨_, _, rfl⟩ := h; exact .refl _
  | seq a b iha ihb =>
    intro hs ρ st fl ρ' st' h
    simp only [nsS, Bool.and_eq_true] at hs
    simp only [exec] at h
    cases h1 : exec cmpF callH lf ρ st a with
    | error x => simp [h1] at h
    | ok r1 =>
      obtain ⟨fl1, ρ1, st1⟩ := r1
      rw [h1] at h
      have S1 := iha hs.1 ρ st fl1 ρ1 st1 h1
      cases fl1 with
      | normal => simp only at h; exact S1.trans (ihb hs.2 ρ1 st1 fl ρ' st' h)
      | cont => simp at h; obtain ⟨_, _, rfl⟩ := h; exact S1
      | brk => simp at h; obtain ⟨_, _, rfl⟩ := h; exact S1
      | ret w => simp at h; obtain ⟨_, _, rfl⟩ := h; exact S1
  | assign x e =>
    intro hs ρ st fl ρ' st' h
    simp only [nsS] at hs
    simp only [exec] at h
    cases h1 : evalE cmpF callH ρ st e with
    | error x => simp [h1] at h
    | ok r1 =>
      obtain ⟨v, st1⟩ := r1
      rw [h1] at h
      simp at h; obtain ⟨_, _, rfl⟩ := h
      exact evalE_ns cmpF callH hN e hs ρ st v st1 h1
  | setField p f e =>
    intro hs ρ st fl ρ' st' h
    simp only [nsS, Bool.and_eq_true] at hs
    simp only [exec] at h
    cases h1 : evalE cmpF callH ρ st p with
    | error x => simp [h1] at h
    | ok r1 =>
      obtain ⟨pv, st1⟩ := r1
      rw [h1] at h
      simp only at h
      cases h2 : evalE cmpF callH ρ st1 e with
      | error x => simp [h2] at h
      | ok r2 =>
        obtain ⟨v, st2⟩ := r2
        rw [h2] at h
        have S2 := (evalE_ns cmpF callH hN p hs.1 ρ st pv st1 h1).trans
          (evalE_ns cmpF callH hN e hs.2 ρ st1 v st2 h2)
        cases pv with
        | ptr q =>
          cases q with
          | none => simp at h
          | some a =>
            simp only at h
            cases h3 : (st2.h a).set f v with
            | none => simp [h3] at h
            | some n =>
              simp [h3] at h; obtain ⟨_, _, rfl⟩ := h
              exact S2
        | _ => simp at h
  | setRoot e =>
    intro hs ρ st fl ρ' st' h
    simp only [nsS] at hs
    simp only [exec] at h
    cases h1 : evalE cmpF callH ρ st e with
    | error x => simp [h1] at h
    | ok r1 =>
      obtain ⟨v, st1⟩ := r1
      rw [h1] at h
      have S1 := evalE_ns cmpF callH hN e hs ρ st v st1 h1
      cases v with
      | ptr q => simp at h; obtain ⟨_, _, rfl⟩ := h; exact S1
      | _ => simp at h
  | setSize e => intro hs; simp [nsS] at hs
  | ite c a b iha ihb =>
    intro hs ρ st fl ρ' st' h
    simp only [nsS, Bool.and_eq_true] at hs
    simp only [exec] at h
    cases h1 : evalE cmpF callH ρ st c with
    | error x => simp [h1] at h
    | ok r1 =>
      obtain ⟨v, st1⟩ := r1
      rw [h1] at h
      have S1 := evalE_ns cmpF callH hN c hs.1.1 ρ st v st1 h1
      cases v with
      | bool vb =>
        cases vb with
        | true => simp only at h; exact S1.trans (iha hs.1.2 ρ st1 fl ρ' st' h)
        | false => simp only at h; exact S1.trans (ihb hs.2 ρ st1 fl ρ' st' h)
      | _ => simp at h
  | loop c b ihb =>
    intro hs ρ st fl ρ' st' h
    simp only [nsS, Bool.and_eq_true] at hs
    simp only [exec] at h
    exact iterate_ns (fun ρ st v st' h => evalE_ns cmpF callH hN c hs.1 ρ st v st' h)
      (fun ρ st fl ρ' st' h => ihb hs.2 ρ st fl ρ' st' h) lf ρ st fl ρ' st' h
  | ret e =>
    intro hs ρ st fl ρ' st' h
    simp only [nsS] at hs
    simp only [exec] at h
    cases h1 : evalE cmpF callH ρ st e with
    | error x => simp [h1] at h
    | ok r1 =>
      obtain ⟨v, st1⟩ := r1
      rw [h1] at h
      simp at h; obtain ⟨_, _, rfl⟩ := h
      exact evalE_ns cmpF callH hN e hs ρ st v st1 h1
  | ret2 a b =>
    intro hs ρ st fl ρ' st' h
    simp only [nsS, Bool.and_eq_true] at hs
    simp only [exec] at h
    cases h1 : evalE cmpF callH ρ st a with
    | error x => simp [h1] at h
    | ok r1 =>
      obtain ⟨x, st1⟩ := r1
      rw [h1] at h
      simp only at h
      cases h2 : evalE cmpF callH ρ st1 b with
      | error x => simp [h2] at h
      | ok r2 =>
        obtain ⟨y, st2⟩ := r2
        rw [h2] at h
        simp at h; obtain ⟨_, _, rfl⟩ := h
        exact (evalE_ns cmpF callH hN a hs.1 ρ st x st1 h1).trans (evalE_ns cmpF callH hN b hs.2 ρ st1 y st2 h2)
  | expr e =>
    intro hs ρ st fl ρ' st' h
    simp only [nsS] at hs
    simp only [exec] at h
    cases h1 : evalE cmpF callH ρ st e with
    | error x => simp [h1] at h
    | ok r1 =>
      obtain ⟨v, st1⟩ := r1
      rw [h1] at h
      simp at h; obtain ⟨_, _, rfl⟩ := h
      exact evalE_ns cmpF callH hN e hs ρ st v st1 h1

theorem runBody_ns (lf : Nat) (p : Proc PName) (hs : nsS p.body = true) :
    ∀ args st v st', runBody cmpF callH lf p args st = .ok (v, st') → SizeSame st st' := by
  intro args st v st' h
  simp only [runBody] at h
  cases h1 : exec cmpF callH lf (Env.ofArgs args) st p.body with
  | error x => simp [h1] at h
  | ok r1 =>
    obtain ⟨fl, ρ1, st1⟩ := r1
    rw [h1] at h
    have S1 := exec_ns cmpF callH hN lf p.body hs _ st fl ρ1 st1 h1
    cases fl with
    | normal => simp at h; obtain ⟨_, rfl⟩ := h; exact S1
    | ret w => simp at h; obtain ⟨_, rfl⟩ := h; exact S1
    | cont => simp at h
    | brk => simp at h

end

/-- under the real call handler every procedure other than Add/addNode/Delete/deleteNode leaves the size counter untouched -/
theorem call_nosize (cmpF : Int → Int → Int) : ∀ fuel fn, isNoSize fn = true → SpecNoSize (call cmpF procs fuel) fn := by
  intro fuel
  induction fuel with
  | zero => intro fn _ args st v st' h; simp [call] at h
  | succ f ih =>
    intro fn hp args st v st' h
    exact runBody_ns cmpF _ ih f (procs fn) (nosize_procs fn hp) args st v st' h

end Ekit.MiniGo.RBHeap
