/-
Functional refinement, `Add`: the translated `Add(k, v)` computes on the entries of the heap's tree what the abstract
sorted map `Ekit.RB.SMap.step … (.add k v)` computes (C01 at the pointer level).
-/
import Ekit.Lemmas.RBPtrRBTop
import Ekit.Lemmas.RBPtrNoValue
import Ekit.MiniGo.RBFun
namespace Ekit.MiniGo.RBHeap.FunAdd
open Ekit.MiniGo Ekit.Gen.RBTreeGo Ekit.MiniGo.RBHeap
open Ekit.MiniGo.RBHeap.AddN

set_option linter.unusedSimpArgs false
set_option linter.unusedVariables false

/-! ### list level -/

theorem lookup_none_split {cmp : Int → Int → Int} (hc : Ekit.RB.LawfulCmp cmp) {k : Int} {pre post : List (Int × Int)}
    (hpre : ∀ x ∈ pre, cmp x.1 k < 0) (hpost : ∀ x ∈ post, cmp k x.1 < 0) :
    Ekit.RB.SMap.lookup cmp k (pre ++ post) = none := by
  apply Ekit.RB.SMap.lookup_none_of_ne
  intro p hp
  rcases List.mem_append.1 hp with h | h
  · have := hc.gt_of_lt (hpre p h); omega
  · have := hpost p h; omega

theorem insert_split {cmp : Int → Int → Int} (hc : Ekit.RB.LawfulCmp cmp) {k v : Int} {pre post : List (Int × Int)}
    (hpre : ∀ x ∈ pre, cmp x.1 k < 0) (hpost : ∀ x ∈ post, cmp k x.1 < 0) :
    Ekit.RB.SMap.insert cmp k v (pre ++ post) = pre ++ (k, v) :: post := by
  rw [Ekit.RB.SMap.insert_skip (fun x hx => by have := hc.gt_of_lt (hpre x hx); omega)]
  cases post with
  | nil => rfl
  | cons p rest =>
    have := hpost p (by simp)
    simp [Ekit.RB.SMap.insert, this]

theorem lookup_some_of_mem {cmp : Int → Int → Int} {k : Int} {s : List (Int × Int)} {x : Int × Int}
    (hx : x ∈ s) (h : cmp k x.1 = 0) : ∃ p, Ekit.RB.SMap.lookup cmp k s = some p := by
  cases hl : Ekit.RB.SMap.lookup cmp k s with
  | some p => exact ⟨p, rfl⟩
  | none =>
    simp only [Ekit.RB.SMap.lookup, List.find?_eq_none] at hl
    have := hl x hx
    simp [h] at this

/-! ### entries -/

theorem entries_congr {st st' : St} {t t' : PT} (ha : t'.addrs = t.addrs)
    (hkv : ∀ a ∈ t.addrs, (st'.h a).key = (st.h a).key ∧ (st'.h a).value = (st.h a).value) :
    entries st' t' = entries st t := by
  simp only [entries, ha]
  exact List.map_congr_left (fun a h => by rw [(hkv a h).1, (hkv a h).2])

/-- the new tree is the old one with a fresh node `A` carrying `(k, v)` inserted between `P` (smaller) and `Q` (greater) -/
def Ins (cmpF : Int → Int → Int) (st : St) (t : PT) (k v : Int) (st' : St) (t' : PT) : Prop :=
  ∃ A P Q, t.addrs = P ++ Q ∧ t'.addrs = P ++ A :: Q ∧
    (∀ x ∈ P, cmpF (st.h x).key k < 0) ∧ (∀ x ∈ Q, cmpF k (st.h x).key < 0) ∧
    (∀ x ∈ t.addrs, (st'.h x).key = (st.h x).key ∧ (st'.h x).value = (st.h x).value) ∧
    (st'.h A).key = k ∧ (st'.h A).value = v

/-- the same on the entries -/
def EIns (cmpF : Int → Int → Int) (k v : Int) (e e' : List (Int × Int)) : Prop :=
  ∃ pre post, e = pre ++ post ∧ e' = pre ++ (k, v) :: post ∧
    (∀ x ∈ pre, cmpF x.1 k < 0) ∧ (∀ x ∈ post, cmpF k x.1 < 0)

theorem Ins.entries {cmpF : Int → Int → Int} {st st' : St} {t t' : PT} {k v : Int}
    (h : Ins cmpF st t k v st' t') : EIns cmpF k v (entries st t) (entries st' t') := by
  obtain ⟨A, P, Q, e1, e2, hP, hQ, hkv, hk, hv⟩ := h
  refine ⟨P.map fun a => ((st.h a).key, (st.h a).value), Q.map fun a => ((st.h a).key, (st.h a).value), ?_, ?_, ?_, ?_⟩
  · simp [RBHeap.entries, e1]
  · rw [e1] at hkv
    simp only [RBHeap.entries, e2, List.map_append, List.map_cons, hk, hv]
    congr 1
    · exact List.map_congr_left (fun a h => by rw [(hkv a (by simp [h])).1, (hkv a (by simp [h])).2])
    · congr 1
      exact List.map_congr_left (fun a h => by rw [(hkv a (by simp [h])).1, (hkv a (by simp [h])).2])
  · intro x hx
    obtain ⟨a, ha, rfl⟩ := List.mem_map.1 hx
    exact hP a ha
  · intro x hx
    obtain ⟨a, ha, rfl⟩ := List.mem_map.1 hx
    exact hQ a ha

theorem Ins.congr_left {cmpF : Int → Int → Int} {st0 st st' : St} {t t' : PT} {k v : Int}
    (hs : ∀ x ∈ t.addrs, st.h x = st0.h x) (h : Ins cmpF st t k v st' t') : Ins cmpF st0 t k v st' t' := by
  obtain ⟨A, P, Q, e1, e2, hP, hQ, hkv, hk, hv⟩ := h
  refine ⟨A, P, Q, e1, e2, fun x hx => ?_, fun x hx => ?_, fun x hx => ?_, hk, hv⟩
  · rw [← hs x (by simp [e1, hx])]; exact hP x hx
  · rw [← hs x (by simp [e1, hx])]; exact hQ x hx
  · rw [← hs x hx]; exact hkv x hx

/-! ### heap level: linking the fresh leaf -/

theorem link_left_fun {cmpF : Int → Int → Int} {st : St} {t : PT} {p : Nat} {k v : Int} {P Q : List Nat}
    (hH : Holds st t)
    (e1 : t.addrs = P ++ p :: Q) (hl : (st.h p).left = none) (h' : Nat → Node) (sz : Int)
    (hf' : (h' st.alloc).left = none ∧ (h' st.alloc).right = none ∧ (h' st.alloc).parent = some p)
    (hp' : (h' p).left = some st.alloc ∧ (h' p).right = (st.h p).right ∧ (h' p).parent = (st.h p).parent)
    (hoth : ∀ b, b ≠ p → b ≠ st.alloc → h' b = st.h b)
    (hkv : ∀ x ∈ t.addrs, (h' x).key = (st.h x).key ∧ (h' x).value = (st.h x).value)
    (hA : (h' st.alloc).key = k ∧ (h' st.alloc).value = v)
    (hP : ∀ x ∈ P, cmpF (st.h x).key k < 0) (hp : cmpF k (st.h p).key < 0)
    (hQ : ∀ x ∈ Q, cmpF k (st.h x).key < 0) :
    ∃ t', Holds ⟨h', st.alloc + 1, st.root, sz⟩ t' ∧ Ins cmpF st t k v ⟨h', st.alloc + 1, st.root, sz⟩ t' ∧
      st.alloc ∈ t'.addrs := by
  have hpm : p ∈ t.addrs := by rw [e1]; simp
  obtain ⟨t', ht', hA', pre, post, f1, f2⟩ := link_left' hH hpm hl h' sz hf' hp' hoth
  have hnd := hH.2.1
  rw [e1] at hnd
  obtain ⟨rfl, rfl⟩ := split_unique hnd (e1.symm.trans f1)
  refine ⟨t', ht', ⟨st.alloc, P, p :: Q, e1, f2, hP, fun x hx => ?_, hkv, hA.1, hA.2⟩, hA'⟩
  rcases List.mem_cons.1 hx with hx | hx
  · rw [hx]; exact hp
  · exact hQ x hx

theorem link_right_fun {cmpF : Int → Int → Int} {st : St} {t : PT} {p : Nat} {k v : Int} {P Q : List Nat}
    (hH : Holds st t)
    (e1 : t.addrs = P ++ p :: Q) (hl : (st.h p).right = none) (h' : Nat → Node) (sz : Int)
    (hf' : (h' st.alloc).left = none ∧ (h' st.alloc).right = none ∧ (h' st.alloc).parent = some p)
    (hp' : (h' p).right = some st.alloc ∧ (h' p).left = (st.h p).left ∧ (h' p).parent = (st.h p).parent)
    (hoth : ∀ b, b ≠ p → b ≠ st.alloc → h' b = st.h b)
    (hkv : ∀ x ∈ t.addrs, (h' x).key = (st.h x).key ∧ (h' x).value = (st.h x).value)
    (hA : (h' st.alloc).key = k ∧ (h' st.alloc).value = v)
    (hP : ∀ x ∈ P, cmpF (st.h x).key k < 0) (hp : cmpF (st.h p).key k < 0)
    (hQ : ∀ x ∈ Q, cmpF k (st.h x).key < 0) :
    ∃ t', Holds ⟨h', st.alloc + 1, st.root, sz⟩ t' ∧ Ins cmpF st t k v ⟨h', st.alloc + 1, st.root, sz⟩ t' ∧
      st.alloc ∈ t'.addrs := by
  have hpm : p ∈ t.addrs := by rw [e1]; simp
  obtain ⟨t', ht', hA', pre, post, f1, f2⟩ := link_right' hH hpm hl h' sz hf' hp' hoth
  have hnd := hH.2.1
  rw [e1] at hnd
  obtain ⟨rfl, rfl⟩ := split_unique hnd (e1.symm.trans f1)
  refine ⟨t', ht', ⟨st.alloc, P ++ [p], Q, by simp [e1], by simp [f2], fun x hx => ?_, hQ, hkv, hA.1, hA.2⟩, hA'⟩
  rcases List.mem_append.1 hx with hx | hx
  · exact hP x hx
  · simp at hx; rw [hx]; exact hp

/-! ### the pieces of `body_addNode` -/

section
variable (cmpF : Int → Int → Int) (callH : CallH PName) (lf : Nat)

/-- the early exit of the descent loop: the cursor stands on a node whose key compares equal -/
theorem loop_dup (st : St) (t : PT) (hH : Holds st t) (m : Nat) :
    ∀ n (ρ : Env) q, ρ 0 = .ptr (some m) → ρ 2 = .ptr q → (∀ a, q = some a → a ∈ t.addrs) →
      ∀ fl ρ' st',
      iterate (fun ρ st => evalE cmpF callH ρ st loopC) (fun ρ st => exec cmpF callH lf ρ st loopB) n ρ st
        = .ok (fl, ρ', st') →
      fl = .normal ∨ (fl = .ret (.err 1) ∧ ∃ a ∈ t.addrs, cmpF (st.h m).key (st.h a).key = 0) := by
  intro n
  induction n with
  | zero => intro ρ q h0 h2 hq fl ρ' st' h; simp [iterate] at h
  | succ n ih =>
    intro ρ q h0 h2 hq fl ρ' st' h
    simp only [iterate, cond_eval cmpF callH ρ st q h2] at h
    cases q with
    | none =>
      simp at h
      obtain ⟨rfl, rfl, rfl⟩ := h
      exact .inl rfl
    | some a =>
      have ha := hq a rfl
      obtain ⟨fl1, fl2, _⟩ := repr_fields hH.1 a ha
      have hb : (!(some a == (none : Option Nat))) = true := rfl
      simp only [hb, body_eval0 cmpF callH lf ρ st m a h0 h2] at h
      generalize hc : cmpF (st.h m).key (st.h a).key = c at h
      by_cases h1 : c < 0
      · simp only [if_pos h1] at h
        exact ih _ (st.h a).left (by simp [set_apply, h0]) (by simp [set_apply]) (fun b hb => fl1 b hb)
          fl ρ' st' h
      · simp only [if_neg h1] at h
        by_cases h3 : c > 0
        · simp only [if_pos h3] at h
          exact ih _ (st.h a).right (by simp [set_apply, h0]) (by simp [set_apply]) (fun b hb => fl2 b hb)
            fl ρ' st' h
        · simp only [if_neg h3] at h
          have h4 : c = 0 := by omega
          simp only [if_pos h4] at h
          simp at h
          obtain ⟨rfl, rfl, rfl⟩ := h
          exact .inr ⟨rfl, a, ha, hc.trans h4⟩

theorem after_fun (ρ : Env) (st : St) (t : PT) (m : Nat) (hH : Holds st t)
    (h0 : ρ 0 = .ptr (some m))
    (hg : Good2 cmpF t (st.h m).key ρ st) (fl : Flow) (ρ' : Env) (st' : St)
    (h : exec cmpF callH lf ρ st afterL = .ok (fl, ρ', st')) :
    fl = .normal ∧ ∃ t', Holds st' t' ∧ Ins cmpF st t (st.h m).key (st.h m).value st' t' ∧ PtrIn t'.addrs (ρ' 1) := by
  obtain ⟨p, c, P, Q, h4, h3, he, hP, hQ, hl, hr⟩ := hg
  have hp : p ∈ t.addrs := by rw [he]; simp
  have hpA : p ≠ st.alloc := Nat.ne_of_lt (hH.2.2 p hp)
  simp only [afterL, exec, evalE, set_apply, h0, h4, h3, Node.get] at h
  simp [h0, h4, h3] at h
  by_cases h1 : c < 0
  · simp [h1, Node.set] at h
    obtain ⟨rfl, rfl, rfl⟩ := h
    refine ⟨rfl, ?_⟩
    simp only [set_apply, PtrIn, if_true]
    refine link_left_fun hH he (hl h1).1 _ _ (by simp [upd, hpA.symm])
      (by simp [upd, hpA]) (fun b hb1 hb2 => by simp [upd, hb1, hb2]) (fun x hx => ?_) (by simp [upd, hpA.symm])
      hP (hl h1).2 hQ
    have hxA : x ≠ st.alloc := Nat.ne_of_lt (hH.2.2 x hx)
    by_cases hxp : x = p
    · subst hxp; simp [upd, hxA]
    · simp [upd, hxA, hxp]
  · simp [h1, Node.set] at h
    obtain ⟨rfl, rfl, rfl⟩ := h
    refine ⟨rfl, ?_⟩
    simp only [set_apply, PtrIn, if_true]
    refine link_right_fun hH he (hr h1).1 _ _ (by simp [upd, hpA.symm])
      (by simp [upd, hpA]) (fun b hb1 hb2 => by simp [upd, hb1, hb2]) (fun x hx => ?_) (by simp [upd, hpA.symm])
      hP (hr h1).2 hQ
    have hxA : x ≠ st.alloc := Nat.ne_of_lt (hH.2.2 x hx)
    by_cases hxp : x = p
    · subst hxp; simp [upd, hxA]
    · simp [upd, hxA, hxp]

/-- what the duplicate exit leaves: the same tree, no node of it touched, and a node whose key compares equal -/
def Dup (cmpF : Int → Int → Int) (st : St) (t : PT) (k : Int) (st' : St) (t' : PT) : Prop :=
  t' = t ∧ (∀ x ∈ t.addrs, st'.h x = st.h x) ∧ ∃ a ∈ t.addrs, cmpF k (st.h a).key = 0

theorem else_fun (hLaw : Ekit.RB.LawfulCmp cmpF) (ρ : Env) (st : St) (t : PT) (m : Nat) (hH : Holds st t)
    (hO : Ordered cmpF st t) (hroot : st.root ≠ none) (hm : m < st.alloc)
    (h0 : ρ 0 = .ptr (some m)) (fl : Flow) (ρ' : Env) (st' : St)
    (h : exec cmpF callH lf ρ st elseB = .ok (fl, ρ', st')) :
    ∃ t', Holds st' t' ∧
      (fl = .normal → Ins cmpF st t (st.h m).key (st.h m).value st' t' ∧ PtrIn t'.addrs (ρ' 1)) ∧
      (fl ≠ .normal → fl = .ret (.err 1) ∧ Dup cmpF st t (st.h m).key st' t') := by
  simp only [elseB, exec, evalE] at h
  have hH1 : Holds ⟨upd st.h st.alloc {}, st.alloc + 1, st.root, st.size⟩ t := holds_alloc hH {} st.size
  have hsame : ∀ x, x < st.alloc → upd st.h st.alloc {} x = st.h x := by
    intro x hx
    have hne : x ≠ st.alloc := Nat.ne_of_lt hx
    simp [upd, hne]
  have hsameT : ∀ x ∈ t.addrs, upd st.h st.alloc {} x = st.h x := fun x hx => hsame x (hH.2.2 x hx)
  have hO1 : Ordered cmpF ⟨upd st.h st.alloc {}, st.alloc + 1, st.root, st.size⟩ t := by
    refine ordered_congr (fun a ha => ?_) hO
    show (upd st.h st.alloc {} a).key = _
    rw [hsameT a ha]
  have hq : ∀ a, st.root = some a → a ∈ t.addrs := by
    intro a ha
    have := repr_ptr hH.1
    rw [ha] at this
    cases t with
    | leaf => simp [PT.ptr] at this
    | node l b r => simp [PT.ptr] at this; subst this; simp [PT.addrs]
  have hinv := loop_inv2 cmpF callH lf hLaw _ t hO1 m lf
    (((ρ.set 2 (.ptr st.root)).set 3 (.int 0)).set 4 (.ptr (some st.alloc))) st.root
    (by simp [set_apply, h0]) (by simp [set_apply])
    ⟨t, none, [], [], hH1.1, by simp, fun _ hx => by simp at hx, fun _ hx => by simp at hx⟩
    (fun hn => absurd hn hroot)
  have hdup := loop_dup cmpF callH lf _ t hH1 m lf
    (((ρ.set 2 (.ptr st.root)).set 3 (.int 0)).set 4 (.ptr (some st.alloc))) st.root
    (by simp [set_apply, h0]) (by simp [set_apply]) hq
  have hmm : (upd st.h st.alloc {} m) = st.h m := hsame m hm
  split at h
  · rename_i ρ1 st1 heq
    obtain ⟨rfl, hg⟩ := hinv _ _ _ heq
    obtain ⟨hgood, h0'⟩ := hg rfl
    obtain ⟨hfl, t', ht', hI, hp⟩ := after_fun cmpF callH lf _ _ t m hH1 h0' hgood _ _ _ h
    refine ⟨t', ht', fun _ => ⟨?_, hp⟩, fun hf => absurd hfl hf⟩
    have := Ins.congr_left (st0 := st) hsameT hI
    simp only [hmm] at this
    exact this
  · rename_i r hne heq
    cases h
    obtain ⟨rfl, _⟩ := hinv _ _ _ heq
    refine ⟨t, hH1, fun hf => absurd rfl (hf ▸ hne _ _), fun _ => ?_⟩
    rcases hdup _ _ _ heq with hn | ⟨hr, a, ha, hc⟩
    · exact absurd rfl (hn ▸ hne _ _)
    · refine ⟨hr, rfl, hsameT, a, ha, ?_⟩
      simp only [hmm, hsameT a ha] at hc
      exact hc
  · cases h

end

/-! ### the callees under the real handler -/

theorem call_new (cmpF : Int → Int → Int) : ∀ fuel k v st x st',
    call cmpF procs fuel .newRBNode [.int k, .int v] st = .ok (x, st') →
    x = .ptr (some st.alloc) ∧ st'.alloc = st.alloc + 1 ∧ st'.root = st.root ∧
      (∀ a, a ≠ st.alloc → st'.h a = st.h a) ∧
      (st'.h st.alloc).key = k ∧ (st'.h st.alloc).value = v ∧
      (st'.h st.alloc).left = none ∧ (st'.h st.alloc).right = none ∧ (st'.h st.alloc).parent = none := by
  intro fuel k v st x st' h
  cases fuel with
  | zero => simp [call] at h
  | succ f =>
    simp only [call, runBody, procs, body_newRBNode, exec, evalE, Env.ofArgs, List.getD] at h
    simp at h
    obtain ⟨rfl, rfl⟩ := h
    refine ⟨rfl, rfl, rfl, fun a ha => by simp [upd, ha], ?_, ?_, ?_, ?_, ?_⟩ <;> simp [upd]

section
variable (cmpF : Int → Int → Int) (g : Nat)

theorem then_fun (ρ : Env) (st : St) (t : PT) (m : Nat) (hH : Holds st t) (hroot : st.root = none)
    (hm : m < st.alloc)
    (h0 : ρ 0 = .ptr (some m)) (fl : Flow) (ρ' : Env) (st' : St)
    (h : exec cmpF (call cmpF procs g) g ρ st thenB = .ok (fl, ρ', st')) :
    fl = .normal ∧ ∃ t', Holds st' t' ∧ Ins cmpF st t (st.h m).key (st.h m).value st' t' ∧ PtrIn t'.addrs (ρ' 1) := by
  simp only [thenB, exec, evalE, h0, Node.get] at h
  cases hc : call cmpF procs g PName.newRBNode [Val.int (st.h m).key, Val.int (st.h m).value] st with
  | error e => rw [hc] at h; simp at h
  | ok r =>
    obtain ⟨v, s1⟩ := r
    rw [hc] at h
    obtain ⟨rfl, hal, hrt, hfr, hk, hv, f1, f2, f3⟩ := call_new cmpF g _ _ st v s1 hc
    simp at h
    obtain ⟨rfl, rfl, rfl⟩ := h
    have ht : t = .leaf := holds_root_none hH hroot
    subst ht
    refine ⟨rfl, .node .leaf st.alloc .leaf, ⟨?_, ?_, ?_⟩, ?_, ?_⟩
    · simp [Repr, f1, f2, f3]
    · simp [PT.addrs]
    · simp [PT.addrs, hal]
    · exact ⟨st.alloc, [], [], by simp [PT.addrs], by simp [PT.addrs], fun _ hx => by simp at hx,
        fun _ hx => by simp at hx, fun _ hx => by simp [PT.addrs] at hx, hk, hv⟩
    · simp [set_apply, PtrIn, PT.addrs]

theorem tail_fun (ρ : Env) (st : St) (t : PT) (hH : Holds st t) (hp : PtrIn t.addrs (ρ 1))
    (fl : Flow) (ρ' : Env) (st' : St)
    (h : exec cmpF (call cmpF procs g) g ρ st tailS = .ok (fl, ρ', st')) :
    fl = .ret (.ptr none) ∧ ∃ t', Holds st' t' ∧ t'.addrs = t.addrs ∧
      ∀ a, (st'.h a).key = (st.h a).key ∧ (st'.h a).value = (st.h a).value := by
  simp only [tailS, exec, evalE] at h
  cases hc : call cmpF procs g PName.fixAfterAdd [ρ 1] { st with size := st.size + 1 } with
  | error e => rw [hc] at h; simp at h
  | ok r =>
    obtain ⟨v, s1⟩ := r
    rw [hc] at h
    simp at h
    obtain ⟨rfl, _, rfl⟩ := h
    have hH' : Holds { st with size := st.size + 1 } t := hH
    obtain ⟨t', ht', hpres, _⟩ := call_specK cmpF g .fixAfterAdd rfl _ _ _ _ t hH' (by simpa using hp) hc
    have hval := call_noval cmpF g .fixAfterAdd rfl _ _ _ _ hc
    exact ⟨rfl, t', ht', hpres.addrs, fun a => ⟨hpres.keys a, hval a⟩⟩

/-- `addNode(m)` on the entries: either the entry of `m` is inserted at its place, or a node with an equal key exists and
    nothing of the tree changes -/
theorem addNode_fun (hLaw : Ekit.RB.LawfulCmp cmpF) :
    ∀ n st v st' t, Holds st t → Ordered cmpF st t → n < st.alloc →
      runBody cmpF (call cmpF procs g) g (procs .addNode) [.ptr (some n)] st = .ok (v, st') →
      ∃ t', Holds st' t' ∧
        ((v = .ptr none ∧ EIns cmpF (st.h n).key (st.h n).value (entries st t) (entries st' t')) ∨
         (v = .err 1 ∧ Dup cmpF st t (st.h n).key st' t')) := by
  intro n st v st' t hH hO hn h
  simp only [runBody, procs, body_addNode_eq, exec, evalE] at h
  have h0 : ((Env.ofArgs [Val.ptr (some n)]).set 1 (Val.ptr none)) 0 = .ptr (some n) := by
    simp [set_apply, Env.ofArgs]
  have hmid : ∀ fl ρ' s', exec cmpF (call cmpF procs g) g ((Env.ofArgs [Val.ptr (some n)]).set 1 (Val.ptr none)) st midS
        = .ok (fl, ρ', s') →
      ∃ t', Holds s' t' ∧
        (fl = .normal → Ins cmpF st t (st.h n).key (st.h n).value s' t' ∧ PtrIn t'.addrs (ρ' 1)) ∧
        (fl ≠ .normal → fl = .ret (.err 1) ∧ Dup cmpF st t (st.h n).key s' t') := by
    intro fl ρ' s' hEq
    simp only [midS, exec, evalE] at hEq
    cases hr : st.root with
    | none =>
      simp [valEq, hr] at hEq
      obtain ⟨hfl, t', ht', hI, hp⟩ := then_fun cmpF g _ st t n hH hr hn h0 _ _ _ hEq
      exact ⟨t', ht', fun _ => ⟨hI, hp⟩, fun hf => absurd hfl hf⟩
    | some a =>
      simp [valEq, hr] at hEq
      exact else_fun cmpF _ g hLaw _ st t n hH hO (by simp [hr]) hn h0 _ _ _ hEq
  generalize exec cmpF (call cmpF procs g) g ((Env.ofArgs [Val.ptr (some n)]).set 1 (Val.ptr none)) st midS = E at h hmid
  match E, hmid with
  | .error e, _ => simp at h
  | .ok (fl, ρ1, s1), hmid =>
    obtain ⟨t1, hH1, hN1, hD1⟩ := hmid _ _ _ rfl
    cases fl with
    | normal =>
      simp only at h
      obtain ⟨hI, hp1⟩ := hN1 rfl
      cases hx : exec cmpF (call cmpF procs g) g ρ1 s1 tailS with
      | error e => rw [hx] at h; simp at h
      | ok r =>
        obtain ⟨fl2, ρ2, s2⟩ := r
        obtain ⟨hfl2, t2, hH2, ha2, hkv2⟩ := tail_fun cmpF g ρ1 s1 t1 hH1 hp1 _ _ _ hx
        rw [hx] at h
        subst hfl2
        simp at h
        obtain ⟨rfl, rfl⟩ := h
        refine ⟨t2, hH2, .inl ⟨rfl, ?_⟩⟩
        rw [entries_congr ha2 (fun a _ => hkv2 a)]
        exact hI.entries
    | cont => simp at h
    | brk => simp at h
    | ret w =>
      simp at h
      obtain ⟨rfl, rfl⟩ := h
      obtain ⟨hw, hD⟩ := hD1 (by simp)
      cases hw
      exact ⟨t1, hH1, .inr ⟨rfl, hD⟩⟩

end

/-! ### `Add` -/

theorem add_refines (cmpF : Int → Int → Int) (hLaw : Ekit.RB.LawfulCmp cmpF) :
    ∀ fuel k v st r st' t, Holds st t → Ordered cmpF st t →
      call cmpF procs fuel .Add [.int k, .int v] st = .ok (r, st') →
      ∃ t', Holds st' t' ∧ entries st' t' = (Ekit.RB.SMap.step cmpF (entries st t) (.add k v)).1 ∧
        RetIs (Ekit.RB.SMap.step cmpF (entries st t) (.add k v)).2 r := by
  intro fuel k v st r st' t hH hO h
  cases fuel with
  | zero => simp [call] at h
  | succ f =>
    simp only [call, runBody, procs, body_Add, exec, evalE, Env.ofArgs, List.getD] at h
    cases h1 : call cmpF procs f .newRBNode [Val.int k, Val.int v] st with
    | error e => simp [h1] at h
    | ok r1 =>
      obtain ⟨x, st1⟩ := r1
      simp [h1] at h
      obtain ⟨n, hxn, _, _, H1, _⟩ := call_newRBNode cmpF f _ st x st1 t hH h1
      obtain ⟨rfl, hal, _, hfr, hk, hv, _⟩ := call_new cmpF f k v st x st1 h1
      cases hxn
      have hsameT : ∀ a ∈ t.addrs, st1.h a = st.h a := fun a ha =>
        hfr a (fun e => Nat.lt_irrefl _ (e ▸ hH.2.2 a ha))
      have O1 : Ordered cmpF st1 t := ordered_congr (fun a ha => by rw [hsameT a ha]) hO
      have E1 : entries st1 t = entries st t := entries_congr rfl (fun a ha => by rw [hsameT a ha]; exact ⟨rfl, rfl⟩)
      cases h2 : call cmpF procs f .addNode [Val.ptr (some st.alloc)] st1 with
      | error e => simp [h2] at h
      | ok r2 =>
        obtain ⟨y, st2⟩ := r2
        simp [h2] at h
        obtain ⟨rfl, rfl⟩ := h
        cases f with
        | zero => simp [call] at h2
        | succ g =>
          obtain ⟨t2, H2, hcase⟩ := addNode_fun cmpF g hLaw st.alloc st1 y st2 t H1 O1 (by omega) h2
          refine ⟨t2, H2, ?_⟩
          rw [hk, hv, E1] at hcase
          rcases hcase with ⟨rfl, pre, post, e1, e2, hpre, hpost⟩ | ⟨rfl, ht, hs, a, ha, hc⟩
          · have hl : Ekit.RB.SMap.lookup cmpF k (entries st t) = none := by
              rw [e1]; exact lookup_none_split hLaw hpre hpost
            simp only [Ekit.RB.SMap.step, hl]
            refine ⟨?_, rfl⟩
            rw [e2, e1, insert_split hLaw hpre hpost]
          · have hmem : ((st1.h a).key, (st1.h a).value) ∈ entries st t := by
              rw [← E1]; exact List.mem_map.2 ⟨a, ha, rfl⟩
            obtain ⟨p, hl⟩ := lookup_some_of_mem (cmp := cmpF) (k := k) hmem hc
            simp only [Ekit.RB.SMap.step, hl]
            refine ⟨?_, rfl⟩
            rw [← E1, ht]
            exact entries_congr rfl (fun a ha => by rw [hs a ha]; exact ⟨rfl, rfl⟩)

end Ekit.MiniGo.RBHeap.FunAdd

