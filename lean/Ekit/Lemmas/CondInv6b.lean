/- Preservation of the structural invariant of the Cond model, part 6b: an enqueued waiter stays
   reachable (linked, or token in its channel, or being sent to). -/
import Ekit.Lemmas.CondInv2
namespace Ekit.Cond
open Ekit.Conc
variable {s s' : State} {l : Label}

set_option maxHeartbeats 1000000 in
theorem must_step_B (h : Inv s) (hs : step s l = some s') (hg : l.grpA = false) :
    ∀ t n, (s'.pc t).node = some n → (s'.pc t).listPc = true →
      n ∈ s'.list ∨ n ∈ s'.full ∨ s'.tgt = some n := by
  have h1 := h.mutex; have h2 := h.muHeld; have h3 := h.own; have h4 := h.must
  have h9 := tgt_eq s; have h10 := tgt_none s
  step_cases_grp hs hg <;> intro u n <;> simp only [State.tgt, upd_apply] <;> (repeat' split) <;>
    grind [Pc.inMu, Pc.node, Pc.listPc, Pc.target, bodyStart_node, bodyStart_target]
end Ekit.Cond
