/-
One-step refinement lemmas for C01: each public call of the tree-backed containers, executed on
the model, returns what the abstract map returns and leaves the abstract map's contents.
-/
import Ekit.Lemmas.RBList

namespace Ekit.RB
variable {α β : Type} {cmp : α → α → Int}

/-- in-order keys strictly ascending w.r.t. the comparator -/
def Tree.Ordered (cmp : α → α → Int) (t : Tree α β) : Prop := SMap.Sorted cmp t.toList

/-- well-formed container state: ordered tree whose size counter is the number of entries -/
structure RBTree.WF (cmp : α → α → Int) (t : RBTree α β) : Prop where
  ordered : t.root.Ordered cmp
  size_eq : t.size = t.root.toList.length

theorem RBTree.wf_empty : (RBTree.empty : RBTree α β).WF cmp :=
  ⟨List.Pairwise.nil, rfl⟩

namespace Tree

theorem insert_spec (hc : LawfulCmp cmp) (k : α) (v : β) (t : Tree α β) (ho : t.Ordered cmp) :
    match insert cmp t k v with
    | none => (SMap.lookup cmp k t.toList).isSome
    | some t' => SMap.lookup cmp k t.toList = none ∧ t'.toList = SMap.insert cmp k v t.toList := by
  have := ins_toList hc k v t ho
  unfold insert
  cases hi : ins cmp k v t with
  | none => simpa [hi] using this
  | some t' => simpa [hi] using this

theorem delete_spec (hc : LawfulCmp cmp) (k : α) (t : Tree α β) (ho : t.Ordered cmp) :
    match delete cmp t k with
    | none => SMap.lookup cmp k t.toList = none
    | some (x, t') => (∃ p, SMap.lookup cmp k t.toList = some p ∧ p.2 = x) ∧
        t'.toList = SMap.erase cmp k t.toList := by
  have := del_toList hc k t ho
  unfold delete
  cases hi : del cmp k t with
  | none => simpa [hi] using this
  | some xr =>
    obtain ⟨x, res⟩ := xr
    simpa [hi] using this

theorem find_spec (hc : LawfulCmp cmp) (k : α) (t : Tree α β) (ho : t.Ordered cmp) :
    find cmp k t = (SMap.lookup cmp k t.toList).map (·.2) := by
  simp [find, findEntry_eq_lookup hc k t ho]

end Tree

/-! ### RBTree -/
theorem RBTree.step_refines (hc : LawfulCmp cmp) (t : RBTree α β) (hw : t.WF cmp) (op : TreeOp α β) :
    ((t.step cmp op).1.root.toList, (t.step cmp op).2) = SMap.step cmp t.root.toList op ∧
    (t.step cmp op).1.WF cmp := by
  obtain ⟨ho, hsz⟩ := hw
  cases op with
  | add k v =>
    have := Tree.insert_spec hc k v t.root ho
    simp only [RBTree.step, SMap.step]
    cases hi : Tree.insert cmp t.root k v with
    | none =>
      simp only [hi] at this ⊢
      cases hl : SMap.lookup cmp k t.root.toList with
      | none => simp [hl] at this
      | some p => exact ⟨rfl, ho, hsz⟩
    | some t' =>
      simp only [hi] at this ⊢
      obtain ⟨h1, h2⟩ := this
      simp only [h1, h2, true_and]
      refine ⟨?_, ?_⟩
      · show SMap.Sorted cmp t'.toList
        rw [h2]; exact SMap.sorted_insert hc ho h1
      · simp only [h2, SMap.length_insert, hsz]; omega
  | set k v =>
    have := Tree.set_toList hc k v t.root ho
    simp only [RBTree.step, SMap.step]
    cases hi : Tree.set cmp k v t.root with
    | none =>
      simp only [hi] at this ⊢
      exact ⟨by simp [this], ho, hsz⟩
    | some t' =>
      simp only [hi] at this ⊢
      obtain ⟨h1, h2⟩ := this
      cases hl : SMap.lookup cmp k t.root.toList with
      | none => simp [hl] at h1
      | some p =>
        simp only [h2, true_and]
        refine ⟨?_, ?_⟩
        · show SMap.Sorted cmp t'.toList
          rw [h2]; exact SMap.sorted_update ho
        · simp only [h2, SMap.length_update, hsz]
  | find k =>
    have := Tree.find_spec hc k t.root ho
    simp only [RBTree.step, SMap.step, this]
    cases hl : SMap.lookup cmp k t.root.toList with
    | none => exact ⟨rfl, ho, hsz⟩
    | some p => exact ⟨rfl, ho, hsz⟩
  | delete k =>
    have := Tree.delete_spec hc k t.root ho
    simp only [RBTree.step, SMap.step]
    cases hi : Tree.delete cmp t.root k with
    | none =>
      simp only [hi] at this ⊢
      exact ⟨by simp [this], ho, hsz⟩
    | some xt =>
      obtain ⟨x, t'⟩ := xt
      simp only [hi] at this ⊢
      obtain ⟨⟨p, hp, hx⟩, h2⟩ := this
      simp only [hp, h2, hx, true_and]
      refine ⟨?_, ?_⟩
      · show SMap.Sorted cmp t'.toList
        rw [h2]; exact SMap.sorted_erase ho
      · simp only [h2, SMap.length_erase hp, hsz]
  | keyValues => exact ⟨rfl, ho, hsz⟩
  | size => exact ⟨by simp [RBTree.step, SMap.step, hsz], ho, hsz⟩

/-! ### TreeMap -/
theorem TreeMap.step_refines (hc : LawfulCmp cmp) (t : RBTree α β) (hw : t.WF cmp) (op : MapOp α β) :
    ((TreeMap.step cmp t op).1.root.toList, (TreeMap.step cmp t op).2) = SMap.mstep cmp t.root.toList op ∧
    (TreeMap.step cmp t op).1.WF cmp := by
  cases op with
  | put k v =>
    have ha := RBTree.step_refines hc t hw (.add k v)
    have hs := RBTree.step_refines hc t hw (.set k v)
    simp only [TreeMap.step, SMap.mstep]
    simp only [SMap.step] at ha hs
    cases hl : SMap.lookup cmp k t.root.toList with
    | none =>
      simp only [hl] at ha
      obtain ⟨ha1, ha2⟩ := ha
      have e2 : (t.step cmp (.add k v)).2 = .ok := (Prod.mk.inj ha1).2
      have e1 := (Prod.mk.inj ha1).1
      generalize t.step cmp (.add k v) = q at e1 e2 ha2 ⊢
      obtain ⟨q1, q2⟩ := q
      simp only at e1 e2 ha2
      subst e2
      exact ⟨by simp [e1], ha2⟩
    | some p =>
      simp only [hl] at ha hs
      obtain ⟨ha1, _⟩ := ha
      obtain ⟨hs1, hs2⟩ := hs
      have e2 : (t.step cmp (.add k v)).2 = .errDup := (Prod.mk.inj ha1).2
      -- a failed Add returns the identical tree
      have e0 : (t.step cmp (.add k v)).1 = t := by
        simp only [RBTree.step] at e2 ⊢
        cases hi : Tree.insert cmp t.root k v with
        | none => rfl
        | some t' => simp [hi] at e2
      generalize t.step cmp (.add k v) = q at e2 e0 ⊢
      obtain ⟨q1, q2⟩ := q
      simp only at e2 e0
      subst e2 e0
      exact ⟨hs1, hs2⟩
  | get k =>
    have hf := RBTree.step_refines hc t hw (.find k)
    simp only [TreeMap.step, SMap.mstep]
    simp only [SMap.step] at hf
    cases hl : SMap.lookup cmp k t.root.toList with
    | none =>
      simp only [hl] at hf
      obtain ⟨h1, h2⟩ := hf
      have e2 := (Prod.mk.inj h1).2
      have e1 := (Prod.mk.inj h1).1
      generalize t.step cmp (.find k) = q at e1 e2 h2
      obtain ⟨q1, q2⟩ := q
      simp only at e1 e2 h2
      subst e2
      exact ⟨by simp [e1], h2⟩
    | some p =>
      simp only [hl] at hf
      obtain ⟨h1, h2⟩ := hf
      have e2 := (Prod.mk.inj h1).2
      have e1 := (Prod.mk.inj h1).1
      generalize t.step cmp (.find k) = q at e1 e2 h2
      obtain ⟨q1, q2⟩ := q
      simp only at e1 e2 h2
      subst e2
      exact ⟨by simp [e1], h2⟩
  | delete k =>
    have hd := RBTree.step_refines hc t hw (.delete k)
    simpa only [TreeMap.step, SMap.mstep, SMap.step] using hd
  | keys => exact ⟨rfl, hw⟩
  | values => exact ⟨rfl, hw⟩
  | len => exact ⟨by simp [TreeMap.step, SMap.mstep, hw.size_eq], hw⟩

end Ekit.RB
