/-
Sequential behaviour of the retry strategies: the invariant carried from call to call and the
single-step lemma from which the C19 sequential theorems follow.
-/
import Ekit.Lemmas.RetryArith

namespace Ekit.Retry

/-- what the constructors guarantee (all fields are Go values, so `max ≤ MaxInt64`) -/
structure Valid (cfg : Cfg) : Prop where
  pos : 0 < cfg.initial
  le : cfg.initial ≤ cfg.max
  max64 : cfg.max ≤ maxInt64

/-- the one configuration in which the out-of-range conversion result is itself a legal interval:
    `initial = 1ns`, `max = MaxInt64`, saturating architecture -/
def Special (cfg : Cfg) : Prop := cfg.arch = .satMax ∧ cfg.initial = 1 ∧ cfg.max = maxInt64

def allGranted (cfg : Cfg) (k : Nat) : Prop := cfg.maxRetries ≤ 0 ∨ (k : Int) ≤ cfg.maxRetries

theorem budgetOk_iff (cfg : Cfg) (k : Nat) : budgetOk cfg (k : Int) = true ↔ allGranted cfg k := by
  simp [budgetOk, allGranted]

theorem granted_eq_budgetOk (cfg : Cfg) (k : Nat) : Spec.granted cfg.maxRetries k = budgetOk cfg (k : Int) := rfl

theorem allGranted_pred {cfg : Cfg} {k : Nat} (h : allGranted cfg (k + 1)) : allGranted cfg k := by
  unfold allGranted at *; omega

/-- The arithmetic heart of `Next` on the exponential strategy, call number `k+1`, flag not yet set. -/
theorem exp_step (cfg : Cfg) (hv : Valid cfg) (k : Nat) (hk : k + 1 < 2147483648)
    (hF : k = 0 ∨ cfg.initial * (2 : Int) ^ (k - 1) ≤ cfg.max ∨ Special cfg) :
    (capHit cfg (rawInterval cfg ((k + 1 : Nat) : Int)) = true → cfg.max < cfg.initial * (2 : Int) ^ k) ∧
    (capHit cfg (rawInterval cfg ((k + 1 : Nat) : Int)) = false →
      rawInterval cfg ((k + 1 : Nat) : Int) = min (cfg.initial * (2 : Int) ^ k) cfg.max ∧
      (cfg.initial * (2 : Int) ^ k ≤ cfg.max ∨ Special cfg)) := by
  obtain ⟨hpos, hle, hmax⟩ := hv
  unfold maxInt64 at hmax
  have hX := le_mul_p2 hpos k
  by_cases hfit : cfg.initial * (2 : Int) ^ k < 9223372036854775808
  · -- no overflow: the product is exact
    have hraw := rawInterval_exact cfg hpos (i := k + 1) (by omega) hk (by simpa using hfit)
    simp only [Nat.add_sub_cancel] at hraw
    rw [hraw]
    simp only [capHit, Bool.or_eq_true, decide_eq_true_eq, Bool.or_eq_false_iff, decide_eq_false_iff_not]
    constructor
    · intro h; omega
    · intro h; refine ⟨by omega, Or.inl (by omega)⟩
  · -- the product needs 64 bits or more
    have hk1 : 1 ≤ k := by
      rcases Nat.eq_zero_or_pos k with h0 | h0
      · subst h0; simp at hfit; omega
      · exact h0
    have hsucc : cfg.initial * (2 : Int) ^ k = 2 * (cfg.initial * (2 : Int) ^ (k - 1)) := by
      have : k = (k - 1) + 1 := by omega
      rw [this, mul_p2_succ]; simp
    by_cases hP : cfg.initial * (2 : Int) ^ (k - 1) ≤ cfg.max
    · have hfo := rawInterval_first_overflow cfg hpos (i := k + 1) (by omega) hk
        (by simpa [show k + 1 - 2 = k - 1 by omega] using (show cfg.initial * (2 : Int) ^ (k - 1) < 9223372036854775808 by omega))
        (by simpa using (show (9223372036854775808 : Int) ≤ cfg.initial * (2 : Int) ^ k by omega))
      rcases hfo with hneg | ⟨h64, hone, hovf⟩
      · simp only [capHit, Bool.or_eq_true, decide_eq_true_eq, Bool.or_eq_false_iff, decide_eq_false_iff_not]
        constructor
        · intro _; omega
        · intro h; omega
      · cases harch : cfg.arch with
        | satMin =>
          rw [harch] at hovf
          simp only [Arch.ovf, minInt64] at hovf
          rw [hovf]
          simp only [capHit, Bool.or_eq_true, decide_eq_true_eq, Bool.or_eq_false_iff, decide_eq_false_iff_not]
          constructor
          · intro _; omega
          · intro h; omega
        | satMax =>
          rw [harch] at hovf
          simp only [Arch.ovf, maxInt64] at hovf
          rw [hovf]
          simp only [capHit, Bool.or_eq_true, decide_eq_true_eq, Bool.or_eq_false_iff, decide_eq_false_iff_not]
          constructor
          · intro _; omega
          · intro h
            refine ⟨by omega, Or.inr ⟨harch, hone, by unfold maxInt64; omega⟩⟩
    · -- only the special configuration can get here with the flag unset
      have hS : Special cfg := by
        rcases hF with h0 | hP' | hS
        · omega
        · exact absurd hP' hP
        · exact hS
      obtain ⟨harch, hone, hmx⟩ := hS
      have hk64 : 64 ≤ k := by
        by_cases h : 64 ≤ k
        · exact h
        · exfalso
          have := p2_le_62 (n := k - 1) (by omega)
          rw [hone, hmx] at hP; unfold maxInt64 at hP; omega
      have hraw : rawInterval cfg ((k + 1 : Nat) : Int) = 9223372036854775807 := by
        unfold rawInterval
        have hw : wrap32 (((k + 1 : Nat) : Int) - 1) = (k : Int) := by
          rw [wrap32_id (by unfold InI32; omega)]; omega
        rw [hw, pow2_ovf _ (by omega), harch, hone]
        decide
      rw [hraw]
      simp only [capHit, Bool.or_eq_true, decide_eq_true_eq, Bool.or_eq_false_iff, decide_eq_false_iff_not]
      unfold maxInt64 at hmx
      constructor
      · intro h; omega
      · intro _
        refine ⟨by omega, Or.inr ⟨harch, hone, by unfold maxInt64; omega⟩⟩

/-- what is known about the mutable state after `k` sequential calls -/
structure SeqInv (cfg : Cfg) (k : Nat) (c : Core) : Prop where
  retries : c.retries = (k : Int)
  flagT : cfg.kind = .exp → allGranted cfg k → c.flag = true →
    1 ≤ k ∧ cfg.max < cfg.initial * (2 : Int) ^ (k - 1)
  flagF : cfg.kind = .exp → allGranted cfg k → c.flag = false →
    k = 0 ∨ cfg.initial * (2 : Int) ^ (k - 1) ≤ cfg.max ∨ Special cfg

theorem seqInv_init (cfg : Cfg) : SeqInv cfg 0 Core.init :=
  ⟨rfl, fun _ _ h => by simp [Core.init] at h, fun _ _ _ => Or.inl rfl⟩

/-- the specified result of the `i`-th call -/
def specResult (cfg : Cfg) (i : Nat) : Int × Bool :=
  if Spec.granted cfg.maxRetries i then (Spec.interval cfg i, true) else (0, false)

/-- **One sequential call**: it returns what the specification says and re-establishes the invariant. -/
theorem next_step (cfg : Cfg) (hv : Valid cfg) (k : Nat) (hk : k + 1 < 2147483648) (c : Core)
    (inv : SeqInv cfg k c) :
    (next cfg c).2 = specResult cfg (k + 1) ∧ SeqInv cfg (k + 1) (next cfg c).1 := by
  obtain ⟨hr, hT, hFl⟩ := inv
  have hw : wrap32 (c.retries + 1) = ((k + 1 : Nat) : Int) := by
    rw [hr, wrap32_id (by unfold InI32; omega)]; omega
  unfold next specResult
  simp only [hw, granted_eq_budgetOk]
  by_cases hb : budgetOk cfg ((k + 1 : Nat) : Int) = true
  · have hg : allGranted cfg (k + 1) := (budgetOk_iff cfg (k + 1)).1 hb
    have hg0 := allGranted_pred hg
    simp only [hb, if_true]
    cases hkind : cfg.kind with
    | fixed =>
      simp only [Spec.interval, hkind]
      exact ⟨trivial, ⟨rfl, fun h => by simp [hkind] at h, fun h => by simp [hkind] at h⟩⟩
    | exp =>
      simp only [Spec.interval, hkind, Nat.add_sub_cancel]
      cases hflag : c.flag with
      | true =>
        obtain ⟨h1, hlt⟩ := hT hkind hg0 hflag
        have hm := mul_p2_mono hv.pos (show k - 1 ≤ k by omega)
        simp only [if_true]
        refine ⟨?_, ⟨rfl, fun _ _ _ => ⟨by omega, by simpa using (show cfg.max < cfg.initial * (2 : Int) ^ k by omega)⟩, fun _ _ h => by simp at h⟩⟩
        congr 1
        omega
      | false =>
        have hstep := exp_step cfg hv k hk (hFl hkind hg0 hflag)
        simp only [Bool.false_eq_true, if_false]
        cases hhit : capHit cfg (rawInterval cfg ((k + 1 : Nat) : Int)) with
        | true =>
          have hlt := hstep.1 hhit
          simp only [if_true]
          refine ⟨?_, ⟨rfl, fun _ _ _ => ⟨by omega, by simpa using hlt⟩, fun _ _ h => by simp at h⟩⟩
          congr 1
          omega
        | false =>
          obtain ⟨heq, hnext⟩ := hstep.2 hhit
          simp only [Bool.false_eq_true, if_false]
          refine ⟨by rw [heq], ⟨rfl, fun _ _ h => by simp at h, fun _ _ _ => ?_⟩⟩
          right
          simpa using hnext
  · have hb' : budgetOk cfg ((k + 1 : Nat) : Int) = false := by simpa using hb
    have hng : ¬ allGranted cfg (k + 1) := fun h => hb ((budgetOk_iff cfg (k + 1)).2 h)
    simp only [hb', Bool.false_eq_true, if_false]
    exact ⟨trivial, ⟨rfl, fun _ h => absurd h hng, fun _ h => absurd h hng⟩⟩

/-- the invariant holds after every number of calls below the counter's range -/
theorem seqInv_iter (cfg : Cfg) (hv : Valid cfg) (n : Nat) (hn : n < 2147483648) :
    ∀ (k : Nat) (c : Core), k + n < 2147483648 → SeqInv cfg k c → SeqInv cfg (k + n) (iter cfg n c) := by
  induction n with
  | zero => intro k c _ inv; simpa [iter] using inv
  | succ m ih =>
    intro k c hkn inv
    have h1 := (next_step cfg hv k (by omega) c inv).2
    have := ih (by omega) (k + 1) (next cfg c).1 (by omega) h1
    simpa [iter, Nat.add_assoc, Nat.add_comm 1 m] using this

/-- outputs of consecutive calls are the specified ones -/
theorem outputs_spec (cfg : Cfg) (hv : Valid cfg) (n : Nat) :
    ∀ (k : Nat) (c : Core), k + n < 2147483648 → SeqInv cfg k c →
      outputs cfg n c = (List.range n).map fun j => specResult cfg (k + j + 1) := by
  induction n with
  | zero => intro k c _ _; rfl
  | succ m ih =>
    intro k c hkn inv
    obtain ⟨h1, h2⟩ := next_step cfg hv k (by omega) c inv
    have := ih (k + 1) (next cfg c).1 (by omega) h2
    simp only [outputs, h1, this, List.range_succ_eq_map, List.map_cons, List.map_map]
    congr 1
    apply List.map_congr_left
    intro j _
    simp [Nat.add_assoc, Nat.add_comm 1 j]

theorem stratOutputs_eq_outputs (cfg : Cfg) : ∀ (n : Nat) (c : Core), stratOutputs (next cfg) n c = outputs cfg n c := by
  intro n
  induction n with
  | zero => intro c; rfl
  | succ m ih => intro c; simp [stratOutputs, outputs, ih]

/-! #### the counter, for every number of calls (including beyond the `int32` range) -/

theorem next_retries (cfg : Cfg) (c : Core) : (next cfg c).1.retries = wrap32 (c.retries + 1) := by
  unfold next
  cases hb : budgetOk cfg (wrap32 (c.retries + 1)) <;> cases hk : cfg.kind <;> cases hf : c.flag <;>
    cases hh : capHit cfg (rawInterval cfg (wrap32 (c.retries + 1))) <;> simp [hb, hh]

theorem next_ok (cfg : Cfg) (c : Core) : (next cfg c).2.2 = budgetOk cfg (wrap32 (c.retries + 1)) := by
  unfold next
  cases hb : budgetOk cfg (wrap32 (c.retries + 1)) <;> cases hk : cfg.kind <;> cases hf : c.flag <;>
    cases hh : capHit cfg (rawInterval cfg (wrap32 (c.retries + 1))) <;> simp [hb, hh]

theorem wrap32_succ (x : Int) : wrap32 (wrap32 x + 1) = wrap32 (x + 1) := by
  unfold wrap32; omega

theorem iter_retries (cfg : Cfg) (n : Nat) : ∀ c : Core, InI32 c.retries →
    (iter cfg n c).retries = wrap32 (c.retries + (n : Int)) := by
  induction n with
  | zero => intro c h; simp [iter, wrap32_id h]
  | succ m ih =>
    intro c h
    simp only [iter]
    rw [ih _ (by rw [next_retries]; exact wrap32_range _), next_retries]
    have := wrap32_succ (c.retries)
    unfold wrap32 at *
    omega

/-- **The budget test for every call number**: the `i`-th sequential call is granted iff
    `maxRetries ≤ 0` or the *wrapped* counter `wrap32 i` is at most `maxRetries`. -/
theorem callResult_ok (cfg : Cfg) (i : Nat) (hi : 1 ≤ i) :
    (callResult cfg i).2 = budgetOk cfg (wrap32 (i : Int)) := by
  have h0 : InI32 Core.init.retries := by unfold InI32; decide
  have h1 := iter_retries cfg (i - 1) Core.init h0
  show (next cfg (iter cfg (i - 1) Core.init)).2.2 = _
  rw [next_ok, h1]
  have h2 : Core.init.retries = 0 := rfl
  have h3 : ((i - 1 : Nat) : Int) = (i : Int) - 1 := by omega
  have h4 : wrap32 (wrap32 (Core.init.retries + ((i - 1 : Nat) : Int)) + 1) = wrap32 (i : Int) := by
    rw [h2, h3]
    unfold wrap32; omega
  rw [h4]

end Ekit.Retry
