/-
No lost wake-up (C09), part 2: preservation of `WakeInv.waitE` / `waitD`.
-/
import Ekit.Lemmas.DelayQWake

namespace Ekit.DelayQ
open Ekit.Conc

set_option maxHeartbeats 1000000 in
theorem wakeInv_step_E (P : Params) (s : State) (l : Label) (s' : State)
    (hg : GenInv s) (hi : WakeInv s) (h : step P s l = some s') :
    ∀ t g, (s'.pc t).waitsE = some g → g = s'.cur .enqSig →
      s'.enqd.length = s'.seenE t ∨ ∃ u r, s'.pc u = .bSwap .enqSig r := by
  have p3 := hi.waitE
  have p1 := hi.fetchE
  have hle : ∀ t g, (s.pc t).waitsE = some g → g ≤ s.cur .enqSig :=
    fun t g h => hg.held_le t _ g (waitsE_holds h)
  step_cases h <;> dsimp only <;>
    first
    | assumption
    | (refine wait_upd Pc.waitsE .enqSig _ _ _ _ _ _ ?_ ?_ p3 <;> simp [*, Pc.waitsE] <;> done)
    | exact wait_witness Pc.waitsE .enqSig _ _ _ _ _ _
    | (refine wait_upd_seen Pc.waitsE .enqSig _ _ _ _ _ _ _ ?_ ?_ p3 <;> simp [*, Pc.waitsE] <;> done)
    | (cases ‹Cont›
       · (refine wait_upd Pc.waitsE .enqSig _ _ _ _ _ _ ?_ ?_ p3 <;> simp [*, Pc.waitsE] <;> done)
       · (refine wait_upd Pc.waitsE .enqSig _ _ _ _ _ _
           (Or.inr (Or.inr ⟨rfl, p1 _ _ ‹_› rfl⟩)) ?_ p3; simp [*])
       · (refine wait_upd Pc.waitsE .enqSig _ _ _ _ _ _
           (Or.inr (Or.inr ⟨rfl, p1 _ _ ‹_› rfl⟩)) ?_ p3; simp [*]))
    | (cases ‹CondId›
       · simp only [updC_same]
         exact wait_bump Pc.waitsE .enqSig _ _ _ _ _ _ rfl hle
       · simp only [updC, reduceCtorEq, if_false]
         (refine wait_upd Pc.waitsE .enqSig _ _ _ _ _ _ ?_ ?_ p3 <;> simp [*, Pc.waitsE] <;> done))

set_option maxHeartbeats 1000000 in
theorem wakeInv_step_D (P : Params) (s : State) (l : Label) (s' : State)
    (hg : GenInv s) (hi : WakeInv s) (h : step P s l = some s') :
    ∀ t g, (s'.pc t).waitsD = some g → g = s'.cur .deqSig →
      s'.deqd.length = s'.seenD t ∨ ∃ u r, s'.pc u = .bSwap .deqSig r := by
  have p3 := hi.waitD
  have p1 := hi.fetchD
  have hle : ∀ t g, (s.pc t).waitsD = some g → g ≤ s.cur .deqSig :=
    fun t g h => hg.held_le t _ g (waitsD_holds h)
  step_cases h <;> dsimp only <;>
    first
    | assumption
    | (refine wait_upd Pc.waitsD .deqSig _ _ _ _ _ _ ?_ ?_ p3 <;> simp [*, Pc.waitsD] <;> done)
    | exact wait_witness Pc.waitsD .deqSig _ _ _ _ _ _
    | (refine wait_upd_seen Pc.waitsD .deqSig _ _ _ _ _ _ _ ?_ ?_ p3 <;> simp [*, Pc.waitsD] <;> done)
    | (cases ‹Cont›
       · (refine wait_upd Pc.waitsD .deqSig _ _ _ _ _ _
           (Or.inr (Or.inr ⟨rfl, p1 _ _ ‹_› rfl⟩)) ?_ p3; simp [*])
       · (refine wait_upd Pc.waitsD .deqSig _ _ _ _ _ _ ?_ ?_ p3 <;> simp [*, Pc.waitsD] <;> done)
       · (refine wait_upd Pc.waitsD .deqSig _ _ _ _ _ _ ?_ ?_ p3 <;> simp [*, Pc.waitsD] <;> done))
    | (cases ‹CondId›
       · simp only [updC, reduceCtorEq, if_false]
         (refine wait_upd Pc.waitsD .deqSig _ _ _ _ _ _ ?_ ?_ p3 <;> simp [*, Pc.waitsD] <;> done)
       · simp only [updC_same]
         exact wait_bump Pc.waitsD .deqSig _ _ _ _ _ _ rfl hle)

theorem wakeInv_step (P : Params) (s : State) (l : Label) (s' : State)
    (hl : LockInv s) (hg : GenInv s) (hi : WakeInv s) (h : step P s l = some s') : WakeInv s' := by
  obtain ⟨a1, a2⟩ := wakeInv_step_fetch P s l s' hl hi h
  exact ⟨a1, a2, wakeInv_step_E P s l s' hg hi h, wakeInv_step_D P s l s' hg hi h⟩

end Ekit.DelayQ
