/-
Helper lemmas for C03, part 4: LinkedMap over the HashMap.
-/
import Ekit.Lemmas.HashMapRefine

namespace Ekit.HashMap
open Ekit.Go

variable {V : Type}

theorem eq_of_mem_of_nodup_map {α β : Type} {f : α → β} {l : List α} (hn : (l.map f).Nodup) {a b : α}
    (ha : a ∈ l) (hb : b ∈ l) (e : f a = f b) : a = b := by
  induction l with
  | nil => simp at ha
  | cons x r ih =>
    simp only [List.map_cons, List.nodup_cons] at hn
    rcases List.mem_cons.mp ha with h1 | h1 <;> rcases List.mem_cons.mp hb with h2 | h2
    · rw [h1, h2]
    · subst h1; exact absurd (List.mem_map.mpr ⟨b, h2, e.symm⟩) hn.1
    · subst h2; exact absurd (List.mem_map.mpr ⟨a, h1, e⟩) hn.1
    · exact ih hn.2 h1 h2

/-- the pointers stored in the inner map, as an abstract map key ↦ entry id -/
def LMap.ids (l : LMap V) : Spec.State Nat := l.list.map fun n => (n.key, n.id)
/-- the abstract map a linked map stands for, in list order -/
def LMap.abs (l : LMap V) : Spec.State V := l.list.map fun n => (n.key, n.value)

/-- the invariant/refinement relation of the linked map: the inner `HashMap` maps exactly the keys
    of the list entries to those entries, entries are distinct allocations, `length` is the list
    length, and the abstract map is the list read front to back -/
structure LR (h : Hashable) (l : LMap V) (s : Spec.State V) : Prop where
  inner : R h l.m l.ids
  ids_nodup : (l.list.map (·.id)).Nodup
  ids_fresh : ∀ n ∈ l.list, n.id < l.nextId
  length_eq : l.length = l.list.length
  abs : s = l.abs

theorem keys_pairwise {h : Hashable} {l : LMap V} (hn : NoDupKeys h l.ids) :
    l.list.Pairwise fun a b => h.equals a.key b.key = false := by
  unfold NoDupKeys LMap.ids at hn
  rw [List.pairwise_map] at hn
  exact hn

theorem eq_of_mem_of_keys {h : Hashable} (hl : h.Law) {l : List (LNode V)}
    (hp : l.Pairwise fun a b => h.equals a.key b.key = false) {a b : LNode V}
    (ha : a ∈ l) (hb : b ∈ l) (e : h.equals a.key b.key = true) : a = b := by
  induction l with
  | nil => simp at ha
  | cons x r ih =>
    obtain ⟨hx, hr⟩ := List.pairwise_cons.mp hp
    rcases List.mem_cons.mp ha with h1 | h1 <;> rcases List.mem_cons.mp hb with h2 | h2
    · rw [h1, h2]
    · subst h1; rw [hx b h2] at e; exact absurd e (by simp)
    · subst h2; exact absurd (hl.symm _ _ e) (by rw [hx a h1]; simp)
    · exact ih hr h1 h2

theorem find_ids (h : Hashable) (l : LMap V) (k : Int) :
    Spec.get h l.ids k = (l.list.find? fun n => h.equals n.key k).map (·.id) := by
  unfold Spec.get LMap.ids
  rw [List.find?_map, Option.map_map]
  rfl

theorem find_abs (h : Hashable) (l : LMap V) (k : Int) :
    Spec.get h l.abs k = (l.list.find? fun n => h.equals n.key k).map (·.value) := by
  unfold Spec.get LMap.abs
  rw [List.find?_map, Option.map_map]
  rfl

/-- for entries of a sound list: having the id of the entry that matches `k` is matching `k` -/
theorem id_iff_match {h : Hashable} (hl : h.Law) {l : LMap V} (hn : NoDupKeys h l.ids)
    (hid : (l.list.map (·.id)).Nodup) {n0 : LNode V} (h0 : n0 ∈ l.list) {k : Int}
    (h0k : h.equals n0.key k = true) :
    ∀ n ∈ l.list, decide (n.id = n0.id) = h.equals n.key k := by
  intro n hn'
  by_cases e : n.id = n0.id
  · have := eq_of_mem_of_nodup_map hid hn' h0 e
    subst this; simp [h0k]
  · cases hk : h.equals n.key k with
    | false => simp [e]
    | true =>
      have := eq_of_mem_of_keys hl (keys_pairwise hn) hn' h0 (hl.trans _ _ _ hk (hl.symm _ _ h0k))
      subst this; exact absurd rfl e

theorem deref_of_mem {l : LMap V} (hid : (l.list.map (·.id)).Nodup) {n0 : LNode V} (h0 : n0 ∈ l.list) :
    l.deref n0.id = some n0 := by
  unfold LMap.deref
  cases hf : l.list.find? (fun n => decide (n.id = n0.id)) with
  | none =>
    have := List.find?_eq_none.mp hf n0 h0
    simp at this
  | some n =>
    have h1 := List.mem_of_find?_eq_some hf
    have h2 := List.find?_some hf
    simp only [decide_eq_true_eq] at h2
    rw [eq_of_mem_of_nodup_map hid h1 h0 h2]

theorem length_filter_ne {l : List (LNode V)} (hid : (l.map (·.id)).Nodup) {n0 : LNode V} (h0 : n0 ∈ l) :
    ((l.filter fun n => decide (n.id ≠ n0.id)).length : Int) = l.length - 1 := by
  induction l with
  | nil => simp at h0
  | cons x r ih =>
    simp only [List.map_cons, List.nodup_cons] at hid
    rcases List.mem_cons.mp h0 with h1 | h1
    · subst h1
      have hf : (r.filter fun n => decide (n.id ≠ n0.id)) = r := by
        rw [List.filter_eq_self]
        intro a ha
        simp only [decide_eq_true_eq]
        intro e; exact hid.1 (List.mem_map.mpr ⟨a, ha, e⟩)
      have hd : decide (n0.id ≠ n0.id) = false := by simp
      rw [List.filter_cons, hd, if_neg (by simp), hf]
      simp
    · have hx : x.id ≠ n0.id := by
        intro e; exact hid.1 (List.mem_map.mpr ⟨n0, h1, e.symm⟩)
      have := ih hid.2 h1
      have hpos : 0 < r.length := List.length_pos_of_mem h1
      have hd : decide (x.id ≠ n0.id) = true := by simp [hx]
      rw [List.filter_cons, hd, if_pos rfl]
      simp only [List.length_cons]
      omega

theorem linked_put_refines {h : Hashable} (hl : h.Law) {l : LMap V} {s : Spec.State V} (hR : LR h l s)
    (o : Oracle) (k : Int) (v : V) :
    LR h (l.step h o (.put k v)).1 (Spec.put h s k v) ∧ (l.step h o (.put k v)).2 = .ok .unit := by
  obtain ⟨hin, hidn, hfresh, hlen, habs⟩ := hR
  subst habs
  have hg := get_refines hl hin o k
  rw [find_ids] at hg
  have hkn : NoDupKeys h l.ids := NoDupKeys.perm hl hin.perm hin.inv.keys_nodup
  cases hf : l.list.find? (fun n => h.equals n.key k) with
  | none =>
    have hno : ∀ n ∈ l.list, h.equals n.key k = false := by
      intro n hn; simpa using List.find?_eq_none.mp hf n hn
    have hnoi : ∀ e ∈ l.ids, h.equals e.1 k = false := by
      intro e he
      obtain ⟨n, hn, rfl⟩ := List.mem_map.mp he
      exact hno n hn
    have hnoa : ∀ e ∈ l.abs, h.equals e.1 k = false := by
      intro e he
      obtain ⟨n, hn, rfl⟩ := List.mem_map.mp he
      exact hno n hn
    obtain ⟨hp1, hp2⟩ := put_refines hl hin o k l.nextId
    rw [Spec.put_of_no_match _ hnoi] at hp1
    rw [hf] at hg
    simp only [LMap.step, hg, Option.map_none, Spec.lookupRet, hp2]
    rw [Spec.put_of_no_match _ hnoa]
    refine ⟨⟨?_, ?_, ?_, ?_, ?_⟩, by first | rfl | trivial⟩
    · simpa [LMap.ids] using hp1
    · simp only [List.map_append, List.map_cons, List.map_nil]
      rw [List.nodup_append]
      refine ⟨hidn, by simp, ?_⟩
      intro a ha b hb
      simp only [List.mem_singleton] at hb
      subst hb
      obtain ⟨n, hn, rfl⟩ := List.mem_map.mp ha
      exact Nat.ne_of_lt (hfresh n hn)
    · intro n hn
      rcases List.mem_append.mp hn with h1 | h1
      · exact Nat.lt_succ_of_lt (hfresh n h1)
      · simp only [List.mem_singleton] at h1; subst h1; exact Nat.lt_succ_self _
    · simp [hlen]
    · simp [LMap.abs]
  | some n0 =>
    have h0 := List.mem_of_find?_eq_some hf
    have h0k : h.equals n0.key k = true := List.find?_some (p := fun (n : LNode V) => h.equals n.key k) hf
    rw [hf] at hg
    simp only [LMap.step, hg, Option.map_some, Spec.lookupRet]
    have hiff := id_iff_match hl hkn hidn h0 h0k
    have h0a : (n0.key, n0.value) ∈ l.abs := List.mem_map.mpr ⟨n0, h0, rfl⟩
    rw [Spec.put_of_match v h0a h0k]
    have hkeep : (l.list.map fun n => if n.id = n0.id then { n with value := v } else n).map (fun n => (n.key, n.id))
        = l.ids := by
      unfold LMap.ids
      rw [List.map_map]
      apply List.map_congr_left
      intro n _
      simp only [Function.comp]
      split <;> rfl
    refine ⟨⟨?_, ?_, ?_, hlen.trans (by simp), ?_⟩, by first | rfl | trivial⟩
    · simpa [LMap.ids, hkeep] using hin
    · have : (l.list.map fun n => if n.id = n0.id then { n with value := v } else n).map (·.id) = l.list.map (·.id) := by
        rw [List.map_map]
        apply List.map_congr_left
        intro n _
        simp only [Function.comp]
        split <;> rfl
      simpa [this] using hidn
    · intro n hn
      obtain ⟨n', hn', rfl⟩ := List.mem_map.mp hn
      have := hfresh n' hn'
      split <;> exact this
    · unfold LMap.abs
      simp only [List.map_map]
      apply List.map_congr_left
      intro n hn
      have := hiff n hn
      simp only [Function.comp]
      by_cases e : n.id = n0.id
      · have hk : h.equals n.key k = true := by rw [← this]; simp [e]
        simp [e, hk]
      · have hk : h.equals n.key k = false := by rw [← this]; simp [e]
        simp [e, hk]

theorem ids_filter (h : Hashable) (k : Int) (ls : List (LNode V)) :
    (ls.filter fun n => !h.equals n.key k).map (fun n => (n.key, n.id)) =
      Spec.delete h (ls.map fun n => (n.key, n.id)) k := by
  unfold Spec.delete; rw [List.filter_map]; rfl

theorem abs_filter (h : Hashable) (k : Int) (ls : List (LNode V)) :
    (ls.filter fun n => !h.equals n.key k).map (fun n => (n.key, n.value)) =
      Spec.delete h (ls.map fun n => (n.key, n.value)) k := by
  unfold Spec.delete; rw [List.filter_map]; rfl

theorem linked_get_refines {h : Hashable} (hl : h.Law) {l : LMap V} {s : Spec.State V} (hR : LR h l s)
    (o : Oracle) (k : Int) :
    l.step h o (.get k) = (l, .ok (Spec.lookupRet (Spec.get h s k))) := by
  obtain ⟨hin, hidn, hfresh, hlen, habs⟩ := hR
  subst habs
  have hg := get_refines hl hin o k
  rw [find_ids] at hg
  rw [find_abs]
  cases hf : l.list.find? (fun n => h.equals n.key k) with
  | none =>
    rw [hf] at hg
    simp only [LMap.step, hg, Option.map_none, Spec.lookupRet]
  | some n0 =>
    have h0 := List.mem_of_find?_eq_some hf
    rw [hf] at hg
    simp only [LMap.step, hg, Option.map_some, Spec.lookupRet, deref_of_mem hidn h0]

theorem linked_delete_refines {h : Hashable} (hl : h.Law) {l : LMap V} {s : Spec.State V} (hR : LR h l s)
    (o : Oracle) (k : Int) :
    LR h (l.step h o (.delete k)).1 (Spec.delete h s k) ∧
      (l.step h o (.delete k)).2 = .ok (Spec.lookupRet (Spec.get h s k)) := by
  obtain ⟨hin, hidn, hfresh, hlen, habs⟩ := hR
  subst habs
  obtain ⟨hd1, hd2⟩ := delete_refines hl hin o k
  rw [find_ids] at hd2
  rw [find_abs]
  have hkn : NoDupKeys h l.ids := NoDupKeys.perm hl hin.perm hin.inv.keys_nodup
  cases hf : l.list.find? (fun n => h.equals n.key k) with
  | none =>
    have hno : ∀ n ∈ l.list, h.equals n.key k = false := by
      intro n hn; simpa using List.find?_eq_none.mp hf n hn
    have hnoi : ∀ e ∈ l.ids, h.equals e.1 k = false := by
      intro e he
      obtain ⟨n, hn, rfl⟩ := List.mem_map.mp he
      exact hno n hn
    have hnoa : ∀ e ∈ l.abs, h.equals e.1 k = false := by
      intro e he
      obtain ⟨n, hn, rfl⟩ := List.mem_map.mp he
      exact hno n hn
    rw [Spec.delete_of_no_match hnoi] at hd1
    rw [hf] at hd2
    simp only [LMap.step, hd2, Option.map_none, Spec.lookupRet]
    rw [Spec.delete_of_no_match hnoa]
    exact ⟨⟨hd1, hidn, hfresh, hlen, rfl⟩, by first | rfl | trivial⟩
  | some n0 =>
    have h0 := List.mem_of_find?_eq_some hf
    have h0k : h.equals n0.key k = true := List.find?_some (p := fun (n : LNode V) => h.equals n.key k) hf
    have hiff := id_iff_match hl hkn hidn h0 h0k
    rw [hf] at hd2
    simp only [LMap.step, hd2, Option.map_some, Spec.lookupRet, deref_of_mem hidn h0]
    have hfilt : (l.list.filter fun n => decide (n.id ≠ n0.id)) = l.list.filter fun n => !h.equals n.key k := by
      apply List.filter_congr
      intro n hn
      rw [← hiff n hn]; simp
    refine ⟨⟨?_, ?_, ?_, ?_, ?_⟩, by first | rfl | trivial⟩
    · show R h _ (List.map _ (List.filter _ l.list))
      rw [hfilt, ids_filter]
      exact hd1
    · exact List.Nodup.sublist (List.Sublist.map _ List.filter_sublist) hidn
    · intro n hn; exact hfresh n (List.mem_filter.mp hn).1
    · simp only [hlen]
      exact (length_filter_ne hidn h0).symm
    · show _ = List.map _ (List.filter _ l.list)
      rw [hfilt, abs_filter]
      rfl

/-- **LinkedMap refines the abstract map exactly** — results and the order of `Keys`/`Values` included -/
theorem linked_refines {h : Hashable} (hl : h.Law) {l : LMap V} {s : Spec.State V} (hR : LR h l s)
    (o : Oracle) (op : Op V) :
    LR h (l.step h o op).1 (Spec.step h s op).1 ∧ (l.step h o op).2 = (Spec.step h s op).2 := by
  cases op with
  | put k v => exact linked_put_refines hl hR o k v
  | get k => rw [linked_get_refines hl hR o k]; exact ⟨hR, rfl⟩
  | delete k => exact linked_delete_refines hl hR o k
  | len =>
    refine ⟨hR, ?_⟩
    simp only [LMap.step, Spec.step, hR.length_eq, hR.abs, LMap.abs, List.length_map]
  | keys =>
    refine ⟨hR, ?_⟩
    simp only [LMap.step, Spec.step, hR.abs, LMap.abs, List.map_map]
    rfl
  | values =>
    refine ⟨hR, ?_⟩
    simp only [LMap.step, Spec.step, hR.abs, LMap.abs, List.map_map]
    rfl

theorem linked_empty_refines (h : Hashable) : LR h (LMap.empty : LMap V) [] :=
  ⟨⟨⟨by simp [LMap.empty, HMap.empty], by simp [LMap.empty, HMap.empty],
      by simp [LMap.empty, HMap.empty, HMap.entries, NoDupKeys], by simp [LMap.empty, HMap.empty]⟩,
     by simp [LMap.empty, HMap.empty, HMap.entries, LMap.ids]⟩,
   by simp [LMap.empty], by simp [LMap.empty], by simp [LMap.empty], by simp [LMap.empty, LMap.abs]⟩

end Ekit.HashMap
