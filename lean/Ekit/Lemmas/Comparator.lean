/- Consequences of `Cmp.Lawful`, and lawfulness of the comparators the harness uses. Core Lean only. -/
import Ekit.Model.Comparator

namespace Ekit.Cmp

namespace Lawful
variable {cmp : Cmp} (h : Lawful cmp)
include h

theorem refl (a : Int) : cmp a a = 0 := by
  have := h.swap a a
  omega

theorem eq_symm {a b : Int} (e : cmp a b = 0) : cmp b a = 0 := by
  have h1 := h.swap a b
  have h2 := h.swap b a
  omega

/-- totality: one of the two directions holds -/
theorem total (a b : Int) : cmp a b ≤ 0 ∨ cmp b a ≤ 0 := by
  have h1 := h.swap a b
  have h2 := h.swap b a
  omega

theorem le_of_not_lt {a b : Int} (e : ¬ cmp a b < 0) : cmp b a ≤ 0 := by
  have h2 := h.swap a b
  omega

theorem not_lt_of_le {a b : Int} (e : cmp a b ≤ 0) : ¬ cmp b a < 0 := by
  have h2 := h.swap b a
  omega

theorem lt_of_le_of_lt {a b c : Int} (h1 : cmp a b ≤ 0) (h2 : cmp b c < 0) : cmp a c < 0 := by
  apply Classical.byContradiction
  intro hn
  have hca : cmp c a ≤ 0 := h.le_of_not_lt hn
  have hcb : cmp c b ≤ 0 := h.trans c a b hca h1
  have := h.swap b c
  omega

theorem lt_of_lt_of_le {a b c : Int} (h1 : cmp a b < 0) (h2 : cmp b c ≤ 0) : cmp a c < 0 := by
  apply Classical.byContradiction
  intro hn
  have hca : cmp c a ≤ 0 := h.le_of_not_lt hn
  have hba : cmp b a ≤ 0 := h.trans b c a h2 hca
  have := h.swap a b
  omega

theorem eq_le_trans {a b c : Int} (h1 : cmp a b = 0) (h2 : cmp b c ≤ 0) : cmp a c ≤ 0 :=
  h.trans a b c (by omega) h2

end Lawful

theorem natural_lawful : Lawful natural := by
  constructor
  · intro a b
    unfold natural
    split <;> split <;> (try split) <;> (try split) <;> omega
  · intro a b c
    unfold natural
    intro h1 h2
    split at h1 <;> split at h2 <;> (try split at h1) <;> (try split at h2) <;> split <;> (try split) <;> omega

/-- any comparator obtained by comparing images under a key function is lawful -/
theorem comap_lawful (f : Int → Int) : Lawful (fun a b => natural (f a) (f b)) :=
  ⟨fun a b => natural_lawful.swap (f a) (f b), fun a b c => natural_lawful.trans (f a) (f b) (f c)⟩

theorem div3_lawful : Lawful div3 := comap_lawful (fun a => Int.tdiv a 3)

theorem rev_lawful : Lawful rev :=
  ⟨fun a b => by
      have := natural_lawful.swap a b
      have := natural_lawful.swap b a
      unfold rev; omega,
   fun a b c h1 h2 => natural_lawful.trans c b a h2 h1⟩

theorem diff_lawful : Lawful diff :=
  ⟨fun a b => by unfold diff; omega, fun a b c h1 h2 => by unfold diff at *; omega⟩

theorem ofName_lawful {n : String} {cmp : Cmp} (h : ofName n = some cmp) : Lawful cmp := by
  unfold ofName at h
  split at h <;> simp at h <;> subst h
  · exact natural_lawful
  · exact div3_lawful
  · exact rev_lawful
  · exact diff_lawful

end Ekit.Cmp
