/-
Helper lemmas for C20, part 4: a successful run of the trie built by `createFieldNodes` satisfies the
abstract specification `Spec.structRel`.
-/
import Ekit.Lemmas.CopierTotal

namespace Ekit.Copier
open Ekit.Go

/-- the specification parameters of a tree-copier call with the effective options `o` -/
def specParams (atomics : List Ty) (o : Options) (m : Spec.ZeroMode := .skip) : Spec.Params :=
  ⟨atomics, m, o.ignore, o.conv⟩

theorem loopRel_congr (p : Spec.Params) (rec : Ty → Val → Ty → Val → Val → Bool) (sfs : List Field)
    (svs d0s d0s' d1s : List Val) : ∀ (dsuf : List Field) (j0 : Nat),
    (∀ j, j0 ≤ j → d0s[j]? = d0s'[j]?) →
    Spec.loopRel p rec sfs svs d0s d1s dsuf j0 = Spec.loopRel p rec sfs svs d0s' d1s dsuf j0
  | [], _, _ => rfl
  | df :: rest, j0, h => by
      simp only [Spec.loopRel]
      rw [h j0 (Nat.le_refl _),
        loopRel_congr p rec sfs svs d0s d0s' d1s rest (j0 + 1) (fun j hj => h j (by omega))]

/-- how `Spec.throughPtrs` follows from the two prologues of `copyTreeNode` -/
theorem throughPtrs_of (sT dT : Ty) (sv dv d1 : Val) (fl : Flags) (rel : Val → Val → Val → Bool)
    (hs : wt sT sv = true) (hd : wt dT dv = true) (hf : FlOK fl dT dv)
    (hnil : derefSrc sT sv = .nilPtr → d1 = dv)
    (hval : ∀ x y ifl wasPtr, derefSrc sT sv = .val sT.stripPtr x → derefDst dT dv fl = .val dT.stripPtr y ifl wasPtr →
        wt sT.stripPtr x = true → wt dT.stripPtr y = true → ifl.canSet = true →
        ∃ y1, d1 = rewrap wasPtr y1 ∧ rel x y y1 = true) :
    Spec.throughPtrs (sT.kind == .ptr) (dT.kind == .ptr) dT.stripPtr sv dv d1 rel = true := by
  have hgo : ∀ x, derefSrc sT sv = .val sT.stripPtr x → wt sT.stripPtr x = true →
      Spec.throughDst (dT.kind == .ptr) dT.stripPtr dv d1 rel x = true := by
    intro x hx hwx
    rcases derefDst_wt dT dv fl hd hf with ⟨hk, h2, hy, hcs⟩ | ⟨hk, y, h2, hy, hcs, hdv⟩
    · obtain ⟨y1, rfl, hrel⟩ := hval x dv fl false hx h2 hwx hy hcs
      have : (dT.kind == Kind.ptr) = false := by simpa using hk
      simp only [Spec.throughDst, this, Bool.false_eq_true, if_false, rewrap]
      exact hrel
    · obtain ⟨y1, rfl, hrel⟩ := hval x y fl.elem true hx h2 hwx hy hcs
      simp only [Spec.throughDst, hk, beq_self_eq_true, if_true, rewrap]
      rcases hdv with ⟨rfl, rfl⟩ | rfl
      · exact hrel
      · exact hrel
  unfold Spec.throughPtrs
  rcases derefSrc_wt sT sv hs with ⟨h1, hk, rfl⟩ | ⟨x, h1, hx, ⟨hk, rfl⟩ | ⟨hk, rfl⟩⟩
  · simp [hk, hnil h1]
  · have : (sT.kind == Kind.ptr) = false := by simpa using hk
    simp only [this, Bool.false_eq_true, if_false]
    exact hgo x h1 hx
  · simp only [hk, beq_self_eq_true, if_true]
    exact hgo x h1 hx

/-- a leaf node, run successfully on a matched field, establishes the field's specification -/
theorem leaf_fieldRel (opts : Options) (atomics : List Ty) (m : Spec.ZeroMode) (hm : m ≠ .copy)
    (recS : Ty → Val → Ty → Val → Val → Bool)
    (name : String) (si di : Nat) (sT dT : Ty) (sv dv : Val) (fl : Flags)
    (hm1 : sT.isMultiPtr = false) (hm2 : dT.isMultiPtr = false)
    (hleaf : isLeafTy atomics sT.stripPtr = true)
    (hs : wt sT sv = true) (hd : wt dT dv = true) (hcs : fl.canSet = true) :
    Spec.fieldRel (specParams atomics opts m) recS name sT sv dT dv
      (copyNode opts (.mk name si di true []) sT sv false dT dv fl).dst = true := by
  have hf := canSet_FlOK hcs dT dv
  generalize hr : copyNode opts (.mk name si di true []) sT sv false dT dv fl = r
  simp only [copyNode, if_true] at hr
  unfold Spec.fieldRel
  simp only [hm1, hm2, Bool.or_self, Bool.false_eq_true, if_false, specParams, hleaf, if_true]
  cases hcv : opts.conv.lookup name with
  | none =>
    simp only []
    by_cases hty : sT.stripPtr ≠ dT.stripPtr
    · rw [if_pos hty]
    · rw [if_neg hty]
      apply throughPtrs_of sT dT sv dv r.dst fl _ hs hd hf
      · intro h1
        rw [h1] at hr
        simp only [] at hr
        rw [← hr]
      · intro x y ifl wasPtr h1 h2 hwx hwy hics
        rw [h1] at hr
        simp only [] at hr
        rw [h2] at hr
        simp only [copyLeaf, hics, Bool.not_true, Bool.false_eq_true, if_false, Options.conv?, hcv, hty] at hr
        by_cases hz : x.isZero = true
        · rw [if_pos hz] at hr
          exact ⟨y, by rw [← hr], by cases m <;> simp_all [Spec.leafRel]⟩
        · rw [if_neg hz] at hr
          exact ⟨x, by rw [← hr], by cases m <;> simp_all [Spec.leafRel]⟩
  | some c =>
    simp only []
    rcases derefSrc_wt sT sv hs with ⟨h1, hk, rfl⟩ | ⟨x, h1, hx, hsv⟩
    · rw [h1] at hr
      simp only [] at hr
      simp [hk, ← hr]
    · have hcond : (sT.kind == Kind.ptr && sv == Val.nil) = false := by
        rcases hsv with ⟨hk, _⟩ | ⟨_, rfl⟩
        · have : (sT.kind == Kind.ptr) = false := by simpa using hk
          simp [this]
        · simp
      rw [hcond]
      simp only [Bool.false_eq_true, if_false]
      rw [h1] at hr
      simp only [] at hr
      have hleafres : ∀ y ifl wasPtr, ifl.canSet = true →
          r = copyLeaf opts name sT sv false dT fl sT.stripPtr x dT.stripPtr y ifl wasPtr →
          (match c.apply sT sv with
            | .ok (rTy, r') => (decide (rTy ≠ dT) || r.dst == r')
            | _ => true) = true := by
        intro y ifl wasPtr hics hr
        simp only [copyLeaf, hics, hcs, Bool.not_true, Bool.false_eq_true, if_false, Options.conv?, hcv] at hr
        cases hap : c.apply sT sv with
        | err e => rfl
        | panic m => rfl
        | ok pr =>
          obtain ⟨rTy, r'⟩ := pr
          rw [hap] at hr
          simp only [] at hr
          by_cases hrt : rTy ≠ dT
          · simp [hrt]
          · rw [if_neg hrt] at hr
            simp [hr]
      rcases derefDst_wt dT dv fl hd hf with ⟨_, h2, _, hics⟩ | ⟨_, y, h2, _, hics, _⟩
      · rw [h2] at hr
        exact hleafres dv fl false hics hr.symm
      · rw [h2] at hr
        exact hleafres y fl.elem true hics hr.symm

/-- a struct node, run successfully on a matched field, establishes the field's specification,
    given that its children do one level down -/
theorem node_fieldRel (opts : Options) (atomics : List Ty) (m : Spec.ZeroMode)
    (recS : Ty → Val → Ty → Val → Val → Bool)
    (name : String) (si di : Nat) (kids : List Node) (sT dT : Ty) (sv dv : Val) (fl : Flags)
    (hm1 : sT.isMultiPtr = false) (hm2 : dT.isMultiPtr = false)
    (hleaf : isLeafTy atomics sT.stripPtr = false)
    (hks : sT.stripPtr.kind = .struct) (hkd : dT.stripPtr.kind = .struct)
    (hs : wt sT sv = true) (hd : wt dT dv = true) (hcs : fl.canSet = true)
    (IH : ∀ x y ifl, wt sT.stripPtr x = true → wt dT.stripPtr y = true → ifl.canSet = true →
      (copyChildren opts kids sT.stripPtr x false dT.stripPtr y ifl).res = .ok () →
      recS sT.stripPtr x dT.stripPtr y (copyChildren opts kids sT.stripPtr x false dT.stripPtr y ifl).dst = true)
    (hres : (copyNode opts (.mk name si di false kids) sT sv false dT dv fl).res = .ok ()) :
    Spec.fieldRel (specParams atomics opts m) recS name sT sv dT dv
      (copyNode opts (.mk name si di false kids) sT sv false dT dv fl).dst = true := by
  have hf := canSet_FlOK hcs dT dv
  generalize hr : copyNode opts (.mk name si di false kids) sT sv false dT dv fl = r at hres ⊢
  simp only [copyNode, Bool.false_eq_true, if_false] at hr
  unfold Spec.fieldRel
  simp only [hm1, hm2, Bool.or_self, Bool.false_eq_true, if_false, specParams, hleaf, hks, hkd,
    beq_self_eq_true, bne_self_eq_false, if_true]
  apply throughPtrs_of sT dT sv dv r.dst fl _ hs hd hf
  · intro h1
    rw [h1] at hr
    simp only [] at hr
    rw [← hr]
  · intro x y ifl wasPtr h1 h2 hwx hwy hics
    rw [h1] at hr
    simp only [] at hr
    rw [h2] at hr
    simp only [] at hr
    refine ⟨(copyChildren opts kids sT.stripPtr x false dT.stripPtr y ifl).dst, by rw [← hr], ?_⟩
    apply IH x y ifl hwx hwy hics
    rw [← hr] at hres
    exact hres

theorem fieldClause_untouched (p : Spec.Params) (recS : Ty → Val → Ty → Val → Val → Bool)
    (sfs : List Field) (svs : List Val) (df : Field) (a : Val)
    (h : fexp df = false ∨ p.ignore.contains (fname df) = true ∨ Spec.srcFieldIdx? sfs (fname df) = none ∨
      (∃ i sf sv, Spec.srcFieldIdx? sfs (fname df) = some i ∧ sfs[i]? = some sf ∧ svs[i]? = some sv ∧
        (fty sf).isMultiPtr = false ∧ (fty df).isMultiPtr = false ∧
        isLeafTy p.atomics (fty sf).stripPtr = false ∧ (fty sf).stripPtr.kind ≠ .struct)) :
    Spec.fieldClause p recS sfs svs df a a = true := by
  unfold Spec.fieldClause
  by_cases hc : (!fexp df || p.ignore.contains (fname df)) = true
  · rw [if_pos hc]; simp
  · rw [if_neg hc]
    simp only [Bool.or_eq_true, Bool.not_eq_true', not_or, Bool.not_eq_false, Bool.not_eq_true] at hc
    rcases h with h | h | h | ⟨i, sf, sv, hi, hsf, hsv, hm1, hm2, hl, hk⟩
    · rw [h] at hc; exact absurd hc.1 (by simp)
    · rw [h] at hc; exact absurd hc.2 (by simp)
    · rw [h]; simp
    · rw [hi]
      simp only [hsf, hsv]
      unfold Spec.fieldRel
      have : ((fty sf).stripPtr.kind == Kind.struct) = false := by simpa using hk
      simp [hm1, hm2, hl, this]

theorem fieldClause_touched (p : Spec.Params) (recS : Ty → Val → Ty → Val → Val → Bool)
    (sfs : List Field) (svs : List Val) (df : Field) (a b : Val) (i : Nat) (sf : Field) (sfv : Val)
    (he : fexp df = true) (hig : p.ignore.contains (fname df) = false)
    (hi : Spec.srcFieldIdx? sfs (fname df) = some i) (hsf : sfs[i]? = some sf) (hsv : svs[i]? = some sfv)
    (hrel : Spec.fieldRel p recS (fname df) (fty sf) sfv (fty df) a b = true) :
    Spec.fieldClause p recS sfs svs df a b = true := by
  unfold Spec.fieldClause
  simp only [he, hig, Bool.not_true, Bool.or_self, Bool.false_eq_true, if_false, hi, hsf, hsv]
  exact hrel

end Ekit.Copier
