/- Helper lemmas for C16: the in-place loops (ReverseSelf, FilterDelete), Add/Delete and the aggregates. Core Lean only. -/
import Ekit.Lemmas.SlicesSeq
import Ekit.Lemmas.Lists

namespace Ekit.Slices
open Ekit.Go
variable {α : Type}

/-! ### ReverseSelf -/

theorem swap_getElem? (l : List α) (i j : Nat) (hi : i < l.length) (hj : j < l.length) (x : Nat) :
    ((l.set i l[j]).set j l[i])[x]? =
      if x = j then some l[i] else if x = i then some l[j] else l[x]? := by
  rw [List.getElem?_set, List.getElem?_set]
  by_cases h1 : x = j
  · subst h1; simp [hj]
  · have h1' : ¬ j = x := fun e => h1 e.symm
    by_cases h2 : x = i
    · subst h2; simp [h1, h1', hi]
    · have h2' : ¬ i = x := fun e => h2 e.symm
      simp [h1, h1', h2, h2']

theorem reverseSelfLoop_spec (fuel : Nat) : ∀ (l : List α) (i j : Nat), j < l.length →
    (j : Int) - (i : Int) ≤ 2 * (fuel : Int) →
    ∃ l', reverseSelfLoop l i (j : Int) fuel = .ok l' ∧ l'.length = l.length ∧
      ∀ k, l'[k]? = if i ≤ k ∧ k ≤ j then l[i + j - k]? else l[k]? := by
  induction fuel with
  | zero =>
    intro l i j hj hf
    have hn : ¬ ((i : Int) < (j : Int)) := by omega
    refine ⟨l, by simp [reverseSelfLoop, hn], rfl, ?_⟩
    intro k
    by_cases hk : i ≤ k ∧ k ≤ j
    · have : i + j - k = k := by omega
      simp [hk, this]
    · simp [hk]
  | succ fuel ih =>
    intro l i j hj hf
    by_cases hij : (i : Int) < (j : Int)
    · have hij' : i < j := by omega
      have hi : i < l.length := by omega
      have hl1 : i < l.length := hi
      have hj1 : j < (l.set i l[j]).length := by simp; exact hj
      have hjm : ((j : Int) - 1) = ((j - 1 : Nat) : Int) := by omega
      have hlen2 : ((l.set i l[j]).set j l[i]).length = l.length := by simp
      obtain ⟨l', h1, h2, h3⟩ := ih ((l.set i l[j]).set j l[i]) (i + 1) (j - 1)
        (by rw [hlen2]; omega) (by omega)
      refine ⟨l', ?_, by rw [h2, hlen2], ?_⟩
      · unfold reverseSelfLoop
        simp only [hij, if_true, Int.toNat_natCast, idx?_of_lt hi, idx?_of_lt hj,
          set?_of_lt _ hl1, set?_of_lt _ hj1]
        rw [hjm]
        exact h1
      · intro k
        rw [h3 k, swap_getElem? l i j hi hj, swap_getElem? l i j hi hj]
        by_cases c1 : i + 1 ≤ k ∧ k ≤ j - 1
        · have e1 : ¬ (i + 1 + (j - 1) - k = j) := by omega
          have e2 : ¬ (i + 1 + (j - 1) - k = i) := by omega
          have e3 : i ≤ k ∧ k ≤ j := by omega
          have e4 : i + 1 + (j - 1) - k = i + j - k := by omega
          rw [e4] at e1 e2
          simp [c1, e1, e2, e3, e4]
        · by_cases c2 : k = j
          · subst c2
            have e3 : i ≤ k ∧ k ≤ k := by omega
            have e4 : i + k - k = i := by omega
            simp [c1, e3, e4, List.getElem?_eq_getElem hi]
          · by_cases c3 : k = i
            · subst c3
              have e3 : k ≤ k ∧ k ≤ j := by omega
              have e4 : k + j - k = j := by omega
              simp [c1, c2, e3, e4, List.getElem?_eq_getElem hj]
            · have e3 : ¬ (i ≤ k ∧ k ≤ j) := by omega
              simp [c1, c2, c3, e3]
    · refine ⟨l, by simp [reverseSelfLoop, hij], rfl, ?_⟩
      intro k
      by_cases hk : i ≤ k ∧ k ≤ j
      · have : i + j - k = k := by omega
        simp [hk, this]
      · simp [hk]

theorem reverseSelf_eq (src : List α) : reverseSelf src = .ok src.reverse := by
  unfold reverseSelf
  cases hs : src with
  | nil => simp [reverseSelfLoop]
  | cons a r =>
    rw [← hs]
    have hlen : 0 < src.length := by rw [hs]; simp
    have hjm : ((src.length : Int) - 1) = ((src.length - 1 : Nat) : Int) := by omega
    rw [hjm]
    obtain ⟨l', h1, h2, h3⟩ := reverseSelfLoop_spec src.length src 0 (src.length - 1) (by omega) (by omega)
    rw [h1]
    congr 1
    apply List.ext_getElem?
    intro k
    rw [h3 k]
    by_cases hk : k < src.length
    · have : 0 ≤ k ∧ k ≤ src.length - 1 := by omega
      rw [List.getElem?_reverse hk]
      simp only [this, and_self, if_true]
      congr 1
      omega
    · have : ¬ (0 ≤ k ∧ k ≤ src.length - 1) := by omega
      simp only [this, if_false]
      rw [List.getElem?_eq_none (by omega), List.getElem?_eq_none (by simp; omega)]

/-! ### FilterDelete -/

theorem drop_set_of_lt {β} (l : List β) (e n : Nat) (v : β) (h : e < n) :
    (l.set e v).drop n = l.drop n := by
  apply List.ext_getElem?
  intro j
  rw [List.getElem?_drop, List.getElem?_drop, List.getElem?_set]
  have : ¬ e = n + j := by omega
  simp [this]

/-- the elements FilterDelete keeps, by position -/
def keptFrom (m : Nat → α → Bool) (l : List α) (idx : Nat) : List α :=
  ((l.zipIdx idx).filter (fun x => !m x.2 x.1)).map (·.1)

theorem keptFrom_cons (m : Nat → α → Bool) (v : α) (r : List α) (idx : Nat) :
    keptFrom m (v :: r) idx = if m idx v = true then keptFrom m r (idx + 1) else v :: keptFrom m r (idx + 1) := by
  unfold keptFrom
  rw [List.zipIdx_cons, List.filter_cons]
  by_cases h : m idx v = true
  · simp [h]
  · simp [h]

theorem filterDeleteLoop_spec (m : Nat → α → Bool) (cnt : Nat) : ∀ (idx : Nat) (l : List α) (e : Nat),
    e ≤ idx → idx + cnt = l.length →
    ∃ l' e', filterDeleteLoop m idx cnt (l, e) = .ok (l', e') ∧ l'.length = l.length ∧ e' ≤ l.length ∧
      l'.take e' = l.take e ++ keptFrom m (l.drop idx) idx ∧ (∀ k, e' ≤ k → l'[k]? = l[k]?) := by
  induction cnt with
  | zero =>
    intro idx l e he hc
    refine ⟨l, e, by simp [filterDeleteLoop], rfl, by omega, ?_, fun _ _ => rfl⟩
    have : l.drop idx = [] := by simp; omega
    simp [this, keptFrom]
  | succ cnt ih =>
    intro idx l e he hc
    have hidx : idx < l.length := by omega
    have hdrop : l.drop idx = l[idx] :: l.drop (idx + 1) := List.drop_eq_getElem_cons hidx
    unfold filterDeleteLoop
    rw [idx?_of_lt hidx]
    simp only []
    by_cases hm : m idx l[idx] = true
    · simp only [hm, if_true]
      obtain ⟨l', e', h1, h2, h3, h4, h5⟩ := ih (idx + 1) l e (by omega) (by omega)
      refine ⟨l', e', h1, h2, h3, ?_, h5⟩
      rw [h4, hdrop, keptFrom_cons, if_pos hm]
    · simp only [hm, if_false, Bool.false_eq_true]
      have hel : e < l.length := by omega
      rw [set?_of_lt _ hel]
      simp only []
      obtain ⟨l', e', h1, h2, h3, h4, h5⟩ := ih (idx + 1) (l.set e l[idx]) (e + 1) (by omega) (by simp; omega)
      refine ⟨l', e', h1, by rw [h2]; simp, by rw [List.length_set] at h3; exact h3, ?_, ?_⟩
      · rw [h4, take_succ_set _ _ _ hel, drop_set_of_lt _ _ _ _ (by omega), hdrop, keptFrom_cons, if_neg hm]
        simp
      · -- e' ≥ e + 1 because the kept prefix has at least e+1 elements
        have hlen : (l'.take e').length = ((l.set e l[idx]).take (e + 1) ++
            keptFrom m ((l.set e l[idx]).drop (idx + 1)) (idx + 1)).length := by rw [h4]
        have hge : e + 1 ≤ e' := by
          simp only [List.length_take, List.length_append, List.length_set] at hlen
          have : min (e + 1) l.length = e + 1 := Nat.min_eq_left (by omega)
          rw [this] at hlen
          have : min e' l'.length ≤ e' := Nat.min_le_left _ _
          omega
        intro k hk
        rw [h5 k hk, List.getElem?_set]
        have : ¬ e = k := by omega
        simp [this]

theorem filterDelete_eq (src : List α) (m : Nat → α → Bool) :
    filterDelete src m =
      .ok (Spec.filterDelete src m, Spec.filterDelete src m ++ src.drop (Spec.filterDelete src m).length) := by
  unfold filterDelete
  obtain ⟨l', e', h1, h2, h3, h4, h5⟩ := filterDeleteLoop_spec m src.length 0 src 0 (Nat.le_refl _) (by simp)
  rw [h1]
  have hk : keptFrom m (src.drop 0) 0 = Spec.filterDelete src m := by
    simp [keptFrom, Spec.filterDelete]
  simp only [List.take_zero, List.nil_append, hk] at h4
  have hle : e' ≤ l'.length := by omega
  simp only [hle, if_true]
  have hlen : (Spec.filterDelete src m).length = e' := by
    rw [← h4, List.length_take]; exact Nat.min_eq_left hle
  rw [h4, hlen]
  have hd : l'.drop e' = src.drop e' := by
    apply List.ext_getElem?
    intro k
    rw [List.getElem?_drop, List.getElem?_drop]
    exact h5 (e' + k) (by omega)
  have hl : l' = Spec.filterDelete src m ++ src.drop e' := by
    rw [← h4, ← hd, List.take_append_drop]
  rw [← hl]

/-! ### forRange over an indexed slice = fold over the remaining elements -/

theorem forRange_fold (ts : List Int) (f : Int → Int → Int) (c : Nat) : ∀ (i : Nat) (st : Int),
    i + c = ts.length →
    forRange (fun i res =>
      match idx? ts i with
      | .ok v => .ok (f res v)
      | .err e => .err e
      | .panic m => .panic m) i c st = .ok ((ts.drop i).foldl f st) := by
  induction c with
  | zero => intro i st h; have : ts.drop i = [] := by simp; omega
            simp [forRange, this]
  | succ c ih =>
    intro i st h
    have hi : i < ts.length := by omega
    unfold forRange
    rw [idx?_of_lt hi]
    simp only []
    rw [ih (i + 1) _ (by omega), List.drop_eq_getElem_cons hi, List.foldl_cons]

theorem maxOf_cons (x : Int) (r : List Int) :
    maxOf (x :: r) = .ok (r.foldl (fun res v => if v > res then v else res) x) := by
  unfold maxOf
  have h0 : idx? (x :: r) 0 = .ok x := by simp [idx?]
  have := forRange_fold (x :: r) (fun res v => if v > res then v else res) r.length 1 x (by simp; omega)
  rw [h0]
  simp only [List.length_cons, Nat.add_sub_cancel]
  refine Eq.trans this ?_
  simp

theorem minOf_cons (x : Int) (r : List Int) :
    minOf (x :: r) = .ok (r.foldl (fun res v => if v < res then v else res) x) := by
  unfold minOf
  have h0 : idx? (x :: r) 0 = .ok x := by simp [idx?]
  have := forRange_fold (x :: r) (fun res v => if v < res then v else res) r.length 1 x (by simp; omega)
  rw [h0]
  simp only [List.length_cons, Nat.add_sub_cancel]
  refine Eq.trans this ?_
  simp

theorem foldl_max_spec (r : List Int) (x : Int) :
    (List.foldl (fun res v => if v > res then v else res) x r = x ∨ List.foldl (fun res v => if v > res then v else res) x r ∈ r) ∧ x ≤ List.foldl (fun res v => if v > res then v else res) x r ∧ ∀ y, y ∈ r → y ≤ List.foldl (fun res v => if v > res then v else res) x r := by
  induction r generalizing x with
  | nil => simp
  | cons v r ih =>
    simp only [List.foldl_cons]
    by_cases hv : v > x
    · rw [if_pos hv]
      obtain ⟨h1, h2, h3⟩ := ih v
      refine ⟨?_, by omega, ?_⟩
      · rcases h1 with h | h
        · right; rw [h]; exact List.mem_cons_self
        · right; exact List.mem_cons_of_mem _ h
      · intro y hy
        rcases List.mem_cons.mp hy with h | h
        · rw [h]; exact h2
        · exact h3 y h
    · rw [if_neg hv]
      obtain ⟨h1, h2, h3⟩ := ih x
      refine ⟨?_, h2, ?_⟩
      · rcases h1 with h | h
        · left; exact h
        · right; exact List.mem_cons_of_mem _ h
      · intro y hy
        rcases List.mem_cons.mp hy with h | h
        · rw [h]; omega
        · exact h3 y h

theorem foldl_min_spec (r : List Int) (x : Int) :
    (List.foldl (fun res v => if v < res then v else res) x r = x ∨ List.foldl (fun res v => if v < res then v else res) x r ∈ r) ∧ List.foldl (fun res v => if v < res then v else res) x r ≤ x ∧ ∀ y, y ∈ r → List.foldl (fun res v => if v < res then v else res) x r ≤ y := by
  induction r generalizing x with
  | nil => simp
  | cons v r ih =>
    simp only [List.foldl_cons]
    by_cases hv : v < x
    · rw [if_pos hv]
      obtain ⟨h1, h2, h3⟩ := ih v
      refine ⟨?_, by omega, ?_⟩
      · rcases h1 with h | h
        · right; rw [h]; exact List.mem_cons_self
        · right; exact List.mem_cons_of_mem _ h
      · intro y hy
        rcases List.mem_cons.mp hy with h | h
        · rw [h]; exact h2
        · exact h3 y h
    · rw [if_neg hv]
      obtain ⟨h1, h2, h3⟩ := ih x
      refine ⟨?_, h2, ?_⟩
      · rcases h1 with h | h
        · left; exact h
        · right; exact List.mem_cons_of_mem _ h
      · intro y hy
        rcases List.mem_cons.mp hy with h | h
        · rw [h]; omega
        · exact h3 y h

theorem foldl_add (l : List Int) (a : Int) : l.foldl (fun res n => res + n) a = a + l.sum := by
  induction l generalizing a with
  | nil => simp
  | cons v r ih => simp [ih]; omega

end Ekit.Slices
