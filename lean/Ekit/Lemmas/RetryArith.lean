/-
Arithmetic facts behind C19: two's-complement wrap, powers of two, and what the wrapped product
`initial * 2^(r-1)` computed by `ExponentialBackoffRetryStrategy.Next` can be.
-/
import Ekit.Model.Retry

namespace Ekit.Retry

theorem wrap32_id {x : Int} (h : InI32 x) : wrap32 x = x := by
  unfold InI32 at h; unfold wrap32; omega

theorem wrap64_id {x : Int} (h : InI64 x) : wrap64 x = x := by
  unfold InI64 at h; unfold wrap64; omega

theorem wrap32_range (x : Int) : InI32 (wrap32 x) := by
  unfold InI32 wrap32; omega

theorem wrap64_range (x : Int) : InI64 (wrap64 x) := by
  unfold InI64 wrap64; omega

/-- a product in `[2^63, 2^64)` wraps to a negative number -/
theorem wrap64_neg {x : Int} (h1 : 9223372036854775808 ≤ x) (h2 : x < 18446744073709551616) :
    wrap64 x = x - 18446744073709551616 := by
  unfold wrap64; omega

/-! #### powers of two -/

theorem p2_pos (n : Nat) : 0 < (2 : Int) ^ n := Int.pow_pos (by decide)

theorem p2_succ (n : Nat) : (2 : Int) ^ (n + 1) = 2 * (2 : Int) ^ n := by
  rw [Int.pow_succ]; omega

theorem p2_mono {m n : Nat} (h : m ≤ n) : (2 : Int) ^ m ≤ (2 : Int) ^ n := by
  induction n with
  | zero =>
    have : m = 0 := by omega
    subst this; exact Int.le_refl _
  | succ k ih =>
    by_cases hk : m ≤ k
    · have := ih hk
      have := p2_succ k
      have := p2_pos k
      omega
    · have : m = k + 1 := by omega
      subst this; exact Int.le_refl _

theorem p2_62 : (2 : Int) ^ 62 = 4611686018427387904 := by decide
theorem p2_63 : (2 : Int) ^ 63 = 9223372036854775808 := by decide
theorem p2_64 : (2 : Int) ^ 64 = 18446744073709551616 := by decide

theorem p2_ge_63 {n : Nat} (h : 63 ≤ n) : 9223372036854775808 ≤ (2 : Int) ^ n := by
  have := p2_mono h; rw [p2_63] at this; exact this

theorem p2_le_62 {n : Nat} (h : n ≤ 62) : (2 : Int) ^ n ≤ 4611686018427387904 := by
  have := p2_mono h; rw [p2_62] at this; exact this

/-- `a ≤ a * 2^n` for positive `a` -/
theorem le_mul_p2 {a : Int} (ha : 0 < a) (n : Nat) : a ≤ a * (2 : Int) ^ n := by
  have h1 : (1 : Int) ≤ (2 : Int) ^ n := by have := p2_pos n; omega
  have := Int.mul_le_mul_of_nonneg_left h1 (Int.le_of_lt ha)
  omega

theorem mul_p2_mono {a : Int} (ha : 0 < a) {m n : Nat} (h : m ≤ n) :
    a * (2 : Int) ^ m ≤ a * (2 : Int) ^ n :=
  Int.mul_le_mul_of_nonneg_left (p2_mono h) (Int.le_of_lt ha)

theorem mul_p2_succ (a : Int) (n : Nat) : a * (2 : Int) ^ (n + 1) = 2 * (a * (2 : Int) ^ n) := by
  rw [p2_succ, ← Int.mul_assoc, Int.mul_comm a 2, Int.mul_assoc]

/-- if `a * 2^n < 2^63` with `a ≥ 1` then `n ≤ 62` -/
theorem exp_le_62_of_lt {a : Int} (ha : 0 < a) {n : Nat}
    (h : a * (2 : Int) ^ n < 9223372036854775808) : n ≤ 62 := by
  by_cases hn : n ≤ 62
  · exact hn
  · exfalso
    have h1 := p2_ge_63 (n := n) (by omega)
    have h2 := Int.mul_le_mul_of_nonneg_right (show (1 : Int) ≤ a by omega) (Int.le_of_lt (p2_pos n))
    omega

/-! #### `pow2` -/

theorem pow2_exact (a : Arch) {n : Nat} (h : n ≤ 62) : pow2 a (n : Int) = (2 : Int) ^ n := by
  unfold pow2
  have h1 : ¬ ((n : Int) < 0) := by omega
  have h2 : (n : Int) ≤ 62 := by omega
  simp [h1, h2]

theorem pow2_ovf (a : Arch) {e : Int} (h : 63 ≤ e) : pow2 a e = a.ovf := by
  unfold pow2
  have h1 : ¬ (e < 0) := by omega
  have h2 : ¬ (e ≤ 62) := by omega
  simp [h1, h2]

theorem pow2_neg (a : Arch) {e : Int} (h : e < 0) : pow2 a e = 0 := by
  unfold pow2; simp [h]

/-! #### the wrapped product -/

/-- **No overflow**: while the mathematical product is below `2^63` the code computes it exactly. -/
theorem rawInterval_exact (cfg : Cfg) (hi : 0 < cfg.initial) {i : Nat} (h1 : 1 ≤ i) (h31 : i < 2147483648)
    (hlt : cfg.initial * (2 : Int) ^ (i - 1) < 9223372036854775808) :
    rawInterval cfg (i : Int) = cfg.initial * (2 : Int) ^ (i - 1) := by
  have hn := exp_le_62_of_lt hi hlt
  unfold rawInterval
  have hw : wrap32 ((i : Int) - 1) = ((i - 1 : Nat) : Int) := by
    rw [wrap32_id (by unfold InI32; omega)]; omega
  rw [hw, pow2_exact _ hn]
  have := le_mul_p2 hi (i - 1)
  exact wrap64_id (by unfold InI64; omega)

/-- **The first overflowing product is caught**: if the previous product still fits in 63 bits and
    this one does not, then the wrapped value the code computes is negative — except for
    `initial = 1` at exponent 63, where it is the architecture's out-of-range conversion result. -/
theorem rawInterval_first_overflow (cfg : Cfg) (hi : 0 < cfg.initial) {i : Nat} (h2 : 2 ≤ i) (h31 : i < 2147483648)
    (hprev : cfg.initial * (2 : Int) ^ (i - 2) < 9223372036854775808)
    (hge : 9223372036854775808 ≤ cfg.initial * (2 : Int) ^ (i - 1)) :
    rawInterval cfg (i : Int) < 0 ∨ (i = 64 ∧ cfg.initial = 1 ∧ rawInterval cfg (i : Int) = cfg.arch.ovf) := by
  have hs : cfg.initial * (2 : Int) ^ (i - 1) = 2 * (cfg.initial * (2 : Int) ^ (i - 2)) := by
    have : i - 1 = (i - 2) + 1 := by omega
    rw [this, mul_p2_succ]
  have hw : wrap32 ((i : Int) - 1) = ((i - 1 : Nat) : Int) := by
    rw [wrap32_id (by unfold InI32; omega)]; omega
  have hn2 := exp_le_62_of_lt hi hprev
  unfold rawInterval
  rw [hw]
  by_cases hn : i - 1 ≤ 62
  · left
    rw [pow2_exact _ hn, wrap64_neg hge (by omega)]
    omega
  · right
    have hi64 : i = 64 := by omega
    subst hi64
    have hone : cfg.initial = 1 := by
      have h62 : (2 : Int) ^ (64 - 2) = 4611686018427387904 := by decide
      rw [h62] at hprev
      omega
    refine ⟨rfl, hone, ?_⟩
    rw [pow2_ovf _ (by omega), hone]
    cases cfg.arch <;> decide

/-- a positive wrapped product is at least `2^e`: it is a multiple of `2^e` -/
theorem wrap64_mul_p2_ge (a : Int) {e : Nat} (he : e ≤ 64) (hpos : 0 < wrap64 (a * (2 : Int) ^ e)) :
    (2 : Int) ^ e ≤ wrap64 (a * (2 : Int) ^ e) := by
  -- wrap64 x = x - q * 2^64
  obtain ⟨q, hq⟩ : ∃ q : Int, wrap64 (a * (2 : Int) ^ e) = a * (2 : Int) ^ e - q * 18446744073709551616 := by
    refine ⟨(a * (2 : Int) ^ e + 9223372036854775808) / 18446744073709551616, ?_⟩
    unfold wrap64
    have := Int.emod_add_mul_ediv (a * (2 : Int) ^ e + 9223372036854775808) 18446744073709551616
    omega
  have hsplit : (18446744073709551616 : Int) = (2 : Int) ^ e * (2 : Int) ^ (64 - e) := by
    rw [← Int.pow_add, show e + (64 - e) = 64 by omega]; decide
  have hfac : wrap64 (a * (2 : Int) ^ e) = (2 : Int) ^ e * (a - q * (2 : Int) ^ (64 - e)) := by
    rw [hq, Int.mul_sub, hsplit, Int.mul_comm a]
    congr 1
    rw [← Int.mul_assoc, Int.mul_comm q, Int.mul_assoc]
  have hp := p2_pos e
  have hf : 1 ≤ a - q * (2 : Int) ^ (64 - e) := by
    by_cases hle : a - q * (2 : Int) ^ (64 - e) ≤ 0
    · have := Int.mul_nonpos_of_nonneg_of_nonpos (Int.le_of_lt hp) hle
      rw [hfac] at hpos; omega
    · omega
  have := Int.mul_le_mul_of_nonneg_left hf (Int.le_of_lt hp)
  rw [hfac]; omega

/-- `initial² ≤ 2^63` bounds `initial` by a literal (so that `omega` can use it) -/
theorem initial_le_of_sq {a : Int} (ha : 0 < a) (hsq : a * a ≤ 9223372036854775808) : a ≤ 3037000499 := by
  by_cases h : a ≤ 3037000499
  · exact h
  · exfalso
    have h1 : (3037000500 : Int) ≤ a := by omega
    have := Int.mul_le_mul h1 h1 (by decide) (by omega)
    omega

theorem wrap64_shift (r k : Int) : wrap64 (r + 18446744073709551616 * k) = wrap64 r := by
  unfold wrap64
  rw [show r + 18446744073709551616 * k + 9223372036854775808
        = (r + 9223372036854775808) + 18446744073709551616 * k by omega, Int.add_mul_emod_self_left]

/-- the out-of-range conversion result times a modest `initial`: never a small positive number -/
theorem wrap64_mul_ovf (x : Int) (hx : 0 < x) (hx2 : x ≤ 3037000499) (a : Arch)
    (hpos : 0 < wrap64 (x * a.ovf)) : x ≤ wrap64 (x * a.ovf) := by
  obtain ⟨k, b, hb, rfl⟩ : ∃ k b : Int, (b = 0 ∨ b = 1) ∧ x = 2 * k + b := by
    refine ⟨x / 2, x % 2, Int.emod_two_eq x, ?_⟩
    omega
  cases a <;> simp only [Arch.ovf, minInt64, maxInt64] at hpos ⊢ <;> rcases hb with rfl | rfl
  · rw [show (2 * k + 0) * (-9223372036854775808 : Int) = 0 + 18446744073709551616 * (-k) by omega,
      wrap64_shift] at hpos
    simp [wrap64] at hpos
  · rw [show (2 * k + 1) * (-9223372036854775808 : Int) = -9223372036854775808 + 18446744073709551616 * (-k) by omega,
      wrap64_shift] at hpos
    simp [wrap64] at hpos
  · rw [show (2 * k + 0) * (9223372036854775807 : Int) = -(2 * k) + 18446744073709551616 * k by omega,
      wrap64_shift] at hpos
    unfold wrap64 at hpos; omega
  · rw [show (2 * k + 1) * (9223372036854775807 : Int) = (9223372036854775807 - 2 * k) + 18446744073709551616 * k by omega,
      wrap64_shift] at hpos ⊢
    unfold wrap64 at hpos ⊢; omega

/-- **No small positive wrap**: with `initial² ≤ 2^63` (initial ≤ ~3.03 s) every positive value the
    product can wrap to is at least `initial`, for every counter value whatsoever. -/
theorem rawInterval_pos_ge_initial (cfg : Cfg) (hi : 0 < cfg.initial)
    (hsq : cfg.initial * cfg.initial ≤ 9223372036854775808) (r : Int)
    (hpos : 0 < rawInterval cfg r) : cfg.initial ≤ rawInterval cfg r := by
  have hlit := initial_le_of_sq hi hsq
  unfold rawInterval at hpos ⊢
  generalize he : wrap32 (r - 1) = e at hpos ⊢
  by_cases hneg : e < 0
  · rw [pow2_neg _ hneg] at hpos
    simp [wrap64] at hpos
  · by_cases h62 : e ≤ 62
    · obtain ⟨n, rfl⟩ : ∃ n : Nat, e = (n : Int) := ⟨e.toNat, by omega⟩
      have hn : n ≤ 62 := by omega
      rw [pow2_exact _ hn] at hpos ⊢
      have hge := wrap64_mul_p2_ge cfg.initial (show n ≤ 64 by omega) hpos
      by_cases hfit : cfg.initial * (2 : Int) ^ n < 9223372036854775808
      · have := le_mul_p2 hi n
        rw [wrap64_id (by unfold InI64; omega)]
        exact this
      · -- wrapped: initial * initial ≤ 2^63 ≤ initial * 2^n, hence initial ≤ 2^n ≤ wrapped value
        have h1 : cfg.initial * cfg.initial ≤ cfg.initial * (2 : Int) ^ n := by omega
        have := Int.le_of_mul_le_mul_left h1 hi
        omega
    · rw [pow2_ovf _ (by omega)] at hpos ⊢
      exact wrap64_mul_ovf _ hi hlit _ hpos

end Ekit.Retry
