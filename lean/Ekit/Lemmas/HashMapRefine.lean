/-
Helper lemmas for C03, part 2: the invariant of the bucket table and the refinement of the
abstract map by each `HashMap` call.
-/
import Ekit.Lemmas.HashMap

namespace Ekit.HashMap
open Ekit.Go

variable {V : Type}

/-- all entries of a bucket list, bucket by bucket -/
def E (bs : List (Int × Chain V)) : List (Int × V) := bs.flatMap (·.2)

@[simp] theorem E_nil : E ([] : List (Int × Chain V)) = [] := rfl
@[simp] theorem E_cons (b : Int × Chain V) (r : List (Int × Chain V)) : E (b :: r) = b.2 ++ E r := by
  simp [E]
@[simp] theorem E_append (a b : List (Int × Chain V)) : E (a ++ b) = E a ++ E b := by
  simp [E]

theorem mem_E {bs : List (Int × Chain V)} {e : Int × V} : e ∈ E bs ↔ ∃ b ∈ bs, e ∈ b.2 := by
  simp [E, List.mem_flatMap]

/-- the invariant of a `HashMap`: the Go map has one slot per code, no slot holds an empty chain,
    every node sits under the code of its key, no two live keys are `Equals`, and every pooled node
    is as clean as a new one -/
structure Inv [Inhabited V] (h : Hashable) (m : HMap V) : Prop where
  codes_nodup : (m.buckets.map (·.1)).Nodup
  chains : ∀ b ∈ m.buckets, b.2 ≠ [] ∧ ∀ e ∈ b.2, h.code e.1 = b.1
  keys_nodup : NoDupKeys h m.entries
  pool_clean : ∀ n ∈ m.pool, n = freshNode

/-- the refinement relation: the invariant, and the live entries are those of the abstract map -/
structure R [Inhabited V] (h : Hashable) (m : HMap V) (s : Spec.State V) : Prop where
  inv : Inv h m
  perm : m.entries.Perm s

/-- a node with an `Equals` key can only sit under the code of that key -/
theorem outside_no_match {h : Hashable} (hl : h.Law) {bs pre post : List (Int × Chain V)} {c : Int}
    {ch : Chain V} (hbs : bs = pre ++ (c, ch) :: post) (hnd : (bs.map (·.1)).Nodup)
    (hch : ∀ b ∈ bs, ∀ e ∈ b.2, h.code e.1 = b.1) {k : Int} (hc : c = h.code k) :
    (∀ e ∈ E pre, h.equals e.1 k = false) ∧ (∀ e ∈ E post, h.equals e.1 k = false) := by
  subst hbs
  simp only [List.map_append, List.map_cons, List.nodup_append, List.nodup_cons, List.mem_cons] at hnd
  obtain ⟨_, ⟨hcpost, _⟩, hdisj⟩ := hnd
  constructor
  · intro e he
    obtain ⟨b, hb, heb⟩ := mem_E.mp he
    cases hek : h.equals e.1 k with
    | false => rfl
    | true =>
      exfalso
      have h1 : h.code e.1 = b.1 := hch b (by simp [hb]) e heb
      have h2 := hl.code_eq _ _ hek
      exact hdisj b.1 (List.mem_map.mpr ⟨b, hb, rfl⟩) c (Or.inl rfl) (by rw [← h1, h2, hc])
  · intro e he
    obtain ⟨b, hb, heb⟩ := mem_E.mp he
    cases hek : h.equals e.1 k with
    | false => rfl
    | true =>
      exfalso
      have h1 : h.code e.1 = b.1 := hch b (by simp [hb]) e heb
      have h2 := hl.code_eq _ _ hek
      apply hcpost
      rw [hc, ← h2, h1]
      exact List.mem_map.mpr ⟨b, hb, rfl⟩

/-- no slot for the code of `k`: nothing in the map `Equals` `k` -/
theorem absent_no_match {h : Hashable} (hl : h.Law) {bs : List (Int × Chain V)} {k : Int}
    (hch : ∀ b ∈ bs, ∀ e ∈ b.2, h.code e.1 = b.1) (hlk : AL.lookup (h.code k) bs = none) :
    ∀ e ∈ E bs, h.equals e.1 k = false := by
  intro e he
  obtain ⟨b, hb, heb⟩ := mem_E.mp he
  cases hek : h.equals e.1 k with
  | false => rfl
  | true =>
    exfalso
    have h1 : h.code e.1 = b.1 := hch b hb e heb
    have h2 := hl.code_eq _ _ hek
    apply AL.lookup_eq_none.mp hlk
    rw [← h2, h1]
    exact List.mem_map.mpr ⟨b, hb, rfl⟩

theorem entries_eq (m : HMap V) : m.entries = E m.buckets := rfl

section
variable [Inhabited V]

/-! ### the node pool -/

theorem poolGet_clean {pool : List (PNode V)} (hp : ∀ n ∈ pool, n = freshNode) (c : Option Nat) :
    (poolGet pool c).1 = freshNode ∧ ∀ n ∈ (poolGet pool c).2, n = freshNode := by
  unfold poolGet
  cases c with
  | none => exact ⟨rfl, hp⟩
  | some i =>
    cases hi : pool[i]? with
    | none => simp only [hi]; exact ⟨trivial, hp⟩
    | some n =>
      simp only [hi]
      refine ⟨hp n (List.mem_of_getElem? hi), ?_⟩
      intro x hx
      exact hp x (List.mem_of_mem_eraseIdx hx)

theorem newNode_clean {pool : List (PNode V)} (hp : ∀ n ∈ pool, n = freshNode) (c : Option Nat)
    (k : Int) (v : V) :
    (newNode pool c k v).1 = [(k, v)] ∧ ∀ n ∈ (newNode pool c k v).2, n = freshNode := by
  obtain ⟨h1, h2⟩ := poolGet_clean hp c
  unfold newNode
  obtain ⟨_, _, _, fk, fv, _⟩ := gen_facts
  simp only [fk, fv, if_true]
  refine ⟨?_, h2⟩
  by_cases fn : Gen.HashMapFacts.newNodeSetsNext = true <;> simp [h1, freshNode, fn]

theorem formatting_clean (n : PNode V) : formatting n = freshNode := by
  obtain ⟨ck, cv, cn, _⟩ := gen_facts
  simp [formatting, ck, cv, cn, freshNode]

/-! ### Put -/

theorem put_refines {h : Hashable} (hl : h.Law) {m : HMap V} {s : Spec.State V} (hR : R h m s)
    (o : Oracle) (k : Int) (v : V) :
    R h (m.step h o (.put k v)).1 (Spec.put h s k v) ∧ (m.step h o (.put k v)).2 = .ok .unit := by
  obtain ⟨⟨hnd, hch, hkn, hpc⟩, hperm⟩ := hR
  have hs : NoDupKeys h s := NoDupKeys.perm hl hperm hkn
  have hs' := Spec.put_nodup hl hs k v
  have hch2 : ∀ b ∈ m.buckets, ∀ e ∈ b.2, h.code e.1 = b.1 := fun b hb => (hch b hb).2
  obtain ⟨hseg, hpool'⟩ := newNode_clean hpc o.choice k v
  cases hlk : AL.lookup (h.code k) m.buckets with
  | none =>
    have hno := absent_no_match hl hch2 hlk
    have hnos : ∀ e ∈ s, h.equals e.1 k = false := fun e he => hno e ((hperm.mem_iff).mpr he)
    have habs := AL.lookup_eq_none.mp hlk
    have hstep : m.step h o (.put k v) =
        ({ buckets := m.buckets ++ [(h.code k, [(k, v)])], pool := (newNode m.pool o.choice k v).2 }, .ok .unit) := by
      simp [HMap.step, hlk, AL.set_of_absent habs, hseg]
    rw [hstep, Spec.put_of_no_match v hnos]
    have hperm' : (E (m.buckets ++ [(h.code k, [(k, v)])])).Perm (s ++ [(k, v)]) := by
      simp only [E_append, E_cons, E_nil, List.append_nil]
      exact hperm.append_right _
    refine ⟨⟨⟨?_, ?_, ?_, hpool'⟩, hperm'⟩, rfl⟩
    · simp only [List.map_append, List.map_cons, List.map_nil]
      rw [List.nodup_append]
      refine ⟨hnd, by simp, ?_⟩
      intro a ha b hb
      simp only [List.mem_singleton] at hb
      subst hb
      intro e; subst e; exact habs ha
    · intro b hb
      rcases List.mem_append.mp hb with h1 | h1
      · exact hch b h1
      · simp only [List.mem_singleton] at h1
        subst h1
        simp
    · rw [← Spec.put_of_no_match v hnos] at hperm'
      exact NoDupKeys.perm hl hperm'.symm hs'
  | some ch =>
    obtain ⟨pre, post, hbs, hpre⟩ := AL.lookup_split hlk
    obtain ⟨hnopre, hnopost⟩ := outside_no_match hl hbs hnd hch2 rfl
    have hent : m.entries = E pre ++ (ch ++ E post) := by rw [entries_eq, hbs]; simp
    have hnch : NoDupKeys h ch := by
      unfold NoDupKeys at hkn
      rw [hent] at hkn
      exact (List.pairwise_append.mp (List.pairwise_append.mp hkn).2.1).1
    have hchne : ch ≠ [] := (hch (h.code k, ch) (by rw [hbs]; simp)).1
    have hchcode : ∀ e ∈ ch, h.code e.1 = h.code k := (hch (h.code k, ch) (by rw [hbs]; simp)).2
    by_cases hany : ch.any (fun e => h.equals e.1 k) = true
    · -- overwrite in place
      obtain ⟨e0, he0, he0k⟩ := List.any_eq_true.mp hany
      have hcp : chainPut h k v ch = some (ch.map (upd h k v)) := by
        rw [chainPut_eq hl k v hnch]; simp [hany]
      have hstep : m.step h o (.put k v) =
          ({ m with buckets := pre ++ (h.code k, ch.map (upd h k v)) :: post }, .ok .unit) := by
        simp only [HMap.step, hlk, hcp]
        rw [hbs, AL.set_of_split hpre]
      have he0s : e0 ∈ s := (hperm.mem_iff).mp (by rw [hent]; simp [he0])
      rw [hstep, Spec.put_of_match v he0s he0k]
      have hmap : E (pre ++ (h.code k, ch.map (upd h k v)) :: post) = m.entries.map (upd h k v) := by
        rw [hent]
        simp only [E_append, E_cons, List.map_append]
        rw [map_upd_of_no_match v hnopre, map_upd_of_no_match v hnopost]
      have hperm' : (E (pre ++ (h.code k, ch.map (upd h k v)) :: post)).Perm
          (s.map fun e => if h.equals e.1 k then (e.1, v) else e) := by
        rw [hmap]; exact hperm.map _
      refine ⟨⟨⟨?_, ?_, ?_, hpc⟩, hperm'⟩, rfl⟩
      · have : (pre ++ (h.code k, ch.map (upd h k v)) :: post).map (·.1) = m.buckets.map (·.1) := by
          rw [hbs]; simp
        simp only [this]; exact hnd
      · intro b hb
        rcases List.mem_append.mp hb with h1 | h1
        · exact hch b (by rw [hbs]; simp [h1])
        · rcases List.mem_cons.mp h1 with h2 | h2
          · subst h2
            refine ⟨by simpa using hchne, ?_⟩
            intro e he
            obtain ⟨e', he', rfl⟩ := List.mem_map.mp he
            rw [upd_fst]; exact hchcode e' he'
          · exact hch b (by rw [hbs]; simp [h2])
      · rw [← Spec.put_of_match v he0s he0k] at hperm'
        exact NoDupKeys.perm hl hperm'.symm hs'
    · -- append a node at the end of the chain
      have hany' : ch.any (fun e => h.equals e.1 k) = false := by simpa using hany
      have hnoch := no_match_of_any_false hany'
      have hcp : chainPut h k v ch = none := by
        rw [chainPut_eq hl k v hnch]; simp [hany']
      obtain ⟨x, xs, hx⟩ := List.exists_cons_of_ne_nil hchne
      have hstep : m.step h o (.put k v) =
          ({ buckets := pre ++ (h.code k, ch ++ [(k, v)]) :: post, pool := (newNode m.pool o.choice k v).2 },
            .ok .unit) := by
        simp only [HMap.step, hlk, hcp]
        rw [hseg]
        subst hx
        simp only []
        rw [hbs, AL.set_of_split hpre]
      have hnos : ∀ e ∈ s, h.equals e.1 k = false := by
        intro e he
        have := (hperm.mem_iff).mpr he
        rw [hent] at this
        simp only [List.mem_append] at this
        rcases this with h1 | h1 | h1
        · exact hnopre e h1
        · exact hnoch e h1
        · exact hnopost e h1
      rw [hstep, Spec.put_of_no_match v hnos]
      have hperm' : (E (pre ++ (h.code k, ch ++ [(k, v)]) :: post)).Perm (s ++ [(k, v)]) := by
        have h1 : E (pre ++ (h.code k, ch ++ [(k, v)]) :: post) = (E pre ++ ch) ++ (k, v) :: E post := by simp
        rw [h1]
        refine List.Perm.trans List.perm_middle ?_
        refine List.Perm.trans ?_ (List.perm_append_singleton _ _).symm
        refine List.Perm.cons _ ?_
        rw [hent] at hperm
        simpa using hperm
      refine ⟨⟨⟨?_, ?_, ?_, hpool'⟩, hperm'⟩, rfl⟩
      · have : (pre ++ (h.code k, ch ++ [(k, v)]) :: post).map (·.1) = m.buckets.map (·.1) := by
          rw [hbs]; simp
        simp only [this]; exact hnd
      · intro b hb
        rcases List.mem_append.mp hb with h1 | h1
        · exact hch b (by rw [hbs]; simp [h1])
        · rcases List.mem_cons.mp h1 with h2 | h2
          · subst h2
            refine ⟨by simp, ?_⟩
            intro e he
            rcases List.mem_append.mp he with h3 | h3
            · exact hchcode e h3
            · simp only [List.mem_singleton] at h3; subst h3; rfl
          · exact hch b (by rw [hbs]; simp [h2])
      · rw [← Spec.put_of_no_match v hnos] at hperm'
        exact NoDupKeys.perm hl hperm'.symm hs'

/-! ### Get -/

theorem get_refines {h : Hashable} (hl : h.Law) {m : HMap V} {s : Spec.State V} (hR : R h m s)
    (o : Oracle) (k : Int) :
    m.step h o (.get k) = (m, .ok (Spec.lookupRet (Spec.get h s k))) := by
  obtain ⟨⟨hnd, hch, hkn, hpc⟩, hperm⟩ := hR
  have hch2 : ∀ b ∈ m.buckets, ∀ e ∈ b.2, h.code e.1 = b.1 := fun b hb => (hch b hb).2
  rw [← Spec.get_perm hl k hperm hkn]
  cases hlk : AL.lookup (h.code k) m.buckets with
  | none =>
    have hno := absent_no_match hl hch2 hlk
    rw [Spec.get_none_of_no_match (s := m.entries) hno]
    simp [HMap.step, hlk, Spec.lookupRet]
  | some ch =>
    obtain ⟨pre, post, hbs, hpre⟩ := AL.lookup_split hlk
    obtain ⟨hnopre, hnopost⟩ := outside_no_match hl hbs hnd hch2 rfl
    have hent : m.entries = E pre ++ (ch ++ E post) := by rw [entries_eq, hbs]; simp
    have h1 : (E pre).find? (fun e => h.equals e.1 k) = none := by
      rw [List.find?_eq_none]; intro x hx; simp [hnopre x hx]
    have h2 : (E post).find? (fun e => h.equals e.1 k) = none := by
      rw [List.find?_eq_none]; intro x hx; simp [hnopost x hx]
    have : Spec.get h m.entries k = Spec.get h ch k := by
      unfold Spec.get
      rw [hent, List.find?_append, List.find?_append, h1, h2]
      simp
    rw [this]
    simp [HMap.step, hlk, chainGet_eq]

/-! ### Delete -/

theorem delete_refines {h : Hashable} (hl : h.Law) {m : HMap V} {s : Spec.State V} (hR : R h m s)
    (o : Oracle) (k : Int) :
    R h (m.step h o (.delete k)).1 (Spec.delete h s k) ∧
      (m.step h o (.delete k)).2 = .ok (Spec.lookupRet (Spec.get h s k)) := by
  obtain ⟨⟨hnd, hch, hkn, hpc⟩, hperm⟩ := hR
  have hch2 : ∀ b ∈ m.buckets, ∀ e ∈ b.2, h.code e.1 = b.1 := fun b hb => (hch b hb).2
  have hs : NoDupKeys h s := NoDupKeys.perm hl hperm hkn
  have hs' := Spec.delete_nodup hs k
  rw [← Spec.get_perm hl k hperm hkn]
  have hpermf : (m.entries.filter fun e => !h.equals e.1 k).Perm (Spec.delete h s k) := hperm.filter _
  -- the cases in which nothing is found
  have hmiss : (∀ e ∈ m.entries, h.equals e.1 k = false) → m.step h o (.delete k) = (m, .ok .missing) →
      R h (m.step h o (.delete k)).1 (Spec.delete h s k) ∧
        (m.step h o (.delete k)).2 = .ok (Spec.lookupRet (Spec.get h m.entries k)) := by
    intro hno hstep
    rw [hstep, Spec.get_none_of_no_match hno]
    refine ⟨⟨⟨hnd, hch, hkn, hpc⟩, ?_⟩, rfl⟩
    have : (m.entries.filter fun e => !h.equals e.1 k) = m.entries := by
      rw [List.filter_eq_self]; intro a ha; simp [hno a ha]
    rw [this] at hpermf; exact hpermf
  cases hlk : AL.lookup (h.code k) m.buckets with
  | none =>
    exact hmiss (absent_no_match hl hch2 hlk) (by simp [HMap.step, hlk])
  | some ch =>
    obtain ⟨pre, post, hbs, hpre⟩ := AL.lookup_split hlk
    obtain ⟨hnopre, hnopost⟩ := outside_no_match hl hbs hnd hch2 rfl
    have hent : m.entries = E pre ++ (ch ++ E post) := by rw [entries_eq, hbs]; simp
    have hnch : NoDupKeys h ch := by
      unfold NoDupKeys at hkn
      rw [hent] at hkn
      exact (List.pairwise_append.mp (List.pairwise_append.mp hkn).2.1).1
    have hchcode : ∀ e ∈ ch, h.code e.1 = h.code k := (hch (h.code k, ch) (by rw [hbs]; simp)).2
    cases hcf : chainFind h k ch with
    | none =>
      have hnoch := chainFind_none hcf
      refine hmiss ?_ (by simp [HMap.step, hlk, hcf])
      intro e he
      rw [hent] at he
      simp only [List.mem_append] at he
      rcases he with h1 | h1 | h1
      · exact hnopre e h1
      · exact hnoch e h1
      · exact hnopost e h1
    | some found =>
      obtain ⟨num, node, next⟩ := found
      obtain ⟨hfilt, hfind⟩ := chainFind_filter hl hnch hcf
      obtain ⟨hcsplit, hlen, hnode, _⟩ := chainFind_some hcf
      -- the output
      have hget : Spec.get h m.entries k = some node.2 := by
        have h1 : (E pre).find? (fun e => h.equals e.1 k) = none := by
          rw [List.find?_eq_none]; intro x hx; simp [hnopre x hx]
        unfold Spec.get
        rw [hent, List.find?_append, List.find?_append, h1, hfind]
        simp
      -- the bucket table afterwards, uniformly
      have hsub : ∀ e ∈ ch.take num ++ next, e ∈ ch := by
        intro e he
        rw [hfilt] at he
        exact (List.mem_filter.mp he).1
      have hfiltE : ∀ (mid : List (Int × Chain V)), E mid = ch.take num ++ next →
          E (pre ++ mid ++ post) = m.entries.filter fun e => !h.equals e.1 k := by
        intro mid hmid
        rw [hent]
        simp only [E_append, List.filter_append, hmid, hfilt]
        have h1 : (E pre).filter (fun e => !h.equals e.1 k) = E pre := by
          rw [List.filter_eq_self]; intro a ha; simp [hnopre a ha]
        have h2 : (E post).filter (fun e => !h.equals e.1 k) = E post := by
          rw [List.filter_eq_self]; intro a ha; simp [hnopost a ha]
        rw [h1, h2]; simp
      have hpooled : (if Gen.HashMapFacts.deleteFormatsBeforePoolPut = true then
          formatting (⟨node.1, node.2, next⟩ : PNode V) else ⟨node.1, node.2, next⟩) = freshNode := by
        obtain ⟨_, _, _, _, _, hd⟩ := gen_facts
        simp only [hd, if_true]; exact formatting_clean _
      have hpc' : ∀ n ∈ (freshNode : PNode V) :: m.pool, n = freshNode := by
        intro n hn
        rcases List.mem_cons.mp hn with h1 | h1
        · exact h1
        · exact hpc n h1
      -- a state of the shape pre ++ mid ++ post with mid = [] or one bucket holding the remaining chain
      have hfinish : ∀ (mid : List (Int × Chain V)),
          (mid = [] ∧ ch.take num ++ next = []) ∨ (mid = [(h.code k, ch.take num ++ next)] ∧ ch.take num ++ next ≠ []) →
          (m.step h o (.delete k)).1 = { buckets := pre ++ mid ++ post, pool := freshNode :: m.pool } →
          R h (m.step h o (.delete k)).1 (Spec.delete h s k) := by
        intro mid hmid hst
        rw [hst]
        have hE : E mid = ch.take num ++ next := by
          rcases hmid with ⟨h1, h2⟩ | ⟨h1, _⟩
          · rw [h1, h2]; rfl
          · rw [h1]; simp
        have hperm' : (E (pre ++ mid ++ post)).Perm (Spec.delete h s k) := by
          rw [hfiltE mid hE]; exact hpermf
        refine ⟨⟨?_, ?_, NoDupKeys.perm hl hperm'.symm hs', hpc'⟩, hperm'⟩
        · have hsubl : ((pre ++ mid ++ post).map (·.1)).Sublist (m.buckets.map (·.1)) := by
            rw [hbs]
            rcases hmid with ⟨h1, _⟩ | ⟨h1, _⟩
            · rw [h1]; simp
            · rw [h1]; simp
          exact List.Nodup.sublist hsubl hnd
        · intro b hb
          simp only [List.mem_append] at hb
          rcases hb with (h1 | h1) | h1
          · exact hch b (by rw [hbs]; simp [h1])
          · rcases hmid with ⟨h2, _⟩ | ⟨h2, h3⟩
            · rw [h2] at h1; simp at h1
            · rw [h2] at h1
              simp only [List.mem_singleton] at h1
              subst h1
              exact ⟨h3, fun e he => hchcode e (hsub e he)⟩
          · exact hch b (by rw [hbs]; simp [h1])
      have hout : (m.step h o (.delete k)).2 = .ok (Spec.lookupRet (Spec.get h m.entries k)) := by
        simp [HMap.step, hlk, hcf, hget, Spec.lookupRet]
      refine ⟨?_, hout⟩
      -- the three unlink cases
      by_cases h0 : num = 0
      · subst h0
        by_cases hne : next.isEmpty = true
        · -- the only node: the slot is deleted
          have hnil : next = [] := List.isEmpty_iff.mp hne
          refine hfinish [] (Or.inl ⟨rfl, by simp [hnil]⟩) ?_
          simp only [HMap.step, hlk, hcf, hne, and_self, if_true, hpooled]
          rw [hbs, AL.erase_of_split hpre]; simp
        · -- head with a successor: the slot now holds `root.next`
          have hnn : next ≠ [] := fun e => hne (by simp [e])
          refine hfinish [(h.code k, List.take 0 ch ++ next)] (Or.inr ⟨rfl, by simpa using hnn⟩) ?_
          simp only [HMap.step, hlk, hcf, hne, if_true, hpooled]
          rw [hbs, AL.set_of_split hpre]; simp
      · -- middle or tail: `pre.next = root.next`
        have hnn : ch.take num ++ next ≠ [] := by
          intro e
          have : (ch.take num).length = 0 := by
            rw [List.append_eq_nil_iff] at e; rw [e.1]; rfl
          omega
        refine hfinish [(h.code k, ch.take num ++ next)] (Or.inr ⟨rfl, hnn⟩) ?_
        simp only [HMap.step, hlk, hcf, h0, false_and, if_false, hpooled]
        rw [hbs, AL.set_of_split hpre]; simp

end

/-! ### Len, Keys, Values -/

theorem flatMap_congr_mem {α β : Type} {l : List α} {f g : α → List β} (hfg : ∀ a ∈ l, f a = g a) :
    l.flatMap f = l.flatMap g := by
  induction l with
  | nil => rfl
  | cons x r ih =>
    simp only [List.flatMap_cons]
    rw [hfg x (by simp), ih (fun a ha => hfg a (by simp [ha]))]

/-- walking the slots in any order the runtime picks visits every chain exactly once -/
theorem walk_perm {β : Type} (f : Chain V → List β) {m : HMap V} (hnd : (m.buckets.map (·.1)).Nodup)
    {order : List Int} (ho : order.Perm (m.buckets.map (·.1))) :
    (order.flatMap fun c => f (m.chainAt c)).Perm (m.buckets.flatMap fun b => f b.2) := by
  refine (List.Perm.flatMap_right _ ho).trans ?_
  rw [List.flatMap_map]
  rw [flatMap_congr_mem (g := fun b => f b.2)]
  intro b hb
  simp [HMap.chainAt, AL.lookup_of_mem hnd hb]

theorem keys_perm {m : HMap V} (hnd : (m.buckets.map (·.1)).Nodup) {order : List Int}
    (ho : order.Perm (m.buckets.map (·.1))) : (m.keys order).Perm (m.entries.map (·.1)) := by
  have := walk_perm (fun c => c.map (·.1)) hnd ho
  unfold HMap.keys HMap.entries
  rw [List.map_flatMap]; exact this

theorem values_perm {m : HMap V} (hnd : (m.buckets.map (·.1)).Nodup) {order : List Int}
    (ho : order.Perm (m.buckets.map (·.1))) : (m.values order).Perm (m.entries.map (·.2)) := by
  have := walk_perm (fun c => c.map (·.2)) hnd ho
  unfold HMap.values HMap.entries
  rw [List.map_flatMap]; exact this

theorem chainCount_eq (c : Chain V) (n : Int) : chainCount c n = n + c.length := by
  induction c generalizing n with
  | nil => simp [chainCount]
  | cons x r ih => simp only [chainCount, ih, List.length_cons]; omega

/-- `Len`'s two nested loops count what `Keys` lists -/
theorem len_eq_keys_length (m : HMap V) (order : List Int) : m.len order = (m.keys order).length := by
  unfold HMap.len HMap.keys
  have : ∀ (acc : Int), order.foldl (fun n c => chainCount (m.chainAt c) n) acc =
      acc + ((order.flatMap fun c => (m.chainAt c).map (·.1)).length : Int) := by
    induction order with
    | nil => intro acc; simp
    | cons c r ih =>
      intro acc
      simp only [List.foldl_cons, List.flatMap_cons, List.length_append, List.length_map]
      rw [ih, chainCount_eq]
      omega
  rw [this 0]; simp

end Ekit.HashMap
