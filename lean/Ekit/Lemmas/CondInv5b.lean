/- Preservation of the structural invariant of the Cond model, part 5b: targets are parked waiters. -/
import Ekit.Lemmas.CondInv2
namespace Ekit.Cond
open Ekit.Conc
variable {s s' : State} {l : Label}

set_option maxHeartbeats 1000000 in
theorem isTgt_step_B (h : Inv s) (hs : step s l = some s') (hg : l.grpA = false) :
    ∀ t n, (s'.pc t).node = some n → s'.tgt = some n → (s'.pc t).parked = true := by
  have h1 := h.mutex; have h2 := h.muHeld; have h3 := h.own; have h4 := h.isTgt
  have h5 := h.inList; have h6 := h.tgtOK; have h7 := h.poolClean; have h8 := h.inFull
  have h9 := tgt_eq s; have h10 := tgt_none s
  have h13 := @listPc_inMu_or_parked
  step_cases_grp hs hg <;> intro u n <;> simp only [State.tgt, upd_apply] <;> (repeat' split) <;>
    grind [Pc.inMu, Pc.node, Pc.listPc, Pc.fullPc, Pc.parked, Pc.target, bodyStart_node, bodyStart_target]
end Ekit.Cond
