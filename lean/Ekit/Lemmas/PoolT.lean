/-
Layer T of the pool invariants (C10): the task table.  For every task id

    runs + (times handed back by ShutdownNow) + (occurrences in the queue) + (workers holding it
    between the receive and `task.Run`)  =  1 if its send on the queue happened, else 0

and what a Submit call returns is tied to whether its send happened (`subRes`).
-/
import Ekit.Lemmas.PoolFrame
namespace Ekit.Pool

/-- worker `w` holds task `id`: received (ok) and not yet inside `task.Run` -/
def holdsT (id : Nat) (w : Worker) : Bool :=
  decide (((w.pc = .recvd ∧ w.ok = true) ∨ w.pc = .incRun) ∧ w.task = id)

/-- (owner, sent, what Submit returned) of task `i` -/
def tinfo (ts : List Task) (i : Nat) : Option (Nat × Bool × Res) :=
  (ts[i]?).map fun tk => (tk.owner, tk.sent, tk.subRes)
def runsN (ts : List Task) (i : Nat) : Nat := ((ts[i]?).map (·.runs)).getD 0
def sentN (ts : List Task) (i : Nat) : Nat := ((ts[i]?).map fun tk => if tk.sent then 1 else 0).getD 0

theorem tinfo_modify_same (ts : List Task) (j i : Nat) (g : Task → Task)
    (hg : ∀ t, (g t).owner = t.owner ∧ (g t).sent = t.sent ∧ (g t).subRes = t.subRes) :
    tinfo (ts.modify j g) i = tinfo ts i := by
  simp only [tinfo, List.getElem?_modify]
  cases ts[i]? with
  | none => rfl
  | some t => by_cases hji : j = i <;> simp [hji, hg t]

theorem sentN_modify_same (ts : List Task) (j i : Nat) (g : Task → Task) (hg : ∀ t, (g t).sent = t.sent) :
    sentN (ts.modify j g) i = sentN ts i := by
  simp only [sentN, List.getElem?_modify]
  cases ts[i]? with
  | none => rfl
  | some t => by_cases hji : j = i <;> simp [hji, hg t]

theorem runsN_modify_same (ts : List Task) (j i : Nat) (g : Task → Task) (hg : ∀ t, (g t).runs = t.runs) :
    runsN (ts.modify j g) i = runsN ts i := by
  simp only [runsN, List.getElem?_modify]
  cases ts[i]? with
  | none => rfl
  | some t => by_cases hji : j = i <;> simp [hji, hg t]

theorem runsN_modify_inc (ts : List Task) (j i : Nat) :
    runsN (ts.modify j fun t => { t with runs := t.runs + 1 }) i =
      runsN ts i + (if j = i ∧ i < ts.length then 1 else 0) := by
  simp only [runsN, List.getElem?_modify]
  by_cases hlt : i < ts.length
  · rw [List.getElem?_eq_getElem hlt]
    by_cases hji : j = i <;> simp [hji, hlt]
  · rw [List.getElem?_eq_none (by omega)]; simp [hlt]

theorem tinfo_modify_sent (ts : List Task) (j i : Nat) :
    tinfo (ts.modify j fun t => { t with sent := true }) i =
      if j = i then (tinfo ts i).map (fun x => (x.1, true, x.2.2)) else tinfo ts i := by
  simp only [tinfo, List.getElem?_modify]
  cases ts[i]? with
  | none => by_cases hji : j = i <;> simp [hji]
  | some t => by_cases hji : j = i <;> simp [hji]

theorem sentN_modify_sent (ts : List Task) (j i : Nat) (o : Nat) (r : Res) (h : tinfo ts j = some (o, false, r)) :
    sentN (ts.modify j fun t => { t with sent := true }) i = sentN ts i + (if j = i then 1 else 0) := by
  simp only [sentN, List.getElem?_modify]
  by_cases hji : j = i
  · subst hji
    simp only [tinfo] at h
    cases hts : ts[j]? with
    | none => rw [hts] at h; simp at h
    | some t => rw [hts] at h; simp at h; simp [h.2.1]
  · cases ts[i]? with
    | none => simp [hji]
    | some t => simp [hji]

theorem tinfo_modify_subRes (ts : List Task) (j i : Nat) (r : Res) :
    tinfo (ts.modify j fun t => { t with subRes := r }) i =
      if j = i then (tinfo ts i).map (fun x => (x.1, x.2.1, r)) else tinfo ts i := by
  simp only [tinfo, List.getElem?_modify]
  cases ts[i]? with
  | none => by_cases hji : j = i <;> simp [hji]
  | some t => by_cases hji : j = i <;> simp [hji]

theorem tinfo_append (ts : List Task) (x : Task) (i : Nat) :
    tinfo (ts ++ [x]) i = if i < ts.length then tinfo ts i
      else if i = ts.length then some (x.owner, x.sent, x.subRes) else none := by
  simp only [tinfo]
  by_cases h1 : i < ts.length
  · simp [h1, List.getElem?_append_left h1]
  · by_cases h2 : i = ts.length
    · subst h2; simp
    · have : ts.length + 1 ≤ i := by omega
      simp [h1, h2, List.getElem?_eq_none, this]

theorem tinfo_lt (ts : List Task) (i : Nat) (x : Nat × Bool × Res) (h : tinfo ts i = some x) : i < ts.length := by
  simp only [tinfo] at h
  cases hts : ts[i]? with
  | none => rw [hts] at h; simp at h
  | some t => exact (List.getElem?_eq_some_iff.1 hts).1

theorem runsN_append (ts : List Task) (x : Task) (i : Nat) (hx : x.runs = 0) : runsN (ts ++ [x]) i = runsN ts i := by
  simp only [runsN]
  by_cases h1 : i < ts.length
  · simp [List.getElem?_append_left h1]
  · by_cases h2 : i = ts.length
    · subst h2; simp [hx]
    · have : ts.length + 1 ≤ i := by omega
      simp [List.getElem?_eq_none, this, Nat.le_of_succ_le this]

theorem sentN_append (ts : List Task) (x : Task) (i : Nat) (hx : x.sent = false) : sentN (ts ++ [x]) i = sentN ts i := by
  simp only [sentN]
  by_cases h1 : i < ts.length
  · simp [List.getElem?_append_left h1]
  · by_cases h2 : i = ts.length
    · subst h2; simp [hx]
    · have : ts.length + 1 ≤ i := by omega
      simp [List.getElem?_eq_none, this, Nat.le_of_succ_le this]

/-! specialisations to the four updates the model performs (as simp lemmas) -/
@[simp] theorem tinfo_modify_runs (ts : List Task) (j i : Nat) :
    tinfo (ts.modify j fun t => { t with runs := t.runs + 1 }) i = tinfo ts i :=
  tinfo_modify_same _ _ _ _ (fun _ => ⟨rfl, rfl, rfl⟩)
@[simp] theorem sentN_modify_runs (ts : List Task) (j i : Nat) :
    sentN (ts.modify j fun t => { t with runs := t.runs + 1 }) i = sentN ts i :=
  sentN_modify_same _ _ _ _ (fun _ => rfl)
@[simp] theorem tinfo_modify_released (ts : List Task) (j i : Nat) :
    tinfo (ts.modify j fun t => { t with released := true }) i = tinfo ts i :=
  tinfo_modify_same _ _ _ _ (fun _ => ⟨rfl, rfl, rfl⟩)
@[simp] theorem sentN_modify_released (ts : List Task) (j i : Nat) :
    sentN (ts.modify j fun t => { t with released := true }) i = sentN ts i :=
  sentN_modify_same _ _ _ _ (fun _ => rfl)
@[simp] theorem runsN_modify_released (ts : List Task) (j i : Nat) :
    runsN (ts.modify j fun t => { t with released := true }) i = runsN ts i :=
  runsN_modify_same _ _ _ _ (fun _ => rfl)
@[simp] theorem runsN_modify_sent (ts : List Task) (j i : Nat) :
    runsN (ts.modify j fun t => { t with sent := true }) i = runsN ts i :=
  runsN_modify_same _ _ _ _ (fun _ => rfl)
@[simp] theorem runsN_modify_subRes (ts : List Task) (j i : Nat) (r : Res) :
    runsN (ts.modify j fun t => { t with subRes := r }) i = runsN ts i :=
  runsN_modify_same _ _ _ _ (fun _ => rfl)
@[simp] theorem sentN_modify_subRes (ts : List Task) (j i : Nat) (r : Res) :
    sentN (ts.modify j fun t => { t with subRes := r }) i = sentN ts i :=
  sentN_modify_same _ _ _ _ (fun _ => rfl)

theorem sentN_pos_lt (ts : List Task) (i : Nat) (h : sentN ts i ≠ 0) : i < ts.length := by
  simp only [sentN] at h
  cases hts : ts[i]? with
  | none => rw [hts] at h; simp at h
  | some t => exact (List.getElem?_eq_some_iff.1 hts).1

theorem runsN_modify_inc' (ts : List Task) (j i : Nat) (h : j = i → i < ts.length) :
    runsN (ts.modify j fun t => { t with runs := t.runs + 1 }) i = runsN ts i + (if j = i then 1 else 0) := by
  rw [runsN_modify_inc]
  by_cases hji : j = i
  · simp [hji, h hji]
  · simp [hji]

/-- conservation law for task `id` -/
def consT (s : St) (id : Nat) : Prop :=
  runsN s.tasks id + s.returned.count id + s.queue.count id + s.workers.countP (holdsT id) = sentN s.tasks id

/-- what Submit returned is consistent with whether the send happened -/
def okInfo (x : Nat × Bool × Res) : Prop := (x.2.2.isErr = true → x.2.1 = false) ∧ (x.2.2 = .ok → x.2.1 = true)

def G2 (ts : List Task) : Prop := ∀ id x, tinfo ts id = some x → okInfo x

/-- the task of a Submit call in progress: owned by the caller, not yet reported, sent or not according
    to the program counter -/
def CT (ts : List Task) (t : Nat) (cl : Caller) : Prop :=
  (preSend cl.pc = true → tinfo ts cl.task = some (t, false, .none)) ∧
  (postSend cl.pc = true → tinfo ts cl.task = some (t, true, .none)) ∧
  (cl.pc = .subUnlock → tinfo ts cl.task = some (t, decide (cl.res = .ok), .none) ∧
                         (cl.res = .ok ∨ cl.res = .errCtx ∨ cl.res = .retry))

def LT : Loc where
  G s := (∀ id, consT s id) ∧ G2 s.tasks
  W _ _ _ := True
  C s t cl := CT s.tasks t cl

theorem okInfo_none (o : Nat) (b : Bool) : okInfo (o, b, .none) := by simp [okInfo, Res.isErr]

/-- `CT` only looks at the entry of the caller's own task -/
theorem CT_congr {ts ts' : List Task} {t : Nat} {cl : Caller} (h : tinfo ts' cl.task = tinfo ts cl.task)
    (hm : CT ts t cl) : CT ts' t cl := by
  unfold CT at hm ⊢; rw [h]; exact hm

/-- the task of another caller: an update of task `j`, owned by `t`, does not touch it -/
theorem CT_other {ts ts' : List Task} {t u j : Nat} {cl : Caller} {b : Bool} {r : Res}
    (hown : tinfo ts j = some (t, b, r)) (hne : u ≠ t) (hmod : ∀ i, i ≠ j → tinfo ts' i = tinfo ts i)
    (hm : CT ts u cl) : CT ts' u cl := by
  by_cases hj : cl.task = j
  · unfold CT at hm ⊢
    rw [hj, hown] at hm
    refine ⟨fun hp => ?_, fun hp => ?_, fun hp => ?_⟩
    · have := hm.1 hp; simp at this; exact absurd this.1.symm hne
    · have := hm.2.1 hp; simp at this; exact absurd this.1.symm hne
    · have := (hm.2.2 hp).1; simp at this; exact absurd this.1.symm hne
  · exact CT_congr (hmod _ hj) hm

theorem tinfo_append_of_some {ts : List Task} {i : Nat} {x : Nat × Bool × Res} (y : Task) (h : tinfo ts i = some x) :
    tinfo (ts ++ [y]) i = some x := by
  rw [tinfo_append, if_pos (tinfo_lt ts i x h)]; exact h

theorem CT_append {ts : List Task} {u : Nat} {cl : Caller} (y : Task) (hm : CT ts u cl) : CT (ts ++ [y]) u cl := by
  unfold CT at hm ⊢
  exact ⟨fun hp => tinfo_append_of_some y (hm.1 hp), fun hp => tinfo_append_of_some y (hm.2.1 hp),
         fun hp => ⟨tinfo_append_of_some y (hm.2.2 hp).1, (hm.2.2 hp).2⟩⟩

theorem G2_append {ts : List Task} (y : Task) (hy : y.subRes = .none) (h : G2 ts) : G2 (ts ++ [y]) := by
  intro id x hx
  rw [tinfo_append] at hx
  split at hx
  · exact h id x hx
  · split at hx
    · cases hx; rw [hy]; exact okInfo_none _ _
    · cases hx

theorem G2_modify_sent {ts : List Task} {j o : Nat} (hown : tinfo ts j = some (o, false, .none)) (h : G2 ts) :
    G2 (ts.modify j fun t => { t with sent := true }) := by
  intro id x hx
  rw [tinfo_modify_sent] at hx
  split at hx
  · rename_i hj; subst hj; rw [hown] at hx; cases hx; exact okInfo_none _ _
  · exact h id x hx

theorem G2_modify_subRes {ts : List Task} {j o : Nat} {b : Bool} {r : Res} (hown : tinfo ts j = some (o, b, .none))
    (hr : okInfo (o, b, r)) (h : G2 ts) : G2 (ts.modify j fun t => { t with subRes := r }) := by
  intro id x hx
  rw [tinfo_modify_subRes] at hx
  split at hx
  · rename_i hj; subst hj; rw [hown] at hx; cases hx; exact hr
  · exact h id x hx

theorem tinfo_modify_sent_ne (ts : List Task) (j i : Nat) (h : i ≠ j) :
    tinfo (ts.modify j fun t => { t with sent := true }) i = tinfo ts i := by
  rw [tinfo_modify_sent, if_neg (fun e => h e.symm)]

theorem tinfo_modify_subRes_ne (ts : List Task) (j i : Nat) (r : Res) (h : i ≠ j) :
    tinfo (ts.modify j fun t => { t with subRes := r }) i = tinfo ts i := by
  rw [tinfo_modify_subRes, if_neg (fun e => h e.symm)]

theorem invT_init : LT.Inv init := by
  refine ⟨?_, ?_, ?_⟩ <;> simp [LT, init, consT, runsN, sentN, tinfo, G2, CT]

theorem invT_wstep (c : Cfg) (s s' : St) (i : Nat) (a : WAct) (hi : LT.Inv s) (h : wStep c s i a = some s') :
    LT.Inv s' := by
  unfold wStep at h
  split at h
  next w hw =>
    have hg := hi.glob
    simp only [LT] at hg
    cases a <;> simp only [wAct] at h <;> (repeat' (split at h)) <;> (try simp at h) <;> (try subst h) <;>
      (refine Loc.inv_worker hw rfl rfl hi ?_ (fun _ => trivial) (fun _ _ _ _ _ => trivial) ?_
       · refine ⟨fun id => ?_, ?_⟩
         · have hc := hg.1 id
           have hpos : holdsT id w = true → 0 < s.workers.countP (holdsT id) :=
             countP_pos_of_getElem? (holdsT id) s.workers i w hw
           have hlt := sentN_pos_lt s.tasks id
           simp only [consT, setW_workers, setW_tasks, setW_queue, setW_returned] at hc ⊢
           rw [countP_set_eq (holdsT id) _ _ _ _ hw]
           generalize List.countP (holdsT id) s.workers = n at *
           first
           | (have hside : w.task = id → id < s.tasks.length := by
                intro e; subst e
                have : holdsT w.task w = true := by simp [holdsT, *]
                have := hpos this
                apply hlt; omega
              rw [runsN_modify_inc' _ _ _ hside]
              by_cases hid : w.task = id <;> simp_all [holdsT] <;> omega)
           | (by_cases hid : w.task = id <;> simp_all [holdsT, List.count_cons] <;> omega)
         · first
           | exact hg.2
           | (intro id x; simp only [setW_tasks, tinfo_modify_runs]; exact hg.2 id x)
       · first
         | exact fun _ h => h
         | (intro u hm; simp only [LT] at hm ⊢
            exact CT_congr (by simp only [setW_tasks, tinfo_modify_runs]) hm))
  next => simp at h

end Ekit.Pool
