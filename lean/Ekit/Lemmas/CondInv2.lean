/- Preservation of the structural invariant of the Cond model, part 2: list, channels, targets. -/
import Ekit.Lemmas.CondBasic
namespace Ekit.Cond
open Ekit.Conc
variable {s s' : State} {l : Label}

theorem tgt_eq (s : State) : ∀ t, s.mu = some t → s.tgt = (s.pc t).target := by
  intro t ht; simp [State.tgt, ht]
theorem tgt_none (s : State) : s.mu = none → s.tgt = none := by
  intro ht; simp [State.tgt, ht]

theorem listNodup_step (h : Inv s) (hs : step s l = some s') : s'.list.Nodup := by
  have h4 := h.listNodup; have h5 := h.inList
  step_cases hs <;>
    grind [Pc.node, Pc.listPc, List.Nodup.erase, List.nodup_cons, List.nodup_append]

theorem fullNodup_step (h : Inv s) (hs : step s l = some s') : s'.full.Nodup := by
  have h4 := h.fullNodup; have h5 := h.tgtOK; have h1 := h.mutex; have h9 := tgt_eq s
  step_cases hs <;>
    grind [Pc.inMu, Pc.target, List.Nodup.erase, List.nodup_cons]

theorem listFull_step (h : Inv s) (hs : step s l = some s') : ∀ n, n ∈ s'.list → n ∉ s'.full := by
  have h4 := h.listFull; have h5 := h.tgtOK; have h1 := h.mutex; have h9 := tgt_eq s
  have h6 := h.inFull
  step_cases hs <;> intro n <;>
    grind [Pc.inMu, Pc.target, Pc.node, Pc.fullPc, List.mem_of_mem_erase]

end Ekit.Cond
