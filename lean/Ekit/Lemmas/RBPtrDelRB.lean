/-
Deletion keeps the red-black colouring, at the pointer level: `deleteNode` of the translated
internal/tree/red_black_tree.go (MiniGo interpreter, real call handler) started in a heap that holds a red-black
tree leaves a heap that holds a red-black tree (`deleteNode_rb`).

Layers: (0) vocabulary (weighted black height `BHg`, weights `wz`: the phantom leaf counts 0, the cursor counts one
extra); (1) generic tree lemmas and context (`replace`) lemmas; (2)(3) the four CLRS fix-up cases and their mirror images on
explicit tree shapes; (4)(5) exact specifications of `setColor`/`getColor`/rotations and the explicit tree after a rotation;
(6)-(9) the loop/step invariants and the heap-level case lemmas; (10)-(12) symbolic execution of
`fixAfterDeleteLeft`/`Right` and of the loop of `fixAfterDelete`; (13)(14) the surgery of `deleteNode` and the theorem.
-/
import Ekit.Lemmas.RBPtrTop
import Ekit.MiniGo.RBColor
namespace Ekit.MiniGo.RBHeap.DelRB
open Ekit.MiniGo Ekit.Gen.RBTreeGo Ekit.MiniGo.RBHeap

/-! ## (0) vocabulary -/

/-- colour of a pointer (nil is black) -/
def colP (h : Nat → Node) : Option Nat → Bool
  | none => true
  | some a => (h a).color

/-- colour weight of a node -/
def cw (h : Nat → Node) (a : Nat) : Nat := if (h a).color then 1 else 0

/-- weight used during the fix-up: the phantom `z` counts 0, the cursor `c` (if any) counts one extra -/
def wz (h : Nat → Node) (z : Nat) (c : Option Nat) (a : Nat) : Nat :=
  (if a = z then 0 else cw h a) + (if c = some a then 1 else 0)

/-- black height with arbitrary node weights -/
def BHg (w : Nat → Nat) : PT → Nat → Prop
  | .leaf, n => n = 0
  | .node l a r, n => ∃ m, BHg w l m ∧ BHg w r m ∧ n = m + w a

/-- the heap with node `a` painted black -/
def blk (h : Nat → Node) (a : Nat) : Nat → Node := upd h a { h a with color := true }

/-- `setColor(a, b)` as a state transformer -/
def setCol (st : St) (a : Option Nat) (b : Bool) : St :=
  match a with
  | none => st
  | some n => { st with h := upd st.h n { st.h n with color := b } }

/-- the colour part of the invariant, with cursor bonus `c` -/
structure CInv (z : Nat) (c : Option Nat) (st : St) (t : PT) : Prop where
  holds : Holds st t
  root : blackAt st.h t
  nrr : NoRedRed st.h t
  bh : ∃ n, BHg (wz st.h z c) t n

/-! ## (1) generic tree-level lemmas -/

theorem nodup_node {l r : PT} {b : Nat} (hnd : (PT.node l b r).addrs.Nodup) :
    l.addrs.Nodup ∧ r.addrs.Nodup ∧ b ∉ l.addrs ∧ b ∉ r.addrs ∧ ∀ x, x ∈ l.addrs → x ∉ r.addrs := by
  simp only [PT.addrs] at hnd
  rw [List.nodup_append] at hnd
  obtain ⟨ndl, ndr', hdisj⟩ := hnd
  rw [List.nodup_cons] at ndr'
  obtain ⟨hbr, ndr⟩ := ndr'
  exact ⟨ndl, ndr, fun hb => hdisj b hb b (by simp) rfl, hbr,
    fun x hx hxr => hdisj x hx x (by simp [hxr]) rfl⟩

theorem sub_node_cases {l r : PT} {a b : Nat} {s : PT} (hs : (PT.node l b r).sub a = some s) :
    (a = b ∧ s = .node l b r) ∨ (a ≠ b ∧ l.sub a = some s) ∨ (a ≠ b ∧ l.sub a = none ∧ r.sub a = some s) := by
  by_cases hab : a = b
  · left; simp [PT.sub, hab] at hs; exact ⟨hab, hs.symm⟩
  · right
    simp only [PT.sub, hab, if_false] at hs
    cases hl : l.sub a with
    | some s' => simp [hl] at hs; subst hs; exact .inl ⟨hab, rfl⟩
    | none => simp [hl] at hs; exact .inr ⟨hab, rfl, hs⟩

theorem sub_node_cases' {l r : PT} {a b : Nat} {s : PT} (hnd : (PT.node l b r).addrs.Nodup)
    (hs : (PT.node l b r).sub a = some s) :
    (a = b ∧ s = .node l b r) ∨
    (a ≠ b ∧ l.sub a = some s ∧ a ∉ r.addrs ∧ b ∉ s.addrs ∧ (∀ x ∈ s.addrs, x ∈ l.addrs) ∧ ∀ x ∈ r.addrs, x ∉ s.addrs) ∨
    (a ≠ b ∧ r.sub a = some s ∧ a ∉ l.addrs ∧ b ∉ s.addrs ∧ (∀ x ∈ s.addrs, x ∈ r.addrs) ∧ ∀ x ∈ l.addrs, x ∉ s.addrs) := by
  obtain ⟨ndl, ndr, hbl, hbr, hdisj⟩ := nodup_node hnd
  rcases sub_node_cases hs with h | ⟨hab, hl⟩ | ⟨hab, _, hr⟩
  · exact .inl h
  · have hsl := (sub_spec hl).2
    exact .inr (.inl ⟨hab, hl, hdisj a (mem_of_sub hl), fun hb => hbl (hsl b hb), hsl,
      fun x hx hxs => hdisj x (hsl x hxs) hx⟩)
  · have hsr := (sub_spec hr).2
    exact .inr (.inr ⟨hab, hr, fun ha => hdisj a ha (mem_of_sub hr), fun hb => hbr (hsr b hb), hsr,
      fun x hx hxs => hdisj x hx (hsr x hxs)⟩)

theorem bh_iff (h : Nat → Node) : ∀ (t : PT) (n : Nat), BH h t n ↔ BHg (cw h) t n := by
  intro t
  induction t with
  | leaf => intro n; simp [BH, BHg]
  | node l a r ihl ihr =>
    intro n
    simp only [BH, BHg, cw, ihl, ihr]

theorem BHg.congr {w w' : Nat → Nat} : ∀ {t : PT} {n : Nat}, (∀ a ∈ t.addrs, w' a = w a) → BHg w t n → BHg w' t n := by
  intro t
  induction t with
  | leaf => intro n _ hb; simpa [BHg] using hb
  | node l a r ihl ihr =>
    intro n hw hb
    simp only [BHg] at hb ⊢
    obtain ⟨m, h1, h2, h3⟩ := hb
    refine ⟨m, ihl (fun b hb => hw b (by simp [PT.addrs, hb])) h1,
      ihr (fun b hb => hw b (by simp [PT.addrs, hb])) h2, ?_⟩
    rw [hw a (by simp [PT.addrs])]; exact h3

theorem BHg.unique {w : Nat → Nat} : ∀ {t : PT} {n m : Nat}, BHg w t n → BHg w t m → n = m := by
  intro t
  induction t with
  | leaf => intro n m h1 h2; simp only [BHg] at h1 h2; omega
  | node l a r ihl ihr =>
    intro n m h1 h2
    simp only [BHg] at h1 h2
    obtain ⟨k1, a1, _, c1⟩ := h1
    obtain ⟨k2, a2, _, c2⟩ := h2
    have := ihl a1 a2
    omega

theorem BHg.sub {w : Nat → Nat} : ∀ {t : PT} {n : Nat} {a : Nat} {s : PT}, BHg w t n → t.sub a = some s → ∃ k, BHg w s k := by
  intro t
  induction t with
  | leaf => intro n a s _ hs; simp [PT.sub] at hs
  | node l b r ihl ihr =>
    intro n a s hb hs
    rcases sub_node_cases hs with ⟨_, rfl⟩ | ⟨_, hl⟩ | ⟨_, _, hr⟩
    · exact ⟨n, hb⟩
    · simp only [BHg] at hb
      obtain ⟨m, h1, _, _⟩ := hb
      exact ihl h1 hl
    · simp only [BHg] at hb
      obtain ⟨m, _, h2, _⟩ := hb
      exact ihr h2 hr

/-- context lemma for the black height -/
theorem BHg.replace {w w' : Nat → Nat} : ∀ {t : PT} {n k : Nat} {a : Nat} {s s' : PT}, t.addrs.Nodup → t.sub a = some s →
    BHg w t n → BHg w s k → BHg w' s' k → (∀ b ∈ t.addrs, b ∉ s.addrs → w' b = w b) →
    BHg w' (t.replace a s') n := by
  intro t
  induction t with
  | leaf => intro n k a s s' _ hs; simp [PT.sub] at hs
  | node l b r ihl ihr =>
    intro n k a s s' hnd hs hb hk hk' hw
    obtain ⟨ndl, ndr, hbl, hbr, hdisj⟩ := nodup_node hnd
    rcases sub_node_cases' hnd hs with ⟨hab, rfl⟩ | ⟨hab, hl, har, hbs, hsl, hrs⟩ | ⟨hab, hr, hal, hbs, hsr, hls⟩
    · subst hab
      simp only [PT.replace, if_true]
      rw [BHg.unique hb hk]; exact hk'
    · simp only [PT.replace, hab, if_false, replace_of_not_mem har]
      simp only [BHg] at hb ⊢
      obtain ⟨m, h1, h2, h3⟩ := hb
      refine ⟨m, ihl ndl hl h1 hk hk' (fun c hc hcs => hw c (by simp [PT.addrs, hc]) hcs),
        BHg.congr (fun c hc => hw c (by simp [PT.addrs, hc]) (hrs c hc)) h2, ?_⟩
      rw [hw b (by simp [PT.addrs]) hbs]; exact h3
    · simp only [PT.replace, hab, if_false, replace_of_not_mem hal]
      simp only [BHg] at hb ⊢
      obtain ⟨m, h1, h2, h3⟩ := hb
      refine ⟨m, BHg.congr (fun c hc => hw c (by simp [PT.addrs, hc]) (hls c hc)) h1,
        ihr ndr hr h2 hk hk' (fun c hc hcs => hw c (by simp [PT.addrs, hc]) hcs), ?_⟩
      rw [hw b (by simp [PT.addrs]) hbs]; exact h3

theorem blackAt_congr {h h' : Nat → Node} {t : PT} (hc : ∀ a ∈ t.addrs, (h' a).color = (h a).color)
    (hb : blackAt h t) : blackAt h' t := by
  cases t with
  | leaf => trivial
  | node l a r =>
    simp only [blackAt] at hb ⊢
    rw [hc a (by simp [PT.addrs])]; exact hb

theorem nrr_congr {h h' : Nat → Node} : ∀ {t : PT}, (∀ a ∈ t.addrs, (h' a).color = (h a).color) →
    NoRedRed h t → NoRedRed h' t := by
  intro t
  induction t with
  | leaf => intro _ _; trivial
  | node l a r ihl ihr =>
    intro hc hn
    simp only [NoRedRed] at hn ⊢
    obtain ⟨h1, h2, h3⟩ := hn
    have hcl : ∀ b ∈ l.addrs, (h' b).color = (h b).color := fun b hb => hc b (by simp [PT.addrs, hb])
    have hcr : ∀ b ∈ r.addrs, (h' b).color = (h b).color := fun b hb => hc b (by simp [PT.addrs, hb])
    refine ⟨fun ha => ?_, ihl hcl h2, ihr hcr h3⟩
    rw [hc a (by simp [PT.addrs])] at ha
    exact ⟨blackAt_congr hcl (h1 ha).1, blackAt_congr hcr (h1 ha).2⟩

theorem nrr_sub {h : Nat → Node} : ∀ {t : PT} {a : Nat} {s : PT}, NoRedRed h t → t.sub a = some s → NoRedRed h s := by
  intro t
  induction t with
  | leaf => intro a s _ hs; simp [PT.sub] at hs
  | node l b r ihl ihr =>
    intro a s hn hs
    rcases sub_node_cases hs with ⟨_, rfl⟩ | ⟨_, hl⟩ | ⟨_, _, hr⟩
    · exact hn
    · simp only [NoRedRed] at hn; exact ihl hn.2.1 hl
    · simp only [NoRedRed] at hn; exact ihr hn.2.2 hr

/-- context lemma for the root colour -/
theorem blackAt_replace {h h' : Nat → Node} {t : PT} {a : Nat} {s s' : PT} (hnd : t.addrs.Nodup)
    (hs : t.sub a = some s) (hb : blackAt h t) (htop : blackAt h s → blackAt h' s')
    (hc : ∀ b ∈ t.addrs, b ∉ s.addrs → (h' b).color = (h b).color) : blackAt h' (t.replace a s') := by
  cases t with
  | leaf => simp [PT.sub] at hs
  | node l b r =>
    rcases sub_node_cases' hnd hs with ⟨hab, rfl⟩ | ⟨hab, _, _, hbs, _, _⟩ | ⟨hab, _, _, hbs, _, _⟩
    · subst hab; simp only [PT.replace, if_true]; exact htop hb
    · simp only [PT.replace, hab, if_false, blackAt] at hb ⊢
      rw [hc b (by simp [PT.addrs]) hbs]; exact hb
    · simp only [PT.replace, hab, if_false, blackAt] at hb ⊢
      rw [hc b (by simp [PT.addrs]) hbs]; exact hb

/-- context lemma for no-red-red -/
theorem nrr_replace {h h' : Nat → Node} : ∀ {t : PT} {a : Nat} {s s' : PT}, t.addrs.Nodup → t.sub a = some s →
    NoRedRed h t → NoRedRed h' s' → (blackAt h s → blackAt h' s') →
    (∀ b ∈ t.addrs, b ∉ s.addrs → (h' b).color = (h b).color) → NoRedRed h' (t.replace a s') := by
  intro t
  induction t with
  | leaf => intro a s s' _ hs; simp [PT.sub] at hs
  | node l b r ihl ihr =>
    intro a s s' hnd hs hn hn' htop hc
    obtain ⟨ndl, ndr, hbl, hbr, hdisj⟩ := nodup_node hnd
    rcases sub_node_cases' hnd hs with ⟨hab, rfl⟩ | ⟨hab, hl, har, hbs, hsl, hrs⟩ | ⟨hab, hr, hal, hbs, hsr, hls⟩
    · subst hab; simp only [PT.replace, if_true]; exact hn'
    · simp only [PT.replace, hab, if_false, replace_of_not_mem har]
      simp only [NoRedRed] at hn ⊢
      obtain ⟨h1, h2, h3⟩ := hn
      have hcl : ∀ c ∈ l.addrs, c ∉ s.addrs → (h' c).color = (h c).color :=
        fun c hc' hcs => hc c (by simp [PT.addrs, hc']) hcs
      have hcr : ∀ c ∈ r.addrs, (h' c).color = (h c).color :=
        fun c hc' => hc c (by simp [PT.addrs, hc']) (hrs c hc')
      refine ⟨fun hb => ?_, ihl ndl hl h2 hn' htop hcl, nrr_congr hcr h3⟩
      rw [hc b (by simp [PT.addrs]) hbs] at hb
      exact ⟨blackAt_replace ndl hl (h1 hb).1 htop hcl, blackAt_congr hcr (h1 hb).2⟩
    · simp only [PT.replace, hab, if_false, replace_of_not_mem hal]
      simp only [NoRedRed] at hn ⊢
      obtain ⟨h1, h2, h3⟩ := hn
      have hcl : ∀ c ∈ l.addrs, (h' c).color = (h c).color :=
        fun c hc' => hc c (by simp [PT.addrs, hc']) (hls c hc')
      have hcr : ∀ c ∈ r.addrs, c ∉ s.addrs → (h' c).color = (h c).color :=
        fun c hc' hcs => hc c (by simp [PT.addrs, hc']) hcs
      refine ⟨fun hb => ?_, nrr_congr hcl h2, ihr ndr hr h3 hn' htop hcr⟩
      rw [hc b (by simp [PT.addrs]) hbs] at hb
      exact ⟨blackAt_congr hcl (h1 hb).1, blackAt_replace ndr hr (h1 hb).2 htop hcr⟩

/-- `replace_self` under the (needed) hypothesis that addresses are distinct -/
theorem replace_self : ∀ {t : PT} {a : Nat} {s : PT}, t.addrs.Nodup → t.sub a = some s → t.replace a s = t := by
  intro t
  induction t with
  | leaf => intro a s _ hs; simp [PT.sub] at hs
  | node l b r ihl ihr =>
    intro a s hnd hs
    obtain ⟨ndl, ndr, _, _, _⟩ := nodup_node hnd
    rcases sub_node_cases' hnd hs with ⟨hab, rfl⟩ | ⟨hab, hl, har, _, _, _⟩ | ⟨hab, hr, hal, _, _, _⟩
    · simp [PT.replace, hab]
    · simp only [PT.replace, hab, if_false, ihl ndl hl, replace_of_not_mem har]
    · simp only [PT.replace, hab, if_false, ihr ndr hr, replace_of_not_mem hal]

theorem blackAt_blk {h : Nat → Node} (a : Nat) {t : PT} (hb : blackAt h t) : blackAt (blk h a) t := by
  cases t with
  | leaf => trivial
  | node l b r =>
    simp only [blackAt, blk, upd] at hb ⊢
    by_cases hba : b = a
    · simp [hba]
    · simp [hba, hb]

/-- painting a node black keeps no-red-red -/
theorem nrr_blk {h : Nat → Node} (a : Nat) : ∀ {t : PT}, NoRedRed h t → NoRedRed (blk h a) t := by
  intro t
  induction t with
  | leaf => intro _; trivial
  | node l b r ihl ihr =>
    intro hn
    simp only [NoRedRed] at hn ⊢
    obtain ⟨h1, h2, h3⟩ := hn
    refine ⟨fun hb => ?_, ihl h2, ihr h3⟩
    have hb' : (h b).color = false := by
      simp only [blk, upd] at hb
      by_cases hba : b = a
      · simp [hba] at hb
      · simpa [hba] using hb
    exact ⟨blackAt_blk a (h1 hb').1, blackAt_blk a (h1 hb').2⟩

/-- changing the weight of the top node -/
theorem BHg.top {w w' : Nat → Nat} {l r : PT} {a n : Nat} (hnd : (PT.node l a r).addrs.Nodup)
    (hw : ∀ b, b ≠ a → w' b = w b) (hb : BHg w (.node l a r) n) : BHg w' (.node l a r) (n - w a + w' a) := by
  obtain ⟨_, _, hal, har, _⟩ := nodup_node hnd
  simp only [BHg] at hb ⊢
  obtain ⟨m, h1, h2, h3⟩ := hb
  refine ⟨m, BHg.congr (fun b hb => hw b (fun e => hal (e ▸ hb))) h1,
    BHg.congr (fun b hb => hw b (fun e => har (e ▸ hb))) h2, ?_⟩
  omega

/-! ## (2) tree-level case lemmas: cursor `c` on the left -/

section cases
variable {h h' : Nat → Node} {z c p s : Nat}

/-- case 1, left: the sibling `s` is red; `s := black`, `p := red`, rotate left at `p` -/
theorem caseL1 {S B C : PT} {k : Nat}
    (hnd : (PT.node S p (.node B s C)).addrs.Nodup) (hc : S.ptr = some c) (hz : z ∈ S.addrs)
    (hs : (h s).color = false) (hcb : (h c).color = true)
    (h1 : (h' s).color = true) (h2 : (h' p).color = false)
    (h3 : ∀ a, a ≠ s → a ≠ p → (h' a).color = (h a).color)
    (hn : NoRedRed h (.node S p (.node B s C))) (hb : BHg (wz h z (some c)) (.node S p (.node B s C)) k) :
    NoRedRed h' (.node (.node S p B) s C) ∧ BHg (wz h' z (some c)) (.node (.node S p B) s C) k ∧
      blackAt h' B := by
  cases S with
  | leaf => simp [PT.ptr] at hc
  | node Sl c0 Sr =>
    simp only [PT.ptr, Option.some.injEq] at hc; subst hc
    simp only [PT.addrs] at hnd hz
    have hSl : ∀ a ∈ Sl.addrs, a ≠ s ∧ a ≠ p ∧ a ≠ c0 := by grind [List.nodup_append, List.nodup_cons]
    have hSr : ∀ a ∈ Sr.addrs, a ≠ s ∧ a ≠ p ∧ a ≠ c0 := by grind [List.nodup_append, List.nodup_cons]
    have hBa : ∀ a ∈ B.addrs, a ≠ s ∧ a ≠ p ∧ a ≠ c0 ∧ a ≠ z := by grind [List.nodup_append, List.nodup_cons]
    have hCa : ∀ a ∈ C.addrs, a ≠ s ∧ a ≠ p ∧ a ≠ c0 ∧ a ≠ z := by grind [List.nodup_append, List.nodup_cons]
    have hne : c0 ≠ s ∧ c0 ≠ p ∧ p ≠ s ∧ z ≠ s ∧ z ≠ p := by grind [List.nodup_append, List.nodup_cons]
    simp only [BHg, NoRedRed] at hb hn ⊢
    obtain ⟨m, ⟨ms, bSl, bSr, em⟩, ⟨mb, bB, bC, em2⟩, ek⟩ := hb
    obtain ⟨np, ⟨nc, nSl, nSr⟩, ns, nB, nC⟩ := hn
    have hp : (h p).color = true := by
      cases hpc : (h p).color
      · have := (np hpc).2; simp [blackAt, hs] at this
      · rfl
    have cSl : ∀ a ∈ Sl.addrs, (h' a).color = (h a).color := fun a ha => h3 a (hSl a ha).1 (hSl a ha).2.1
    have cSr : ∀ a ∈ Sr.addrs, (h' a).color = (h a).color := fun a ha => h3 a (hSr a ha).1 (hSr a ha).2.1
    have cB : ∀ a ∈ B.addrs, (h' a).color = (h a).color := fun a ha => h3 a (hBa a ha).1 (hBa a ha).2.1
    have cC : ∀ a ∈ C.addrs, (h' a).color = (h a).color := fun a ha => h3 a (hCa a ha).1 (hCa a ha).2.1
    have hc0 : (h' c0).color = (h c0).color := h3 c0 hne.1 hne.2.1
    have bB' : blackAt h' B := blackAt_congr cB (ns hs).1
    have bC' : blackAt h' C := blackAt_congr cC (ns hs).2
    obtain ⟨e1, e2, e3, e4, e5⟩ := hne
    have e4' : s ≠ z := fun e => e4 e.symm
    have e5' : p ≠ z := fun e => e5 e.symm
    have ws : wz h z (some c0) s = 0 := by simp [wz, cw, *]
    have wp : wz h z (some c0) p = 1 := by simp [wz, cw, *]
    have ws' : wz h' z (some c0) s = 1 := by simp [wz, cw, *]
    have wp' : wz h' z (some c0) p = 0 := by simp [wz, cw, *]
    have wc : wz h' z (some c0) c0 = wz h z (some c0) c0 := by simp [wz, cw, hc0]
    rw [ws] at em2; rw [wp] at ek
    have : mb = m := by omega
    subst this
    refine ⟨⟨fun hh => by simp [h1] at hh, ⟨fun _ => ⟨by simp [blackAt, hc0, hcb], bB'⟩, ⟨fun hh => ?_, nrr_congr cSl nSl, nrr_congr cSr nSr⟩,
      nrr_congr cB nB⟩, nrr_congr cC nC⟩, ⟨mb, ⟨mb, ⟨ms, ?_, ?_, ?_⟩, ?_, ?_⟩, ?_, ?_⟩, bB'⟩
    · rw [hc0] at hh; exact ⟨blackAt_congr cSl (nc hh).1, blackAt_congr cSr (nc hh).2⟩
    · exact BHg.congr (fun a ha => by simp [wz, cw, cSl a ha]) bSl
    · exact BHg.congr (fun a ha => by simp [wz, cw, cSr a ha]) bSr
    · rw [wc]; exact em
    · exact BHg.congr (fun a ha => by simp [wz, cw, cB a ha]) bB
    · rw [wp']; rfl
    · exact BHg.congr (fun a ha => by simp [wz, cw, cC a ha]) bC
    · rw [ws']; exact ek

/-- case 2, left: sibling black with two black children; `s := red`, the cursor moves to `p` -/
theorem caseL2 {S B C : PT} {k : Nat}
    (hnd : (PT.node S p (.node B s C)).addrs.Nodup) (hc : S.ptr = some c) (hz : z ∈ S.addrs)
    (hs : (h s).color = true) (hB : blackAt h B) (hC : blackAt h C)
    (h1 : (h' s).color = false) (h3 : ∀ a, a ≠ s → (h' a).color = (h a).color)
    (hn : NoRedRed h (.node S p (.node B s C))) (hb : BHg (wz h z (some c)) (.node S p (.node B s C)) k) :
    NoRedRed (blk h' p) (.node S p (.node B s C)) ∧ BHg (wz h' z (some p)) (.node S p (.node B s C)) k := by
  cases S with
  | leaf => simp [PT.ptr] at hc
  | node Sl c0 Sr =>
    simp only [PT.ptr, Option.some.injEq] at hc; subst hc
    simp only [PT.addrs] at hnd hz
    have hSl : ∀ a ∈ Sl.addrs, a ≠ s ∧ a ≠ p ∧ c0 ≠ a ∧ p ≠ a := by grind [List.nodup_append, List.nodup_cons]
    have hSr : ∀ a ∈ Sr.addrs, a ≠ s ∧ a ≠ p ∧ c0 ≠ a ∧ p ≠ a := by grind [List.nodup_append, List.nodup_cons]
    have hBa : ∀ a ∈ B.addrs, a ≠ s ∧ a ≠ p ∧ c0 ≠ a ∧ p ≠ a := by grind [List.nodup_append, List.nodup_cons]
    have hCa : ∀ a ∈ C.addrs, a ≠ s ∧ a ≠ p ∧ c0 ≠ a ∧ p ≠ a := by grind [List.nodup_append, List.nodup_cons]
    have hne : c0 ≠ s ∧ c0 ≠ p ∧ p ≠ s ∧ s ≠ z ∧ p ≠ z ∧ p ≠ c0 ∧ s ≠ c0 ∧ s ≠ p := by
      grind [List.nodup_append, List.nodup_cons]
    simp only [BHg, NoRedRed] at hb hn ⊢
    obtain ⟨m, ⟨ms, bSl, bSr, em⟩, ⟨mb, bB, bC, em2⟩, ek⟩ := hb
    obtain ⟨np, ⟨nc, nSl, nSr⟩, ns, nB, nC⟩ := hn
    obtain ⟨e1, e2, e3, e4, e5, e6, e7, e8⟩ := hne
    have gp : (blk h' p p).color = true := by simp [blk, upd]
    have gne : ∀ a, a ≠ s → a ≠ p → (blk h' p a).color = (h a).color := by
      intro a h1 h2; simp [blk, upd, h2, h3 a h1]
    have cSl : ∀ a ∈ Sl.addrs, (blk h' p a).color = (h a).color := fun a ha => gne a (hSl a ha).1 (hSl a ha).2.1
    have cSr : ∀ a ∈ Sr.addrs, (blk h' p a).color = (h a).color := fun a ha => gne a (hSr a ha).1 (hSr a ha).2.1
    have cB : ∀ a ∈ B.addrs, (blk h' p a).color = (h a).color := fun a ha => gne a (hBa a ha).1 (hBa a ha).2.1
    have cC : ∀ a ∈ C.addrs, (blk h' p a).color = (h a).color := fun a ha => gne a (hCa a ha).1 (hCa a ha).2.1
    have hc0 : (blk h' p c0).color = (h c0).color := gne c0 e1 e2
    have ws : wz h z (some c0) s = 1 := by simp [wz, cw, *]
    have ws' : wz h' z (some p) s = 0 := by simp [wz, cw, *]
    have wp' : wz h' z (some p) p = wz h z (some c0) p + 1 := by simp [wz, cw, h3 p e3, *]
    have wc : wz h z (some c0) c0 = wz h' z (some p) c0 + 1 := by simp [wz, cw, h3 c0 e1, *]
    refine ⟨⟨fun hh => by simp [gp] at hh, ⟨fun hh => ?_, nrr_congr cSl nSl, nrr_congr cSr nSr⟩,
      fun _ => ⟨blackAt_congr cB hB, blackAt_congr cC hC⟩, nrr_congr cB nB, nrr_congr cC nC⟩,
      ⟨mb, ⟨ms, ?_, ?_, ?_⟩, ⟨mb, ?_, ?_, ?_⟩, ?_⟩⟩
    · rw [hc0] at hh; exact ⟨blackAt_congr cSl (nc hh).1, blackAt_congr cSr (nc hh).2⟩
    · exact BHg.congr (fun a ha => by have := hSl a ha; simp [wz, cw, h3 a this.1, this]) bSl
    · exact BHg.congr (fun a ha => by have := hSr a ha; simp [wz, cw, h3 a this.1, this]) bSr
    · omega
    · exact BHg.congr (fun a ha => by have := hBa a ha; simp [wz, cw, h3 a this.1, this]) bB
    · exact BHg.congr (fun a ha => by have := hCa a ha; simp [wz, cw, h3 a this.1, this]) bC
    · omega
    · omega

/-- case 3, left (at the sibling): `s` black, near child `sl` red, far child black;
    `sl := black`, `s := red`, rotate right at `s` -/
theorem caseL3 {B1 B2 C : PT} {sl k : Nat}
    (hnd : (PT.node (.node B1 sl B2) s C).addrs.Nodup) (hz : z ∉ (PT.node (.node B1 sl B2) s C).addrs)
    (hcn : c ∉ (PT.node (.node B1 sl B2) s C).addrs)
    (hs : (h s).color = true) (hsl : (h sl).color = false) (hC : blackAt h C)
    (h1 : (h' sl).color = true) (h2 : (h' s).color = false)
    (h3 : ∀ a, a ≠ s → a ≠ sl → (h' a).color = (h a).color)
    (hn : NoRedRed h (.node (.node B1 sl B2) s C)) (hb : BHg (wz h z (some c)) (.node (.node B1 sl B2) s C) k) :
    NoRedRed h' (.node B1 sl (.node B2 s C)) ∧ BHg (wz h' z (some c)) (.node B1 sl (.node B2 s C)) k := by
  simp only [PT.addrs] at hnd hz hcn
  have hB1 : ∀ a ∈ B1.addrs, a ≠ s ∧ a ≠ sl := by grind [List.nodup_append, List.nodup_cons]
  have hB2 : ∀ a ∈ B2.addrs, a ≠ s ∧ a ≠ sl := by grind [List.nodup_append, List.nodup_cons]
  have hCa : ∀ a ∈ C.addrs, a ≠ s ∧ a ≠ sl := by grind [List.nodup_append, List.nodup_cons]
  have hne : s ≠ z ∧ sl ≠ z ∧ c ≠ s ∧ c ≠ sl := by grind [List.nodup_append, List.nodup_cons]
  simp only [BHg, NoRedRed] at hb hn ⊢
  obtain ⟨m, ⟨m1, bB1, bB2, em⟩, bC, ek⟩ := hb
  obtain ⟨-, ⟨nsl, nB1, nB2⟩, nC⟩ := hn
  obtain ⟨e1, e2, e3, e4⟩ := hne
  have cB1 : ∀ a ∈ B1.addrs, (h' a).color = (h a).color := fun a ha => h3 a (hB1 a ha).1 (hB1 a ha).2
  have cB2 : ∀ a ∈ B2.addrs, (h' a).color = (h a).color := fun a ha => h3 a (hB2 a ha).1 (hB2 a ha).2
  have cC : ∀ a ∈ C.addrs, (h' a).color = (h a).color := fun a ha => h3 a (hCa a ha).1 (hCa a ha).2
  have ws : wz h z (some c) s = 1 := by simp [wz, cw, *]
  have wsl : wz h z (some c) sl = 0 := by simp [wz, cw, *]
  have ws' : wz h' z (some c) s = 0 := by simp [wz, cw, *]
  have wsl' : wz h' z (some c) sl = 1 := by simp [wz, cw, *]
  have : m1 = m := by omega
  subst this
  refine ⟨⟨fun hh => by simp [h1] at hh, nrr_congr cB1 nB1,
      fun _ => ⟨blackAt_congr cB2 (nsl hsl).2, blackAt_congr cC hC⟩, nrr_congr cB2 nB2, nrr_congr cC nC⟩,
    ⟨m1, ?_, ⟨m1, ?_, ?_, ?_⟩, ?_⟩⟩
  · exact BHg.congr (fun a ha => by simp [wz, cw, cB1 a ha]) bB1
  · exact BHg.congr (fun a ha => by simp [wz, cw, cB2 a ha]) bB2
  · exact BHg.congr (fun a ha => by simp [wz, cw, cC a ha]) bC
  · omega
  · omega

/-- case 4, left: `s` black, far child `sr` red; `s := colour of p`, `p := black`, `sr := black`,
    rotate left at `p`; the deficit is repaired -/
theorem caseL4 {S B C1 C2 : PT} {sr k : Nat}
    (hnd : (PT.node S p (.node B s (.node C1 sr C2))).addrs.Nodup) (hc : S.ptr = some c) (hz : z ∈ S.addrs)
    (hs : (h s).color = true) (hsr : (h sr).color = false)
    (h1 : (h' s).color = (h p).color) (h2 : (h' p).color = true) (h4 : (h' sr).color = true)
    (h3 : ∀ a, a ≠ s → a ≠ p → a ≠ sr → (h' a).color = (h a).color)
    (hn : NoRedRed h (.node S p (.node B s (.node C1 sr C2))))
    (hb : BHg (wz h z (some c)) (.node S p (.node B s (.node C1 sr C2))) k) :
    NoRedRed h' (.node (.node S p B) s (.node C1 sr C2)) ∧
      BHg (wz h' z none) (.node (.node S p B) s (.node C1 sr C2)) k := by
  cases S with
  | leaf => simp [PT.ptr] at hc
  | node Sl c0 Sr =>
    simp only [PT.ptr, Option.some.injEq] at hc; subst hc
    simp only [PT.addrs] at hnd hz
    simp only [List.nodup_append, List.nodup_cons, List.mem_append, List.mem_cons] at hnd hz
    have hSl : ∀ a ∈ Sl.addrs, a ≠ s ∧ a ≠ p ∧ a ≠ sr ∧ c0 ≠ a := by grind
    have hSr : ∀ a ∈ Sr.addrs, a ≠ s ∧ a ≠ p ∧ a ≠ sr ∧ c0 ≠ a := by grind
    have hBa : ∀ a ∈ B.addrs, a ≠ s ∧ a ≠ p ∧ a ≠ sr ∧ c0 ≠ a := by grind
    have hC1 : ∀ a ∈ C1.addrs, a ≠ s ∧ a ≠ p ∧ a ≠ sr ∧ c0 ≠ a := by grind
    have hC2 : ∀ a ∈ C2.addrs, a ≠ s ∧ a ≠ p ∧ a ≠ sr ∧ c0 ≠ a := by grind
    have hne : c0 ≠ s ∧ c0 ≠ p ∧ c0 ≠ sr ∧ s ≠ z ∧ p ≠ z ∧ sr ≠ z := by grind
    simp only [BHg, NoRedRed] at hb hn ⊢
    obtain ⟨m, ⟨ms, bSl, bSr, em⟩, ⟨mb, bB, ⟨mc, bC1, bC2, emc⟩, em2⟩, ek⟩ := hb
    obtain ⟨-, ⟨nc, nSl, nSr⟩, -, nB, -, nC1, nC2⟩ := hn
    obtain ⟨e1, e2, e3, e4, e5, e6⟩ := hne
    have cSl : ∀ a ∈ Sl.addrs, (h' a).color = (h a).color := fun a ha => h3 a (hSl a ha).1 (hSl a ha).2.1 (hSl a ha).2.2.1
    have cSr : ∀ a ∈ Sr.addrs, (h' a).color = (h a).color := fun a ha => h3 a (hSr a ha).1 (hSr a ha).2.1 (hSr a ha).2.2.1
    have cB : ∀ a ∈ B.addrs, (h' a).color = (h a).color := fun a ha => h3 a (hBa a ha).1 (hBa a ha).2.1 (hBa a ha).2.2.1
    have cC1 : ∀ a ∈ C1.addrs, (h' a).color = (h a).color := fun a ha => h3 a (hC1 a ha).1 (hC1 a ha).2.1 (hC1 a ha).2.2.1
    have cC2 : ∀ a ∈ C2.addrs, (h' a).color = (h a).color := fun a ha => h3 a (hC2 a ha).1 (hC2 a ha).2.1 (hC2 a ha).2.2.1
    have hc0 : (h' c0).color = (h c0).color := h3 c0 e1 e2 e3
    have ws : wz h z (some c0) s = 1 := by simp [wz, cw, *]
    have wsr : wz h z (some c0) sr = 0 := by simp [wz, cw, *]
    have wp' : wz h' z none p = 1 := by simp [wz, cw, *]
    have wsr' : wz h' z none sr = 1 := by simp [wz, cw, *]
    have ws' : wz h' z none s = wz h z (some c0) p := by simp [wz, cw, *]
    have wc : wz h z (some c0) c0 = wz h' z none c0 + 1 := by simp [wz, cw, hc0]
    have : mc = mb := by omega
    subst this
    refine ⟨⟨fun _ => ⟨by simp [blackAt, h2], by simp [blackAt, h4]⟩,
        ⟨fun hh => by simp [h2] at hh, ⟨fun hh => ?_, nrr_congr cSl nSl, nrr_congr cSr nSr⟩, nrr_congr cB nB⟩,
        fun hh => by simp [h4] at hh, nrr_congr cC1 nC1, nrr_congr cC2 nC2⟩,
      ⟨m, ⟨mc, ⟨ms, ?_, ?_, ?_⟩, ?_, ?_⟩, ⟨mc, ?_, ?_, ?_⟩, ?_⟩⟩
    · rw [hc0] at hh; exact ⟨blackAt_congr cSl (nc hh).1, blackAt_congr cSr (nc hh).2⟩
    · exact BHg.congr (fun a ha => by have := hSl a ha; simp [wz, cw, cSl a ha, this]) bSl
    · exact BHg.congr (fun a ha => by have := hSr a ha; simp [wz, cw, cSr a ha, this]) bSr
    · omega
    · exact BHg.congr (fun a ha => by have := hBa a ha; simp [wz, cw, cB a ha, this]) bB
    · omega
    · exact BHg.congr (fun a ha => by have := hC1 a ha; simp [wz, cw, cC1 a ha, this]) bC1
    · exact BHg.congr (fun a ha => by have := hC2 a ha; simp [wz, cw, cC2 a ha, this]) bC2
    · omega
    · omega

/-! ## (3) tree-level case lemmas: cursor `c` on the right (mirror images) -/

/-- case 1, right: sibling `s` (on the left) red; `s := black`, `p := red`, rotate right at `p` -/
theorem caseR1 {S A B : PT} {k : Nat}
    (hnd : (PT.node (.node A s B) p S).addrs.Nodup) (hc : S.ptr = some c) (hz : z ∈ S.addrs)
    (hs : (h s).color = false) (hcb : (h c).color = true)
    (h1 : (h' s).color = true) (h2 : (h' p).color = false)
    (h3 : ∀ a, a ≠ s → a ≠ p → (h' a).color = (h a).color)
    (hn : NoRedRed h (.node (.node A s B) p S)) (hb : BHg (wz h z (some c)) (.node (.node A s B) p S) k) :
    NoRedRed h' (.node A s (.node B p S)) ∧ BHg (wz h' z (some c)) (.node A s (.node B p S)) k ∧
      blackAt h' B := by
  cases S with
  | leaf => simp [PT.ptr] at hc
  | node Sl c0 Sr =>
    simp only [PT.ptr, Option.some.injEq] at hc; subst hc
    simp only [PT.addrs] at hnd hz
    simp only [List.nodup_append, List.nodup_cons, List.mem_append, List.mem_cons] at hnd hz
    have hSl : ∀ a ∈ Sl.addrs, a ≠ s ∧ a ≠ p := by grind
    have hSr : ∀ a ∈ Sr.addrs, a ≠ s ∧ a ≠ p := by grind
    have hAa : ∀ a ∈ A.addrs, a ≠ s ∧ a ≠ p := by grind
    have hBa : ∀ a ∈ B.addrs, a ≠ s ∧ a ≠ p := by grind
    have hne : c0 ≠ s ∧ c0 ≠ p ∧ p ≠ s ∧ s ≠ z ∧ p ≠ z := by grind
    simp only [BHg, NoRedRed] at hb hn ⊢
    obtain ⟨m, ⟨ma, bA, bB, em2⟩, ⟨ms, bSl, bSr, em⟩, ek⟩ := hb
    obtain ⟨np, ⟨ns, nA, nB⟩, nc, nSl, nSr⟩ := hn
    have hp : (h p).color = true := by
      cases hpc : (h p).color
      · have := (np hpc).1; simp [blackAt, hs] at this
      · rfl
    have cSl : ∀ a ∈ Sl.addrs, (h' a).color = (h a).color := fun a ha => h3 a (hSl a ha).1 (hSl a ha).2
    have cSr : ∀ a ∈ Sr.addrs, (h' a).color = (h a).color := fun a ha => h3 a (hSr a ha).1 (hSr a ha).2
    have cA : ∀ a ∈ A.addrs, (h' a).color = (h a).color := fun a ha => h3 a (hAa a ha).1 (hAa a ha).2
    have cB : ∀ a ∈ B.addrs, (h' a).color = (h a).color := fun a ha => h3 a (hBa a ha).1 (hBa a ha).2
    obtain ⟨e1, e2, e3, e4, e5⟩ := hne
    have hc0 : (h' c0).color = (h c0).color := h3 c0 e1 e2
    have bA' : blackAt h' A := blackAt_congr cA (ns hs).1
    have bB' : blackAt h' B := blackAt_congr cB (ns hs).2
    have ws : wz h z (some c0) s = 0 := by simp [wz, cw, *]
    have wp : wz h z (some c0) p = 1 := by simp [wz, cw, *]
    have ws' : wz h' z (some c0) s = 1 := by simp [wz, cw, *]
    have wp' : wz h' z (some c0) p = 0 := by simp [wz, cw, *]
    have wc : wz h' z (some c0) c0 = wz h z (some c0) c0 := by simp [wz, cw, hc0]
    have : ma = m := by omega
    subst this
    refine ⟨⟨fun hh => by simp [h1] at hh, nrr_congr cA nA, fun _ => ⟨bB', by simp [blackAt, hc0, hcb]⟩, nrr_congr cB nB,
        fun hh => ?_, nrr_congr cSl nSl, nrr_congr cSr nSr⟩,
      ⟨ma, ?_, ⟨ma, ?_, ⟨ms, ?_, ?_, ?_⟩, ?_⟩, ?_⟩, bB'⟩
    · rw [hc0] at hh; exact ⟨blackAt_congr cSl (nc hh).1, blackAt_congr cSr (nc hh).2⟩
    · exact BHg.congr (fun a ha => by simp [wz, cw, cA a ha]) bA
    · exact BHg.congr (fun a ha => by simp [wz, cw, cB a ha]) bB
    · exact BHg.congr (fun a ha => by simp [wz, cw, cSl a ha]) bSl
    · exact BHg.congr (fun a ha => by simp [wz, cw, cSr a ha]) bSr
    · omega
    · omega
    · omega

/-- case 2, right -/
theorem caseR2 {S A B : PT} {k : Nat}
    (hnd : (PT.node (.node A s B) p S).addrs.Nodup) (hc : S.ptr = some c) (hz : z ∈ S.addrs)
    (hs : (h s).color = true) (hA : blackAt h A) (hB : blackAt h B)
    (h1 : (h' s).color = false) (h3 : ∀ a, a ≠ s → (h' a).color = (h a).color)
    (hn : NoRedRed h (.node (.node A s B) p S)) (hb : BHg (wz h z (some c)) (.node (.node A s B) p S) k) :
    NoRedRed (blk h' p) (.node (.node A s B) p S) ∧ BHg (wz h' z (some p)) (.node (.node A s B) p S) k := by
  cases S with
  | leaf => simp [PT.ptr] at hc
  | node Sl c0 Sr =>
    simp only [PT.ptr, Option.some.injEq] at hc; subst hc
    simp only [PT.addrs] at hnd hz
    simp only [List.nodup_append, List.nodup_cons, List.mem_append, List.mem_cons] at hnd hz
    have hSl : ∀ a ∈ Sl.addrs, a ≠ s ∧ a ≠ p ∧ c0 ≠ a ∧ p ≠ a := by grind
    have hSr : ∀ a ∈ Sr.addrs, a ≠ s ∧ a ≠ p ∧ c0 ≠ a ∧ p ≠ a := by grind
    have hAa : ∀ a ∈ A.addrs, a ≠ s ∧ a ≠ p ∧ c0 ≠ a ∧ p ≠ a := by grind
    have hBa : ∀ a ∈ B.addrs, a ≠ s ∧ a ≠ p ∧ c0 ≠ a ∧ p ≠ a := by grind
    have hne : c0 ≠ s ∧ c0 ≠ p ∧ p ≠ s ∧ s ≠ z ∧ p ≠ z ∧ p ≠ c0 ∧ s ≠ c0 ∧ s ≠ p := by grind
    simp only [BHg, NoRedRed] at hb hn ⊢
    obtain ⟨m, ⟨ma, bA, bB, em2⟩, ⟨ms, bSl, bSr, em⟩, ek⟩ := hb
    obtain ⟨np, ⟨ns, nA, nB⟩, nc, nSl, nSr⟩ := hn
    obtain ⟨e1, e2, e3, e4, e5, e6, e7, e8⟩ := hne
    have gp : (blk h' p p).color = true := by simp [blk, upd]
    have gne : ∀ a, a ≠ s → a ≠ p → (blk h' p a).color = (h a).color := by
      intro a h1 h2; simp [blk, upd, h2, h3 a h1]
    have cSl : ∀ a ∈ Sl.addrs, (blk h' p a).color = (h a).color := fun a ha => gne a (hSl a ha).1 (hSl a ha).2.1
    have cSr : ∀ a ∈ Sr.addrs, (blk h' p a).color = (h a).color := fun a ha => gne a (hSr a ha).1 (hSr a ha).2.1
    have cA : ∀ a ∈ A.addrs, (blk h' p a).color = (h a).color := fun a ha => gne a (hAa a ha).1 (hAa a ha).2.1
    have cB : ∀ a ∈ B.addrs, (blk h' p a).color = (h a).color := fun a ha => gne a (hBa a ha).1 (hBa a ha).2.1
    have hc0 : (blk h' p c0).color = (h c0).color := gne c0 e1 e2
    have ws : wz h z (some c0) s = 1 := by simp [wz, cw, *]
    have ws' : wz h' z (some p) s = 0 := by simp [wz, cw, *]
    have wp' : wz h' z (some p) p = wz h z (some c0) p + 1 := by simp [wz, cw, h3 p e3, *]
    have wc : wz h z (some c0) c0 = wz h' z (some p) c0 + 1 := by simp [wz, cw, h3 c0 e1, *]
    refine ⟨⟨fun hh => by simp [gp] at hh,
        ⟨fun _ => ⟨blackAt_congr cA hA, blackAt_congr cB hB⟩, nrr_congr cA nA, nrr_congr cB nB⟩,
        fun hh => ?_, nrr_congr cSl nSl, nrr_congr cSr nSr⟩,
      ⟨ma, ⟨ma, ?_, ?_, ?_⟩, ⟨ms, ?_, ?_, ?_⟩, ?_⟩⟩
    · rw [hc0] at hh; exact ⟨blackAt_congr cSl (nc hh).1, blackAt_congr cSr (nc hh).2⟩
    · exact BHg.congr (fun a ha => by have := hAa a ha; simp [wz, cw, h3 a this.1, this]) bA
    · exact BHg.congr (fun a ha => by have := hBa a ha; simp [wz, cw, h3 a this.1, this]) bB
    · omega
    · exact BHg.congr (fun a ha => by have := hSl a ha; simp [wz, cw, h3 a this.1, this]) bSl
    · exact BHg.congr (fun a ha => by have := hSr a ha; simp [wz, cw, h3 a this.1, this]) bSr
    · omega
    · omega

/-- case 3, right (at the sibling): `s` black, near child `sr` (its right child) red, far child (left) black;
    `sr := black`, `s := red`, rotate left at `s` -/
theorem caseR3 {A B1 B2 : PT} {sr k : Nat}
    (hnd : (PT.node A s (.node B1 sr B2)).addrs.Nodup) (hz : z ∉ (PT.node A s (.node B1 sr B2)).addrs)
    (hcn : c ∉ (PT.node A s (.node B1 sr B2)).addrs)
    (hs : (h s).color = true) (hsr : (h sr).color = false) (hA : blackAt h A)
    (h1 : (h' sr).color = true) (h2 : (h' s).color = false)
    (h3 : ∀ a, a ≠ s → a ≠ sr → (h' a).color = (h a).color)
    (hn : NoRedRed h (.node A s (.node B1 sr B2))) (hb : BHg (wz h z (some c)) (.node A s (.node B1 sr B2)) k) :
    NoRedRed h' (.node (.node A s B1) sr B2) ∧ BHg (wz h' z (some c)) (.node (.node A s B1) sr B2) k := by
  simp only [PT.addrs] at hnd hz hcn
  simp only [List.nodup_append, List.nodup_cons, List.mem_append, List.mem_cons] at hnd hz hcn
  have hB1 : ∀ a ∈ B1.addrs, a ≠ s ∧ a ≠ sr := by grind
  have hB2 : ∀ a ∈ B2.addrs, a ≠ s ∧ a ≠ sr := by grind
  have hAa : ∀ a ∈ A.addrs, a ≠ s ∧ a ≠ sr := by grind
  have hne : s ≠ z ∧ sr ≠ z ∧ c ≠ s ∧ c ≠ sr := by grind
  simp only [BHg, NoRedRed] at hb hn ⊢
  obtain ⟨m, bA, ⟨m1, bB1, bB2, em⟩, ek⟩ := hb
  obtain ⟨-, nA, nsr, nB1, nB2⟩ := hn
  obtain ⟨e1, e2, e3, e4⟩ := hne
  have cB1 : ∀ a ∈ B1.addrs, (h' a).color = (h a).color := fun a ha => h3 a (hB1 a ha).1 (hB1 a ha).2
  have cB2 : ∀ a ∈ B2.addrs, (h' a).color = (h a).color := fun a ha => h3 a (hB2 a ha).1 (hB2 a ha).2
  have cA : ∀ a ∈ A.addrs, (h' a).color = (h a).color := fun a ha => h3 a (hAa a ha).1 (hAa a ha).2
  have ws : wz h z (some c) s = 1 := by simp [wz, cw, *]
  have wsr : wz h z (some c) sr = 0 := by simp [wz, cw, *]
  have ws' : wz h' z (some c) s = 0 := by simp [wz, cw, *]
  have wsr' : wz h' z (some c) sr = 1 := by simp [wz, cw, *]
  have : m1 = m := by omega
  subst this
  refine ⟨⟨fun hh => by simp [h1] at hh,
      ⟨fun _ => ⟨blackAt_congr cA hA, blackAt_congr cB1 (nsr hsr).1⟩, nrr_congr cA nA, nrr_congr cB1 nB1⟩, nrr_congr cB2 nB2⟩,
    ⟨m1, ⟨m1, ?_, ?_, ?_⟩, ?_, ?_⟩⟩
  · exact BHg.congr (fun a ha => by simp [wz, cw, cA a ha]) bA
  · exact BHg.congr (fun a ha => by simp [wz, cw, cB1 a ha]) bB1
  · omega
  · exact BHg.congr (fun a ha => by simp [wz, cw, cB2 a ha]) bB2
  · omega

/-- case 4, right: `s` black, far child `sl` (its left child) red; `s := colour of p`, `p := black`, `sl := black`,
    rotate right at `p` -/
theorem caseR4 {S A1 A2 B : PT} {sl k : Nat}
    (hnd : (PT.node (.node (.node A1 sl A2) s B) p S).addrs.Nodup) (hc : S.ptr = some c) (hz : z ∈ S.addrs)
    (hs : (h s).color = true) (hsl : (h sl).color = false)
    (h1 : (h' s).color = (h p).color) (h2 : (h' p).color = true) (h4 : (h' sl).color = true)
    (h3 : ∀ a, a ≠ s → a ≠ p → a ≠ sl → (h' a).color = (h a).color)
    (hn : NoRedRed h (.node (.node (.node A1 sl A2) s B) p S))
    (hb : BHg (wz h z (some c)) (.node (.node (.node A1 sl A2) s B) p S) k) :
    NoRedRed h' (.node (.node A1 sl A2) s (.node B p S)) ∧
      BHg (wz h' z none) (.node (.node A1 sl A2) s (.node B p S)) k := by
  cases S with
  | leaf => simp [PT.ptr] at hc
  | node Sl c0 Sr =>
    simp only [PT.ptr, Option.some.injEq] at hc; subst hc
    simp only [PT.addrs] at hnd hz
    simp only [List.nodup_append, List.nodup_cons, List.mem_append, List.mem_cons] at hnd hz
    have hSl : ∀ a ∈ Sl.addrs, a ≠ s ∧ a ≠ p ∧ a ≠ sl ∧ c0 ≠ a := by grind
    have hSr : ∀ a ∈ Sr.addrs, a ≠ s ∧ a ≠ p ∧ a ≠ sl ∧ c0 ≠ a := by grind
    have hBa : ∀ a ∈ B.addrs, a ≠ s ∧ a ≠ p ∧ a ≠ sl ∧ c0 ≠ a := by grind
    have hA1 : ∀ a ∈ A1.addrs, a ≠ s ∧ a ≠ p ∧ a ≠ sl ∧ c0 ≠ a := by grind
    have hA2 : ∀ a ∈ A2.addrs, a ≠ s ∧ a ≠ p ∧ a ≠ sl ∧ c0 ≠ a := by grind
    have hne : c0 ≠ s ∧ c0 ≠ p ∧ c0 ≠ sl ∧ s ≠ z ∧ p ≠ z ∧ sl ≠ z := by grind
    simp only [BHg, NoRedRed] at hb hn ⊢
    obtain ⟨m, ⟨mb, ⟨mc, bA1, bA2, emc⟩, bB, em2⟩, ⟨ms, bSl, bSr, em⟩, ek⟩ := hb
    obtain ⟨-, ⟨-, ⟨-, nA1, nA2⟩, nB⟩, nc, nSl, nSr⟩ := hn
    obtain ⟨e1, e2, e3, e4, e5, e6⟩ := hne
    have cSl : ∀ a ∈ Sl.addrs, (h' a).color = (h a).color := fun a ha => h3 a (hSl a ha).1 (hSl a ha).2.1 (hSl a ha).2.2.1
    have cSr : ∀ a ∈ Sr.addrs, (h' a).color = (h a).color := fun a ha => h3 a (hSr a ha).1 (hSr a ha).2.1 (hSr a ha).2.2.1
    have cB : ∀ a ∈ B.addrs, (h' a).color = (h a).color := fun a ha => h3 a (hBa a ha).1 (hBa a ha).2.1 (hBa a ha).2.2.1
    have cA1 : ∀ a ∈ A1.addrs, (h' a).color = (h a).color := fun a ha => h3 a (hA1 a ha).1 (hA1 a ha).2.1 (hA1 a ha).2.2.1
    have cA2 : ∀ a ∈ A2.addrs, (h' a).color = (h a).color := fun a ha => h3 a (hA2 a ha).1 (hA2 a ha).2.1 (hA2 a ha).2.2.1
    have hc0 : (h' c0).color = (h c0).color := h3 c0 e1 e2 e3
    have ws : wz h z (some c0) s = 1 := by simp [wz, cw, *]
    have wsl : wz h z (some c0) sl = 0 := by simp [wz, cw, *]
    have wp' : wz h' z none p = 1 := by simp [wz, cw, *]
    have wsl' : wz h' z none sl = 1 := by simp [wz, cw, *]
    have ws' : wz h' z none s = wz h z (some c0) p := by simp [wz, cw, *]
    have wc : wz h z (some c0) c0 = wz h' z none c0 + 1 := by simp [wz, cw, hc0]
    have : mc = mb := by omega
    subst this
    refine ⟨⟨fun _ => ⟨by simp [blackAt, h4], by simp [blackAt, h2]⟩,
        ⟨fun hh => by simp [h4] at hh, nrr_congr cA1 nA1, nrr_congr cA2 nA2⟩,
        fun hh => by simp [h2] at hh, nrr_congr cB nB, fun hh => ?_, nrr_congr cSl nSl, nrr_congr cSr nSr⟩,
      ⟨m, ⟨mc, ?_, ?_, ?_⟩, ⟨mc, ?_, ⟨ms, ?_, ?_, ?_⟩, ?_⟩, ?_⟩⟩
    · rw [hc0] at hh; exact ⟨blackAt_congr cSl (nc hh).1, blackAt_congr cSr (nc hh).2⟩
    · exact BHg.congr (fun a ha => by have := hA1 a ha; simp [wz, cw, cA1 a ha, this]) bA1
    · exact BHg.congr (fun a ha => by have := hA2 a ha; simp [wz, cw, cA2 a ha, this]) bA2
    · omega
    · exact BHg.congr (fun a ha => by have := hBa a ha; simp [wz, cw, cB a ha, this]) bB
    · exact BHg.congr (fun a ha => by have := hSl a ha; simp [wz, cw, cSl a ha, this]) bSl
    · exact BHg.congr (fun a ha => by have := hSr a ha; simp [wz, cw, cSr a ha, this]) bSr
    · omega
    · omega
    · omega

end cases

end Ekit.MiniGo.RBHeap.DelRB

namespace Ekit.MiniGo.RBHeap.Rot
open Ekit.MiniGo Ekit.Gen.RBTreeGo Ekit.MiniGo.RBHeap

/-- `rotL_heap` with the resulting tree made explicit -/
theorem c2_rotL_heap {h h' : Nat → Node} {q : Option Nat} {t A B C : PT} {n r : Nat}
    (hR : Repr h q none t) (hnd : t.addrs.Nodup) (hs : t.sub n = some (.node A n (.node B r C)))
    (H : RotL h h' n r) :
    Repr h' (if (h n).parent = none then some r else q) none (t.replace n (.node (.node A n B) r C)) ∧
      (t.replace n (.node (.node A n B) r C)).addrs.Nodup ∧
      (t.replace n (.node (.node A n B) r C)).addrs = t.addrs := by
  have hn := mem_of_sub hs
  obtain ⟨A', R', hs', hnds, hsub, hA, hRr, hpar, hdich⟩ := rot_setup hR hnd hn
  rw [hs] at hs'
  cases hs'
  simp only [Repr] at hRr
  obtain ⟨e, hrp, hB, hC⟩ := hRr
  have hbB : ∀ x, (h r).left = some x → x ∈ B.addrs := by
    intro x hx; rw [hx] at hB
    cases B with
    | leaf => simp [Repr] at hB
    | node _ y _ => simp only [Repr] at hB; obtain ⟨e, _⟩ := hB; cases e; simp [PT.addrs]
  have hpS : ∀ x, (h n).parent = some x → x ∉ (PT.node A n (.node B r C)).addrs := by
    intro x hx
    rcases hdich with ⟨_, e⟩ | ⟨_, p, e, _, e3, _⟩
    · rw [e] at hx; cases hx
    · rw [e] at hx; cases hx; exact e3
  simp only [PT.addrs] at hnds hpS hsub
  -- frame: nodes of the subtree other than n, r, b are untouched
  have hfr : ∀ x, x ∈ A.addrs ++ n :: (B.addrs ++ r :: C.addrs) → x ≠ n → x ≠ r → (h r).left ≠ some x →
      h' x = h x := fun x hx h1 h2 h3 => H.other x h1 h2 h3 (fun e => hpS x e hx)
  let s' : PT := .node (.node A n B) r C
  have hs'addrs : s'.addrs = (PT.node A n (.node B r C)).addrs := by simp [s', PT.addrs]
  refine ⟨?_, ?_, ?_⟩
  · have hrep := repr_replace (h' := h') (s' := s') hR hnd hs ?_ ?_
    · have : (q = some n) ↔ ((h n).parent = none) := by
        rcases hdich with ⟨e1, e2⟩ | ⟨e1, p, e2, _⟩
        · simp [e1, e2]
        · simp [e1, e2]
      simpa only [this, s', PT.ptr] using hrep
    · -- the rotated subtree is represented
      rw [hpar]
      simp only [s', PT.ptr, Repr]
      refine ⟨trivial, H.r_parent, ?_, ?_⟩
      · rw [H.r_left]
        refine ⟨rfl, H.n_parent, ?_, ?_⟩
        · rw [H.n_left]
          refine repr_frame (fun x hx => hfr x (by simp [hx]) ?_ ?_ ?_) hA
          · grind [List.nodup_append, List.nodup_cons]
          · grind [List.nodup_append, List.nodup_cons]
          · intro e; have := hbB x e; grind [List.nodup_append, List.nodup_cons]
        · rw [H.n_right]
          cases B with
          | leaf => simpa [Repr] using hB
          | node Bl b Br =>
            simp only [Repr] at hB ⊢
            obtain ⟨e1, _, hBl, hBr⟩ := hB
            obtain ⟨b1, b2, b3⟩ := H.b b e1
            simp only [PT.addrs] at hnds hfr
            refine ⟨e1, b3, ?_, ?_⟩
            · rw [b1]
              refine repr_frame (fun x hx => hfr x (by simp [hx]) ?_ ?_ ?_) hBl
              · grind [List.nodup_append, List.nodup_cons]
              · grind [List.nodup_append, List.nodup_cons]
              · rw [e1]; grind [List.nodup_append, List.nodup_cons]
            · rw [b2]
              refine repr_frame (fun x hx => hfr x (by simp [hx]) ?_ ?_ ?_) hBr
              · grind [List.nodup_append, List.nodup_cons]
              · grind [List.nodup_append, List.nodup_cons]
              · rw [e1]; grind [List.nodup_append, List.nodup_cons]
      · rw [H.r_right]
        refine repr_frame (fun x hx => hfr x (by simp [hx]) ?_ ?_ ?_) hC
        · grind [List.nodup_append, List.nodup_cons]
        · grind [List.nodup_append, List.nodup_cons]
        · intro e; have := hbB x e; grind [List.nodup_append, List.nodup_cons]
    · -- the rest of the tree is redirected
      intro x hx hxs
      simp only [s', PT.ptr]
      by_cases hxp : (h n).parent = some x
      · exact H.p x hxp
      · have hxe : h' x = h x := by
          refine H.other x ?_ ?_ ?_ hxp
          · intro e; exact hxs (by simp [PT.addrs, e])
          · intro e; exact hxs (by simp [PT.addrs, e])
          · intro e; exact hxs (by have := hbB x e; simp [PT.addrs, this])
        have h1 : (h x).left ≠ some n := fun e => hxp (child_parent hR hx (.inl e))
        have h2 : (h x).right ≠ some n := fun e => hxp (child_parent hR hx (.inr e))
        simp [Redirected, hxe, h1, h2]
  · exact nodup_replace hnd hs (by rw [hs'addrs]; simpa [PT.addrs] using hnds)
      (fun x hx => .inl (by rw [← hs'addrs]; exact hx))
  · exact addrs_replace hnd hs hs'addrs


/-- `rotR_heap` with the resulting tree made explicit -/
theorem c2_rotR_heap {h h' : Nat → Node} {q : Option Nat} {t A1 B C : PT} {n l : Nat}
    (hR : Repr h q none t) (hnd : t.addrs.Nodup) (hs : t.sub n = some (.node (.node A1 l B) n C))
    (H : RotR h h' n l) :
    Repr h' (if (h n).parent = none then some l else q) none (t.replace n (.node A1 l (.node B n C))) ∧
      (t.replace n (.node A1 l (.node B n C))).addrs.Nodup ∧
      (t.replace n (.node A1 l (.node B n C))).addrs = t.addrs := by
  have hn := mem_of_sub hs
  obtain ⟨A', C', hs', hnds, hsub, hA, hC, hpar, hdich⟩ := rot_setup hR hnd hn
  rw [hs] at hs'
  cases hs'
  simp only [Repr] at hA
  obtain ⟨e, hlp, hA1, hB⟩ := hA
  have hbB : ∀ x, (h l).right = some x → x ∈ B.addrs := by
    intro x hx; rw [hx] at hB
    cases B with
    | leaf => simp [Repr] at hB
    | node _ y _ => simp only [Repr] at hB; obtain ⟨e, _⟩ := hB; cases e; simp [PT.addrs]
  have hpS : ∀ x, (h n).parent = some x → x ∉ (PT.node (.node A1 l B) n C).addrs := by
    intro x hx
    rcases hdich with ⟨_, e⟩ | ⟨_, p, e, _, e3, _⟩
    · rw [e] at hx; cases hx
    · rw [e] at hx; cases hx; exact e3
  simp only [PT.addrs] at hnds hpS hsub
  have hfr : ∀ x, x ∈ (A1.addrs ++ l :: B.addrs) ++ n :: C.addrs → x ≠ n → x ≠ l → (h l).right ≠ some x →
      h' x = h x := fun x hx h1 h2 h3 => H.other x h1 h2 h3 (fun e => hpS x e hx)
  let s' : PT := .node A1 l (.node B n C)
  have hs'addrs : s'.addrs = (PT.node (.node A1 l B) n C).addrs := by simp [s', PT.addrs]
  refine ⟨?_, ?_, ?_⟩
  · have hrep := repr_replace (h' := h') (s' := s') hR hnd hs ?_ ?_
    · have : (q = some n) ↔ ((h n).parent = none) := by
        rcases hdich with ⟨e1, e2⟩ | ⟨e1, p, e2, _⟩
        · simp [e1, e2]
        · simp [e1, e2]
      simpa only [this, s', PT.ptr] using hrep
    · rw [hpar]
      simp only [s', PT.ptr, Repr]
      refine ⟨trivial, H.l_parent, ?_, ?_⟩
      · rw [H.l_left]
        refine repr_frame (fun x hx => hfr x (by simp [hx]) ?_ ?_ ?_) hA1
        · grind [List.nodup_append, List.nodup_cons]
        · grind [List.nodup_append, List.nodup_cons]
        · intro e; have := hbB x e; grind [List.nodup_append, List.nodup_cons]
      · rw [H.l_right]
        refine ⟨rfl, H.n_parent, ?_, ?_⟩
        · rw [H.n_left]
          cases B with
          | leaf => simpa [Repr] using hB
          | node Bl b Br =>
            simp only [Repr] at hB ⊢
            obtain ⟨e1, _, hBl, hBr⟩ := hB
            obtain ⟨b1, b2, b3⟩ := H.b b e1
            simp only [PT.addrs] at hnds hfr
            refine ⟨e1, b3, ?_, ?_⟩
            · rw [b1]
              refine repr_frame (fun x hx => hfr x (by simp [hx]) ?_ ?_ ?_) hBl
              · grind [List.nodup_append, List.nodup_cons]
              · grind [List.nodup_append, List.nodup_cons]
              · rw [e1]; grind [List.nodup_append, List.nodup_cons]
            · rw [b2]
              refine repr_frame (fun x hx => hfr x (by simp [hx]) ?_ ?_ ?_) hBr
              · grind [List.nodup_append, List.nodup_cons]
              · grind [List.nodup_append, List.nodup_cons]
              · rw [e1]; grind [List.nodup_append, List.nodup_cons]
        · rw [H.n_right]
          refine repr_frame (fun x hx => hfr x (by simp [hx]) ?_ ?_ ?_) hC
          · grind [List.nodup_append, List.nodup_cons]
          · grind [List.nodup_append, List.nodup_cons]
          · intro e; have := hbB x e; grind [List.nodup_append, List.nodup_cons]
    · intro x hx hxs
      simp only [s', PT.ptr]
      by_cases hxp : (h n).parent = some x
      · exact H.p x hxp
      · have hxe : h' x = h x := by
          refine H.other x ?_ ?_ ?_ hxp
          · intro e; exact hxs (by simp [PT.addrs, e])
          · intro e; exact hxs (by simp [PT.addrs, e])
          · intro e; exact hxs (by have := hbB x e; simp [PT.addrs, this])
        have h1 : (h x).left ≠ some n := fun e => hxp (child_parent hR hx (.inl e))
        have h2 : (h x).right ≠ some n := fun e => hxp (child_parent hR hx (.inr e))
        simp [Redirected, hxe, h1, h2]
  · exact nodup_replace hnd hs (by rw [hs'addrs]; simpa [PT.addrs] using hnds)
      (fun x hx => .inl (by rw [← hs'addrs]; exact hx))
  · exact addrs_replace hnd hs hs'addrs


theorem c2_color_upd_setP (h : Nat → Node) (a : Nat) (f : Fld) (p : Option Nat) (x : Nat) :
    ((upd h a (setP (h a) f p)) x).color = (h x).color := by
  unfold upd
  split
  · next e => subst e; cases f <;> rfl
  · rfl

end Ekit.MiniGo.RBHeap.Rot

namespace Ekit.MiniGo.RBHeap.DelRB
open Ekit.MiniGo Ekit.Gen.RBTreeGo Ekit.MiniGo.RBHeap

/-! ## (4) exact specifications of the primitives under the real handler -/

section prims
variable (cmpF : Int → Int → Int)

theorem call_setColor {f : Nat} {a : Option Nat} {b : Bool} {st st' : St} {v : Val}
    (h : call cmpF procs f .setColor [.ptr a, .bool b] st = .ok (v, st')) : st' = setCol st a b := by
  cases f with
  | zero => simp [call] at h
  | succ f =>
    cases a with
    | none =>
      simp [call, runBody, procs, body_setColor, exec, evalE, Env.ofArgs, valEq] at h
      simp [setCol, h]
    | some n =>
      simp [call, runBody, procs, body_setColor, exec, evalE, Env.ofArgs, valEq, Node.set] at h
      obtain ⟨_, rfl⟩ := h
      simp [setCol]

theorem call_getColor {f : Nat} {a : Option Nat} {st st' : St} {v : Val}
    (h : call cmpF procs f .getColor [.ptr a] st = .ok (v, st')) : st' = st ∧ v = .bool (colP st.h a) := by
  cases f with
  | zero => simp [call] at h
  | succ f =>
    cases a with
    | none =>
      simp [call, runBody, procs, body_getColor, exec, evalE, Env.ofArgs, valEq] at h
      simp [colP, h]
    | some n =>
      simp [call, runBody, procs, body_getColor, exec, evalE, Env.ofArgs, valEq, Node.get] at h
      obtain ⟨rfl, rfl⟩ := h
      simp [colP]

theorem c2_call_rot {f : Nat} {fl gl : Fld} {getF fn : PName} (hfg : Rot.Sides fl gl)
    (hproc : procs fn = ⟨1, Rot.rotBody fl gl getF⟩)
    (hget : ∀ {f : Nat} {a : Option Nat} {st st' : St} {v : Val},
      call cmpF procs f getF [.ptr a] st = .ok (v, st') → st' = st ∧ v = .ptr (Fix.fldOf st a fl))
    {n r : Nat} {st st' : St} {v : Val} (hr : Rot.getP (st.h n) fl = some r)
    (h : call cmpF procs f fn [.ptr (some n)] st = .ok (v, st')) :
    st' = Rot.rotSt fl gl st n r := by
  cases f with
  | zero => simp [call] at h
  | succ f =>
    have h' : runBody cmpF (call cmpF procs f) f ⟨1, Rot.rotBody fl gl getF⟩ [.ptr (some n)] st
        = .ok (v, st') := by rw [← hproc]; exact h
    simp only [runBody, Rot.rotBody, exec, evalE] at h'
    have hv : Env.ofArgs [Val.ptr (some n)] 0 = .ptr (some n) := by simp [Env.ofArgs]
    have e1 : valEq (.ptr (some n)) (.ptr none) = some false := by simp [valEq]
    simp only [hv] at h'
    cases hc : call cmpF procs f getF [.ptr (some n)] st with
    | error e => simp [hc, e1] at h'
    | ok r1 =>
      obtain ⟨v1, st1⟩ := r1
      obtain ⟨rfl, rfl⟩ := hget hc
      have hq : valEq (.ptr (Fix.fldOf st1 (some n) fl)) (.ptr none) = some false := by
        simp [valEq, Fix.fldOf, hr]
      simp [hc, hq, e1] at h'
      cases he : exec cmpF (call cmpF procs f) f (Env.ofArgs [Val.ptr (some n)]) st1 (Rot.rotRest fl gl) with
      | error e => simp [he] at h'
      | ok res =>
        obtain ⟨r', ρ', hr', rfl⟩ := Rot.exec_rotRest cmpF _ f st1 hfg hv he
        simp [he] at h'
        rw [hr] at hr'
        cases hr'
        exact h'.2.symm

theorem call_rotL_some {f : Nat} {n r : Nat} {st st' : St} {v : Val} (hr : (st.h n).right = some r)
    (h : call cmpF procs f .rotateLeft [.ptr (some n)] st = .ok (v, st')) :
    st' = Rot.rotSt .right .left st n r :=
  c2_call_rot cmpF (.inl ⟨rfl, rfl⟩) rfl (Fix.call_getRight cmpF) (by simpa [Rot.getP] using hr) h

theorem call_rotR_some {f : Nat} {n l : Nat} {st st' : St} {v : Val} (hl : (st.h n).left = some l)
    (h : call cmpF procs f .rotateRight [.ptr (some n)] st = .ok (v, st')) :
    st' = Rot.rotSt .left .right st n l :=
  c2_call_rot cmpF (.inr ⟨rfl, rfl⟩) rfl (Fix.call_getLeft cmpF) (by simpa [Rot.getP] using hl) h

end prims

/-! ## (5) heap-level facts about the primitives -/

theorem setCol_ptrSame (st : St) (a : Option Nat) (b : Bool) : PtrSame st (setCol st a b) := by
  cases a with
  | none => exact PtrSame.refl st
  | some n =>
    refine ⟨fun x => ?_, rfl, rfl⟩
    simp only [setCol, upd, SamePtrs]
    split
    · next e => subst e; exact ⟨rfl, rfl, rfl⟩
    · exact ⟨rfl, rfl, rfl⟩

theorem setCol_color (st : St) (n : Nat) (b : Bool) (x : Nat) :
    ((setCol st (some n) b).h x).color = if x = n then b else (st.h x).color := by
  simp only [setCol, upd]
  split <;> rfl

/-- a rotation writes no colour field -/
theorem rotSt_color (f g : Fld) (st : St) (n r : Nat) (x : Nat) :
    ((Rot.rotSt f g st n r).h x).color = (st.h x).color := by
  have kB : ∀ (st : St) x, ((Rot.stB f g st n r).h x).color = (st.h x).color :=
    fun st x => Rot.c2_color_upd_setP _ _ _ _ _
  have kC : ∀ (st : St) x, ((Rot.stC g st n r).h x).color = (st.h x).color := by
    intro st x; unfold Rot.stC; split
    · exact Rot.c2_color_upd_setP _ _ _ _ _
    · rfl
  have kD : ∀ (st : St) x, ((Rot.stD st n r).h x).color = (st.h x).color :=
    fun st x => Rot.c2_color_upd_setP _ _ _ _ _
  have kE : ∀ (st : St) x, ((Rot.stE f g st n r).h x).color = (st.h x).color := by
    intro st x; unfold Rot.stE; split
    · rfl
    · split
      · exact Rot.c2_color_upd_setP _ _ _ _ _
      · exact Rot.c2_color_upd_setP _ _ _ _ _
  have kF : ∀ (st : St) x, ((Rot.stF g st n r).h x).color = (st.h x).color :=
    fun st x => Rot.c2_color_upd_setP _ _ _ _ _
  have kG : ∀ (st : St) x, ((Rot.stG st n r).h x).color = (st.h x).color :=
    fun st x => Rot.c2_color_upd_setP _ _ _ _ _
  unfold Rot.rotSt
  rw [kG, kF, kE, kD, kC, kB]

/-- `rotateLeft(n)`: the tree afterwards, explicitly -/
theorem rotL_holds {st : St} {t A B C : PT} {n r : Nat} (hH : Holds st t)
    (hs : t.sub n = some (.node A n (.node B r C))) :
    Holds (Rot.rotSt .right .left st n r) (t.replace n (.node (.node A n B) r C)) ∧
      Rot.RotL st.h (Rot.rotSt .right .left st n r).h n r := by
  obtain ⟨hR, hnd, hal⟩ := hH
  have hn : n ∈ t.addrs := mem_of_sub hs
  have hRs := repr_sub hR hs
  simp only [Repr] at hRs
  have hr : (st.h n).right = some r := hRs.2.2.2.1
  obtain ⟨H, eroot, ealloc, _⟩ := Rot.rotL_explicit st hR hnd hn hr
  obtain ⟨hR', hnd', hadd'⟩ := Rot.c2_rotL_heap hR hnd hs H
  exact ⟨⟨by rw [eroot]; exact hR', hnd', fun a ha => by rw [ealloc]; exact hal a (by rw [← hadd']; exact ha)⟩, H⟩

/-- `rotateRight(n)`: the tree afterwards, explicitly -/
theorem rotR_holds {st : St} {t A B C : PT} {n l : Nat} (hH : Holds st t)
    (hs : t.sub n = some (.node (.node A l B) n C)) :
    Holds (Rot.rotSt .left .right st n l) (t.replace n (.node A l (.node B n C))) ∧
      Rot.RotR st.h (Rot.rotSt .left .right st n l).h n l := by
  obtain ⟨hR, hnd, hal⟩ := hH
  have hn : n ∈ t.addrs := mem_of_sub hs
  have hRs := repr_sub hR hs
  simp only [Repr] at hRs
  have hl : (st.h n).left = some l := hRs.2.2.1.1
  obtain ⟨H, eroot, ealloc, _⟩ := Rot.rotR_explicit st hR hnd hn hl
  obtain ⟨hR', hnd', hadd'⟩ := Rot.c2_rotR_heap hR hnd hs H
  exact ⟨⟨by rw [eroot]; exact hR', hnd', fun a ha => by rw [ealloc]; exact hal a (by rw [← hadd']; exact ha)⟩, H⟩

end Ekit.MiniGo.RBHeap.DelRB

namespace Ekit.MiniGo.RBHeap.DelRB
open Ekit.MiniGo Ekit.Gen.RBTreeGo Ekit.MiniGo.RBHeap

/-! ## (6) the invariants of the fix-up -/

/-- loop invariant of `fixAfterDelete` at cursor `c` (`z`: the phantom leaf the fix-up was started on) -/
structure LI (z c : Nat) (st : St) : Prop where
  inv : Fix.Inv z st c
  zb : (st.h z).color = true
  ci : ∃ t, Holds st t ∧ blackAt (blk st.h c) t ∧ NoRedRed (blk st.h c) t ∧ ∃ n, BHg (wz st.h z (some c)) t n

/-- inside one step: the cursor `c` is black, not the root, the `sd`-child of `p` -/
structure SI (sd : Fld) (z c p : Nat) (S : PT) (st : St) : Prop where
  j : Fix.J sd z c p S st
  zb : (st.h z).color = true
  cb : (st.h c).color = true
  ci : ∃ t, CInv z (some c) st t

/-- the states after the recolour-and-rotate blocks of `fixAfterDeleteLeft` -/
def stL1 (st : St) (p s : Nat) : St :=
  Rot.rotSt .right .left (setCol (setCol st (some s) true) (some p) false) p s
def stL3 (st : St) (s sl : Nat) : St :=
  Rot.rotSt .left .right (setCol (setCol st (some sl) true) (some s) false) s sl
def stL4 (st : St) (p s sr : Nat) : St :=
  Rot.rotSt .right .left (setCol (setCol (setCol st (some s) (st.h p).color) (some p) true) (some sr) true) p s
/-- … and of `fixAfterDeleteRight` -/
def stR1 (st : St) (p s : Nat) : St :=
  Rot.rotSt .left .right (setCol (setCol st (some s) true) (some p) false) p s
def stR3 (st : St) (s sr : Nat) : St :=
  Rot.rotSt .right .left (setCol (setCol st (some sr) true) (some s) false) s sr
def stR4 (st : St) (p s sl : Nat) : St :=
  Rot.rotSt .left .right (setCol (setCol (setCol st (some s) (st.h p).color) (some p) true) (some sl) true) p s

/-! ### auxiliary lemmas for `kL3`, `kL4` -/

theorem d2_wz_congr {h h' : Nat → Node} {z : Nat} {c : Option Nat} {b : Nat}
    (e : (h' b).color = (h b).color) : wz h' z c b = wz h z c b := by
  simp only [wz, cw, e]

/-- the subtree of a held tree at `n` is the tree read from `n` -/
theorem d2_sub_of_repr {h : Nat → Node} {q par : Option Nat} {t O : PT} {n : Nat}
    (hR : Repr h q none t) (hn : n ∈ t.addrs) (hO : Repr h (some n) par O) : t.sub n = some O := by
  obtain ⟨s, hs⟩ := sub_some_of_mem hn
  have := Fix.repr_det (repr_sub hR hs) hO
  rw [hs, this]

/-- common set-up of the left cases: the tree, the subtree at `p`, the sibling subtree -/
theorem d2_setup {z c p s : Nat} {S : PT} {st : St} (hS : SI .left z c p S st) (hr : (st.h p).right = some s) :
    ∃ t B C, CInv z (some c) st t ∧ p ∈ t.addrs ∧ t.sub p = some (.node S p (.node B s C)) ∧
      (PT.node S p (.node B s C)).addrs.Nodup ∧ Repr st.h (some s) (some p) (.node B s C) ∧
      S.ptr = some c ∧ z ∈ S.addrs ∧ c ∈ S.addrs := by
  obtain ⟨t, hC⟩ := hS.ci
  obtain ⟨t2, hH2, hp2⟩ := hS.j.holds
  have := Fix.repr_det hC.holds.1 hH2.1; subst this
  obtain ⟨A, R, hsub, hnds, _, hA, hRr, _, _⟩ := Rot.rot_setup hC.holds.1 hC.holds.2.1 hp2
  have hside : (st.h p).left = some c := hS.j.side
  rw [hside] at hA
  have := Fix.repr_det hA hS.j.repr; subst this
  rw [hr] at hRr
  cases R with
  | leaf => simp [Repr] at hRr
  | node B s' C =>
    have e : s' = s := by
      obtain ⟨e, _⟩ := hRr
      exact (Option.some.inj e).symm
    subst e
    exact ⟨_, B, C, hC, hp2, hsub, hnds, hRr, (repr_ptr hS.j.repr).symm, hS.j.mem, Fix.repr_root_mem hS.j.repr⟩

/-- from the repaired colour invariant (no cursor bonus) to the loop invariant at the root -/
theorem d2_li_of_cinv {sd : Fld} {z c p : Nat} {S : PT} {st : St} {t : PT} (hsd : sd = .left ∨ sd = .right)
    (hJ : Fix.J sd z c p S st) (hzb : (st.h z).color = true) (hC : CInv z none st t) :
    ∃ r, st.root = some r ∧ LI z r st := by
  obtain ⟨r, hroot, hinv⟩ := hJ.inv_root hsd
  refine ⟨r, hroot, hinv, hzb, t, hC.holds, ?_⟩
  have hR := hC.holds.1
  rw [hroot] at hR
  cases t with
  | leaf => simp [Repr] at hR
  | node l a rr =>
    have e : r = a := by
      obtain ⟨e, _⟩ := hR
      exact Option.some.inj e
    subst e
    refine ⟨by simp [blackAt, blk, upd], nrr_blk _ hC.nrr, ?_⟩
    obtain ⟨n, hb⟩ := hC.bh
    refine ⟨_, BHg.top hC.holds.2.1 (fun b hb => ?_) hb⟩
    have : r ≠ b := fun e => hb e.symm
    simp [wz, this]

theorem d2_L3_core {z c p s sl : Nat} {S B1 B2 C : PT} {st st1 st' : St} {t : PT}
    (hS : SI .left z c p S st) (hPS : PtrSame st st1)
    (hcol1 : ∀ x, (st1.h x).color = if x = s then false else if x = sl then true else (st.h x).color)
    (hr : (st.h p).right = some s) (hs : (st.h s).color = true) (hl : (st.h s).left = some sl)
    (hslc : (st.h sl).color = false) (hCb : blackAt st.h C)
    (hC : CInv z (some c) st t) (hp : p ∈ t.addrs)
    (hsub : t.sub p = some (.node S p (.node (.node B1 sl B2) s C)))
    (hnds : (PT.node S p (.node (.node B1 sl B2) s C)).addrs.Nodup)
    (hO : Repr st.h (some s) (some p) (.node (.node B1 sl B2) s C)) (hzS : z ∈ S.addrs) (hcS : c ∈ S.addrs)
    (hst' : st' = Rot.rotSt .left .right st1 s sl) :
    SI .left z c p S st' ∧ (st'.h p).right = some sl ∧ (st'.h sl).color = true ∧ (st'.h sl).right = some s ∧
      (st'.h s).color = false := by
  have hH := hC.holds
  have hnd := hH.2.1
  obtain ⟨ndS, ndO, hpS, hpO, hdisj⟩ := nodup_node hnds
  have hst : s ∈ t.addrs := (sub_spec hsub).2 s (by simp [PT.addrs])
  have hsubs := d2_sub_of_repr hH.1 hst hO
  have hzO := hdisj z hzS
  have hcO := hdisj c hcS
  have hssl : sl ≠ s := by
    obtain ⟨_, _, h1, _, _⟩ := nodup_node ndO
    intro e; exact h1 (e ▸ by simp [PT.addrs])
  have hH1 := Fix.holds_ptrSame hPS hH
  have hR : Holds st' (t.replace s (.node B1 sl (.node B2 s C))) ∧ Rot.RotR st1.h st'.h s sl := by
    rw [hst']; exact rotR_holds hH1 hsubs
  obtain ⟨hH', H⟩ := hR
  have hcol : ∀ x, (st'.h x).color = if x = s then false else if x = sl then true else (st.h x).color := by
    intro x; rw [hst', rotSt_color, hcol1]
  have h1 : (st'.h sl).color = true := by rw [hcol, if_neg hssl, if_pos rfl]
  have h2 : (st'.h s).color = false := by rw [hcol, if_pos rfl]
  have h3 : ∀ a, a ≠ s → a ≠ sl → (st'.h a).color = (st.h a).color := by
    intro a ha hb; rw [hcol, if_neg ha, if_neg hb]
  have hnotO : ∀ b, b ∉ (PT.node (.node B1 sl B2) s C).addrs → (st'.h b).color = (st.h b).color := by
    intro b hb
    apply h3
    · rintro rfl; exact hb (by simp [PT.addrs])
    · rintro rfl; exact hb (by simp [PT.addrs])
  obtain ⟨n, hbn⟩ := hC.bh
  obtain ⟨k, hk⟩ := BHg.sub hbn hsubs
  obtain ⟨hn', hk'⟩ := caseL3 (h := st.h) (h' := st'.h) ndO hzO hcO hs hslc hCb h1 h2 h3
    (nrr_sub hC.nrr hsubs) hk
  have htop : blackAt st.h (PT.node (.node B1 sl B2) s C) → blackAt st'.h (PT.node B1 sl (.node B2 s C)) :=
    fun _ => h1
  have hCI : CInv z (some c) st' (t.replace s (.node B1 sl (.node B2 s C))) :=
    ⟨hH', blackAt_replace hnd hsubs hC.root htop (fun b _ hbs => hnotO b hbs),
      nrr_replace hnd hsubs hC.nrr hn' htop (fun b _ hbs => hnotO b hbs),
      n, BHg.replace hnd hsubs hbn hk hk' (fun b _ hbs => d2_wz_congr (hnotO b hbs))⟩
  have hJ1 := hS.j.ptrSame hPS
  have hs1 : (st1.h p).right = some s := by rw [(hPS.1 p).2.1]; exact hr
  have hl1 : (st1.h s).left = some sl := by rw [(hPS.1 s).1]; exact hl
  obtain ⟨f1, f2⟩ := Fix.frameL_rotR hJ1 hs1 hl1 H
  have hpt' : p ∈ (t.replace s (.node B1 sl (.node B2 s C))).addrs := by
    rw [Rot.addrs_replace hnd hsubs (by simp [PT.addrs])]; exact hp
  have hJ' : Fix.J .left z c p S st' :=
    hJ1.frame ⟨_, hH', hpt'⟩ (fun y hy => by rw [f1 y hy]; exact ⟨rfl, rfl, rfl⟩) (by simpa [Rot.getP] using f2)
  refine ⟨⟨hJ', ?_, ?_, _, hCI⟩, ?_, h1, H.l_right, h2⟩
  · rw [hnotO z hzO]; exact hS.zb
  · rw [hnotO c hcO]; exact hS.cb
  · have hpar1 : (st1.h s).parent = some p := by rw [(hPS.1 s).2.2]; exact Fix.repr_root_parent hO
    have := (H.p p hpar1).2.2
    rw [this, hs1, if_pos rfl]

theorem d2_L4_core {z c p s sr : Nat} {S B C1 C2 : PT} {st st1 st' : St} {t : PT}
    (hS : SI .left z c p S st) (hPS : PtrSame st st1)
    (hcol1 : ∀ x, (st1.h x).color = if x = sr then true else if x = p then true else
      if x = s then (st.h p).color else (st.h x).color)
    (hr : (st.h p).right = some s) (hs : (st.h s).color = true) (hc : (st.h sr).color = false)
    (hC : CInv z (some c) st t) (hp : p ∈ t.addrs)
    (hsub : t.sub p = some (.node S p (.node B s (.node C1 sr C2))))
    (hnds : (PT.node S p (.node B s (.node C1 sr C2))).addrs.Nodup)
    (hSc : S.ptr = some c) (hzS : z ∈ S.addrs) (hcS : c ∈ S.addrs)
    (hst' : st' = Rot.rotSt .right .left st1 p s) :
    ∃ r, st'.root = some r ∧ LI z r st' := by
  have hH := hC.holds
  have hnd := hH.2.1
  obtain ⟨ndS, ndO, hpS, hpO, hdisj⟩ := nodup_node hnds
  obtain ⟨_, _, hsB, hsC, _⟩ := nodup_node ndO
  have hsO : s ∈ (PT.node B s (.node C1 sr C2)).addrs := by simp [PT.addrs]
  have hsrO : sr ∈ (PT.node B s (.node C1 sr C2)).addrs := by simp [PT.addrs]
  have hsp : s ≠ p := fun e => hpO (e ▸ hsO)
  have hsrp : sr ≠ p := fun e => hpO (e ▸ hsrO)
  have hssr : s ≠ sr := fun e => hsC (e ▸ by simp [PT.addrs])
  have hH1 := Fix.holds_ptrSame hPS hH
  have hR : Holds st' (t.replace p (.node (.node S p B) s (.node C1 sr C2))) ∧ Rot.RotL st1.h st'.h p s := by
    rw [hst']; exact rotL_holds hH1 hsub
  obtain ⟨hH', H⟩ := hR
  have hcol : ∀ x, (st'.h x).color = if x = sr then true else if x = p then true else
      if x = s then (st.h p).color else (st.h x).color := by
    intro x; rw [hst', rotSt_color, hcol1]
  have h1 : (st'.h s).color = (st.h p).color := by rw [hcol, if_neg hssr, if_neg hsp, if_pos rfl]
  have h2 : (st'.h p).color = true := by rw [hcol, if_neg (Ne.symm hsrp), if_pos rfl]
  have h4 : (st'.h sr).color = true := by rw [hcol, if_pos rfl]
  have h3 : ∀ a, a ≠ s → a ≠ p → a ≠ sr → (st'.h a).color = (st.h a).color := by
    intro a ha hb hc'; rw [hcol, if_neg hc', if_neg hb, if_neg ha]
  have hnotT : ∀ b, b ∉ (PT.node S p (.node B s (.node C1 sr C2))).addrs →
      (st'.h b).color = (st.h b).color := by
    intro b hb
    apply h3
    · rintro rfl; exact hb (by simp [PT.addrs])
    · rintro rfl; exact hb (by simp [PT.addrs])
    · rintro rfl; exact hb (by simp [PT.addrs])
  obtain ⟨n, hbn⟩ := hC.bh
  obtain ⟨k, hk⟩ := BHg.sub hbn hsub
  obtain ⟨hn', hk'⟩ := caseL4 (h := st.h) (h' := st'.h) hnds hSc hzS hs hc h1 h2 h4 h3
    (nrr_sub hC.nrr hsub) hk
  have htop : blackAt st.h (PT.node S p (.node B s (.node C1 sr C2))) →
      blackAt st'.h (PT.node (.node S p B) s (.node C1 sr C2)) := by
    intro hb; simp only [blackAt] at hb ⊢; rw [h1]; exact hb
  have hCI : CInv z none st' (t.replace p (.node (.node S p B) s (.node C1 sr C2))) := by
    refine ⟨hH', blackAt_replace hnd hsub hC.root htop (fun b _ hbs => hnotT b hbs),
      nrr_replace hnd hsub hC.nrr hn' htop (fun b _ hbs => hnotT b hbs),
      n, BHg.replace hnd hsub hbn hk hk' (fun b _ hbs => ?_)⟩
    have hcb : c ≠ b := by rintro rfl; exact hbs (by simp [PT.addrs, hcS])
    simp [wz, cw, hnotT b hbs, hcb]
  have hJ1 := hS.j.ptrSame hPS
  have hr1 : (st1.h p).right = some s := by rw [(hPS.1 p).2.1]; exact hr
  obtain ⟨f1, f2⟩ := Fix.frameL_rotL hJ1 hr1 H
  have hpt' : p ∈ (t.replace p (.node (.node S p B) s (.node C1 sr C2))).addrs := by
    rw [Rot.addrs_replace hnd hsub (by simp [PT.addrs])]; exact hp
  have hJ' : Fix.J .left z c p S st' :=
    hJ1.frame ⟨_, hH', hpt'⟩ (fun y hy => by rw [f1 y hy]; exact ⟨rfl, rfl, rfl⟩) (by simpa [Rot.getP] using f2)
  have hzb : (st'.h z).color = true := by
    rw [h3 z (fun e => hdisj z hzS (e ▸ hsO)) (fun e => hpS (e ▸ hzS)) (fun e => hdisj z hzS (e ▸ hsrO))]
    exact hS.zb
  exact d2_li_of_cinv (.inl rfl) hJ' hzb hCI

/-! ## (7) heap-level case lemmas, cursor on the left -/

/-! ### auxiliary lemmas for `kL1`, `kL2` -/

theorem d1_setup {z c p : Nat} {S : PT} {st : St} (hS : SI .left z c p S st) :
    ∃ t O, CInv z (some c) st t ∧ t.sub p = some (.node S p O) ∧ (PT.node S p O).addrs.Nodup ∧
      Repr st.h (st.h p).right (some p) O ∧ S.ptr = some c := by
  obtain ⟨t, hC⟩ := hS.ci
  obtain ⟨t2, h2, hp2⟩ := hS.j.holds
  have e := Fix.repr_det h2.1 hC.holds.1
  subst e
  obtain ⟨A, R, hs, hnds, hsub, hA, hRr, hpar, hdich⟩ := Rot.rot_setup hC.holds.1 hC.holds.2.1 hp2
  have hside : (st.h p).left = some c := hS.j.side
  rw [hside] at hA
  have e := Fix.repr_det hS.j.repr hA
  subst e
  exact ⟨_, R, hC, hs, hnds, hRr, (repr_ptr hS.j.repr).symm⟩

theorem d1_wz_congr {h h' : Nat → Node} {z b : Nat} {c c' : Option Nat}
    (hcol : (h' b).color = (h b).color) (h1 : c ≠ some b) (h2 : c' ≠ some b) :
    wz h' z c' b = wz h z c b := by
  simp [wz, cw, hcol, h1, h2]

/-- distinctness facts from the `Nodup` of the explicit shape at `p` -/
theorem d1_distinct {S B C : PT} {p s : Nat} (hnd : (PT.node S p (.node B s C)).addrs.Nodup) :
    p ≠ s ∧ (∀ y ∈ S.addrs, y ≠ p ∧ y ≠ s) ∧ p ∈ (PT.node S p (.node B s C)).addrs ∧
      s ∈ (PT.node S p (.node B s C)).addrs ∧ ∀ y ∈ S.addrs, y ∈ (PT.node S p (.node B s C)).addrs := by
  obtain ⟨_, _, hpS, hpO, hdisj⟩ := nodup_node hnd
  have hsO : s ∈ (PT.node B s C).addrs := by simp [PT.addrs]
  refine ⟨fun e => hpO (e ▸ hsO), fun y hy => ⟨fun e => hpS (e ▸ hy), fun e => hdisj y hy (e ▸ hsO)⟩,
    by simp [PT.addrs], by simp [PT.addrs], fun y hy => by simp [PT.addrs, hy]⟩

/-- the sibling of a doubly-black cursor cannot be nil -/
theorem d1_leaf_absurd {h : Nat → Node} {z c p k : Nat} {S : PT} (hSc : S.ptr = some c)
    (hb : BHg (wz h z (some c)) (.node S p .leaf) k) : False := by
  cases S with
  | leaf => simp [PT.ptr] at hSc
  | node l a r =>
    simp only [PT.ptr, Option.some.injEq] at hSc
    subst hSc
    simp only [BHg] at hb
    obtain ⟨m, ⟨m', _, _, e1⟩, e2, _⟩ := hb
    simp only [wz, if_true] at e1
    omega

theorem d1_blk_color (h : Nat → Node) (a x : Nat) :
    ((blk h a) x).color = if x = a then true else (h x).color := by
  simp only [blk, upd]
  split <;> rfl

section left
variable {z c p s : Nat} {S : PT} {st : St}

theorem kL1 (hS : SI .left z c p S st) (hr : (st.h p).right = some s) (hs : (st.h s).color = false) :
    SI .left z c p S (stL1 st p s) ∧ colP (stL1 st p s).h ((stL1 st p s).h p).right = true := by
  obtain ⟨t, O, hC, hsub, hnds, hO, hSc⟩ := d1_setup hS
  rw [hr] at hO
  cases O with
  | leaf => simp [Repr] at hO
  | node B s' C =>
    have hO' := hO
    simp only [Repr] at hO'
    obtain ⟨e, hsp, hB, hCr⟩ := hO'
    cases e
    obtain ⟨hps, hSd, hpT, hsT, hST⟩ := d1_distinct hnds
    have hnd := hC.holds.2.1
    -- the recoloured state
    have hP : PtrSame st (setCol (setCol st (some s) true) (some p) false) :=
      (setCol_ptrSame st (some s) true).trans (setCol_ptrSame _ (some p) false)
    have hH1 := Fix.holds_ptrSame hP hC.holds
    obtain ⟨hH', H⟩ := rotL_holds hH1 hsub
    have hcol : ∀ x, ((stL1 st p s).h x).color =
        if x = p then false else if x = s then true else (st.h x).color := by
      intro x; unfold stL1; rw [rotSt_color, setCol_color, setCol_color]
    have hcolT : ∀ b, b ∉ (PT.node S p (.node B s C)).addrs → ((stL1 st p s).h b).color = (st.h b).color := by
      intro b hb
      rw [hcol, if_neg (show ¬ b = p from fun e => hb (e ▸ hpT)), if_neg (show ¬ b = s from fun e => hb (e ▸ hsT))]
    have hcT : c ∈ (PT.node S p (.node B s C)).addrs := hST c (Fix.repr_root_mem hS.j.repr)
    -- the tree-level lemma
    obtain ⟨k, hk⟩ := hC.bh
    obtain ⟨k', hk'⟩ := BHg.sub hk hsub
    obtain ⟨c1, c2, c3⟩ := caseL1 (h := st.h) (h' := (stL1 st p s).h) hnds hSc hS.j.mem hs hS.cb
      (by rw [hcol, if_neg (Ne.symm hps), if_pos rfl]) (by rw [hcol, if_pos rfl])
      (fun a ha1 ha2 => by rw [hcol, if_neg ha2, if_neg ha1]) (nrr_sub hC.nrr hsub) hk'
    refine ⟨⟨?_, ?_, ?_, ⟨_, ⟨hH', ?_, ?_, ⟨k, ?_⟩⟩⟩⟩, ?_⟩
    · -- J
      unfold stL1
      have hJ1 := hS.j.ptrSame hP
      have hr1 : ((setCol (setCol st (some s) true) (some p) false).h p).right = some s := by
        rw [(hP.1 p).2.1]; exact hr
      obtain ⟨f1, f2⟩ := Fix.frameL_rotL hJ1 hr1 H
      have hp' : p ∈ (t.replace p (.node (.node S p B) s C)).addrs :=
        (mem_replace hnd hsub p).2 (.inr (by simp [PT.addrs]))
      exact hJ1.frame ⟨_, hH', hp'⟩ (fun y hy => by rw [f1 y hy]; exact ⟨rfl, rfl, rfl⟩)
        (by simpa [Rot.getP] using f2)
    · rw [hcol, if_neg (hSd z hS.j.mem).1, if_neg (hSd z hS.j.mem).2]; exact hS.zb
    · have hc := Fix.repr_root_mem hS.j.repr
      rw [hcol, if_neg (hSd c hc).1, if_neg (hSd c hc).2]; exact hS.cb
    · exact blackAt_replace hnd hsub hC.root
        (fun _ => by simp only [blackAt]; rw [hcol, if_neg (Ne.symm hps), if_pos rfl])
        (fun b _ hb => hcolT b hb)
    · exact nrr_replace hnd hsub hC.nrr c1
        (fun _ => by simp only [blackAt]; rw [hcol, if_neg (Ne.symm hps), if_pos rfl])
        (fun b _ hb => hcolT b hb)
    · exact BHg.replace hnd hsub hk hk' c2 (fun b _ hb => by
        have : some c ≠ some b := fun e => hb (Option.some.inj e ▸ hcT)
        exact d1_wz_congr (hcolT b hb) this this)
    · -- the new sibling is black
      have e1 : ((stL1 st p s).h p).right = (st.h s).left := by
        have := H.n_right
        rw [(hP.1 s).1] at this
        exact this
      rw [e1, repr_ptr hB]
      cases B with
      | leaf => rfl
      | node Bl b Br => exact c3

theorem kL2 (hS : SI .left z c p S st) (h1 : colP st.h (st.h p).right = true)
    (h2 : colP st.h (Fix.fldOf st (st.h p).right .left) = true)
    (h3 : colP st.h (Fix.fldOf st (st.h p).right .right) = true) :
    LI z p (setCol st (st.h p).right false) := by
  obtain ⟨t, O, hC, hsub, hnds, hO, hSc⟩ := d1_setup hS
  obtain ⟨k, hk⟩ := hC.bh
  obtain ⟨k', hk'⟩ := BHg.sub hk hsub
  cases O with
  | leaf => exact (d1_leaf_absurd hSc hk').elim
  | node B s C =>
    have hr : (st.h p).right = some s := repr_ptr hO
    rw [hr] at h1 h2 h3 ⊢
    simp only [Repr] at hO
    obtain ⟨_, hsp, hB, hCr⟩ := hO
    simp only [Fix.fldOf, Rot.getP] at h2 h3
    have hsb : (st.h s).color = true := h1
    have hBb : blackAt st.h B := by
      rw [repr_ptr hB] at h2
      cases B with
      | leaf => trivial
      | node Bl b Br => exact h2
    have hCb : blackAt st.h C := by
      rw [repr_ptr hCr] at h3
      cases C with
      | leaf => trivial
      | node Cl b Cr => exact h3
    obtain ⟨hps, hSd, hpT, hsT, hST⟩ := d1_distinct hnds
    have hnd := hC.holds.2.1
    have hP : PtrSame st (setCol st (some s) false) := setCol_ptrSame st (some s) false
    have hH' := Fix.holds_ptrSame hP hC.holds
    have hcol : ∀ x, ((setCol st (some s) false).h x).color = if x = s then false else (st.h x).color :=
      fun x => setCol_color st s false x
    have hcolT : ∀ b, b ∉ (PT.node S p (.node B s C)).addrs →
        ((setCol st (some s) false).h b).color = (st.h b).color := by
      intro b hb
      rw [hcol, if_neg (show ¬ b = s from fun e => hb (e ▸ hsT))]
    have hcolB : ∀ b, b ∉ (PT.node S p (.node B s C)).addrs →
        ((blk (setCol st (some s) false).h p) b).color = (st.h b).color := by
      intro b hb
      rw [d1_blk_color, if_neg (show ¬ b = p from fun e => hb (e ▸ hpT))]
      exact hcolT b hb
    have hcT : c ∈ (PT.node S p (.node B s C)).addrs := hST c (Fix.repr_root_mem hS.j.repr)
    obtain ⟨c1, c2⟩ := caseL2 (h := st.h) (h' := (setCol st (some s) false).h) hnds hSc hS.j.mem hsb hBb hCb
      (by rw [hcol, if_pos rfl]) (fun a ha => by rw [hcol, if_neg ha]) (nrr_sub hC.nrr hsub) hk'
    have ht := replace_self hnd hsub
    have htop : blackAt st.h (PT.node S p (.node B s C)) →
        blackAt (blk (setCol st (some s) false).h p) (PT.node S p (.node B s C)) := by
      intro _
      simp only [blackAt]
      rw [d1_blk_color, if_pos rfl]
    refine ⟨((hS.j.ptrSame hP).inv_parent (.inl rfl)), ?_, ⟨t, hH', ?_, ?_, k, ?_⟩⟩
    · rw [hcol, if_neg (hSd z hS.j.mem).2]; exact hS.zb
    · have := blackAt_replace hnd hsub hC.root htop (fun b _ hb => hcolB b hb)
      rwa [ht] at this
    · have := nrr_replace hnd hsub hC.nrr c1 htop (fun b _ hb => hcolB b hb)
      rwa [ht] at this
    · have := BHg.replace hnd hsub hk hk' c2 (fun b _ hb => by
        have e1 : some c ≠ some b := fun e => hb (Option.some.inj e ▸ hcT)
        have e2 : some p ≠ some b := fun e => hb (Option.some.inj e ▸ hpT)
        exact d1_wz_congr (hcolT b hb) e1 e2)
      rwa [ht] at this

theorem kL3 (hS : SI .left z c p S st) (hr : (st.h p).right = some s) (hs : (st.h s).color = true)
    (h2 : colP st.h (st.h s).left = false) (h3 : colP st.h (st.h s).right = true) :
    ∃ sl, (st.h s).left = some sl ∧ SI .left z c p S (stL3 st s sl) ∧ ((stL3 st s sl).h p).right = some sl ∧
      ((stL3 st s sl).h sl).color = true ∧ ((stL3 st s sl).h sl).right = some s ∧
      ((stL3 st s sl).h s).color = false := by
  obtain ⟨t, B, C, hC, hp, hsub, hnds, hO, hSc, hzS, hcS⟩ := d2_setup hS hr
  cases hl : (st.h s).left with
  | none => rw [hl] at h2; simp [colP] at h2
  | some sl =>
    rw [hl] at h2
    refine ⟨sl, rfl, ?_⟩
    have hO' := hO
    obtain ⟨_, _, hB, hCr⟩ := hO'
    rw [hl] at hB
    have hCb : blackAt st.h C := by
      cases C with
      | leaf => trivial
      | node C1 x C2 =>
        obtain ⟨e, _⟩ := hCr
        rw [e] at h3; exact h3
    cases B with
    | leaf => simp [Repr] at hB
    | node B1 sl' B2 =>
      have e : sl' = sl := by
        obtain ⟨e, _⟩ := hB
        exact (Option.some.inj e).symm
      subst e
      exact d2_L3_core hS ((setCol_ptrSame _ _ _).trans (setCol_ptrSame _ _ _))
        (fun x => by simp only [setCol_color]) hr hs hl h2 hCb hC hp hsub hnds hO hzS hcS rfl

theorem kL4 {sr : Nat} (hS : SI .left z c p S st) (hr : (st.h p).right = some s) (hs : (st.h s).color = true)
    (hsr : (st.h s).right = some sr) (hc : (st.h sr).color = false) :
    ∃ r, (stL4 st p s sr).root = some r ∧ LI z r (stL4 st p s sr) := by
  obtain ⟨t, B, C, hC, hp, hsub, hnds, hO, hSc, hzS, hcS⟩ := d2_setup hS hr
  obtain ⟨_, _, _, hCr⟩ := hO
  rw [hsr] at hCr
  cases C with
  | leaf => simp [Repr] at hCr
  | node C1 sr' C2 =>
    have e : sr' = sr := by
      obtain ⟨e, _⟩ := hCr
      exact (Option.some.inj e).symm
    subst e
    exact d2_L4_core hS
      (((setCol_ptrSame _ _ _).trans (setCol_ptrSame _ _ _)).trans (setCol_ptrSame _ _ _))
      (fun x => by simp only [setCol_color]) hr hs hc hC hp hsub hnds hSc hzS hcS rfl

end left

/-! ## (8) heap-level case lemmas, cursor on the right -/

/-! auxiliary lemmas for `kR3`, `kR4` -/

theorem e2_colP_false {h : Nat → Node} {q : Option Nat} (hq : colP h q = false) :
    ∃ a, q = some a ∧ (h a).color = false := by
  cases q with
  | none => simp [colP] at hq
  | some a => exact ⟨a, rfl, hq⟩

theorem e2_repr_some {h : Nat → Node} {a : Nat} {par : Option Nat} {T : PT} (hR : Repr h (some a) par T) :
    ∃ L R, T = .node L a R := by
  cases T with
  | leaf => simp [Repr] at hR
  | node L b R => simp only [Repr] at hR; obtain ⟨e, _⟩ := hR; cases e; exact ⟨L, R, rfl⟩

theorem e2_blackAt_of_colP {h : Nat → Node} {q par : Option Nat} {T : PT} (hR : Repr h q par T)
    (hc : colP h q = true) : blackAt h T := by
  cases T with
  | leaf => trivial
  | node L b R => simp only [Repr] at hR; rw [hR.1] at hc; exact hc

theorem e2_wz_congr {h h' : Nat → Node} {z : Nat} {c : Option Nat} {b : Nat}
    (hc : (h' b).color = (h b).color) : wz h' z c b = wz h z c b := by
  simp only [wz, cw, hc]

theorem e2_disj {L R : PT} {a x : Nat} (hnd : (PT.node L a R).addrs.Nodup) (hx : x ∈ R.addrs) :
    x ∉ L.addrs ∧ x ≠ a := by
  obtain ⟨_, _, _, har, hd⟩ := nodup_node hnd
  exact ⟨fun h => hd x h hx, fun e => har (e ▸ hx)⟩

theorem e2_sub_child {h : Nat → Node} {q par par' : Option Nat} {t A R : PT} {n : Nat}
    (hR : Repr h q none t) (hnd : t.addrs.Nodup) (hn : n ∈ t.addrs)
    (hA : Repr h (h n).left par A) (hRr : Repr h (h n).right par' R) : t.sub n = some (.node A n R) := by
  obtain ⟨A', R', hs, _, _, hA', hR', _, _⟩ := Rot.rot_setup hR hnd hn
  rw [Fix.repr_det hA hA', Fix.repr_det hRr hR']; exact hs

/-- the common set-up: the tree around `p`, with the sibling `s` on the left -/
theorem e2_setup {z c p s : Nat} {S : PT} {st : St} (hS : SI .right z c p S st)
    (hl : (st.h p).left = some s) :
    ∃ t A0 B0, CInv z (some c) st t ∧ t.sub p = some (.node (.node A0 s B0) p S) ∧
      (PT.node (.node A0 s B0) p S).addrs.Nodup ∧
      Repr st.h (st.h s).left (some s) A0 ∧ Repr st.h (st.h s).right (some s) B0 ∧
      (st.h s).parent = some p ∧ S.ptr = some c ∧ z ∈ S.addrs ∧ c ∈ S.addrs ∧ p ∈ t.addrs := by
  obtain ⟨t, hC⟩ := hS.ci
  obtain ⟨t2, hH2, hp2⟩ := hS.j.holds
  have := Fix.repr_det hC.holds.1 hH2.1; subst this
  obtain ⟨A, R, hs, hnds, hsub, hA, hRr, hpar, hdich⟩ := Rot.rot_setup hC.holds.1 hC.holds.2.1 hp2
  have hside : (st.h p).right = some c := hS.j.side
  rw [hside] at hRr
  have := Fix.repr_det hS.j.repr hRr; subst this
  rw [hl] at hA
  cases A with
  | leaf => simp [Repr] at hA
  | node A0 s' B0 =>
    simp only [Repr] at hA
    obtain ⟨e, hsp, hA0, hB0⟩ := hA
    cases e
    exact ⟨t, A0, B0, hC, hs, hnds, hA0, hB0, hsp, (repr_ptr hS.j.repr).symm, hS.j.mem,
      Fix.repr_root_mem hS.j.repr, hp2⟩

theorem e2_col3 (st : St) (s sr x : Nat) :
    ((stR3 st s sr).h x).color = if x = s then false else if x = sr then true else (st.h x).color := by
  unfold stR3
  rw [rotSt_color, setCol_color, setCol_color]

theorem e2_col4 (st : St) (p s sl x : Nat) :
    ((stR4 st p s sl).h x).color =
      if x = sl then true else if x = p then true else if x = s then (st.h p).color else (st.h x).color := by
  unfold stR4
  rw [rotSt_color, setCol_color, setCol_color, setCol_color]

theorem e2_cinv3 {z c s sr : Nat} {t A0 B1 B2 : PT} {st st' : St} (hC : CInv z (some c) st t)
    (hs : t.sub s = some (.node A0 s (.node B1 sr B2)))
    (hH' : Holds st' (t.replace s (.node (.node A0 s B1) sr B2)))
    (hz : z ∉ (PT.node A0 s (.node B1 sr B2)).addrs) (hcn : c ∉ (PT.node A0 s (.node B1 sr B2)).addrs)
    (hsb : (st.h s).color = true) (hsr : (st.h sr).color = false) (hA : blackAt st.h A0)
    (hcol : ∀ x, (st'.h x).color = if x = s then false else if x = sr then true else (st.h x).color) :
    CInv z (some c) st' (t.replace s (.node (.node A0 s B1) sr B2)) := by
  have hnd := hC.holds.2.1
  have hndO := Rot.sub_nodup hnd hs
  have hne : sr ≠ s := by
    obtain ⟨_, _, _, har, _⟩ := nodup_node hndO
    intro e; apply har; simp [PT.addrs, e]
  obtain ⟨n, hb⟩ := hC.bh
  obtain ⟨k, hk⟩ := BHg.sub hb hs
  have hn := nrr_sub hC.nrr hs
  have h1 : (st'.h sr).color = true := by rw [hcol]; simp [hne]
  have h2 : (st'.h s).color = false := by rw [hcol]; simp
  have h3 : ∀ a, a ≠ s → a ≠ sr → (st'.h a).color = (st.h a).color := by
    intro a ha1 ha2; rw [hcol]; simp [ha1, ha2]
  obtain ⟨hn', hk'⟩ := caseR3 (h := st.h) (h' := st'.h) hndO hz hcn hsb hsr hA h1 h2 h3 hn hk
  have hout : ∀ b ∈ t.addrs, b ∉ (PT.node A0 s (.node B1 sr B2)).addrs →
      (st'.h b).color = (st.h b).color := by
    intro b _ hb
    apply h3 <;> (intro e; apply hb; simp [PT.addrs, e])
  have htop : blackAt st.h (PT.node A0 s (.node B1 sr B2)) →
      blackAt st'.h (.node (.node A0 s B1) sr B2) := fun _ => h1
  exact ⟨hH', blackAt_replace hnd hs hC.root htop hout, nrr_replace hnd hs hC.nrr hn' htop hout,
    n, BHg.replace hnd hs hb hk hk' (fun b hb hbs => e2_wz_congr (hout b hb hbs))⟩

theorem e2_cinv4 {z c p s sl : Nat} {t A1 A2 B S : PT} {st st' : St} (hC : CInv z (some c) st t)
    (hs : t.sub p = some (.node (.node (.node A1 sl A2) s B) p S))
    (hH' : Holds st' (t.replace p (.node (.node A1 sl A2) s (.node B p S))))
    (hc : S.ptr = some c) (hz : z ∈ S.addrs)
    (hsb : (st.h s).color = true) (hsl : (st.h sl).color = false)
    (hcol : ∀ x, (st'.h x).color =
      if x = sl then true else if x = p then true else if x = s then (st.h p).color else (st.h x).color) :
    CInv z none st' (t.replace p (.node (.node A1 sl A2) s (.node B p S))) := by
  have hnd := hC.holds.2.1
  have hndT := Rot.sub_nodup hnd hs
  obtain ⟨hndA, _, hpA, _, _⟩ := nodup_node hndT
  obtain ⟨_, _, hsA, _, _⟩ := nodup_node hndA
  have hsp : s ≠ p := by intro e; apply hpA; simp [PT.addrs, e]
  have hslp : sl ≠ p := by intro e; apply hpA; simp [PT.addrs, e]
  have hssl : s ≠ sl := by intro e; apply hsA; simp [PT.addrs, e]
  obtain ⟨n, hb⟩ := hC.bh
  obtain ⟨k, hk⟩ := BHg.sub hb hs
  have hn := nrr_sub hC.nrr hs
  have h1 : (st'.h s).color = (st.h p).color := by rw [hcol]; simp [hsp, hssl]
  have h2 : (st'.h p).color = true := by rw [hcol]; simp
  have h4 : (st'.h sl).color = true := by rw [hcol]; simp
  have h3 : ∀ a, a ≠ s → a ≠ p → a ≠ sl → (st'.h a).color = (st.h a).color := by
    intro a ha1 ha2 ha3; rw [hcol]; simp [ha1, ha2, ha3]
  obtain ⟨hn', hk'⟩ := caseR4 (h := st.h) (h' := st'.h) hndT hc hz hsb hsl h1 h2 h4 h3 hn hk
  have hout : ∀ b ∈ t.addrs, b ∉ (PT.node (.node (.node A1 sl A2) s B) p S).addrs →
      (st'.h b).color = (st.h b).color := by
    intro b _ hb
    apply h3 <;> (intro e; apply hb; simp [PT.addrs, e])
  have hcS : c ∈ S.addrs := ptr_mem_addrs hc
  have hw : ∀ b ∈ t.addrs, b ∉ (PT.node (.node (.node A1 sl A2) s B) p S).addrs →
      wz st'.h z none b = wz st.h z (some c) b := by
    intro b hb hbs
    have hcb : c ≠ b := by intro e; apply hbs; simp [PT.addrs, ← e, hcS]
    simp [wz, cw, hout b hb hbs, hcb]
  have htop : blackAt st.h (PT.node (.node (.node A1 sl A2) s B) p S) →
      blackAt st'.h (.node (.node A1 sl A2) s (.node B p S)) := by
    intro hb
    simp only [blackAt] at hb ⊢
    rw [h1]; exact hb
  exact ⟨hH', blackAt_replace hnd hs hC.root htop hout, nrr_replace hnd hs hC.nrr hn' htop hout,
    n, BHg.replace hnd hs hb hk hk' hw⟩

theorem e2_li_ci {z r0 : Nat} {st : St} {t : PT} (hC : CInv z none st t) (hroot : st.root = some r0) :
    ∃ t, Holds st t ∧ blackAt (blk st.h r0) t ∧ NoRedRed (blk st.h r0) t ∧
      ∃ n, BHg (wz st.h z (some r0)) t n := by
  have hR := hC.holds.1
  rw [hroot] at hR
  obtain ⟨L, R, rfl⟩ := e2_repr_some hR
  obtain ⟨n, hb⟩ := hC.bh
  refine ⟨_, hC.holds, ?_, nrr_blk r0 hC.nrr, _, BHg.top hC.holds.2.1 (fun b hb => ?_) hb⟩
  · simp [blackAt, blk, upd]
  · have : r0 ≠ b := fun e => hb e.symm
    simp [wz, this]

section right
variable {z c p s : Nat} {S : PT} {st : St}

/-- common set-up on the right: the tree, the subtree at `p`, the sibling subtree -/
theorem e1_setup (hS : SI .right z c p S st) :
    ∃ t A, CInv z (some c) st t ∧ p ∈ t.addrs ∧ t.sub p = some (.node A p S) ∧
      (PT.node A p S).addrs.Nodup ∧ Repr st.h (st.h p).left (some p) A ∧ S.ptr = some c ∧ z ∈ S.addrs ∧
      c ∈ S.addrs := by
  obtain ⟨t, hC⟩ := hS.ci
  obtain ⟨t2, h2, hp2⟩ := hS.j.holds
  have e := Fix.repr_det hC.holds.1 h2.1
  subst e
  obtain ⟨A, R, hs, hnds, hsub, hA, hRr, hpar, hdich⟩ := Rot.rot_setup hC.holds.1 hC.holds.2.1 hp2
  have hside : (st.h p).right = some c := hS.j.side
  rw [hside] at hRr
  have e2 := Fix.repr_det hRr hS.j.repr
  subst e2
  exact ⟨t, A, hC, hp2, hs, hnds, hA, (repr_ptr hS.j.repr).symm, hS.j.mem, Fix.repr_root_mem hS.j.repr⟩

theorem e1_blackAt_of_colP {h : Nat → Node} {q par : Option Nat} {T : PT} (hR : Repr h q par T)
    (hc : colP h q = true) : blackAt h T := by
  cases T with
  | leaf => trivial
  | node l a r =>
    simp only [Repr] at hR
    rw [hR.1] at hc
    simpa [colP, blackAt] using hc

theorem e1_colP_of_blackAt {h : Nat → Node} {T : PT} (hb : blackAt h T) : colP h T.ptr = true := by
  cases T with
  | leaf => rfl
  | node l a r => simpa [colP, blackAt, PT.ptr] using hb

/-- distinctness facts from `Nodup` of the subtree at `p` on the right -/
theorem e1_distinct {A B : PT} (hnd : (PT.node (.node A s B) p S).addrs.Nodup) :
    s ≠ p ∧ (∀ x ∈ S.addrs, x ≠ p ∧ x ≠ s) := by
  simp only [PT.addrs] at hnd
  refine ⟨?_, fun x hx => ⟨?_, ?_⟩⟩ <;> grind [List.nodup_append, List.nodup_cons]

theorem e1_not_mem {T : PT} {A B : PT} (hT : T = .node (.node A s B) p S) {b : Nat} (hb : b ∉ T.addrs) :
    b ≠ p ∧ b ≠ s ∧ b ∉ S.addrs := by
  subst hT
  simp only [PT.addrs] at hb
  refine ⟨?_, ?_, ?_⟩ <;> grind

/-- the sibling of a cursor carrying the bonus cannot be nil -/
theorem e1_leaf_absurd {h : Nat → Node} {k : Nat} (hptr : S.ptr = some c)
    (hk : BHg (wz h z (some c)) (.node .leaf p S) k) : False := by
  cases S with
  | leaf => simp [PT.ptr] at hptr
  | node Sl c' Sr =>
    simp only [PT.ptr, Option.some.injEq] at hptr
    subst hptr
    simp only [BHg, wz] at hk
    obtain ⟨m, hm, ⟨m', _, _, e⟩, _⟩ := hk
    simp at e
    omega

theorem kR1 (hS : SI .right z c p S st) (hl : (st.h p).left = some s) (hs : (st.h s).color = false) :
    SI .right z c p S (stR1 st p s) ∧ colP (stR1 st p s).h ((stR1 st p s).h p).left = true := by
  obtain ⟨t, A', hC, hp, hsub, hnd, hA, hptr, hz, hc⟩ := e1_setup hS
  rw [hl] at hA
  cases A' with
  | leaf => simp [Repr] at hA
  | node A s' B =>
  simp only [Repr] at hA
  obtain ⟨e, hsp, hAA, hBB⟩ := hA
  cases e
  obtain ⟨hsp', hdS⟩ := e1_distinct hnd
  have hndt := hC.holds.2.1
  -- the recoloured state
  have hP1 : PtrSame st (setCol (setCol st (some s) true) (some p) false) :=
    (setCol_ptrSame st (some s) true).trans (setCol_ptrSame _ (some p) false)
  have hH1 := Fix.holds_ptrSame hP1 hC.holds
  obtain ⟨hH', H⟩ := rotR_holds hH1 hsub
  have hcol : ∀ x, ((stR1 st p s).h x).color = if x = p then false else if x = s then true else (st.h x).color := by
    intro x; unfold stR1; rw [rotSt_color, setCol_color, setCol_color]
  have h1 : ((stR1 st p s).h s).color = true := by rw [hcol]; simp [hsp']
  have h2 : ((stR1 st p s).h p).color = false := by rw [hcol]; simp
  have h3 : ∀ a, a ≠ s → a ≠ p → ((stR1 st p s).h a).color = (st.h a).color := by
    intro a ha1 ha2; rw [hcol]; simp [ha1, ha2]
  obtain ⟨n, hbn⟩ := hC.bh
  obtain ⟨k, hk⟩ := BHg.sub hbn hsub
  obtain ⟨hn', hb', hB⟩ := caseR1 (h := st.h) (h' := (stR1 st p s).h) hnd hptr hz hs hS.cb h1 h2 h3
    (nrr_sub hC.nrr hsub) hk
  have hout : ∀ b ∈ t.addrs, b ∉ (PT.node (.node A s B) p S).addrs →
      ((stR1 st p s).h b).color = (st.h b).color := by
    intro b _ hb
    obtain ⟨e1, e2, _⟩ := e1_not_mem rfl hb
    exact h3 b e2 e1
  have htop : blackAt st.h (PT.node (.node A s B) p S) → blackAt (stR1 st p s).h (PT.node A s (.node B p S)) :=
    fun _ => h1
  have hC' : CInv z (some c) (stR1 st p s) (t.replace p (.node A s (.node B p S))) :=
    ⟨hH', blackAt_replace hndt hsub hC.root htop hout, nrr_replace hndt hsub hC.nrr hn' htop hout,
      n, BHg.replace hndt hsub hbn hk hb' (fun b hb hbs => by simp only [wz, cw, hout b hb hbs])⟩
  -- the pointer part
  have hJ1 := hS.j.ptrSame hP1
  have hl1 : ((setCol (setCol st (some s) true) (some p) false).h p).left = some s := by
    rw [(hP1.1 p).1]; exact hl
  obtain ⟨f1, f2⟩ := Fix.frameR_rotR hJ1 hl1 H
  have hpm : p ∈ (t.replace p (.node A s (.node B p S))).addrs :=
    (mem_replace hndt hsub p).2 (.inr (by simp [PT.addrs]))
  have hJ' : Fix.J .right z c p S (stR1 st p s) :=
    hJ1.frame ⟨_, hH', hpm⟩ (fun y hy => by rw [show (stR1 st p s).h y = _ from f1 y hy]; exact ⟨rfl, rfl, rfl⟩)
      (by simpa [Rot.getP, stR1] using f2)
  refine ⟨⟨hJ', ?_, ?_, _, hC'⟩, ?_⟩
  · rw [h3 z (hdS z hz).2 (hdS z hz).1]; exact hS.zb
  · rw [h3 c (hdS c hc).2 (hdS c hc).1]; exact hS.cb
  · have e1 : ((stR1 st p s).h p).left = B.ptr := by
      rw [show ((stR1 st p s).h p).left = _ from H.n_left, (hP1.1 s).2.1]
      exact repr_ptr hBB
    rw [e1]
    exact e1_colP_of_blackAt hB

theorem kR2 (hS : SI .right z c p S st) (h1 : colP st.h (st.h p).left = true)
    (h2 : colP st.h (Fix.fldOf st (st.h p).left .right) = true)
    (h3 : colP st.h (Fix.fldOf st (st.h p).left .left) = true) :
    LI z p (setCol st (st.h p).left false) := by
  obtain ⟨t, A', hC, hp, hsub, hnd, hA, hptr, hz, hc⟩ := e1_setup hS
  obtain ⟨n, hbn⟩ := hC.bh
  obtain ⟨k, hk⟩ := BHg.sub hbn hsub
  cases A' with
  | leaf => exact (e1_leaf_absurd hptr hk).elim
  | node A s B =>
  simp only [Repr] at hA
  obtain ⟨hl, hsp, hAA, hBB⟩ := hA
  rw [hl] at h1 h2 h3 ⊢
  have hsb : (st.h s).color = true := by simpa [colP] using h1
  simp only [Fix.fldOf, Rot.getP] at h2 h3
  have hA' : blackAt st.h A := e1_blackAt_of_colP hAA h3
  have hB' : blackAt st.h B := e1_blackAt_of_colP hBB h2
  obtain ⟨hsp', hdS⟩ := e1_distinct hnd
  have hndt := hC.holds.2.1
  have hP : PtrSame st (setCol st (some s) false) := setCol_ptrSame st (some s) false
  have hH' := Fix.holds_ptrSame hP hC.holds
  have hcol : ∀ x, ((setCol st (some s) false).h x).color = if x = s then false else (st.h x).color :=
    fun x => setCol_color st s false x
  have c1 : ((setCol st (some s) false).h s).color = false := by rw [hcol]; simp
  have c3 : ∀ a, a ≠ s → ((setCol st (some s) false).h a).color = (st.h a).color := by
    intro a ha; rw [hcol]; simp [ha]
  obtain ⟨hn', hb'⟩ := caseR2 (h := st.h) (h' := (setCol st (some s) false).h) hnd hptr hz hsb hA' hB' c1 c3
    (nrr_sub hC.nrr hsub) hk
  have hout : ∀ b ∈ t.addrs, b ∉ (PT.node (.node A s B) p S).addrs →
      ((blk (setCol st (some s) false).h p) b).color = (st.h b).color := by
    intro b _ hb
    obtain ⟨e1, e2, _⟩ := e1_not_mem rfl hb
    simp only [blk, upd, if_neg e1]
    exact c3 b e2
  have hw : ∀ b ∈ t.addrs, b ∉ (PT.node (.node A s B) p S).addrs →
      wz (setCol st (some s) false).h z (some p) b = wz st.h z (some c) b := by
    intro b _ hb
    obtain ⟨e1, e2, e3⟩ := e1_not_mem rfl hb
    have e4 : b ≠ c := fun e => e3 (e ▸ hc)
    have e5 : some p ≠ some b := fun e => e1 (Option.some.inj e).symm
    have e6 : some c ≠ some b := fun e => e4 (Option.some.inj e).symm
    simp only [wz, cw, c3 b e2, if_neg e5, if_neg e6]
  have htop : blackAt st.h (PT.node (.node A s B) p S) →
      blackAt (blk (setCol st (some s) false).h p) (PT.node (.node A s B) p S) := by
    intro _; simp [blackAt, blk, upd]
  have hself := replace_self hndt hsub
  have r1 := blackAt_replace (h' := blk (setCol st (some s) false).h p) hndt hsub hC.root htop hout
  have r2 := nrr_replace hndt hsub hC.nrr hn' htop hout
  have r3 := BHg.replace hndt hsub hbn hk hb' hw
  rw [hself] at r1 r2 r3
  refine ⟨(hS.j.ptrSame hP).inv_parent (.inr rfl), ?_, t, hH', r1, r2, n, r3⟩
  rw [c3 z (hdS z hz).2]; exact hS.zb

theorem kR3 (hS : SI .right z c p S st) (hl : (st.h p).left = some s) (hs : (st.h s).color = true)
    (h2 : colP st.h (st.h s).right = false) (h3 : colP st.h (st.h s).left = true) :
    ∃ sr, (st.h s).right = some sr ∧ SI .right z c p S (stR3 st s sr) ∧ ((stR3 st s sr).h p).left = some sr ∧
      ((stR3 st s sr).h sr).color = true ∧ ((stR3 st s sr).h sr).left = some s ∧
      ((stR3 st s sr).h s).color = false := by
  obtain ⟨sr, hsr, hsrc⟩ := e2_colP_false h2
  obtain ⟨t, A0, B0, hC, hsp, hndT, hA0, hB0, hpar, hSc, hzS, hcS, hpt⟩ := e2_setup hS hl
  rw [hsr] at hB0
  obtain ⟨B1, B2, rfl⟩ := e2_repr_some hB0
  have hbA : blackAt st.h A0 := e2_blackAt_of_colP hA0 h3
  have hnd := hC.holds.2.1
  have hst : s ∈ t.addrs := (sub_spec hsp).2 s (by simp [PT.addrs])
  have hss : t.sub s = some (.node A0 s (.node B1 sr B2)) :=
    e2_sub_child hC.holds.1 hnd hst hA0 (by rw [hsr]; exact hB0)
  have hzO := (e2_disj hndT hzS).1
  have hcO := (e2_disj hndT hcS).1
  refine ⟨sr, hsr, ?_⟩
  have hP : PtrSame st (setCol (setCol st (some sr) true) (some s) false) :=
    (setCol_ptrSame _ _ _).trans (setCol_ptrSame _ _ _)
  have hH1 := Fix.holds_ptrSame hP hC.holds
  obtain ⟨hH', H⟩ : Holds (stR3 st s sr) (t.replace s (.node (.node A0 s B1) sr B2)) ∧
      Rot.RotL (setCol (setCol st (some sr) true) (some s) false).h (stR3 st s sr).h s sr :=
    rotL_holds hH1 hss
  have hcol := e2_col3 st s sr
  have hC' := e2_cinv3 hC hss hH' hzO hcO hs hsrc hbA hcol
  have hJ1 := hS.j.ptrSame hP
  have hl1 : ((setCol (setCol st (some sr) true) (some s) false).h p).left = some s := by
    rw [(hP.1 p).1]; exact hl
  have hr1 : ((setCol (setCol st (some sr) true) (some s) false).h s).right = some sr := by
    rw [(hP.1 s).2.1]; exact hsr
  have hpar1 : ((setCol (setCol st (some sr) true) (some s) false).h s).parent = some p := by
    rw [(hP.1 s).2.2]; exact hpar
  obtain ⟨f1, f2⟩ := Fix.frameR_rotL hJ1 hl1 hr1 H
  have hpt' : p ∈ (t.replace s (.node (.node A0 s B1) sr B2)).addrs := by
    rw [Rot.addrs_replace hnd hss (by simp [PT.addrs])]; exact hpt
  have hJ' : Fix.J .right z c p S (stR3 st s sr) :=
    hJ1.frame ⟨_, hH', hpt'⟩ (fun y hy => by rw [f1 y hy]; exact ⟨rfl, rfl, rfl⟩)
      (by simpa [Rot.getP] using f2)
  have hndO := Rot.sub_nodup hnd hss
  have hne : sr ≠ s := by
    obtain ⟨_, _, _, har, _⟩ := nodup_node hndO
    intro e; apply har; simp [PT.addrs, e]
  have hzs : z ≠ s := by intro e; apply hzO; simp [PT.addrs, e]
  have hzsr : z ≠ sr := by intro e; apply hzO; simp [PT.addrs, e]
  have hcs : c ≠ s := by intro e; apply hcO; simp [PT.addrs, e]
  have hcsr : c ≠ sr := by intro e; apply hcO; simp [PT.addrs, e]
  refine ⟨⟨hJ', ?_, ?_, _, hC'⟩, ?_, ?_, H.r_left, ?_⟩
  · rw [hcol]; simp [hzs, hzsr, hS.zb]
  · rw [hcol]; simp [hcs, hcsr, hS.cb]
  · have := (H.p p hpar1).2.1
    rw [hl1, if_pos rfl] at this; exact this
  · rw [hcol]; simp [hne]
  · rw [hcol]; simp

theorem kR4 {sl : Nat} (hS : SI .right z c p S st) (hl : (st.h p).left = some s) (hs : (st.h s).color = true)
    (hsl : (st.h s).left = some sl) (hc : (st.h sl).color = false) :
    ∃ r, (stR4 st p s sl).root = some r ∧ LI z r (stR4 st p s sl) := by
  obtain ⟨t, A0, B0, hC, hsp, hndT, hA0, hB0, hpar, hSc, hzS, hcS, hpt⟩ := e2_setup hS hl
  rw [hsl] at hA0
  obtain ⟨A1, A2, rfl⟩ := e2_repr_some hA0
  have hnd := hC.holds.2.1
  have hP : PtrSame st (setCol (setCol (setCol st (some s) (st.h p).color) (some p) true) (some sl) true) :=
    ((setCol_ptrSame _ _ _).trans (setCol_ptrSame _ _ _)).trans (setCol_ptrSame _ _ _)
  have hH1 := Fix.holds_ptrSame hP hC.holds
  obtain ⟨hH', H⟩ : Holds (stR4 st p s sl) (t.replace p (.node (.node A1 sl A2) s (.node B0 p S))) ∧
      Rot.RotR (setCol (setCol (setCol st (some s) (st.h p).color) (some p) true) (some sl) true).h
        (stR4 st p s sl).h p s :=
    rotR_holds hH1 hsp
  have hcol := e2_col4 st p s sl
  have hC' := e2_cinv4 hC hsp hH' hSc hzS hs hc hcol
  have hJ1 := hS.j.ptrSame hP
  have hl1 : ((setCol (setCol (setCol st (some s) (st.h p).color) (some p) true) (some sl) true).h p).left
      = some s := by
    rw [(hP.1 p).1]; exact hl
  obtain ⟨f1, f2⟩ := Fix.frameR_rotR hJ1 hl1 H
  have hpt' : p ∈ (t.replace p (.node (.node A1 sl A2) s (.node B0 p S))).addrs := by
    rw [Rot.addrs_replace hnd hsp (by simp [PT.addrs])]; exact hpt
  have hJ' : Fix.J .right z c p S (stR4 st p s sl) :=
    hJ1.frame ⟨_, hH', hpt'⟩ (fun y hy => by rw [f1 y hy]; exact ⟨rfl, rfl, rfl⟩)
      (by simpa [Rot.getP] using f2)
  obtain ⟨r0, hroot, hInv⟩ := Fix.J.inv_root (.inr rfl) hJ'
  obtain ⟨hzA, hzp⟩ := e2_disj hndT hzS
  have hzs : z ≠ s := by intro e; apply hzA; simp [PT.addrs, e]
  have hzsl : z ≠ sl := by intro e; apply hzA; simp [PT.addrs, e]
  refine ⟨r0, hroot, hInv, ?_, e2_li_ci hC' hroot⟩
  rw [hcol]; simp [hzs, hzsl, hzp, hS.zb]

end right

/-! ## (9) entering and leaving the loop -/

theorem i_blk_color {h : Nat → Node} {c : Nat} (hcb : (h c).color = true) (a : Nat) :
    (h a).color = (blk h c a).color := by
  simp only [blk, upd]
  by_cases hac : a = c
  · subst hac; simp [hcb]
  · simp [hac]

theorem i_inv_mem {z c : Nat} {st : St} {t : PT} (hI : Fix.Inv z st c) (hH : Holds st t) :
    z ∈ t.addrs ∧ c ∈ t.addrs ∧ Fix.Leaf st z := by
  obtain ⟨t2, s, par, hH2, hc, hR, hz, hl⟩ := hI
  have e : t = t2 := Fix.repr_det hH.1 hH2.1
  subst e
  obtain ⟨s', hs'⟩ := sub_some_of_mem hc
  have e2 : s' = s := Fix.repr_det (repr_sub hH.1 hs') hR
  subst e2
  exact ⟨(sub_spec hs').2 z hz, hc, hl⟩

theorem i_exit_bh {z c : Nat} {st : St} {t : PT} {n : Nat} (hH : Holds st t) (hzb : (st.h z).color = true)
    (hx : st.root = some c ∨ (st.h c).color = false) (hb : BHg (wz st.h z (some c)) t n) :
    ∃ m, BHg (wz (blk st.h c) z none) t m := by
  have hne : ∀ b, b ≠ c → wz (blk st.h c) z none b = wz st.h z (some c) b := by
    intro b hbc
    have hcb : ¬ (c = b) := fun e => hbc e.symm
    simp [wz, cw, blk, upd, hbc, hcb]
  rcases hx with hx | hx
  · have hR := hH.1
    rw [hx] at hR
    cases t with
    | leaf => simp [Repr] at hR
    | node l a r =>
      simp only [Repr] at hR
      have e : c = a := by injection hR.1
      subst e
      exact ⟨_, BHg.top hH.2.1 hne hb⟩
  · have hcz : c ≠ z := fun e => by rw [e, hzb] at hx; cases hx
    refine ⟨n, BHg.congr (fun a _ => ?_) hb⟩
    by_cases hac : a = c
    · subst hac
      simp [wz, cw, blk, upd, hcz, hx]
    · exact hne a hac

/-- a black cursor that is not the root: the step invariant -/
theorem li_to_si {z c : Nat} {st : St} (hL : LI z c st) (hroot : st.root ≠ some c) (hcb : (st.h c).color = true) :
    ∃ p S, (st.h c).parent = some p ∧ ((st.h p).left = some c → SI .left z c p S st) ∧
      ((st.h p).left ≠ some c → SI .right z c p S st) := by
  obtain ⟨p, S, hp, hl, hr⟩ := Fix.Inv.toJ hL.inv hroot
  obtain ⟨t, hH, hb, hn, hbh⟩ := hL.ci
  have hci : ∃ t, CInv z (some c) st t :=
    ⟨t, hH, blackAt_congr (fun a _ => i_blk_color hcb a) hb,
      nrr_congr (fun a _ => i_blk_color hcb a) hn, hbh⟩
  exact ⟨p, S, hp, fun h => ⟨hl h, hL.zb, hcb, hci⟩, fun h => ⟨hr h, hL.zb, hcb, hci⟩⟩

/-- the initial invariant: the cursor is the black leaf `z` itself -/
theorem li_init {z : Nat} {st : St} {t : PT} (hH : Holds st t) (hz : z ∈ t.addrs)
    (hl : (st.h z).left = none) (hr : (st.h z).right = none) (hzb : (st.h z).color = true)
    (hroot : blackAt st.h t) (hn : NoRedRed st.h t) (hb : ∃ n, BHg (cw st.h) t n) : LI z z st := by
  obtain ⟨s, hs⟩ := sub_some_of_mem hz
  obtain ⟨⟨A, R, rfl⟩, _⟩ := sub_spec hs
  obtain ⟨n, hb⟩ := hb
  refine ⟨⟨t, _, _, hH, hz, repr_sub hH.1 hs, by simp [PT.addrs], hl, hr⟩, hzb, t, hH,
    blackAt_blk z hroot, nrr_blk z hn, n, BHg.congr (fun a _ => ?_) hb⟩
  by_cases haz : a = z
  · subst haz; simp [wz, cw, hzb]
  · have hza : ¬ (z = a) := fun e => haz e.symm
    simp [wz, haz, hza]

/-- leaving the loop (cursor is the root, or red) and painting the cursor black -/
theorem li_exit {z c : Nat} {st : St} (hL : LI z c st) (hx : st.root = some c ∨ (st.h c).color = false) :
    ∃ t, CInv z none (setCol st (some c) true) t ∧ z ∈ t.addrs ∧ ((setCol st (some c) true).h z).color = true ∧
      ((setCol st (some c) true).h z).left = none ∧ ((setCol st (some c) true).h z).right = none := by
  obtain ⟨t, hH, hb, hn, n, hbh⟩ := hL.ci
  obtain ⟨hz, _, hlf⟩ := i_inv_mem hL.inv hH
  have hP := setCol_ptrSame st (some c) true
  refine ⟨t, ⟨Fix.holds_ptrSame hP hH, hb, hn, i_exit_bh hH hL.zb hx hbh⟩, hz, ?_,
    (hP.1 z).1.trans hlf.1, (hP.1 z).2.1.trans hlf.2⟩
  rw [setCol_color]
  split
  · rfl
  · exact hL.zb

end Ekit.MiniGo.RBHeap.DelRB

namespace Ekit.MiniGo.RBHeap.DelRB
open Ekit.MiniGo Ekit.Gen.RBTreeGo Ekit.MiniGo.RBHeap

/-! ## (10) symbolic execution: evaluation and inversion lemmas (real handler `call cmpF procs f`) -/

section eval
variable (cmpF : Int → Int → Int) (f lf : Nat)

/-- the expression evaluates (if at all) to the boolean `b`, without changing the state -/
def EvalsB (ρ : Env) (st : St) (e : Expr PName) (b : Bool) : Prop :=
  ∀ v st1, evalE cmpF (call cmpF procs f) ρ st e = .ok (v, st1) → st1 = st ∧ v = .bool b

variable {cmpF f lf}

theorem evalsB_bool {ρ : Env} {st : St} {b : Bool} : EvalsB cmpF f ρ st (.bool b) b := by
  intro v st1 he
  simp only [evalE] at he
  injection he with he
  injection he with e1 e2
  exact ⟨e2.symm, e1.symm⟩

theorem evalsB_getColor {ρ : Env} {st : St} {e : Expr PName} {a : Option Nat}
    (h : Fix.EvalsTo cmpF f ρ st e a) : EvalsB cmpF f ρ st (.call1 .getColor e) (colP st.h a) := by
  intro v st1 he
  obtain ⟨x, st2, h1, h2⟩ := Fix.eval_call1 he
  obtain ⟨rfl, rfl⟩ := h _ _ h1
  exact call_getColor cmpF h2

theorem evalsB_eq {ρ : Env} {st : St} {e1 e2 : Expr PName} {b1 b2 : Bool}
    (h1 : EvalsB cmpF f ρ st e1 b1) (h2 : EvalsB cmpF f ρ st e2 b2) :
    EvalsB cmpF f ρ st (.eq e1 e2) (b1 == b2) := by
  intro v st1 he
  obtain ⟨x, st2, y, r, k1, k2, hv, hvr⟩ := Fix.eval_eq he
  obtain ⟨rfl, rfl⟩ := h1 _ _ k1
  obtain ⟨rfl, rfl⟩ := h2 _ _ k2
  simp only [valEq] at hv
  injection hv with hv
  exact ⟨rfl, by rw [hvr, hv]⟩

theorem evalsB_and {ρ : Env} {st : St} {e1 e2 : Expr PName} {b1 b2 : Bool}
    (h1 : EvalsB cmpF f ρ st e1 b1) (h2 : EvalsB cmpF f ρ st e2 b2) :
    EvalsB cmpF f ρ st (.and e1 e2) (b1 && b2) := by
  intro v st1 he
  simp only [evalE] at he
  cases k1 : evalE cmpF (call cmpF procs f) ρ st e1 with
  | error e => simp [k1] at he
  | ok r1 =>
    obtain ⟨x, st2⟩ := r1
    obtain ⟨rfl, rfl⟩ := h1 _ _ k1
    rw [k1] at he
    cases b1 with
    | false =>
      simp only at he
      injection he with he
      injection he with e1 e2
      exact ⟨e2.symm, by rw [← e1]; rfl⟩
    | true =>
      simp only at he
      cases k2 : evalE cmpF (call cmpF procs f) ρ st2 e2 with
      | error e => simp [k2] at he
      | ok r2 =>
        obtain ⟨y, st3⟩ := r2
        obtain ⟨rfl, rfl⟩ := h2 _ _ k2
        rw [k2] at he
        simp only at he
        injection he with he
        injection he with e1 e2
        exact ⟨e2.symm, by rw [← e1]; simp⟩

theorem evalsTo_root {ρ : Env} {st : St} : Fix.EvalsTo cmpF f ρ st .root st.root := by
  intro v st1 he
  simp only [evalE] at he
  injection he with he
  injection he with e1 e2
  exact ⟨e2.symm, e1.symm⟩

theorem evalsTo_getBrother {ρ : Env} {st : St} {e : Expr PName} {c p : Nat}
    (h : Fix.EvalsTo cmpF f ρ st e (some c)) (hp : (st.h c).parent = some p) :
    Fix.EvalsTo cmpF f ρ st (.call1 .getBrother e)
      (if (st.h p).left = some c then (st.h p).right else (st.h p).left) := by
  intro v st1 he
  obtain ⟨x, st2, h1, h2⟩ := Fix.eval_call1 he
  obtain ⟨rfl, rfl⟩ := h _ _ h1
  exact Fix.call_getBrother hp h2

theorem exec_seq_inv {ρ : Env} {st : St} {a b : Stmt PName} {r : Flow × Env × St}
    (h : exec cmpF (call cmpF procs f) lf ρ st (.seq a b) = .ok r) :
    ∃ fl1 ρ1 st1, exec cmpF (call cmpF procs f) lf ρ st a = .ok (fl1, ρ1, st1) ∧
      ((fl1 = .normal ∧ exec cmpF (call cmpF procs f) lf ρ1 st1 b = .ok r) ∨
       (fl1 ≠ .normal ∧ r = (fl1, ρ1, st1))) := by
  simp only [exec] at h
  cases h1 : exec cmpF (call cmpF procs f) lf ρ st a with
  | error e => simp [h1] at h
  | ok r1 =>
    obtain ⟨fl1, ρ1, st1⟩ := r1
    rw [h1] at h
    refine ⟨fl1, ρ1, st1, rfl, ?_⟩
    cases fl1 with
    | normal => exact .inl ⟨rfl, h⟩
    | cont => simp only at h; injection h with h; exact .inr ⟨by simp, h.symm⟩
    | brk => simp only at h; injection h with h; exact .inr ⟨by simp, h.symm⟩
    | ret w => simp only at h; injection h with h; exact .inr ⟨by simp, h.symm⟩

theorem exec_ite_inv {ρ : Env} {st : St} {c : Expr PName} {t e : Stmt PName} {b : Bool} {r : Flow × Env × St}
    (hc : EvalsB cmpF f ρ st c b) (h : exec cmpF (call cmpF procs f) lf ρ st (.ite c t e) = .ok r) :
    (b = true → exec cmpF (call cmpF procs f) lf ρ st t = .ok r) ∧
    (b = false → exec cmpF (call cmpF procs f) lf ρ st e = .ok r) := by
  simp only [exec] at h
  cases h1 : evalE cmpF (call cmpF procs f) ρ st c with
  | error e => simp [h1] at h
  | ok r1 =>
    obtain ⟨v, st1⟩ := r1
    obtain ⟨rfl, rfl⟩ := hc _ _ h1
    rw [h1] at h
    cases b with
    | true => exact ⟨fun _ => h, fun e => Bool.noConfusion e⟩
    | false => exact ⟨fun e => Bool.noConfusion e, fun _ => h⟩

/-- inversion of a binary call -/
theorem h_eval_call2 {callH : CallH PName} {ρ : Env} {st : St} {fn : PName} {a b : Expr PName} {r : Val × St}
    (h : evalE cmpF callH ρ st (.call2 fn a b) = .ok r) :
    ∃ x st1 y st2, evalE cmpF callH ρ st a = .ok (x, st1) ∧ evalE cmpF callH ρ st1 b = .ok (y, st2) ∧
      callH fn [x, y] st2 = .ok r := by
  simp only [evalE] at h
  cases h1 : evalE cmpF callH ρ st a with
  | error e => simp [h1] at h
  | ok r1 =>
    obtain ⟨x, st1⟩ := r1
    rw [h1] at h
    simp only at h
    cases h2 : evalE cmpF callH ρ st1 b with
    | error e => simp [h2] at h
    | ok r2 =>
      obtain ⟨y, st2⟩ := r2
      rw [h2] at h
      exact ⟨x, st1, y, st2, rfl, h2, h⟩

/-- inversion of an expression statement -/
theorem h_exec_expr_inv {callH : CallH PName} {ρ ρ' : Env} {st st' : St} {e : Expr PName} {fl : Flow}
    (h : exec cmpF callH lf ρ st (.expr e) = .ok (fl, ρ', st')) :
    fl = .normal ∧ ρ' = ρ ∧ ∃ v, evalE cmpF callH ρ st e = .ok (v, st') := by
  simp only [exec] at h
  cases h1 : evalE cmpF callH ρ st e with
  | error e => simp [h1] at h
  | ok r =>
    obtain ⟨v, st1⟩ := r
    rw [h1] at h
    simp only at h
    injection h with h
    injection h with e1 h
    injection h with e2 e3
    exact ⟨e1.symm, e2.symm, v, by rw [e3]⟩

theorem exec_setColor_inv {ρ ρ' : Env} {st st' : St} {e1 e2 : Expr PName} {a : Option Nat} {b : Bool} {fl : Flow}
    (h1 : Fix.EvalsTo cmpF f ρ st e1 a) (h2 : EvalsB cmpF f ρ st e2 b)
    (h : exec cmpF (call cmpF procs f) lf ρ st (.expr (.call2 .setColor e1 e2)) = .ok (fl, ρ', st')) :
    fl = .normal ∧ ρ' = ρ ∧ st' = setCol st a b := by
  obtain ⟨e1', e2', v, he⟩ := h_exec_expr_inv h
  obtain ⟨x, st1, y, st2, k1, k2, k3⟩ := h_eval_call2 he
  obtain ⟨rfl, rfl⟩ := h1 _ _ k1
  obtain ⟨rfl, rfl⟩ := h2 _ _ k2
  exact ⟨e1', e2', call_setColor cmpF k3⟩

theorem exec_rotL_inv {ρ ρ' : Env} {st st' : St} {e : Expr PName} {n r : Nat} {fl : Flow}
    (h1 : Fix.EvalsTo cmpF f ρ st e (some n)) (hr : (st.h n).right = some r)
    (h : exec cmpF (call cmpF procs f) lf ρ st (.expr (.call1 .rotateLeft e)) = .ok (fl, ρ', st')) :
    fl = .normal ∧ ρ' = ρ ∧ st' = Rot.rotSt .right .left st n r := by
  obtain ⟨e1', e2', v, he⟩ := h_exec_expr_inv h
  obtain ⟨x, st1, k1, k2⟩ := Fix.eval_call1 he
  obtain ⟨rfl, rfl⟩ := h1 _ _ k1
  exact ⟨e1', e2', call_rotL_some cmpF hr k2⟩

theorem exec_rotR_inv {ρ ρ' : Env} {st st' : St} {e : Expr PName} {n l : Nat} {fl : Flow}
    (h1 : Fix.EvalsTo cmpF f ρ st e (some n)) (hl : (st.h n).left = some l)
    (h : exec cmpF (call cmpF procs f) lf ρ st (.expr (.call1 .rotateRight e)) = .ok (fl, ρ', st')) :
    fl = .normal ∧ ρ' = ρ ∧ st' = Rot.rotSt .left .right st n l := by
  obtain ⟨e1', e2', v, he⟩ := h_exec_expr_inv h
  obtain ⟨x, st1, k1, k2⟩ := Fix.eval_call1 he
  obtain ⟨rfl, rfl⟩ := h1 _ _ k1
  exact ⟨e1', e2', call_rotR_some cmpF hl k2⟩

theorem exec_assign_inv {ρ ρ' : Env} {st st' : St} {e : Expr PName} {a : Option Nat} {k : Nat} {fl : Flow}
    (h1 : Fix.EvalsTo cmpF f ρ st e a)
    (h : exec cmpF (call cmpF procs f) lf ρ st (.assign k e) = .ok (fl, ρ', st')) :
    fl = .normal ∧ ρ' = ρ.set k (.ptr a) ∧ st' = st := by
  simp only [exec] at h
  cases k1 : evalE cmpF (call cmpF procs f) ρ st e with
  | error e => simp [k1] at h
  | ok r =>
    obtain ⟨v, st1⟩ := r
    obtain ⟨rfl, rfl⟩ := h1 _ _ k1
    rw [k1] at h
    simp only at h
    injection h with h
    injection h with e1 h
    injection h with e2 e3
    exact ⟨e1.symm, e2.symm, e3.symm⟩

theorem exec_retVar_inv {ρ ρ' : Env} {st st' : St} {k : Nat} {fl : Flow}
    (h : exec cmpF (call cmpF procs f) lf ρ st (.ret (.var k)) = .ok (fl, ρ', st')) :
    fl = .ret (ρ k) ∧ ρ' = ρ ∧ st' = st := by
  simp only [exec, evalE] at h
  injection h with h
  injection h with e1 h
  injection h with e2 e3
  exact ⟨e1.symm, e2.symm, e3.symm⟩

end eval

theorem setCol_left (st : St) (a : Option Nat) (b : Bool) (x : Nat) : ((setCol st a b).h x).left = (st.h x).left := by
  cases a with
  | none => rfl
  | some n =>
    simp only [setCol, upd]
    split
    · next e => rw [e]
    · rfl
theorem setCol_right (st : St) (a : Option Nat) (b : Bool) (x : Nat) : ((setCol st a b).h x).right = (st.h x).right := by
  cases a with
  | none => rfl
  | some n =>
    simp only [setCol, upd]
    split
    · next e => rw [e]
    · rfl
theorem setCol_parent (st : St) (a : Option Nat) (b : Bool) (x : Nat) : ((setCol st a b).h x).parent = (st.h x).parent := by
  cases a with
  | none => rfl
  | some n =>
    simp only [setCol, upd]
    split
    · next e => rw [e]
    · rfl
theorem setCol_root (st : St) (a : Option Nat) (b : Bool) : (setCol st a b).root = st.root := by
  cases a <;> rfl

/-! ## (10b) the blocks of `fixAfterDeleteLeft` -/

section f1
variable {cmpF : Int → Int → Int} {f lf : Nat}

local notation "EX" => exec cmpF (call cmpF procs f) lf

def f1_condA : Expr PName := .eq (.call1 .getColor (.var 1)) (.bool false)
def f1_condB : Expr PName :=
  .and (.eq (.call1 .getColor (.call1 .getLeft (.var 1))) (.bool true))
    (.eq (.call1 .getColor (.call1 .getRight (.var 1))) (.bool true))
def f1_condC : Expr PName := .eq (.call1 .getColor (.call1 .getRight (.var 1))) (.bool true)

def f1_sibAssign : Stmt PName := .assign 1 (.call1 .getRight (.call1 .getParent (.var 0)))

def f1_blockA : Stmt PName :=
  (.seq (.expr (.call2 .setColor (.var 1) (.bool true)))
    (.seq (.expr (.call2 .setColor (.call1 .getParent (.var 1)) (.bool false)))
    (.seq (.expr (.call1 .rotateLeft (.call1 .getParent (.var 0))))
    f1_sibAssign)))

def f1_blockB : Stmt PName :=
  (.seq (.expr (.call2 .setColor (.var 1) (.bool false)))
    (.assign 0 (.call1 .getParent (.var 0))))

def f1_blockC : Stmt PName :=
  (.seq (.expr (.call2 .setColor (.call1 .getLeft (.var 1)) (.bool true)))
    (.seq (.expr (.call2 .setColor (.var 1) (.bool false)))
    (.seq (.expr (.call1 .rotateRight (.var 1)))
    f1_sibAssign)))

def f1_blockD : Stmt PName :=
  (.seq (.expr (.call2 .setColor (.var 1) (.call1 .getColor (.call1 .getParent (.var 0)))))
    (.seq (.expr (.call2 .setColor (.call1 .getParent (.var 0)) (.bool true)))
    (.seq (.expr (.call2 .setColor (.call1 .getRight (.var 1)) (.bool true)))
    (.seq (.expr (.call1 .rotateLeft (.call1 .getParent (.var 0))))
    (.assign 0 .root)))))

def f1_else : Stmt PName := .seq (.ite f1_condC f1_blockC .skip) f1_blockD
def f1_rest : Stmt PName := .seq (.ite f1_condB f1_blockB f1_else) (.ret (.var 0))

theorem f1_body_eq : body_fixAfterDeleteLeft =
    .seq f1_sibAssign (.seq (.ite f1_condA f1_blockA .skip) f1_rest) := rfl

/-- sequencing when the first statement always completes normally -/
theorem f1_seq {ρ : Env} {st : St} {a b : Stmt PName} {r : Flow × Env × St}
    (h : EX ρ st (.seq a b) = .ok r)
    (ha : ∀ fl ρ1 st1, EX ρ st a = .ok (fl, ρ1, st1) → fl = .normal) :
    ∃ ρ1 st1, EX ρ st a = .ok (.normal, ρ1, st1) ∧ EX ρ1 st1 b = .ok r := by
  obtain ⟨fl1, ρ1, st1, h1, h2⟩ := exec_seq_inv h
  have e := ha _ _ _ h1
  subst e
  rcases h2 with ⟨_, h2⟩ | ⟨h2, _⟩
  · exact ⟨ρ1, st1, h1, h2⟩
  · exact absurd rfl h2

theorem f1_skip {ρ ρ' : Env} {st st' : St} {fl : Flow}
    (h : EX ρ st .skip = .ok (fl, ρ', st')) : fl = .normal ∧ ρ' = ρ ∧ st' = st := by
  simp only [exec, Except.ok.injEq, Prod.mk.injEq] at h
  obtain ⟨rfl, rfl, rfl⟩ := h
  exact ⟨rfl, rfl, rfl⟩

theorem f1_ev_parent {ρ : Env} {st : St} {k a p : Nat} (h : ρ k = .ptr (some a))
    (hp : (st.h a).parent = some p) :
    Fix.EvalsTo cmpF f ρ st (.call1 .getParent (.var k)) (some p) := by
  have := Fix.evalsTo_getParent (cmpF := cmpF) (f := f) (Fix.evalsTo_var (st := st) h)
  simpa [Fix.fldOf, Rot.getP, hp] using this

theorem f1_ev_left {ρ : Env} {st : St} {k a : Nat} (h : ρ k = .ptr (some a)) :
    Fix.EvalsTo cmpF f ρ st (.call1 .getLeft (.var k)) (st.h a).left := by
  have := Fix.evalsTo_getLeft (cmpF := cmpF) (f := f) (Fix.evalsTo_var (st := st) h)
  simpa [Fix.fldOf, Rot.getP] using this

theorem f1_ev_right {ρ : Env} {st : St} {k a : Nat} (h : ρ k = .ptr (some a)) :
    Fix.EvalsTo cmpF f ρ st (.call1 .getRight (.var k)) (st.h a).right := by
  have := Fix.evalsTo_getRight (cmpF := cmpF) (f := f) (Fix.evalsTo_var (st := st) h)
  simpa [Fix.fldOf, Rot.getP] using this

theorem f1_ev_right_parent {ρ : Env} {st : St} {k a p : Nat} (h : ρ k = .ptr (some a))
    (hp : (st.h a).parent = some p) :
    Fix.EvalsTo cmpF f ρ st (.call1 .getRight (.call1 .getParent (.var k))) (st.h p).right := by
  have := Fix.evalsTo_getRight (cmpF := cmpF) (f := f) (f1_ev_parent (st := st) h hp)
  simpa [Fix.fldOf, Rot.getP] using this

theorem f1_sibAssign_exec {ρ ρ' : Env} {st st' : St} {c p : Nat} {fl : Flow}
    (h0 : ρ 0 = .ptr (some c)) (hcp : (st.h c).parent = some p)
    (h : EX ρ st f1_sibAssign = .ok (fl, ρ', st')) :
    fl = .normal ∧ ρ' = ρ.set 1 (.ptr (st.h p).right) ∧ st' = st :=
  exec_assign_inv (f1_ev_right_parent h0 hcp) h

theorem f1_blockA_exec {ρ ρ' : Env} {st st' : St} {c p s : Nat} {fl : Flow}
    (h0 : ρ 0 = .ptr (some c)) (h1 : ρ 1 = .ptr (some s))
    (hcp : (st.h c).parent = some p) (hsp : (st.h s).parent = some p) (hps : (st.h p).right = some s)
    (hcp' : ((stL1 st p s).h c).parent = some p)
    (h : EX ρ st f1_blockA = .ok (fl, ρ', st')) :
    fl = .normal ∧ st' = stL1 st p s ∧ ρ' = ρ.set 1 (.ptr ((stL1 st p s).h p).right) := by
  unfold f1_blockA at h
  obtain ⟨ρ1, st1, e1, h⟩ := f1_seq h
    (fun _ _ _ e => (exec_setColor_inv (Fix.evalsTo_var h1) evalsB_bool e).1)
  obtain ⟨-, hρ1, rfl⟩ := exec_setColor_inv (Fix.evalsTo_var h1) evalsB_bool e1
  subst ρ1
  have hv2 : Fix.EvalsTo cmpF f ρ (setCol st (some s) true) (.call1 .getParent (.var 1)) (some p) :=
    f1_ev_parent h1 (by rw [setCol_parent]; exact hsp)
  obtain ⟨ρ2, st2, e2, h⟩ := f1_seq h
    (fun _ _ _ e => (exec_setColor_inv hv2 evalsB_bool e).1)
  obtain ⟨-, hρ2, rfl⟩ := exec_setColor_inv hv2 evalsB_bool e2
  subst ρ2
  have hv3 : Fix.EvalsTo cmpF f ρ (setCol (setCol st (some s) true) (some p) false)
      (.call1 .getParent (.var 0)) (some p) :=
    f1_ev_parent h0 (by rw [setCol_parent, setCol_parent]; exact hcp)
  have hr3 : ((setCol (setCol st (some s) true) (some p) false).h p).right = some s := by
    rw [setCol_right, setCol_right]; exact hps
  obtain ⟨ρ3, st3, e3, h⟩ := f1_seq h
    (fun _ _ _ e => (exec_rotL_inv hv3 hr3 e).1)
  obtain ⟨-, hρ3, rfl⟩ := exec_rotL_inv hv3 hr3 e3
  subst ρ3
  obtain ⟨e4, e5, e6⟩ := f1_sibAssign_exec (p := p) h0 hcp' h
  exact ⟨e4, e6, e5⟩

theorem f1_blockB_exec {ρ ρ' : Env} {st st' : St} {c p : Nat} {a : Option Nat} {fl : Flow}
    (h0 : ρ 0 = .ptr (some c)) (h1 : ρ 1 = .ptr a)
    (hcp : (st.h c).parent = some p)
    (h : EX ρ st f1_blockB = .ok (fl, ρ', st')) :
    fl = .normal ∧ st' = setCol st a false ∧ ρ' = ρ.set 0 (.ptr (some p)) := by
  unfold f1_blockB at h
  obtain ⟨ρ1, st1, e1, h⟩ := f1_seq h
    (fun _ _ _ e => (exec_setColor_inv (Fix.evalsTo_var h1) evalsB_bool e).1)
  obtain ⟨-, hρ1, rfl⟩ := exec_setColor_inv (Fix.evalsTo_var h1) evalsB_bool e1
  subst ρ1
  have hv : Fix.EvalsTo cmpF f ρ (setCol st a false) (.call1 .getParent (.var 0)) (some p) :=
    f1_ev_parent h0 (by rw [setCol_parent]; exact hcp)
  obtain ⟨e4, e5, e6⟩ := exec_assign_inv hv h
  exact ⟨e4, e6, e5⟩

theorem f1_blockC_exec {ρ ρ' : Env} {st st' : St} {c p s sl : Nat} {fl : Flow}
    (h0 : ρ 0 = .ptr (some c)) (h1 : ρ 1 = .ptr (some s))
    (hsl : (st.h s).left = some sl)
    (hcp' : ((stL3 st s sl).h c).parent = some p)
    (h : EX ρ st f1_blockC = .ok (fl, ρ', st')) :
    fl = .normal ∧ st' = stL3 st s sl ∧ ρ' = ρ.set 1 (.ptr ((stL3 st s sl).h p).right) := by
  unfold f1_blockC at h
  have hv1 : Fix.EvalsTo cmpF f ρ st (.call1 .getLeft (.var 1)) (some sl) := by
    have := f1_ev_left (cmpF := cmpF) (f := f) (st := st) h1
    rwa [hsl] at this
  obtain ⟨ρ1, st1, e1, h⟩ := f1_seq h
    (fun _ _ _ e => (exec_setColor_inv hv1 evalsB_bool e).1)
  obtain ⟨-, hρ1, rfl⟩ := exec_setColor_inv hv1 evalsB_bool e1
  subst ρ1
  obtain ⟨ρ2, st2, e2, h⟩ := f1_seq h
    (fun _ _ _ e => (exec_setColor_inv (Fix.evalsTo_var h1) evalsB_bool e).1)
  obtain ⟨-, hρ2, rfl⟩ := exec_setColor_inv (Fix.evalsTo_var h1) evalsB_bool e2
  subst ρ2
  have hl3 : ((setCol (setCol st (some sl) true) (some s) false).h s).left = some sl := by
    rw [setCol_left, setCol_left]; exact hsl
  obtain ⟨ρ3, st3, e3, h⟩ := f1_seq h
    (fun _ _ _ e => (exec_rotR_inv (Fix.evalsTo_var h1) hl3 e).1)
  obtain ⟨-, hρ3, rfl⟩ := exec_rotR_inv (Fix.evalsTo_var h1) hl3 e3
  subst ρ3
  obtain ⟨e4, e5, e6⟩ := f1_sibAssign_exec (p := p) h0 hcp' h
  exact ⟨e4, e6, e5⟩

theorem f1_blockD_exec {ρ ρ' : Env} {st st' : St} {c p s sr : Nat} {fl : Flow}
    (h0 : ρ 0 = .ptr (some c)) (h1 : ρ 1 = .ptr (some s))
    (hcp : (st.h c).parent = some p) (hsr : (st.h s).right = some sr) (hps : (st.h p).right = some s)
    (h : EX ρ st f1_blockD = .ok (fl, ρ', st')) :
    fl = .normal ∧ st' = stL4 st p s sr ∧ ρ' = ρ.set 0 (.ptr (stL4 st p s sr).root) := by
  unfold f1_blockD at h
  have hb1 : EvalsB cmpF f ρ st (.call1 .getColor (.call1 .getParent (.var 0))) (st.h p).color :=
    evalsB_getColor (f1_ev_parent h0 hcp)
  obtain ⟨ρ1, st1, e1, h⟩ := f1_seq h
    (fun _ _ _ e => (exec_setColor_inv (Fix.evalsTo_var h1) hb1 e).1)
  obtain ⟨-, hρ1, rfl⟩ := exec_setColor_inv (Fix.evalsTo_var h1) hb1 e1
  subst ρ1
  have hv2 : Fix.EvalsTo cmpF f ρ (setCol st (some s) (st.h p).color)
      (.call1 .getParent (.var 0)) (some p) :=
    f1_ev_parent h0 (by rw [setCol_parent]; exact hcp)
  obtain ⟨ρ2, st2, e2, h⟩ := f1_seq h
    (fun _ _ _ e => (exec_setColor_inv hv2 evalsB_bool e).1)
  obtain ⟨-, hρ2, rfl⟩ := exec_setColor_inv hv2 evalsB_bool e2
  subst ρ2
  have hv3 : Fix.EvalsTo cmpF f ρ (setCol (setCol st (some s) (st.h p).color) (some p) true)
      (.call1 .getRight (.var 1)) (some sr) := by
    have := f1_ev_right (cmpF := cmpF) (f := f)
      (st := setCol (setCol st (some s) (st.h p).color) (some p) true) h1
    rwa [setCol_right, setCol_right, hsr] at this
  obtain ⟨ρ3, st3, e3, h⟩ := f1_seq h
    (fun _ _ _ e => (exec_setColor_inv hv3 evalsB_bool e).1)
  obtain ⟨-, hρ3, rfl⟩ := exec_setColor_inv hv3 evalsB_bool e3
  subst ρ3
  have hv4 : Fix.EvalsTo cmpF f ρ
      (setCol (setCol (setCol st (some s) (st.h p).color) (some p) true) (some sr) true)
      (.call1 .getParent (.var 0)) (some p) :=
    f1_ev_parent h0 (by rw [setCol_parent, setCol_parent, setCol_parent]; exact hcp)
  have hr4 : ((setCol (setCol (setCol st (some s) (st.h p).color) (some p) true) (some sr) true).h p).right
      = some s := by
    rw [setCol_right, setCol_right, setCol_right]; exact hps
  obtain ⟨ρ4, st4, e4, h⟩ := f1_seq h
    (fun _ _ _ e => (exec_rotL_inv hv4 hr4 e).1)
  obtain ⟨-, hρ4, rfl⟩ := exec_rotL_inv hv4 hr4 e4
  subst ρ4
  obtain ⟨e5, e6, e7⟩ := exec_assign_inv evalsTo_root h
  exact ⟨e5, e7, e6⟩

variable {z c p : Nat} {S : PT}

/-- the conditional case 1 -/
theorem f1_stmtA {ρ ρ' : Env} {st st' : St} {fl : Flow} (hS : SI .left z c p S st)
    (h0 : ρ 0 = .ptr (some c)) (h1 : ρ 1 = .ptr (st.h p).right)
    (h : EX ρ st (.ite f1_condA f1_blockA .skip) = .ok (fl, ρ', st')) :
    fl = .normal ∧ SI .left z c p S st' ∧ ρ' 0 = .ptr (some c) ∧ ρ' 1 = .ptr (st'.h p).right ∧
      colP st'.h (st'.h p).right = true := by
  have hc : EvalsB cmpF f ρ st f1_condA (colP st.h (st.h p).right == false) :=
    evalsB_eq (evalsB_getColor (Fix.evalsTo_var h1)) evalsB_bool
  obtain ⟨ht, he⟩ := exec_ite_inv hc h
  cases hcol : colP st.h (st.h p).right with
  | true =>
    obtain ⟨rfl, hρ, hst⟩ := f1_skip (he (by simp [hcol]))
    subst ρ' st'
    exact ⟨rfl, hS, h0, h1, hcol⟩
  | false =>
    have hx := ht (by simp [hcol])
    cases hr : (st.h p).right with
    | none => rw [hr] at hcol; simp [colP] at hcol
    | some s =>
      rw [hr] at hcol h1
      have hs : (st.h s).color = false := hcol
      obtain ⟨t, hH, hp⟩ := hS.j.holds
      have hsp : (st.h s).parent = some p := Rot.child_parent hH.1 hp (.inr hr)
      have hcp : (st.h c).parent = some p := Fix.repr_root_parent hS.j.repr
      obtain ⟨hS1, hb⟩ := kL1 hS hr hs
      have hcp' : ((stL1 st p s).h c).parent = some p := Fix.repr_root_parent hS1.j.repr
      obtain ⟨rfl, rfl, rfl⟩ := f1_blockA_exec h0 h1 hcp hsp hr hcp' hx
      refine ⟨rfl, hS1, ?_, ?_, hb⟩
      · simp [Env.set, h0]
      · simp [Env.set]

/-- case 3 (conditional) -/
theorem f1_stmtC {ρ ρ' : Env} {st st' : St} {fl : Flow} {s : Nat} (hS : SI .left z c p S st)
    (h0 : ρ 0 = .ptr (some c)) (h1 : ρ 1 = .ptr (some s))
    (hr : (st.h p).right = some s) (hs : (st.h s).color = true)
    (hne : ¬ (colP st.h (st.h s).left = true ∧ colP st.h (st.h s).right = true))
    (h : EX ρ st (.ite f1_condC f1_blockC .skip) = .ok (fl, ρ', st')) :
    fl = .normal ∧ ∃ s' sr, SI .left z c p S st' ∧ ρ' 0 = .ptr (some c) ∧ ρ' 1 = .ptr (some s') ∧
      (st'.h p).right = some s' ∧ (st'.h s').color = true ∧ (st'.h s').right = some sr ∧
      (st'.h sr).color = false := by
  have hc : EvalsB cmpF f ρ st f1_condC (colP st.h (st.h s).right == true) :=
    evalsB_eq (evalsB_getColor (f1_ev_right h1)) evalsB_bool
  obtain ⟨ht, he⟩ := exec_ite_inv hc h
  cases hcol : colP st.h (st.h s).right with
  | false =>
    obtain ⟨rfl, hρ, hst⟩ := f1_skip (he (by simp [hcol]))
    subst ρ' st'
    cases hsr : (st.h s).right with
    | none => rw [hsr] at hcol; simp [colP] at hcol
    | some sr =>
      rw [hsr] at hcol
      exact ⟨rfl, s, sr, hS, h0, h1, hr, hs, hsr, hcol⟩
  | true =>
    have hx := ht (by simp [hcol])
    have h2 : colP st.h (st.h s).left = false := by
      cases hl : colP st.h (st.h s).left with
      | false => rfl
      | true => exact absurd ⟨hl, hcol⟩ hne
    obtain ⟨sl, hsl, hS3, hpr, hslc, hslr, hsc⟩ := kL3 hS hr hs h2 hcol
    have hcp' : ((stL3 st s sl).h c).parent = some p := Fix.repr_root_parent hS3.j.repr
    obtain ⟨rfl, rfl, rfl⟩ := f1_blockC_exec h0 h1 hsl hcp' hx
    refine ⟨rfl, sl, s, hS3, ?_, ?_, hpr, hslc, hslr, hsc⟩
    · simp [Env.set, h0]
    · simp [Env.set, hpr]

/-- cases 3 and 4 -/
theorem f1_else_exec {ρ ρ' : Env} {st st' : St} {fl : Flow} {s : Nat} (hS : SI .left z c p S st)
    (h0 : ρ 0 = .ptr (some c)) (h1 : ρ 1 = .ptr (some s))
    (hr : (st.h p).right = some s) (hs : (st.h s).color = true)
    (hne : ¬ (colP st.h (st.h s).left = true ∧ colP st.h (st.h s).right = true))
    (h : EX ρ st f1_else = .ok (fl, ρ', st')) :
    fl = .normal ∧ ∃ c', ρ' 0 = .ptr (some c') ∧ LI z c' st' := by
  unfold f1_else at h
  obtain ⟨ρ1, st1, e1, h⟩ := f1_seq h (fun _ _ _ e => (f1_stmtC hS h0 h1 hr hs hne e).1)
  obtain ⟨-, s', sr, hS1, h0', h1', hr', hs', hsr', hc'⟩ := f1_stmtC hS h0 h1 hr hs hne e1
  have hcp : (st1.h c).parent = some p := Fix.repr_root_parent hS1.j.repr
  obtain ⟨rfl, rfl, rfl⟩ := f1_blockD_exec h0' h1' hcp hsr' hr' h
  obtain ⟨r, hroot, hL⟩ := kL4 hS1 hr' hs' hsr' hc'
  exact ⟨rfl, r, by simp [Env.set, hroot], hL⟩

/-- the conditional case 2 / cases 3-4 -/
theorem f1_stmtB {ρ ρ' : Env} {st st' : St} {fl : Flow} (hS : SI .left z c p S st)
    (h0 : ρ 0 = .ptr (some c)) (h1 : ρ 1 = .ptr (st.h p).right)
    (hb : colP st.h (st.h p).right = true)
    (h : EX ρ st (.ite f1_condB f1_blockB f1_else) = .ok (fl, ρ', st')) :
    fl = .normal ∧ ∃ c', ρ' 0 = .ptr (some c') ∧ LI z c' st' := by
  have hc : EvalsB cmpF f ρ st f1_condB
      ((colP st.h (Fix.fldOf st (st.h p).right .left) == true) &&
       (colP st.h (Fix.fldOf st (st.h p).right .right) == true)) :=
    evalsB_and
      (evalsB_eq (evalsB_getColor (Fix.evalsTo_getLeft (Fix.evalsTo_var h1))) evalsB_bool)
      (evalsB_eq (evalsB_getColor (Fix.evalsTo_getRight (Fix.evalsTo_var h1))) evalsB_bool)
  obtain ⟨ht, he⟩ := exec_ite_inv hc h
  have hcp : (st.h c).parent = some p := Fix.repr_root_parent hS.j.repr
  by_cases hboth : colP st.h (Fix.fldOf st (st.h p).right .left) = true ∧
      colP st.h (Fix.fldOf st (st.h p).right .right) = true
  · have hx := ht (by simp [hboth.1, hboth.2])
    obtain ⟨rfl, rfl, rfl⟩ := f1_blockB_exec h0 h1 hcp hx
    exact ⟨rfl, p, by simp [Env.set], kL2 hS hb hboth.1 hboth.2⟩
  · have hx := he (by
      cases h2 : colP st.h (Fix.fldOf st (st.h p).right .left) <;>
      cases h3 : colP st.h (Fix.fldOf st (st.h p).right .right) <;> simp_all)
    cases hr : (st.h p).right with
    | none => rw [hr] at hboth; simp [Fix.fldOf, colP] at hboth
    | some s =>
      rw [hr] at hboth hb h1
      have hne : ¬ (colP st.h (st.h s).left = true ∧ colP st.h (st.h s).right = true) := by
        simpa [Fix.fldOf, Rot.getP] using hboth
      exact f1_else_exec hS h0 h1 hr hb hne hx

theorem f1_rest_exec {ρ ρ' : Env} {st st' : St} {fl : Flow} (hS : SI .left z c p S st)
    (h0 : ρ 0 = .ptr (some c)) (h1 : ρ 1 = .ptr (st.h p).right)
    (hb : colP st.h (st.h p).right = true)
    (h : EX ρ st f1_rest = .ok (fl, ρ', st')) :
    ∃ c', fl = .ret (.ptr (some c')) ∧ LI z c' st' := by
  unfold f1_rest at h
  obtain ⟨ρ1, st1, e1, h⟩ := f1_seq h (fun _ _ _ e => (f1_stmtB hS h0 h1 hb e).1)
  obtain ⟨-, c', hc', hL⟩ := f1_stmtB hS h0 h1 hb e1
  obtain ⟨rfl, hρ, hst⟩ := exec_retVar_inv h
  subst ρ' st'
  exact ⟨c', by rw [hc'], hL⟩

theorem f1_body_exec {ρ ρ' : Env} {st st' : St} {fl : Flow} (hS : SI .left z c p S st)
    (h0 : ρ 0 = .ptr (some c))
    (h : EX ρ st body_fixAfterDeleteLeft = .ok (fl, ρ', st')) :
    ∃ c', fl = .ret (.ptr (some c')) ∧ LI z c' st' := by
  rw [f1_body_eq] at h
  have hcp : (st.h c).parent = some p := Fix.repr_root_parent hS.j.repr
  obtain ⟨ρ1, st1, e1, h⟩ := f1_seq h (fun _ _ _ e => (f1_sibAssign_exec h0 hcp e).1)
  obtain ⟨-, rfl, hst⟩ := f1_sibAssign_exec h0 hcp e1
  subst st1
  have h0a : (ρ.set 1 (.ptr (st.h p).right)) 0 = .ptr (some c) := by simp [Env.set, h0]
  have h1a : (ρ.set 1 (.ptr (st.h p).right)) 1 = .ptr (st.h p).right := by simp [Env.set]
  obtain ⟨ρ2, st2, e2, h⟩ := f1_seq h (fun _ _ _ e => (f1_stmtA hS h0a h1a e).1)
  obtain ⟨-, hS2, h0b, h1b, hb⟩ := f1_stmtA hS h0a h1a e2
  exact f1_rest_exec hS2 h0b h1b hb h

end f1

/-! ## (10b) symbolic execution of `fixAfterDeleteRight`, block by block -/

section f2
variable {cmpF : Int → Int → Int} {f lf : Nat}

theorem f2_exec_skip_inv {ρ ρ' : Env} {st st' : St} {fl : Flow}
    (h : exec cmpF (call cmpF procs f) lf ρ st (.skip : Stmt PName) = .ok (fl, ρ', st')) :
    fl = .normal ∧ ρ' = ρ ∧ st' = st := by
  simp [exec] at h
  obtain ⟨e1, e2, e3⟩ := h
  exact ⟨e1.symm, e2.symm, e3.symm⟩

/-- a statement that completes normally in a known configuration, followed by `b` -/
theorem f2_seq_step {ρ ρA : Env} {st stA : St} {a b : Stmt PName} {r : Flow × Env × St}
    (h : exec cmpF (call cmpF procs f) lf ρ st (.seq a b) = .ok r)
    (ha : ∀ fl ρ1 st1, exec cmpF (call cmpF procs f) lf ρ st a = .ok (fl, ρ1, st1) →
      fl = .normal ∧ ρ1 = ρA ∧ st1 = stA) :
    exec cmpF (call cmpF procs f) lf ρA stA b = .ok r := by
  obtain ⟨fl1, ρ1, st1, h1, h2⟩ := exec_seq_inv h
  obtain ⟨e1, e2, e3⟩ := ha _ _ _ h1
  subst e1 e2 e3
  rcases h2 with ⟨_, h2⟩ | ⟨hne, _⟩
  · exact h2
  · exact absurd rfl hne

theorem f2_evalsTo_par {ρ : Env} {st : St} {c p : Nat} (h0 : ρ 0 = .ptr (some c))
    (hp : (st.h c).parent = some p) :
    Fix.EvalsTo cmpF f ρ st (.call1 .getParent (.var 0)) (some p) := by
  have := Fix.evalsTo_getParent (cmpF := cmpF) (f := f) (Fix.evalsTo_var (st := st) h0)
  simpa [Fix.fldOf, Rot.getP, hp] using this

theorem f2_evalsTo_left {ρ : Env} {st : St} {e : Expr PName} {n : Nat} {a : Option Nat}
    (h : Fix.EvalsTo cmpF f ρ st e (some n)) (hl : (st.h n).left = a) :
    Fix.EvalsTo cmpF f ρ st (.call1 .getLeft e) a := by
  have := Fix.evalsTo_getLeft h
  simpa [Fix.fldOf, Rot.getP, hl] using this

theorem f2_evalsTo_right {ρ : Env} {st : St} {e : Expr PName} {n : Nat} {a : Option Nat}
    (h : Fix.EvalsTo cmpF f ρ st e (some n)) (hl : (st.h n).right = a) :
    Fix.EvalsTo cmpF f ρ st (.call1 .getRight e) a := by
  have := Fix.evalsTo_getRight h
  simpa [Fix.fldOf, Rot.getP, hl] using this

/-- case 1: recolour the red sibling and the parent, rotate right at the parent, re-read the sibling -/
def f2_blockA : Stmt PName :=
  .seq (.expr (.call2 .setColor (.var 1) (.bool true)))
    (.seq (.expr (.call2 .setColor (.call1 .getParent (.var 0)) (.bool false)))
    (.seq (.expr (.call1 .rotateRight (.call1 .getParent (.var 0))))
    (.assign 1 (.call1 .getBrother (.var 0)))))

/-- case 3: rotate left at the sibling -/
def f2_blockC : Stmt PName :=
  .seq (.expr (.call2 .setColor (.call1 .getRight (.var 1)) (.bool true)))
    (.seq (.expr (.call2 .setColor (.var 1) (.bool false)))
    (.seq (.expr (.call1 .rotateLeft (.var 1)))
    (.assign 1 (.call1 .getLeft (.call1 .getParent (.var 0))))))

/-- case 4: the final rotation at the parent -/
def f2_blockD : Stmt PName :=
  .seq (.expr (.call2 .setColor (.var 1) (.call1 .getColor (.call1 .getParent (.var 0)))))
    (.seq (.expr (.call2 .setColor (.call1 .getParent (.var 0)) (.bool true)))
    (.seq (.expr (.call2 .setColor (.call1 .getLeft (.var 1)) (.bool true)))
    (.seq (.expr (.call1 .rotateRight (.call1 .getParent (.var 0))))
    (.assign 0 .root))))

/-- cases 3 and 4 -/
def f2_block34 : Stmt PName :=
  .seq (.ite (.eq (.call1 .getColor (.call1 .getLeft (.var 1))) (.bool true)) f2_blockC .skip) f2_blockD

/-- case 2 -/
def f2_block2 : Stmt PName :=
  .seq (.expr (.call2 .setColor (.var 1) (.bool false))) (.assign 0 (.call1 .getParent (.var 0)))

/-- everything after case 1 -/
def f2_rest : Stmt PName :=
  .seq (.ite (.and (.eq (.call1 .getColor (.call1 .getRight (.var 1))) (.bool true))
      (.eq (.call1 .getColor (.call1 .getLeft (.var 1))) (.bool true))) f2_block2 f2_block34)
    (.ret (.var 0))

theorem f2_body_eq : body_fixAfterDeleteRight =
    .seq (.assign 1 (.call1 .getLeft (.call1 .getParent (.var 0))))
      (.seq (.ite (.eq (.call1 .getColor (.var 1)) (.bool false)) f2_blockA .skip) f2_rest) := rfl

theorem f2_blockA_exec {ρ ρ' : Env} {st st' : St} {fl : Flow} {c p s : Nat}
    (h0 : ρ 0 = .ptr (some c)) (h1 : ρ 1 = .ptr (some s)) (hp : (st.h c).parent = some p)
    (hl : (st.h p).left = some s) (hp' : ((stR1 st p s).h c).parent = some p)
    (hne : ((stR1 st p s).h p).left ≠ some c)
    (h : exec cmpF (call cmpF procs f) lf ρ st f2_blockA = .ok (fl, ρ', st')) :
    fl = .normal ∧ ρ' = ρ.set 1 (.ptr ((stR1 st p s).h p).left) ∧ st' = stR1 st p s := by
  unfold f2_blockA at h
  have h := f2_seq_step h (fun _ _ _ h' => exec_setColor_inv (Fix.evalsTo_var h1) evalsB_bool h')
  have h := f2_seq_step h (fun _ _ _ h' => exec_setColor_inv
    (f2_evalsTo_par h0 (by rw [setCol_parent]; exact hp)) evalsB_bool h')
  have h := f2_seq_step h (fun _ _ _ h' => exec_rotR_inv
    (f2_evalsTo_par h0 (by rw [setCol_parent, setCol_parent]; exact hp))
    (by rw [setCol_left, setCol_left]; exact hl) h')
  have hb := evalsTo_getBrother (cmpF := cmpF) (f := f) (Fix.evalsTo_var (st := stR1 st p s) h0) hp'
  rw [if_neg hne] at hb
  exact exec_assign_inv hb h

theorem f2_blockC_exec {ρ ρ' : Env} {st st' : St} {fl : Flow} {c p s sr : Nat}
    (h0 : ρ 0 = .ptr (some c)) (h1 : ρ 1 = .ptr (some s)) (hr : (st.h s).right = some sr)
    (hp' : ((stR3 st s sr).h c).parent = some p)
    (h : exec cmpF (call cmpF procs f) lf ρ st f2_blockC = .ok (fl, ρ', st')) :
    fl = .normal ∧ ρ' = ρ.set 1 (.ptr ((stR3 st s sr).h p).left) ∧ st' = stR3 st s sr := by
  unfold f2_blockC at h
  have h := f2_seq_step h (fun _ _ _ h' => exec_setColor_inv
    (f2_evalsTo_right (Fix.evalsTo_var h1) hr) evalsB_bool h')
  have h := f2_seq_step h (fun _ _ _ h' => exec_setColor_inv (Fix.evalsTo_var h1) evalsB_bool h')
  have h := f2_seq_step h (fun _ _ _ h' => exec_rotL_inv (Fix.evalsTo_var h1)
    (by rw [setCol_right, setCol_right]; exact hr) h')
  exact exec_assign_inv (f2_evalsTo_left (f2_evalsTo_par (st := stR3 st s sr) h0 hp') rfl) h

theorem f2_blockD_exec {ρ ρ' : Env} {st st' : St} {fl : Flow} {c p s sl : Nat}
    (h0 : ρ 0 = .ptr (some c)) (h1 : ρ 1 = .ptr (some s)) (hp : (st.h c).parent = some p)
    (hl : (st.h p).left = some s) (hsl : (st.h s).left = some sl)
    (h : exec cmpF (call cmpF procs f) lf ρ st f2_blockD = .ok (fl, ρ', st')) :
    fl = .normal ∧ ρ' = ρ.set 0 (.ptr (stR4 st p s sl).root) ∧ st' = stR4 st p s sl := by
  unfold f2_blockD at h
  have h := f2_seq_step h (fun _ _ _ h' => exec_setColor_inv (Fix.evalsTo_var h1)
    (evalsB_getColor (f2_evalsTo_par h0 hp)) h')
  have h := f2_seq_step h (fun _ _ _ h' => exec_setColor_inv
    (f2_evalsTo_par h0 (by rw [setCol_parent]; exact hp)) evalsB_bool h')
  have h := f2_seq_step h (fun _ _ _ h' => exec_setColor_inv
    (f2_evalsTo_left (a := some sl) (Fix.evalsTo_var h1) (by rw [setCol_left, setCol_left]; exact hsl))
    evalsB_bool h')
  have h := f2_seq_step h (fun _ _ _ h' => exec_rotR_inv
    (f2_evalsTo_par h0 (by rw [setCol_parent, setCol_parent, setCol_parent]; exact hp))
    (by rw [setCol_left, setCol_left, setCol_left]; exact hl) h')
  exact exec_assign_inv (evalsTo_root (st := stR4 st p s sl)) h

theorem f2_left_ne {z c p : Nat} {S : PT} {st : St} (hS : SI .right z c p S st) :
    (st.h p).left ≠ some c := by
  obtain ⟨O, hO, hd⟩ := hS.j.structR
  exact Rot.repr_ne_of_not_mem hO (hd c (Fix.repr_root_mem hS.j.repr)).1

theorem f2_case2 {ρ ρ' : Env} {st st' : St} {fl : Flow} {z c p : Nat} {S : PT}
    (hS : SI .right z c p S st) (h0 : ρ 0 = .ptr (some c)) (h1 : ρ 1 = .ptr (st.h p).left)
    (hb : colP st.h (st.h p).left = true)
    (h2 : colP st.h (Fix.fldOf st (st.h p).left .right) = true)
    (h3 : colP st.h (Fix.fldOf st (st.h p).left .left) = true)
    (h : exec cmpF (call cmpF procs f) lf ρ st f2_block2 = .ok (fl, ρ', st')) :
    fl = .normal ∧ ρ' 0 = .ptr (some p) ∧ LI z p st' := by
  unfold f2_block2 at h
  have hp := Fix.repr_root_parent hS.j.repr
  have h := f2_seq_step h (fun _ _ _ h' => exec_setColor_inv (Fix.evalsTo_var h1) evalsB_bool h')
  obtain ⟨e1, e2, e3⟩ := exec_assign_inv (f2_evalsTo_par h0 (by rw [setCol_parent]; exact hp)) h
  subst e1 e2 e3
  exact ⟨rfl, by simp [Env.set], kR2 hS hb h2 h3⟩

theorem f2_case34 {ρ ρ' : Env} {st st' : St} {fl : Flow} {z c p s : Nat} {S : PT}
    (hS : SI .right z c p S st) (h0 : ρ 0 = .ptr (some c)) (h1 : ρ 1 = .ptr (some s))
    (hl : (st.h p).left = some s) (hs : (st.h s).color = true)
    (hc2 : colP st.h (st.h s).left = true → colP st.h (st.h s).right = false)
    (h : exec cmpF (call cmpF procs f) lf ρ st f2_block34 = .ok (fl, ρ', st')) :
    fl = .normal ∧ ∃ r, ρ' 0 = .ptr (some r) ∧ LI z r st' := by
  unfold f2_block34 at h
  have hp := Fix.repr_root_parent hS.j.repr
  have hcond : EvalsB cmpF f ρ st (.eq (.call1 .getColor (.call1 .getLeft (.var 1))) (.bool true))
      (colP st.h (st.h s).left == true) :=
    evalsB_eq (evalsB_getColor (f2_evalsTo_left (Fix.evalsTo_var h1) rfl)) evalsB_bool
  cases hc3 : colP st.h (st.h s).left with
  | true =>
    obtain ⟨sr, hsr, hS3, hl3, hsrb, hsrl, hsred⟩ := kR3 hS hl hs (hc2 hc3) hc3
    have hp3 := Fix.repr_root_parent hS3.j.repr
    have h := f2_seq_step h (fun _ _ _ h' => f2_blockC_exec h0 h1 hsr hp3
      ((exec_ite_inv hcond h').1 (by rw [hc3]; rfl)))
    rw [hl3] at h
    obtain ⟨e1, e2, e3⟩ := f2_blockD_exec (by simp [Env.set, h0]) (by simp [Env.set]) hp3 hl3 hsrl h
    obtain ⟨r, hr, hL⟩ := kR4 hS3 hl3 hsrb hsrl hsred
    subst e1 e2 e3
    exact ⟨rfl, r, by simp [Env.set, hr], hL⟩
  | false =>
    cases hsl : (st.h s).left with
    | none => rw [hsl] at hc3; simp [colP] at hc3
    | some sl =>
      have hslr : (st.h sl).color = false := by rw [hsl] at hc3; exact hc3
      have h := f2_seq_step h (fun _ _ _ h' => f2_exec_skip_inv
        ((exec_ite_inv hcond h').2 (by rw [hc3]; rfl)))
      obtain ⟨e1, e2, e3⟩ := f2_blockD_exec h0 h1 hp hl hsl h
      obtain ⟨r, hr, hL⟩ := kR4 hS hl hs hsl hslr
      subst e1 e2 e3
      exact ⟨rfl, r, by simp [Env.set, hr], hL⟩

theorem f2_part2 {ρ ρ' : Env} {st st' : St} {fl : Flow} {z c p : Nat} {S : PT}
    (hS : SI .right z c p S st) (h0 : ρ 0 = .ptr (some c)) (h1 : ρ 1 = .ptr (st.h p).left)
    (hb : colP st.h (st.h p).left = true)
    (h : exec cmpF (call cmpF procs f) lf ρ st f2_rest = .ok (fl, ρ', st')) :
    ∃ c', fl = .ret (.ptr (some c')) ∧ LI z c' st' := by
  unfold f2_rest at h
  obtain ⟨fl1, ρ1, st1, hA, hB⟩ := exec_seq_inv h
  have hcond : EvalsB cmpF f ρ st
      (.and (.eq (.call1 .getColor (.call1 .getRight (.var 1))) (.bool true))
        (.eq (.call1 .getColor (.call1 .getLeft (.var 1))) (.bool true)))
      ((colP st.h (Fix.fldOf st (st.h p).left .right) == true) &&
        (colP st.h (Fix.fldOf st (st.h p).left .left) == true)) :=
    evalsB_and (evalsB_eq (evalsB_getColor (Fix.evalsTo_getRight (Fix.evalsTo_var h1))) evalsB_bool)
      (evalsB_eq (evalsB_getColor (Fix.evalsTo_getLeft (Fix.evalsTo_var h1))) evalsB_bool)
  have key : fl1 = .normal ∧ ∃ r, ρ1 0 = .ptr (some r) ∧ LI z r st1 := by
    by_cases hc : colP st.h (Fix.fldOf st (st.h p).left .right) = true ∧
        colP st.h (Fix.fldOf st (st.h p).left .left) = true
    · obtain ⟨a1, a2, a3⟩ := f2_case2 hS h0 h1 hb hc.1 hc.2
        ((exec_ite_inv hcond hA).1 (by rw [hc.1, hc.2]; rfl))
      exact ⟨a1, p, a2, a3⟩
    · have hbf : ((colP st.h (Fix.fldOf st (st.h p).left .right) == true) &&
          (colP st.h (Fix.fldOf st (st.h p).left .left) == true)) = false := by
        cases hX : colP st.h (Fix.fldOf st (st.h p).left .right) <;>
          cases hY : colP st.h (Fix.fldOf st (st.h p).left .left) <;> simp [hX, hY] at hc ⊢
      have hE := (exec_ite_inv hcond hA).2 hbf
      cases hsib : (st.h p).left with
      | none => exact absurd (by rw [hsib]; simp [Fix.fldOf, colP]) hc
      | some s =>
        rw [hsib] at h1 hb hc
        refine f2_case34 hS h0 h1 hsib hb (fun hL => ?_) hE
        cases hR : colP st.h (st.h s).right with
        | false => rfl
        | true => exact absurd ⟨hR, hL⟩ hc
  rcases hB with ⟨_, hB⟩ | ⟨hne, _⟩
  · obtain ⟨r, hr0, hL⟩ := key.2
    obtain ⟨e1, e2, e3⟩ := exec_retVar_inv hB
    subst e1 e2 e3
    exact ⟨r, by rw [hr0], hL⟩
  · exact absurd key.1 hne

theorem f2_part1 {ρ : Env} {st : St} {r : Flow × Env × St} {z c p : Nat} {S : PT}
    (hS : SI .right z c p S st) (h0 : ρ 0 = .ptr (some c))
    (h : exec cmpF (call cmpF procs f) lf ρ st body_fixAfterDeleteRight = .ok r) :
    ∃ ρ1 st1, SI .right z c p S st1 ∧ ρ1 0 = .ptr (some c) ∧ ρ1 1 = .ptr (st1.h p).left ∧
      colP st1.h (st1.h p).left = true ∧
      exec cmpF (call cmpF procs f) lf ρ1 st1 f2_rest = .ok r := by
  rw [f2_body_eq] at h
  have hp := Fix.repr_root_parent hS.j.repr
  have h := f2_seq_step h (fun _ _ _ h' => exec_assign_inv
    (f2_evalsTo_left (a := (st.h p).left) (f2_evalsTo_par h0 hp) rfl) h')
  have hρ0 : (ρ.set 1 (.ptr (st.h p).left)) 0 = .ptr (some c) := by simp [Env.set, h0]
  have hρ1 : (ρ.set 1 (.ptr (st.h p).left)) 1 = .ptr (st.h p).left := by simp [Env.set]
  generalize ρ.set 1 (.ptr (st.h p).left) = ρ1 at h hρ0 hρ1
  have hcond : EvalsB cmpF f ρ1 st (.eq (.call1 .getColor (.var 1)) (.bool false))
      (colP st.h (st.h p).left == false) :=
    evalsB_eq (evalsB_getColor (Fix.evalsTo_var hρ1)) evalsB_bool
  cases hcA : colP st.h (st.h p).left with
  | false =>
    cases hsib : (st.h p).left with
    | none => rw [hsib] at hcA; simp [colP] at hcA
    | some s =>
      have hs : (st.h s).color = false := by rw [hsib] at hcA; exact hcA
      obtain ⟨hS1, hb1⟩ := kR1 hS hsib hs
      have h := f2_seq_step h (fun _ _ _ h' => f2_blockA_exec hρ0 (by rw [hρ1, hsib]) hp hsib
        (Fix.repr_root_parent hS1.j.repr) (f2_left_ne hS1)
        ((exec_ite_inv hcond h').1 (by rw [hcA]; rfl)))
      exact ⟨_, _, hS1, by simp [Env.set, hρ0], by simp [Env.set], hb1, h⟩
  | true =>
    have h := f2_seq_step h (fun _ _ _ h' => f2_exec_skip_inv
      ((exec_ite_inv hcond h').2 (by rw [hcA]; rfl)))
    exact ⟨_, _, hS, hρ0, hρ1, hcA, h⟩

end f2

/-! ## (11) one step of the loop -/

section bodies
variable (cmpF : Int → Int → Int)
variable {f : Nat} {z c p : Nat} {S : PT} {st st' : St} {v : Val}

theorem left_body_rb (hS : SI .left z c p S st)
    (h : call cmpF procs f .fixAfterDeleteLeft [.ptr (some c)] st = .ok (v, st')) :
    ∃ c', v = .ptr (some c') ∧ LI z c' st' := by
  cases f with
  | zero => simp [call] at h
  | succ f =>
    have h' : runBody cmpF (call cmpF procs f) f ⟨1, body_fixAfterDeleteLeft⟩ [.ptr (some c)] st
        = .ok (v, st') := h
    simp only [runBody] at h'
    cases he : exec cmpF (call cmpF procs f) f (Env.ofArgs [.ptr (some c)]) st body_fixAfterDeleteLeft with
    | error e => simp [he] at h'
    | ok r =>
      obtain ⟨fl, ρ', st1⟩ := r
      obtain ⟨c', e1, hI⟩ := f1_body_exec hS (by simp [Env.ofArgs]) he
      rw [he, e1] at h'
      simp at h'
      obtain ⟨e3, e4⟩ := h'
      exact ⟨c', e3.symm, e4 ▸ hI⟩

theorem right_body_rb (hS : SI .right z c p S st)
    (h : call cmpF procs f .fixAfterDeleteRight [.ptr (some c)] st = .ok (v, st')) :
    ∃ c', v = .ptr (some c') ∧ LI z c' st' := by
  cases f with
  | zero => simp [call] at h
  | succ f =>
    have h' : runBody cmpF (call cmpF procs f) f ⟨1, body_fixAfterDeleteRight⟩ [.ptr (some c)] st
        = .ok (v, st') := h
    simp only [runBody] at h'
    cases he : exec cmpF (call cmpF procs f) f (Env.ofArgs [.ptr (some c)]) st body_fixAfterDeleteRight with
    | error e => simp [he] at h'
    | ok r =>
      obtain ⟨fl, ρ', st1⟩ := r
      obtain ⟨ρ1, st2, hS1, h0, h1, hb, hr⟩ := f2_part1 hS (by simp [Env.ofArgs]) he
      obtain ⟨c', e1, hI⟩ := f2_part2 hS1 h0 h1 hb hr
      rw [he, e1] at h'
      simp at h'
      obtain ⟨e3, e4⟩ := h'
      exact ⟨c', e3.symm, e4 ▸ hI⟩

end bodies

/-! ## (12) the loop and `fixAfterDelete` -/

section f3
variable (cmpF : Int → Int → Int)
variable {f lf : Nat}

/-- `x != root` with `x` the cursor -/
theorem f3_ne_root {ρ : Env} {st : St} {c : Nat} (h0 : ρ 0 = .ptr (some c)) :
    EvalsB cmpF f ρ st (.ne (.var 0) .root) (!(some c == st.root)) := by
  intro v st1 he
  simp [evalE, h0, valEq] at he
  obtain ⟨rfl, rfl⟩ := he
  exact ⟨rfl, rfl⟩

/-- the guard of the loop is evaluated exactly -/
theorem f3_cond {ρ : Env} {st : St} {c : Nat} (h0 : ρ 0 = .ptr (some c)) :
    EvalsB cmpF f ρ st Fix.condE (!(some c == st.root) && ((st.h c).color == true)) :=
  evalsB_and (f3_ne_root cmpF h0) (evalsB_eq (evalsB_getColor (Fix.evalsTo_var h0)) evalsB_bool)

/-- the test `x == getLeft(x.parent)` -/
theorem f3_isLeft {ρ : Env} {st : St} {c p : Nat} (h0 : ρ 0 = .ptr (some c)) (hpar : (st.h c).parent = some p) :
    EvalsB cmpF f ρ st (.eq (.var 0) (.call1 .getLeft (.field (.var 0) .parent)))
      (some c == (st.h p).left) := by
  intro v st1 he
  obtain ⟨a, s1, y, r, h1, h2, hv, hvr⟩ := Fix.eval_eq he
  simp [evalE] at h1
  obtain ⟨ha, hs1⟩ := h1
  subst ha hs1
  obtain ⟨b, s2, h3, h4⟩ := Fix.eval_call1 h2
  simp [evalE, h0, Node.get, hpar] at h3
  obtain ⟨hb, hs2⟩ := h3
  subst hb hs2
  obtain ⟨e1, e2⟩ := Fix.call_getLeft cmpF h4
  rw [e2, h0] at hv
  simp [valEq, Fix.fldOf, Rot.getP] at hv
  refine ⟨e1, ?_⟩
  rw [hvr, ← hv]

/-- `x = fn(x)` -/
theorem f3_assign_call {ρ ρ' : Env} {st st' : St} {c : Nat} {fn : PName} {fl : Flow}
    (h0 : ρ 0 = .ptr (some c))
    (h : exec cmpF (call cmpF procs f) lf ρ st (.assign 0 (.call1 fn (.var 0))) = .ok (fl, ρ', st')) :
    ∃ v, call cmpF procs f fn [.ptr (some c)] st = .ok (v, st') ∧ fl = .normal ∧ ρ' = ρ.set 0 v := by
  simp only [exec] at h
  cases he : evalE cmpF (call cmpF procs f) ρ st (.call1 fn (.var 0)) with
  | error e => simp [he] at h
  | ok r =>
    obtain ⟨v, s1⟩ := r
    rw [he] at h
    simp at h
    obtain ⟨e1, e2, e3⟩ := h
    obtain ⟨a, s2, h1, h2⟩ := Fix.eval_call1 he
    simp [evalE] at h1
    obtain ⟨ha, hs2⟩ := h1
    rw [← ha, ← hs2, h0, e3] at h2
    exact ⟨v, h2, e1.symm, e2.symm⟩

variable {z : Nat}

/-- one iteration of the loop of `fixAfterDelete` -/
theorem f3_step {ρ ρ' : Env} {st st' : St} {c : Nat} {fl : Flow} (h0 : ρ 0 = .ptr (some c))
    (hL : LI z c st) (hroot : st.root ≠ some c) (hcb : (st.h c).color = true)
    (h : exec cmpF (call cmpF procs f) lf ρ st Fix.stepS = .ok (fl, ρ', st')) :
    fl = .normal ∧ ∃ c', ρ' 0 = .ptr (some c') ∧ LI z c' st' := by
  obtain ⟨p, S, hpar, hl, hr⟩ := li_to_si hL hroot hcb
  obtain ⟨ht, he⟩ := exec_ite_inv (f3_isLeft cmpF h0 hpar) h
  by_cases hc : (st.h p).left = some c
  · have hb : (some c == (st.h p).left) = true := by simp [hc]
    obtain ⟨v, h1, e1, e2⟩ := f3_assign_call cmpF h0 (ht hb)
    obtain ⟨c', e, hI⟩ := left_body_rb cmpF (hl hc) h1
    exact ⟨e1, c', by simp [e2, Env.set, e], hI⟩
  · have hb : (some c == (st.h p).left) = false := by
      have : ¬ (some c = (st.h p).left) := fun e => hc e.symm
      simp [this]
    obtain ⟨v, h1, e1, e2⟩ := f3_assign_call cmpF h0 (he hb)
    obtain ⟨c', e, hI⟩ := right_body_rb cmpF (hr hc) h1
    exact ⟨e1, c', by simp [e2, Env.set, e], hI⟩

/-- the loop of `fixAfterDelete` -/
theorem f3_loop : ∀ n ρ st fl ρ' st', (∃ c, ρ 0 = .ptr (some c) ∧ LI z c st) →
    iterate (fun ρ st => evalE cmpF (call cmpF procs f) ρ st Fix.condE)
      (fun ρ st => exec cmpF (call cmpF procs f) lf ρ st Fix.stepS) n ρ st = .ok (fl, ρ', st') →
    fl = .normal ∧ ∃ c, ρ' 0 = .ptr (some c) ∧ LI z c st' ∧ (st'.root = some c ∨ (st'.h c).color = false) := by
  intro n
  induction n with
  | zero => intro ρ st fl ρ' st' _ h; simp [iterate] at h
  | succ n ih =>
    intro ρ st fl ρ' st' hQ h
    obtain ⟨c, h0, hL⟩ := hQ
    simp only [iterate] at h
    cases h1 : evalE cmpF (call cmpF procs f) ρ st Fix.condE with
    | error e => simp [h1] at h
    | ok r1 =>
      obtain ⟨v, st1⟩ := r1
      rw [h1] at h
      obtain ⟨e1, e2⟩ := f3_cond cmpF h0 v st1 h1
      subst e1
      cases hb : (!(some c == st1.root) && ((st1.h c).color == true)) with
      | false =>
        rw [e2, hb] at h
        simp at h
        obtain ⟨e1, e2, e3⟩ := h
        subst e1 e2 e3
        refine ⟨rfl, c, h0, hL, ?_⟩
        by_cases hr : st1.root = some c
        · exact Or.inl hr
        · have : ¬ (some c = st1.root) := fun e => hr e.symm
          right
          simpa [this] using hb
      | true =>
        rw [e2, hb] at h
        simp only at h
        have hroot : st1.root ≠ some c := by
          intro e; simp [e] at hb
        have hcb : (st1.h c).color = true := by
          simp at hb; exact hb.2
        cases h2 : exec cmpF (call cmpF procs f) lf ρ st1 Fix.stepS with
        | error e => simp [h2] at h
        | ok r2 =>
          obtain ⟨fl2, ρ2, st2⟩ := r2
          rw [h2] at h
          obtain ⟨e, hQ2⟩ := f3_step cmpF h0 hL hroot hcb h2
          subst e
          exact ih _ _ _ _ _ hQ2 h

/-- the body of `fixAfterDelete` -/
theorem f3_body {ρ ρ' : Env} {st st' : St} {fl : Flow} (hQ : ∃ c, ρ 0 = .ptr (some c) ∧ LI z c st)
    (h : exec cmpF (call cmpF procs f) lf ρ st body_fixAfterDelete = .ok (fl, ρ', st')) :
    fl = .normal ∧ ∃ c st1, LI z c st1 ∧ (st1.root = some c ∨ (st1.h c).color = false) ∧
      st' = setCol st1 (some c) true := by
  rw [Fix.body_fixAfterDelete_eq] at h
  obtain ⟨fl1, ρ1, st1, ha, hcase⟩ := exec_seq_inv h
  simp only [exec] at ha
  obtain ⟨e, c, h0, hL, hx⟩ := f3_loop cmpF _ _ _ _ _ _ hQ ha
  rcases hcase with ⟨_, hb⟩ | ⟨hne, _⟩
  · obtain ⟨e1, _, e3⟩ := exec_setColor_inv (Fix.evalsTo_var h0) evalsB_bool hb
    exact ⟨e1, c, st1, hL, hx, e3⟩
  · exact absurd e hne

end f3

/-- `fixAfterDelete(r)` on a red node just paints it black -/
theorem fixAfterDelete_red (cmpF : Int → Int → Int) {fuel r : Nat} {st st' : St} {v : Val}
    (hr : (st.h r).color = false)
    (h : call cmpF procs fuel .fixAfterDelete [.ptr (some r)] st = .ok (v, st')) :
    st' = setCol st (some r) true := by
  cases fuel with
  | zero => simp [call] at h
  | succ f =>
    have h' : runBody cmpF (call cmpF procs f) f ⟨1, body_fixAfterDelete⟩ [.ptr (some r)] st
        = .ok (v, st') := h
    rw [Fix.body_fixAfterDelete_eq] at h'
    simp only [runBody] at h'
    have h0 : (Env.ofArgs [.ptr (some r)]) 0 = .ptr (some r) := by simp [Env.ofArgs]
    cases he : exec cmpF (call cmpF procs f) f (Env.ofArgs [.ptr (some r)]) st
        (.seq (.loop Fix.condE Fix.stepS) (.expr (.call2 .setColor (.var 0) (.bool true)))) with
    | error e => simp [he] at h'
    | ok res =>
      obtain ⟨fl, ρ', st1⟩ := res
      rw [he] at h'
      obtain ⟨fl1, ρ1, st2, ha, hcase⟩ := exec_seq_inv he
      simp only [exec] at ha
      cases f with
      | zero => simp [iterate] at ha
      | succ n =>
        simp only [iterate] at ha
        cases h1 : evalE cmpF (call cmpF procs (n + 1)) (Env.ofArgs [.ptr (some r)]) st Fix.condE with
        | error e => simp [h1] at ha
        | ok r1 =>
          obtain ⟨w, st3⟩ := r1
          rw [h1] at ha
          obtain ⟨e1, e2⟩ := f3_cond cmpF h0 w st3 h1
          subst e1
          rw [e2, hr] at ha
          simp at ha
          obtain ⟨a1, a2, a3⟩ := ha
          subst a1 a2 a3
          rcases hcase with ⟨_, hb⟩ | ⟨hne, _⟩
          · obtain ⟨e1, _, e3⟩ := exec_setColor_inv (Fix.evalsTo_var h0) evalsB_bool hb
            subst e1 e3
            simp at h'
            exact h'.2.symm
          · exact absurd rfl hne

/-- `fixAfterDelete(z)` on a black leaf `z`: afterwards the tree is red-black once `z` is not counted -/
theorem fixAfterDelete_rb (cmpF : Int → Int → Int) :
    ∀ fuel z st v st' t, Holds st t → z ∈ t.addrs → (st.h z).left = none → (st.h z).right = none →
      (st.h z).color = true → blackAt st.h t → NoRedRed st.h t → (∃ n, BHg (cw st.h) t n) →
      call cmpF procs fuel .fixAfterDelete [.ptr (some z)] st = .ok (v, st') →
      ∃ t', CInv z none st' t' ∧ z ∈ t'.addrs ∧ (st'.h z).color = true ∧
        (st'.h z).left = none ∧ (st'.h z).right = none := by
  intro fuel z st v st' t hH hz hl hr hzb hroot hn hb h
  have hL : LI z z st := li_init hH hz hl hr hzb hroot hn hb
  cases fuel with
  | zero => simp [call] at h
  | succ f =>
    have h' : runBody cmpF (call cmpF procs f) f ⟨1, body_fixAfterDelete⟩ [.ptr (some z)] st
        = .ok (v, st') := h
    simp only [runBody] at h'
    cases he : exec cmpF (call cmpF procs f) f (Env.ofArgs [.ptr (some z)]) st body_fixAfterDelete with
    | error e => simp [he] at h'
    | ok res =>
      obtain ⟨fl, ρ', st1⟩ := res
      obtain ⟨e, c, st2, hL2, hx, e3⟩ := f3_body cmpF ⟨z, by simp [Env.ofArgs], hL⟩ he
      rw [he, e] at h'
      simp at h'
      rw [← h'.2, e3]
      exact li_exit hL2 hx

end Ekit.MiniGo.RBHeap.DelRB

namespace Ekit.MiniGo.RBHeap.DelRB
open Ekit.MiniGo Ekit.Gen.RBTreeGo Ekit.MiniGo.RBHeap

/-! ## (13) heap-level lemmas for the surgery of `deleteNode` -/

/-- colour facts for a node `n` whose only child `r` is on the left -/
theorem g2_colL {h : Nat → Node} {A1 A2 : PT} {n r k : Nat}
    (hn : NoRedRed h (.node (.node A1 r A2) n .leaf)) (hk : BHg (cw h) (.node (.node A1 r A2) n .leaf) k) :
    (h n).color = true ∧ (h r).color = false ∧ k = 1 ∧ BHg (cw h) A1 0 ∧ BHg (cw h) A2 0 ∧
      NoRedRed h A1 ∧ NoRedRed h A2 := by
  simp only [BHg, NoRedRed] at hk hn
  obtain ⟨m, ⟨m1, b1, b2, e1⟩, e2, e3⟩ := hk
  obtain ⟨np, ⟨_, n1, n2⟩, _⟩ := hn
  subst e2
  have hr : (h r).color = false := by
    cases hc : (h r).color
    · rfl
    · simp [cw, hc] at e1
  have hm1 : m1 = 0 := by omega
  subst hm1
  have hnc : (h n).color = true := by
    cases hc : (h n).color
    · have := (np hc).1; simp [blackAt, hr] at this
    · rfl
  refine ⟨hnc, hr, ?_, b1, b2, n1, n2⟩
  simp [cw, hnc] at e3; exact e3

/-- colour facts for a node `n` whose only child `r` is on the right -/
theorem g2_colR {h : Nat → Node} {A1 A2 : PT} {n r k : Nat}
    (hn : NoRedRed h (.node .leaf n (.node A1 r A2))) (hk : BHg (cw h) (.node .leaf n (.node A1 r A2)) k) :
    (h n).color = true ∧ (h r).color = false ∧ k = 1 ∧ BHg (cw h) A1 0 ∧ BHg (cw h) A2 0 ∧
      NoRedRed h A1 ∧ NoRedRed h A2 := by
  simp only [BHg, NoRedRed] at hk hn
  obtain ⟨m, e2, ⟨m1, b1, b2, e1⟩, e3⟩ := hk
  obtain ⟨np, _, _, n1, n2⟩ := hn
  subst e2
  have hr : (h r).color = false := by
    cases hc : (h r).color
    · rfl
    · simp [cw, hc] at e1
  have hm1 : m1 = 0 := by omega
  subst hm1
  have hnc : (h n).color = true := by
    cases hc : (h n).color
    · have := (np hc).2; simp [blackAt, hr] at this
    · rfl
  refine ⟨hnc, hr, ?_, b1, b2, n1, n2⟩
  simp [cw, hnc] at e3; exact e3

/-- the common part of `splice_rb`: the subtree `S` at `n` is replaced by its only child subtree `.node A1 r A2` -/
theorem g2_splice_main {st : St} {t S A1 A2 : PT} {n r : Nat} (hH : Holds st t) (hRB : RB st t)
    (hs : t.sub n = some S) (hnS : n ∈ S.addrs)
    (hC : Repr st.h (some r) (some n) (.node A1 r A2))
    (hsub : ∀ x ∈ (PT.node A1 r A2).addrs, x ∈ S.addrs ∧ x ≠ n) (hnd : (PT.node A1 r A2).addrs.Nodup)
    (hk : BHg (cw st.h) S 1) (h1 : BHg (cw st.h) A1 0) (h2 : BHg (cw st.h) A2 0)
    (hn1 : NoRedRed st.h A1) (hn2 : NoRedRed st.h A2)
    (hpn : ∀ p, (st.h n).parent = some p → p ∉ S.addrs) :
    ∀ (st' : St),
      ((st'.h r).parent = (st.h n).parent ∧ (st'.h r).left = (st.h r).left ∧ (st'.h r).right = (st.h r).right) →
      (∀ x, x ≠ r → x ≠ n → (st.h n).parent ≠ some x → SamePtrs (st'.h x) (st.h x)) →
      (∀ p, (st.h n).parent = some p → (st'.h p).parent = (st.h p).parent ∧
        (((st.h p).left = some n ∧ (st'.h p).left = some r ∧ (st'.h p).right = (st.h p).right) ∨
         ((st.h p).left ≠ some n ∧ (st'.h p).left = (st.h p).left ∧ (st'.h p).right = some r))) →
      ((st.h n).parent = none → st'.root = some r) →
      (∀ p, (st.h n).parent = some p → st'.root = st.root) →
      st'.alloc = st.alloc →
      (st'.h r).color = true → (∀ x, x ≠ r → x ≠ n → (st'.h x).color = (st.h x).color) →
      ∃ t', Holds st' t' ∧ RB st' t' := by
  intro st' hr hfr hp hroot1 hroot2 halloc hcr hcol
  simp only [Repr] at hC
  obtain ⟨_, hrp, hA, hB⟩ := hC
  obtain ⟨ndA, ndB, hrA, hrB, _⟩ := nodup_node hnd
  have hrs := hsub r (by simp [PT.addrs])
  have hsame : ∀ a ∈ (PT.node A1 r A2).addrs, a ≠ r → SamePtrs (st'.h a) (st.h a) := by
    intro a ha har
    have := hsub a ha
    exact hfr a har this.2 (fun e => hpn a e this.1)
  have hrep := Del.replace_holds (h := st.h) (al := st.alloc) (root := st.root) (sz := st.size)
      (h' := st'.h) (root' := st'.root) (sz' := st'.size) (s' := .node A1 r A2) hH hs
      (fun x hx => (hsub x hx).1) hnd
      (by
        simp only [PT.ptr, Repr]
        refine ⟨trivial, hr.1, ?_, ?_⟩
        · rw [hr.2.1]
          exact repr_congr (fun a ha => hsame a (by simp [PT.addrs, ha]) (fun e => hrA (e ▸ ha))) hA
        · rw [hr.2.2]
          exact repr_congr (fun a ha => hsame a (by simp [PT.addrs, ha]) (fun e => hrB (e ▸ ha))) hB)
      (fun b hb hbs hpb => hfr b (fun e => hbs (e ▸ hrs.1)) (fun e => hbs (e ▸ hnS)) hpb)
      (fun p hp' => by
        obtain ⟨q1, q2⟩ := hp p hp'
        refine ⟨q1, ?_⟩
        rcases q2 with ⟨a1, a2, a3⟩ | ⟨a1, a2, a3⟩
        · exact .inl ⟨a1, a2, a3⟩
        · exact .inr ⟨a1, a2, fun _ => a3⟩)
      hroot1 hroot2
  have hH' : Holds st' (t.replace n (.node A1 r A2)) := by
    have := hrep.1
    rw [← halloc] at this
    exact this
  obtain ⟨hb, hnr, m, hm⟩ := hRB
  rw [bh_iff] at hm
  have cA1 : ∀ a ∈ A1.addrs, (st'.h a).color = (st.h a).color := fun a ha =>
    hcol a (fun e => hrA (e ▸ ha)) (hsub a (by simp [PT.addrs, ha])).2
  have cA2 : ∀ a ∈ A2.addrs, (st'.h a).color = (st.h a).color := fun a ha =>
    hcol a (fun e => hrB (e ▸ ha)) (hsub a (by simp [PT.addrs, ha])).2
  have hout : ∀ b ∈ t.addrs, b ∉ S.addrs → (st'.h b).color = (st.h b).color := fun b _ hbs =>
    hcol b (fun e => hbs (e ▸ hrs.1)) (fun e => hbs (e ▸ hnS))
  have hk' : BHg (cw st'.h) (.node A1 r A2) 1 := by
    simp only [BHg]
    exact ⟨0, BHg.congr (fun a ha => by simp [cw, cA1 a ha]) h1,
      BHg.congr (fun a ha => by simp [cw, cA2 a ha]) h2, by simp [cw, hcr]⟩
  have hn' : NoRedRed st'.h (.node A1 r A2) := by
    simp only [NoRedRed]
    exact ⟨fun hh => by simp [hcr] at hh, nrr_congr cA1 hn1, nrr_congr cA2 hn2⟩
  have htop : blackAt st.h S → blackAt st'.h (.node A1 r A2) := fun _ => hcr
  refine ⟨_, hH', blackAt_replace hH.2.1 hs hb htop hout, nrr_replace hH.2.1 hs hnr hn' htop hout, m, ?_⟩
  rw [bh_iff]
  exact BHg.replace hH.2.1 hs hm hk hk' (fun b hb hbs => by simp [cw, hout b hb hbs])

/-- in a red-black tree a node `n` with exactly one child `r`: `n` is black, `r` is red; splicing `n` out and painting
    `r` black keeps the tree red-black (conditions on the final state as in `Del.splice_holds`) -/
theorem splice_rb {st : St} {t : PT} {n r : Nat} (hH : Holds st t) (hRB : RB st t) (hn : n ∈ t.addrs)
    (hrn : ((st.h n).left = some r ∧ (st.h n).right = none) ∨ ((st.h n).left = none ∧ (st.h n).right = some r)) :
    (st.h n).color = true ∧ (st.h r).color = false ∧ r ≠ n ∧ (∀ p, (st.h n).parent = some p → p ≠ n ∧ p ≠ r) ∧
    ∀ (st' : St),
      ((st'.h r).parent = (st.h n).parent ∧ (st'.h r).left = (st.h r).left ∧ (st'.h r).right = (st.h r).right) →
      (∀ x, x ≠ r → x ≠ n → (st.h n).parent ≠ some x → SamePtrs (st'.h x) (st.h x)) →
      (∀ p, (st.h n).parent = some p → (st'.h p).parent = (st.h p).parent ∧
        (((st.h p).left = some n ∧ (st'.h p).left = some r ∧ (st'.h p).right = (st.h p).right) ∨
         ((st.h p).left ≠ some n ∧ (st'.h p).left = (st.h p).left ∧ (st'.h p).right = some r))) →
      ((st.h n).parent = none → st'.root = some r) →
      (∀ p, (st.h n).parent = some p → st'.root = st.root) →
      st'.alloc = st.alloc →
      (st'.h r).color = true → (∀ x, x ≠ r → x ≠ n → (st'.h x).color = (st.h x).color) →
      ∃ t', Holds st' t' ∧ RB st' t' := by
  obtain ⟨A, R, hs, hsnd, hsub, hA, hR, hpar, hdich⟩ := Rot.rot_setup hH.1 hH.2.1 hn
  have hRB' := hRB
  obtain ⟨hb, hnr, m, hm⟩ := hRB'
  rw [bh_iff] at hm
  obtain ⟨k, hk⟩ := BHg.sub hm hs
  have hnS := nrr_sub hnr hs
  have hsh := Del.splice_holds (h := st.h) (al := st.alloc) (root := st.root) (sz := st.size) (r := r) hH hn
    (by rcases hrn with ⟨e1, _⟩ | e; exact .inl e1; exact .inr e)
  have hpn : ∀ p, (st.h n).parent = some p → p ∉ (PT.node A n R).addrs := by
    intro p hp
    rcases hdich with ⟨_, e⟩ | ⟨_, p', e, _, e3, _⟩
    · rw [e] at hp; cases hp
    · rw [e] at hp; cases hp; exact e3
  have hnn : n ∈ (PT.node A n R).addrs := by simp [PT.addrs]
  obtain ⟨ndA, ndR, hnA, hnR, _⟩ := nodup_node hsnd
  rcases hrn with ⟨e1, e2⟩ | ⟨e1, e2⟩
  · rw [e1] at hA; rw [e2] at hR
    have := Del.repr_nil hR; subst this
    cases A with
    | leaf => simp [Repr] at hA
    | node A1 r' A2 =>
      have : r' = r := by
        have := hA.1; simp at this; exact this.symm
      subst this
      obtain ⟨c1, c2, c3, c4, c5, c6, c7⟩ := g2_colL hnS hk
      subst c3
      exact ⟨c1, c2, hsh.1, hsh.2.1, g2_splice_main hH hRB hs hnn hA
        (fun x hx => ⟨by simp only [PT.addrs, List.mem_append, List.mem_cons] at hx ⊢; grind, fun e => hnA (e ▸ hx)⟩) ndA hk c4 c5 c6 c7 hpn⟩
  · rw [e1] at hA; rw [e2] at hR
    have := Del.repr_nil hA; subst this
    cases R with
    | leaf => simp [Repr] at hR
    | node A1 r' A2 =>
      have : r' = r := by
        have := hR.1; simp at this; exact this.symm
      subst this
      obtain ⟨c1, c2, c3, c4, c5, c6, c7⟩ := g2_colR hnS hk
      subst c3
      exact ⟨c1, c2, hsh.1, hsh.2.1, g2_splice_main hH hRB hs hnn hR
        (fun x hx => ⟨by simp only [PT.addrs, List.mem_append, List.mem_cons] at hx ⊢; grind, fun e => hnR (e ▸ hx)⟩) ndR hk c4 c5 c6 c7 hpn⟩

/-- cutting off the leaf `z` (not counted in the black height) -/
theorem cut_rb {st : St} {t : PT} {z p : Nat} (hH : Holds st t) (hz : z ∈ t.addrs)
    (hl : (st.h z).left = none) (hr : (st.h z).right = none) (hp : (st.h z).parent = some p)
    (hroot : blackAt st.h t) (hn : NoRedRed st.h t) (hb : ∃ n, BHg (wz st.h z none) t n) :
    p ≠ z ∧ ((st.h p).left = some z ∨ (st.h p).right = some z) ∧
    ∀ (st' : St),
      (∀ x, x ≠ z → x ≠ p → SamePtrs (st'.h x) (st.h x)) →
      ((st'.h p).parent = (st.h p).parent ∧
        (((st.h p).left = some z ∧ (st'.h p).left = none ∧ (st'.h p).right = (st.h p).right) ∨
         ((st.h p).left ≠ some z ∧ (st'.h p).left = (st.h p).left ∧ (st'.h p).right = none))) →
      st'.root = st.root → st'.alloc = st.alloc → (∀ x, x ≠ z → (st'.h x).color = (st.h x).color) →
      ∃ t', Holds st' t' ∧ RB st' t' := by
  obtain ⟨A, R, hs, hsnd, hsub, hA, hR, hpar, hdich⟩ := Rot.rot_setup hH.1 hH.2.1 hz
  rw [hl] at hA; rw [hr] at hR
  have eA := Del.repr_nil hA
  have eR := Del.repr_nil hR
  subst eA eR
  have hc := Del.cut_holds (h := st.h) (al := st.alloc) (root := st.root) (sz := st.size) hH hz hp
  refine ⟨hc.1, hc.2.1, ?_⟩
  intro st' hfr hp' hroot' halloc hcol
  have hns : z ∈ (PT.node .leaf z .leaf).addrs := by simp [PT.addrs]
  have hrep := Del.replace_holds (h := st.h) (al := st.alloc) (root := st.root) (sz := st.size)
    (h' := st'.h) (root' := st'.root) (sz' := st'.size) (s' := .leaf) hH hs
    (fun x hx => by simp [PT.addrs] at hx) (by simp [PT.addrs]) (by simp [Repr, PT.ptr])
    (fun b _ hbs hpb => hfr b (fun e => hbs (e ▸ hns)) (fun e => hpb (by rw [hp, e])))
    (fun q hq => by
      rw [hp] at hq; simp at hq; subst hq
      refine ⟨hp'.1, ?_⟩
      rcases hp'.2 with ⟨a1, a2, a3⟩ | ⟨a1, a2, a3⟩
      · exact .inl ⟨a1, a2, a3⟩
      · exact .inr ⟨a1, a2, fun _ => a3⟩)
    (fun e => by rw [hp] at e; simp at e) (fun _ _ => hroot')
  have hH' : Holds st' (t.replace z .leaf) := by
    have := hrep.1
    rw [← halloc] at this
    exact this
  obtain ⟨m, hm⟩ := hb
  obtain ⟨k, hk⟩ := BHg.sub hm hs
  have hk0 : k = 0 := by
    simp only [BHg] at hk
    obtain ⟨m', q1, _, q3⟩ := hk
    subst q1
    simpa [wz] using q3
  subst hk0
  have hout : ∀ b ∈ t.addrs, b ∉ (PT.node .leaf z .leaf).addrs → (st'.h b).color = (st.h b).color :=
    fun b _ hbs => hcol b (fun e => hbs (e ▸ hns))
  have htop : blackAt st.h (PT.node .leaf z .leaf) → blackAt st'.h .leaf := fun _ => trivial
  refine ⟨_, hH', blackAt_replace hH.2.1 hs hroot htop hout,
    nrr_replace hH.2.1 hs hn (by trivial) htop hout, m, ?_⟩
  rw [bh_iff]
  refine BHg.replace (w := wz st.h z none) (w' := cw st'.h) hH.2.1 hs hm hk (by simp [BHg]) ?_
  intro b hb hbs
  have hbz : b ≠ z := fun e => hbs (e ▸ hns)
  simp [wz, cw, hbz, hout b hb hbs]

/-- a red leaf is not counted anyway -/
theorem rb_red_leaf {st : St} {t : PT} {z : Nat} (hRB : RB st t) (hzr : (st.h z).color = false) :
    blackAt st.h t ∧ NoRedRed st.h t ∧ ∃ n, BHg (wz st.h z none) t n := by
  obtain ⟨hb, hn, k, hk⟩ := hRB
  refine ⟨hb, hn, k, ?_⟩
  rw [bh_iff] at hk
  refine BHg.congr (fun a _ => ?_) hk
  by_cases h : a = z
  · subst h; simp [wz, cw, hzr]
  · simp [wz, h]

/-- colours and pointers unchanged: the invariant is unchanged -/
theorem rb_congr {st st' : St} {t : PT} (hH : Holds st t) (hRB : RB st t)
    (hp : ∀ a, SamePtrs (st'.h a) (st.h a)) (hc : ∀ a, (st'.h a).color = (st.h a).color)
    (hroot : st'.root = st.root) (halloc : st'.alloc = st.alloc) : Holds st' t ∧ RB st' t := by
  obtain ⟨hR, hnd, hlt⟩ := hH
  obtain ⟨hb, hn, k, hk⟩ := hRB
  refine ⟨⟨?_, hnd, ?_⟩, blackAt_congr (fun a _ => hc a) hb, nrr_congr (fun a _ => hc a) hn, k, ?_⟩
  · rw [hroot]; exact repr_congr (fun a _ => hp a) hR
  · rw [halloc]; exact hlt
  · rw [bh_iff] at hk ⊢; exact BHg.congr (fun a _ => by simp [cw, hc a]) hk

/-! ## (14) `deleteNode` -/

section g_walk
variable (cmpF : Int → Int → Int) (f lf : Nat)

open Del in
/-- the successor step keeps the invariant (only `key`/`value` fields are written) -/
theorem g_succ :
    ∀ ρ st fl ρ' st' t n, Holds st t → RB st t → ρ 1 = .ptr (some n) → n ∈ t.addrs →
      exec cmpF (call cmpF procs f) lf ρ st Del.dnSucc = .ok (fl, ρ', st') →
      fl = .normal ∧ ∃ n', (Holds st' t ∧ RB st' t) ∧ ρ' 1 = .ptr (some n') ∧ n' ∈ t.addrs ∧
        ((st'.h n').left = none ∨ (st'.h n').right = none) := by
  intro ρ st fl ρ' st' t n hH hRB hρ hn hx
  simp only [dnSucc, exec, evalE, hρ, valEq_ptr, Node.get] at hx
  cases hl : (st.h n).left with
  | none =>
    simp [hl] at hx
    obtain ⟨rfl, rfl, rfl⟩ := hx
    exact ⟨rfl, n, ⟨hH, hRB⟩, hρ, hn, .inl hl⟩
  | some l =>
    cases hr : (st.h n).right with
    | none =>
      simp [hl, hr] at hx
      obtain ⟨rfl, rfl, rfl⟩ := hx
      exact ⟨rfl, n, ⟨hH, hRB⟩, hρ, hn, .inr hr⟩
    | some r =>
      cases hc : call cmpF procs f .findSuccessor [.ptr (some n)] st with
      | error e => simp [hl, hr, hc] at hx
      | ok res =>
        obtain ⟨v, st1⟩ := res
        obtain ⟨rfl, s, pre, post, rfl, hL, hsl⟩ := call_findSuccessor cmpF f _ _ _ _ t hH hn (by simp [hr]) hc
        have hs : s ∈ t.addrs := by rw [hL]; simp
        have hsn : s ≠ n := by
          have := hH.2.1
          rw [hL, List.nodup_append] at this
          have h2 := this.2.1
          rw [List.nodup_cons] at h2
          intro e; exact h2.1 (by simp [e])
        simp [hl, hr, hc, Env.set, hρ, Node.set] at hx
        obtain ⟨rfl, rfl, rfl⟩ := hx
        refine ⟨rfl, s, rb_congr hH hRB (fun a => ?_) (fun a => ?_) rfl rfl, by simp [Env.set], hs, .inl ?_⟩
        · by_cases han : a = n <;> simp [upd, SamePtrs, han, hl, hr]
        · by_cases han : a = n <;> simp [upd, han]
        · simp [upd, hsn, hsl]

open Del in
/-- the tail of the splice: `n` black, `r` red in the current heap: `r` is painted black -/
theorem g_tail :
    ∀ ρ st fl ρ' st' n r, ρ 1 = .ptr (some n) → ρ 3 = .ptr (some r) →
      (st.h n).color = true → (st.h r).color = false →
      exec cmpF (call cmpF procs f) lf ρ st Del.dnTail = .ok (fl, ρ', st') →
      fl = .normal ∧ st' = setCol st (some r) true := by
  intro ρ st fl ρ' st' n r hρ1 hρ3 hnb hrr hx
  simp only [dnTail, exec, evalE, hρ1, hρ3] at hx
  cases hc : call cmpF procs f .getColor [.ptr (some n)] st with
  | error e => simp [hc] at hx
  | ok res =>
    obtain ⟨v, st1⟩ := res
    obtain ⟨rfl, rfl⟩ := call_getColor cmpF hc
    simp only [hc, colP, hnb] at hx
    cases hf : call cmpF procs f .fixAfterDelete [.ptr (some r)] st1 with
    | error e => simp [hf] at hx
    | ok res =>
      obtain ⟨v2, st2⟩ := res
      have := fixAfterDelete_red cmpF hrr hf
      subst this
      simp [hf] at hx
      obtain ⟨rfl, rfl, rfl⟩ := hx
      exact ⟨rfl, rfl⟩

open Del in
/-- the splice branch (`n` has exactly one child `r`) -/
theorem g_splice :
    ∀ ρ st fl ρ' st' t n r, Holds st t → RB st t → n ∈ t.addrs → ρ 1 = .ptr (some n) → ρ 3 = .ptr (some r) →
      (((st.h n).left = some r ∧ (st.h n).right = none) ∨ ((st.h n).left = none ∧ (st.h n).right = some r)) →
      exec cmpF (call cmpF procs f) lf ρ st Del.dnSplice = .ok (fl, ρ', st') →
      fl = .normal ∧ ∃ t', Holds st' t' ∧ RB st' t' := by
  intro ρ st fl ρ' st' t n r hH hRB hn hρ1 hρ3 hrn hx
  obtain ⟨hnb, hrr, hrn', hpn, hsp⟩ := splice_rb hH hRB hn hrn
  have hnr : n ≠ r := Ne.symm hrn'
  simp only [dnSplice, dnLink, exec, evalE, hρ1, hρ3, valEq_ptr, Node.get, Node.set] at hx
  cases hp : (st.h n).parent with
  | none =>
    simp [hp, upd_ne, hnr, hρ1] at hx
    obtain ⟨rfl, rfl⟩ := g_tail cmpF f lf _ _ _ _ _ n r hρ1 hρ3
      (by simp [upd_same, hnb]) (by simp [upd_ne, upd_same, hrn', hrr]) hx
    refine ⟨rfl, hsp _ ?_ ?_ ?_ ?_ ?_ ?_ ?_ ?_⟩
    · simp [setCol, upd_ne, upd_same, hrn', hp]
    · intro x h1 h2 _; simp [setCol, upd_ne, upd_same, h1, h2, SamePtrs]
    · intro p hp'; rw [hp] at hp'; cases hp'
    · intro _; rfl
    · intro p hp'; rw [hp] at hp'; cases hp'
    · rfl
    · simp [setCol, upd_same]
    · intro x h1 h2; simp [setCol, upd_ne, h1, h2]
  | some p =>
    obtain ⟨hpn1, hpr⟩ := hpn p hp
    simp [hp, upd_ne, hnr, hpr, valEq_ptr] at hx
    cases hb : (some n == (st.h p).left) with
    | true =>
      have hb' : (st.h p).left = some n := (eq_of_beq hb).symm
      simp [hb, hp, upd_ne, upd_same, hnr, hpr, hρ1, Ne.symm hpn1] at hx
      obtain ⟨rfl, rfl⟩ := g_tail cmpF f lf _ _ _ _ _ n r hρ1 hρ3
        (by simp [upd_same, hnb]) (by simp [upd_ne, upd_same, hrn', hrr, Ne.symm hpr]) hx
      refine ⟨rfl, hsp _ ?_ ?_ ?_ ?_ ?_ ?_ ?_ ?_⟩
      · simp [setCol, upd_ne, upd_same, hrn', hp, Ne.symm hpr]
      · intro x h1 h2 h3
        have h4 : x ≠ p := fun e => h3 (by rw [hp, e])
        simp [setCol, upd_ne, h1, h2, h4, SamePtrs]
      · intro q hq
        rw [hp] at hq; simp at hq; subst hq
        simp [setCol, upd_ne, upd_same, hpn1, hpr, hb']
      · intro e; rw [hp] at e; cases e
      · intro _ _; rfl
      · rfl
      · simp [setCol, upd_same]
      · intro x h1 h2; simp [setCol, upd_ne, h1, h2]
        by_cases h4 : x = p
        · subst h4; simp [upd_same]
        · simp [upd_ne, h4, h1]
    | false =>
      have hb' : (st.h p).left ≠ some n := fun e => by simp [e] at hb
      simp [hb, hp, upd_ne, upd_same, hnr, hpr, hρ1, Ne.symm hpn1] at hx
      obtain ⟨rfl, rfl⟩ := g_tail cmpF f lf _ _ _ _ _ n r hρ1 hρ3
        (by simp [upd_same, hnb]) (by simp [upd_ne, upd_same, hrn', hrr, Ne.symm hpr]) hx
      refine ⟨rfl, hsp _ ?_ ?_ ?_ ?_ ?_ ?_ ?_ ?_⟩
      · simp [setCol, upd_ne, upd_same, hrn', hp, Ne.symm hpr]
      · intro x h1 h2 h3
        have h4 : x ≠ p := fun e => h3 (by rw [hp, e])
        simp [setCol, upd_ne, h1, h2, h4, SamePtrs]
      · intro q hq
        rw [hp] at hq; simp at hq; subst hq
        simp [setCol, upd_ne, upd_same, hpn1, hpr, hb']
      · intro e; rw [hp] at e; cases e
      · intro _ _; rfl
      · rfl
      · simp [setCol, upd_same]
      · intro x h1 h2; simp [setCol, upd_ne, h1, h2]
        by_cases h4 : x = p
        · subst h4; simp [upd_same]
        · simp [upd_ne, h4, h1]

open Del in
/-- the fix-up before cutting off the leaf `n`: afterwards `n` is still a leaf with a parent, and the tree is
    red-black once `n` is not counted -/
theorem g_fix :
    ∀ ρ st fl ρ' st' t n, Holds st t → RB st t → n ∈ t.addrs → ρ 1 = .ptr (some n) →
      (st.h n).left = none → (st.h n).right = none → (st.h n).parent ≠ none →
      exec cmpF (call cmpF procs f) lf ρ st Del.dnFix = .ok (fl, ρ', st') →
      fl = .normal ∧ ρ' = ρ ∧ ∃ t1, Holds st' t1 ∧ n ∈ t1.addrs ∧
        (st'.h n).left = none ∧ (st'.h n).right = none ∧ (st'.h n).parent ≠ none ∧
        blackAt st'.h t1 ∧ NoRedRed st'.h t1 ∧ ∃ k, BHg (wz st'.h n none) t1 k := by
  intro ρ st fl ρ' st' t n hH hRB hn hρ1 hl hr hp hx
  simp only [dnFix, exec, evalE, hρ1] at hx
  cases hc : call cmpF procs f .getColor [.ptr (some n)] st with
  | error e => simp [hc] at hx
  | ok res =>
    obtain ⟨v, st1⟩ := res
    obtain ⟨rfl, rfl⟩ := call_getColor cmpF hc
    simp only [hc, colP] at hx
    cases hcol : (st1.h n).color with
    | false =>
      simp [hcol] at hx
      obtain ⟨rfl, rfl, rfl⟩ := hx
      obtain ⟨a1, a2, a3⟩ := rb_red_leaf hRB hcol
      exact ⟨rfl, rfl, t, hH, hn, hl, hr, hp, a1, a2, a3⟩
    | true =>
      simp only [hcol] at hx
      cases hf : call cmpF procs f .fixAfterDelete [.ptr (some n)] st1 with
      | error e => simp [hf] at hx
      | ok res =>
        obtain ⟨v2, st2⟩ := res
        simp [hf] at hx
        obtain ⟨rfl, rfl, rfl⟩ := hx
        obtain ⟨k, hk⟩ := hRB.2.2
        obtain ⟨t1, hC, hn1, _, hl1, hr1⟩ := fixAfterDelete_rb cmpF f n st1 v2 st2 t hH hn hl hr hcol hRB.1 hRB.2.1
          ⟨k, (bh_iff _ _ _).1 hk⟩ hf
        have hp1 := fixSpec_holds cmpF f n st1 v2 st2 t hH hn hl hr hp hf
        exact ⟨rfl, rfl, t1, hC.holds, hn1, hl1, hr1, hp1, hC.root, hC.nrr, hC.bh⟩

open Del in
/-- cutting off the leaf `n` -/
theorem g_cut :
    ∀ ρ st fl ρ' st' t n, Holds st t → n ∈ t.addrs → ρ 1 = .ptr (some n) →
      (st.h n).left = none → (st.h n).right = none → (st.h n).parent ≠ none →
      blackAt st.h t → NoRedRed st.h t → (∃ k, BHg (wz st.h n none) t k) →
      exec cmpF (call cmpF procs f) lf ρ st Del.dnCut = .ok (fl, ρ', st') →
      fl = .normal ∧ ∃ t', Holds st' t' ∧ RB st' t' := by
  intro ρ st fl ρ' st' t n hH hn hρ1 hl hr hpne hroot hnrr hbh hx
  simp only [dnCut, exec, evalE, hρ1, valEq_ptr, Node.get, Node.set] at hx
  cases hp : (st.h n).parent with
  | none => exact absurd hp hpne
  | some p =>
    obtain ⟨hpn, hch, hcut⟩ := cut_rb hH hn hl hr hp hroot hnrr hbh
    simp [hp, valEq_ptr] at hx
    cases hb : (some n == (st.h p).left) with
    | true =>
      have hb' : (st.h p).left = some n := (eq_of_beq hb).symm
      simp [hb, hp, hρ1, upd_ne, Ne.symm hpn] at hx
      obtain ⟨rfl, rfl, rfl⟩ := hx
      refine ⟨rfl, hcut _ ?_ ?_ rfl rfl ?_⟩
      · intro x h1 h2; simp [upd_ne, h1, h2, SamePtrs]
      · simp [upd_ne, upd_same, hpn, hb']
      · intro x h1
        by_cases h2 : x = p
        · subst h2; simp [upd_ne, upd_same, h1]
        · simp [upd_ne, h1, h2]
    | false =>
      have hb' : (st.h p).left ≠ some n := fun e => by simp [e] at hb
      simp [hb, hp, valEq_ptr] at hx
      cases hb2 : (some n == (st.h p).right) with
      | true =>
        simp [hb2, hp, hρ1, upd_ne, Ne.symm hpn] at hx
        obtain ⟨rfl, rfl, rfl⟩ := hx
        refine ⟨rfl, hcut _ ?_ ?_ rfl rfl ?_⟩
        · intro x h1 h2; simp [upd_ne, h1, h2, SamePtrs]
        · simp [upd_ne, upd_same, hpn, hb']
        · intro x h1
          by_cases h2 : x = p
          · subst h2; simp [upd_ne, upd_same, h1]
          · simp [upd_ne, h1, h2]
      | false =>
        exfalso
        rcases hch with e | e
        · exact hb' e
        · simp [e] at hb2

open Del in
/-- no replacement: `n` is a leaf -/
theorem g_norepl :
    ∀ ρ st fl ρ' st' t n, Holds st t → RB st t → n ∈ t.addrs → ρ 1 = .ptr (some n) →
      (st.h n).left = none → (st.h n).right = none →
      exec cmpF (call cmpF procs f) lf ρ st Del.dnNoRepl = .ok (fl, ρ', st') →
      fl = .normal ∧ ∃ t', Holds st' t' ∧ RB st' t' := by
  intro ρ st fl ρ' st' t n hH hRB hn hρ1 hl hr hx
  simp only [dnNoRepl, exec, evalE, hρ1, valEq_ptr, Node.get] at hx
  cases hp : (st.h n).parent with
  | none =>
    simp [hp] at hx
    obtain ⟨rfl, rfl, rfl⟩ := hx
    exact ⟨rfl, .leaf, ⟨by simp [Repr], by simp [PT.addrs], by simp [PT.addrs]⟩,
      trivial, trivial, 0, rfl⟩
  | some p =>
    simp [hp] at hx
    cases hf : exec cmpF (call cmpF procs f) lf ρ st dnFix with
    | error e => simp [hf] at hx
    | ok res =>
      obtain ⟨fl1, ρ1, st1⟩ := res
      obtain ⟨rfl, rfl, t1, hH1, hn1, hl1, hr1, hp1, a1, a2, a3⟩ :=
        g_fix cmpF f lf _ _ _ _ _ t n hH hRB hn hρ1 hl hr (by simp [hp]) hf
      simp [hf] at hx
      exact g_cut cmpF f lf _ _ _ _ _ t1 n hH1 hn1 hρ1 hl1 hr1 hp1 a1 a2 a3 hx

open Del in
/-- everything after the successor step -/
theorem g_rest :
    ∀ ρ st fl ρ' st' t n, Holds st t → RB st t → n ∈ t.addrs → ρ 1 = .ptr (some n) →
      ((st.h n).left = none ∨ (st.h n).right = none) →
      exec cmpF (call cmpF procs f) lf ρ st Del.dnRest = .ok (fl, ρ', st') →
      fl = .normal ∧ ∃ t', Holds st' t' ∧ RB st' t' := by
  intro ρ st fl ρ' st' t n hH hRB hn hρ1 hlf hx
  simp only [dnRest, exec, evalE] at hx
  have hρ1' : (ρ.set 3 (.ptr none)) 1 = .ptr (some n) := by simp [Env.set, hρ1]
  cases h2 : exec cmpF (call cmpF procs f) lf (ρ.set 3 (.ptr none)) st dnPick with
  | error e => simp [h2] at hx
  | ok res =>
    obtain ⟨fl2, ρ2, st2⟩ := res
    obtain ⟨rfl, rfl, hρ2, hpick⟩ := exec_pick cmpF (call cmpF procs f) lf _ _ _ _ _ n hρ1' h2
    simp only [h2] at hx
    have hsplice : ∀ r, ρ2 3 = .ptr (some r) →
        (((st2.h n).left = some r ∧ (st2.h n).right = none) ∨ ((st2.h n).left = none ∧ (st2.h n).right = some r)) →
        fl = .normal ∧ ∃ t', Holds st' t' ∧ RB st' t' := by
      intro r hρ3 hrn
      simp [hρ3, valEq_ptr] at hx
      cases h3 : exec cmpF (call cmpF procs f) lf ρ2 st2 dnSplice with
      | error e => simp [h3] at hx
      | ok res =>
        obtain ⟨fl3, ρ3, st3⟩ := res
        obtain ⟨rfl, t3, hH3, hRB3⟩ := g_splice cmpF f lf _ _ _ _ _ t n r hH hRB hn hρ2 hρ3 hrn h3
        simp [h3] at hx
        obtain ⟨rfl, rfl, rfl⟩ := hx
        exact ⟨rfl, t3, hH3, hRB3⟩
    rcases hpick with ⟨r, hl, hρ3⟩ | ⟨hl, hρ3⟩
    · refine hsplice r hρ3 (.inl ⟨hl, ?_⟩)
      rcases hlf with e | e
      · rw [hl] at e; cases e
      · exact e
    · cases hr : (st2.h n).right with
      | some r => exact hsplice r (by rw [hρ3, hr]) (.inr ⟨hl, hr⟩)
      | none =>
        simp [hρ3, hr, valEq_ptr] at hx
        cases h3 : exec cmpF (call cmpF procs f) lf ρ2 st2 dnNoRepl with
        | error e => simp [h3] at hx
        | ok res =>
          obtain ⟨fl3, ρ3, st3⟩ := res
          obtain ⟨rfl, t3, hH3, hRB3⟩ := g_norepl cmpF f lf _ _ _ _ _ t n hH hRB hn hρ2 hl hr h3
          simp [h3] at hx
          obtain ⟨rfl, rfl, rfl⟩ := hx
          exact ⟨rfl, t3, hH3, hRB3⟩

end g_walk

theorem deleteNode_rb (cmpF : Int → Int → Int) :
    ∀ fuel a st v st' t, Holds st t → RB st t → a ∈ t.addrs →
      call cmpF procs fuel .deleteNode [.ptr (some a)] st = .ok (v, st') →
      ∃ t', Holds st' t' ∧ RB st' t' := by
  intro fuel a st v st' t hH hRB ha hx
  cases fuel with
  | zero => simp [call] at hx
  | succ f =>
    simp only [call, runBody, procs, Del.body_deleteNode_eq'] at hx
    simp only [exec, evalE] at hx
    have hρ0 : ((Env.ofArgs [Val.ptr (some a)]).set 1 (Env.ofArgs [Val.ptr (some a)] 0)) 1 = .ptr (some a) := by
      simp [Env.set, Env.ofArgs]
    generalize ((Env.ofArgs [Val.ptr (some a)]).set 1 (Env.ofArgs [Val.ptr (some a)] 0)) = ρ0 at hx hρ0
    cases h1 : exec cmpF (call cmpF procs f) f ρ0 st Del.dnSucc with
    | error e => simp [h1] at hx
    | ok res =>
      obtain ⟨fl1, ρ1, st1⟩ := res
      obtain ⟨rfl, n, ⟨hH1, hRB1⟩, hρ1, hn, hlf⟩ := g_succ cmpF f f _ _ _ _ _ t a hH hRB hρ0 ha h1
      simp only [h1] at hx
      cases h2 : exec cmpF (call cmpF procs f) f ρ1 st1 Del.dnRest with
      | error e => simp [h2] at hx
      | ok res =>
        obtain ⟨fl2, ρ2, st2⟩ := res
        obtain ⟨rfl, t2, hH2, hRB2⟩ := g_rest cmpF f f _ _ _ _ _ t n hH1 hRB1 hn hρ1 hlf h2
        simp [h2] at hx
        obtain ⟨rfl, rfl⟩ := hx
        exact ⟨t2, hH2, hRB2⟩

end Ekit.MiniGo.RBHeap.DelRB

namespace Ekit.MiniGo.RBHeap.DelRB
end Ekit.MiniGo.RBHeap.DelRB
