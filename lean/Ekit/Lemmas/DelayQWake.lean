/-
Invariants of the DelayQueue transition system, part 5 (C09): no lost wake-up.

`seenE t` = number of successful insertions when `t` last examined the queue under the lock;
`seenD t` = number of removals when `t` last found the queue full.  A thread that holds the CURRENT
generation of the signal it waits on has missed nothing — unless the inserter/remover is still
inside its critical section at `bSwap` (its next step installs a new generation).
-/
import Ekit.Lemmas.DelayQGen

namespace Ekit.DelayQ
open Ekit.Conc

/-- generation of `enqueueSignal` held by a Dequeue call that is (about to be) parked -/
def Pc.waitsE : Pc → Option Nat
  | .sUnlock g .deqEmpty | .sUnlock g (.deqTimer _) | .dWaitE g | .dArm _ g | .dWaitT g => some g
  | _ => none

/-- generation of `dequeueSignal` held by an Enqueue call that is (about to be) parked -/
def Pc.waitsD : Pc → Option Nat
  | .sUnlock g (.enqWait _) | .eWait _ g => some g
  | _ => none

structure WakeInv (s : State) : Prop where
  fetchE : ∀ t k, s.pc t = .sFetch k → k.cond = .enqSig → s.enqd.length = s.seenE t
  fetchD : ∀ t k, s.pc t = .sFetch k → k.cond = .deqSig → s.deqd.length = s.seenD t
  waitE : ∀ t g, (s.pc t).waitsE = some g → g = s.cur .enqSig →
    s.enqd.length = s.seenE t ∨ ∃ u r, s.pc u = .bSwap .enqSig r
  waitD : ∀ t g, (s.pc t).waitsD = some g → g = s.cur .deqSig →
    s.deqd.length = s.seenD t ∨ ∃ u r, s.pc u = .bSwap .deqSig r

theorem wakeInv_init : WakeInv init := by
  constructor <;> simp [init, Pc.waitsE, Pc.waitsD]

set_option maxHeartbeats 1000000 in
theorem wakeInv_step_fetch (P : Params) (s : State) (l : Label) (s' : State)
    (hl : LockInv s) (hi : WakeInv s) (h : step P s l = some s') :
    (∀ t k, s'.pc t = .sFetch k → k.cond = .enqSig → s'.enqd.length = s'.seenE t) ∧
    (∀ t k, s'.pc t = .sFetch k → k.cond = .deqSig → s'.deqd.length = s'.seenD t) := by
  obtain ⟨p1, p2, p3, p4⟩ := hi
  obtain ⟨l1, l2⟩ := hl
  step_cases h <;> refine ⟨?_, ?_⟩ <;> dsimp only <;>
    first
    | assumption
    | grind [upd, Pc.locked, Cont.cond]
    | skip

/-! generic preservation lemmas for `waitE` / `waitD` (`w` = waitsE or waitsD, `c` = the cond) -/

theorem wait_upd (w : Pc → Option Nat) (c : CondId) (pc : Nat → Pc) (cur n : Nat) (seen : Nat → Nat)
    (t0 : Nat) (p' : Pc)
    (h1 : w p' = none ∨ w p' = w (pc t0) ∨ (w p' = some cur ∧ n = seen t0))
    (h2 : (∀ r, pc t0 ≠ .bSwap c r) ∨ ∃ r, p' = .bSwap c r)
    (h : ∀ t g, w (pc t) = some g → g = cur → n = seen t ∨ ∃ u r, pc u = .bSwap c r) :
    ∀ t g, w (upd pc t0 p' t) = some g → g = cur → n = seen t ∨ ∃ u r, upd pc t0 p' u = .bSwap c r := by
  intro t g hw hg
  rcases h2 with h2 | ⟨r, rfl⟩
  · have key : n = seen t ∨ ∃ u r, pc u = .bSwap c r := by
      by_cases htt : t = t0
      · subst htt
        simp only [upd_same] at hw
        rcases h1 with h1 | h1 | ⟨h1, h1'⟩
        · rw [h1] at hw; cases hw
        · rw [h1] at hw; exact h t g hw hg
        · exact Or.inl h1'
      · simp only [upd, htt, if_false] at hw
        exact h t g hw hg
    rcases key with k | ⟨u, r, hu⟩
    · exact Or.inl k
    · right
      have : u ≠ t0 := fun e => h2 r (e ▸ hu)
      exact ⟨u, r, by simp [upd, this, hu]⟩
  · exact Or.inr ⟨t0, r, by simp⟩

theorem wait_upd_seen (w : Pc → Option Nat) (c : CondId) (pc : Nat → Pc) (cur n : Nat) (seen : Nat → Nat)
    (t0 : Nat) (p' : Pc) (v : Nat) (h1 : w p' = none) (h2 : ∀ r, pc t0 ≠ .bSwap c r)
    (h : ∀ t g, w (pc t) = some g → g = cur → n = seen t ∨ ∃ u r, pc u = .bSwap c r) :
    ∀ t g, w (upd pc t0 p' t) = some g → g = cur →
      n = upd seen t0 v t ∨ ∃ u r, upd pc t0 p' u = .bSwap c r := by
  intro t g hw hg
  by_cases htt : t = t0
  · subst htt; simp only [upd_same] at hw; rw [h1] at hw; cases hw
  · simp only [upd, htt, if_false] at hw ⊢
    rcases h t g hw hg with k | ⟨u, r, hu⟩
    · exact Or.inl k
    · have : u ≠ t0 := fun e => h2 r (e ▸ hu)
      exact Or.inr ⟨u, r, by simp [this, hu]⟩

theorem wait_bump (w : Pc → Option Nat) (c : CondId) (pc : Nat → Pc) (cur : Nat) (n : Nat) (seen : Nat → Nat)
    (t0 : Nat) (p' : Pc) (h1 : w p' = none) (hle : ∀ t g, w (pc t) = some g → g ≤ cur) :
    ∀ t g, w (upd pc t0 p' t) = some g → g = cur + 1 → n = seen t ∨ ∃ u r, upd pc t0 p' u = .bSwap c r := by
  intro t g hw hg
  by_cases htt : t = t0
  · subst htt; simp only [upd_same] at hw; rw [h1] at hw; cases hw
  · simp only [upd, htt, if_false] at hw
    have := hle t g hw; omega

theorem wait_witness (w : Pc → Option Nat) (c : CondId) (pc : Nat → Pc) (cur n : Nat) (seen : Nat → Nat)
    (t0 : Nat) (r : Ret) :
    ∀ t g, w (upd pc t0 (.bSwap c r) t) = some g → g = cur →
      n = seen t ∨ ∃ u r', upd pc t0 (.bSwap c r) u = .bSwap c r' :=
  fun _ _ _ _ => Or.inr ⟨t0, r, by simp⟩

theorem waitsE_holds {p : Pc} {g : Nat} (h : p.waitsE = some g) : p.holds = some (.enqSig, g) := by
  cases p <;> simp [Pc.waitsE] at h <;> try (subst h; rfl)
  all_goals (rename_i k; cases k <;> simp at h <;> subst h <;> rfl)

theorem waitsD_holds {p : Pc} {g : Nat} (h : p.waitsD = some g) : p.holds = some (.deqSig, g) := by
  cases p <;> simp [Pc.waitsD] at h <;> try (subst h; rfl)
  all_goals (rename_i k; cases k <;> simp at h <;> subst h <;> rfl)

end Ekit.DelayQ
