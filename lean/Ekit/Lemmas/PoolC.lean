/-
Layer C of the pool invariants: `totalGo` counts exactly the workers that have not yet executed their
decrement plus the workers whose `go` statement is still pending (`pending`, only non-zero inside the
`state`-lock critical section), and never exceeds `maxGo`: growth is decided (`allowToCreateGoroutine`,
`numOfGoThatCanBeCreate`) and counted by the single holder of the `state` lock, everybody else only
decrements.  Uses layer A (one holder) and layer B (the local copies under `mutex` are current).
-/
import Ekit.Lemmas.PoolA2
import Ekit.Lemmas.PoolB
namespace Ekit.Pool

def liveW (w : Worker) : Bool := live w.pc

theorem numCanCreate_le (c : Cfg) (q : Nat) (h : c.initGo ≤ c.maxGo) : numCanCreate c q ≤ c.maxGo := by
  simp only [numCanCreate]
  split <;> (try split) <;> omega

theorem allowCreate_lt (c : Cfg) (g q : Nat) (h : allowCreate c g q = true) : g < c.maxGo := by
  simp [allowCreate] at h; exact h.1

def LCn (c : Cfg) : Loc where
  G s := s.totalGo = s.workers.countP liveW + s.pending ∧ s.totalGo ≤ c.maxGo ∧
         (s.life ≠ .locked → s.pending = 0) ∧ (s.life = .created → s.totalGo = 0 ∧ s.workers = [])
  W _ _ _ := True
  C s _ cl := (growPc cl.pc = true → s.totalGo < c.maxGo) ∧
              (stPre cl.pc = true → s.totalGo = 0 ∧ s.workers = [] ∧ s.pending = 0) ∧
              ((cl.pc = .stIncWant ∨ cl.pc = .stIncHeld) → cl.k ≤ c.maxGo) ∧
              (cl.pc = .subSpawn → s.pending = 1) ∧
              (cl.pc = .stSpawn → s.pending = cl.k) ∧
              (crit cl.pc = true → cl.pc ≠ .subSpawn → cl.pc ≠ .stSpawn → s.pending = 0) ∧
              (cl.pc = .ret → ∀ n, cl.res = .goCnt n → n ≤ c.maxGo) ∧
              (postSend cl.pc = true → cl.st = .running) ∧
              (crit cl.pc = true → cl.st = .created → s.totalGo = 0 ∧ s.workers = []) ∧
              (cl.pc = .subUnlock → ∀ n, cl.res ≠ .goCnt n)

theorem invC_init (c : Cfg) : (LCn c).Inv init := by
  refine ⟨?_, ?_, ?_⟩ <;> simp [LCn, init]

theorem invC_wstep (c : Cfg) (s s' : St) (i : Nat) (a : WAct) (hB : LB.Inv s) (hi : (LCn c).Inv s)
    (h : wStep c s i a = some s') : (LCn c).Inv s' := by
  unfold wStep at h
  split at h
  next w hw =>
    have hbi := hB.wk i w hw
    have hg := hi.glob
    have hne : s.workers ≠ [] := by intro h0; rw [h0] at hw; simp at hw
    have hpos : liveW w = true → 0 < s.workers.countP liveW := countP_pos_of_getElem? liveW s.workers i w hw
    simp only [LB] at hbi
    simp only [LCn] at hg
    cases a <;> simp only [wAct] at h <;> (repeat' (split at h)) <;> (try simp at h) <;> (try subst h) <;>
      (refine Loc.inv_worker hw rfl rfl hi ?_ ?_ ?_ ?_
       · simp only [LCn, setW_workers, setW_totalGo, setW_pending, setW_life]
         rw [countP_set_eq liveW _ _ _ _ hw]
         generalize hcnt : List.countP liveW s.workers = n at *
         simp_all [liveW] <;>
           first
           | omega
           | (by_cases hlv : live w.pc = true <;> simp_all <;> omega)
       · exact fun _ => trivial
       · exact fun _ _ _ _ _ => trivial
       · first
         | exact fun _ h => h
         | (intro u hm
            generalize hcnt : List.countP liveW s.workers = n at *
            simp only [LCn] at hm ⊢
            simp_all [liveW] <;> fin_arith))
  next => simp at h

end Ekit.Pool
