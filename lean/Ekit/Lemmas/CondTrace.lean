/-
The ghost counters of the Cond model count labels of the run, so the counting theorems can be read
without ghost state: over any run from the initial state,
  #(`resWait _ nil`) ≤ #(`sLen _`) + #(`bSend _`)      etc.
Also: the label enumeration used by the trace acceptor misses no transition of a thread.
-/
import Ekit.Lemmas.CondCount
import Ekit.Model.CondExec
namespace Ekit.Cond
open Ekit.Conc

def Label.isRetNil : Label → Bool
  | .resWait _ .nil => true
  | _ => false
def Label.isRetErr : Label → Bool
  | .resWait _ .ctxErr => true
  | _ => false
/-- a Signal takes effect: its length check under `mu` -/
def Label.isSigCheck : Label → Bool
  | .sLen _ => true
  | _ => false
def Label.isSigSend : Label → Bool
  | .sSend _ => true
  | _ => false
def Label.isBcSend : Label → Bool
  | .bSend _ => true
  | _ => false
def Label.isFwdSend : Label → Bool
  | .fwdSend _ => true
  | _ => false

/-- the label-counted quantities of a state -/
structure Counts where
  retNil : Nat
  retErr : Nat
  sigChecks : Nat
  sigIssued : Nat
  bcIssued : Nat
  fwd : Nat
  deriving DecidableEq

def State.counts (s : State) : Counts := ⟨s.retNil, s.retErr, s.sigChecks, s.sigIssued, s.bcIssued, s.fwd⟩

def b2n (b : Bool) : Nat := if b then 1 else 0

def Counts.add (c : Counts) (l : Label) : Counts :=
  ⟨c.retNil + b2n l.isRetNil, c.retErr + b2n l.isRetErr, c.sigChecks + b2n l.isSigCheck,
   c.sigIssued + b2n l.isSigSend, c.bcIssued + b2n l.isBcSend, c.fwd + b2n l.isFwdSend⟩

theorem counts_step {s s' : State} {l : Label} (hs : step s l = some s') : s'.counts = s.counts.add l := by
  step_cases hs <;>
    simp [State.counts, Counts.add, b2n, Label.isRetNil, Label.isRetErr, Label.isSigCheck, Label.isSigSend,
      Label.isBcSend, Label.isFwdSend]

theorem counts_run (ls : List Label) (s0 s : State) (h : sys.toSystem.run s0 ls = some s) :
    s.counts = ⟨s0.retNil + ls.countP Label.isRetNil, s0.retErr + ls.countP Label.isRetErr,
                s0.sigChecks + ls.countP Label.isSigCheck, s0.sigIssued + ls.countP Label.isSigSend,
                s0.bcIssued + ls.countP Label.isBcSend, s0.fwd + ls.countP Label.isFwdSend⟩ := by
  induction ls generalizing s0 with
  | nil => simp [System.run] at h; subst h; simp [State.counts]
  | cons l rest ih =>
    simp only [System.run] at h
    cases hs : sys.toSystem.step s0 l with
    | none => simp [hs] at h
    | some s1 =>
      simp only [hs] at h
      have h1 := counts_step (s := s0) (s' := s1) (l := l) hs
      have h2 := ih s1 h
      rw [h2]
      simp only [State.counts, Counts.add, Counts.mk.injEq] at h1
      obtain ⟨a, b, c, d, e, f⟩ := h1
      simp only [List.countP_cons, Counts.mk.injEq, a, b, c, d, e, f, b2n]
      refine ⟨?_, ?_, ?_, ?_, ?_, ?_⟩ <;> omega

/-- thread that performs a label (client / environment labels excluded) -/
def Label.actor : Label → Option Tid
  | .lockL _ | .unlockL _ | .expire _ | .poolDrop _ | .invWait _ _ | .invSignal _ | .invBroadcast _ => none
  | .ccLoad t | .ccCas t | .ccLoad2 t | .firstUse t | .addLock t | .alloc t _ | .push t | .addUnlock t
  | .waitUnlockL t | .selRecv t | .selCtx t | .ctxLock t | .innerRecv t | .innerDefault t | .fwdLen t
  | .fwdPop t | .fwdSend t | .remove t | .ctxErr t | .ctxUnlock t | .free t | .relockL t | .resWait t _
  | .sLock t | .sLen t | .sPop t | .sSend t | .sUnlock t | .resSignal t
  | .bLock t | .bLen t | .bPop t | .bSend t | .bUnlock t | .resBroadcast t => some t

/-- **The acceptor's label enumeration is complete**: every enabled step of a thread inside a call is
    one of `pcLabels` at its program counter, except that `pcLabels` fixes the pool's choice. -/
theorem pcLabels_complete {s s' : State} {l : Label} {t : Tid} (hs : step s l = some s')
    (ha : l.actor = some t) : l ∈ pcLabels s t (s.pc t) ∨ ∃ c, l = .alloc t c := by
  step_cases hs <;> simp_all [Label.actor, pcLabels]

end Ekit.Cond
