/-
Helper lemmas for C20, part 10: reading `Spec.copyRel` field by field.
-/
import Ekit.Lemmas.CopierBasic

namespace Ekit.Copier
open Ekit.Go

theorem loopRel_at (p : Spec.Params) (recS : Ty → Val → Ty → Val → Val → Bool) (sfs : List Field)
    (svs d0s d1s : List Val) : ∀ (dsuf : List Field) (j0 k : Nat) (df : Field),
    Spec.loopRel p recS sfs svs d0s d1s dsuf j0 = true → dsuf[k]? = some df →
    ∃ a b, d0s[j0 + k]? = some a ∧ d1s[j0 + k]? = some b ∧ Spec.fieldClause p recS sfs svs df a b = true
  | [], _, _, _, _, hk => by simp at hk
  | df' :: rest, j0, 0, df, h, hk => by
      simp at hk
      subst hk
      simp only [Spec.loopRel, Bool.and_eq_true] at h
      cases ha : d0s[j0]? with
      | none => rw [ha] at h; simp at h
      | some a =>
        cases hb : d1s[j0]? with
        | none => rw [ha, hb] at h; simp at h
        | some b =>
          rw [ha, hb] at h
          exact ⟨a, b, by simpa using ha, by simpa using hb, h.1⟩
  | df' :: rest, j0, k + 1, df, h, hk => by
      simp at hk
      simp only [Spec.loopRel, Bool.and_eq_true] at h
      obtain ⟨a, b, h1, h2, h3⟩ := loopRel_at p recS sfs svs d0s d1s rest (j0 + 1) k df h.2 hk
      exact ⟨a, b, by rw [← h1]; congr 1; omega, by rw [← h2]; congr 1; omega, h3⟩

/-- a whole-call relation gives, for every destination field, its clause -/
theorem copyRel_field (p : Spec.Params) (S D : Ty) (sv d0 d1 : Val) (sfs dfs : List Field)
    (h : Spec.copyRel p S sv D d0 d1 = true) (hsfs : S.fields? = some sfs) (hdfs : D.fields? = some dfs)
    (j : Nat) (df : Field) (hdf : dfs[j]? = some df) :
    ∃ svs a b, sv = .struct svs ∧ d0.field? j = some a ∧ d1.field? j = some b ∧
      Spec.fieldClause p (Spec.structRel p S.depth) sfs svs df a b = true := by
  simp only [Spec.copyRel, Spec.structRel, hsfs, hdfs] at h
  split at h
  next sfs' dfs' svs d0s d1s e1 e2 =>
    cases e1; cases e2
    simp only [Bool.and_eq_true] at h
    obtain ⟨a, b, h1, h2, h3⟩ := loopRel_at p _ sfs svs d0s d1s dfs 0 j df h.2 hdf
    exact ⟨svs, a, b, rfl, by simpa [Val.field?] using h1, by simpa [Val.field?] using h2, h3⟩
  next => simp at h

end Ekit.Copier
