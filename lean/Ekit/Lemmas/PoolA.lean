/-
Layer A of the pool invariants: the `state` spin lock (CAS to `locked`) is a mutual-exclusion lock
with at most one holder; the lifecycle only moves forward; the queue is closed only after shutdown
began and exactly once; no send on / close of a closed channel (no Go run-time panic); the ghost
counters of successful Start / Shutdown CASes; calls invoked after shutdown began never leave the
error path.

The invariant is *localised*: a clause about the global fields (`GAI`) and, for every caller `u`,
a clause about the global fields and `u`'s own record (`LA`).  A step of caller `t` then only needs
(1) the clauses of `t`'s new record and (2) that the clauses of an arbitrary other record survive the
change of the global fields — quantifier-free goals.
-/
import Ekit.Lemmas.PoolPc
namespace Ekit.Pool
open Ekit.Conc

/-- the global fields layer A speaks about -/
structure GA where
  life : Life
  holder : Nat
  closed : Bool
  panic : Bool
  nStartOk : Nat
  nShutOk : Nat
  graceful : Bool

def St.ga (s : St) : GA := ⟨s.life, s.holder, s.closed, s.panic, s.nStartOk, s.nShutOk, s.graceful⟩

structure GAI (g : GA) : Prop where
  closed_begun : g.closed = true → shutBegun g.life = true
  no_panic : g.panic = false
  nStart_le : g.nStartOk ≤ 1
  created_nStart : g.life = .created → g.nStartOk = 0
  nShut_begun : shutBegun g.life = true → g.nShutOk = 1
  nShut_not : shutBegun g.life = false → g.nShutOk = 0
  graceful_begun : g.graceful = true → shutBegun g.life = true
  started_nStart : (g.life = .running ∨ shutBegun g.life = true) → g.nStartOk = 1

structure LA (g : GA) (u : Nat) (cl : Caller) : Prop where
  holder_crit : g.life = .locked → g.holder = u → crit cl.pc = true
  crit_locked : crit cl.pc = true → g.life = .locked ∧ g.holder = u
  crit_st : crit cl.pc = true → cl.st ≠ .locked ∧ shutBegun cl.st = false
  close_begun : pcClose cl.pc = true → shutBegun g.life = true ∧ g.closed = false ∧ g.holder = u
  snAfter_stopped : snAfter cl.pc = true → g.life = .stopped
  locked_created : g.life = .locked → g.holder = u → cl.st = .created → g.nStartOk = 0
  late_err : cl.late = true → cl.kind ≠ .states →
    shutBegun g.life = true ∧ okPath cl.pc = false ∧ (cl.pc = .ret → cl.res.isErr = true)
  gs_kind : (cl.pc = .gsWant ∨ cl.pc = .gsHeld) → cl.kind = .states
  locked_running : g.life = .locked → g.holder = u → cl.st = .running → g.nStartOk = 1
  start_st : (stPre cl.pc = true ∨ cl.pc = .stSpawn) → cl.st = .running

theorem GAI_iff (g : GA) : GAI g ↔ ((g.closed = true → shutBegun g.life = true) ∧ g.panic = false ∧ g.nStartOk ≤ 1 ∧
    (g.life = .created → g.nStartOk = 0) ∧ (shutBegun g.life = true → g.nShutOk = 1) ∧
    (shutBegun g.life = false → g.nShutOk = 0) ∧ (g.graceful = true → shutBegun g.life = true) ∧
    ((g.life = .running ∨ shutBegun g.life = true) → g.nStartOk = 1)) :=
  ⟨fun ⟨a, b, c, d, e, f, g, h⟩ => ⟨a, b, c, d, e, f, g, h⟩, fun ⟨a, b, c, d, e, f, g, h⟩ => ⟨a, b, c, d, e, f, g, h⟩⟩

theorem LA_iff (g : GA) (u : Nat) (cl : Caller) : LA g u cl ↔
    ((g.life = .locked → g.holder = u → crit cl.pc = true) ∧
     (crit cl.pc = true → g.life = .locked ∧ g.holder = u) ∧
     (crit cl.pc = true → cl.st ≠ .locked ∧ shutBegun cl.st = false) ∧
     (pcClose cl.pc = true → shutBegun g.life = true ∧ g.closed = false ∧ g.holder = u) ∧
     (snAfter cl.pc = true → g.life = .stopped) ∧
     (g.life = .locked → g.holder = u → cl.st = .created → g.nStartOk = 0) ∧
     (cl.late = true → cl.kind ≠ .states →
       shutBegun g.life = true ∧ okPath cl.pc = false ∧ (cl.pc = .ret → cl.res.isErr = true)) ∧
     ((cl.pc = .gsWant ∨ cl.pc = .gsHeld) → cl.kind = .states) ∧
     (g.life = .locked → g.holder = u → cl.st = .running → g.nStartOk = 1) ∧
     ((stPre cl.pc = true ∨ cl.pc = .stSpawn) → cl.st = .running)) :=
  ⟨fun ⟨a, b, c, d, e, f, g, h, i, j⟩ => ⟨a, b, c, d, e, f, g, h, i, j⟩,
   fun ⟨a, b, c, d, e, f, g, h, i, j⟩ => ⟨a, b, c, d, e, f, g, h, i, j⟩⟩

structure InvA (s : St) : Prop where
  glob : GAI s.ga
  loc : ∀ u, LA s.ga u (s.callers u)

@[simp] theorem shutBegun_locked : shutBegun .locked = false := rfl
@[simp] theorem shutBegun_created : shutBegun .created = false := rfl
@[simp] theorem shutBegun_running : shutBegun .running = false := rfl
@[simp] theorem shutBegun_closing : shutBegun .closing = true := rfl
@[simp] theorem shutBegun_stopped : shutBegun .stopped = true := rfl

theorem invA_init : InvA init := by
  constructor
  · constructor <;> simp [init, St.ga]
  · intro u; constructor <;> simp [init, St.ga]

/-- what a worker step can do to the fields layer A talks about -/
theorem wStep_frameA {c : Cfg} {s s' : St} {i : Nat} {a : WAct} (h : wStep c s i a = some s') :
    s'.callers = s.callers ∧
    (s'.ga = s.ga ∨ (s.life = .closing ∧ s'.ga = { s.ga with life := .stopped })) := by
  unfold wStep at h
  split at h
  next w hw =>
    cases a <;> simp only [wAct] at h <;> (repeat' (split at h)) <;>
      simp at h <;> (try subst h) <;> simp_all [St.ga]
  next => simp at h

theorem invA_wstep (c : Cfg) (s s' : St) (i : Nat) (a : WAct) (hi : InvA s) (h : wStep c s i a = some s') : InvA s' := by
  obtain ⟨h1, h2⟩ := wStep_frameA h
  rcases h2 with h2 | ⟨h2, h3⟩
  · exact ⟨h2 ▸ hi.glob, fun u => by rw [h1, h2]; exact hi.loc u⟩
  · have hlife : s.ga.life = .closing := h2
    refine ⟨?_, fun u => ?_⟩
    · rw [h3]
      obtain ⟨g1, g2, g3, g4, g5, g6, g7, g8⟩ := hi.glob
      constructor <;> simp_all
    · rw [h1, h3]
      obtain ⟨l1, l2, l3, l4, l5, l6, l7, l8, l9, l10⟩ := hi.loc u
      constructor <;> simp_all

end Ekit.Pool
