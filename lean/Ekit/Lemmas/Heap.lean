/- Call-level facts about the priority-queue model (C05): what Enqueue / Dequeue do to a
   well-formed queue. Core Lean only. -/
import Ekit.Lemmas.HeapUp
import Ekit.Lemmas.HeapDown
import Ekit.Lemmas.Lists

namespace Ekit.Heap
open Ekit.Cmp Ekit.Go
open Ekit.Lists (GoSlice sliceShrink calCapacity_isSome calCapacity_nonneg calCapacity_changed_ge)

/-- the representation invariant of the queue -/
structure WF (cmp : Cmp) (q : PQ) : Prop where
  /-- slot 0 exists -/
  slot0 : 1 ≤ q.data.vals.length
  heap : HeapInv cmp q.data.vals
  cap_nonneg : 0 ≤ q.capacity
  /-- a bounded queue holds at most `capacity` elements in a backing array of `capacity+1` slots -/
  bounded : 0 < q.capacity → (q.data.vals.length : Int) ≤ q.capacity + 1 ∧ (q.data.cap : Int) = q.capacity + 1

theorem perm_drop_one {a b : List Int} (hp : a.Perm b) (h0 : a[0]? = b[0]?) : (a.drop 1).Perm (b.drop 1) := by
  cases a with
  | nil => have := hp.length_eq; cases b <;> simp_all
  | cons x a' =>
    cases b with
    | nil => have := hp.length_eq; simp at this
    | cons y b' =>
      simp at h0; subst h0
      simpa using hp.cons_inv

theorem set_last_eq {M : List Int} {n : Nat} (x : Int) (h : M.length = n + 1) : M.set n x = M.take n ++ [x] := by
  apply List.ext_getElem?
  intro j
  rw [List.getElem?_set, List.getElem?_append, List.getElem?_take]
  simp only [List.length_take, h]
  by_cases h1 : n = j
  · subst h1; simp
  · by_cases h2 : j < n
    · have : j < min n (n + 1) := by omega
      simp [h1, h2]
    · have : ¬ j < min n (n + 1) := by omega
      have h3 : M.length ≤ j := by omega
      have h4 : j - min n (n + 1) = (j - n - 1) + 1 := by omega
      simp [h1, List.getElem?_eq_none h3]
      omega

/-- "move the last element to the root and cut the last slot off": what was removed is the root -/
theorem moveLast_perm {d : List Int} {pop last : Int} (h2 : 2 ≤ d.length) (hp : d[1]? = some pop)
    (hl : d[d.length - 1]? = some last) :
    d.Perm (pop :: (d.set 1 last).take (d.length - 1)) := by
  have hsw : ((d.set 1 last).set (d.length - 1) pop).Perm d := swap_perm hp hl
  have hlen : (d.set 1 last).length = (d.length - 1) + 1 := by simp; omega
  rw [set_last_eq pop hlen] at hsw
  have : ((d.set 1 last).take (d.length - 1) ++ [pop]).Perm (pop :: (d.set 1 last).take (d.length - 1)) :=
    List.perm_append_singleton _ _
  exact hsw.symm.trans this

theorem downInv_moveLast {cmp : Cmp} {d : List Int} (last : Int) (h : HeapInv cmp d) :
    DownInv cmp ((d.set 1 last).take (d.length - 1)) 1 := by
  constructor
  · intro j a b hj2 hj1 ha hb
    rw [List.getElem?_take] at ha hb
    split at ha
    · split at hb
      · rw [List.getElem?_set] at ha hb
        have e1 : ¬ 1 = j := by omega
        have e2 : ¬ 1 = j / 2 := by omega
        rw [if_neg e1] at ha
        rw [if_neg e2] at hb
        exact h j a b hj2 ha hb
      · cases hb
    · cases ha
  · intro c a b h21
    omega

theorem sliceShrink_ok (s : GoSlice) (grow : Nat) : ∃ s', sliceShrink s grow = .ok s' ∧ s'.vals = s.vals := by
  unfold sliceShrink
  have hs := calCapacity_isSome (s.cap : Int) (s.vals.length : Int)
  cases hc : Ekit.Gen.calCapacity (s.cap : Int) (s.vals.length : Int) with
  | none => simp [hc] at hs
  | some p =>
    obtain ⟨n, changed⟩ := p
    cases changed with
    | false => exact ⟨s, by simp, rfl⟩
    | true =>
      have hn : ¬ n < 0 := by
        have := calCapacity_nonneg _ _ _ _ (by omega) hc
        omega
      simp only [Bool.not_true, Bool.false_eq_true, if_false, hn]
      refine ⟨_, rfl, ?_⟩
      simp only [GoSlice.append]
      split <;> simp

theorem sliceShrink_fits (s : GoSlice) (grow : Nat) (hf : s.vals.length ≤ s.cap) (s' : GoSlice)
    (h : sliceShrink s grow = .ok s') : s'.vals.length ≤ s'.cap := by
  unfold sliceShrink at h
  cases hc : Ekit.Gen.calCapacity (s.cap : Int) (s.vals.length : Int) with
  | none => rw [hc] at h; cases h
  | some p =>
    obtain ⟨n, changed⟩ := p
    rw [hc] at h
    cases changed with
    | false => simp at h; rw [← h]; exact hf
    | true =>
      have hge := calCapacity_changed_ge (s.cap : Int) (s.vals.length : Int) n (by omega) (by omega) hc
      have hn : ¬ n < 0 := by omega
      simp only [Bool.not_true, Bool.false_eq_true, if_false, hn, GoSlice.append] at h
      split at h
      · have := Outcome.ok.inj h
        rw [← this]; simp; omega
      · rename_i hh; simp at hh; omega

theorem shrinkIfNecessary_fits (q : PQ) (grow : Nat) (hf : q.data.vals.length ≤ q.data.cap) (s' : GoSlice)
    (h : shrinkIfNecessary q grow = .ok s') : s'.vals.length ≤ s'.cap := by
  unfold shrinkIfNecessary at h
  split at h
  · exact sliceShrink_fits _ _ hf _ h
  · have := Outcome.ok.inj h
    rw [← this]; exact hf

theorem shrinkIfNecessary_ok (q : PQ) (grow : Nat) :
    ∃ s', shrinkIfNecessary q grow = .ok s' ∧ s'.vals = q.data.vals ∧ (q.isBoundless = false → s' = q.data) := by
  unfold shrinkIfNecessary
  cases hb : q.isBoundless with
  | true =>
    obtain ⟨s', h1, h2⟩ := sliceShrink_ok q.data grow
    exact ⟨s', by simpa using h1, h2, by simp⟩
  | false => exact ⟨q.data, by simp, rfl, fun _ => rfl⟩

theorem wf_new (cmp : Cmp) (capacity : Int) : WF cmp (PQ.new capacity) := by
  unfold PQ.new
  split
  · refine ⟨by simp, ?_, by simp, by simp⟩
    intro i a b hi ha
    have := lt_length_of_getElem? ha
    simp at this; omega
  · refine ⟨by simp, ?_, by simp; omega, ?_⟩
    · intro i a b hi ha
      have := lt_length_of_getElem? ha
      simp at this; omega
    · intro _
      simp
      omega

/-- Enqueue on a queue that is not full -/
theorem enqueue_ok {cmp : Cmp} (hc : Lawful cmp) {q : PQ} (hq : WF cmp q) (grow : Nat) (t : Int)
    (hnf : q.isFull = false) :
    ∃ q', step cmp q grow (.enqueue t) = (q', .ok .unit) ∧ WF cmp q' ∧
      q'.contents.Perm (t :: q.contents) ∧ q'.capacity = q.capacity ∧ q'.data.vals[0]? = q.data.vals[0]? ∧
      q'.data.cap = (q.data.append [t] grow).cap ∧ q'.data.vals.length = q.data.vals.length + 1 := by
  have hvals : (q.data.append [t] grow).vals = q.data.vals ++ [t] := by
    unfold GoSlice.append; split <;> rfl
  have hup := upInv_append (cmp := cmp) t hq.heap
  obtain ⟨d', e1, e2, e3, e4, e5⟩ := siftUp_spec hc (q.data.vals ++ [t]).length (q.data.vals ++ [t]) q.data.vals.length
    (by simp) (by simp) hup
  have hstep : step cmp q grow (.enqueue t) =
      ({ q with data := { (q.data.append [t] grow) with vals := d' } }, .ok .unit) := by
    simp only [step, hnf, Bool.false_eq_true, if_false, hvals]
    have : (q.data.vals ++ [t]).length - 1 = q.data.vals.length := by simp
    rw [this, e1]
  refine ⟨_, hstep, ⟨?_, e2, hq.cap_nonneg, ?_⟩, ?_, rfl, ?_, rfl, by simp only [e5]; simp⟩
  · simp only [e5]; simp
  · intro hpos
    have hpos' : 0 < q.capacity := hpos
    obtain ⟨b1, b2⟩ := hq.bounded hpos'
    have hlt : (q.data.vals.length : Int) - 1 ≠ q.capacity := by
      simp only [PQ.isFull, Bool.and_eq_false_iff, decide_eq_false_iff_not] at hnf
      rcases hnf with h | h
      · omega
      · simpa using h
    simp only [e5, List.length_append, List.length_cons, List.length_nil]
    refine ⟨by omega, ?_⟩
    unfold GoSlice.append
    have : q.data.vals.length + [t].length ≤ q.data.cap := by simp; omega
    rw [if_pos this]
    exact b2
  · -- contents
    have h0 : d'[0]? = (q.data.vals ++ [t])[0]? := e4
    have := perm_drop_one e3 h0
    simp only [PQ.contents]
    refine this.trans ?_
    have hl := hq.slot0
    cases hv : q.data.vals with
    | nil => rw [hv] at hl; simp at hl
    | cons z rest =>
      simp only [List.cons_append, List.drop_succ_cons, List.drop_zero]
      exact List.perm_append_singleton _ _
  · simp only [e4]
    rw [List.getElem?_append_left (by have := hq.slot0; omega)]

/-- Dequeue on a queue that is not empty -/
theorem dequeue_ok {cmp : Cmp} (hc : Lawful cmp) {q : PQ} (hq : WF cmp q) (grow : Nat)
    (hne : q.isEmpty = false) :
    ∃ pop q', step cmp q grow .dequeue = (q', .ok (.val pop)) ∧ WF cmp q' ∧
      q.contents.Perm (pop :: q'.contents) ∧ (∀ x ∈ q.contents, cmp pop x ≤ 0) ∧
      q'.capacity = q.capacity ∧ q'.data.vals[0]? = q.data.vals[0]? ∧
      q.data.vals[1]? = some pop ∧ (q.data.vals.length ≤ q.data.cap → q'.data.vals.length ≤ q'.data.cap) ∧
      q'.data.vals.length + 1 = q.data.vals.length := by
  have h2 : 2 ≤ q.data.vals.length := by
    simp only [PQ.isEmpty, decide_eq_false_iff_not] at hne; omega
  have hp : q.data.vals[1]? = some q.data.vals[1] := List.getElem?_eq_getElem (by omega)
  have hl : q.data.vals[q.data.vals.length - 1]? = some q.data.vals[q.data.vals.length - 1] :=
    List.getElem?_eq_getElem (by omega)
  generalize hpop : q.data.vals[1] = pop at hp
  generalize hlast : q.data.vals[q.data.vals.length - 1] = last at hl
  let q1 : PQ := { q with data := { q.data with vals := (q.data.vals.set 1 last).take (q.data.vals.length - 1) } }
  obtain ⟨s, hs1, hs2, hs3⟩ := shrinkIfNecessary_ok q1 grow
  have hq1len : q1.data.vals.length = q.data.vals.length - 1 := by
    simp only [q1, List.length_take, List.length_set]; omega
  have hdown : DownInv cmp s.vals 1 := by rw [hs2]; exact downInv_moveLast last hq.heap
  obtain ⟨d', e1, e2, e3, e4, e5⟩ := heapify_spec hc s.vals.length s.vals (s.vals.length - 1) 1
    (by rw [hs2, hq1len]; omega) (by omega) (by rw [hs2, hq1len]; omega) (by omega) hdown
  have hstep : step cmp q grow .dequeue = ({ q with data := { s with vals := d' } }, .ok (.val pop)) := by
    simp only [step, hne, Bool.false_eq_true, if_false, hp, hl]
    show (match shrinkIfNecessary q1 grow with
      | .ok s => _
      | .err e => _
      | .panic m => _) = _
    rw [hs1]
    simp only [e1]
  have hmv := moveLast_perm h2 hp hl
  -- contents before/after
  have hcont : q.contents.Perm (pop :: d'.drop 1) := by
    have hp1 : d'.Perm ((q.data.vals.set 1 last).take (q.data.vals.length - 1)) := by
      have := e3; rw [hs2] at this; exact this
    have h0 : d'[0]? = ((q.data.vals.set 1 last).take (q.data.vals.length - 1))[0]? := by
      rw [e4, hs2]
    have hd := perm_drop_one hp1 h0
    simp only [PQ.contents]
    cases hv : q.data.vals with
    | nil => rw [hv] at h2; simp at h2
    | cons z rest =>
      rw [hv] at hmv hd
      cases rest with
      | nil => rw [hv] at h2; simp at h2
      | cons r rest' =>
        simp only [List.set_cons_succ, List.set_cons_zero, List.length_cons, Nat.add_sub_cancel,
          List.take_succ_cons, List.drop_succ_cons, List.drop_zero] at hmv hd ⊢
        -- hmv : z :: r :: rest' ~ pop :: z :: take _ (last :: rest')
        have hm2 : (z :: r :: rest').Perm (z :: pop :: (last :: rest').take (rest'.length + 1 - 1 + 1 - 1)) := by
          refine hmv.trans ?_
          simpa using List.Perm.swap z pop _
        have hm3 := hm2.cons_inv
        refine hm3.trans (List.Perm.cons pop ?_)
        simpa using hd.symm
  refine ⟨pop, _, hstep, ⟨?_, e2, hq.cap_nonneg, ?_⟩, hcont, ?_, rfl, ?_, hp, ?_, ?_⟩
  · simp only [e5, hs2, hq1len]; omega
  · intro hpos
    obtain ⟨b1, b2⟩ := hq.bounded hpos
    have hnb : q1.isBoundless = false := by
      simp only [PQ.isBoundless, q1, decide_eq_false_iff_not]; omega
    have := hs3 hnb
    simp only [e5, hs2, hq1len]
    refine ⟨by omega, ?_⟩
    rw [this]
    exact b2
  · -- the root is a minimum
    intro x hx
    simp only [PQ.contents] at hx
    obtain ⟨j, hjx⟩ := List.mem_iff_getElem?.mp hx
    rw [List.getElem?_drop] at hjx
    exact hq.heap.root_le hc hp (1 + j) x (by omega) hjx
  · simp only [e4, hs2, q1]
    rw [List.getElem?_take, List.getElem?_set]
    have : 0 < q.data.vals.length - 1 := by omega
    simp [this]
  · intro hfit
    have hf1 : q1.data.vals.length ≤ q1.data.cap := by
      rw [hq1len]; simp only [q1]; omega
    have := shrinkIfNecessary_fits q1 grow hf1 s hs1
    simp only [e5]; exact this
  · simp only [e5, hs2, hq1len]; omega

end Ekit.Heap
