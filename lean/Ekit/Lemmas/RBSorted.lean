/-
List-level facts about the abstract sorted map (`SMap`): how `lookup` / `insert` / `erase` /
`update` distribute over `xs ++ p :: ys` when the list is strictly ascending for a lawful comparator.
-/
import Ekit.Model.RBTree

namespace Ekit.RB
variable {α β : Type} {cmp : α → α → Int}

namespace LawfulCmp
theorem refl (h : LawfulCmp cmp) (a : α) : cmp a a = 0 := by
  have := h.antisym a a
  omega
theorem eq_symm (h : LawfulCmp cmp) {a b : α} (e : cmp a b = 0) : cmp b a = 0 := by
  have h1 := h.antisym a b
  have h2 := h.antisym b a
  omega
theorem gt_of_lt (h : LawfulCmp cmp) {a b : α} (e : cmp a b < 0) : 0 < cmp b a := (h.antisym a b).1 e
theorem lt_of_gt (h : LawfulCmp cmp) {a b : α} (e : 0 < cmp a b) : cmp b a < 0 := (h.antisym b a).2 e
theorem lt_trans (h : LawfulCmp cmp) {a b c : α} (h1 : cmp a b < 0) (h2 : cmp b c < 0) : cmp a c < 0 := by
  have t := h.le_trans a b c (by omega) (by omega)
  -- if cmp a c = 0 then c ≤ a ≤ b so c ≤ b, contradicting b < c
  by_cases e : cmp a c = 0
  · have s2 := h.antisym c a
    have s1 := h.antisym a c
    have t2 := h.le_trans c a b (by omega) (by omega)
    have s3 := h.antisym b c
    omega
  · omega
theorem lt_of_lt_of_eq (h : LawfulCmp cmp) {a b c : α} (h1 : cmp a b < 0) (h2 : cmp b c = 0) : cmp a c < 0 := by
  have t := h.le_trans a b c (by omega) (by omega)
  by_cases e : cmp a c = 0
  · have s2 := h.antisym c a
    have s1 := h.antisym a c
    have s3 := h.antisym b c
    have s4 := h.antisym c b
    -- b ≤ c ≤ a so b ≤ a, contradicting a < b
    have t2 := h.le_trans b c a (by omega) (by omega)
    have s5 := h.antisym a b
    omega
  · omega
theorem lt_of_eq_of_lt (h : LawfulCmp cmp) {a b c : α} (h1 : cmp a b = 0) (h2 : cmp b c < 0) : cmp a c < 0 := by
  have t := h.le_trans a b c (by omega) (by omega)
  by_cases e : cmp a c = 0
  · have s2 := h.antisym c a
    have s1 := h.antisym a c
    have s5 := h.antisym a b
    have s6 := h.antisym b a
    -- c ≤ a ≤ b so c ≤ b, contradicting b < c
    have t2 := h.le_trans c a b (by omega) (by omega)
    have s3 := h.antisym b c
    omega
  · omega
theorem eq_trans (h : LawfulCmp cmp) {a b c : α} (h1 : cmp a b = 0) (h2 : cmp b c = 0) : cmp a c = 0 := by
  have t := h.le_trans a b c (by omega) (by omega)
  have s5 := h.antisym a b
  have s6 := h.antisym b a
  have s3 := h.antisym b c
  have s4 := h.antisym c b
  have t2 := h.le_trans c b a (by omega) (by omega)
  have s1 := h.antisym a c
  have s2 := h.antisym c a
  omega
end LawfulCmp

namespace SMap

theorem sorted_nil : Sorted cmp ([] : List (α × β)) := List.Pairwise.nil

theorem sorted_cons {p : α × β} {s : List (α × β)} :
    Sorted cmp (p :: s) ↔ (∀ q ∈ s, cmp p.1 q.1 < 0) ∧ Sorted cmp s := by
  simp [Sorted, List.pairwise_cons]

theorem sorted_append {xs ys : List (α × β)} :
    Sorted cmp (xs ++ ys) ↔ Sorted cmp xs ∧ Sorted cmp ys ∧ ∀ x ∈ xs, ∀ y ∈ ys, cmp x.1 y.1 < 0 := by
  simp [Sorted, List.pairwise_append]

/-- the shape in which sortedness of an in-order traversal is used -/
theorem sorted_mid {xs ys : List (α × β)} {p : α × β} :
    Sorted cmp (xs ++ p :: ys) ↔
      Sorted cmp xs ∧ Sorted cmp ys ∧ (∀ x ∈ xs, cmp x.1 p.1 < 0) ∧ (∀ y ∈ ys, cmp p.1 y.1 < 0) ∧
      (∀ x ∈ xs, ∀ y ∈ ys, cmp x.1 y.1 < 0) := by
  rw [sorted_append, sorted_cons]
  constructor
  · rintro ⟨h1, ⟨h2, h3⟩, h4⟩
    refine ⟨h1, h3, ?_, h2, ?_⟩
    · intro x hx; exact h4 x hx p (by simp)
    · intro x hx y hy; exact h4 x hx y (by simp [hy])
  · rintro ⟨h1, h2, h3, h4, h5⟩
    refine ⟨h1, ⟨h4, h2⟩, ?_⟩
    intro x hx y hy
    simp at hy
    rcases hy with rfl | hy
    · exact h3 x hx
    · exact h5 x hx y hy

/-! #### lookup -/
theorem lookup_nil (k : α) : lookup cmp k ([] : List (α × β)) = none := rfl

theorem lookup_none_of_ne {k : α} {s : List (α × β)} (h : ∀ p ∈ s, cmp k p.1 ≠ 0) : lookup cmp k s = none := by
  simp only [lookup, List.find?_eq_none]
  intro p hp
  simpa using h p hp

theorem lookup_append (k : α) (xs ys : List (α × β)) :
    lookup cmp k (xs ++ ys) = (lookup cmp k xs).or (lookup cmp k ys) := by
  simp [lookup, List.find?_append]

theorem lookup_cons (k : α) (p : α × β) (s : List (α × β)) :
    lookup cmp k (p :: s) = if cmp k p.1 = 0 then some p else lookup cmp k s := by
  by_cases h : cmp k p.1 = 0
  · simp [lookup, List.find?_cons, h]
  · have hb : (cmp k p.1 == 0) = false := by simp [h]
    simp [lookup, List.find?_cons, h, hb]

theorem lookup_some_mem {k : α} {s : List (α × β)} {p : α × β} (h : lookup cmp k s = some p) :
    p ∈ s ∧ cmp k p.1 = 0 := by
  have h1 := List.mem_of_find?_eq_some h
  have h2 := List.find?_some h
  exact ⟨h1, by simpa using h2⟩

/-- going left: everything from the pivot on is greater than `k` -/
theorem lookup_mid_lt (hc : LawfulCmp cmp) {k : α} {xs ys : List (α × β)} {p : α × β}
    (hs : Sorted cmp (xs ++ p :: ys)) (hk : cmp k p.1 < 0) :
    lookup cmp k (xs ++ p :: ys) = lookup cmp k xs := by
  obtain ⟨_, _, _, h4, _⟩ := sorted_mid.1 hs
  rw [lookup_append]
  have : lookup cmp k (p :: ys) = none := by
    apply lookup_none_of_ne
    intro q hq
    simp at hq
    rcases hq with rfl | hq
    · omega
    · have := hc.lt_trans hk (h4 q hq); omega
  rw [this]; simp

/-- going right: everything up to and including the pivot is smaller than `k` -/
theorem lookup_mid_gt (hc : LawfulCmp cmp) {k : α} {xs ys : List (α × β)} {p : α × β}
    (hs : Sorted cmp (xs ++ p :: ys)) (hk : 0 < cmp k p.1) :
    lookup cmp k (xs ++ p :: ys) = lookup cmp k ys := by
  obtain ⟨_, _, h3, _, _⟩ := sorted_mid.1 hs
  rw [lookup_append]
  have : lookup cmp k xs = none := by
    apply lookup_none_of_ne
    intro q hq
    have h1 := h3 q hq
    have h2 := hc.lt_trans h1 (hc.lt_of_gt hk)
    have := hc.gt_of_lt h2
    omega
  rw [this, lookup_cons]
  have : cmp k p.1 ≠ 0 := by omega
  simp [this]

theorem lookup_mid_eq (hc : LawfulCmp cmp) {k : α} {xs ys : List (α × β)} {p : α × β}
    (hs : Sorted cmp (xs ++ p :: ys)) (hk : cmp k p.1 = 0) :
    lookup cmp k (xs ++ p :: ys) = some p := by
  obtain ⟨_, _, h3, _, _⟩ := sorted_mid.1 hs
  rw [lookup_append]
  have : lookup cmp k xs = none := by
    apply lookup_none_of_ne
    intro q hq
    have h1 := h3 q hq
    have h2 := hc.lt_of_lt_of_eq h1 (hc.eq_symm hk)
    have := hc.gt_of_lt h2
    omega
  rw [this, lookup_cons]
  simp [hk]

/-! #### insert -/
theorem insert_append_lt {k : α} {v : β} {xs ys : List (α × β)} {p : α × β} (hk : cmp k p.1 < 0) :
    insert cmp k v (xs ++ p :: ys) = insert cmp k v xs ++ p :: ys := by
  induction xs with
  | nil => simp [insert, hk]
  | cons x xs ih =>
    by_cases hx : cmp k x.1 < 0
    · simp [insert, hx]
    · simp only [List.cons_append, insert, hx, if_false]
      rw [ih]

theorem insert_skip {k : α} {v : β} {xs ys : List (α × β)} (h : ∀ x ∈ xs, ¬ cmp k x.1 < 0) :
    insert cmp k v (xs ++ ys) = xs ++ insert cmp k v ys := by
  induction xs with
  | nil => rfl
  | cons x xs ih =>
    have hx := h x (by simp)
    simp only [List.cons_append, insert, hx, if_false]
    rw [ih (fun y hy => h y (by simp [hy]))]

theorem insert_mid_gt (hc : LawfulCmp cmp) {k : α} {v : β} {xs ys : List (α × β)} {p : α × β}
    (hs : Sorted cmp (xs ++ p :: ys)) (hk : 0 < cmp k p.1) :
    insert cmp k v (xs ++ p :: ys) = xs ++ p :: insert cmp k v ys := by
  obtain ⟨_, _, h3, _, _⟩ := sorted_mid.1 hs
  have : xs ++ p :: ys = (xs ++ [p]) ++ ys := by simp
  rw [this, insert_skip]
  · simp
  · intro x hx
    simp at hx
    rcases hx with hx | rfl
    · have h1 := h3 x hx
      have h2 := hc.lt_trans h1 (hc.lt_of_gt hk)
      have := hc.gt_of_lt h2
      omega
    · omega

theorem mem_insert {k : α} {v : β} {s : List (α × β)} {q : α × β} :
    q ∈ insert cmp k v s ↔ q = (k, v) ∨ q ∈ s := by
  induction s with
  | nil => simp [insert]
  | cons p s ih =>
    simp only [insert]
    split
    · simp
    · simp [ih]; constructor
      · rintro (h | h | h) <;> simp [h]
      · rintro (h | h | h) <;> simp [h]

theorem length_insert (k : α) (v : β) (s : List (α × β)) : (insert cmp k v s).length = s.length + 1 := by
  induction s with
  | nil => rfl
  | cons p s ih =>
    simp only [insert]
    split <;> simp [ih]

/-- inserting an absent key keeps the list strictly ascending -/
theorem sorted_insert (hc : LawfulCmp cmp) {k : α} {v : β} {s : List (α × β)}
    (hs : Sorted cmp s) (habs : lookup cmp k s = none) : Sorted cmp (insert cmp k v s) := by
  induction s with
  | nil => simp [insert, Sorted]
  | cons p s ih =>
    rw [lookup_cons] at habs
    have hne : cmp k p.1 ≠ 0 := by
      intro h; simp [h] at habs
    simp [hne] at habs
    obtain ⟨hp, hs'⟩ := sorted_cons.1 hs
    simp only [insert]
    split
    · rename_i hlt
      refine sorted_cons.2 ⟨?_, hs⟩
      intro q hq
      simp at hq
      rcases hq with rfl | hq
      · exact hlt
      · exact hc.lt_trans hlt (hp q hq)
    · rename_i hnlt
      refine sorted_cons.2 ⟨?_, ih hs' habs⟩
      intro q hq
      rcases mem_insert.1 hq with rfl | hq
      · have := hc.antisym p.1 k
        have := hc.antisym k p.1
        simp only
        omega
      · exact hp q hq

/-! #### which side of the pivot can hold a key equal to `k` -/
theorem left_ne (hc : LawfulCmp cmp) {k : α} {xs ys : List (α × β)} {p : α × β}
    (hs : Sorted cmp (xs ++ p :: ys)) (hk : 0 ≤ cmp k p.1) : ∀ q ∈ xs, cmp k q.1 ≠ 0 := by
  obtain ⟨_, _, h3, _, _⟩ := sorted_mid.1 hs
  intro q hq
  have h1 := h3 q hq
  by_cases h0 : cmp k p.1 = 0
  · have h2 := hc.lt_of_lt_of_eq h1 (hc.eq_symm h0)
    have := hc.gt_of_lt h2
    omega
  · have h2 := hc.lt_trans h1 (hc.lt_of_gt (by omega : 0 < cmp k p.1))
    have := hc.gt_of_lt h2
    omega

theorem right_ne (hc : LawfulCmp cmp) {k : α} {xs ys : List (α × β)} {p : α × β}
    (hs : Sorted cmp (xs ++ p :: ys)) (hk : cmp k p.1 ≤ 0) : ∀ q ∈ ys, cmp k q.1 ≠ 0 := by
  obtain ⟨_, _, _, h4, _⟩ := sorted_mid.1 hs
  intro q hq
  have h1 := h4 q hq
  by_cases h0 : cmp k p.1 = 0
  · have := hc.lt_of_eq_of_lt h0 h1
    omega
  · have := hc.lt_trans (by omega : cmp k p.1 < 0) h1
    omega

/-! #### erase -/
theorem erase_of_ne {k : α} {s : List (α × β)} (h : ∀ q ∈ s, cmp k q.1 ≠ 0) : erase cmp k s = s := by
  apply List.eraseP_of_forall_not
  intro q hq
  simpa using h q hq

theorem erase_mid_lt (hc : LawfulCmp cmp) {k : α} {xs ys : List (α × β)} {p : α × β}
    (hs : Sorted cmp (xs ++ p :: ys)) (hk : cmp k p.1 < 0) :
    erase cmp k (xs ++ p :: ys) = erase cmp k xs ++ p :: ys := by
  have hr := right_ne (k := k) hc hs (by omega)
  simp only [erase, List.eraseP_append]
  split
  · rfl
  · rename_i hany
    have hx : ∀ q ∈ xs, cmp k q.1 ≠ 0 := by
      intro q hq h0
      apply hany
      simp only [List.any_eq_true]
      exact ⟨q, hq, by simp [h0]⟩
    have e1 := erase_of_ne hx
    have e2 : erase cmp k (p :: ys) = p :: ys := by
      apply erase_of_ne
      intro q hq
      simp at hq
      rcases hq with rfl | hq
      · omega
      · exact hr q hq
    simp only [erase] at e1 e2
    rw [e1, e2]

theorem erase_mid_gt (hc : LawfulCmp cmp) {k : α} {xs ys : List (α × β)} {p : α × β}
    (hs : Sorted cmp (xs ++ p :: ys)) (hk : 0 < cmp k p.1) :
    erase cmp k (xs ++ p :: ys) = xs ++ p :: erase cmp k ys := by
  have hl := left_ne (k := k) hc hs (by omega)
  simp only [erase]
  rw [List.eraseP_append_right]
  · have : ¬ (cmp k p.1 = 0) := by omega
    simp [List.eraseP_cons, this]
  · intro q hq
    simpa using hl q hq

theorem erase_mid_eq (hc : LawfulCmp cmp) {k : α} {xs ys : List (α × β)} {p : α × β}
    (hs : Sorted cmp (xs ++ p :: ys)) (hk : cmp k p.1 = 0) :
    erase cmp k (xs ++ p :: ys) = xs ++ ys := by
  have hl := left_ne (k := k) hc hs (by omega)
  simp only [erase]
  rw [List.eraseP_append_right]
  · simp [List.eraseP_cons, hk]
  · intro q hq
    simpa using hl q hq

theorem sorted_erase {k : α} {s : List (α × β)} (hs : Sorted cmp s) : Sorted cmp (erase cmp k s) :=
  List.Pairwise.sublist List.eraseP_sublist hs

/-! #### update -/
theorem update_of_ne {k : α} {v : β} {s : List (α × β)} (h : ∀ q ∈ s, cmp k q.1 ≠ 0) : update cmp k v s = s := by
  simp only [update]
  conv => rhs; rw [← List.map_id s]
  apply List.map_congr_left
  intro q hq
  simp [h q hq]

theorem update_mid_lt (hc : LawfulCmp cmp) {k : α} {v : β} {xs ys : List (α × β)} {p : α × β}
    (hs : Sorted cmp (xs ++ p :: ys)) (hk : cmp k p.1 < 0) :
    update cmp k v (xs ++ p :: ys) = update cmp k v xs ++ p :: ys := by
  have hr := right_ne (k := k) hc hs (by omega)
  have e := update_of_ne (v := v) hr
  have : ¬ (cmp k p.1 = 0) := by omega
  simp only [update, beq_iff_eq] at e ⊢
  simp [this, e]

theorem update_mid_gt (hc : LawfulCmp cmp) {k : α} {v : β} {xs ys : List (α × β)} {p : α × β}
    (hs : Sorted cmp (xs ++ p :: ys)) (hk : 0 < cmp k p.1) :
    update cmp k v (xs ++ p :: ys) = xs ++ p :: update cmp k v ys := by
  have hl := left_ne (k := k) hc hs (by omega)
  have e := update_of_ne (v := v) hl
  have : ¬ (cmp k p.1 = 0) := by omega
  simp only [update, beq_iff_eq] at e ⊢
  simp [this, e]

theorem update_mid_eq (hc : LawfulCmp cmp) {k : α} {v : β} {xs ys : List (α × β)} {p : α × β}
    (hs : Sorted cmp (xs ++ p :: ys)) (hk : cmp k p.1 = 0) :
    update cmp k v (xs ++ p :: ys) = xs ++ (p.1, v) :: ys := by
  have hl := left_ne (k := k) hc hs (by omega)
  have hr := right_ne (k := k) hc hs (by omega)
  have e1 := update_of_ne (v := v) hl
  have e2 := update_of_ne (v := v) hr
  simp only [update, beq_iff_eq] at e1 e2 ⊢
  simp [hk, e1, e2]

theorem sorted_update {k : α} {v : β} {s : List (α × β)} (hs : Sorted cmp s) : Sorted cmp (update cmp k v s) := by
  simp only [Sorted, update, List.pairwise_map]
  apply List.Pairwise.imp _ hs
  intro a b hab
  by_cases h1 : cmp k a.1 = 0 <;> by_cases h2 : cmp k b.1 = 0 <;> simp [h1, h2, hab]

theorem length_update (k : α) (v : β) (s : List (α × β)) : (update cmp k v s).length = s.length := by
  simp [update]

theorem length_erase {k : α} {s : List (α × β)} {p : α × β} (h : lookup cmp k s = some p) :
    ((erase cmp k s).length : Int) = s.length - 1 := by
  obtain ⟨hm, hk⟩ := lookup_some_mem h
  have hany : s.any (fun p => cmp k p.1 == 0) = true := by
    simp only [List.any_eq_true]; exact ⟨p, hm, by simp [hk]⟩
  have hpos : 0 < s.length := List.length_pos_of_mem hm
  simp only [erase, List.length_eraseP, hany, if_true]
  omega

end SMap
end Ekit.RB
