/- Helper lemmas for C16: the quadratic predicate-taking variants. Core Lean only. -/
import Ekit.Lemmas.SlicesSet

namespace Ekit.Slices
variable {α : Type}

theorem containsFunc_eq_any (src : List α) (p : α → Bool) : containsFunc src p = src.any p := by
  induction src with
  | nil => rfl
  | cons v r ih =>
    unfold containsFunc
    cases h : p v <;> simp [h, ih]

theorem containsFunc_iff {src : List α} {p : α → Bool} :
    containsFunc src p = true ↔ ∃ x, x ∈ src ∧ p x = true := by
  rw [containsFunc_eq_any]; simp

theorem containsFunc_false_iff {src : List α} {p : α → Bool} :
    containsFunc src p = false ↔ ∀ x, x ∈ src → p x = false := by
  rw [containsFunc_eq_any]; simp

/-! ### deduplicateFunc -/

theorem dedup_sublist (l : List α) (eq : α → α → Bool) : (deduplicateFunc l eq).Sublist l := by
  induction l with
  | nil => exact List.Sublist.slnil
  | cons v r ih =>
    unfold deduplicateFunc
    split
    · exact List.Sublist.cons_cons v ih
    · exact List.Sublist.cons v ih

theorem dedup_subset {l : List α} {eq : α → α → Bool} {x : α} (h : x ∈ deduplicateFunc l eq) : x ∈ l :=
  (dedup_sublist l eq).subset h

/-- no surviving element is `equal` to an earlier surviving one (as `equal(later, earlier)`) -/
theorem dedup_pairwise (l : List α) (eq : α → α → Bool) :
    (deduplicateFunc l eq).Pairwise (fun a b => eq b a = false) := by
  induction l with
  | nil => exact List.Pairwise.nil
  | cons v r ih =>
    unfold deduplicateFunc
    split
    · rename_i h
      rw [List.pairwise_cons]
      refine ⟨?_, ih⟩
      intro b hb
      have h' : containsFunc r (fun src => eq src v) = false := by simpa using h
      exact (containsFunc_false_iff.mp h') b (dedup_subset hb)
    · exact ih

/-- under a reflexive transitive `equal`, every element has a surviving representative -/
theorem dedup_covers {l : List α} {eq : α → α → Bool} (hrefl : ∀ a, eq a a = true)
    (htrans : ∀ a b c, eq a b = true → eq b c = true → eq a c = true) {x : α} (hx : x ∈ l) :
    ∃ y, y ∈ deduplicateFunc l eq ∧ eq y x = true := by
  induction l generalizing x with
  | nil => cases hx
  | cons v r ih =>
    unfold deduplicateFunc
    cases hc : containsFunc r (fun src => eq src v) with
    | false =>
      simp only [Bool.not_false, if_true]
      rcases List.mem_cons.mp hx with h | h
      · subst h; exact ⟨x, List.mem_cons_self, hrefl x⟩
      · obtain ⟨y, hy, he⟩ := ih h
        exact ⟨y, List.mem_cons_of_mem _ hy, he⟩
    | true =>
      simp only [Bool.not_true, Bool.false_eq_true, if_false]
      rcases List.mem_cons.mp hx with h | h
      · subst h
        obtain ⟨s, hs, hes⟩ := containsFunc_iff.mp hc
        obtain ⟨y, hy, he⟩ := ih hs
        exact ⟨y, hy, htrans _ _ _ he hes⟩
      · exact ih h

/-- position form: element `k` survives iff nothing after position `k` is `equal` to it -/
theorem dedup_positions_aux (l : List α) (eq : α → α → Bool) (n : Nat) :
    deduplicateFunc l eq =
      ((l.zipIdx n).filter (fun x => !(l.drop (x.2 - n + 1)).any (fun s => eq s x.1))).map (·.1) := by
  induction l generalizing n with
  | nil => rfl
  | cons v r ih =>
    unfold deduplicateFunc
    rw [containsFunc_eq_any, List.zipIdx_cons, List.filter_cons]
    simp only [Nat.sub_self, Nat.zero_add, List.drop_succ_cons, List.drop_zero]
    have hrest : ((r.zipIdx (n + 1)).filter (fun x => !(r.drop (x.2 - n)).any (fun s => eq s x.1))) =
        ((r.zipIdx (n + 1)).filter (fun x => !(r.drop (x.2 - (n + 1) + 1)).any (fun s => eq s x.1))) := by
      apply List.filter_congr
      intro x hx
      have hge : n + 1 ≤ x.2 := List.le_snd_of_mem_zipIdx hx
      have : x.2 - n = x.2 - (n + 1) + 1 := by omega
      rw [this]
    cases h : r.any (fun s => eq s v) with
    | false => simp only [Bool.not_false, if_true, List.map_cons]; rw [hrest, ← ih (n + 1)]
    | true => simp only [Bool.not_true, Bool.false_eq_true, if_false]; rw [hrest, ← ih (n + 1)]
section Eq
variable [DecidableEq α]

/-- the equality function the comparable variants correspond to -/
abbrev beqFn : α → α → Bool := fun a b => decide (a = b)

theorem mem_dedup_beq {l : List α} {x : α} : x ∈ deduplicateFunc l beqFn ↔ x ∈ l := by
  constructor
  · exact dedup_subset
  · intro hx
    obtain ⟨y, hy, he⟩ := dedup_covers (eq := beqFn) (by simp) (by intro a b c; simp; intro h1 h2; exact h1.trans h2) hx
    have : y = x := by simpa using he
    subst this; exact hy

theorem nodup_dedup_beq (l : List α) : (deduplicateFunc l beqFn).Nodup := by
  have := dedup_pairwise l beqFn
  unfold List.Nodup
  refine List.Pairwise.imp ?_ this
  intro a b h e
  subst e
  simp at h

end Eq

/-! ### the four set functions: the list handed to deduplicateFunc is the specification's "want" list -/

theorem unionSetFunc_eq (src dst : List α) (eq : α → α → Bool) :
    unionSetFunc src dst eq = deduplicateFunc (Spec.unionWant src dst) eq := rfl

theorem intersectSetFunc_eq (src dst : List α) (eq : α → α → Bool) :
    intersectSetFunc src dst eq = deduplicateFunc (Spec.interWant src dst eq) eq := by
  unfold intersectSetFunc Spec.interWant
  congr 1
  apply List.filter_congr
  intro v _
  rw [containsFunc_eq_any]

theorem diffSetFunc_eq (src dst : List α) (eq : α → α → Bool) :
    diffSetFunc src dst eq = deduplicateFunc (Spec.diffWant src dst eq) eq := by
  unfold diffSetFunc Spec.diffWant
  congr 1
  apply List.filter_congr
  intro v _
  rw [containsFunc_eq_any]

theorem symDiffSetFunc_eq (src dst : List α) (eq : α → α → Bool) :
    symDiffSetFunc src dst eq = deduplicateFunc (Spec.symWant src dst eq) eq := by
  unfold symDiffSetFunc Spec.symWant
  congr 2
  · apply List.filter_congr
    intro v _
    rw [containsFunc_eq_any]
  · apply List.filter_congr
    intro v _
    rw [containsFunc_eq_any]

/-- deduplication of `want` meets the representative specification, for any reflexive transitive `equal` -/
theorem dedup_isRepsOf [DecidableEq α] {want pool : List α} {eq : α → α → Bool}
    (hpool : ∀ x, x ∈ want → x ∈ pool) (hrefl : ∀ a, eq a a = true)
    (htrans : ∀ a b c, eq a b = true → eq b c = true → eq a c = true) :
    Spec.isRepsOf (deduplicateFunc want eq) pool want eq = true := by
  unfold Spec.isRepsOf
  simp only [Bool.and_eq_true, List.all_eq_true, List.any_eq_true, decide_eq_true_eq]
  refine ⟨⟨?_, dedup_pairwise want eq⟩, ?_⟩
  · intro y hy
    exact ⟨hpool y (dedup_subset hy), y, dedup_subset hy, hrefl y⟩
  · intro x hx
    exact dedup_covers hrefl htrans hx

/-! ### ContainsAnyFunc / ContainsAllFunc -/

theorem containsAnyFunc_inner_eq (src : List α) (d : α) (eq : α → α → Bool) :
    containsAnyFunc.inner eq src d = src.any (fun s => eq s d) := by
  induction src with
  | nil => rfl
  | cons v r ih =>
    unfold containsAnyFunc.inner
    cases h : eq v d <;> simp [h, ih]

theorem containsAnyFunc_eq (src dst : List α) (eq : α → α → Bool) :
    containsAnyFunc src dst eq = Spec.containsAny src dst eq := by
  unfold Spec.containsAny
  induction dst with
  | nil => rfl
  | cons d r ih =>
    unfold containsAnyFunc
    rw [containsAnyFunc_inner_eq]
    cases h : src.any (fun s => eq s d) <;> simp [h, ih]

theorem containsAllFunc_eq (src dst : List α) (eq : α → α → Bool) :
    containsAllFunc src dst eq = Spec.containsAll src dst eq := by
  unfold Spec.containsAll
  induction dst with
  | nil => rfl
  | cons d r ih =>
    unfold containsAllFunc
    rw [containsFunc_eq_any]
    cases h : src.any (fun s => eq s d) <;> simp [h, ih]

end Ekit.Slices
