/-
What the regenerated accessor table must say for the C17 theorems to hold (`Table.sound`, a decidable
check that `Ekit/Props/C17.lean` evaluates on the table regenerated from value.go), and what follows
from it for *every* row, held value, string and oracle.
-/
import Ekit.Lemmas.ValueFormat

namespace Ekit.Value
open Ekit.Go Spec

/-! ### the decidable soundness check -/

/-- `case string:` of a row returning `ret`: base 10, the parse function of the right signedness,
**bit size = width of the conversion target** (`row.bitSize = row.castWidth`), conversion to `ret`. -/
def StrCase.soundFor (ret : GoT) (sc : StrCase) : Bool :=
  match sc.conv, ret with
  | .parseInt base bits, .i t =>
    base == 10 && t.signed && bits == t.bits && (sc.cast == some ret || (sc.cast == none && t == .int64))
  | .parseUint base bits, .i t =>
    base == 10 && !t.signed && bits == t.bits && (sc.cast == some ret || (sc.cast == none && t == .uint64))
  | .parseFloat bits, .float32 => bits == 32 && sc.cast == some .float32
  | .parseFloat bits, .float64 => bits == 64 && (sc.cast == none || sc.cast == some .float64)
  | .toBytes, .bytes => sc.cast == none
  | _, _ => false

def Row.sound (r : Row) : Bool :=
  r.errGuard && r.commaOk && r.unknown.isEmpty && r.exact == r.ret &&
  (match r.str with
   | none => strictTarget r.name == some r.ret
   | some sc => strictTarget r.name == none && asTarget r.name == some r.ret && r.name != "AsString" &&
                r.ret != .string && sc.soundFor r.ret)

def DefRow.sound (tbl : Table) (d : DefRow) : Bool :=
  d.unknown.isEmpty && defTarget d.name == some d.ret && d.via != "AsString" &&
  (match tbl.rows.find? (·.name = d.via) with
   | some r => r.str.isNone && r.ret == d.ret && r.sound
   | none => false)

def AsStringInfo.armFor (i : AsStringInfo) (k : Kind) : Arm := (i.arms.lookup k).getD i.dflt

def floatArmOK : Arm → Bool
  | .fmtFloat _ _ _ => true
  | .err => true
  | _ => false

def AsStringInfo.sound (i : AsStringInfo) : Bool :=
  i.errGuard && i.tag == .valueKind && i.unknown.isEmpty &&
  IntT.all.all (fun t => i.armFor (.int t) == (if t.signed then Arm.fmtInt 10 else Arm.fmtUint 10)) &&
  i.armFor .string == .str && (i.armFor .slice == .bytesIfU8 || i.armFor .slice == .err) &&
  floatArmOK (i.armFor .float32) && floatArmOK (i.armFor .float64) &&
  i.armFor .invalid == .err && i.armFor .bool == .err && i.armFor .uintptr == .err && i.armFor .other == .err

def JSONScanInfo.sound (tbl : Table) (j : JSONScanInfo) : Bool :=
  j.unknown.isEmpty && j.propagatesErr && j.via == "AsBytes" &&
  (match tbl.rows.find? (·.name = "AsBytes") with
   | some r => r.sound && r.ret == .bytes
   | none => false)

def Table.sound (tbl : Table) : Bool :=
  tbl.unclassified.isEmpty && tbl.rows.all Row.sound && tbl.defs.all (DefRow.sound tbl) &&
  tbl.asString.sound && tbl.jsonScan.sound tbl

/-! ### consequences for one row -/

theorem Row.sound_elim {r : Row} (h : r.sound = true) :
    r.errGuard = true ∧ r.commaOk = true ∧ r.exact = r.ret ∧
    ((r.str = none ∧ strictTarget r.name = some r.ret) ∨
     (∃ sc, r.str = some sc ∧ strictTarget r.name = none ∧ asTarget r.name = some r.ret ∧
        r.name ≠ "AsString" ∧ r.ret ≠ .string ∧ sc.soundFor r.ret = true)) := by
  unfold Row.sound at h
  simp only [Bool.and_eq_true, beq_iff_eq] at h
  obtain ⟨⟨⟨⟨h1, h2⟩, _⟩, h4⟩, h5⟩ := h
  refine ⟨h1, h2, h4, ?_⟩
  cases hs : r.str with
  | none => rw [hs] at h5; simp at h5; exact Or.inl ⟨rfl, h5⟩
  | some sc =>
    rw [hs] at h5
    simp only [Bool.and_eq_true, beq_iff_eq, bne_iff_ne] at h5
    obtain ⟨⟨⟨⟨a, b⟩, c⟩, d⟩, e⟩ := h5
    exact Or.inr ⟨sc, rfl, a, b, c, d, e⟩

theorem runRow_stored (o : Oracle) {r : Row} (h : r.sound = true) (h' : Held) (e : Err) :
    runRow o r ⟨h', some e⟩ = .err e := by
  obtain ⟨hg, _⟩ := Row.sound_elim h
  simp [runRow, hg]

theorem runRow_exact (o : Oracle) {r : Row} (h : r.sound = true) (h' : Held) (v : Val)
    (ht : typeAssert r.ret h' = some v) : runRow o r ⟨h', none⟩ = .ok v := by
  obtain ⟨hg, _, hx, _⟩ := Row.sound_elim h
  simp [runRow, hg, hx, ht]

theorem typeAssert_string {h : Held} {v : Val} (ht : typeAssert .string h = some v) :
    ∃ s, h = .str false s ∧ v = .str s := by
  cases h with
  | str named s =>
    cases named
    · simp [typeAssert] at ht; exact ⟨s, rfl, ht.symm⟩
    · simp [typeAssert] at ht
  | int t named v' => cases named <;> simp [typeAssert] at ht
  | float is64 named b => cases named <;> cases is64 <;> simp [typeAssert] at ht
  | bytes named b => cases named <;> simp [typeAssert] at ht
  | bool named b => cases named <;> simp [typeAssert] at ht
  | nil => simp [typeAssert] at ht
  | slice => simp [typeAssert] at ht
  | other => simp [typeAssert] at ht

theorem runRow_strict_err (o : Oracle) {r : Row} (h : r.sound = true) (hs : r.str = none) (h' : Held)
    (ht : typeAssert r.ret h' = none) : runRow o r ⟨h', none⟩ = .err errType := by
  obtain ⟨hg, hc, hx, _⟩ := Row.sound_elim h
  simp [runRow, hg, hx, ht, hs, hc]

theorem runStr_nopanic (o : Oracle) (sc : StrCase) (s : Str) : (runStr o sc s).isPanic = false := by
  unfold runStr
  split
  · split <;> rfl
  · split <;> rfl
  · split <;> rfl
  · rfl

theorem runRow_nopanic (o : Oracle) {r : Row} (h : r.sound = true) (av : AnyValue) :
    (runRow o r av).isPanic = false := by
  obtain ⟨hg, hc, hx, _⟩ := Row.sound_elim h
  unfold runRow
  split
  · rfl
  · split
    · rfl
    · split
      · exact runStr_nopanic _ _ _
      · simp [hc, Outcome.isPanic]


theorem IntT.bits_range (t : IntT) : 2 ≤ t.bits ∧ t.bits ≤ 64 := by cases t <;> decide

theorem castInt_sound {t : IntT} {cast : Option GoT} (hc : cast = some (.i t) ∨ cast = none) (v : Int)
    (hf : t.fits v) : castInt cast v = v := by
  rcases hc with hc | hc <;> subst hc
  · simp [castInt, wrap_of_fits t v hf]
  · simp [castInt]

theorem fitsU_nat (bits n : Nat) : fitsU bits (n : Int) ↔ n < 2 ^ bits := by
  unfold fitsU
  constructor
  · intro ⟨_, h⟩; exact_mod_cast h
  · intro h; exact ⟨by omega, by exact_mod_cast h⟩

/-- **asIntN_exact**, row level: a sound `case string` of an integer accessor returns `v` iff the string is a
decimal numeral (in strconv's grammar for the target's signedness) denoting `v` and `v` fits the target;
otherwise it returns an error. -/
theorem runStr_int (o : Oracle) {sc : StrCase} {t : IntT} (hs : sc.soundFor (.i t) = true) (s : Str) :
    (∃ v, denote t.signed s = some v ∧ t.fits v ∧ runStr o sc s = .ok (.int v)) ∨
    ((¬ ∃ v, denote t.signed s = some v ∧ t.fits v) ∧ ∃ e, runStr o sc s = .err e) := by
  obtain ⟨hb2, hb64⟩ := IntT.bits_range t
  unfold StrCase.soundFor at hs
  cases hconv : sc.conv with
  | parseInt base bits =>
    simp only [hconv, Bool.and_eq_true, beq_iff_eq, Bool.or_eq_true] at hs
    obtain ⟨⟨⟨hbase, hsg⟩, hbits⟩, hcast⟩ := hs
    subst hbase hbits
    have hcast' : sc.cast = some (.i t) ∨ sc.cast = none := by
      rcases hcast with h | h
      · exact Or.inl h
      · exact Or.inr h.1
    unfold runStr
    simp only [hconv, denote, hsg, if_true, IntT.fits]
    rcases hp : parseInt s 10 t.bits with ⟨n, e⟩
    cases e with
    | none =>
      have := (parseInt_exact s t.bits n hb2 hb64).mp hp
      left
      refine ⟨n, this.1, this.2, ?_⟩
      simp only
      rw [castInt_sound hcast' n (by simp [IntT.fits, hsg, this.2])]
    | some e =>
      right
      refine ⟨?_, e.toErr, rfl⟩
      intro ⟨v, hd, hf⟩
      have := (parseInt_exact s t.bits v hb2 hb64).mpr ⟨hd, hf⟩
      rw [hp] at this; simp at this
  | parseUint base bits =>
    simp only [hconv, Bool.and_eq_true, beq_iff_eq, Bool.or_eq_true, Bool.not_eq_true'] at hs
    obtain ⟨⟨⟨hbase, hsg⟩, hbits⟩, hcast⟩ := hs
    subst hbase hbits
    have hcast' : sc.cast = some (.i t) ∨ sc.cast = none := by
      rcases hcast with h | h
      · exact Or.inl h
      · exact Or.inr h.1
    unfold runStr
    simp only [hconv, denote, hsg, IntT.fits]
    rcases hp : parseUint s 10 t.bits with ⟨n, e⟩
    cases e with
    | none =>
      have := (parseUint_exact s t.bits n (by omega) hb64).mp hp
      left
      refine ⟨(n : Int), by simp [this.1], by simpa [fitsU_nat] using this.2, ?_⟩
      simp only
      rw [castInt_sound hcast' n (by simp [IntT.fits, hsg, fitsU_nat, this.2])]
    | some e =>
      right
      refine ⟨?_, e.toErr, rfl⟩
      intro ⟨v, hd, hf⟩
      cases hu : denoteU s with
      | none => simp [hu] at hd
      | some u =>
        simp [hu] at hd
        subst hd
        have := (parseUint_exact s t.bits u (by omega) hb64).mpr ⟨hu, by simpa [fitsU_nat] using hf⟩
        rw [hp] at this; simp at this
  | parseFloat bits => simp [hconv] at hs
  | toBytes => simp [hconv] at hs



/-! ### acceptance by the specification -/

theorem accepts_exactly (v : Val) : (exactly v).accepts (.ok v) = true := by
  simp [exactly, Verdict.accepts]

theorem accepts_anyErr {vd : Verdict} (h : vd.anyErr = true) (e : Err) : vd.accepts (.err e) = true := by
  simp [Verdict.accepts, h, Outcome.isErr]

theorem accepts_exactlyUnless (b : Bool) (v : Val) : (exactlyUnless b v).accepts (.ok v) = true := by
  cases b <;> simp [exactlyUnless, exactly, either, Verdict.accepts]

theorem accepts_either (v : Val) : (either v).accepts (.ok v) = true := by
  simp [either, Verdict.accepts]

theorem exactlyUnless_true_anyErr (v : Val) : (exactlyUnless true v).anyErr = true := rfl

theorem judgeIntOfStr_anyErr_named (t : IntT) (s : Str) : (judgeIntOfStr t true s).anyErr = true := by
  unfold judgeIntOfStr
  split
  · split <;> rfl
  · split
    · split <;> rfl
    · rfl

theorem judgeIntOfStr_accepts (o : Oracle) {sc : StrCase} {t : IntT} (hs : sc.soundFor (.i t) = true) (s : Str) :
    (judgeIntOfStr t false s).accepts (runStr o sc s) = true := by
  rcases runStr_int o hs s with ⟨v, hd, hf, hr⟩ | ⟨hno, e, hr⟩
  · rw [hr]; unfold judgeIntOfStr
    simp only [hd, hf, if_true]
    exact accepts_exactlyUnless _ _
  · rw [hr]
    apply accepts_anyErr
    unfold judgeIntOfStr
    split
    · rename_i v hd
      split
      · rename_i hf; exact absurd ⟨v, hd, hf⟩ hno
      · rfl
    · split
      · split <;> rfl
      · rfl

theorem judgeAs_anyErr (o : Oracle) (t : GoT) (h : Held) (ht : typeAssert t h = none)
    (hns : ∀ s, h ≠ .str false s) (hts : t ≠ .string) : (judgeAs o t h).anyErr = true := by
  unfold judgeAs
  rw [ht]
  simp only
  split <;> try rfl
  · rename_i named s
    cases named
    · exact absurd rfl (hns s)
    · exact judgeIntOfStr_anyErr_named _ _
  · split <;> rfl
  · rename_i named s
    cases named
    · exact absurd rfl (hns s)
    · split <;> rfl
  · rename_i named s
    cases named
    · exact absurd rfl (hns s)
    · split <;> rfl
  · rename_i named s
    cases named
    · exact absurd rfl (hns s)
    · rfl
  all_goals (first | exact absurd rfl hts | skip)

end Ekit.Value
