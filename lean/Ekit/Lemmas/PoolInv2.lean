/- Layers P (never dead under the partial-liveness hypothesis) and F (fixed-size pools) in every reachable state. -/
import Ekit.Lemmas.PoolP2
import Ekit.Lemmas.PoolF
import Ekit.Lemmas.PoolN
import Ekit.Lemmas.PoolK
namespace Ekit.Pool
open Ekit.Conc

theorem reach_invP (c : Cfg) (hv : c.initGo ≤ c.maxGo) : ∀ s, (sys c).Reachable s → LP.Inv s := by
  intro s hr
  induction hr with
  | init => exact invP_init
  | step hr0 hs ih =>
    rename_i s0 s1 l
    have hall := reach_invAll c hv s0 hr0
    cases l with
    | w i a => exact invP_wstep c s0 s1 i a hall.a hall.c hall.g ih hs
    | c t a => exact invP_cstep c s0 s1 t a hall.a hall.c ih hs

theorem reach_invF (c : Cfg) (hv : c.Valid) (hfix : c.initGo = c.maxGo) : ∀ s, (sys c).Reachable s → LF.Inv s := by
  intro s hr
  induction hr with
  | init => exact invF_init
  | step hr0 hs ih =>
    rename_i s0 s1 l
    have hall := reach_invAll c (Nat.le_trans hv.init_core hv.core_max) s0 hr0
    cases l with
    | w i a => exact invF_wstep c hfix hv.init_core s0 s1 i a hall.b hall.c ih hs
    | c t a => exact invF_cstep c s0 s1 t a ih hs

theorem reach_invN (c : Cfg) (hv : c.initGo ≤ c.maxGo) : ∀ s, (sys c).Reachable s → LN.Inv s := by
  intro s hr
  induction hr with
  | init => exact invN_init
  | step hr0 hs ih =>
    rename_i s0 s1 l
    have hall := reach_invAll c hv s0 hr0
    cases l with
    | w i a => exact invN_wstep c s0 s1 i a ih hs
    | c t a => exact invN_cstep c s0 s1 t a hall.a ih hs

theorem reach_invK (c : Cfg) (hv : c.initGo ≤ c.maxGo) : ∀ s, (sys c).Reachable s → (LK c).Inv s := by
  intro s hr
  induction hr with
  | init => exact invK_init c
  | step hr0 hs ih =>
    rename_i s0 s1 l
    have hall := reach_invAll c hv s0 hr0
    cases l with
    | w i a => exact invK_wstep c s0 s1 i a hall.a hall.b hall.g ih hs
    | c t a => exact invK_cstep c s0 s1 t a hall.b ih hs

end Ekit.Pool
