/-
Enabledness facts about the array blocking queue model (C09 share): the holder of the write lock is
always inside the critical section (so its next step is enabled), steps inside critical sections
never block, and a variant that every step of a call decreases.
-/
import Ekit.Lemmas.ArrayBQData
namespace Ekit.ArrayBQ
open Ekit.Conc Ekit.BQ

/-- the recorded holder of the write lock is a thread inside the critical section -/
def Inv3 (s : State) : Prop := ∀ w, s.writer = some w → inW (s.pc w) = true

theorem inv3_init (cap : Nat) : Inv3 (init cap) := by intro w hw; simp [init] at hw

theorem inv3_step {cap : Nat} (hcap : 1 ≤ cap) {s s' : State} {l : Label} (h : Inv cap s) (h3 : Inv3 s)
    (hs : step s l = some s') : Inv3 s' := by
  cases l with
  | tau t =>
    simp only [step] at hs
    split at hs
    · simp at hs
    · have hnp := (inv_tau hcap h hs).noPanic
      unfold tauStep at hs
      cases hp : s.pc t <;> simp only [hp] at hs
      all_goals (try split at hs)
      all_goals (try split at hs)
      all_goals (try (simp at hs; done))
      all_goals (injection hs with hs; subst hs)
      all_goals (try (simp [panic] at hnp; done))
      all_goals (
        intro w hw
        simp only [fpAdd, setPc] at hw ⊢
        by_cases hwt : w = t
        · subst hwt
          first
            | (simp [inW]; done)
            | (have := h3 w hw; simp [hp, inW] at this)
            | (simp at hw)
        · first
            | (simp only [upd, hwt, if_false]; exact h3 w hw)
            | (simp at hw; exact absurd hw.symm hwt)
            | (simp at hw))
  | ctxEnd t =>
    simp only [step] at hs
    split at hs
    · injection hs with hs; subst hs; exact h3
    · simp at hs
  | ctxArm t =>
    simp only [step] at hs
    cases hp : s.pc t <;> simp only [hp] at hs <;> try (simp at hs; done)
    all_goals (split at hs <;> try (simp at hs; done))
    all_goals (injection hs with hs; subst hs)
    all_goals (
      intro w hw
      simp only [setPc] at hw ⊢
      by_cases hwt : w = t
      · subst hwt; have := h3 w hw; simp [hp, inW] at this
      · simp only [upd, hwt, if_false]; exact h3 w hw)
  | inv t op =>
    simp only [step] at hs
    split at hs
    · rename_i hidle
      injection hs with hs; subst hs
      intro w hw
      by_cases hwt : w = t
      · subst hwt; have := h3 w hw; simp [hidle, inW] at this
      · simp only [upd, hwt, if_false]; exact h3 w hw
    · simp at hs
  | res t r =>
    simp only [step] at hs
    split at hs
    · rename_i hret
      injection hs with hs; subst hs
      intro w hw
      by_cases hwt : w = t
      · subst hwt; have := h3 w hw; simp [hret, inW] at this
      · simp only [upd, hwt, if_false]; exact h3 w hw
    · simp at hs

theorem inv123_reachable {cap : Nat} (hcap : 1 ≤ cap) (s : State) (hr : (sys cap).Reachable s) :
    Inv cap s ∧ Inv2 s ∧ Inv3 s :=
  System.invariant_induction (sys cap).toSystem (fun s => Inv cap s ∧ Inv2 s ∧ Inv3 s)
    ⟨inv_init cap hcap, inv2_init cap, inv3_init cap⟩
    (fun _ _ _ h hs => ⟨inv_step hcap h.1 hs, inv2_step hcap h.1 h.2.1 hs, inv3_step hcap h.1 h.2.2 hs⟩) s hr

/-- steps inside the write lock's critical section never block -/
theorem tau_enabled_inW (s : State) (t : Nat) (h : inW (s.pc t) = true) : (tauStep s t).isSome = true := by
  unfold tauStep
  cases hp : s.pc t <;> simp [hp, inW] at h ⊢ <;> (repeat' split) <;> simp

/-- steps while holding the read lock never block -/
theorem tau_enabled_reader (s : State) (t : Nat) (h : wR (s.pc t) = 1) : (tauStep s t).isSome = true := by
  unfold tauStep
  cases hp : s.pc t <;> simp [hp, wR] at h ⊢ <;> (repeat' split) <;> simp

/-- `u` holds something `t` is waiting for: a permit of the semaphore `t` is acquiring, or the lock -/
def waitsFor (s : State) (t u : Nat) : Prop :=
  match s.pc t with
  | .eAcq _ => wE (s.pc u) = 1
  | .dAcq => wD (s.pc u) = 1
  | .eLock _ | .dLock => s.writer = some u ∨ wR (s.pc u) = 1
  | .lRLock | .aRLock => s.writer = some u
  | _ => False

/-- thread `u`'s next action is enabled -/
def tauEn (s : State) (u : Nat) : Prop := (step s (.tau u)).isSome = true

theorem tauEn_of {s : State} {u : Nat} (hnp : s.panicked = false) (h : (tauStep s u).isSome = true) : tauEn s u := by
  simp [tauEn, step, hnp, h]

/-- the specification enables the pending call of `t` (only `Acquire` waits for a spec condition) -/
def specEnables (s : State) (t : Nat) : Prop :=
  match s.pc t with
  | .eAcq _ => (contents s).length < s.size        -- the queue is not full
  | .dAcq => 0 < (contents s).length                -- the queue is not empty
  | _ => True

theorem wE_le_one (p : Pc) : wE p ≤ 1 := by cases p <;> simp [wE]
theorem wD_le_one (p : Pc) : wD p ≤ 1 := by cases p <;> simp [wD]
theorem wR_le_one (p : Pc) : wR p ≤ 1 := by cases p <;> simp [wR]

/-- whoever wants the write lock can take it, or the holder (writer or a reader) can move -/
theorem lock_wait {cap : Nat} {s : State} (h : Inv cap s) (h3 : Inv3 s) (u : Nat)
    (hu : (∃ v, s.pc u = .eLock v) ∨ s.pc u = .dLock) :
    tauEn s u ∨ ∃ w, (s.writer = some w ∨ wR (s.pc w) = 1) ∧ tauEn s w := by
  cases hw : s.writer with
  | some w => exact Or.inr ⟨w, Or.inl rfl, tauEn_of h.noPanic (tau_enabled_inW s w (h3 w hw))⟩
  | none =>
    by_cases hr : s.readers = 0
    · left
      apply tauEn_of h.noPanic
      unfold tauStep
      rcases hu with ⟨v, hv⟩ | hv <;> simp [hv, hw, hr]
    · right
      have : 0 < wsum wR s.pc s.live := by have := h.rd; omega
      obtain ⟨w, _, hwr⟩ := exists_of_wsum_pos wR s.pc this
      have h1 : wR (s.pc w) = 1 := by have := wR_le_one (s.pc w); omega
      exact ⟨w, Or.inr h1, tauEn_of h.noPanic (tau_enabled_reader s w h1)⟩

/-- **no stuck call**: in every reachable state, for every call in flight that the specification
    enables, the call's own next action is enabled, or a thread it waits for (holder of the permit or
    of the lock) can move — possibly itself waiting only for the lock, whose holder can move. -/
theorem enabled_when_possible {cap : Nat} (hcap : 1 ≤ cap) (s : State) (hr : (sys cap).Reachable s)
    (t : Nat) (hidle : s.pc t ≠ .idle) (hret : ∀ r, s.pc t ≠ .ret r) (hspec : specEnables s t) :
    tauEn s t ∨ ∃ u, waitsFor s t u ∧ (tauEn s u ∨ ∃ w, waitsFor s u w ∧ tauEn s w) := by
  obtain ⟨h, _, h3⟩ := inv123_reachable hcap s hr
  have hE := h.permE; have hD := h.permD; have hc0 := h.count_nonneg
  have holder : ∀ u, (wE (s.pc u) = 1 ∨ wD (s.pc u) = 1) → tauEn s u ∨ ∃ w, waitsFor s u w ∧ tauEn s w := by
    intro u hu
    by_cases hlock : (∃ v, s.pc u = .eLock v) ∨ s.pc u = .dLock
    · cases lock_wait h h3 u hlock with
      | inl he => exact Or.inl he
      | inr he =>
        obtain ⟨w, hw, hen⟩ := he
        refine Or.inr ⟨w, ?_, hen⟩
        rcases hlock with ⟨v, hv⟩ | hv <;> simp [waitsFor, hv, hw]
    · left
      apply tauEn_of h.noPanic
      apply tau_enabled_inW
      cases hp : s.pc u <;> simp [hp, wE, wD] at hu hlock ⊢ <;> simp [inW]
  cases hp : s.pc t with
  | idle => exact absurd hp hidle
  | ret r => exact absurd hp (hret r)
  | eAcq v =>
    by_cases hf : 0 < s.enqFree
    · left; apply tauEn_of h.noPanic; unfold tauStep; simp [hp, hf]
    · right
      simp only [specEnables, hp, contents_length, h.size_eq] at hspec
      have : 0 < wsum wE s.pc s.live := by omega
      obtain ⟨u, _, hu⟩ := exists_of_wsum_pos wE s.pc this
      have h1 : wE (s.pc u) = 1 := by have := wE_le_one (s.pc u); omega
      exact ⟨u, by simp [waitsFor, hp, h1], holder u (Or.inl h1)⟩
  | dAcq =>
    by_cases hf : 0 < s.deqFree
    · left; apply tauEn_of h.noPanic; unfold tauStep; simp [hp, hf]
    · right
      simp only [specEnables, hp, contents_length] at hspec
      have : 0 < wsum wD s.pc s.live := by omega
      obtain ⟨u, _, hu⟩ := exists_of_wsum_pos wD s.pc this
      have h1 : wD (s.pc u) = 1 := by have := wD_le_one (s.pc u); omega
      exact ⟨u, by simp [waitsFor, hp, h1], holder u (Or.inr h1)⟩
  | eLock v =>
    cases lock_wait h h3 t (Or.inl ⟨v, hp⟩) with
    | inl he => exact Or.inl he
    | inr he => obtain ⟨w, hw, hen⟩ := he; exact Or.inr ⟨w, by simp [waitsFor, hp, hw], Or.inl hen⟩
  | dLock =>
    cases lock_wait h h3 t (Or.inr hp) with
    | inl he => exact Or.inl he
    | inr he => obtain ⟨w, hw, hen⟩ := he; exact Or.inr ⟨w, by simp [waitsFor, hp, hw], Or.inl hen⟩
  | lRLock =>
    cases hw : s.writer with
    | none => left; apply tauEn_of h.noPanic; unfold tauStep; simp [hp, hw]
    | some w => exact Or.inr ⟨w, by simp [waitsFor, hp, hw], Or.inl (tauEn_of h.noPanic (tau_enabled_inW s w (h3 w hw)))⟩
  | aRLock =>
    cases hw : s.writer with
    | none => left; apply tauEn_of h.noPanic; unfold tauStep; simp [hp, hw]
    | some w => exact Or.inr ⟨w, by simp [waitsFor, hp, hw], Or.inl (tauEn_of h.noPanic (tau_enabled_inW s w (h3 w hw)))⟩
  | lRead | aMake | aLoop _ _ | runlock _ =>
    left; exact tauEn_of h.noPanic (tau_enabled_reader s t (by simp [hp, wR]))
  | eChk _ | eRelBack | eStore _ | eAdv _ | eRel | dChk | dRelBack | dRead | dAdv _ | dRel _ | unlock _ =>
    left; exact tauEn_of h.noPanic (tau_enabled_inW s t (by simp [hp, inW]))

/-- a variant: the number of own actions a call still has to perform, at most -/
def rank (s : State) (t : Nat) : Nat :=
  match s.pc t with
  | .idle => 0
  | .ret _ => 1
  | .unlock _ | .runlock _ => 2
  | .eRelBack | .eRel | .dRelBack | .dRel _ | .lRead => 3
  | .eAdv _ | .dAdv _ | .lRLock => 4
  | .eStore _ | .dRead => 5
  | .eChk _ | .dChk => 6
  | .eLock _ | .dLock => 7
  | .eAcq _ | .dAcq => 8
  | .aLoop cnt _ => 3 + (s.count - cnt).toNat
  | .aMake => 4 + s.count.toNat
  | .aRLock => 5 + s.count.toNat

/-- every action of a call (including the `ctx.Done` exit of `Acquire`) strictly decreases the
    variant of its thread: a call returns after at most `8 + cap` own actions. -/
theorem rank_decreases {s s' : State} {t : Nat} (hnp : s'.panicked = false)
    (hs : step s (.tau t) = some s' ∨ step s (.ctxArm t) = some s') : rank s' t < rank s t := by
  cases hs with
  | inl hs =>
    simp only [step] at hs
    split at hs
    · simp at hs
    · unfold tauStep at hs
      cases hp : s.pc t <;> simp only [hp] at hs
      all_goals (try split at hs)
      all_goals (try split at hs)
      all_goals (try (simp at hs; done))
      all_goals (injection hs with hs; subst hs)
      all_goals (try (simp_all [panic]; done))
      all_goals (simp [rank, setPc, fpAdd, hp])
      all_goals (try omega)
  | inr hs =>
    simp only [step] at hs
    cases hp : s.pc t <;> simp only [hp] at hs <;> try (simp at hs; done)
    all_goals (split at hs <;> try (simp at hs; done))
    all_goals (injection hs with hs; subst hs)
    all_goals (simp [rank, setPc, hp])

end Ekit.ArrayBQ
