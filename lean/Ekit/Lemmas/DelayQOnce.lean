/-
Invariants of the DelayQueue transition system, part 3: exactly-once accounting.
-/
import Ekit.Lemmas.DelayQSafety

namespace Ekit.DelayQ
open Ekit.Conc

/-- the element an Enqueue call still has to insert -/
def Pc.carries : Pc → Option Elem
  | .eTop x | .eLock x | .eCrit x | .eWait x _ | .sFetch (.enqWait x) | .sUnlock _ (.enqWait x) => some x
  | _ => none

structure OnceInv (s : State) : Prop where
  perm : (s.q ++ s.deqd).Perm s.enqd
  nodup : s.enqd.Nodup
  sub : ∀ x ∈ s.enqd, x ∈ s.issued
  carry : ∀ t x, (s.pc t).carries = some x → x ∈ s.issued ∧ x ∉ s.enqd
  distinct : ∀ t u x, t ≠ u → (s.pc t).carries = some x → (s.pc u).carries ≠ some x

theorem onceInv_init : OnceInv init := by
  constructor <;> simp [init, Pc.carries]

theorem onceInv_step (P : Params) (s : State) (l : Label) (s' : State)
    (hi : OnceInv s) (h : step P s l = some s') : OnceInv s' := by
  obtain ⟨p1, p2, p3, p4, p5⟩ := hi
  step_cases h <;> refine ⟨?_, ?_, ?_, ?_, ?_⟩ <;> dsimp only <;>
    first
    | assumption
    | grind [upd, Pc.carries]
    | (cases ‹Cont› <;> grind [upd, Pc.carries])
    | (have hm := isMin_mem ‹isMin s.q _ = true›
       exact (List.perm_middle.trans ((List.perm_cons_erase hm).symm.append_right _)).trans p1)

theorem OnceInv.all_nodup {s : State} (h : OnceInv s) : (s.q ++ s.deqd).Nodup :=
  h.perm.nodup_iff.mpr h.nodup

/-- returned elements: each popped element is handed to exactly one call, which returns it once -/
structure RetdInv (s : State) : Prop where
  inflight : ∀ t x, (s.pc t).retOf = some (.deqOk x) → x ∈ s.deqd ∧ x ∉ s.retd
  distinct : ∀ t u x, t ≠ u → (s.pc t).retOf = some (.deqOk x) → (s.pc u).retOf ≠ some (.deqOk x)
  nodup : s.retd.Nodup
  sub : ∀ x ∈ s.retd, x ∈ s.deqd

theorem retdInv_init : RetdInv init := by
  constructor <;> simp [init, Pc.retOf]

theorem retdInv_step (P : Params) (s : State) (l : Label) (s' : State)
    (ho : OnceInv s) (hi : RetdInv s) (h : step P s l = some s') : RetdInv s' := by
  obtain ⟨p1, p2, p3, p4⟩ := hi
  have hnd := ho.all_nodup
  step_cases h <;> refine ⟨?_, ?_, ?_, ?_⟩ <;> dsimp only <;>
    first
    | assumption
    | grind [upd, Pc.retOf]
    | (have hm := isMin_mem ‹isMin s.q _ = true›
       have := (List.nodup_append.mp hnd).2.2 _ hm
       grind [upd, Pc.retOf])

end Ekit.DelayQ
