/-
Assembly: by induction on the fuel, every K-procedure of the translated red-black tree satisfies contract K under the
real call handler `call cmpF procs fuel`; `newRBNode`, `addNode`, `deleteNode` and the entry points `Add`, `Delete`,
`Find`, `Set` preserve the pointer-level invariant `WF`.
-/
import Ekit.Lemmas.RBPtrSafe
import Ekit.MiniGo.RBOrder
import Ekit.Lemmas.RBPtrRotate
import Ekit.Lemmas.RBPtrAdd
import Ekit.Lemmas.RBPtrDelete
import Ekit.Lemmas.RBPtrSucc
import Ekit.Lemmas.RBPtrFix
import Ekit.Lemmas.RBPtrSize

namespace Ekit.MiniGo.RBHeap
open Ekit.MiniGo Ekit.Gen.RBTreeGo

variable (cmpF : Int → Int → Int)

theorem call_specK : ∀ fuel fn, isK fn = true → SpecK (call cmpF procs fuel) fn := by
  intro fuel
  induction fuel with
  | zero => intro fn _ args st v st' t _ _ h; simp [call] at h
  | succ f ih =>
    intro fn hk
    show SpecOf (runBody cmpF (call cmpF procs f) f (procs fn))
    cases hr : isRot fn with
    | true =>
      cases fn <;> simp [isRot] at hr
      · exact Rot.rotateLeft_spec cmpF _ f ih
      · exact Rot.rotateRight_spec cmpF _ f ih
    | false => exact runBody_safe cmpF _ ih f (procs fn) (k_procs_safe fn hk hr)

/-- `getColor` is pure -/
theorem call_getColor_pure : ∀ fuel args st v st', call cmpF procs fuel .getColor args st = .ok (v, st') → st' = st := by
  intro fuel args st v st' h
  cases fuel with
  | zero => simp [call] at h
  | succ f =>
    simp only [call, runBody, procs, body_getColor, exec, evalE] at h
    cases hx : Env.ofArgs args 0 with
    | ptr p =>
      cases p with
      | none => simp [hx, valEq] at h; exact h.2.symm
      | some a => simp [hx, valEq] at h; exact h.2.symm
    | _ => simp [hx, valEq] at h

/-- `newRBNode(key, value)`: a fresh isolated node -/
theorem call_newRBNode : ∀ fuel args st v st' t, Holds st t →
    call cmpF procs fuel .newRBNode args st = .ok (v, st') →
    ∃ n, v = .ptr (some n) ∧ n ∉ t.addrs ∧ n < st'.alloc ∧ Holds st' t ∧
      (st'.h n).left = none ∧ (st'.h n).right = none ∧ (st'.h n).parent = none ∧
      (∀ a, a ≠ n → (st'.h a).key = (st.h a).key) := by
  intro fuel args st v st' t hH h
  cases fuel with
  | zero => simp [call] at h
  | succ f =>
    simp only [call, runBody, procs, body_newRBNode, exec, evalE] at h
    cases hx : Env.ofArgs args 0 <;> simp [hx] at h
    cases hy : Env.ofArgs args 1 <;> simp [hy] at h
    obtain ⟨rfl, rfl⟩ := h
    have hfresh : st.alloc ∉ t.addrs := fun hm => Nat.lt_irrefl _ (hH.2.2 _ hm)
    refine ⟨st.alloc, rfl, hfresh, by simp, ⟨?_, hH.2.1, fun a ha => Nat.lt_succ_of_lt (hH.2.2 a ha)⟩, ?_, ?_, ?_, ?_⟩
    · refine repr_congr (fun b hb => ?_) hH.1
      have : b ≠ st.alloc := fun e => hfresh (e ▸ hb)
      simp [upd, this, SamePtrs]
    · simp [upd]
    · simp [upd]
    · simp [upd]
    · intro a ha; simp [upd, ha]

theorem wf_add (fuel : Nat) (k v : Int) (st : St) (r : Val) (st' : St) (hW : WF st)
    (h : call cmpF procs fuel .Add [.int k, .int v] st = .ok (r, st')) : WF st' := by
  obtain ⟨t, hH⟩ := hW
  cases fuel with
  | zero => simp [call] at h
  | succ f =>
    simp only [call, runBody, procs, body_Add, exec, evalE, Env.ofArgs, List.getD] at h
    cases h1 : call cmpF procs f .newRBNode [Val.int k, Val.int v] st with
    | error e => simp [h1] at h
    | ok r1 =>
      obtain ⟨x, st1⟩ := r1
      simp [h1] at h
      obtain ⟨n, rfl, _, _, H1, _⟩ := call_newRBNode cmpF f _ st x st1 t hH h1
      cases h2 : call cmpF procs f .addNode [Val.ptr (some n)] st1 with
      | error e => simp [h2] at h
      | ok r2 =>
        obtain ⟨y, st2⟩ := r2
        simp [h2] at h
        obtain ⟨_, rfl⟩ := h
        cases f with
        | zero => simp [call] at h2
        | succ g =>
          exact AddN.addNode_spec cmpF (call cmpF procs g) g (call_specK cmpF g)
            (fun args st v st' t hH h => by
              obtain ⟨n, e1, e2, e3, e4, e5, e6, e7, _⟩ := call_newRBNode cmpF g args st v st' t hH h
              exact ⟨n, e1, e2, e3, e4, e5, e6, e7⟩) n st1 y st2 t H1 h2

theorem wf_delete (fuel : Nat) (k : Int) (st : St) (r : Val) (st' : St) (hW : WF st)
    (h : call cmpF procs fuel .Delete [.int k] st = .ok (r, st')) : WF st' := by
  obtain ⟨t, hH⟩ := hW
  cases fuel with
  | zero => simp [call] at h
  | succ f =>
    simp only [call, runBody, procs, body_Delete, exec, evalE, Env.ofArgs, List.getD, Env.set] at h
    cases h1 : call cmpF procs f .findNode [Val.int k] st with
    | error e => simp [h1] at h
    | ok r1 =>
      obtain ⟨x, st1⟩ := r1
      obtain ⟨t1, H1, S1, P1⟩ := call_specK cmpF f .findNode rfl [Val.int k] st x st1 t hH (by simp [PtrIn]) h1
      cases x with
      | ptr p =>
        cases p with
        | none =>
          simp [h1, valEq, Env.set] at h
          obtain ⟨_, rfl⟩ := h
          exact ⟨t1, H1⟩
        | some a =>
          simp [h1, valEq, Env.set] at h
          cases h2 : call cmpF procs f .deleteNode [Val.ptr (some a)] st1 with
          | error e => simp [h2] at h
          | ok r2 =>
            obtain ⟨y, st2⟩ := r2
            simp [h2] at h
            obtain ⟨_, rfl⟩ := h
            cases f with
            | zero => simp [call] at h2
            | succ g =>
              obtain ⟨t2, H2, _⟩ := Del.deleteNode_spec cmpF (call cmpF procs g) g (call_specK cmpF g)
                (call_getColor_pure cmpF g) a st1 y st2 t1 H1 P1 h2
              exact ⟨t2, H2⟩
      | _ => simp [h1, valEq, Env.set] at h

theorem wf_find (fuel : Nat) (k : Int) (st : St) (r : Val) (st' : St) (hW : WF st)
    (h : call cmpF procs fuel .Find [.int k] st = .ok (r, st')) : WF st' := by
  obtain ⟨t, hH⟩ := hW
  obtain ⟨t1, H1, _, _⟩ := call_specK cmpF fuel .Find rfl [Val.int k] st r st' t hH (by simp [PtrIn]) h
  exact ⟨t1, H1⟩

theorem wf_set (fuel : Nat) (k v : Int) (st : St) (r : Val) (st' : St) (hW : WF st)
    (h : call cmpF procs fuel .Set [.int k, .int v] st = .ok (r, st')) : WF st' := by
  obtain ⟨t, hH⟩ := hW
  obtain ⟨t1, H1, _, _⟩ := call_specK cmpF fuel .Set rfl [Val.int k, Val.int v] st r st' t hH (by simp [PtrIn]) h
  exact ⟨t1, H1⟩

/-! ### search-tree order -/

theorem call_findSuccessor : ∀ fuel a st v st' t, Holds st t → a ∈ t.addrs → (st.h a).right ≠ none →
    call cmpF procs fuel .findSuccessor [.ptr (some a)] st = .ok (v, st') →
    st' = st ∧ ∃ s pre post, v = .ptr (some s) ∧ t.addrs = pre ++ a :: s :: post ∧ (st.h s).left = none := by
  intro fuel a st v st' t hH ha hr h
  cases fuel with
  | zero => simp [call] at h
  | succ f => exact Succ.findSuccessor_spec cmpF (call cmpF procs f) f a st v st' t hH ha hr h

theorem ordered_of_keys_eq {st st' : St} {t : PT} (ho : Ordered cmpF st t)
    (hk : ∀ a ∈ t.addrs, (st'.h a).key = (st.h a).key) : Ordered cmpF st' t := by
  have : keysOf st' t = keysOf st t := List.map_congr_left hk
  simp only [Ordered, this]; exact ho

theorem ordwf_add (hLaw : Ekit.RB.LawfulCmp cmpF) (fuel : Nat) (k v : Int) (st : St) (r : Val) (st' : St)
    (hW : OrdWF cmpF st) (h : call cmpF procs fuel .Add [.int k, .int v] st = .ok (r, st')) : OrdWF cmpF st' := by
  obtain ⟨t, hH, hO⟩ := hW
  cases fuel with
  | zero => simp [call] at h
  | succ f =>
    simp only [call, runBody, procs, body_Add, exec, evalE, Env.ofArgs, List.getD] at h
    cases h1 : call cmpF procs f .newRBNode [Val.int k, Val.int v] st with
    | error e => simp [h1] at h
    | ok r1 =>
      obtain ⟨x, st1⟩ := r1
      simp [h1] at h
      obtain ⟨n, rfl, hn, _, H1, _, _, _, hk⟩ := call_newRBNode cmpF f _ st x st1 t hH h1
      have O1 : Ordered cmpF st1 t := ordered_of_keys_eq cmpF hO (fun a ha => hk a (fun e => hn (e ▸ ha)))
      cases h2 : call cmpF procs f .addNode [Val.ptr (some n)] st1 with
      | error e => simp [h2] at h
      | ok r2 =>
        obtain ⟨y, st2⟩ := r2
        simp [h2] at h
        obtain ⟨_, rfl⟩ := h
        cases f with
        | zero => simp [call] at h2
        | succ g =>
          exact AddN.addNode_ord cmpF hLaw (call cmpF procs g) g (call_specK cmpF g) (call_newRBNode cmpF g)
            n st1 y st2 t H1 O1 h2

/-- what `deleteNode` needs to know about `fixAfterDelete` beyond contract K: called on a leaf that has a parent, it
    never leaves that node without a parent (it never rotates the node itself up to the root) -/
def FixSpec (cmpF : Int → Int → Int) : Prop :=
  ∀ fuel x st v st' t, Holds st t → x ∈ t.addrs → (st.h x).left = none → (st.h x).right = none →
    (st.h x).parent ≠ none →
    call cmpF procs fuel .fixAfterDelete [.ptr (some x)] st = .ok (v, st') → (st'.h x).parent ≠ none

/-- `FixSpec` holds for the translated program (Lemmas/RBPtrFix.lean: the argument of `fixAfterDelete` stays a leaf) -/
theorem fixSpec_holds : FixSpec cmpF :=
  fun fuel x st v st' t hH hx hl hr hp h =>
    Fix.fixAfterDelete_keeps_parent cmpF (call_specK cmpF) fuel x st v st' t hH hx hl hr hp h

theorem ordwf_delete (hLaw : Ekit.RB.LawfulCmp cmpF) (hFix : FixSpec cmpF) (fuel : Nat) (k : Int) (st : St) (r : Val) (st' : St)
    (hW : OrdWF cmpF st) (h : call cmpF procs fuel .Delete [.int k] st = .ok (r, st')) : OrdWF cmpF st' := by
  obtain ⟨t, hH, hO⟩ := hW
  cases fuel with
  | zero => simp [call] at h
  | succ f =>
    simp only [call, runBody, procs, body_Delete, exec, evalE, Env.ofArgs, List.getD, Env.set] at h
    cases h1 : call cmpF procs f .findNode [Val.int k] st with
    | error e => simp [h1] at h
    | ok r1 =>
      obtain ⟨x, st1⟩ := r1
      obtain ⟨t1, H1, S1, P1⟩ := call_specK cmpF f .findNode rfl [Val.int k] st x st1 t hH (by simp [PtrIn]) h1
      have O1 := S1.ordered hO
      cases x with
      | ptr p =>
        cases p with
        | none =>
          simp [h1, valEq, Env.set] at h
          obtain ⟨_, rfl⟩ := h
          exact ⟨t1, H1, O1⟩
        | some a =>
          simp [h1, valEq, Env.set] at h
          cases h2 : call cmpF procs f .deleteNode [Val.ptr (some a)] st1 with
          | error e => simp [h2] at h
          | ok r2 =>
            obtain ⟨y, st2⟩ := r2
            simp [h2] at h
            obtain ⟨_, rfl⟩ := h
            cases f with
            | zero => simp [call] at h2
            | succ g =>
              exact Del.deleteNode_ord cmpF hLaw (call cmpF procs g) g (call_specK cmpF g)
                (call_getColor_pure cmpF g) (call_findSuccessor cmpF g) (hFix g) a st1 y st2 t1 H1 O1 P1 h2
      | _ => simp [h1, valEq, Env.set] at h

theorem ordwf_find (fuel : Nat) (k : Int) (st : St) (r : Val) (st' : St) (hW : OrdWF cmpF st)
    (h : call cmpF procs fuel .Find [.int k] st = .ok (r, st')) : OrdWF cmpF st' := by
  obtain ⟨t, hH, hO⟩ := hW
  obtain ⟨t1, H1, S1, _⟩ := call_specK cmpF fuel .Find rfl [Val.int k] st r st' t hH (by simp [PtrIn]) h
  exact ⟨t1, H1, S1.ordered hO⟩

theorem ordwf_set (fuel : Nat) (k v : Int) (st : St) (r : Val) (st' : St) (hW : OrdWF cmpF st)
    (h : call cmpF procs fuel .Set [.int k, .int v] st = .ok (r, st')) : OrdWF cmpF st' := by
  obtain ⟨t, hH, hO⟩ := hW
  obtain ⟨t1, H1, S1, _⟩ := call_specK cmpF fuel .Set rfl [Val.int k, Val.int v] st r st' t hH (by simp [PtrIn]) h
  exact ⟨t1, H1, S1.ordered hO⟩

/-! ### size = node count -/

/-- the pointer-level invariant with the size counter -/
def SizeWF (st : St) : Prop := ∃ t, Holds st t ∧ st.size = (t.addrs.length : Int)

theorem leafSpec_holds : ∀ fuel x st v st' t, Holds st t → x ∈ t.addrs → (st.h x).left = none → (st.h x).right = none →
    (st.h x).parent ≠ none → call cmpF procs fuel .fixAfterDelete [.ptr (some x)] st = .ok (v, st') →
    (st'.h x).left = none ∧ (st'.h x).right = none :=
  fun fuel x st v st' t hH hx hl hr hp h =>
    Fix.fixAfterDelete_keeps_leaf cmpF (call_specK cmpF) fuel x st v st' t hH hx hl hr hp h

theorem sizewf_k (fuel : Nat) (fn : PName) (hk : isK fn = true) (hn : isNoSize fn = true) (args : List Val)
    (hargs : ∀ x ∈ args, ∀ A, PtrIn A x) (st : St) (r : Val) (st' : St) (hW : SizeWF st)
    (h : call cmpF procs fuel fn args st = .ok (r, st')) : SizeWF st' := by
  obtain ⟨t, hH, hs⟩ := hW
  obtain ⟨t1, H1, S1, _⟩ := call_specK cmpF fuel fn hk args st r st' t hH (fun x hx => hargs x hx _) h
  exact ⟨t1, H1, by rw [call_nosize cmpF fuel fn hn args st r st' h, hs, S1.addrs]⟩

theorem sizewf_find (fuel : Nat) (k : Int) (st : St) (r : Val) (st' : St) (hW : SizeWF st)
    (h : call cmpF procs fuel .Find [.int k] st = .ok (r, st')) : SizeWF st' :=
  sizewf_k cmpF fuel .Find rfl rfl _ (by intro x hx A; simp at hx; subst hx; trivial) st r st' hW h

theorem sizewf_set (fuel : Nat) (k v : Int) (st : St) (r : Val) (st' : St) (hW : SizeWF st)
    (h : call cmpF procs fuel .Set [.int k, .int v] st = .ok (r, st')) : SizeWF st' :=
  sizewf_k cmpF fuel .Set rfl rfl _ (by intro x hx A; simp at hx; rcases hx with rfl | rfl <;> trivial) st r st' hW h

theorem sizewf_add (fuel : Nat) (k v : Int) (st : St) (r : Val) (st' : St)
    (hW : SizeWF st) (h : call cmpF procs fuel .Add [.int k, .int v] st = .ok (r, st')) : SizeWF st' := by
  obtain ⟨t, hH, hs⟩ := hW
  cases fuel with
  | zero => simp [call] at h
  | succ f =>
    simp only [call, runBody, procs, body_Add, exec, evalE, Env.ofArgs, List.getD] at h
    cases h1 : call cmpF procs f .newRBNode [Val.int k, Val.int v] st with
    | error e => simp [h1] at h
    | ok r1 =>
      obtain ⟨x, st1⟩ := r1
      simp [h1] at h
      obtain ⟨n, rfl, _, _, H1, _⟩ := call_newRBNode cmpF f _ st x st1 t hH h1
      have hs1 : st1.size = (t.addrs.length : Int) := by
        rw [call_nosize cmpF f .newRBNode rfl _ st _ st1 h1, hs]
      cases h2 : call cmpF procs f .addNode [Val.ptr (some n)] st1 with
      | error e => simp [h2] at h
      | ok r2 =>
        obtain ⟨y, st2⟩ := r2
        simp [h2] at h
        obtain ⟨_, rfl⟩ := h
        cases f with
        | zero => simp [call] at h2
        | succ g =>
          exact AddN.addNode_size cmpF (call cmpF procs g) g (call_specK cmpF g) (call_newRBNode cmpF g)
            (call_nosize cmpF g) n st1 y st2 t H1 hs1 h2

theorem sizewf_delete (fuel : Nat) (k : Int) (st : St) (r : Val) (st' : St)
    (hW : SizeWF st) (h : call cmpF procs fuel .Delete [.int k] st = .ok (r, st')) : SizeWF st' := by
  obtain ⟨t, hH, hs⟩ := hW
  cases fuel with
  | zero => simp [call] at h
  | succ f =>
    simp only [call, runBody, procs, body_Delete, exec, evalE, Env.ofArgs, List.getD, Env.set] at h
    cases h1 : call cmpF procs f .findNode [Val.int k] st with
    | error e => simp [h1] at h
    | ok r1 =>
      obtain ⟨x, st1⟩ := r1
      obtain ⟨t1, H1, S1, P1⟩ := call_specK cmpF f .findNode rfl [Val.int k] st x st1 t hH (by simp [PtrIn]) h1
      have hs1 : st1.size = (t1.addrs.length : Int) := by
        rw [call_nosize cmpF f .findNode rfl _ st _ st1 h1, hs, S1.addrs]
      cases x with
      | ptr p =>
        cases p with
        | none =>
          simp [h1, valEq, Env.set] at h
          obtain ⟨_, rfl⟩ := h
          exact ⟨t1, H1, hs1⟩
        | some a =>
          simp [h1, valEq, Env.set] at h
          cases h2 : call cmpF procs f .deleteNode [Val.ptr (some a)] st1 with
          | error e => simp [h2] at h
          | ok r2 =>
            obtain ⟨y, st2⟩ := r2
            simp [h2] at h
            obtain ⟨_, rfl⟩ := h
            cases f with
            | zero => simp [call] at h2
            | succ g =>
              exact Del.deleteNode_size cmpF (call cmpF procs g) g (call_specK cmpF g)
                (call_getColor_pure cmpF g) (call_findSuccessor cmpF g) (fixSpec_holds cmpF g) (leafSpec_holds cmpF g)
                (call_nosize cmpF g) a st1 y st2 t1 H1 hs1 P1 h2
      | _ => simp [h1, valEq, Env.set] at h

end Ekit.MiniGo.RBHeap
