/-
Helper lemmas for C03, part 1: association lists (Go maps), the chain walks of `HashMap`, the
specification's operations, and the invariant of the bucket table.
-/
import Ekit.Model.HashMap

namespace Ekit.HashMap
open Ekit.Go

/-! ### the regenerated facts are the ones the proofs are written against
(`newNodeSetsNext` is not among them: the proofs go through whether or not `newNode` also resets `next`) -/
theorem gen_facts :
    Gen.HashMapFacts.formattingClearsKey = true ∧ Gen.HashMapFacts.formattingClearsValue = true ∧
    Gen.HashMapFacts.formattingClearsNext = true ∧ Gen.HashMapFacts.newNodeSetsKey = true ∧
    Gen.HashMapFacts.newNodeSetsValue = true ∧
    Gen.HashMapFacts.deleteFormatsBeforePoolPut = true := by decide

/-! ### association lists -/
namespace AL
variable {β : Type}

theorem lookup_eq_none {a : Int} {l : List (Int × β)} : lookup a l = none ↔ a ∉ l.map (·.1) := by
  induction l with
  | nil => simp [lookup]
  | cons x r ih =>
    obtain ⟨x1, x2⟩ := x
    by_cases h : x1 = a
    · simp [lookup, h]
    · have h' : ¬ a = x1 := fun e => h e.symm
      simp [lookup, h, h', ih]

theorem lookup_split {a : Int} {b : β} {l : List (Int × β)} (h : lookup a l = some b) :
    ∃ pre post, l = pre ++ (a, b) :: post ∧ a ∉ pre.map (·.1) := by
  induction l with
  | nil => simp [lookup] at h
  | cons x r ih =>
    obtain ⟨x1, x2⟩ := x
    by_cases hx : x1 = a
    · simp [lookup, hx] at h
      exact ⟨[], r, by simp [hx, h], by simp⟩
    · simp [lookup, hx] at h
      obtain ⟨pre, post, e, hn⟩ := ih h
      refine ⟨(x1, x2) :: pre, post, by simp [e], ?_⟩
      have : ¬ a = x1 := fun e => hx e.symm
      simpa [this] using hn

theorem lookup_of_split {a : Int} {b : β} {pre post : List (Int × β)} (hn : a ∉ pre.map (·.1)) :
    lookup a (pre ++ (a, b) :: post) = some b := by
  induction pre with
  | nil => simp [lookup]
  | cons x r ih =>
    obtain ⟨x1, x2⟩ := x
    have h1 : ¬ x1 = a := by
      intro e; apply hn; simp [e]
    have h2 : a ∉ r.map (·.1) := by
      intro e; apply hn; simp only [List.map_cons, List.mem_cons]; exact Or.inr e
    simp [lookup, h1, ih h2]

theorem set_of_split {a : Int} {b b' : β} {pre post : List (Int × β)} (hn : a ∉ pre.map (·.1)) :
    set a b' (pre ++ (a, b) :: post) = pre ++ (a, b') :: post := by
  induction pre with
  | nil => simp [set]
  | cons x r ih =>
    obtain ⟨x1, x2⟩ := x
    have h1 : ¬ x1 = a := by
      intro e; apply hn; simp [e]
    have h2 : a ∉ r.map (·.1) := by
      intro e; apply hn; simp only [List.map_cons, List.mem_cons]; exact Or.inr e
    simp [set, h1, ih h2]

theorem erase_of_split {a : Int} {b : β} {pre post : List (Int × β)} (hn : a ∉ pre.map (·.1)) :
    erase a (pre ++ (a, b) :: post) = pre ++ post := by
  induction pre with
  | nil => simp [erase]
  | cons x r ih =>
    obtain ⟨x1, x2⟩ := x
    have h1 : ¬ x1 = a := by
      intro e; apply hn; simp [e]
    have h2 : a ∉ r.map (·.1) := by
      intro e; apply hn; simp only [List.map_cons, List.mem_cons]; exact Or.inr e
    simp [erase, h1, ih h2]

theorem set_of_absent {a : Int} {b : β} {l : List (Int × β)} (hn : a ∉ l.map (·.1)) :
    set a b l = l ++ [(a, b)] := by
  induction l with
  | nil => simp [set]
  | cons x r ih =>
    obtain ⟨x1, x2⟩ := x
    have h1 : ¬ x1 = a := by
      intro e; apply hn; simp [e]
    have h2 : a ∉ r.map (·.1) := by
      intro e; apply hn; simp only [List.map_cons, List.mem_cons]; exact Or.inr e
    simp [set, h1, ih h2]

theorem erase_of_absent {a : Int} {l : List (Int × β)} (hn : a ∉ l.map (·.1)) : erase a l = l := by
  induction l with
  | nil => simp [erase]
  | cons x r ih =>
    obtain ⟨x1, x2⟩ := x
    have h1 : ¬ x1 = a := by
      intro e; apply hn; simp [e]
    have h2 : a ∉ r.map (·.1) := by
      intro e; apply hn; simp only [List.map_cons, List.mem_cons]; exact Or.inr e
    simp [erase, h1, ih h2]

/-- with distinct keys, looking up a member's key finds that member -/
theorem lookup_of_mem {l : List (Int × β)} (hnd : (l.map (·.1)).Nodup) {x : Int × β} (hx : x ∈ l) :
    lookup x.1 l = some x.2 := by
  induction l with
  | nil => simp at hx
  | cons y r ih =>
    obtain ⟨y1, y2⟩ := y
    simp only [List.map_cons, List.nodup_cons] at hnd
    rcases List.mem_cons.mp hx with e | hr
    · subst e; simp [lookup]
    · have : ¬ y1 = x.1 := by
        intro e; apply hnd.1; rw [e]; exact List.mem_map.mpr ⟨x, hr, rfl⟩
      simp [lookup, this, ih hnd.2 hr]

end AL

variable {V : Type}

/-! ### results up to the unspecified order of `Keys`/`Values` -/

/-- equality of results, except that `Keys`/`Values` of the unordered containers are compared as
    multisets (the Go map iteration order is unspecified) -/
def Ret.Equiv (a b : Ret V) : Prop :=
  match a, b with
  | .keys x, .keys y => x.Perm y
  | .vals x, .vals y => x.Perm y
  | .unit, .unit => True
  | .found x, .found y => x = y
  | .missing, .missing => True
  | .int x, .int y => x = y
  | _, _ => False

def OutEquiv (a b : Out V) : Prop :=
  match a, b with
  | .ok x, .ok y => Ret.Equiv x y
  | .err x, .err y => x = y
  | .panic x, .panic y => x = y
  | _, _ => False

/-- two result lists agree element-wise -/
def ListRel {α : Type} (E : α → α → Prop) : List α → List α → Prop
  | [], [] => True
  | a :: as, b :: bs => E a b ∧ ListRel E as bs
  | _, _ => False

abbrev OutsEquiv : List (Out V) → List (Out V) → Prop := ListRel OutEquiv

/-- a step-wise simulation extends to every history -/
theorem sim_run {σ τ ι ο : Type} (f : σ → Oracle → ι → σ × ο) (g : τ → ι → τ × ο) (Rel : σ → τ → Prop)
    (valid : Oracle → σ → Prop) (E : ο → ο → Prop)
    (hstep : ∀ st s o op, Rel st s → valid o st → Rel (f st o op).1 (g s op).1 ∧ E (f st o op).2 (g s op).2)
    (hist : List (Oracle × ι)) : ∀ (st : σ) (s : τ), Rel st s → ValidRunWith valid f st hist →
      Rel (runWith f st hist).1 (foldRun g s (hist.map (·.2))).1 ∧
        ListRel E (runWith f st hist).2 (foldRun g s (hist.map (·.2))).2 := by
  induction hist with
  | nil => intro st s hR _; exact ⟨hR, trivial⟩
  | cons x rest ih =>
    intro st s hR hv
    obtain ⟨o, op⟩ := x
    obtain ⟨hv1, hv2⟩ := hv
    obtain ⟨h1, h2⟩ := hstep st s o op hR hv1
    obtain ⟨h3, h4⟩ := ih _ _ h1 hv2
    exact ⟨h3, h2, h4⟩

theorem OutEquiv.of_eq {a b : Out V} (e : a = b) : OutEquiv a b := by
  subst e
  cases a with
  | ok r => cases r <;> simp [OutEquiv, Ret.Equiv]
  | err e => simp [OutEquiv]
  | panic m => simp [OutEquiv]


theorem OutEquiv.eq_of_lookup {a : Out V} {x : Option V} (e : OutEquiv a (.ok (Spec.lookupRet x))) :
    a = .ok (Spec.lookupRet x) := by
  cases x <;> cases a with
  | ok r => cases r <;> simp_all [OutEquiv, Ret.Equiv, Spec.lookupRet]
  | err e => simp [OutEquiv] at e
  | panic m => simp [OutEquiv] at e

theorem OutEquiv.eq_of_unit {a : Out V} (e : OutEquiv a (.ok .unit)) : a = .ok .unit := by
  cases a with
  | ok r => cases r <;> simp_all [OutEquiv, Ret.Equiv]
  | err e => simp [OutEquiv] at e
  | panic m => simp [OutEquiv] at e

/-! ### keys pairwise not `Equals` -/

/-- no two entries have `Equals` keys -/
def NoDupKeys (h : Hashable) (l : List (Int × V)) : Prop :=
  l.Pairwise fun a b => h.equals a.1 b.1 = false

theorem NoDupKeys.perm {h : Hashable} (hl : h.Law) {l l' : List (Int × V)} (hp : l.Perm l')
    (hn : NoDupKeys h l) : NoDupKeys h l' := by
  refine hp.pairwise hn ?_
  intro x y hxy
  cases hyx : h.equals y.1 x.1 with
  | false => rfl
  | true => rw [hl.symm _ _ hyx] at hxy; exact absurd hxy (by simp)

/-- two members matching the same key: the later one cannot exist -/
theorem NoDupKeys.no_second {h : Hashable} (hl : h.Law) {e : Int × V} {r : List (Int × V)} {k : Int}
    (hn : NoDupKeys h (e :: r)) (he : h.equals e.1 k = true) : ∀ x ∈ r, h.equals x.1 k = false := by
  intro x hx
  cases hxk : h.equals x.1 k with
  | false => rfl
  | true =>
    have h1 : h.equals e.1 x.1 = true := hl.trans _ _ _ he (hl.symm _ _ hxk)
    have h2 := (List.pairwise_cons.mp hn).1 x hx
    rw [h1] at h2; exact absurd h2 (by simp)

/-- in a list without `Equals`-duplicates, `find?` for a key does not depend on the order -/
theorem find_perm {h : Hashable} (hl : h.Law) (k : Int) {l l' : List (Int × V)} (hp : l.Perm l')
    (hn : NoDupKeys h l) :
    l.find? (fun e => h.equals e.1 k) = l'.find? (fun e => h.equals e.1 k) := by
  induction hp with
  | nil => rfl
  | cons x _ ih =>
    simp only [List.find?_cons]
    split
    · rfl
    · exact ih (List.pairwise_cons.mp hn).2
  | swap x y l =>
    -- y :: x :: l  ~  x :: y :: l
    simp only [List.find?_cons]
    cases hx : h.equals x.1 k <;> cases hy : h.equals y.1 k <;> simp
    -- both match: impossible
    have := NoDupKeys.no_second hl hn hy x (by simp)
    rw [hx] at this; exact absurd this (by simp)
  | trans h1 _ ih1 ih2 =>
    rw [ih1 hn, ih2 (NoDupKeys.perm hl h1 hn)]

/-! ### the specification's operations -/
namespace Spec

theorem get_perm {h : Hashable} (hl : h.Law) (k : Int) {s s' : State V} (hp : s.Perm s')
    (hn : NoDupKeys h s) : get h s k = get h s' k := by
  unfold get; rw [find_perm hl k hp hn]

theorem put_nodup {h : Hashable} (_hl : h.Law) {s : State V} (hn : NoDupKeys h s) (k : Int) (v : V) :
    NoDupKeys h (put h s k v) := by
  unfold put
  split
  · unfold NoDupKeys
    rw [List.pairwise_map]
    refine List.Pairwise.imp ?_ hn
    intro a b hab
    by_cases ha : h.equals a.1 k = true <;> by_cases hb : h.equals b.1 k = true <;> simp [ha, hb, hab]
  · rename_i hany
    unfold NoDupKeys
    rw [List.pairwise_append]
    refine ⟨hn, by simp, ?_⟩
    intro a ha b hb
    simp only [List.mem_singleton] at hb
    subst hb
    cases hak : h.equals a.1 k with
    | false => rfl
    | true => exact absurd (List.any_eq_true.mpr ⟨a, ha, hak⟩) hany

theorem delete_nodup {h : Hashable} {s : State V} (hn : NoDupKeys h s) (k : Int) :
    NoDupKeys h (delete h s k) := List.Pairwise.filter _ hn

theorem get_none_of_no_match {h : Hashable} {s : State V} {k : Int}
    (hno : ∀ e ∈ s, h.equals e.1 k = false) : get h s k = none := by
  unfold get
  have : s.find? (fun e => h.equals e.1 k) = none := by
    rw [List.find?_eq_none]; intro x hx; simp [hno x hx]
  rw [this]; rfl

theorem put_of_no_match {h : Hashable} {s : State V} {k : Int} (v : V)
    (hno : ∀ e ∈ s, h.equals e.1 k = false) : put h s k v = s ++ [(k, v)] := by
  unfold put
  have : s.any (fun e => h.equals e.1 k) = false := by
    cases hh : s.any (fun e => h.equals e.1 k) with
    | false => rfl
    | true =>
      obtain ⟨x, hx, hxk⟩ := List.any_eq_true.mp hh
      rw [hno x hx] at hxk; exact absurd hxk (by simp)
  simp [this]

theorem put_of_match {h : Hashable} {s : State V} {k : Int} (v : V) {e : Int × V}
    (he : e ∈ s) (hek : h.equals e.1 k = true) :
    put h s k v = s.map (fun e => if h.equals e.1 k then (e.1, v) else e) := by
  unfold put
  have : s.any (fun e => h.equals e.1 k) = true := List.any_eq_true.mpr ⟨e, he, hek⟩
  simp [this]

theorem delete_of_no_match {h : Hashable} {s : State V} {k : Int}
    (hno : ∀ e ∈ s, h.equals e.1 k = false) : delete h s k = s := by
  unfold delete
  rw [List.filter_eq_self]; intro a ha; simp [hno a ha]

/-- a key that is not `Equals` the deleted one is looked up as before -/
theorem get_delete_other {h : Hashable} (hl : h.Law) {k k' : Int} (hne : h.equals k k' = false)
    (s : State V) : get h (delete h s k') k = get h s k := by
  unfold get delete
  induction s with
  | nil => rfl
  | cons e r ih =>
    simp only [List.filter_cons, List.find?_cons]
    cases hk' : h.equals e.1 k' with
    | true =>
      have : h.equals e.1 k = false := by
        cases hk : h.equals e.1 k with
        | false => rfl
        | true =>
          have := hl.trans _ _ _ (hl.symm _ _ hk) hk'
          rw [this] at hne; exact absurd hne (by simp)
      simp only [Bool.not_true, Bool.false_eq_true, if_false, this]
      exact ih
    | false =>
      simp only [Bool.not_false, if_true, List.find?_cons]
      cases hk : h.equals e.1 k with
      | true => rfl
      | false => exact ih

/-- a key that is not `Equals` the written one is looked up as before -/
theorem get_put_other {h : Hashable} (hl : h.Law) {k k' : Int} (hne : h.equals k k' = false)
    (s : State V) (v : V) : get h (put h s k' v) k = get h s k := by
  have hne' : h.equals k' k = false := by
    cases hk : h.equals k' k with
    | false => rfl
    | true => rw [hl.symm _ _ hk] at hne; exact absurd hne (by simp)
  unfold put
  split
  · rename_i hany
    clear hany
    unfold get
    induction s with
    | nil => rfl
    | cons e r ih =>
      simp only [List.map_cons, List.find?_cons]
      cases hk' : h.equals e.1 k' with
      | true =>
        have : h.equals e.1 k = false := by
          cases hk : h.equals e.1 k with
          | false => rfl
          | true =>
            have := hl.trans _ _ _ (hl.symm _ _ hk) hk'
            rw [this] at hne; exact absurd hne (by simp)
        simp only [if_true, this]
        exact ih
      | false =>
        simp only [Bool.false_eq_true, if_false]
        cases hk : h.equals e.1 k with
        | true => rfl
        | false => exact ih
  · unfold get
    rw [List.find?_append]
    simp [hne']

end Spec

/-! ### chain walks -/

theorem chainGet_eq (h : Hashable) (k : Int) (c : Chain V) : chainGet h k c = Spec.get h c k := by
  induction c with
  | nil => rfl
  | cons x r ih =>
    obtain ⟨k', v'⟩ := x
    unfold chainGet Spec.get
    simp only [List.find?_cons]
    by_cases hk : h.equals k' k = true
    · simp [hk]
    · simp only [hk]
      rw [ih]; rfl

/-- the update the overwrite branch of `Put` performs, seen on a whole list -/
def upd (h : Hashable) (k : Int) (v : V) (e : Int × V) : Int × V := if h.equals e.1 k then (e.1, v) else e

theorem upd_fst (h : Hashable) (k : Int) (v : V) (e : Int × V) : (upd h k v e).1 = e.1 := by
  unfold upd; split <;> rfl

theorem map_upd_of_no_match {h : Hashable} {k : Int} (v : V) {l : List (Int × V)}
    (hno : ∀ e ∈ l, h.equals e.1 k = false) : l.map (upd h k v) = l := by
  have : l.map (upd h k v) = l.map id := List.map_congr_left (fun e he => by simp [upd, hno e he])
  simpa using this

theorem no_match_of_any_false {h : Hashable} {k : Int} {l : List (Int × V)}
    (ha : l.any (fun e => h.equals e.1 k) = false) : ∀ e ∈ l, h.equals e.1 k = false := by
  intro e he
  cases hek : h.equals e.1 k with
  | false => rfl
  | true => rw [List.any_eq_true.mpr ⟨e, he, hek⟩] at ha; exact absurd ha (by simp)

/-- `Put`'s walk overwrites exactly when some node matches, and then it is the whole-chain update -/
theorem chainPut_eq {h : Hashable} (hl : h.Law) (k : Int) (v : V) {c : Chain V} (hn : NoDupKeys h c) :
    chainPut h k v c = if c.any (fun e => h.equals e.1 k) then some (c.map (upd h k v)) else none := by
  induction c with
  | nil => rfl
  | cons x r ih =>
    obtain ⟨k', v'⟩ := x
    unfold chainPut
    by_cases hk : h.equals k' k = true
    · have hno := NoDupKeys.no_second hl hn hk
      simp [hk, upd, map_upd_of_no_match v hno]
    · have hk' : h.equals k' k = false := by simpa using hk
      rw [ih (List.pairwise_cons.mp hn).2]
      by_cases ha : r.any (fun e => h.equals e.1 k) = true
      · simp [ha, hk', upd]
      · simp [ha, hk']

/-- what `Delete`'s walk finds -/
theorem chainFind_none {h : Hashable} {k : Int} {c : Chain V} (hf : chainFind h k c = none) :
    ∀ e ∈ c, h.equals e.1 k = false := by
  induction c with
  | nil => simp
  | cons x r ih =>
    obtain ⟨k', v'⟩ := x
    unfold chainFind at hf
    by_cases hk : h.equals k' k = true
    · simp [hk] at hf
    · have hk' : h.equals k' k = false := by simpa using hk
      simp only [hk', Bool.false_eq_true, if_false, Option.map_eq_none_iff] at hf
      intro e he
      rcases List.mem_cons.mp he with e1 | e2
      · subst e1; exact hk'
      · exact ih hf e e2

theorem chainFind_some {h : Hashable} {k : Int} {c : Chain V} {num : Nat} {node : Int × V} {next : Chain V}
    (hf : chainFind h k c = some (num, node, next)) :
    c = c.take num ++ node :: next ∧ (c.take num).length = num ∧ h.equals node.1 k = true ∧
      ∀ e ∈ c.take num, h.equals e.1 k = false := by
  induction c generalizing num with
  | nil => simp [chainFind] at hf
  | cons x r ih =>
    obtain ⟨k', v'⟩ := x
    unfold chainFind at hf
    by_cases hk : h.equals k' k = true
    · simp only [hk, if_true, Option.some.injEq, Prod.mk.injEq] at hf
      obtain ⟨h0, h1, h2⟩ := hf
      subst h0 h1 h2
      simp [hk]
    · have hk' : h.equals k' k = false := by simpa using hk
      simp only [hk', Bool.false_eq_true, if_false, Option.map_eq_some_iff] at hf
      obtain ⟨⟨n, e, nx⟩, hr, heq⟩ := hf
      simp only [Prod.mk.injEq] at heq
      obtain ⟨h0, h1, h2⟩ := heq
      subst h0 h1 h2
      obtain ⟨a, b, c', d⟩ := ih hr
      refine ⟨?_, by simp [b], c', ?_⟩
      · simp only [List.take_succ_cons, List.cons_append]; rw [← a]
      · intro e' he'
        simp only [List.take_succ_cons, List.mem_cons] at he'
        rcases he' with e1 | e2
        · subst e1; exact hk'
        · exact d e' e2

/-- removing the found node is the whole-chain filter -/
theorem chainFind_filter {h : Hashable} (hl : h.Law) {k : Int} {c : Chain V} {num : Nat} {node : Int × V}
    {next : Chain V} (hn : NoDupKeys h c) (hf : chainFind h k c = some (num, node, next)) :
    c.take num ++ next = c.filter (fun e => !h.equals e.1 k) ∧
      c.find? (fun e => h.equals e.1 k) = some node := by
  obtain ⟨hc, _, hnode, hpre⟩ := chainFind_some hf
  have hn' : NoDupKeys h (node :: next) := by
    rw [hc] at hn
    exact (List.pairwise_append.mp hn).2.1
  have hnext := NoDupKeys.no_second hl hn' hnode
  constructor
  · conv => rhs; rw [hc]
    rw [List.filter_append, List.filter_cons]
    have h1 : (c.take num).filter (fun e => !h.equals e.1 k) = c.take num := by
      rw [List.filter_eq_self]; intro a ha; simp [hpre a ha]
    have h2 : next.filter (fun e => !h.equals e.1 k) = next := by
      rw [List.filter_eq_self]; intro a ha; simp [hnext a ha]
    simp [h1, h2, hnode]
  · conv => lhs; rw [hc]
    rw [List.find?_append]
    have : (c.take num).find? (fun e => h.equals e.1 k) = none := by
      rw [List.find?_eq_none]; intro x hx; simp [hpre x hx]
    simp [this, hnode]

end Ekit.HashMap
